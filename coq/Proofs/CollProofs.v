(* CollProofs.v — lemmas and proofs about the collection model Model/Coll.v (property C06).
   No axioms, no admits. *)
From Coq Require Import List ZArith Bool Lia Arith.
From MPV Require Import Model.Coll.
Import ListNotations.
Open Scope Z_scope.

(* ------------------------------------------------------------------ *)
(* Definitions *)

Definition Inv (s : st) : Prop :=
  NoDup (numbers_of s) /\
  (forall n o, In (n, o) (cache s) -> In o (objs s)).

(* every member of a problem's collection is linked to that problem *)
Definition Linked (s : st) : Prop :=
  clink s = true -> forall o, In o (objs s) -> olink s o = LThis.

(* premise on one operation:
   SetNum: the number setter of a member validates against the collection of the problem the
     member is linked to.  A member that is not linked to this collection's problem (free-standing
     collection; member taken over by another problem) can be renumbered onto a number in use
     without this collection seeing it: excluded. *)
Definition op_ok (s : st) (o : op) : Prop :=
  match o with
  | SetNum x n => olink s x = LThis \/ ~ In x (objs s) \/ ~ In n (numbers_of s)
  | _ => True
  end.
Fixpoint ops_ok (s : st) (ops : list op) : Prop :=
  match ops with [] => True | o :: r => op_ok s o /\ ops_ok (fst (step s o)) r end.

(* no member of this collection is appended to the other problem's collection *)
Definition op_keeps (s : st) (o : op) : Prop :=
  match o with FAppend x => ~ In x (objs s) | _ => True end.
Fixpoint ops_keep (s : st) (ops : list op) : Prop :=
  match ops with [] => True | o :: r => op_keeps s o /\ ops_keep (fst (step s o)) r end.

(* == is identity (Cell, Transform, Universe) *)
Definition key_inj (s : st) : Prop := forall a b, okey s a = okey s b -> a = b.

Ltac splits := repeat match goal with |- _ /\ _ => split end.

(* every cached value is an element of l *)
Definition cache_ok (c : list (Z * oid)) (l : list oid) : Prop :=
  forall n o, In (n, o) c -> In o l.

(* s' differs from s at most in the cache *)
Definition cache_only (s s' : st) : Prop :=
  objs s' = objs s /\ num s' = num s /\ olink s' = olink s /\ otype s' = otype s /\
  clink s' = clink s /\ okey s' = okey s /\ fobjs s' = fobjs s.

(* a "transparent" step: only the cache changes, and cached values stay members *)
Definition cstep (s s' : st) : Prop :=
  cache_only s s' /\ (cache_ok (cache s) (objs s) -> cache_ok (cache s') (objs s)).

(* ------------------------------------------------------------------ *)
(* Booleans *)

Lemma mem_Z_spec n l : mem_Z n l = true <-> In n l.
Proof.
  unfold mem_Z. rewrite existsb_exists. split.
  - intros [x [Hx He]]. apply Z.eqb_eq in He. subst; auto.
  - intro H. exists n. split; auto. apply Z.eqb_refl.
Qed.

Lemma mem_o_spec o l : mem_o o l = true <-> In o l.
Proof.
  unfold mem_o. rewrite existsb_exists. split.
  - intros [x [Hx He]]. apply Nat.eqb_eq in He. subst; auto.
  - intro H. exists o. split; auto. apply Nat.eqb_refl.
Qed.

Lemma mem_o_false o l : mem_o o l = false -> ~ In o l.
Proof. intros H Hin. apply mem_o_spec in Hin. congruence. Qed.

(* ------------------------------------------------------------------ *)
(* Cache *)

Lemma cache_pop_in c n p : In p (cache_pop c n) -> In p c.
Proof. unfold cache_pop. intro H. apply filter_In in H. tauto. Qed.

Lemma cache_pop_in_neq c n k x : In (k, x) c -> k <> n -> In (k, x) (cache_pop c n).
Proof.
  unfold cache_pop. intros H Hne. apply filter_In. split; auto.
  cbn [fst]. apply negb_true_iff. apply Z.eqb_neq. exact Hne.
Qed.

Lemma cache_evict_in c o k x : In (k, x) (cache_evict c o) -> In (k, x) c /\ x <> o.
Proof.
  unfold cache_evict. intro H. apply filter_In in H. destruct H as [H1 H2].
  split; auto. cbn [snd] in H2. intro; subst.
  rewrite Nat.eqb_refl in H2. discriminate.
Qed.

Lemma cache_set_in c n o k x :
  In (k, x) (cache_set c n o) -> (k = n /\ x = o) \/ In (k, x) c.
Proof.
  unfold cache_set. intros [H | H].
  - left. inversion H; auto.
  - right. eapply cache_pop_in; eauto.
Qed.

Lemma cache_get_some c n o : cache_get c n = Some o -> In (n, o) c.
Proof.
  induction c as [| [k x] r IH]; cbn [cache_get]; intros H.
  - discriminate.
  - destruct (k =? n) eqn:E.
    + apply Z.eqb_eq in E. inversion H; subst. left; reflexivity.
    + right; auto.
Qed.

Lemma cache_get_none c n x : cache_get c n = None -> ~ In (n, x) c.
Proof.
  induction c as [| [k y] r IH]; cbn [cache_get]; intros H Hin.
  - destruct Hin.
  - destruct (k =? n) eqn:E; [discriminate |].
    apply Z.eqb_neq in E. destruct Hin as [Hin | Hin].
    + inversion Hin; subst. congruence.
    + apply IH; auto.
Qed.

Lemma cache_ok_set c l n o : cache_ok c l -> In o l -> cache_ok (cache_set c n o) l.
Proof.
  intros Hc Ho k x Hin. apply cache_set_in in Hin.
  destruct Hin as [[_ ->] | Hin]; eauto.
Qed.

Lemma cache_ok_pop c l n : cache_ok c l -> cache_ok (cache_pop c n) l.
Proof. intros Hc k x Hin. apply cache_pop_in in Hin. eauto. Qed.

Lemma cache_ok_incl c l l' : cache_ok c l -> (forall x, In x l -> In x l') -> cache_ok c l'.
Proof. intros Hc Hi k x Hin. eauto. Qed.

(* ------------------------------------------------------------------ *)
(* Lists: NoDup of images *)

Lemma NoDup_map_inj_on {A B} (f : A -> B) l a b :
  NoDup (map f l) -> In a l -> In b l -> f a = f b -> a = b.
Proof.
  induction l as [| x r IH]; cbn [map]; intros ND Ha Hb E.
  - destruct Ha.
  - inversion ND as [| y l' Hnin ND']; subst.
    destruct Ha as [Ha | Ha], Hb as [Hb | Hb]; subst; auto.
    + exfalso. apply Hnin. rewrite E. apply in_map; auto.
    + exfalso. apply Hnin. rewrite <- E. apply in_map; auto.
Qed.

Lemma NoDup_app_intro {A} (l1 l2 : list A) :
  NoDup l1 -> NoDup l2 -> (forall x, In x l1 -> ~ In x l2) -> NoDup (l1 ++ l2).
Proof.
  induction l1 as [| a r IH]; cbn [app]; intros N1 N2 D; auto.
  inversion N1 as [| y l' Hnin N1']; subst. constructor.
  - intro Hin. apply in_app_or in Hin. destruct Hin as [Hin | Hin]; auto.
    apply (D a); cbn; auto.
  - apply IH; auto. intros x Hx. apply D. cbn; auto.
Qed.

Lemma map_upd_notin (f : oid -> Z) x n l :
  ~ In x l -> map (fun y => if Nat.eqb y x then n else f y) l = map f l.
Proof.
  intro Hn. apply map_ext_in. intros a Ha.
  destruct (Nat.eqb a x) eqn:E; auto.
  apply Nat.eqb_eq in E. subst. contradiction.
Qed.

Lemma NoDup_map_upd (f : oid -> Z) x n l :
  NoDup (map f l) -> ~ In n (map f l) ->
  NoDup (map (fun y => if Nat.eqb y x then n else f y) l).
Proof.
  induction l as [| a r IH]; cbn [map]; intros ND Hn.
  - constructor.
  - inversion ND as [| y l' Hnin ND']; subst. constructor.
    + intro Hin. apply in_map_iff in Hin. destruct Hin as [y [Hy Hyr]].
      destruct (Nat.eqb a x) eqn:Ea; destruct (Nat.eqb y x) eqn:Ey.
      * apply Nat.eqb_eq in Ea. apply Nat.eqb_eq in Ey. subst.
        apply Hnin. apply in_map; auto.
      * apply Hn. right. rewrite <- Hy. apply in_map; auto.
      * apply Hn. left. auto.
      * apply Hnin. rewrite <- Hy. apply in_map; auto.
    + apply IH; auto. intro Hin. apply Hn. right; auto.
Qed.

Lemma remove_first_in x o l : In x (remove_first o l) -> In x l.
Proof.
  induction l as [| a r IH]; cbn [remove_first]; intro H; auto.
  destruct (Nat.eqb a o).
  - right; auto.
  - destruct H as [H | H]; [left | right]; auto.
Qed.

Lemma remove_first_keep x o l : In x l -> x <> o -> In x (remove_first o l).
Proof.
  induction l as [| a r IH]; cbn [remove_first]; intros H Hne; auto.
  destruct (Nat.eqb a o) eqn:E.
  - apply Nat.eqb_eq in E. subst. destruct H as [H | H]; congruence.
  - destruct H as [H | H]; [left | right]; auto.
Qed.

Lemma NoDup_map_remove_first {B} (f : oid -> B) o l :
  NoDup (map f l) -> NoDup (map f (remove_first o l)).
Proof.
  induction l as [| a r IH]; cbn [remove_first map]; intro ND; auto.
  inversion ND as [| y l' Hnin ND']; subst.
  destruct (Nat.eqb a o); auto.
  cbn [map]. constructor; auto.
  intro Hin. apply Hnin. apply in_map_iff in Hin. destruct Hin as [y [Hy Hyr]].
  rewrite <- Hy. apply in_map. eapply remove_first_in; eauto.
Qed.

Lemma remove_nth_in {A} (x : A) i : forall l, In x (remove_nth i l) -> In x l.
Proof.
  induction i as [| i IH]; intros [| a r]; cbn [remove_nth]; intro H; auto.
  - right; auto.
  - destruct H as [H | H]; [left | right]; auto.
Qed.

Lemma remove_nth_keep {A} (x o : A) i :
  forall l, In x l -> nth_error l i = Some o -> x <> o -> In x (remove_nth i l).
Proof.
  induction i as [| i IH]; intros [| a r]; cbn [remove_nth nth_error]; intros H Hn Hne; auto.
  - inversion Hn; subst. destruct H as [H | H]; congruence.
  - destruct H as [H | H]; [left | right]; eauto.
Qed.

Lemma NoDup_map_remove_nth {A B} (f : A -> B) i :
  forall l, NoDup (map f l) -> NoDup (map f (remove_nth i l)).
Proof.
  induction i as [| i IH]; intros [| a r]; cbn [remove_nth map]; intro ND; auto.
  - inversion ND; auto.
  - inversion ND as [| y l' Hnin ND']; subst. constructor; auto.
    intro Hin. apply Hnin. apply in_map_iff in Hin. destruct Hin as [y [Hy Hyr]].
    rewrite <- Hy. apply in_map. eapply remove_nth_in; eauto.
Qed.

(* ------------------------------------------------------------------ *)
(* cache_only / cstep algebra *)

Lemma cache_only_refl s : cache_only s s.
Proof. unfold cache_only; repeat split; auto. Qed.

Lemma cache_only_trans s1 s2 s3 : cache_only s1 s2 -> cache_only s2 s3 -> cache_only s1 s3.
Proof.
  unfold cache_only.
  intros [A1 [A2 [A3 [A4 [A5 [A6 A7]]]]]] [B1 [B2 [B3 [B4 [B5 [B6 B7]]]]]].
  repeat split; congruence.
Qed.

Lemma cache_only_set_cache s c : cache_only s (set_cache s c).
Proof. unfold cache_only; cbn; repeat split; auto. Qed.

Lemma cstep_refl s : cstep s s.
Proof. split; [apply cache_only_refl | auto]. Qed.

Lemma cstep_trans s1 s2 s3 : cstep s1 s2 -> cstep s2 s3 -> cstep s1 s3.
Proof.
  intros [A Ac] [B Bc]. split.
  - eapply cache_only_trans; eauto.
  - intro H. destruct A as [Ho _]. rewrite Ho in Bc. auto.
Qed.

Lemma cstep_set_cache s c :
  (cache_ok (cache s) (objs s) -> cache_ok c (objs s)) -> cstep s (set_cache s c).
Proof. intro H. split; [apply cache_only_set_cache | exact H]. Qed.

Lemma cstep_objs s s' : cstep s s' -> objs s' = objs s.
Proof. intros [[H _] _]; exact H. Qed.
Lemma cstep_num s s' : cstep s s' -> num s' = num s.
Proof. intros [[_ [H _]] _]; exact H. Qed.
Lemma cstep_olink s s' : cstep s s' -> olink s' = olink s.
Proof. intros [[_ [_ [H _]]] _]; exact H. Qed.
Lemma cstep_otype s s' : cstep s s' -> otype s' = otype s.
Proof. intros [[_ [_ [_ [H _]]]] _]; exact H. Qed.
Lemma cstep_clink s s' : cstep s s' -> clink s' = clink s.
Proof. intros [[_ [_ [_ [_ [H _]]]]] _]; exact H. Qed.
Lemma cstep_okey s s' : cstep s s' -> okey s' = okey s.
Proof. intros [[_ [_ [_ [_ [_ [H _]]]]]] _]; exact H. Qed.
Lemma cstep_fobjs s s' : cstep s s' -> fobjs s' = fobjs s.
Proof. intros [[_ [_ [_ [_ [_ [_ H]]]]]] _]; exact H. Qed.

Lemma cstep_numbers s s' : cstep s s' -> numbers_of s' = numbers_of s.
Proof.
  intro H. unfold numbers_of. rewrite (cstep_objs _ _ H), (cstep_num _ _ H). reflexivity.
Qed.

Lemma cstep_fnumbers s s' : cstep s s' -> fnumbers_of s' = fnumbers_of s.
Proof.
  intro H. unfold fnumbers_of. rewrite (cstep_fobjs _ _ H), (cstep_num _ _ H). reflexivity.
Qed.

Lemma cstep_find_eq s s' x : cstep s s' -> find_eq s' x = find_eq s x.
Proof.
  intro H. unfold find_eq, oeq.
  rewrite (cstep_objs _ _ H), (cstep_num _ _ H), (cstep_okey _ _ H). reflexivity.
Qed.

Lemma cstep_inv s s' : cstep s s' -> Inv s -> Inv s'.
Proof.
  intros C [I1 I2]. unfold Inv.
  rewrite (cstep_numbers _ _ C), (cstep_objs _ _ C).
  split; auto.
  destruct C as [_ Hc]. apply Hc. exact I2.
Qed.

Lemma cstep_linked s s' : cstep s s' -> Linked s -> Linked s'.
Proof.
  intros C L. unfold Linked.
  rewrite (cstep_objs _ _ C), (cstep_olink _ _ C), (cstep_clink _ _ C). exact L.
Qed.

Lemma cstep_atomic s s' :
  cstep s s' ->
  objs s' = objs s /\ (forall x, num s' x = num s x) /\ (forall x, olink s' x = olink s x).
Proof.
  intro C. rewrite (cstep_objs _ _ C), (cstep_num _ _ C), (cstep_olink _ _ C). auto.
Qed.

Lemma atomic_refl s :
  objs s = objs s /\ (forall x, num s x = num s x) /\ (forall x, olink s x = olink s x).
Proof. auto. Qed.

(* ------------------------------------------------------------------ *)
(* in_numbers, all_numbers, get *)

Lemma refresh_until_spec numf l :
  forall c n c' b, refresh_until numf l c n = (c', b) ->
    (b = true <-> In n (map numf l)) /\
    (forall k o, In (k, o) c' -> In (k, o) c \/ In o l).
Proof.
  induction l as [| a r IH]; intros c n c' b H; cbn [refresh_until] in H.
  - inversion H; subst. split.
    + split; [discriminate | intros []].
    + auto.
  - destruct (numf a =? n) eqn:E.
    + inversion H; subst. apply Z.eqb_eq in E. split.
      * split; auto. intros _. left; exact E.
      * intros k o Hin. apply cache_set_in in Hin.
        destruct Hin as [[_ ->] | Hin]; [right; left; reflexivity | left; exact Hin].
    + apply IH in H. destruct H as [Hb Hc]. apply Z.eqb_neq in E. split.
      * rewrite Hb. cbn [map]. split; [right; auto |].
        intros [Hx | Hx]; [contradiction | exact Hx].
      * intros k o Hin. apply Hc in Hin. destruct Hin as [Hin | Hin].
        -- apply cache_set_in in Hin.
           destruct Hin as [[_ ->] | Hin]; [right; left; reflexivity | left; exact Hin].
        -- right; right; exact Hin.
Qed.

Lemma in_numbers_spec s n s' b :
  in_numbers s n = (s', b) -> cstep s s' /\ (b = true <-> In n (numbers_of s)).
Proof.
  unfold in_numbers. destruct (refresh_until (num s) (objs s) (cache s) n) as [c b'] eqn:E.
  intro H. inversion H; subst. apply refresh_until_spec in E. destruct E as [Hb Hc].
  split; [| exact Hb].
  apply cstep_set_cache. intros Hok k o Hin. apply Hc in Hin.
  destruct Hin as [Hin | Hin]; eauto.
Qed.

Lemma refresh_all_spec numf l :
  forall c k o, In (k, o) (refresh_all numf l c) -> In (k, o) c \/ In o l.
Proof.
  induction l as [| a r IH]; intros c k o H; cbn [refresh_all] in H; auto.
  apply IH in H. destruct H as [H | H].
  - apply cache_set_in in H. destruct H as [[_ ->] | H]; [right; left; reflexivity | left; exact H].
  - right; right; exact H.
Qed.

Lemma all_numbers_spec s : cstep s (fst (all_numbers s)) /\ snd (all_numbers s) = numbers_of s.
Proof.
  unfold all_numbers. cbn [fst snd]. split; auto.
  apply cstep_set_cache. intros Hok k o Hin. apply refresh_all_spec in Hin.
  destruct Hin as [Hin | Hin]; eauto.
Qed.

Lemma find_num_some numf l n o : find_num numf l n = Some o -> In o l /\ numf o = n.
Proof.
  induction l as [| a r IH]; cbn [find_num]; intro H.
  - discriminate.
  - destruct (numf a =? n) eqn:E.
    + inversion H; subst. apply Z.eqb_eq in E. split; [left; reflexivity | exact E].
    + apply IH in H. destruct H; split; [right |]; auto.
Qed.

Lemma find_num_none numf l n : find_num numf l n = None -> ~ In n (map numf l).
Proof.
  induction l as [| a r IH]; cbn [find_num map]; intros H Hin.
  - destruct Hin.
  - destruct (numf a =? n) eqn:E; [discriminate |].
    apply Z.eqb_neq in E. destruct Hin as [Hin | Hin]; [contradiction |].
    apply IH; auto.
Qed.

Lemma find_num_spec numf l n o :
  NoDup (map numf l) -> (find_num numf l n = Some o <-> In o l /\ numf o = n).
Proof.
  intro ND. split; [apply find_num_some |].
  intros [Hin Hn]. destruct (find_num numf l n) as [o' |] eqn:E.
  - apply find_num_some in E. destruct E as [Hin' Hn'].
    f_equal. eapply NoDup_map_inj_on; eauto. congruence.
  - exfalso. apply find_num_none in E. apply E. rewrite <- Hn. apply in_map; auto.
Qed.

Lemma get_cstep s i : cstep s (fst (get s i)).
Proof.
  assert (Hscan : cstep s (fst (match find_num (num s) (objs s) i with
                                | Some o => (set_cache s (cache_set (cache s) i o), Some o)
                                | None => (s, None)
                                end))).
  { destruct (find_num (num s) (objs s) i) as [o |] eqn:E; cbn [fst].
    - apply find_num_some in E. destruct E as [Hin _].
      apply cstep_set_cache. intro Hok. apply cache_ok_set; auto.
    - apply cstep_refl. }
  unfold get. destruct (cache_get (cache s) i) as [o |]; [| exact Hscan].
  destruct (num s o =? i); [apply cstep_refl | exact Hscan].
Qed.

Lemma get_lookup s n o :
  Inv s -> (snd (get s n) = Some o <-> In o (objs s) /\ num s o = n).
Proof.
  intros [I1 I2].
  assert (Hscan : snd (match find_num (num s) (objs s) n with
                       | Some o => (set_cache s (cache_set (cache s) n o), Some o)
                       | None => (s, None)
                       end) = find_num (num s) (objs s) n).
  { destruct (find_num (num s) (objs s) n); reflexivity. }
  pose proof (find_num_spec (num s) (objs s) n o I1) as Hf.
  unfold get. destruct (cache_get (cache s) n) as [o' |] eqn:Ec.
  - destruct (num s o' =? n) eqn:En.
    + cbn [snd]. apply Z.eqb_eq in En. apply cache_get_some in Ec. apply I2 in Ec. split.
      * intro H. inversion H; subst. auto.
      * intros [Hin Hn]. f_equal. eapply NoDup_map_inj_on; eauto. congruence.
    + rewrite Hscan. exact Hf.
  - rewrite Hscan. exact Hf.
Qed.

Lemma get_lookup_none s n :
  Inv s -> (snd (get s n) = None <-> ~ In n (numbers_of s)).
Proof.
  intro I. split.
  - intros H Hin. unfold numbers_of in Hin. apply in_map_iff in Hin.
    destruct Hin as [o [Hn Hin]].
    assert (snd (get s n) = Some o) as E by (apply get_lookup; auto).
    congruence.
  - intro Hn. destruct (snd (get s n)) as [o |] eqn:E; auto.
    exfalso. apply get_lookup in E; auto. destruct E as [Hin Ho].
    apply Hn. rewrite <- Ho. unfold numbers_of. apply in_map; auto.
Qed.

Lemma get_some_in s i s' o : get s i = (s', Some o) -> Inv s -> In o (objs s) /\ num s o = i.
Proof.
  intros H I. apply get_lookup; auto. rewrite H. reflexivity.
Qed.

(* ------------------------------------------------------------------ *)
(* check_number, request_number, next_number, slice *)

Lemma check_number_spec s n s' r :
  check_number s n = (s', r) ->
  cstep s s' /\
  ((r = RErr NumberConflict /\ In n (numbers_of s)) \/ (r = ROk /\ ~ In n (numbers_of s))).
Proof.
  unfold check_number. destruct (in_numbers s n) as [s1 b] eqn:E.
  apply in_numbers_spec in E. destruct E as [C Hb].
  destruct b; intro H; inversion H; subst; split; auto.
  - left. split; auto. apply Hb; auto.
  - right. split; auto. intro Hin. apply Hb in Hin. discriminate.
Qed.

Lemma request_loop_spec k :
  forall fuel s n s' r, request_loop fuel s n k = (s', r) ->
    cstep s s' /\ (forall m, r = Some m -> ~ In m (numbers_of s)).
Proof.
  induction fuel as [| f IH]; intros s n s' r H; cbn [request_loop] in H.
  - inversion H; subst. split; [apply cstep_refl | discriminate].
  - destruct (in_numbers s n) as [s1 b] eqn:E.
    apply in_numbers_spec in E. destruct E as [C Hb]. destruct b.
    + apply IH in H. destruct H as [C' Hm]. split.
      * eapply cstep_trans; eauto.
      * intros m Hr. rewrite <- (cstep_numbers _ _ C). auto.
    + inversion H; subst. split; auto.
      intros m Hr. inversion Hr; subst. intro Hin. apply Hb in Hin. discriminate.
Qed.

Lemma request_number_spec s a k s' r :
  request_number s a k = (s', r) ->
  cstep s s' /\ ((exists n, r = RNum n /\ ~ In n (numbers_of s)) \/ r = RErr OutOfFuel).
Proof.
  unfold request_number.
  destruct (request_loop (S (List.length (objs s))) s a k) as [s1 o] eqn:E.
  apply request_loop_spec in E. destruct E as [C Hm].
  destruct o as [n |]; intro H; inversion H; subst; split; auto.
  left. exists n. split; auto.
Qed.

Lemma request_fresh s a k s' n :
  request_number s a k = (s', RNum n) -> ~ In n (numbers_of s').
Proof.
  intro H. apply request_number_spec in H. destruct H as [C [[m [Hm Hn]] | Hm]].
  - inversion Hm; subst. rewrite (cstep_numbers _ _ C). exact Hn.
  - discriminate.
Qed.

(* termination of request_number *)
Definition cnt_ge (n : Z) (l : list Z) : nat := List.length (filter (fun x => n <=? x) l).
Definition cnt_le (n : Z) (l : list Z) : nat := List.length (filter (fun x => x <=? n) l).

Lemma cnt_ge_bound n l : (cnt_ge n l <= List.length l)%nat.
Proof.
  unfold cnt_ge. induction l as [| a r IH]; cbn [filter List.length]; auto.
  destruct (n <=? a); cbn [List.length]; lia.
Qed.

Lemma cnt_le_bound n l : (cnt_le n l <= List.length l)%nat.
Proof.
  unfold cnt_le. induction l as [| a r IH]; cbn [filter List.length]; auto.
  destruct (a <=? n); cbn [List.length]; lia.
Qed.

Lemma cnt_ge_mono n k l : 0 < k -> (cnt_ge (n + k) l <= cnt_ge n l)%nat.
Proof.
  intro Hk. unfold cnt_ge. induction l as [| a r IH]; cbn [filter List.length]; auto.
  destruct (n + k <=? a) eqn:E1; destruct (n <=? a) eqn:E2; cbn [List.length]; try lia.
  all: apply Z.leb_le in E1; apply Z.leb_gt in E2; lia.
Qed.

Lemma cnt_ge_dec n k l : 0 < k -> In n l -> (cnt_ge (n + k) l < cnt_ge n l)%nat.
Proof.
  intro Hk. induction l as [| a r IH]; intro Hin; [destruct Hin |].
  pose proof (cnt_ge_mono n k r Hk) as Hm.
  unfold cnt_ge in *. cbn [filter List.length].
  destruct Hin as [Hin | Hin].
  - subst a. destruct (n + k <=? n) eqn:E1.
    + apply Z.leb_le in E1. lia.
    + rewrite Z.leb_refl. cbn [List.length]. lia.
  - specialize (IH Hin).
    destruct (n + k <=? a) eqn:E1; destruct (n <=? a) eqn:E2; cbn [List.length]; try lia.
    all: apply Z.leb_le in E1; apply Z.leb_gt in E2; lia.
Qed.

Lemma cnt_le_mono n k l : k < 0 -> (cnt_le (n + k) l <= cnt_le n l)%nat.
Proof.
  intro Hk. unfold cnt_le. induction l as [| a r IH]; cbn [filter List.length]; auto.
  destruct (a <=? n + k) eqn:E1; destruct (a <=? n) eqn:E2; cbn [List.length]; try lia.
  all: apply Z.leb_le in E1; apply Z.leb_gt in E2; lia.
Qed.

Lemma cnt_le_dec n k l : k < 0 -> In n l -> (cnt_le (n + k) l < cnt_le n l)%nat.
Proof.
  intro Hk. induction l as [| a r IH]; intro Hin; [destruct Hin |].
  pose proof (cnt_le_mono n k r Hk) as Hm.
  unfold cnt_le in *. cbn [filter List.length].
  destruct Hin as [Hin | Hin].
  - subst a. destruct (n <=? n + k) eqn:E1.
    + apply Z.leb_le in E1. lia.
    + rewrite Z.leb_refl. cbn [List.length]. lia.
  - specialize (IH Hin).
    destruct (a <=? n + k) eqn:E1; destruct (a <=? n) eqn:E2; cbn [List.length]; try lia.
    all: apply Z.leb_le in E1; apply Z.leb_gt in E2; lia.
Qed.

Lemma request_loop_term_gen (k : Z) (m : Z -> list Z -> nat)
  (Hdec : forall (n : Z) (l : list Z), In n l -> (m (n + k)%Z l < m n l)%nat) :
  forall fuel s n, (m n (numbers_of s) < fuel)%nat ->
    exists s' r, request_loop fuel s n k = (s', Some r).
Proof.
  induction fuel as [| f IH]; intros s n Hlt; [lia |].
  cbn [request_loop]. destruct (in_numbers s n) as [s1 b] eqn:E.
  apply in_numbers_spec in E. destruct E as [C Hb]. destruct b.
  - apply IH. rewrite (cstep_numbers _ _ C).
    assert (In n (numbers_of s)) as Hin by (apply Hb; reflexivity).
    specialize (Hdec n (numbers_of s) Hin). lia.
  - eauto.
Qed.

Lemma request_terminates s a k :
  k <> 0 -> forall s', request_number s a k <> (s', RErr OutOfFuel).
Proof.
  intros Hk s'. unfold request_number.
  assert (exists s1 r, request_loop (S (List.length (objs s))) s a k = (s1, Some r)) as Ht.
  { assert (List.length (numbers_of s) = List.length (objs s)) as Hl
      by (unfold numbers_of; apply map_length).
    destruct (Z_lt_ge_dec 0 k) as [Hpos | Hneg].
    - apply (request_loop_term_gen k cnt_ge).
      + intros n l Hin. apply cnt_ge_dec; auto.
      + pose proof (cnt_ge_bound a (numbers_of s)). lia.
    - apply (request_loop_term_gen k cnt_le).
      + intros n l Hin. apply cnt_le_dec; auto. lia.
      + pose proof (cnt_le_bound a (numbers_of s)). lia. }
  destruct Ht as [s1 [r E]]. rewrite E. discriminate.
Qed.

(* next_number *)
Lemma fold_left_max_ge r :
  forall x, x <= fold_left Z.max r x /\ (forall y, In y r -> y <= fold_left Z.max r x).
Proof.
  induction r as [| a r IH]; intro x; cbn [fold_left].
  - split; [lia | intros y []].
  - destruct (IH (Z.max x a)) as [H1 H2]. split; [lia |].
    intros y [Hy | Hy]; [subst; lia | auto].
Qed.

Lemma zmax_list_ge l m : zmax_list l = Some m -> forall y, In y l -> y <= m.
Proof.
  destruct l as [| x r]; cbn [zmax_list]; intro H; [discriminate |].
  inversion H; subst. destruct (fold_left_max_ge r x) as [H1 H2].
  intros y [Hy | Hy]; [subst; auto | auto].
Qed.

Lemma next_number_cstep s k : cstep s (fst (next_number s k)).
Proof.
  unfold next_number. destruct (k <=? 0); [apply cstep_refl |].
  destruct (all_numbers_spec s) as [C E].
  destruct (all_numbers s) as [s1 ns]. cbn [fst snd] in *.
  destruct (zmax_list ns); exact C.
Qed.

Lemma next_fresh s k s' n :
  next_number s k = (s', RNum n) -> ~ In n (numbers_of s').
Proof.
  intro H. pose proof (next_number_cstep s k) as C. rewrite H in C. cbn [fst] in C.
  rewrite (cstep_numbers _ _ C). revert H.
  unfold next_number. destruct (k <=? 0) eqn:Ek; [discriminate |].
  apply Z.leb_gt in Ek.
  destruct (all_numbers_spec s) as [_ E].
  destruct (all_numbers s) as [s1 ns]. cbn [snd] in E. subst ns.
  destruct (zmax_list (numbers_of s)) as [m |] eqn:Em; [| discriminate].
  intro H. inversion H; subst. intro Hin.
  pose proof (zmax_list_ge _ _ Em _ Hin). lia.
Qed.

(* slice *)
Lemma slice_loop_cstep k :
  forall fuel s i acc, cstep s (fst (slice_loop fuel s i k acc)).
Proof.
  induction fuel as [| f IH]; intros s i acc; cbn [slice_loop].
  - apply cstep_refl.
  - pose proof (get_cstep s i) as C. destruct (get s i) as [s1 [o |]]; cbn [fst] in C;
      eapply cstep_trans; eauto.
Qed.

Lemma slice_spec s a b c :
  cstep s (fst (slice s a b c)) /\
  (snd (slice s a b c) = RErr ValueErr \/ exists l, snd (slice s a b c) = RObjs l).
Proof.
  unfold slice. cbv zeta.
  assert (Hfin : forall s1 rstep (p : Z * Z), cstep s s1 ->
    let r := (if rstep =? 0 then (s1, RErr ValueErr)
              else let '(rstart, rstop) := p in
                   let (s3, l) := slice_loop (Z.to_nat (range_len rstart rstop rstep)) s1 rstart rstep [] in
                   (s3, RObjs l)) in
    cstep s (fst r) /\ (snd r = RErr ValueErr \/ exists l, snd r = RObjs l)).
  { intros s1 rstep [rstart rstop] C. cbv zeta.
    destruct (rstep =? 0); cbn [fst snd]; [auto |].
    pose proof (slice_loop_cstep rstep (Z.to_nat (range_len rstart rstop rstep)) s1 rstart []) as C2.
    destruct (slice_loop (Z.to_nat (range_len rstart rstop rstep)) s1 rstart rstep []) as [s3 l].
    cbn [fst snd] in *. split; [eapply cstep_trans; eauto | right; eauto]. }
  destruct (orb _ _).
  - destruct (all_numbers_spec s) as [C E].
    destruct (all_numbers s) as [s1 ns]. cbn [fst snd] in C, E.
    destruct (zmax_list ns) as [m |]; cbn [fst snd]; [| auto].
    apply (Hfin s1); auto.
  - apply (Hfin s); auto. apply cstep_refl.
Qed.

(* ------------------------------------------------------------------ *)
(* Inv constructors *)

Lemma add_members_inv s s' l :
  Inv s ->
  objs s' = objs s ++ l -> num s' = num s ->
  cache_ok (cache s') (objs s ++ l) ->
  NoDup (map (num s) l) ->
  (forall o, In o l -> ~ In (num s o) (numbers_of s)) ->
  Inv s'.
Proof.
  intros [I1 I2] Ho Hn Hca ND Hfresh. unfold Inv, numbers_of.
  rewrite Ho, Hn. split.
  - rewrite map_app. apply NoDup_app_intro; auto.
    intros x Hx Hx'. apply in_map_iff in Hx'. destruct Hx' as [o [Hox Hol]].
    apply (Hfresh o Hol). rewrite Hox. exact Hx.
  - exact Hca.
Qed.

Lemma sub_members_inv s s' :
  Inv s ->
  num s' = num s ->
  (forall x, In x (objs s') -> In x (objs s)) ->
  NoDup (map (num s) (objs s')) ->
  cache_ok (cache s') (objs s') ->
  Inv s'.
Proof.
  intros [I1 I2] Hn Hsub ND Hca. unfold Inv, numbers_of.
  rewrite Hn. split; auto.
Qed.

(* ------------------------------------------------------------------ *)
(* set_number *)

Lemma set_number_spec s o n s' r :
  set_number s o n = (s', r) ->
  (r = RErr ValueErr /\ s' = s) \/
  (r = RErr NumberConflict /\ cstep s s' /\
   ((In n (numbers_of s) /\ olink s o = LThis) \/ (In n (fnumbers_of s) /\ olink s o = LOther))) \/
  (r = ROk /\ exists s1, cstep s s1 /\ s' = set_num s1 o n /\
                         (olink s o = LThis -> ~ In n (numbers_of s))).
Proof.
  unfold set_number. destruct (n <=? 0).
  - intro H; inversion H; subst. left; auto.
  - destruct (olink s o) eqn:El.
    + intro H; inversion H; subst. right; right. split; auto. exists s.
      split; [apply cstep_refl |]. split; auto. discriminate.
    + destruct (check_number s n) as [s1 r1] eqn:E.
      apply check_number_spec in E. destruct E as [C [[-> Hin] | [-> Hnin]]].
      * intro H; inversion H; subst. right; left; auto.
      * intro H; inversion H; subst. right; right. split; auto. exists s1; auto.
    + destruct (mem_Z n (fnumbers_of s)) eqn:Em.
      * intro H; inversion H; subst. right; left. split; auto. split; [apply cstep_refl |].
        right. split; auto. apply mem_Z_spec; exact Em.
      * intro H; inversion H; subst. right; right. split; auto. exists s.
        split; [apply cstep_refl |]. split; auto. discriminate.
Qed.

Lemma set_num_inv s o n :
  Inv s -> (~ In o (objs s) \/ ~ In n (numbers_of s)) -> Inv (set_num s o n).
Proof.
  intros [I1 I2] H. unfold Inv, numbers_of, set_num. cbn [objs cache num].
  split; auto.
  destruct H as [H | H].
  - rewrite map_upd_notin; auto.
  - apply NoDup_map_upd; auto.
Qed.

Lemma set_number_inv s o n :
  Inv s -> (olink s o = LThis \/ ~ In o (objs s) \/ ~ In n (numbers_of s)) ->
  Inv (fst (set_number s o n)).
Proof.
  intros I Hok. destruct (set_number s o n) as [s' r] eqn:E. cbn [fst].
  apply set_number_spec in E.
  destruct E as [[_ ->] | [[_ [C _]] | [_ [s1 [C [-> Hl]]]]]]; auto.
  - eapply cstep_inv; eauto.
  - apply set_num_inv; [eapply cstep_inv; eauto |].
    rewrite (cstep_objs _ _ C), (cstep_numbers _ _ C).
    destruct Hok as [Hc | [Hm | Hn]]; auto.
Qed.

(* ------------------------------------------------------------------ *)
(* links *)

Lemma link_if_fields s o :
  objs (link_if s o) = objs s /\ cache (link_if s o) = cache s /\ num (link_if s o) = num s /\
  otype (link_if s o) = otype s /\ clink (link_if s o) = clink s /\
  okey (link_if s o) = okey s /\ fobjs (link_if s o) = fobjs s /\
  (forall x, olink s x = LThis -> olink (link_if s o) x = LThis) /\
  (clink s = true -> olink (link_if s o) o = LThis) /\
  (clink s = false -> olink (link_if s o) = olink s).
Proof.
  unfold link_if. destruct (clink s) eqn:E;
    cbn [set_link set_olink objs cache num otype clink olink okey fobjs].
  - repeat split; auto.
    + intros x Hx. destruct (Nat.eqb x o); auto.
    + intros _. rewrite Nat.eqb_refl. reflexivity.
    + discriminate.
  - repeat split; auto. discriminate.
Qed.

Lemma link_if_inv s o : Inv s -> Inv (link_if s o).
Proof.
  intros [I1 I2].
  destruct (link_if_fields s o) as [Ho [Hca [Hn _]]].
  unfold Inv, numbers_of. rewrite Ho, Hca, Hn. split; auto.
Qed.

Lemma link_if_linked s o : Linked s -> Linked (link_if s o).
Proof.
  intros L.
  destruct (link_if_fields s o) as [Ho [_ [_ [_ [Hc [_ [_ [Hl _]]]]]]]].
  unfold Linked. rewrite Ho, Hc. intros Hcl x Hx. apply Hl. apply L; auto.
Qed.

Lemma link_all_fields l :
  forall s,
    objs (link_all s l) = objs s /\ cache (link_all s l) = cache s /\
    num (link_all s l) = num s /\ otype (link_all s l) = otype s /\
    clink (link_all s l) = clink s /\
    okey (link_all s l) = okey s /\ fobjs (link_all s l) = fobjs s /\
    (forall x, olink s x = LThis -> olink (link_all s l) x = LThis) /\
    (forall x, In x l -> olink (link_all s l) x = LThis).
Proof.
  induction l as [| a r IH]; intro s; cbn [link_all].
  - repeat split; auto; try (intros x []).
  - destruct (IH (set_link s a)) as [Ho [Hca [Hn [Ht [Hc [Hk [Hf [Hl1 Hl2]]]]]]]].
    cbn [set_link set_olink objs cache num otype clink olink okey fobjs] in *.
    repeat split; auto.
    + intros x Hx. apply Hl1. destruct (Nat.eqb x a); auto.
    + intros x [Hx | Hx]; auto. subst. apply Hl1. rewrite Nat.eqb_refl. reflexivity.
Qed.

(* ------------------------------------------------------------------ *)
(* append *)

Lemma append_spec s o s' r :
  append s o = (s', r) ->
  (r = RErr TypeErr /\ s' = s /\ otype s o = false) \/
  (r = RErr NumberConflict /\ cstep s s' /\ otype s o = true /\ In (num s o) (numbers_of s)) \/
  (r = ROk /\ otype s o = true /\ ~ In (num s o) (numbers_of s) /\
   objs s' = objs s ++ [o] /\ num s' = num s /\ otype s' = otype s /\ clink s' = clink s /\
   okey s' = okey s /\ fobjs s' = fobjs s /\
   (forall x, olink s x = LThis -> olink s' x = LThis) /\
   (clink s = true -> olink s' o = LThis) /\
   (clink s = false -> olink s' = olink s) /\
   (cache_ok (cache s) (objs s) -> cache_ok (cache s') (objs s ++ [o]))).
Proof.
  unfold append. destruct (otype s o) eqn:Et; cbn [negb].
  2:{ intro H; inversion H; subst. left; auto. }
  destruct (in_numbers s (num s o)) as [s1 b] eqn:E.
  apply in_numbers_spec in E. destruct E as [C Hb]. destruct b.
  - intro H; inversion H; subst. right; left.
    split; [reflexivity |]. split; [exact C |]. split; [reflexivity |]. apply Hb; reflexivity.
  - intro H; inversion H; subst. clear H. right; right.
    rewrite (cstep_objs _ _ C).
    match goal with |- context [link_if ?S o] => set (s3 := S) end.
    destruct (link_if_fields s3 o) as [Ho [Hca [Hn [Ht [Hc [Hk [Hf [Hl1 [Hl2 Hl3]]]]]]]]].
    subst s3. cbn [set_objs set_cache objs cache num otype clink olink okey fobjs] in *.
    rewrite Ho, Hca, Hn, Ht, Hc, Hk, Hf.
    rewrite (cstep_num _ _ C), (cstep_otype _ _ C), (cstep_clink _ _ C), (cstep_okey _ _ C),
      (cstep_fobjs _ _ C).
    rewrite (cstep_clink _ _ C) in Hl2, Hl3. rewrite (cstep_olink _ _ C) in Hl1, Hl3.
    splits; auto.
    + intro Hin. apply Hb in Hin. discriminate.
    + intro Hok. destruct C as [_ Hcok]. specialize (Hcok Hok).
      apply cache_ok_set.
      * eapply cache_ok_incl; eauto. intros x Hx. apply in_or_app; auto.
      * apply in_or_app. right. left. reflexivity.
Qed.

Lemma append_inv s o : Inv s -> Inv (fst (append s o)).
Proof.
  intro I. destruct (append s o) as [s' r] eqn:E. cbn [fst]. apply append_spec in E.
  destruct E as [[_ [-> _]] | [[_ [C _]] | [_ [_ [Hf [Ho [Hn [_ [_ [_ [_ [_ [_ [_ Hca]]]]]]]]]]]]]]; auto.
  - eapply cstep_inv; eauto.
  - apply (add_members_inv s s' [o]); auto.
    + apply Hca. destruct I as [_ I2]. exact I2.
    + cbn [map]. constructor; [intros [] | constructor].
    + intros x [<- | []]. exact Hf.
Qed.

Lemma append_linked s o : Linked s -> Linked (fst (append s o)).
Proof.
  intro L. destruct (append s o) as [s' r] eqn:E. cbn [fst]. apply append_spec in E.
  destruct E as [[_ [-> _]] | [[_ [C _]] | [_ [_ [_ [Ho [_ [_ [Hc [_ [_ [Hl1 [Hl2 _]]]]]]]]]]]]]; auto.
  - eapply cstep_linked; eauto.
  - unfold Linked. rewrite Ho, Hc. intros Hcl x Hx. apply in_app_or in Hx.
    destruct Hx as [Hx | [<- | []]]; auto.
Qed.

(* ------------------------------------------------------------------ *)
(* append_renumber *)

Lemma request_number_inv s a k : Inv s -> Inv (fst (request_number s a k)).
Proof.
  intro I. destruct (request_number s a k) as [s' r] eqn:E. cbn [fst].
  apply request_number_spec in E. destruct E as [C _]. eapply cstep_inv; eauto.
Qed.

Lemma append_objs_err s o s' e : append s o = (s', RErr e) -> objs s' = objs s.
Proof.
  intro H. apply append_spec in H.
  destruct H as [[_ [-> _]] | [[_ [C _]] | [Hr _]]]; auto.
  - apply cstep_objs; auto.
  - discriminate.
Qed.

Lemma append_renumber_inv s o k : Inv s -> Inv (fst (append_renumber s o k)).
Proof.
  intro I. unfold append_renumber.
  destruct (negb (otype s o)); [exact I |].
  destruct (mem_o o (objs s)) eqn:Hm; [exact I |].
  apply mem_o_false in Hm.
  pose proof (link_if_inv s o I) as I0.
  destruct (link_if_fields s o) as [Ho0 _].
  destruct (append (link_if s o) o) as [s1 r1] eqn:E1.
  pose proof (append_inv (link_if s o) o I0) as I1. rewrite E1 in I1. cbn [fst] in I1.
  destruct r1; cbn [fst]; try exact I1.
  apply append_objs_err in E1. rewrite Ho0 in E1.
  destruct e; cbn [fst]; try exact I1.
  destruct (request_number s1 (num s o) k) as [s2 r2] eqn:E2.
  pose proof (request_number_inv s1 (num s o) k I1) as I2. rewrite E2 in I2. cbn [fst] in I2.
  apply request_number_spec in E2. destruct E2 as [C2 _].
  destruct r2; cbn [fst]; try exact I2.
  destruct (set_number s2 o z) as [s3 r3] eqn:E3.
  assert (Inv s3) as I3.
  { pose proof (set_number_inv s2 o z I2) as H. rewrite E3 in H. cbn [fst] in H.
    apply H. right; left. rewrite (cstep_objs _ _ C2), E1. exact Hm. }
  destruct r3; cbn [fst]; try exact I3.
  destruct (append s3 o) as [s4 r4] eqn:E4.
  pose proof (append_inv s3 o I3) as I4. rewrite E4 in I4. cbn [fst] in I4.
  destruct r4; cbn [fst]; exact I4.
Qed.

(* set_number leaves members and links alone *)
Lemma set_number_shape s o n s' r :
  set_number s o n = (s', r) -> objs s' = objs s /\ olink s' = olink s /\ clink s' = clink s.
Proof.
  intro H. apply set_number_spec in H.
  destruct H as [[_ ->] | [[_ [C _]] | [_ [s1 [C [-> _]]]]]]; auto.
  - rewrite (cstep_objs _ _ C), (cstep_olink _ _ C), (cstep_clink _ _ C). auto.
  - cbn [set_num objs olink clink].
    rewrite (cstep_objs _ _ C), (cstep_olink _ _ C), (cstep_clink _ _ C). auto.
Qed.

Lemma set_number_linked s o n : Linked s -> Linked (fst (set_number s o n)).
Proof.
  intro L. destruct (set_number s o n) as [s' r] eqn:E. cbn [fst].
  apply set_number_shape in E. destruct E as [Ho [Hl Hc]].
  unfold Linked. rewrite Ho, Hl, Hc. exact L.
Qed.

Lemma append_renumber_linked s o k : Linked s -> Linked (fst (append_renumber s o k)).
Proof.
  intro L. unfold append_renumber.
  destruct (negb (otype s o)); [exact L |].
  destruct (mem_o o (objs s)) eqn:Hm; [exact L |].
  pose proof (link_if_linked s o L) as L0.
  destruct (append (link_if s o) o) as [s1 r1] eqn:E1.
  pose proof (append_linked (link_if s o) o L0) as L1. rewrite E1 in L1. cbn [fst] in L1.
  destruct r1; cbn [fst]; try exact L1.
  destruct e; cbn [fst]; try exact L1.
  destruct (request_number s1 (num s o) k) as [s2 r2] eqn:E2.
  apply request_number_spec in E2. destruct E2 as [C2 _].
  pose proof (cstep_linked _ _ C2 L1) as L2.
  destruct r2; cbn [fst]; try exact L2.
  destruct (set_number s2 o z) as [s3 r3] eqn:E3.
  pose proof (set_number_linked s2 o z L2) as L3. rewrite E3 in L3. cbn [fst] in L3.
  destruct r3; cbn [fst]; try exact L3.
  destruct (append s3 o) as [s4 r4] eqn:E4.
  pose proof (append_linked s3 o L3) as L4. rewrite E4 in L4. cbn [fst] in L4.
  destruct r4; cbn [fst]; exact L4.
Qed.

Definition atomic (s s' : st) : Prop :=
  objs s' = objs s /\ (forall x, num s' x = num s x) /\ (forall x, olink s' x = olink s x).

(* the NumberConflict outcomes of append_renumber are the "already a member" guard and, for a
   free-standing collection, the refusal of the new number by the other problem's collection;
   the only TypeErr outcome is the initial isinstance check: members, numbers, links unchanged *)
Lemma append_renumber_err s o k s' e :
  append_renumber s o k = (s', RErr e) -> e = NumberConflict \/ e = TypeErr ->
  atomic s s' /\ fobjs s' = fobjs s.
Proof.
  unfold append_renumber.
  destruct (otype s o) eqn:Et; cbn [negb].
  2:{ intros H _; inversion H; subst. unfold atomic; auto. }
  destruct (mem_o o (objs s)) eqn:Hm.
  { intros H _; inversion H; subst. unfold atomic; auto. }
  apply mem_o_false in Hm.
  destruct (link_if_fields s o) as [Ho0 [_ [Hn0 [Ht0 [Hc0 [_ [Hf0 [_ [Hl0 Hl0']]]]]]]]].
  destruct (append (link_if s o) o) as [s1 r1] eqn:E1.
  apply append_spec in E1.
  destruct E1 as [[_ [_ Hty]] | [[-> [C1 _]] | [-> _]]].
  - rewrite Ht0 in Hty. congruence.
  - destruct (request_number s1 (num s o) k) as [s2 r2] eqn:E2.
    apply request_number_spec in E2. destruct E2 as [C2 [[n [-> Hfresh]] | ->]].
    2:{ intros H [-> | ->]; inversion H. }
    assert (objs s2 = objs s) as Ho2
      by (rewrite (cstep_objs _ _ C2), (cstep_objs _ _ C1); exact Ho0).
    assert (otype s2 = otype s) as Ht2
      by (rewrite (cstep_otype _ _ C2), (cstep_otype _ _ C1); exact Ht0).
    destruct (set_number s2 o n) as [s3 r3] eqn:E3.
    apply set_number_spec in E3.
    destruct E3 as [[-> _] | [[-> [C3 [[Hin _] | [_ Hlo]]]] | [-> [s2' [C3 [-> _]]]]]].
    + intros H [-> | ->]; inversion H.
    + exfalso. apply Hfresh. rewrite <- (cstep_numbers _ _ C2). exact Hin.
    + (* refused by the other problem's collection: the object was not relinked, so the
         collection is free-standing *)
      intros H _. inversion H; subst s3. clear H.
      rewrite (cstep_olink _ _ C2), (cstep_olink _ _ C1) in Hlo.
      destruct (clink s) eqn:Ecl.
      { rewrite (Hl0 eq_refl) in Hlo. discriminate. }
      unfold atomic.
      rewrite (cstep_objs _ _ C3), Ho2.
      rewrite (cstep_num _ _ C3), (cstep_num _ _ C2), (cstep_num _ _ C1), Hn0.
      rewrite (cstep_olink _ _ C3), (cstep_olink _ _ C2), (cstep_olink _ _ C1), (Hl0' eq_refl).
      rewrite (cstep_fobjs _ _ C3), (cstep_fobjs _ _ C2), (cstep_fobjs _ _ C1), Hf0.
      auto.
    + destruct (append (set_num s2' o n) o) as [s4 r4] eqn:E4.
      apply append_spec in E4. cbn [set_num otype num] in E4.
      destruct E4 as [[_ [_ Hty]] | [[_ [_ [_ Hin]]] | [-> _]]].
      * rewrite (cstep_otype _ _ C3), Ht2 in Hty. congruence.
      * exfalso. rewrite Nat.eqb_refl in Hin. unfold numbers_of in Hin.
        cbn [set_num objs num] in Hin.
        rewrite map_upd_notin in Hin.
        -- apply Hfresh. rewrite <- (cstep_numbers _ _ C2), <- (cstep_numbers _ _ C3).
           exact Hin.
        -- rewrite (cstep_objs _ _ C3), Ho2. exact Hm.
      * intros H; inversion H.
  - intros H; inversion H.
Qed.

(* ------------------------------------------------------------------ *)
(* extend / iadd *)

Lemma extend_check_spec l :
  forall s seen s1 e, extend_check s l seen = (s1, e) ->
    cstep s s1 /\
    (e = None ->
       NoDup (map (num s) l) /\
       (forall o, In o l -> ~ In (num s o) (numbers_of s) /\ ~ In (num s o) seen)).
Proof.
  induction l as [| a r IH]; intros s seen s1 e H; cbn [extend_check] in H.
  - inversion H; subst. split; [apply cstep_refl |]. intros _. split; [constructor | intros o []].
  - destruct (negb (otype s a)).
    { inversion H; subst. split; [apply cstep_refl | discriminate]. }
    destruct (in_numbers s (num s a)) as [s' b] eqn:E.
    apply in_numbers_spec in E. destruct E as [C Hb].
    destruct (b || mem_Z (num s a) seen) eqn:Eb.
    { inversion H; subst. split; [exact C | discriminate]. }
    apply orb_false_iff in Eb. destruct Eb as [-> Hseen].
    apply IH in H. destruct H as [C' Hnone].
    assert (cstep s (set_cache s' (cache_pop (cache s') (num s a)))) as C''.
    { eapply cstep_trans; [exact C |]. apply cstep_set_cache. apply cache_ok_pop. }
    split; [eapply cstep_trans; eauto |].
    intro He. specialize (Hnone He). destruct Hnone as [ND Hall].
    rewrite (cstep_num _ _ C'') in ND, Hall. rewrite (cstep_numbers _ _ C'') in Hall.
    split.
    + cbn [map]. constructor; auto. intro Hin. apply in_map_iff in Hin.
      destruct Hin as [y [Hy Hyr]]. destruct (Hall y Hyr) as [_ Hns].
      apply Hns. left. symmetry; exact Hy.
    + intros o [<- | Hin].
      * split.
        -- intro Hin. apply Hb in Hin. discriminate.
        -- intro Hin. apply mem_Z_spec in Hin. congruence.
      * destruct (Hall o Hin) as [H1 H2]. split; auto. intro Hs. apply H2. right; exact Hs.
Qed.

Lemma iadd_check_spec l :
  forall s seen s1 b, iadd_check s l seen = (s1, b) ->
    cstep s s1 /\
    (b = false ->
       NoDup (map (num s) l) /\
       (forall o, In o l -> ~ In (num s o) (numbers_of s) /\ ~ In (num s o) seen)).
Proof.
  induction l as [| a r IH]; intros s seen s1 b H; cbn [iadd_check] in H.
  - inversion H; subst. split; [apply cstep_refl |]. intros _. split; [constructor | intros o []].
  - destruct (in_numbers s (num s a)) as [s' b'] eqn:E.
    apply in_numbers_spec in E. destruct E as [C Hb].
    destruct (b' || mem_Z (num s a) seen) eqn:Eb.
    { inversion H; subst. split; [exact C | discriminate]. }
    apply orb_false_iff in Eb. destruct Eb as [-> Hseen].
    apply IH in H. destruct H as [C' Hnone].
    split; [eapply cstep_trans; eauto |].
    intro He. specialize (Hnone He). destruct Hnone as [ND Hall].
    rewrite (cstep_num _ _ C) in ND, Hall. rewrite (cstep_numbers _ _ C) in Hall.
    split.
    + cbn [map]. constructor; auto. intro Hin. apply in_map_iff in Hin.
      destruct Hin as [y [Hy Hyr]]. destruct (Hall y Hyr) as [_ Hns].
      apply Hns. left. symmetry; exact Hy.
    + intros o [<- | Hin].
      * split.
        -- intro Hin. apply Hb in Hin. discriminate.
        -- intro Hin. apply mem_Z_spec in Hin. congruence.
      * destruct (Hall o Hin) as [H1 H2]. split; auto. intro Hs. apply H2. right; exact Hs.
Qed.

Lemma cache_add_all_spec numf l :
  forall c k o, In (k, o) (cache_add_all numf c l) -> In (k, o) c \/ In o l.
Proof.
  induction l as [| a r IH]; intros c k o H; cbn [cache_add_all] in H; auto.
  apply IH in H. destruct H as [H | H].
  - apply cache_set_in in H. destruct H as [[_ ->] | H]; [right; left; reflexivity | left; exact H].
  - right; right; exact H.
Qed.

(* the state after the accepted candidates l are added to s1 (cache c) *)
Lemma added_inv s1 c l :
  Inv s1 ->
  cache_ok c (objs s1 ++ l) ->
  NoDup (map (num s1) l) ->
  (forall o, In o l -> ~ In (num s1 o) (numbers_of s1)) ->
  let s3 := set_objs (set_cache s1 c) (objs s1 ++ l) in
  Inv (if clink s3 then link_all s3 l else s3).
Proof.
  intros I Hc ND Hf s3.
  assert (objs s3 = objs s1 ++ l /\ cache s3 = c /\ num s3 = num s1) as [Ho [Hca Hn]]
    by (subst s3; cbn; auto).
  destruct (clink s3) eqn:Ecl.
  - destruct (link_all_fields l s3) as [Ho' [Hca' [Hn' _]]].
    apply (add_members_inv s1 _ l I).
    + congruence.
    + congruence.
    + rewrite Hca', Hca. exact Hc.
    + exact ND.
    + exact Hf.
  - apply (add_members_inv s1 _ l I); auto; try (rewrite Hca; exact Hc).
Qed.

Lemma added_linked s1 c l :
  Linked s1 ->
  let s3 := set_objs (set_cache s1 c) (objs s1 ++ l) in
  Linked (if clink s3 then link_all s3 l else s3).
Proof.
  intros L s3.
  assert (objs s3 = objs s1 ++ l /\ clink s3 = clink s1 /\ olink s3 = olink s1) as [Ho [Hcl Hl]]
    by (subst s3; cbn; auto).
  destruct (clink s3) eqn:Ecl.
  - destruct (link_all_fields l s3) as [Ho' [_ [_ [_ [Hcl' [_ [_ [Hl1 Hl2]]]]]]]].
    unfold Linked. rewrite Ho', Ho. intros _ x Hx. apply in_app_or in Hx.
    destruct Hx as [Hx | Hx]; auto.
    apply Hl1. rewrite Hl. apply L; [congruence | exact Hx].
  - unfold Linked. rewrite Ecl. discriminate.
Qed.

Lemma set_cache_same s : set_cache s (cache s) = s.
Proof. destruct s; reflexivity. Qed.

Lemma extend_inv s l : Inv s -> Inv (fst (extend s l)).
Proof.
  intro I. unfold extend. destruct (extend_check s l []) as [s1 e] eqn:E.
  apply extend_check_spec in E. destruct E as [C Hnone].
  pose proof (cstep_inv _ _ C I) as I1.
  destruct e as [e |]; cbn [fst]; [exact I1 |].
  destruct (Hnone eq_refl) as [ND Hall].
  assert (Hs : set_objs s1 (objs s1 ++ l) =
               set_objs (set_cache s1 (cache s1)) (objs s1 ++ l))
    by (rewrite set_cache_same; reflexivity).
  rewrite Hs. apply (added_inv s1 (cache s1) l); auto.
  - destruct I1 as [_ I2]. eapply cache_ok_incl; eauto.
    intros x Hx. apply in_or_app; auto.
  - rewrite (cstep_num _ _ C). exact ND.
  - intros o Ho. rewrite (cstep_num _ _ C), (cstep_numbers _ _ C). apply Hall; auto.
Qed.

Lemma extend_linked s l : Linked s -> Linked (fst (extend s l)).
Proof.
  intro L. unfold extend. destruct (extend_check s l []) as [s1 e] eqn:E.
  apply extend_check_spec in E. destruct E as [C _].
  pose proof (cstep_linked _ _ C L) as L1.
  destruct e as [e |]; cbn [fst]; [exact L1 |].
  assert (Hs : set_objs s1 (objs s1 ++ l) =
               set_objs (set_cache s1 (cache s1)) (objs s1 ++ l))
    by (rewrite set_cache_same; reflexivity).
  rewrite Hs. apply (added_linked s1 (cache s1) l); auto.
Qed.

Lemma iadd_inv s l : Inv s -> Inv (fst (iadd s l)).
Proof.
  intro I. unfold iadd. destruct (negb (forallb (otype s) l)); [exact I |].
  destruct (iadd_check s l []) as [s1 b] eqn:E.
  apply iadd_check_spec in E. destruct E as [C Hnone].
  pose proof (cstep_inv _ _ C I) as I1.
  destruct b; cbn [fst]; [exact I1 |].
  destruct (Hnone eq_refl) as [ND Hall].
  apply (added_inv s1 (cache_add_all (num s1) (cache s1) l) l); auto.
  - intros k o Hin. apply cache_add_all_spec in Hin. apply in_or_app.
    destruct Hin as [Hin | Hin]; auto. left. destruct I1 as [_ I2]. eauto.
  - rewrite (cstep_num _ _ C). exact ND.
  - intros o Ho. rewrite (cstep_num _ _ C), (cstep_numbers _ _ C). apply Hall; auto.
Qed.

Lemma iadd_linked s l : Linked s -> Linked (fst (iadd s l)).
Proof.
  intro L. unfold iadd. destruct (negb (forallb (otype s) l)); [exact L |].
  destruct (iadd_check s l []) as [s1 b] eqn:E.
  apply iadd_check_spec in E. destruct E as [C _].
  pose proof (cstep_linked _ _ C L) as L1.
  destruct b; cbn [fst]; [exact L1 |].
  apply (added_linked s1 (cache_add_all (num s1) (cache s1) l) l); auto.
Qed.

(* ------------------------------------------------------------------ *)
(* Python == on objects *)

Lemma oeq_refl s x : oeq s x x = true.
Proof. unfold oeq. rewrite Nat.eqb_refl. reflexivity. Qed.

Lemma oeq_true s a b :
  oeq s a b = true -> a = b \/ (okey s a = okey s b /\ num s a = num s b).
Proof.
  unfold oeq. intro H. apply orb_true_iff in H. destruct H as [H | H].
  - left. apply Nat.eqb_eq; exact H.
  - right. apply andb_true_iff in H. destruct H as [H1 H2].
    split; [apply Nat.eqb_eq; exact H1 | apply Z.eqb_eq; exact H2].
Qed.

Lemma find_eq_some s x e : find_eq s x = Some e -> In e (objs s) /\ oeq s e x = true.
Proof. unfold find_eq. intro H. apply find_some in H. exact H. Qed.

(* a member is found as itself when numbers are unique *)
Lemma find_eq_member s x :
  NoDup (numbers_of s) -> In x (objs s) -> find_eq s x = Some x.
Proof.
  intros ND Hin. destruct (find_eq s x) as [e |] eqn:E.
  - apply find_eq_some in E. destruct E as [He Heq]. apply oeq_true in Heq.
    destruct Heq as [-> | [_ Hn]]; auto.
    f_equal. eapply NoDup_map_inj_on; eauto.
  - exfalso. unfold find_eq in E.
    pose proof (find_none _ _ E x Hin) as H. cbv beta in H. rewrite oeq_refl in H. discriminate.
Qed.

(* when == is identity, remove(x) finds x or nothing *)
Lemma find_eq_inj s x e : key_inj s -> find_eq s x = Some e -> e = x.
Proof.
  intros Hk E. apply find_eq_some in E. destruct E as [_ Heq]. apply oeq_true in Heq.
  destruct Heq as [-> | [Hkey _]]; auto.
Qed.

(* ------------------------------------------------------------------ *)
(* remove / pop / delitem / clear *)

Lemma evicted_ok c l l' n o :
  cache_ok c l -> (forall x, In x l -> x <> o -> In x l') ->
  cache_ok (cache_evict (cache_pop c n) o) l'.
Proof.
  intros Hc Hk k x Hin. apply cache_evict_in in Hin. destruct Hin as [Hin Hne].
  apply cache_pop_in in Hin. eauto.
Qed.

Lemma remove_inv s x : Inv s -> Inv (fst (remove s x)).
Proof.
  intros I. unfold remove. destruct (find_eq s x) as [e |]; cbn [fst]; [| exact I].
  apply (sub_members_inv s); auto; cbn [set_objs set_cache objs cache].
  - intros y. apply remove_first_in.
  - apply NoDup_map_remove_first. destruct I as [I1 _]. exact I1.
  - destruct I as [_ I2]. eapply evicted_ok; eauto.
    intros y Hy Hne. apply remove_first_keep; auto.
Qed.

Lemma remove_linked s x : Linked s -> Linked (fst (remove s x)).
Proof.
  intro L. unfold remove. destruct (find_eq s x) as [e |]; cbn [fst].
  - unfold Linked. cbn [set_objs set_cache objs olink clink].
    intros Hc y Hy. apply L; auto. eapply remove_first_in; eauto.
  - exact L.
Qed.

Lemma pop_inv s p : Inv s -> Inv (fst (pop s p)).
Proof.
  intro I. unfold pop.
  match goal with |- context [if ?b then (s, RErr IndexErr) else _] => destruct b end;
    [exact I |].
  match goal with |- context [nth_error (objs s) ?i] =>
    destruct (nth_error (objs s) i) as [o |] eqn:En; [set (idx := i) in * | exact I] end.
  cbn [fst]. apply (sub_members_inv s); auto; cbn [set_objs set_cache objs cache].
  - intros x. apply remove_nth_in.
  - apply NoDup_map_remove_nth. destruct I as [I1 _]. exact I1.
  - destruct I as [_ I2]. eapply evicted_ok; eauto.
    intros x Hx Hne. eapply remove_nth_keep; eauto.
Qed.

Lemma pop_linked s p : Linked s -> Linked (fst (pop s p)).
Proof.
  intro L. unfold pop.
  match goal with |- context [if ?b then (s, RErr IndexErr) else _] => destruct b end;
    [exact L |].
  match goal with |- context [nth_error (objs s) ?i] =>
    destruct (nth_error (objs s) i) as [o |] eqn:En; [| exact L] end.
  cbn [fst]. unfold Linked. cbn [set_objs set_cache objs olink clink].
  intros Hc y Hy. apply L; auto. eapply remove_nth_in; eauto.
Qed.

Lemma delitem_inv s n : Inv s -> Inv (fst (delitem s n)).
Proof.
  intro I. unfold delitem.
  pose proof (get_cstep s n) as C. destruct (get s n) as [s1 [o |]] eqn:G; cbn [fst] in *.
  - pose proof (cstep_inv _ _ C I) as I1.
    apply get_some_in in G; auto. destruct G as [Hin _].
    rewrite <- (cstep_objs _ _ C) in Hin.
    rewrite (find_eq_member s1 o); [| destruct I1 as [I11 _]; exact I11 | exact Hin].
    cbn [fst].
    apply (sub_members_inv s1); auto; cbn [set_objs set_cache objs cache].
    + intros x. apply remove_first_in.
    + apply NoDup_map_remove_first. destruct I1 as [I11 _]. exact I11.
    + destruct I1 as [_ I2]. eapply evicted_ok; eauto.
      intros x Hx Hne. apply remove_first_keep; auto.
  - eapply cstep_inv; eauto.
Qed.

Lemma delitem_linked s n : Linked s -> Linked (fst (delitem s n)).
Proof.
  intro L. unfold delitem.
  pose proof (get_cstep s n) as C. destruct (get s n) as [s1 [o |]]; cbn [fst] in *.
  - pose proof (cstep_linked _ _ C L) as L1.
    destruct (find_eq s1 o) as [e |]; cbn [fst].
    + unfold Linked. cbn [set_objs set_cache objs olink clink].
      intros Hc y Hy. apply L1; auto. eapply remove_first_in; eauto.
    + eapply cstep_linked; eauto. apply cstep_set_cache. apply cache_ok_pop.
  - eapply cstep_linked; eauto.
Qed.

Lemma clear_inv s : Inv s -> Inv (fst (clear s)).
Proof.
  intros [I1 I2]. unfold clear, Inv, numbers_of. cbn.
  split.
  - constructor.
  - intros n o [].
Qed.

Lemma clear_linked s : Linked s -> Linked (fst (clear s)).
Proof. intros L. unfold clear, Linked. cbn. intros _ o []. Qed.

(* the other problem's collection *)
Lemma fappend_inv s x : Inv s -> Inv (fst (fappend s x)).
Proof.
  intro I. unfold fappend. destruct (negb (otype s x)); [exact I |].
  destruct (mem_Z (num s x) (fnumbers_of s)); exact I.
Qed.

Lemma fappend_linked s x : Linked s -> ~ In x (objs s) -> Linked (fst (fappend s x)).
Proof.
  intros L Hn. unfold fappend. destruct (negb (otype s x)); [exact L |].
  destruct (mem_Z (num s x) (fnumbers_of s)); [exact L |].
  cbn [fst]. unfold Linked. cbn [set_olink set_fobjs objs olink clink].
  intros Hc y Hy. destruct (Nat.eqb y x) eqn:E.
  - apply Nat.eqb_eq in E. subst. contradiction.
  - apply L; auto.
Qed.

Lemma slice_append_cstep s a b c x : cstep s (fst (slice_append s a b c x)).
Proof.
  unfold slice_append. destruct (slice_spec s a b c) as [C _].
  destruct (slice s a b c) as [s1 r]. cbn [fst] in C.
  destruct r; cbn [fst]; try exact C.
  destruct (negb (otype s1 x)); [exact C |].
  destruct (mem_Z (num s1 x) (map (num s1) l)); exact C.
Qed.

(* ------------------------------------------------------------------ *)
(* Headline lemmas *)

Ltac op_cases o :=
  destruct o as [x | x k | l | l | key x | x | p | n | | x n | n | n | x | | | | n | a k | k | a b c | x | a b c x].

(* operations whose only effect is on the cache, whatever the result *)
Lemma step_transparent s o :
  match o with
  | Get _ | GetItem _ | Contains _ | Numbers | Keys | Len | CheckNumber _
  | RequestNumber _ _ | NextNumber _ | Slice _ _ _ | SliceAppend _ _ _ _ => cstep s (fst (step s o))
  | _ => True
  end.
Proof.
  op_cases o; cbn [Coll.step]; auto.
  - pose proof (get_cstep s n) as C. destruct (get s n) as [s1 r]. exact C.
  - pose proof (get_cstep s n) as C. destruct (get s n) as [s1 [x |]]; exact C.
  - apply cstep_refl.
  - destruct (all_numbers_spec s) as [C _]. destruct (all_numbers s) as [s1 ns]. exact C.
  - apply cstep_refl.
  - apply cstep_refl.
  - destruct (check_number s n) as [s1 r] eqn:E. apply check_number_spec in E.
    destruct E as [C _]. exact C.
  - destruct (request_number s a k) as [s1 r] eqn:E. apply request_number_spec in E.
    destruct E as [C _]. exact C.
  - apply next_number_cstep.
  - apply slice_spec.
  - apply slice_append_cstep.
Qed.

Lemma step_inv s o : Inv s -> op_ok s o -> Inv (fst (step s o)).
Proof.
  intros I Hok. pose proof (step_transparent s o) as T.
  op_cases o; cbn [Coll.step] in *; try (eapply cstep_inv; eauto; fail).
  - apply append_inv; auto.
  - apply append_renumber_inv; auto.
  - apply extend_inv; auto.
  - apply iadd_inv; auto.
  - apply append_inv; auto.
  - apply remove_inv; auto.
  - apply pop_inv; auto.
  - apply delitem_inv; auto.
  - apply clear_inv; auto.
  - apply set_number_inv; auto.
  - apply fappend_inv; auto.
Qed.

Lemma run_inv : forall ops s, Inv s -> ops_ok s ops -> Inv (run s ops).
Proof.
  induction ops as [| o r IH]; intros s I Hok; cbn [run].
  - exact I.
  - destruct Hok as [Ho Hr]. apply IH; auto. apply step_inv; auto.
Qed.

Lemma step_linked s o : Linked s -> op_keeps s o -> Linked (fst (step s o)).
Proof.
  intros L Hk. pose proof (step_transparent s o) as T.
  op_cases o; cbn [Coll.step] in *; try (eapply cstep_linked; eauto; fail).
  - apply append_linked; auto.
  - apply append_renumber_linked; auto.
  - apply extend_linked; auto.
  - apply iadd_linked; auto.
  - apply append_linked; auto.
  - apply remove_linked; auto.
  - apply pop_linked; auto.
  - apply delitem_linked; auto.
  - apply clear_linked; auto.
  - apply set_number_linked; auto.
  - apply fappend_linked; auto.
Qed.

Lemma run_linked : forall ops s, Linked s -> ops_keep s ops -> Linked (run s ops).
Proof.
  induction ops as [| o r IH]; intros s L Hk; cbn [run].
  - exact L.
  - destruct Hk as [Ho Hr]. apply IH; auto. apply step_linked; auto.
Qed.

(* the value class of an object never changes *)
Lemma append_okey s o : okey (fst (append s o)) = okey s.
Proof.
  destruct (append s o) as [s' r] eqn:E. cbn [fst]. apply append_spec in E.
  destruct E as [[_ [-> _]] | [[_ [C _]] | [_ [_ [_ [_ [_ [_ [_ [Hk _]]]]]]]]]]; auto.
  apply cstep_okey; auto.
Qed.

Lemma set_number_okey s o n : okey (fst (set_number s o n)) = okey s.
Proof.
  destruct (set_number s o n) as [s' r] eqn:E. cbn [fst]. apply set_number_spec in E.
  destruct E as [[_ ->] | [[_ [C _]] | [_ [s1 [C [-> _]]]]]]; auto.
  - apply cstep_okey; auto.
  - cbn [set_num okey]. apply cstep_okey; auto.
Qed.

Lemma step_okey s o : okey (fst (step s o)) = okey s.
Proof.
  pose proof (step_transparent s o) as T.
  op_cases o; cbn [Coll.step] in *; try (apply cstep_okey; exact T).
  - apply append_okey.
  - unfold append_renumber.
    destruct (negb (otype s x)); [reflexivity |].
    destruct (mem_o x (objs s)); [reflexivity |].
    destruct (link_if_fields s x) as [_ [_ [_ [_ [_ [Hk0 _]]]]]].
    pose proof (append_okey (link_if s x) x) as K1.
    destruct (append (link_if s x) x) as [s1 r1]. cbn [fst] in K1. rewrite Hk0 in K1.
    destruct r1; cbn [fst]; try exact K1.
    destruct e; cbn [fst]; try exact K1.
    destruct (request_number s1 (num s x) k) as [s2 r2] eqn:E2.
    apply request_number_spec in E2. destruct E2 as [C2 _].
    pose proof (cstep_okey _ _ C2) as K2. rewrite K1 in K2.
    destruct r2; cbn [fst]; try exact K2.
    pose proof (set_number_okey s2 x z) as K3.
    destruct (set_number s2 x z) as [s3 r3]. cbn [fst] in K3. rewrite K2 in K3.
    destruct r3; cbn [fst]; try exact K3.
    pose proof (append_okey s3 x) as K4.
    destruct (append s3 x) as [s4 r4]. cbn [fst] in K4. rewrite K3 in K4.
    destruct r4; cbn [fst]; exact K4.
  - unfold extend. destruct (extend_check s l []) as [s1 e] eqn:E.
    apply extend_check_spec in E. destruct E as [C _].
    destruct e; cbn [fst]; [apply cstep_okey; exact C |].
    destruct (clink (set_objs s1 (objs s1 ++ l))).
    + destruct (link_all_fields l (set_objs s1 (objs s1 ++ l))) as [_ [_ [_ [_ [_ [Hk _]]]]]].
      rewrite Hk. cbn [set_objs okey]. apply cstep_okey; exact C.
    + cbn [set_objs okey]. apply cstep_okey; exact C.
  - unfold iadd. destruct (negb (forallb (otype s) l)); [reflexivity |].
    destruct (iadd_check s l []) as [s1 b] eqn:E.
    apply iadd_check_spec in E. destruct E as [C _].
    destruct b; cbn [fst]; [apply cstep_okey; exact C |].
    match goal with |- okey (if clink ?S then _ else _) = _ => set (s3 := S) end.
    destruct (clink s3).
    + destruct (link_all_fields l s3) as [_ [_ [_ [_ [_ [Hk _]]]]]].
      rewrite Hk. subst s3. cbn [set_objs set_cache okey]. apply cstep_okey; exact C.
    + subst s3. cbn [set_objs set_cache okey]. apply cstep_okey; exact C.
  - apply append_okey.
  - unfold remove. destruct (find_eq s x); reflexivity.
  - unfold pop.
    match goal with |- context [if ?b then (s, RErr IndexErr) else _] => destruct b end;
      [reflexivity |].
    match goal with |- context [nth_error (objs s) ?i] => destruct (nth_error (objs s) i) end;
      reflexivity.
  - unfold delitem. pose proof (get_cstep s n) as C.
    destruct (get s n) as [s1 [o |]]; cbn [fst] in *.
    + destruct (find_eq s1 o); cbn [fst set_objs set_cache okey]; apply cstep_okey; exact C.
    + apply cstep_okey; exact C.
  - reflexivity.
  - apply set_number_okey.
  - unfold fappend. destruct (negb (otype s x)); [reflexivity |].
    destruct (mem_Z (num s x) (fnumbers_of s)); reflexivity.
Qed.

Lemma step_key_inj s o : key_inj s -> key_inj (fst (step s o)).
Proof. unfold key_inj. rewrite step_okey. auto. Qed.

(* a problem's collection whose members are not taken over by another problem: every operation
   is inside the premise *)
Lemma linked_ok s o : Linked s -> clink s = true -> op_ok s o.
Proof.
  intros L Hc. destruct o; cbn [op_ok]; auto.
  destruct (mem_o o (objs s)) eqn:Em.
  - left. apply L; auto. apply mem_o_spec; exact Em.
  - right; left. apply mem_o_false; exact Em.
Qed.

Lemma step_clink s o : clink (fst (step s o)) = clink s.
Proof.
  pose proof (step_transparent s o) as T.
  op_cases o; cbn [Coll.step] in *; try (apply cstep_clink; exact T).
  - destruct (append s x) as [s' r] eqn:E. cbn [fst]. apply append_spec in E.
    destruct E as [[_ [-> _]] | [[_ [C _]] | [_ [_ [_ [_ [_ [_ [Hc _]]]]]]]]]; auto.
    apply cstep_clink; auto.
  - unfold append_renumber.
    destruct (negb (otype s x)); [reflexivity |].
    destruct (mem_o x (objs s)); [reflexivity |].
    destruct (link_if_fields s x) as [_ [_ [_ [_ [Hc0 _]]]]].
    assert (forall t y, clink (fst (append t y)) = clink t) as HA.
    { intros t y. destruct (append t y) as [t' r] eqn:E. cbn [fst]. apply append_spec in E.
      destruct E as [[_ [-> _]] | [[_ [C _]] | [_ [_ [_ [_ [_ [_ [Hc _]]]]]]]]]; auto.
      apply cstep_clink; auto. }
    pose proof (HA (link_if s x) x) as K1.
    destruct (append (link_if s x) x) as [s1 r1]. cbn [fst] in K1. rewrite Hc0 in K1.
    destruct r1; cbn [fst]; try exact K1.
    destruct e; cbn [fst]; try exact K1.
    destruct (request_number s1 (num s x) k) as [s2 r2] eqn:E2.
    apply request_number_spec in E2. destruct E2 as [C2 _].
    pose proof (cstep_clink _ _ C2) as K2. rewrite K1 in K2.
    destruct r2; cbn [fst]; try exact K2.
    destruct (set_number s2 x z) as [s3 r3] eqn:E3.
    apply set_number_shape in E3. destruct E3 as [_ [_ K3]]. rewrite K2 in K3.
    destruct r3; cbn [fst]; try exact K3.
    pose proof (HA s3 x) as K4.
    destruct (append s3 x) as [s4 r4]. cbn [fst] in K4. rewrite K3 in K4.
    destruct r4; cbn [fst]; exact K4.
  - unfold extend. destruct (extend_check s l []) as [s1 e] eqn:E.
    apply extend_check_spec in E. destruct E as [C _].
    destruct e; cbn [fst]; [apply cstep_clink; exact C |].
    destruct (clink (set_objs s1 (objs s1 ++ l))) eqn:Ec.
    + destruct (link_all_fields l (set_objs s1 (objs s1 ++ l))) as [_ [_ [_ [_ [Hk _]]]]].
      rewrite Hk. cbn [set_objs clink]. apply cstep_clink; exact C.
    + cbn [set_objs clink]. apply cstep_clink; exact C.
  - unfold iadd. destruct (negb (forallb (otype s) l)); [reflexivity |].
    destruct (iadd_check s l []) as [s1 b] eqn:E.
    apply iadd_check_spec in E. destruct E as [C _].
    destruct b; cbn [fst]; [apply cstep_clink; exact C |].
    match goal with |- clink (if clink ?S then _ else _) = _ => set (s3 := S) end.
    destruct (clink s3) eqn:Ec.
    + destruct (link_all_fields l s3) as [_ [_ [_ [_ [Hk _]]]]].
      rewrite Hk. subst s3. cbn [set_objs set_cache clink]. apply cstep_clink; exact C.
    + subst s3. cbn [set_objs set_cache clink]. apply cstep_clink; exact C.
  - destruct (append s x) as [s' r] eqn:E. cbn [fst]. apply append_spec in E.
    destruct E as [[_ [-> _]] | [[_ [C _]] | [_ [_ [_ [_ [_ [_ [Hc _]]]]]]]]]; auto.
    apply cstep_clink; auto.
  - unfold remove. destruct (find_eq s x); reflexivity.
  - unfold pop.
    match goal with |- context [if ?b then (s, RErr IndexErr) else _] => destruct b end;
      [reflexivity |].
    match goal with |- context [nth_error (objs s) ?i] => destruct (nth_error (objs s) i) end;
      reflexivity.
  - unfold delitem. pose proof (get_cstep s n) as C.
    destruct (get s n) as [s1 [o |]]; cbn [fst] in *.
    + destruct (find_eq s1 o); cbn [fst set_objs set_cache clink]; apply cstep_clink; exact C.
    + apply cstep_clink; exact C.
  - reflexivity.
  - destruct (set_number s x n) as [s' r] eqn:E. cbn [fst].
    apply set_number_shape in E. destruct E as [_ [_ K]]. exact K.
  - unfold fappend. destruct (negb (otype s x)); [reflexivity |].
    destruct (mem_Z (num s x) (fnumbers_of s)); reflexivity.
Qed.

(* full strength for a problem's collection of any of the five kinds *)
Lemma run_inv_linked :
  forall ops s, Inv s -> Linked s -> clink s = true -> ops_keep s ops ->
    Inv (run s ops) /\ Linked (run s ops).
Proof.
  induction ops as [| o r IH]; intros s I L Hc Hkeep; cbn [run].
  - auto.
  - destruct Hkeep as [Ho Hr]. apply IH; auto.
    + apply step_inv; auto. apply linked_ok; auto.
    + apply step_linked; auto.
    + rewrite step_clink. exact Hc.
Qed.

(* the boolean premise used by the harness is the premise of the theorems *)
Lemma op_okb_spec s o : op_okb s o = true <-> op_ok s o.
Proof.
  destruct o; cbn [op_okb op_ok]; try tauto.
  - (* SetNum *)
    unfold setnum_seen. rewrite !orb_true_iff, !negb_true_iff. split.
    + intros [[H | H] | H].
      * left. destruct (olink s o); congruence.
      * right; left. apply mem_o_false; exact H.
      * right; right. intro Hin. apply mem_Z_spec in Hin. congruence.
    + intros [H | [H | H]].
      * left; left. rewrite H. reflexivity.
      * left; right. destruct (mem_o o (objs s)) eqn:E; auto.
        apply mem_o_spec in E. contradiction.
      * right. destruct (mem_Z n (numbers_of s)) eqn:E; auto.
        apply mem_Z_spec in E. contradiction.
Qed.

Lemma err_atomic s o s' e :
  step s o = (s', RErr e) -> e = NumberConflict \/ e = TypeErr -> atomic s s' /\ fobjs s' = fobjs s.
Proof.
  intros H He.
  assert (forall t t', cstep t t' -> atomic t t' /\ fobjs t' = fobjs t) as CA.
  { intros t t' C. split; [apply cstep_atomic; exact C | apply cstep_fobjs; exact C]. }
  assert (atomic s s /\ fobjs s = fobjs s) as AR by (unfold atomic; auto).
  pose proof (step_transparent s o) as T.
  op_cases o; cbn [Coll.step] in H, T;
    try (rewrite H in T; cbn [fst] in T; apply CA; exact T).
  - (* Append *)
    apply append_spec in H.
    destruct H as [[_ [-> _]] | [[_ [C _]] | [Hr _]]];
      [exact AR | apply CA; exact C | discriminate].
  - (* AppendRenumber *)
    apply append_renumber_err in H; auto.
  - (* Extend *)
    unfold extend in H. destruct (extend_check s l []) as [s1 e1] eqn:E.
    apply extend_check_spec in E. destruct E as [C _].
    destruct e1; inversion H; subst. apply CA; exact C.
  - (* Iadd *)
    unfold iadd in H. destruct (negb (forallb (otype s) l)).
    + inversion H; subst. exact AR.
    + destruct (iadd_check s l []) as [s1 b] eqn:E.
      apply iadd_check_spec in E. destruct E as [C _].
      destruct b; inversion H; subst. apply CA; exact C.
  - (* SetItem *)
    apply append_spec in H.
    destruct H as [[_ [-> _]] | [[_ [C _]] | [Hr _]]];
      [exact AR | apply CA; exact C | discriminate].
  - (* Remove *)
    unfold remove in H. destruct (find_eq s x); inversion H; subst.
    destruct He; discriminate.
  - (* Pop *)
    unfold pop in H.
    match type of H with context [if ?b then (s, RErr IndexErr) else _] => destruct b end.
    + inversion H; subst. destruct He; discriminate.
    + match type of H with context [nth_error (objs s) ?i] =>
        destruct (nth_error (objs s) i) end; inversion H; subst. destruct He; discriminate.
  - (* DelItem *)
    unfold delitem in H. destruct (get s n) as [s1 [y |]].
    + destruct (find_eq s1 y); inversion H; subst. destruct He; discriminate.
    + inversion H; subst. destruct He; discriminate.
  - (* Clear *)
    unfold clear in H. inversion H.
  - (* SetNum *)
    apply set_number_spec in H.
    destruct H as [[Hr _] | [[_ [C _]] | [Hr _]]];
      [inversion Hr; subst; destruct He; discriminate | apply CA; exact C | discriminate].
  - (* FAppend *)
    unfold fappend in H. destruct (negb (otype s x)).
    + inversion H; subst. exact AR.
    + destruct (mem_Z (num s x) (fnumbers_of s)); inversion H; subst. exact AR.
Qed.

Lemma conflict_atomic s o s' :
  Inv s -> step s o = (s', RErr NumberConflict) ->
  objs s' = objs s /\ (forall x, num s' x = num s x) /\ (forall x, olink s' x = olink s x).
Proof. intros _ H. apply (err_atomic s o s' NumberConflict); auto. Qed.

Lemma type_error_atomic s o s' :
  step s o = (s', RErr TypeErr) ->
  objs s' = objs s /\ (forall x, num s' x = num s x) /\ (forall x, olink s' x = olink s x).
Proof. intros H. apply (err_atomic s o s' TypeErr); auto. Qed.

(* the other problem's collection is left alone too *)
Lemma conflict_atomic_foreign s o s' :
  step s o = (s', RErr NumberConflict) -> fobjs s' = fobjs s.
Proof. intros H. apply (err_atomic s o s' NumberConflict); auto. Qed.

Lemma type_error_atomic_foreign s o s' :
  step s o = (s', RErr TypeErr) -> fobjs s' = fobjs s.
Proof. intros H. apply (err_atomic s o s' TypeErr); auto. Qed.

(* ------------------------------------------------------------------ *)
(* init *)

Lemma init_cache_spec numf l :
  forall c c', init_cache numf l c = Some c' ->
    NoDup (map numf l) /\
    (forall o x, In o l -> ~ In (numf o, x) c) /\
    (forall k o, In (k, o) c' -> In (k, o) c \/ In o l).
Proof.
  induction l as [| a r IH]; intros c c' H; cbn [init_cache] in H.
  - inversion H; subst. splits; [constructor | intros o x [] | auto].
  - destruct (cache_get c (numf a)) eqn:Eg; [discriminate |].
    apply IH in H. destruct H as [ND [Hnk Hin]].
    assert (forall o, In o r -> numf o <> numf a) as Hne.
    { intros o Ho E. apply (Hnk o a Ho). rewrite E. left; reflexivity. }
    splits.
    + cbn [map]. constructor; auto. intro Hx. apply in_map_iff in Hx.
      destruct Hx as [y [Hy Hyr]]. apply (Hne y Hyr Hy).
    + intros o x [<- | Ho].
      * apply cache_get_none. exact Eg.
      * intro Hc. apply (Hnk o x Ho). right. apply cache_pop_in_neq; auto.
    + intros k o Hk. apply Hin in Hk. destruct Hk as [Hk | Hk].
      * apply cache_set_in in Hk. destruct Hk as [[_ ->] | Hk]; [right; left; reflexivity | auto].
      * right; right; exact Hk.
Qed.

Lemma init_inv l numf kf lk ty cl fl s :
  init l numf kf lk ty cl fl = Some s -> Inv s.
Proof.
  unfold init. destruct (negb (forallb ty l)); [discriminate |].
  destruct (init_cache numf l []) as [c |] eqn:E; [| discriminate].
  intros H. inversion H; subst. apply init_cache_spec in E.
  destruct E as [ND [_ Hin]].
  unfold Inv, numbers_of. cbn [objs cache num]. split; auto.
  intros n o Hc. apply Hin in Hc. destruct Hc as [[] | Hc]; exact Hc.
Qed.

Lemma init_linked l numf kf lk ty cl fl s :
  init l numf kf lk ty cl fl = Some s ->
  (cl = true -> forall o, In o l -> lk o = LThis) -> Linked s.
Proof.
  unfold init. destruct (negb (forallb ty l)); [discriminate |].
  destruct (init_cache numf l []) as [c |]; [| discriminate].
  intros H Hl. inversion H; subst. unfold Linked. cbn [objs olink clink]. exact Hl.
Qed.

(* ------------------------------------------------------------------ *)
(* regression witness of the repaired defect (fix: remove(x) evicts the entries of the member it
   takes out): objects 0 and 1 have the same value; 0 is the only member, numbered 5, object 1 is
   numbered 6.  Member 0 is renumbered 5 -> 6, remove(1) takes out member 0, object 0 is renumbered
   back to 5: get(5) finds nothing (before the repair it answered object 0). *)
Definition twin_st : st :=
  mkst [0%nat] [(5, 0%nat)] (fun o => if Nat.eqb o 0 then 5 else 6) (fun _ => 0%nat)
       (fun o => if Nat.eqb o 0 then LThis else LNone) (fun _ => true) true [].
Definition twin_ops : list op := [SetNum 0%nat 6; Remove 1%nat; SetNum 0%nat 5].

Lemma twin_st_init :
  init [0%nat] (fun o => if Nat.eqb o 0 then 5 else 6) (fun _ => 0%nat)
       (fun o => if Nat.eqb o 0 then LThis else LNone) (fun _ => true) true [] = Some twin_st.
Proof. reflexivity. Qed.

Lemma remove_equal_object_repaired :
  objs (run twin_st twin_ops) = [] /\ snd (get (run twin_st twin_ops) 5) = None /\
  cache (run twin_st twin_ops) = [].
Proof. vm_compute. auto. Qed.

(* the hypotheses of the partial and of the full-strength theorems are satisfiable *)
Lemma inv_partial_satisfiable :
  exists s ops, Inv s /\ ops_ok s ops /\ List.length ops = 3%nat /\ objs (run s ops) <> objs s.
Proof.
  exists twin_st, [SetNum 0%nat 6; Remove 0%nat; SetNum 0%nat 5].
  split; [exact (init_inv _ _ _ _ _ _ _ _ twin_st_init) |].
  split.
  - cbn [ops_ok]. split; [cbn; auto |]. split; [exact Logic.I |].
    split; [right; left; vm_compute; intros [] | exact Logic.I].
  - split; [reflexivity | vm_compute; discriminate].
Qed.

Definition ident_st : st :=
  mkst [0%nat; 1%nat] [(2, 1%nat); (1, 0%nat)] (fun o => Z.of_nat o + 1) (fun o => o)
       (fun _ => LThis) (fun _ => true) true [2%nat].

Lemma inv_linked_satisfiable :
  exists s ops, Inv s /\ Linked s /\ clink s = true /\ ops_keep s ops /\
                objs s <> [] /\ List.length ops = 4%nat.
Proof.
  exists ident_st, [SetNum 0%nat 2; Remove 1%nat; FAppend 3%nat; SetNum 0%nat 2].
  split.
  { apply (init_inv [0%nat; 1%nat] (fun o => Z.of_nat o + 1) (fun o => o) (fun _ => LThis)
                    (fun _ => true) true [2%nat]). reflexivity. }
  split; [intros _ o _; reflexivity |].
  split; [reflexivity |].
  split.
  { cbn [ops_keep op_keeps]. split; [exact Logic.I |]. split; [exact Logic.I |].
    split; [vm_compute; intros [H | []]; discriminate |]. split; exact Logic.I. }
  split; [discriminate | reflexivity].
Qed.

Lemma inv_nonvacuous : exists s, Inv s /\ objs s <> [] /\ cache s <> [].
Proof.
  eexists. split.
  - apply (init_inv [0%nat; 1%nat] (fun o => Z.of_nat o + 1) (fun o => o) (fun _ => LThis)
                    (fun _ => true) true []).
    reflexivity.
  - cbn. split; discriminate.
Qed.
