(* WriteProofs.v — lemmas about Model/Write.v, for an ARBITRARY step list [w : writer] that satisfies
   the reflective boolean conditions of Model/Write.v.  Properties/C15.v instantiates them on the
   step list generated from the source (Gen/Writer.v) by vm_compute. *)
From Coq Require Import List String Ascii Bool Arith Lia.
From MPV Require Import Model.Wire Model.Write.
Import ListNotations.
Open Scope string_scope.

(* ------------------------------------------------------------------ strings *)
Lemma app_nil_r_s : forall s : string, s ++ "" = s.
Proof. induction s; simpl; congruence. Qed.

Lemma app_assoc_s : forall a b c : string, (a ++ b) ++ c = a ++ (b ++ c).
Proof. induction a; simpl; intros; congruence. Qed.

Lemma concat_cons : forall x xs, String.concat "" (x :: xs) = x ++ String.concat "" xs.
Proof. intros x [|y ys]; simpl; [now rewrite app_nil_r_s | reflexivity]. Qed.

Lemma concat_app : forall a b, String.concat "" (a ++ b)%list = String.concat "" a ++ String.concat "" b.
Proof.
  induction a as [|x a IH]; intros b.
  - reflexivity.
  - change ((x :: a) ++ b)%list with (x :: (a ++ b)%list).
    rewrite !concat_cons, IH, app_assoc_s. reflexivity.
Qed.

Lemma length_app_s : forall a b : string, String.length (a ++ b) = String.length a + String.length b.
Proof. induction a; simpl; intros; auto. Qed.

Lemma cat_lines_cons : forall l r, cat_lines (l :: r) = (l ++ nl) ++ cat_lines r.
Proof. intros. unfold cat_lines. simpl map. apply concat_cons. Qed.

Lemma cat_objs_cons : forall b o r,
  cat_objs_r b (o :: r) = cat_lines (strip_if b (lines_of o)) ++ cat_objs_r b r.
Proof. intros. unfold cat_objs_r. simpl map. apply concat_cons. Qed.

Lemma interp_app : forall p a b, interp p (a ++ b)%list = interp p a ++ interp p b.
Proof. intros. unfold interp. rewrite map_app. apply concat_app. Qed.

(* ------------------------------------------------------------------ upd *)
Lemma upd_same : forall f p n, upd f p n p = n.
Proof. intros. unfold upd. now rewrite String.eqb_refl. Qed.

Lemma upd_other : forall f p n q, q <> p -> upd f p n q = f q.
Proof. intros. unfold upd. destruct (String.eqb_spec q p); congruence. Qed.

(* ------------------------------------------------------------------ unpacking the conditions *)
Lemma atomic_ok_inv : forall w, writes_go_to_temp_then_replace w = true ->
  dest_only_written_by_replace w = true /\ replace_only_on_success w = true /\
  post_only_warnings w = true.
Proof.
  intros w H. unfold writes_go_to_temp_then_replace in H.
  apply andb_true_iff in H as [H H3]. apply andb_true_iff in H as [H1 H2]. auto.
Qed.

Lemma writer_ok_inv : forall w, writer_ok w = true ->
  guards_first w = true /\ writes_go_to_temp_then_replace w = true /\ opens_temp_after_guards w = true /\
  temp_removed_on_failure w = true /\ body_blocks_in_order w = true /\
  children_before_terminator w = true /\ temp_name_distinct w = true.
Proof.
  intros w H. unfold writer_ok in H.
  apply andb_true_iff in H as [H H7]. apply andb_true_iff in H as [H H6].
  apply andb_true_iff in H as [H H5]. apply andb_true_iff in H as [H H4].
  apply andb_true_iff in H as [H H3]. apply andb_true_iff in H as [H1 H2]. repeat split; auto.
Qed.

(* ------------------------------------------------------------------ the effect of writing *)
Section Exec.
Variable E : env.
Let d := e_dest E.
Let t := e_temp E.

(* [st'] is [st] after the text W has gone through the file object *)
Definition wrote (st st' : state) (W : string) : Prop :=
  (forall q, fs st' q = append_at E (fs st) (handle st) W q) /\ handle st' = handle st /\ pend st' = pend st.

Lemma append_at_nil : forall f h q, append_at E f h "" q = f q.
Proof.
  intros f [tg|] q; simpl; auto.
  destruct (f (pth E tg)) eqn:H; auto.
  rewrite app_nil_r_s. unfold upd. destruct (String.eqb_spec q (pth E tg)); congruence.
Qed.

Lemma append_at_app : forall f g h a b q,
  (forall q, g q = append_at E f h a q) ->
  append_at E g h b q = append_at E f h (a ++ b) q.
Proof.
  intros f g [tg|] a b q Hg; simpl in *.
  2:{ apply Hg. }
  destruct (f (pth E tg)) eqn:Hf.
  - assert (HP : g (pth E tg) = Absent) by (rewrite Hg; exact Hf).
    rewrite HP. apply Hg.
  - assert (HP : g (pth E tg) = File (c ++ a)) by (rewrite Hg; apply upd_same).
    rewrite HP. unfold upd at 1 2. destruct (String.eqb_spec q (pth E tg)).
    + now rewrite app_assoc_s.
    + rewrite Hg. now apply upd_other.
  - assert (HP : g (pth E tg) = Dir) by (rewrite Hg; exact Hf).
    rewrite HP. apply Hg.
Qed.

Lemma wrote_refl : forall st, wrote st st "".
Proof. intros st; repeat split; auto. intros q. now rewrite append_at_nil. Qed.

Lemma wrote_trans : forall a b c W1 W2, wrote a b W1 -> wrote b c W2 -> wrote a c (W1 ++ W2).
Proof.
  intros a b c W1 W2 (H1 & H1h & H1p) (H2 & H2h & H2p). split; [|split; congruence].
  intros q. rewrite H2, H1h. now apply append_at_app.
Qed.

Lemma do_write_char : forall s st st' r,
  do_write E s st = (st', r) ->
  exists W, wrote st st' W /\ cur st' = cur st /\ (r = Ok -> W = s).
Proof.
  unfold do_write. intros s st st' r H.
  destruct (a_wr (e_adv E) (nwr st)); inversion H; subst; clear H.
  - exists "". split; [|split; [reflexivity|discriminate]].
    repeat split; simpl; auto. intros q. now rewrite append_at_nil.
  - exists s. split; [|split; auto]. repeat split; simpl; auto.
Qed.

Lemma write_lines_char : forall ls st st' r,
  write_lines E ls st = (st', r) ->
  exists W, wrote st st' W /\ cur st' = cur st /\ (r = Ok -> W = cat_lines ls).
Proof.
  induction ls as [|l ls IH]; simpl; intros st st' r H.
  - inversion H; subst. exists "". split; [apply wrote_refl|split; auto].
  - destruct (do_write E (l ++ nl) st) as [st1 r1] eqn:H1.
    destruct (do_write_char _ _ _ _ H1) as (W1 & Hw1 & Hc1 & Hv1).
    destruct r1.
    + destruct (IH _ _ _ H) as (W2 & Hw2 & Hc2 & Hv2).
      exists (W1 ++ W2). split; [eapply wrote_trans; eauto|split; [congruence|]].
      intros ->. rewrite cat_lines_cons, Hv1, Hv2; auto.
    + inversion H; subst. exists W1. split; auto. split; auto; try discriminate.
Qed.

Lemma do_format_char : forall o st st' r,
  do_format E o st = (st', r) ->
  wrote st st' "" /\ (r = Ok -> cur st' = lines_of o).
Proof.
  unfold do_format. intros o st st' r H.
  assert (G : forall c n, wrote st (mkstate (fs st) (handle st) c n (nwr st) (pend st)) "").
  { intros; repeat split; simpl; auto. intros q; now rewrite append_at_nil. }
  destruct o as [ls|]; [destruct (a_fmt (e_adv E) (nfmt st))|]; inversion H; subst; clear H;
    (split; [apply G|]); simpl; auto; discriminate.
Qed.

Lemma exec_ostep_wrote : forall o x st st' r,
  exec_ostep E o x st = (st', r) -> exists W, wrote st st' W.
Proof.
  intros o [| |rs] st st' r H; simpl in H.
  - exists "". now apply do_format_char in H.
  - inversion H; subst. exists "". apply wrote_refl.
  - destruct (write_lines_char _ _ _ _ H) as (W & ? & _). eauto.
Qed.

Lemma exec_osteps_wrote : forall o b st st' r,
  exec_osteps E o b st = (st', r) -> exists W, wrote st st' W.
Proof.
  induction b as [|x b IH]; simpl; intros st st' r H.
  - inversion H; subst. exists "". apply wrote_refl.
  - destruct (exec_ostep E o x st) as [st1 r1] eqn:H1.
    destruct (exec_ostep_wrote _ _ _ _ _ H1) as (W1 & Hw1).
    destruct r1.
    + destruct (IH _ _ _ H) as (W2 & Hw2). exists (W1 ++ W2). eapply wrote_trans; eauto.
    + inversion H; subst. eauto.
Qed.

Lemma exec_objs_wrote : forall b os st st' r,
  exec_objs E b os st = (st', r) -> exists W, wrote st st' W.
Proof.
  induction os as [|o os IH]; simpl; intros st st' r H.
  - inversion H; subst. exists "". apply wrote_refl.
  - destruct (exec_osteps E o b st) as [st1 r1] eqn:H1.
    destruct (exec_osteps_wrote _ _ _ _ _ H1) as (W1 & Hw1).
    destruct r1.
    + destruct (IH _ _ _ H) as (W2 & Hw2). exists (W1 ++ W2). eapply wrote_trans; eauto.
    + inversion H; subst. eauto.
Qed.

(* --- loop bodies of the shape  Warn* Format Warn* WriteLines Warn*  write the object's lines --- *)
Lemma ostep_list_eqb_eq : forall a b, ostep_list_eqb a b = true -> a = b.
Proof.
  induction a as [|x a IH]; destruct b as [|y b]; simpl; intros H; try discriminate; auto.
  apply andb_true_iff in H as [H1 H2]. f_equal; auto.
  destruct x, y; simpl in H1; try congruence. apply eqb_prop in H1. congruence.
Qed.

Definition nowarn (b : list ostep) := filter (fun o => negb (is_warn o)) b.

Lemma phase3 : forall o b st, nowarn b = [] -> exec_osteps E o b st = (st, Ok).
Proof.
  induction b as [|x b IH]; simpl; intros st H; auto.
  destruct x; simpl in H; try discriminate. simpl. auto.
Qed.

Lemma phase2 : forall o b st st' r rs,
  nowarn b = [WriteLines rs] -> exec_osteps E o b st = (st', r) ->
  exists W, wrote st st' W /\ (r = Ok -> W = cat_lines (strip_if rs (cur st))).
Proof.
  induction b as [|x b IH]; simpl; intros st st' r rs Hf H; try discriminate.
  destruct x; simpl in Hf; try discriminate.
  - simpl in H. eauto.
  - inversion Hf as [[Hrs Hf']]. subst r0. simpl in H.
    destruct (write_lines E (strip_if rs (cur st)) st) as [st1 r1] eqn:H1.
    destruct (write_lines_char _ _ _ _ H1) as (W & Hw & Hc & Hv).
    destruct r1.
    + rewrite phase3 in H by assumption. inversion H; subst. eauto.
    + inversion H; subst. exists W. split; auto; try discriminate.
Qed.

Lemma phase1 : forall o b st st' r rs,
  nowarn b = [Format; WriteLines rs] -> exec_osteps E o b st = (st', r) ->
  exists W, wrote st st' W /\ (r = Ok -> W = cat_lines (strip_if rs (lines_of o))).
Proof.
  induction b as [|x b IH]; simpl; intros st st' r rs Hf H; try discriminate.
  destruct x; simpl in Hf; try discriminate.
  - inversion Hf as [Hf']. simpl in H.
    destruct (do_format E o st) as [st1 r1] eqn:H1.
    destruct (do_format_char _ _ _ _ H1) as (Hw1 & Hc1).
    destruct r1.
    + destruct (phase2 _ _ _ _ _ _ Hf' H) as (W & Hw & Hv).
      exists ("" ++ W). split; [eapply wrote_trans; eauto|].
      intros ->. simpl. rewrite Hv, Hc1; auto.
    + inversion H; subst. exists "". split; auto; try discriminate.
  - simpl in H. eauto.
Qed.

Lemma exec_objs_char : forall b os st st' r rs,
  loop_ok rs b = true -> exec_objs E b os st = (st', r) ->
  exists W, wrote st st' W /\ (r = Ok -> W = cat_objs_r rs os).
Proof.
  intros b os st st' r rs Hb. apply ostep_list_eqb_eq in Hb. fold (nowarn b) in Hb.
  revert st st' r.
  induction os as [|o os IH]; simpl; intros st st' r H.
  - inversion H; subst. exists "". split; [apply wrote_refl|auto].
  - destruct (exec_osteps E o b st) as [st1 r1] eqn:H1.
    destruct (phase1 _ _ _ _ _ _ Hb H1) as (W1 & Hw1 & Hv1).
    destruct r1.
    + destruct (IH _ _ _ H) as (W2 & Hw2 & Hv2).
      exists (W1 ++ W2). split; [eapply wrote_trans; eauto|].
      intros ->. rewrite cat_objs_cons, Hv1, Hv2; auto.
    + inversion H; subst. exists W1. split; auto; try discriminate.
Qed.

(* --- steps that only write --------------------------------------------------------------- *)
Definition writes_only (s : step) : bool :=
  match s with
  | OpenW _ | OpenElse _ _ | Close | Replace _ | Remove _ _ | Forget _ => false
  | _ => true
  end.

Lemma exec_step_wrote : forall ok s st st' r,
  writes_only s = true -> exec_step E ok s st = (st', r) -> exists W, wrote st st' W.
Proof.
  intros ok s st st' r Hs H. destruct s; simpl in Hs; try discriminate; simpl in H.
  - destruct (fs st (e_dest E)); [|destruct (e_ov E)|]; inversion H; subst; exists ""; apply wrote_refl.
  - destruct (fs st (e_dest E)); inversion H; subst; exists ""; apply wrote_refl.
  - inversion H; subst; exists ""; apply wrote_refl.
  - eapply exec_objs_wrote; eauto.
  - destruct (p_children (e_prob E)); [destruct (a_child (e_adv E))|].
    + inversion H; subst; exists ""; apply wrote_refl.
    + destruct (write_lines_char _ _ _ _ H) as (W & ? & _); eauto.
    + inversion H; subst; exists ""; apply wrote_refl.
  - destruct (do_write_char _ _ _ _ H) as (W & ? & _); eauto.
  - destruct (a_post (e_adv E)); inversion H; subst; exists ""; apply wrote_refl.
Qed.

Definition not_bad (pc : piece) : bool := match pc with PBad => false | _ => true end.

Lemma exec_step_pieces : forall ok s st st' r,
  forallb not_bad (piece_of s) = true -> exec_step E ok s st = (st', r) ->
  exists W, wrote st st' W /\ (r = Ok -> W = interp (e_prob E) (piece_of s)).
Proof.
  intros ok s st st' r Hs H. destruct s; simpl in Hs; try discriminate; simpl in H.
  - inversion H; subst. exists "". split; [apply wrote_refl|auto].
  - simpl piece_of in *. destruct (loop_ok true body) eqn:Hb.
    + destruct (exec_objs_char _ _ _ _ _ _ Hb H) as (W & Hw & Hv).
      exists W. split; auto.
    + destruct (loop_ok false body) eqn:Hb'; simpl in Hs; try discriminate.
      destruct (exec_objs_char _ _ _ _ _ _ Hb' H) as (W & Hw & Hv).
      exists W. split; auto.
  - unfold interp; simpl. destruct (p_children (e_prob E)) as [ls|] eqn:Hc; [destruct (a_child (e_adv E))|].
    + inversion H; subst. exists "". split; [apply wrote_refl|discriminate].
    + destruct (write_lines_char _ _ _ _ H) as (W & Hw & _ & Hv).
      exists W. split; auto.
    + inversion H; subst. exists "". split; [apply wrote_refl|discriminate].
  - destruct (do_write_char _ _ _ _ H) as (W & Hw & _ & Hv). exists W. split; auto.
Qed.

Lemma exec_list_pieces : forall ok l st st' r,
  forallb not_bad (pieces l) = true -> exec_list E ok l st = (st', r) ->
  exists W, wrote st st' W /\ (r = Ok -> W = interp (e_prob E) (pieces l)).
Proof.
  induction l as [|s l IH]; simpl; intros st st' r Hb H.
  - inversion H; subst. exists "". split; [apply wrote_refl|auto].
  - unfold pieces in Hb; simpl in Hb. rewrite forallb_app in Hb. apply andb_true_iff in Hb as [Hb1 Hb2].
    destruct (exec_step E ok s st) as [st1 r1] eqn:H1.
    destruct (exec_step_pieces _ _ _ _ _ Hb1 H1) as (W1 & Hw1 & Hv1).
    destruct r1.
    + destruct (IH _ _ _ Hb2 H) as (W2 & Hw2 & Hv2).
      exists (W1 ++ W2). split; [eapply wrote_trans; eauto|].
      intros ->. unfold pieces; simpl. rewrite interp_app, Hv1, Hv2; auto.
    + inversion H; subst. exists W1. split; auto; try discriminate.
Qed.

(* ------------------------------------------------------------------ frame: only d and t are touched *)
Definition frame (st st' : state) : Prop :=
  forall q, q <> d -> q <> t -> fs st' q = fs st q.

Lemma pth_cases : forall tg, pth E tg = d \/ pth E tg = t.
Proof. intros [|]; simpl; auto. Qed.

Lemma append_at_frame : forall f h W q, q <> d -> q <> t -> append_at E f h W q = f q.
Proof.
  intros f [tg|] W q Hd Ht; simpl; auto.
  destruct (f (pth E tg)); auto. apply upd_other.
  destruct (pth_cases tg) as [-> | ->]; auto.
Qed.

Lemma wrote_frame : forall st st' W, wrote st st' W -> frame st st'.
Proof. intros st st' W [H _] q Hd Ht. rewrite H. now apply append_at_frame. Qed.

Lemma frame_refl : forall st, frame st st.
Proof. intros st q _ _; reflexivity. Qed.

Lemma frame_trans : forall a b c, frame a b -> frame b c -> frame a c.
Proof. intros a b c H1 H2 q Hd Ht. rewrite H2, H1; auto. Qed.

Lemma exec_step_frame : forall ok s st st' r, exec_step E ok s st = (st', r) -> frame st st'.
Proof.
  intros ok s st st' r H.
  destruct (writes_only s) eqn:Hs.
  { destruct (exec_step_wrote _ _ _ _ _ Hs H) as (W & Hw). eapply wrote_frame; eauto. }
  destruct s; simpl in Hs; try discriminate; simpl in H.
  - destruct (fs st (pth E t0)); [destruct (a_open (e_adv E))|destruct (a_open (e_adv E))|];
      inversion H; subst; try apply frame_refl;
      intros q Hd Ht; simpl; apply upd_other; destruct (pth_cases t0) as [-> | ->]; auto.
  - (* OpenElse: whichever path is opened, it is the destination or the temporary *)
    assert (G : forall tg pd, frame st (with_pend (with_fs st (upd (fs st) (pth E tg) (File "")) (Some tg)) pd)).
    { intros tg pd q Hd Ht; simpl; apply upd_other; destruct (pth_cases tg) as [-> | ->]; auto. }
    destruct (fs st (pth E t0)); [destruct (a_open (e_adv E))|destruct (a_open (e_adv E))|];
      try (inversion H; subst; apply G);
      destruct (fs st (pth E u)); inversion H; subst; try apply frame_refl; apply G.
  - inversion H; subst. intros q _ _; reflexivity.
  - destruct (cond_holds c ok (pend st)); [|inversion H; subst; apply frame_refl].
    destruct (handle st); [inversion H; subst; apply frame_refl|].
    destruct (a_replace (e_adv E)); [inversion H; subst; apply frame_refl|].
    destruct (fs st (e_temp E)); try (inversion H; subst; apply frame_refl).
    destruct (fs st (e_dest E)); inversion H; subst; try apply frame_refl;
      intros q Hd Ht; simpl; rewrite !upd_other; auto.
  - destruct (cond_holds c ok (pend st)); [|inversion H; subst; apply frame_refl].
    destruct (handle st); [inversion H; subst; apply frame_refl|].
    destruct (a_remove (e_adv E)); [inversion H; subst; apply frame_refl|].
    destruct (fs st (pth E t0)); inversion H; subst; try apply frame_refl.
    intros q Hd Ht; simpl. apply upd_other. destruct (pth_cases t0) as [-> | ->]; auto.
  - inversion H; subst. intros q _ _. destruct (cond_holds c ok (pend st)); reflexivity.
Qed.

Lemma exec_list_frame : forall ok l st st' r, exec_list E ok l st = (st', r) -> frame st st'.
Proof.
  induction l as [|s l IH]; simpl; intros st st' r H.
  - inversion H; subst. apply frame_refl.
  - destruct (exec_step E ok s st) as [st1 r1] eqn:H1.
    pose proof (exec_step_frame _ _ _ _ _ H1) as F1.
    destruct r1; [eapply frame_trans; eauto|inversion H; subst; auto].
Qed.

Lemma run_state_frame : forall w st st' r, run_state w E st = (st', r) -> frame st st'.
Proof.
  unfold run_state. intros w st st' r H.
  destruct (exec_list E true (w_open w) st) as [s1 r1] eqn:H1.
  pose proof (exec_list_frame _ _ _ _ _ H1) as F1.
  destruct r1; [|inversion H; subst; auto].
  destruct (exec_list E true (w_body w) s1) as [s2 r2] eqn:H2.
  pose proof (exec_list_frame _ _ _ _ _ H2) as F2.
  destruct (exec_list E (is_ok r2) (w_exit w) s2) as [s3 r3] eqn:H3.
  pose proof (exec_list_frame _ _ _ _ _ H3) as F3.
  destruct (exec_list E (is_ok r2) (w_final w) s3) as [s4 r4] eqn:H4.
  pose proof (exec_list_frame _ _ _ _ _ H4) as F4.
  assert (F : frame st s4).
  { eapply frame_trans; [|exact F4]. eapply frame_trans; [|exact F3]. eapply frame_trans; eauto. }
  destruct r4; [|inversion H; subst; auto].
  destruct r3; [|inversion H; subst; auto].
  destruct r2; [|inversion H; subst; auto].
  pose proof (exec_list_frame _ _ _ _ _ H) as F5. eapply frame_trans; eauto.
Qed.

(* ------------------------------------------------------------------ the destination is only changed by Replace *)
Hypothesis t_ne_d : t <> d.

Definition safe (st : state) : Prop := handle st <> Some Dest.

Lemma append_at_dest : forall f h W, h <> Some Dest -> append_at E f h W d = f d.
Proof.
  intros f [[|]|] W Hh; simpl; auto; try congruence.
  destruct (f (e_temp E)); auto. apply upd_other. fold t. auto.
Qed.

Lemma wrote_dest : forall st st' W, safe st -> wrote st st' W -> fs st' d = fs st d /\ safe st'.
Proof.
  intros st st' W Hs (H & Hh & _). split.
  - rewrite H. now apply append_at_dest.
  - unfold safe. now rewrite Hh.
Qed.

(* a step that is not a Replace and does not name the destination leaves the destination alone *)
Lemma exec_step_dest : forall ok s st st' r,
  safe st -> no_dest_step s = true -> is_replace s = false ->
  exec_step E ok s st = (st', r) -> fs st' d = fs st d /\ safe st'.
Proof.
  intros ok s st st' r Hsafe Hnd Hin H.
  destruct (writes_only s) eqn:Hs.
  { destruct (exec_step_wrote _ _ _ _ _ Hs H) as (W & Hw). eapply wrote_dest; eauto. }
  destruct s; simpl in Hs; try discriminate; simpl in H.
  - destruct t0; simpl in Hnd; try discriminate. simpl in H. fold t in H.
    destruct (fs st t); [destruct (a_open (e_adv E))|destruct (a_open (e_adv E))|];
      inversion H; subst; auto; simpl; (split; [apply upd_other; auto|unfold safe; simpl; congruence]).
  - (* OpenElse Temp Temp is the only one that does not name the destination *)
    destruct t0, u; simpl in Hnd; try discriminate. simpl in H. fold t in H.
    destruct (fs st t); [destruct (a_open (e_adv E))|destruct (a_open (e_adv E))|];
      inversion H; subst; auto; simpl; (split; [apply upd_other; auto|unfold safe; simpl; congruence]).
  - inversion H; subst. simpl. split; auto. unfold safe; simpl; congruence.
  - destruct t0; simpl in Hnd; try (destruct c; discriminate).
    destruct (cond_holds c ok (pend st)); [|inversion H; subst; auto].
    destruct (handle st) eqn:Hh; [inversion H; subst; auto|].
    destruct (a_remove (e_adv E)); [inversion H; subst; auto|].
    simpl in H. fold t in H.
    destruct (fs st t); inversion H; subst; auto.
    simpl. split; [apply upd_other; auto|unfold safe; simpl; congruence].
  - inversion H; subst. destruct (cond_holds c ok (pend st)); simpl; auto.
Qed.

Lemma exec_list_dest : forall ok l st st' r,
  safe st -> forallb no_dest_step l = true -> forallb (fun s => negb (is_replace s)) l = true ->
  exec_list E ok l st = (st', r) -> fs st' d = fs st d /\ safe st'.
Proof.
  induction l as [|s l IH]; simpl; intros st st' r Hsafe Hnd Hin H.
  - inversion H; subst; auto.
  - apply andb_true_iff in Hnd as [Hnd1 Hnd2]. apply andb_true_iff in Hin as [Hin1 Hin2].
    apply negb_true_iff in Hin1.
    destruct (exec_step E ok s st) as [st1 r1] eqn:H1.
    destruct (exec_step_dest _ _ _ _ _ Hsafe Hnd1 Hin1 H1) as [Hd1 Hs1].
    destruct r1.
    + destruct (IH _ _ _ Hs1 Hnd2 Hin2 H) as [Hd2 Hs2]. split; auto. congruence.
    + inversion H; subst; auto.
Qed.

Lemma post_list : forall l st st' r,
  forallb is_post_step l = true -> exec_list E true l st = (st', r) ->
  st' = st /\ (a_post (e_adv E) = false -> r = Ok).
Proof.
  induction l as [|s l IH]; simpl; intros st st' r Hp H.
  - inversion H; subst; auto.
  - apply andb_true_iff in Hp as [Hp1 Hp2].
    destruct s; simpl in Hp1; try discriminate; simpl in H.
    + eauto.
    + destruct (a_post (e_adv E)) eqn:Ha.
      * inversion H; subst. split; auto; try discriminate.
      * eauto.
Qed.

Lemma init_safe : forall f, safe (init_state f).
Proof. intros f. unfold safe, init_state. simpl. congruence. Qed.

(* open() and the body of the with block never change the destination *)
Lemma run_prefix_dest : forall w st s1 s2 r2,
  dest_only_written_by_replace w = true -> replace_only_on_success w = true ->
  safe st ->
  exec_list E true (w_open w) st = (s1, Ok) ->
  exec_list E true (w_body w) s1 = (s2, r2) ->
  fs s2 d = fs st d /\ safe s2.
Proof.
  intros w st s1 s2 r2 Hd Hr Hsafe H1 H2.
  unfold dest_only_written_by_replace, all_steps in Hd.
  rewrite !forallb_app in Hd.
  apply andb_true_iff in Hd as [Hdo Hd]. apply andb_true_iff in Hd as [Hdb _].
  unfold replace_only_on_success in Hr. apply andb_true_iff in Hr as [Hr1 _].
  rewrite !forallb_app in Hr1.
  apply andb_true_iff in Hr1 as [Hro Hr1]. apply andb_true_iff in Hr1 as [Hrb _].
  destruct (exec_list_dest _ _ _ _ _ Hsafe Hdo Hro H1) as [E1 S1].
  destruct (exec_list_dest _ _ _ _ _ S1 Hdb Hrb H2) as [E2 S2].
  split; auto; congruence.
Qed.

(* ------------------------------------------------------------------ guards *)
Lemma guards_dir : forall l st,
  fs st d = Dir -> existsb is_gisdir (leading_guards l) = true ->
  exec_list E true l st = (st, Err IsADirectoryError).
Proof.
  induction l as [|s l IH]; simpl; intros st Hd Hg; try discriminate.
  destruct s; simpl in Hg; try discriminate; simpl; fold d; rewrite Hd; auto.
Qed.

Lemma guards_exists : forall l st c,
  fs st d = File c -> e_ov E = false -> existsb is_gexists (leading_guards l) = true ->
  exec_list E true l st = (st, Err FileExistsError).
Proof.
  induction l as [|s l IH]; simpl; intros st c Hd Hov Hg; try discriminate.
  destruct s; simpl in Hg; try discriminate; simpl; fold d; rewrite Hd; try rewrite Hov; eauto.
Qed.

Lemma guards_passed : forall l st s1,
  exec_list E true l st = (s1, Ok) -> existsb is_gisdir (leading_guards l) = true -> fs st d <> Dir.
Proof.
  induction l as [|s l IH]; simpl; intros st s1 H Hg; try discriminate.
  destruct s; simpl in Hg; try discriminate; simpl in H; fold d in H.
  - destruct (fs st d) eqn:Hd; try congruence.
    exfalso. eapply IH; eauto.
  - destruct (fs st d); congruence.
Qed.

(* ------------------------------------------------------------------ the open phase *)
Lemma guard_step_same : forall ok s st st' r,
  is_guard s = true -> exec_step E ok s st = (st', r) -> st' = st.
Proof.
  intros ok s st st' r Hs H. destruct s; simpl in Hs; try discriminate; simpl in H.
  - destruct (fs st (e_dest E)); [|destruct (e_ov E)|]; inversion H; auto.
  - destruct (fs st (e_dest E)); inversion H; auto.
Qed.

Lemma copymodes_same : forall l st, forallb is_copymode l = true -> exec_list E true l st = (st, Ok).
Proof.
  induction l as [|s l IH]; simpl; intros st H; auto.
  apply andb_true_iff in H as [H1 H2]. destruct s; simpl in H1; try discriminate. simpl. auto.
Qed.

Lemma open_char : forall l st s1 r1,
  match drop_guards l with OpenW Temp :: r => forallb is_copymode r | _ => false end = true ->
  exec_list E true l st = (s1, r1) ->
  (r1 <> Ok /\ s1 = st) \/
  (r1 = Ok /\ handle s1 = Some Temp /\ pend s1 = true /\ fs st t <> Dir /\
     forall q, fs s1 q = upd (fs st) t (File "") q).
Proof.
  induction l as [|s l IH]; simpl; intros st s1 r1 Hsh H; try discriminate.
  destruct (is_guard s) eqn:Hg.
  - destruct (exec_step E true s st) as [st1 r] eqn:H1.
    pose proof (guard_step_same _ _ _ _ _ Hg H1). subst st1.
    destruct r; [eauto|]. inversion H; subst. left. split; auto; try discriminate.
  - destruct s; try discriminate. destruct t0; try discriminate.
    simpl in H. fold t in H.
    destruct (fs st t) eqn:Ht.
    + destruct (a_open (e_adv E)).
      * inversion H; subst. left. split; auto; try discriminate.
      * rewrite copymodes_same in H by assumption. inversion H; subst.
        right. simpl. repeat split; auto. congruence.
    + destruct (a_open (e_adv E)).
      * inversion H; subst. left. split; auto; try discriminate.
      * rewrite copymodes_same in H by assumption. inversion H; subst.
        right. simpl. repeat split; auto. congruence.
    + inversion H; subst. left. split; auto; try discriminate.
Qed.

(* ------------------------------------------------------------------ a complete run *)
Lemma piece_list_eqb_eq : forall a b, piece_list_eqb a b = true -> a = b.
Proof.
  induction a as [|x a IH]; destruct b as [|y b]; simpl; intros H; try discriminate; auto.
  apply andb_true_iff in H as [H1 H2]. f_equal; auto.
  destruct x, y; simpl in H1; try discriminate; auto.
  - apply andb_true_iff in H1 as [H1 H3]. apply eqb_prop in H3. subst.
    destruct s, s0; simpl in H1; try discriminate; auto.
  - apply eqb_prop in H1. congruence.
Qed.

Lemma step_eqb_eq : forall a b, step_eqb a b = true -> a = b.
Proof.
  intros a b H.
  destruct a; destruct b; simpl in H; try discriminate; auto;
    repeat match goal with
           | c : cond |- _ => destruct c
           | x : target |- _ => destruct x
           end; simpl in H; try discriminate; auto.
Qed.

Lemma step_list_eqb_eq : forall a b, step_list_eqb a b = true -> a = b.
Proof.
  induction a as [|x a IH]; destruct b as [|y b]; simpl; intros H; try discriminate; auto.
  apply andb_true_iff in H as [H1 H2]. f_equal; auto using step_eqb_eq.
Qed.

Lemma interp_canonical : forall r p, interp p (canonical_pieces r) = spec_render_r r p.
Proof. intros r p. unfold interp, canonical_pieces, spec_render_r. simpl. reflexivity. Qed.

Lemma body_pieces : forall w, body_blocks_in_order w = true ->
  pieces (w_body w) = canonical_pieces (w_strips w).
Proof.
  intros w H. unfold body_blocks_in_order in H. destruct (w_strips w) eqn:Hs.
  - unfold w_strips in Hs. now apply piece_list_eqb_eq.
  - simpl in H. now apply piece_list_eqb_eq.
Qed.

(* state at the end of the with body *)
Lemma body_end : forall w st s1 s2 r2,
  writer_ok w = true -> safe st ->
  exec_list E true (w_open w) st = (s1, Ok) ->
  exec_list E true (w_body w) s1 = (s2, r2) ->
  handle s2 = Some Temp /\ pend s2 = true /\ fs s2 d = fs st d /\ fs st d <> Dir /\
  exists W, fs s2 t = File W /\ (r2 = Ok -> W = spec_render_r (w_strips w) (e_prob E)).
Proof.
  intros w st s1 s2 r2 Hw Hsafe H1 H2.
  destruct (writer_ok_inv _ Hw) as (Hg & Hat & Hop & Hex & Hbo & Hch & Htn).
  destruct (atomic_ok_inv _ Hat) as (Hat1 & Hat2 & _).
  destruct (run_prefix_dest _ _ _ _ _ Hat1 Hat2 Hsafe H1 H2) as [Ed _].
  unfold guards_first in Hg. apply andb_true_iff in Hg as [_ Hgd].
  pose proof (guards_passed _ _ _ H1 Hgd) as Hnd.
  unfold opens_temp_after_guards in Hop.
  destruct (open_char _ _ _ _ Hop H1) as [[Hc _] | (_ & Hh & Hp & _ & Hf)]; [congruence|].
  apply body_pieces in Hbo.
  assert (Hnb : forallb not_bad (pieces (w_body w)) = true) by (rewrite Hbo; destruct (w_strips w); reflexivity).
  destruct (exec_list_pieces _ _ _ _ _ Hnb H2) as (W & (Hwf & Hwh & Hwp) & Hv).
  repeat split; auto; try congruence.
  exists W. split.
  - rewrite Hwf, Hh. simpl. fold t. rewrite Hf, upd_same. simpl. now rewrite upd_same.
  - intros Hr. rewrite (Hv Hr), Hbo. apply interp_canonical.
Qed.

Lemma eqb_d_t : String.eqb d t = false.
Proof. destruct (String.eqb_spec d t); congruence. Qed.

(* __exit__, both known shapes: either everything went well and the temporary has been moved over
   the destination, or the destination is untouched and the temporary is gone — unless one of the
   crash points [may_leave_temp] names was hit *)
Ltac xo_reason := first [left; reflexivity | right; left; discriminate | right; right; discriminate].
Ltac xo_dest := simpl; first [reflexivity | apply upd_other; solve [auto]].
Ltac xo_temp := simpl; first [left; apply upd_same | right; simpl; rewrite ?orb_true_r; reflexivity].
Ltac xo_bad := right; split; [xo_reason | split; [xo_dest | xo_temp]].

Lemma exit_outcome : forall w ok s2 s3 r3 s4 r4 W,
  temp_removed_on_failure w = true ->
  handle s2 = Some Temp -> pend s2 = true -> fs s2 t = File W -> fs s2 d <> Dir ->
  exec_list E ok (w_exit w) s2 = (s3, r3) ->
  exec_list E ok (w_final w) s3 = (s4, r4) ->
  (ok = true /\ r3 = Ok /\ r4 = Ok /\ fs s4 d = File W /\ fs s4 t = Absent) \/
  ((ok = false \/ r3 <> Ok \/ r4 <> Ok) /\ fs s4 d = fs s2 d /\
     (fs s4 t = Absent \/ may_leave_temp w (e_adv E) = true)).
Proof.
  intros w ok s2 s3 r3 s4 r4 W Hsh Hh Hp Ht Hd H3 H4.
  assert (Hne : d <> t) by auto.
  unfold temp_removed_on_failure in Hsh. apply orb_true_iff in Hsh as [Hsh | Hsh].
  - (* plain *)
    unfold exit_plain in Hsh. apply andb_true_iff in Hsh as [Hex Hfi].
    apply step_list_eqb_eq in Hex. apply step_list_eqb_eq in Hfi.
    unfold may_leave_temp, cleanup_total, exit_try_finally. rewrite Hex, Hfi in *.
    simpl in H4. inversion H4; subst s4 r4. clear H4.
    unfold exit_shape in H3. simpl in H3. fold t d in H3.
    destruct (a_close (e_adv E)) eqn:Hc.
    { inversion H3; subst. xo_bad. }
    destruct ok; simpl in H3.
    + destruct (a_replace (e_adv E)) eqn:Hr.
      { inversion H3; subst. xo_bad. }
      rewrite Ht in H3.
      destruct (fs s2 d) eqn:Hdd; try congruence; inversion H3; subst; left; simpl;
        (repeat split; auto; [rewrite upd_other by auto; apply upd_same | apply upd_same]).
    + destruct (a_remove (e_adv E)) eqn:Hr.
      { inversion H3; subst. xo_bad. }
      rewrite Ht in H3. inversion H3; subst. xo_bad.
  - (* try / finally *)
    unfold exit_try_finally in Hsh. apply andb_true_iff in Hsh as [Hex Hfi].
    apply step_list_eqb_eq in Hex. apply step_list_eqb_eq in Hfi.
    unfold may_leave_temp, cleanup_total, exit_try_finally. rewrite Hex, Hfi in *.
    unfold exit_try_shape in H3. unfold exit_final_shape in H4. simpl in H3. fold t d in H3.
    destruct (a_close (e_adv E)) eqn:Hc.
    { inversion H3; subst s3 r3. clear H3. simpl in H4. rewrite Hp in H4.
      fold t in H4. destruct (a_remove (e_adv E)) eqn:Hr.
      - inversion H4; subst. xo_bad.
      - rewrite Ht in H4. inversion H4; subst. xo_bad. }
    destruct ok; simpl in H3.
    + destruct (a_replace (e_adv E)) eqn:Hr.
      { inversion H3; subst s3 r3. clear H3. simpl in H4. rewrite Hp in H4. fold t in H4.
        destruct (a_remove (e_adv E)) eqn:Hm.
        - inversion H4; subst. xo_bad.
        - rewrite Ht in H4. inversion H4; subst. xo_bad. }
      rewrite Ht in H3.
      destruct (fs s2 d) eqn:Hdd; try congruence; inversion H3; subst s3 r3; clear H3;
        simpl in H4; inversion H4; subst; left; simpl;
        (repeat split; auto; [rewrite upd_other by auto; apply upd_same | apply upd_same]).
    + inversion H3; subst s3 r3. clear H3. simpl in H4. rewrite Hp in H4. fold t in H4.
      destruct (a_remove (e_adv E)) eqn:Hm.
      * inversion H4; subst. xo_bad.
      * rewrite Ht in H4. inversion H4; subst. xo_bad.
Qed.

Theorem run_char : forall w st st' r,
  writer_ok w = true -> safe st ->
  run_state w E st = (st', r) ->
  (* open() raised *)
  (r <> Ok /\ st' = st) \/
  (* everything written and moved over the destination (the warning hand-over may still raise) *)
  ((r = Ok \/ a_post (e_adv E) = true) /\ fs st' d = File (spec_render_r (w_strips w) (e_prob E)) /\ fs st' t = Absent) \/
  (* the body or __exit__ raised: the destination is untouched and the temporary has been removed,
     unless a crash point that defeats the clean-up was hit *)
  (r <> Ok /\ fs st' d = fs st d /\ (fs st' t = Absent \/ may_leave_temp w (e_adv E) = true)).
Proof.
  intros w st st' r Hw Hsafe H.
  pose proof Hw as Hw0.
  destruct (writer_ok_inv _ Hw) as (Hg & Hat & Hop & Hex & Hbo & Hch & Htn).
  destruct (atomic_ok_inv _ Hat) as (_ & _ & Hpost).
  unfold run_state in H.
  destruct (exec_list E true (w_open w) st) as [s1 r1] eqn:H1.
  destruct r1.
  2:{ unfold opens_temp_after_guards in Hop.
      destruct (open_char _ _ _ _ Hop H1) as [[_ Hs] | (Hc & _)]; [|discriminate].
      inversion H; subst. left. split; auto; try discriminate. }
  destruct (exec_list E true (w_body w) s1) as [s2 r2] eqn:H2.
  destruct (body_end _ _ _ _ _ Hw0 Hsafe H1 H2) as (Hh & Hp & Ed & Hnd & W & Ht & Hv).
  destruct (exec_list E (is_ok r2) (w_exit w) s2) as [s3 r3] eqn:H3.
  destruct (exec_list E (is_ok r2) (w_final w) s3) as [s4 r4] eqn:H4.
  assert (Hnd2 : fs s2 d <> Dir) by congruence.
  destruct (exit_outcome _ _ _ _ _ _ _ _ Hex Hh Hp Ht Hnd2 H3 H4) as
    [(Hok & -> & -> & Hd4 & Ht4) | (Hbad & Hd4 & Ht4)].
  - destruct r2; simpl in Hok; try discriminate.
    destruct (post_list _ _ _ _ Hpost H) as [-> Hq].
    right; left. rewrite Hd4, (Hv eq_refl). repeat split; auto.
    destruct (a_post (e_adv E)); auto.
  - right; right.
    assert (Hr : r <> Ok /\ st' = s4).
    { destruct r4; [|inversion H; subst; split; auto; discriminate].
      destruct r3; [|inversion H; subst; split; auto; discriminate].
      destruct r2; [|inversion H; subst; split; auto; discriminate].
      simpl in Hbad. destruct Hbad as [Hb | [Hb | Hb]]; congruence. }
    destruct Hr as [Hr ->]. repeat split; auto. congruence.
Qed.


(* open("w") succeeds when the guards let the destination through and nothing fails *)
Lemma open_succeeds : forall l st,
  match drop_guards l with OpenW Temp :: r => forallb is_copymode r | _ => false end = true ->
  fs st d <> Dir -> (forall c, fs st d = File c -> e_ov E = true) -> fs st t <> Dir ->
  a_open (e_adv E) = false ->
  exists s1, exec_list E true l st = (s1, Ok).
Proof.
  induction l as [|s l IH]; simpl; intros st Hsh Hd Hov Ht Hao; try discriminate.
  destruct (is_guard s) eqn:Hg.
  - assert (Hpass : exec_step E true s st = (st, Ok)).
    { destruct s; simpl in Hg; try discriminate; simpl; fold d.
      - destruct (fs st d) eqn:Hfd; auto. now rewrite (Hov _ eq_refl).
      - destruct (fs st d) eqn:Hfd; auto. congruence. }
    rewrite Hpass. auto.
  - destruct s; try discriminate. destruct t0; try discriminate.
    simpl. fold t. rewrite Hao.
    destruct (fs st t) eqn:Hft; try congruence; rewrite copymodes_same by assumption; eauto.
Qed.

Lemma close_fail_char : forall w st,
  writer_ok w = true -> cleanup_total w = false -> safe st ->
  fs st d <> Dir -> (forall c, fs st d = File c -> e_ov E = true) -> fs st t <> Dir ->
  a_open (e_adv E) = false -> a_close (e_adv E) = true ->
  exists st' W, run_state w E st = (st', Err OSError) /\ fs st' d = fs st d /\ fs st' t = File W.
Proof.
  intros w st Hw Hc Hsafe Hd Hov Ht Hao Hac.
  pose proof Hw as Hw0.
  destruct (writer_ok_inv _ Hw) as (Hg & Hat & Hop & Hex & Hbo & Hch & Htn).
  unfold opens_temp_after_guards in Hop.
  destruct (open_succeeds _ _ Hop Hd Hov Ht Hao) as (s1 & H1).
  unfold run_state. rewrite H1.
  destruct (exec_list E true (w_body w) s1) as [s2 r2] eqn:H2.
  destruct (body_end _ _ _ _ _ Hw0 Hsafe H1 H2) as (Hh & Hp & Ed & Hnd & W & HtW & Hv).
  unfold temp_removed_on_failure in Hex. unfold cleanup_total in Hc. rewrite Hc, orb_false_r in Hex.
  unfold exit_plain in Hex. apply andb_true_iff in Hex as [Hex Hfi].
  apply step_list_eqb_eq in Hex. apply step_list_eqb_eq in Hfi. rewrite Hex, Hfi.
  unfold exit_shape. simpl. rewrite Hac. simpl.
  exists (with_fs s2 (fs s2) None), W. simpl. auto.
Qed.

End Exec.

(* ------------------------------------------------------------------ statements on run_writer *)
Lemma run_writer_state : forall w E f f' r,
  run_writer w E f = (f', r) -> exists s, run_state w E (init_state f) = (s, r) /\ f' = fs s.
Proof.
  unfold run_writer. intros w E f f' r H.
  destruct (run_state w E (init_state f)) as [s r0]. inversion H; subst. eauto.
Qed.

Theorem write_guard_isdir : forall w E f,
  guards_first w = true -> f (e_dest E) = Dir ->
  run_writer w E f = (f, Err IsADirectoryError).
Proof.
  intros w E f Hg Hd. unfold guards_first in Hg. apply andb_true_iff in Hg as [_ Hg].
  unfold run_writer, run_state.
  rewrite (guards_dir E (w_open w) (init_state f) Hd Hg). reflexivity.
Qed.

Theorem write_guard_exists : forall w E f c,
  guards_first w = true -> f (e_dest E) = File c -> e_ov E = false ->
  run_writer w E f = (f, Err FileExistsError).
Proof.
  intros w E f c Hg Hd Hov. unfold guards_first in Hg. apply andb_true_iff in Hg as [Hg _].
  unfold run_writer, run_state.
  rewrite (guards_exists E (w_open w) (init_state f) c Hd Hov Hg). reflexivity.
Qed.

Theorem write_frame : forall w E f f' r q,
  run_writer w E f = (f', r) -> q <> e_dest E -> q <> e_temp E -> f' q = f q.
Proof.
  intros w E f f' r q H Hd Ht. apply run_writer_state in H as (s & H & ->).
  apply (run_state_frame E w _ _ _ H q Hd Ht).
Qed.

Theorem write_atomic_general : forall w E f f' e,
  writer_ok w = true -> e_temp E <> e_dest E ->
  run_writer w E f = (f', Err e) ->
  f' (e_dest E) = f (e_dest E) \/ f' (e_dest E) = File (spec_render_r (w_strips w) (e_prob E)).
Proof.
  intros w E f f' e Hw Hne H. apply run_writer_state in H as (s & H & ->).
  destruct (run_char E Hne w _ _ _ Hw (init_safe f) H) as
    [(_ & ->) | [(_ & Hd & _) | (_ & Hd & _)]]; auto.
Qed.

Theorem write_atomic : forall w E f f' e,
  writer_ok w = true -> e_temp E <> e_dest E -> a_post (e_adv E) = false ->
  run_writer w E f = (f', Err e) -> f' (e_dest E) = f (e_dest E).
Proof.
  intros w E f f' e Hw Hne Hp H. apply run_writer_state in H as (s & H & ->).
  destruct (run_char E Hne w _ _ _ Hw (init_safe f) H) as
    [(_ & ->) | [([Hc | Hc] & _) | (_ & Hd & _)]]; auto; congruence.
Qed.

Theorem write_success : forall w E f f',
  writer_ok w = true -> e_temp E <> e_dest E ->
  run_writer w E f = (f', Ok) ->
  f' (e_dest E) = File (spec_render_r (w_strips w) (e_prob E)) /\ f' (e_temp E) = Absent /\
  forall q, q <> e_dest E -> q <> e_temp E -> f' q = f q.
Proof.
  intros w E f f' Hw Hne H. pose proof H as H0. apply run_writer_state in H as (s & H & ->).
  destruct (run_char E Hne w _ _ _ Hw (init_safe f) H) as
    [(Hc & _) | [(_ & Hd & Ht) | (Hc & _)]]; try congruence.
  repeat split; auto. intros q Hq1 Hq2. eapply write_frame; eauto.
Qed.

Theorem write_temp_gone : forall w E f f' r,
  writer_ok w = true -> e_temp E <> e_dest E -> f (e_temp E) = Absent ->
  may_leave_temp w (e_adv E) = false ->
  run_writer w E f = (f', r) -> f' (e_temp E) = Absent.
Proof.
  intros w E f f' r Hw Hne Hab Hm H. apply run_writer_state in H as (s & H & ->).
  destruct (run_char E Hne w _ _ _ Hw (init_safe f) H) as
    [(_ & ->) | [(_ & _ & Ht) | (_ & _ & [Ht | Ha])]]; auto; congruence.
Qed.

(* one crash point at a time *)
Definition exit_fault (x : fault) : bool :=
  match x with FClose | FReplace | FRemove => true | _ => false end.
Definition remove_fault (x : fault) : bool := match x with FRemove => true | _ => false end.
Definition post_fault (x : fault) : bool := match x with FPost => true | _ => false end.

Lemma may_leave_plain : forall w x,
  cleanup_total w = false -> exit_fault x = false -> may_leave_temp w (adv_of x) = false.
Proof. intros w x Hc Hx. unfold may_leave_temp. rewrite Hc. destruct x; simpl in *; auto; discriminate. Qed.

Lemma may_leave_total : forall w x,
  cleanup_total w = true -> remove_fault x = false -> may_leave_temp w (adv_of x) = false.
Proof. intros w x Hc Hx. unfold may_leave_temp. rewrite Hc. destruct x; simpl in *; auto; discriminate. Qed.

Theorem write_failure_at : forall w x d t ov p f f' e,
  writer_ok w = true -> t <> d -> f t = Absent ->
  write_with_failure_at x w d t ov p f = (f', Err e) ->
  (f' d = f d \/ (x = FPost /\ f' d = File (spec_render_r (w_strips w) p))) /\
  (may_leave_temp w (adv_of x) = false -> f' t = Absent) /\
  (forall q, q <> d -> q <> t -> f' q = f q).
Proof.
  intros w x d t ov p f f' e Hw Hne Hab H. unfold write_with_failure_at in H.
  set (E := mkenv d t ov p (adv_of x)) in *.
  repeat split.
  - destruct (post_fault x) eqn:Hp.
    + destruct x; simpl in Hp; try discriminate.
      destruct (write_atomic_general w E f f' e Hw Hne H); auto.
    + left. apply (write_atomic w E f f' e); auto. destruct x; simpl in *; auto; discriminate.
  - intros Hx. apply (write_temp_gone w E f f' (Err e)); auto.
  - intros q Hq1 Hq2. apply (write_frame w E f f' (Err e) q); auto.
Qed.

(* the plain __exit__ leaves the temporary behind whenever the close fails (buffered data cannot be
   flushed: the usual way a full disk shows up for a small file) — for every problem, every
   destination that may be written *)
Theorem close_failure_leaves_temp : forall w E f,
  writer_ok w = true -> cleanup_total w = false -> e_temp E <> e_dest E ->
  f (e_dest E) <> Dir -> (forall c, f (e_dest E) = File c -> e_ov E = true) -> f (e_temp E) <> Dir ->
  a_open (e_adv E) = false -> a_close (e_adv E) = true ->
  exists f' W, run_writer w E f = (f', Err OSError) /\ f' (e_dest E) = f (e_dest E) /\ f' (e_temp E) = File W.
Proof.
  intros w E f Hw Hc Hne Hd Hov Ht Hao Hac.
  destruct (close_fail_char E Hne w (init_state f) Hw Hc (init_safe f) Hd Hov Ht Hao Hac)
    as (s & W & Hrun & Hd' & Ht').
  exists (fs s), W. unfold run_writer. rewrite Hrun. auto.
Qed.

(* ------------------------------------------------------------------ the temporary's name *)
Lemma temp_name_length : forall tm pid base,
  String.length (temp_name tm pid base) =
  List.length (filter is_base tm) * String.length base
  + String.length (temp_name (filter (fun x => negb (is_base x)) tm) pid base).
Proof.
  induction tm as [|x tm IH]; intros pid base; simpl; auto.
  destruct x; simpl; rewrite !length_app_s, IH; lia.
Qed.

Lemma nonempty_lit_length : forall tm pid base,
  existsb nonempty_lit tm = true ->
  0 < String.length (temp_name (filter (fun x => negb (is_base x)) tm) pid base).
Proof.
  induction tm as [|x tm IH]; intros pid base H; simpl in *; try discriminate.
  destruct x; simpl in *.
  - rewrite length_app_s. destruct s; simpl in *; [auto|lia].
  - auto.
  - rewrite length_app_s. specialize (IH pid base H). lia.
Qed.

Theorem temp_name_differs : forall w pid base,
  temp_name_distinct w = true -> temp_name (w_temp w) pid base <> base.
Proof.
  intros w pid base H Heq. unfold temp_name_distinct in H. apply andb_true_iff in H as [H1 H2].
  apply Nat.eqb_eq in H1.
  pose proof (temp_name_length (w_temp w) pid base) as L. rewrite H1, Heq in L.
  pose proof (nonempty_lit_length (w_temp w) pid base H2). lia.
Qed.

(* ------------------------------------------------------------------ headline forms
   for any step list [w] that passes [writer_ok], with the temporary named by w's own template *)
Section Headline.
Variable w : writer.
Hypothesis Hw : writer_ok w = true.

Definition tmp_of (pid d : string) : path := temp_name (w_temp w) pid d.

Lemma tmp_of_ne : forall pid d, tmp_of pid d <> d.
Proof.
  intros. apply temp_name_differs. now destruct (writer_ok_inv _ Hw) as (_ & _ & _ & _ & _ & _ & ?).
Qed.

Theorem headline_guards : forall f pid d ov p adv,
  (f d = Dir ->
     run_writer w (mkenv d (tmp_of pid d) ov p adv) f = (f, Err IsADirectoryError)) /\
  (forall c, f d = File c -> ov = false ->
     run_writer w (mkenv d (tmp_of pid d) ov p adv) f = (f, Err FileExistsError)).
Proof.
  intros. destruct (writer_ok_inv _ Hw) as (Hg & _). split.
  - intros Hd. now apply write_guard_isdir.
  - intros c Hd Hov. now apply write_guard_exists with (c := c).
Qed.

Theorem headline_atomic : forall f pid d ov p k f' e,
  f (tmp_of pid d) = Absent ->
  write_with_failure_at k w d (tmp_of pid d) ov p f = (f', Err e) ->
  (f' d = f d \/ (k = FPost /\ f' d = File (spec_render_r (w_strips w) p))) /\
  (may_leave_temp w (adv_of k) = false -> f' (tmp_of pid d) = Absent) /\
  (forall q, q <> d -> q <> tmp_of pid d -> f' q = f q).
Proof. intros. eapply write_failure_at; eauto using tmp_of_ne. Qed.

Theorem headline_atomic_any : forall f pid d ov p adv f' e,
  run_writer w (mkenv d (tmp_of pid d) ov p adv) f = (f', Err e) ->
  (f' d = f d \/ f' d = File (spec_render_r (w_strips w) p)) /\
  (a_post adv = false -> f' d = f d).
Proof.
  intros f pid d ov p adv f' e H. split.
  - apply (write_atomic_general w (mkenv d (tmp_of pid d) ov p adv) f f' e Hw (tmp_of_ne pid d) H).
  - intros Hp.
    apply (write_atomic w (mkenv d (tmp_of pid d) ov p adv) f f' e Hw (tmp_of_ne pid d) Hp H).
Qed.

Theorem headline_success : forall f pid d ov p adv f',
  run_writer w (mkenv d (tmp_of pid d) ov p adv) f = (f', Ok) ->
  f' d = File (spec_render_r (w_strips w) p) /\ f' (tmp_of pid d) = Absent /\
  forall q, q <> d -> q <> tmp_of pid d -> f' q = f q.
Proof. intros f pid d ov p adv f' H. apply (write_success w (mkenv d (tmp_of pid d) ov p adv) f f' Hw (tmp_of_ne pid d) H). Qed.

Theorem headline_temp_gone : forall f pid d ov p adv f' r,
  f (tmp_of pid d) = Absent ->
  may_leave_temp w adv = false ->
  run_writer w (mkenv d (tmp_of pid d) ov p adv) f = (f', r) -> f' (tmp_of pid d) = Absent.
Proof.
  intros f pid d ov p adv f' r Hab Hm H.
  apply (write_temp_gone w (mkenv d (tmp_of pid d) ov p adv) f f' r Hw (tmp_of_ne pid d) Hab Hm H).
Qed.

(* the two statements about the temporary, for a step list whose __exit__ cleans up in a finally part *)
Hypothesis Hct : cleanup_total w = true.

Theorem headline_atomic_total : forall f pid d ov p k f' e,
  f (tmp_of pid d) = Absent ->
  write_with_failure_at k w d (tmp_of pid d) ov p f = (f', Err e) ->
  (f' d = f d \/ (k = FPost /\ f' d = File (spec_render_r (w_strips w) p))) /\
  (k <> FRemove -> f' (tmp_of pid d) = Absent) /\
  (forall q, q <> d -> q <> tmp_of pid d -> f' q = f q).
Proof.
  intros f pid d ov p k f' e Hab H.
  destruct (headline_atomic f pid d ov p k f' e Hab H) as (H1 & H2 & H3).
  repeat split; auto.
  intros Hk. apply H2. apply may_leave_total; auto.
  destruct k; simpl; auto; congruence.
Qed.

Theorem headline_no_leftover_total : forall f pid d ov p adv f' r,
  f (tmp_of pid d) = Absent ->
  a_remove adv = false ->
  run_writer w (mkenv d (tmp_of pid d) ov p adv) f = (f', r) -> f' (tmp_of pid d) = Absent.
Proof.
  intros f pid d ov p adv f' r Hab Hm H.
  apply (headline_temp_gone f pid d ov p adv f' r Hab); [|exact H].
  unfold may_leave_temp. rewrite Hct. exact Hm.
Qed.

Theorem headline_frame : forall f pid d ov p adv f' r q,
  run_writer w (mkenv d (tmp_of pid d) ov p adv) f = (f', r) ->
  q <> d -> q <> tmp_of pid d -> f' q = f q.
Proof. intros. eapply write_frame; eauto. Qed.

End Headline.
