(* TreeProofs.v — proofs about Model/Tree.v: an unedited as-parsed tree is written as read,
   format is idempotent (text and tree), an edit is local, a sequence of edits changes exactly the named
   leaves, an observation between edits does not matter, cards that are not edited are written verbatim,
   a file that a lossless parser reads back is a fixed point, the cell parameter loop never fuses a
   parameter with what precedes it, the per-particle importances are independent, and the file writer's
   block structure.  Coq stdlib only, no axioms. *)
From Coq Require Import List String Ascii Arith Bool Lia.
From MPV Require Import Model.Wire Model.Tree.
Import ListNotations.
Open Scope string_scope.

(* ------------------------------------------------------------------ *)
(* strings *)

Lemma append_nil_r : forall s : string, s ++ "" = s.
Proof. induction s; simpl; congruence. Qed.

Lemma append_assoc : forall a b c : string, (a ++ b) ++ c = a ++ b ++ c.
Proof. induction a; simpl; intros; congruence. Qed.

Lemma concat_cons : forall x xs, String.concat "" (x :: xs) = x ++ String.concat "" xs.
Proof.
  intros x [|y ys].
  - simpl. symmetry. apply append_nil_r.
  - reflexivity.
Qed.

(* plain concatenation of a list of strings *)
Fixpoint cat (l : list string) : string :=
  match l with [] => "" | x :: r => x ++ cat r end.

Lemma concat_cat : forall l, String.concat "" l = cat l.
Proof. induction l as [|x r IH]; [reflexivity|]. rewrite concat_cons, IH. reflexivity. Qed.

(* ------------------------------------------------------------------ *)
(* a proper induction principle for the nested inductive [node] *)

Section NodeInd.
  Variable Pn : node -> Prop.
  Hypothesis HV : forall tok pad np hv ed vl, Pn (NV tok pad np hv ed vl).
  Hypothesis HP : forall t, Pn (NP t).
  Hypothesis HO : forall t, Pn (NO t).
  Hypothesis HK : forall t, Pn (NK t).
  Hypothesis HT : forall up o ps, Pn (NT up o ps).
  Hypothesis HS : forall cs, Forall Pn cs -> Pn (NS cs).
  Hypothesis HL : forall cs, Forall Pn cs -> Pn (NL cs).
  Hypothesis HC : forall cs, Forall Pn cs -> Pn (NC cs).

  Fixpoint node_ind' (n : node) : Pn n :=
    let all := fix all (l : list node) : Forall Pn l :=
                 match l with
                 | [] => Forall_nil Pn
                 | x :: r => Forall_cons x (node_ind' x) (all r)
                 end in
    match n with
    | NV tok pad np hv ed vl => HV tok pad np hv ed vl
    | NP t => HP t
    | NO t => HO t
    | NK t => HK t
    | NT up o ps => HT up o ps
    | NS cs => HS cs (all cs)
    | NL cs => HL cs (all cs)
    | NC cs => HC cs (all cs)
    end.
End NodeInd.

(* ------------------------------------------------------------------ *)
(* top-level versions of format's local loops *)

Definition is_nil {A} (l : list A) : bool := match l with [] => true | _ => false end.

Fixpoint goS (l : list node) : string * list node :=
  match l with
  | [] => ("", [])
  | x :: r =>
      let (sr, r') := goS r in
      match x with
      | NV _ _ _ false _ _ => (sr, x :: r')
      | _ => let (sx, x') := format x in (sx ++ sr, x' :: r')
      end
  end.

Fixpoint goL (l : list node) : string * list node :=
  match l with
  | [] => ("", [])
  | x :: r =>
      let (sr, r') := goL r in
      match x with
      | NV _ _ _ _ _ _ =>
          match padfix x (hd_error r) with
          | NV tok1 pad1 np1 hv1 ed1 vl1 =>
              let (sx, x') := fmt_V tok1 pad1 np1 hv1 ed1 vl1 in (sx ++ sr, x' :: r')
          | x1 => (sr, x1 :: r')
          end
      | NK t => (t ++ shortcut_sep t (match r with [] => true | _ => false end) ++ sr, x :: r')
      | _ => let (sx, x') := format x in (sx ++ sr, x' :: r')
      end
  end.

Fixpoint goC (l : list node) : string * list node :=
  match l with
  | [] => ("", [])
  | x :: r =>
      let (sx, x') := format x in
      let (sr, r') := goC r in
      (sx ++ sr, x' :: r')
  end.

Lemma format_NS_go : forall cs, format (NS cs) = let (s, cs') := goS cs in (s, NS cs').
Proof. reflexivity. Qed.
Lemma format_NL_go : forall cs, format (NL cs) = let (s, cs') := goL cs in (s, NL cs').
Proof. reflexivity. Qed.
Lemma format_NC_go : forall cs, format (NC cs) = let (s, cs') := goC cs in (s, NC cs').
Proof. reflexivity. Qed.
Lemma format_NV : forall tok pad np hv ed vl,
  format (NV tok pad np hv ed vl) = fmt_V tok pad np hv ed vl.
Proof. reflexivity. Qed.
Lemma format_NP : forall t, format (NP t) = (pad_text t, NP t).
Proof. reflexivity. Qed.
Lemma format_NO : forall t, format (NO t) = (t, NO t).
Proof. reflexivity. Qed.
Lemma format_NK : forall t, format (NK t) = (t, NK t).
Proof. reflexivity. Qed.
Lemma format_NT : forall up o ps,
  format (NT up o ps) = (particles_text up (particles_sorted o ps), NT up (particles_sorted o ps) ps).
Proof. reflexivity. Qed.

Arguments format : simpl never.

(* ------------------------------------------------------------------ *)
(* per-child contributions: text and tree *)

Definition is_V (n : node) : bool := match n with NV _ _ _ _ _ _ => true | _ => false end.
Definition is_K (n : node) : bool := match n with NK _ => true | _ => false end.

(* SyntaxNode *)
Definition ctrS (x : node) : string :=
  match x with NV _ _ _ false _ _ => "" | _ => fst (format x) end.
Definition stS (x : node) : node :=
  match x with NV _ _ _ false _ _ => x | _ => snd (format x) end.

(* ListNode *)
Definition padfix_pad (pad : option (list piece)) (np : bool) (next : option node) : option (list piece) :=
  match pad, np, next with
  | None, false, Some nx => if is_P nx then None else Some [PS " "]
  | _, _, _ => pad
  end.

Lemma padfix_NV : forall tok pad np hv ed vl nx,
  padfix (NV tok pad np hv ed vl) nx = NV tok (padfix_pad pad np nx) np hv ed vl.
Proof.
  intros tok [p|] [|] hv ed vl [nx|]; simpl; try reflexivity.
  destruct (is_P nx); reflexivity.
Qed.

(* what ListNode.format appends after child x when [rest] are the children after it *)
Definition ctrL (x : node) (rest : list node) : string :=
  match x with
  | NV tok pad np hv ed vl => fmt_leaf tok (padfix_pad pad np (hd_error rest)) hv ed vl
  | NK t => t ++ shortcut_sep t (is_nil rest)
  | _ => fst (format x)
  end.
Definition stL (x : node) (rest : list node) : node :=
  match x with
  | NV tok pad np hv ed vl =>
      let pad' := padfix_pad pad np (hd_error rest) in
      NV tok pad' np hv ed (vlen_after tok pad' hv ed vl)
  | NK t => x
  | _ => snd (format x)
  end.

Fixpoint txtL (l : list node) : string :=
  match l with [] => "" | x :: r => ctrL x r ++ txtL r end.
Fixpoint treL (l : list node) : list node :=
  match l with [] => [] | x :: r => stL x r :: treL r end.

Lemma goS_eq : forall l, goS l = (cat (map ctrS l), map stS l).
Proof.
  induction l as [|x r IH]; [reflexivity|].
  simpl. rewrite IH.
  destruct x as [tok pad np [|] ed vl|t|t|t|up o ps|cs|cs|cs]; simpl;
    try (destruct (format _) as [sx x']; reflexivity); reflexivity.
Qed.

Lemma goL_eq : forall l, goL l = (txtL l, treL l).
Proof.
  induction l as [|x r IH]; [reflexivity|].
  cbn [goL]. rewrite IH.
  destruct x as [tok pad np hv ed vl|t|t|t|up o ps|cs|cs|cs];
    try (cbn [txtL treL ctrL stL]; destruct (format _) as [sx x']; reflexivity).
  - cbn [txtL treL ctrL stL]. rewrite padfix_NV. unfold fmt_V. reflexivity.
  - cbn [txtL treL ctrL stL]. destruct r; simpl; rewrite ?append_assoc; reflexivity.
Qed.

Lemma goC_eq : forall l, goC l = (cat (map (fun x => fst (format x)) l), map (fun x => snd (format x)) l).
Proof.
  induction l as [|x r IH]; [reflexivity|].
  simpl. rewrite IH. destruct (format x) as [sx x']. reflexivity.
Qed.

Lemma format_NS : forall cs, format (NS cs) = (cat (map ctrS cs), NS (map stS cs)).
Proof. intros. rewrite format_NS_go, goS_eq. reflexivity. Qed.
Lemma format_NL : forall cs, format (NL cs) = (txtL cs, NL (treL cs)).
Proof. intros. rewrite format_NL_go, goL_eq. reflexivity. Qed.
Lemma format_NC : forall cs,
  format (NC cs) = (cat (map (fun x => fst (format x)) cs), NC (map (fun x => snd (format x)) cs)).
Proof. intros. rewrite format_NC_go, goC_eq. reflexivity. Qed.

Ltac rw_format :=
  first [rewrite format_NV|rewrite format_NP|rewrite format_NO|rewrite format_NK|rewrite format_NT
        |rewrite format_NS|rewrite format_NL|rewrite format_NC].

(* format keeps the constructor of a node *)
Lemma is_V_format : forall x, is_V (snd (format x)) = is_V x.
Proof. destruct x; rw_format; reflexivity. Qed.
Lemma is_P_format : forall x, is_P (snd (format x)) = is_P x.
Proof. destruct x; rw_format; reflexivity. Qed.
Lemma is_K_format : forall x, is_K (snd (format x)) = is_K x.
Proof. destruct x; rw_format; reflexivity. Qed.

Lemma ctrS_nonV : forall x, is_V x = false -> ctrS x = fst (format x).
Proof. destruct x; simpl; try discriminate; reflexivity. Qed.
Lemma stS_nonV : forall x, is_V x = false -> stS x = snd (format x).
Proof. destruct x; simpl; try discriminate; reflexivity. Qed.
Lemma ctrL_other : forall x rest, is_V x = false -> is_K x = false -> ctrL x rest = fst (format x).
Proof. destruct x; simpl; try discriminate; reflexivity. Qed.
Lemma stL_other : forall x rest, is_V x = false -> is_K x = false -> stL x rest = snd (format x).
Proof. destruct x; simpl; try discriminate; reflexivity. Qed.

(* ------------------------------------------------------------------ *)
(* ParticleNode: the order normalisation *)

Lemma mem_str_true : forall x l, mem_str x l = true <-> In x l.
Proof.
  intros x l. unfold mem_str. rewrite existsb_exists. split.
  - intros (y & Hy & E). apply String.eqb_eq in E. subst. exact Hy.
  - intros H. exists x. split; [exact H|apply String.eqb_refl].
Qed.

Lemma filter_all : forall (A : Type) (f : A -> bool) l, forallb f l = true -> filter f l = l.
Proof.
  induction l as [|x r IH]; intros H; [reflexivity|].
  simpl in *. apply andb_true_iff in H. destruct H as [Hx Hr]. rewrite Hx, (IH Hr). reflexivity.
Qed.

Lemma filter_none : forall (A : Type) (f : A -> bool) l, forallb (fun x => negb (f x)) l = true -> filter f l = [].
Proof.
  induction l as [|x r IH]; intros H; [reflexivity|].
  simpl in *. apply andb_true_iff in H. destruct H as [Hx Hr].
  apply negb_true_iff in Hx. rewrite Hx. apply IH, Hr.
Qed.

Lemma particles_sorted_parsed : forall o ps,
  all_in o ps = true -> all_in ps o = true -> particles_sorted o ps = o.
Proof.
  intros o ps H1 H2. unfold particles_sorted, all_in in *.
  rewrite (filter_all _ _ _ H1).
  rewrite filter_none; [apply app_nil_r|].
  rewrite forallb_forall in *. intros x Hx. rewrite negb_involutive. apply H2, Hx.
Qed.

Lemma particles_sorted_idem : forall o ps,
  particles_sorted (particles_sorted o ps) ps = particles_sorted o ps.
Proof.
  intros o ps. apply particles_sorted_parsed; unfold all_in, particles_sorted; rewrite forallb_forall; intros x Hx.
  - apply in_app_or in Hx. destruct Hx as [Hx|Hx]; apply filter_In in Hx.
    + apply Hx.
    + apply mem_str_true. apply Hx.
  - apply mem_str_true. apply in_or_app.
    destruct (mem_str x o) eqn:E.
    + left. apply filter_In. split; [apply mem_str_true, E|apply mem_str_true, Hx].
    + right. apply filter_In. split; [exact Hx|rewrite E; reflexivity].
Qed.

(* ------------------------------------------------------------------ *)
(* ValueNode: leaf facts *)

Lemma eff_vlen_some : forall tok pad v, eff_vlen tok pad (Some v) = v.
Proof. reflexivity. Qed.

Lemma vlen_after_idem : forall tok pad hv ed vl,
  vlen_after tok pad hv ed (vlen_after tok pad hv ed vl) = vlen_after tok pad hv ed vl.
Proof. intros tok pad [|] [e|] vl; reflexivity. Qed.

Lemma fmt_leaf_after : forall tok pad hv ed vl,
  fmt_leaf tok pad hv ed (vlen_after tok pad hv ed vl) = fmt_leaf tok pad hv ed vl.
Proof. intros tok pad [|] [e|] vl; reflexivity. Qed.

Lemma fmt_V_fmt_V : forall tok pad np hv ed vl,
  format (snd (fmt_V tok pad np hv ed vl)) = fmt_V tok pad np hv ed vl.
Proof.
  intros. unfold fmt_V. cbn [snd]. rewrite format_NV. unfold fmt_V.
  rewrite fmt_leaf_after, vlen_after_idem. reflexivity.
Qed.

(* ------------------------------------------------------------------ *)
(* 1, 2: an unedited as-parsed tree is written exactly as read, and is not changed *)

Lemma shortcut_sep_parsed : forall t last,
  (last = true \/ orb (String.eqb t "") (ends_ws t) = true) -> shortcut_sep t last = "".
Proof.
  intros t last [->|H]; [reflexivity|]. unfold shortcut_sep. destruct last; [reflexivity|].
  apply orb_true_iff in H. destruct H as [H|H]; rewrite H; [reflexivity|].
  destruct (String.eqb t ""); reflexivity.
Qed.

Lemma format_unchanged_pair : forall n,
  unedited n = true -> as_parsed n = true -> format n = (flatten n, n).
Proof.
  induction n using node_ind'; intros Hu Ha.
  - (* NV *) rewrite format_NV. simpl in Hu. destruct ed; [discriminate|]. reflexivity.
  - reflexivity.
  - reflexivity.
  - reflexivity.
  - (* NT *) rewrite format_NT. simpl in Ha. apply andb_true_iff in Ha. destruct Ha as [H1 H2].
    rewrite (particles_sorted_parsed _ _ H1 H2). reflexivity.
  - (* NS *)
    rewrite format_NS. cbn [flatten]. rewrite concat_cat.
    cbn [unedited as_parsed] in Hu, Ha.
    assert (E : cat (map ctrS cs) = cat (map flatten cs) /\ map stS cs = cs).
    { induction H as [|x r Hx Hr IH]; [split; reflexivity|].
      cbn [forallb] in Hu, Ha.
      apply andb_true_iff in Hu. destruct Hu as [Hux Hur].
      apply andb_true_iff in Ha. destruct Ha as [Hax Har].
      destruct (IH Hur Har) as [IH1 IH2].
      cbn [map cat]. rewrite IH1, IH2.
      destruct x as [tok pad np [|] ed vl|t|t|t|up o ps|cs0|cs0|cs0];
        try (cbn [ctrS stS]; rewrite (Hx Hux Hax); split; reflexivity).
      cbn [ctrS stS flatten]. apply String.eqb_eq in Hax. rewrite Hax. split; reflexivity. }
    destruct E as [E1 E2]. rewrite E1, E2. reflexivity.
  - (* NL *)
    rewrite format_NL. cbn [flatten]. rewrite concat_cat.
    cbn [unedited] in Hu.
    assert (E : txtL cs = cat (map flatten cs) /\ treL cs = cs).
    { induction H as [|x r Hx Hr IH]; [split; reflexivity|].
      cbn [forallb] in Hu.
      apply andb_true_iff in Hu. destruct Hu as [Hux Hur].
      simpl in Ha.
      apply andb_true_iff in Ha. destruct Ha as [Ha Har].
      apply andb_true_iff in Ha. destruct Ha as [Hax Hap].
      destruct (IH Hur Har) as [IH1 IH2].
      cbn [map cat txtL treL]. rewrite IH1, IH2.
      destruct x as [tok pad np hv ed vl|t|t|t|up o ps|cs0|cs0|cs0];
        try (cbn [ctrL stL]; rewrite (Hx Hux Hax); split; reflexivity).
      + cbn [ctrL stL].
        simpl in Hux. destruct ed; [discriminate|].
        assert (Ep : padfix_pad pad np (hd_error r) = pad).
        { destruct pad as [p|]; [reflexivity|]. destruct np; [reflexivity|].
          destruct r as [|nx r2]; [reflexivity|]. simpl. simpl in Hap. rewrite Hap. reflexivity. }
        rewrite Ep. split; reflexivity.
      + cbn [ctrL stL flatten].
        rewrite shortcut_sep_parsed; [rewrite append_nil_r; split; reflexivity|].
        destruct r; [left; reflexivity|right; exact Hap]. }
    destruct E as [E1 E2]. rewrite E1, E2. reflexivity.
  - (* NC *)
    rewrite format_NC. cbn [flatten]. rewrite concat_cat.
    cbn [unedited as_parsed] in Hu, Ha.
    assert (E : cat (map (fun x => fst (format x)) cs) = cat (map flatten cs)
                /\ map (fun x => snd (format x)) cs = cs).
    { induction H as [|x r Hx Hr IH]; [split; reflexivity|].
      cbn [forallb] in Hu, Ha.
      apply andb_true_iff in Hu. destruct Hu as [Hux Hur].
      apply andb_true_iff in Ha. destruct Ha as [Hax Har].
      destruct (IH Hur Har) as [IH1 IH2].
      cbn [map cat]. rewrite IH1, IH2, (Hx Hux Hax). split; reflexivity. }
    destruct E as [E1 E2]. rewrite E1, E2. reflexivity.
Qed.

Theorem format_unchanged : forall n,
  unedited n = true -> as_parsed n = true -> fst (format n) = flatten n.
Proof. intros n Hu Ha. rewrite (format_unchanged_pair n Hu Ha). reflexivity. Qed.

Theorem format_unchanged_tree : forall n,
  unedited n = true -> as_parsed n = true -> snd (format n) = n.
Proof. intros n Hu Ha. rewrite (format_unchanged_pair n Hu Ha). reflexivity. Qed.

(* ------------------------------------------------------------------ *)
(* 3: format is idempotent, on the text and on the tree, for every tree *)

(* two "next sibling" views that padfix cannot tell apart *)
Definition same_next (a b : option node) : Prop :=
  match a, b with
  | None, None => True
  | Some x, Some y => is_P x = is_P y
  | _, _ => False
  end.

Lemma padfix_pad_same_next : forall pad np a b,
  same_next a b -> padfix_pad pad np a = padfix_pad pad np b.
Proof.
  intros [p|] [|] [a|] [b|] H; simpl in *; try reflexivity; try contradiction.
  rewrite H. reflexivity.
Qed.

Lemma padfix_pad_idem : forall pad np a b,
  same_next a b -> padfix_pad (padfix_pad pad np a) np b = padfix_pad pad np a.
Proof.
  intros [p|] [|] [a|] [b|] H; simpl in *; try reflexivity; try contradiction.
  destruct (is_P a) eqn:Ea; simpl.
  - rewrite <- H. reflexivity.
  - reflexivity.
Qed.

Lemma is_P_stL : forall x rest, is_P (stL x rest) = is_P x.
Proof.
  intros x rest. destruct x; try reflexivity; cbn [stL]; apply is_P_format.
Qed.

Lemma same_next_treL : forall r, same_next (hd_error r) (hd_error (treL r)).
Proof.
  destruct r as [|y r2]; simpl; [exact I|]. symmetry. apply is_P_stL.
Qed.

Lemma is_nil_treL : forall r, is_nil (treL r) = is_nil r.
Proof. destruct r; reflexivity. Qed.

(* the contribution of a child only depends on the shape of what follows it *)
Definition same_rest (a b : list node) : Prop :=
  same_next (hd_error a) (hd_error b) /\ is_nil a = is_nil b.

Lemma same_rest_treL : forall r, same_rest r (treL r).
Proof. intros r. split; [apply same_next_treL|symmetry; apply is_nil_treL]. Qed.

Lemma ctrL_same_rest : forall x a b, same_rest a b -> ctrL x a = ctrL x b.
Proof.
  intros x a b [H1 H2]. destruct x; try reflexivity; cbn [ctrL].
  - rewrite (padfix_pad_same_next _ _ _ _ H1). reflexivity.
  - rewrite H2. reflexivity.
Qed.

Lemma stL_same_rest : forall x a b, same_rest a b -> stL x a = stL x b.
Proof.
  intros x a b [H1 H2]. destruct x; try reflexivity; cbn [stL].
  rewrite (padfix_pad_same_next _ _ _ _ H1). reflexivity.
Qed.

Lemma format_format : forall n, format (snd (format n)) = format n.
Proof.
  induction n using node_ind'.
  - rewrite format_NV. apply fmt_V_fmt_V.
  - reflexivity.
  - reflexivity.
  - reflexivity.
  - rewrite format_NT. cbn [snd]. rewrite format_NT, particles_sorted_idem. reflexivity.
  - (* NS *)
    rewrite format_NS. cbn [snd]. rewrite format_NS.
    assert (E : cat (map ctrS (map stS cs)) = cat (map ctrS cs) /\ map stS (map stS cs) = map stS cs).
    { induction H as [|x r Hx Hr IH]; [split; reflexivity|].
      destruct IH as [IH1 IH2]. cbn [map cat]. rewrite IH1, IH2.
      assert (Ex : ctrS (stS x) = ctrS x /\ stS (stS x) = stS x).
      { destruct (is_V x) eqn:V.
        - destruct x as [tok pad np [|] ed vl|t|t|t|up o ps|cs0|cs0|cs0]; try discriminate;
            cbn [stS ctrS]; [|split; reflexivity].
          rewrite format_NV. unfold fmt_V. cbn [snd fst stS ctrS].
          rewrite format_NV. unfold fmt_V. cbn [snd fst].
          rewrite fmt_leaf_after, vlen_after_idem. split; reflexivity.
        - assert (V' : is_V (snd (format x)) = false) by (rewrite is_V_format; exact V).
          rewrite (stS_nonV x V). rewrite (ctrS_nonV _ V'), (stS_nonV _ V'), (ctrS_nonV x V).
          rewrite Hx. split; reflexivity. }
      destruct Ex as [Ex1 Ex2]. rewrite Ex1, Ex2. split; reflexivity. }
    destruct E as [E1 E2]. rewrite E1, E2. reflexivity.
  - (* NL *)
    rewrite format_NL. cbn [snd]. rewrite format_NL.
    assert (E : txtL (treL cs) = txtL cs /\ treL (treL cs) = treL cs).
    { induction H as [|x r Hx Hr IH]; [split; reflexivity|].
      destruct IH as [IH1 IH2]. cbn [txtL treL]. rewrite IH1, IH2.
      pose proof (same_rest_treL r) as SR.
      rewrite <- (ctrL_same_rest (stL x r) _ _ SR), <- (stL_same_rest (stL x r) _ _ SR).
      assert (Ex : ctrL (stL x r) r = ctrL x r /\ stL (stL x r) r = stL x r).
      { destruct (is_V x) eqn:V; [|destruct (is_K x) eqn:K].
        - destruct x as [tok pad np hv ed vl|t|t|t|up o ps|cs0|cs0|cs0]; try discriminate.
          cbn [stL ctrL].
          rewrite (padfix_pad_idem pad np (hd_error r) (hd_error r)).
          + rewrite fmt_leaf_after, vlen_after_idem. split; reflexivity.
          + destruct (hd_error r); simpl; [reflexivity|exact I].
        - destruct x; try discriminate. cbn [stL ctrL]. split; reflexivity.
        - assert (V' : is_V (snd (format x)) = false) by (rewrite is_V_format; exact V).
          assert (K' : is_K (snd (format x)) = false) by (rewrite is_K_format; exact K).
          rewrite (stL_other x r V K), (ctrL_other _ r V' K'), (stL_other _ r V' K'), (ctrL_other x r V K), Hx.
          split; reflexivity. }
      destruct Ex as [Ex1 Ex2]. rewrite Ex1, Ex2. split; reflexivity. }
    destruct E as [E1 E2]. rewrite E1, E2. reflexivity.
  - (* NC *)
    rewrite format_NC. cbn [snd]. rewrite format_NC.
    assert (E : cat (map (fun x => fst (format x)) (map (fun x => snd (format x)) cs))
                = cat (map (fun x => fst (format x)) cs)
                /\ map (fun x => snd (format x)) (map (fun x => snd (format x)) cs)
                   = map (fun x => snd (format x)) cs).
    { induction H as [|x r Hx Hr IH]; [split; reflexivity|].
      destruct IH as [IH1 IH2]. cbn [map cat]. rewrite IH1, IH2, Hx. split; reflexivity. }
    destruct E as [E1 E2]. rewrite E1, E2. reflexivity.
Qed.

Theorem format_idempotent : forall n, fst (format (snd (format n))) = fst (format n).
Proof. intros. rewrite format_format. reflexivity. Qed.

Theorem format_idempotent_tree : forall n, snd (format (snd (format n))) = snd (format n).
Proof. intros. rewrite format_format. reflexivity. Qed.

(* ------------------------------------------------------------------ *)
(* 5: an edit is local *)

Definition upd_nth (f : node -> node) : list node -> nat -> list node :=
  fix upd (l : list node) (k : nat) : list node :=
    match l, k with
    | [], _ => []
    | x :: rest, 0 => f x :: rest
    | x :: rest, Datatypes.S k' => x :: upd rest k'
    end.

Lemma set_leaf_nil : forall r n, set_leaf [] r n = set_value n r.
Proof. reflexivity. Qed.
Lemma set_leaf_NS : forall i p r cs, set_leaf (i :: p) r (NS cs) = NS (upd_nth (set_leaf p r) cs i).
Proof. reflexivity. Qed.
Lemma set_leaf_NL : forall i p r cs, set_leaf (i :: p) r (NL cs) = NL (upd_nth (set_leaf p r) cs i).
Proof. reflexivity. Qed.
Lemma set_leaf_NC : forall i p r cs, set_leaf (i :: p) r (NC cs) = NC (upd_nth (set_leaf p r) cs i).
Proof. reflexivity. Qed.

Lemma is_V_set_leaf : forall p r x, is_V (set_leaf p r x) = is_V x.
Proof. destruct p, x; reflexivity. Qed.
Lemma is_P_set_leaf : forall p r x, is_P (set_leaf p r x) = is_P x.
Proof. destruct p, x; reflexivity. Qed.
Lemma is_K_set_leaf : forall p r x, is_K (set_leaf p r x) = is_K x.
Proof. destruct p, x; reflexivity. Qed.

Lemma leaf_at_V : forall p x l, leaf_at p x = Some l -> is_V x = true -> p = [] /\ x = l.
Proof.
  intros p x l H V. destruct x; try discriminate.
  destruct p; simpl in H; [|discriminate]. inversion H. split; reflexivity.
Qed.

Lemma leaf_at_not_K : forall p x l, leaf_at p x = Some l -> is_K x = false.
Proof. intros p x l H. destruct x; try reflexivity. destruct p; discriminate. Qed.

Lemma cat_map_upd : forall (g : node -> string) f cs i c,
  nth_error cs i = Some c ->
  exists A B, cat (map g cs) = A ++ g c ++ B /\ cat (map g (upd_nth f cs i)) = A ++ g (f c) ++ B.
Proof.
  intros g f. induction cs as [|x r IH]; intros i c H.
  - destruct i; discriminate.
  - destruct i as [|k]; simpl in H.
    + inversion H; subst. exists "", (cat (map g r)). split; reflexivity.
    + destruct (IH k c H) as (A & B & H1 & H2).
      exists (g x ++ A), B. cbn [upd_nth map cat]. rewrite H1, H2, !append_assoc. split; reflexivity.
Qed.

Lemma same_rest_refl : forall r, same_rest r r.
Proof. intros r. split; [|reflexivity]. destruct r; simpl; [exact I|reflexivity]. Qed.

Lemma same_rest_upd : forall f r k,
  (forall x, is_P (f x) = is_P x) -> same_rest r (upd_nth f r k).
Proof.
  intros f r k Hf. destruct r as [|y r2]; [destruct k; apply same_rest_refl|].
  destruct k; (split; [simpl|reflexivity]); [symmetry; apply Hf|reflexivity].
Qed.

Lemma txtL_upd : forall f, (forall x, is_P (f x) = is_P x) ->
  forall cs i c, nth_error cs i = Some c ->
  exists A B, txtL cs = A ++ ctrL c (skipn (Datatypes.S i) cs) ++ B
           /\ txtL (upd_nth f cs i) = A ++ ctrL (f c) (skipn (Datatypes.S i) cs) ++ B.
Proof.
  intros f Hf. induction cs as [|x r IH]; intros i c H.
  - destruct i; discriminate.
  - destruct i as [|k]; simpl in H.
    + inversion H; subst. exists "", (txtL r). split; reflexivity.
    + destruct (IH k c H) as (A & B & H1 & H2).
      exists (ctrL x r ++ A), B.
      change (skipn (Datatypes.S (Datatypes.S k)) (x :: r)) with (skipn (Datatypes.S k) r).
      cbn [upd_nth txtL].
      rewrite <- (ctrL_same_rest x _ _ (same_rest_upd f r k Hf)).
      rewrite H1, H2, !append_assoc. split; reflexivity.
Qed.

(* what the leaf contributed before the edit: nothing when it was a skipped SyntaxNode value,
   otherwise its rendering with its own padding or, inside a ListNode, with the repaired padding *)
Definition old_text (old tok : string) (pad : option (list piece)) (np hv : bool) (ed : option string)
           (vl : option nat) : Prop :=
  (old = "" /\ hv = false)
  \/ old = fmt_leaf tok pad hv ed vl
  \/ (pad = None /\ np = false /\ old = fmt_leaf tok (Some [PS " "]) hv ed vl).

(* what it contributes afterwards: the new rendering r in the leaf's field (ValueNode.format's width and blank
   logic), followed by the rest of its padding; the padding is the leaf's own, or the single blank that the value
   setter / ListNode.format give a leaf that has none *)
Definition new_text (new r tok : string) (pad : option (list piece)) (np : bool) (vl : option nat) : Prop :=
  exists pad', (pad' = pad \/ (pad = None /\ np = false /\ pad' = Some [PS " "]))
            /\ new = fmt_changed r (eff_vlen tok pad' vl) pad'.

Lemma fmt_changed_prefix : forall r v pad, exists tail, fmt_changed r v pad = r ++ tail.
Proof.
  intros r v pad. unfold fmt_changed, ljust.
  destruct pad as [[|p0 rest]|]; try (eexists; reflexivity).
  destruct (is_space_piece p0); rewrite !append_assoc; eexists; reflexivity.
Qed.

(* "each edited quantity carries its new value": the new text of the leaf starts with the new rendering *)
Lemma new_text_prefix : forall new r tok pad np vl, new_text new r tok pad np vl -> exists tail, new = r ++ tail.
Proof. intros new r tok pad np vl (pad' & _ & ->). apply fmt_changed_prefix. Qed.

(* the padding after the value setter *)
Definition sv_pad (pad : option (list piece)) (np hv : bool) : option (list piece) :=
  match pad, np, hv with None, false, false => Some [PS " "] | _, _, _ => pad end.

Lemma set_value_NV : forall tok pad np hv ed vl r,
  set_value (NV tok pad np hv ed vl) r = NV tok (sv_pad pad np hv) np true (Some r) vl.
Proof. reflexivity. Qed.

Lemma sv_pad_true : forall pad np, sv_pad pad np true = pad.
Proof. intros [p|] [|]; reflexivity. Qed.

Lemma sv_pad_cases : forall pad np hv,
  sv_pad pad np hv = pad \/ (pad = None /\ np = false /\ sv_pad pad np hv = Some [PS " "]).
Proof. intros [p|] [|] [|]; simpl; auto. Qed.

Lemma padfix_sv_cases : forall pad np hv nx,
  padfix_pad (sv_pad pad np hv) np nx = pad
  \/ (pad = None /\ np = false /\ padfix_pad (sv_pad pad np hv) np nx = Some [PS " "]).
Proof.
  intros [p|] [|] [|] [nx|]; simpl; auto; destruct (is_P nx); auto.
Qed.

Theorem edit_local : forall path n r tok pad np hv ed vl,
  leaf_at path n = Some (NV tok pad np hv ed vl) ->
  exists pre post old new,
    fst (format n) = pre ++ old ++ post
    /\ fst (format (set_leaf path r n)) = pre ++ new ++ post
    /\ old_text old tok pad np hv ed vl
    /\ new_text new r tok pad np vl.
Proof.
  induction path as [|i p IH]; intros n r tok pad np hv ed vl H.
  - destruct n; simpl in H; try discriminate. inversion H; subst.
    exists "", "", (fmt_leaf tok pad hv ed vl),
      (fmt_changed r (eff_vlen tok (sv_pad pad np hv) vl) (sv_pad pad np hv)).
    rewrite set_leaf_nil, set_value_NV, !format_NV. unfold fmt_V. cbn [fst fmt_leaf].
    cbn [append]. rewrite !append_nil_r. split; [reflexivity|]. split; [reflexivity|].
    split; [right; left; reflexivity|].
    exists (sv_pad pad np hv). split; [apply sv_pad_cases|reflexivity].
  - destruct n as [tok0 pad0 np0 hv0 ed0 vl0|t|t|t|up o ps|cs|cs|cs]; simpl in H; try discriminate;
      destruct (nth_error cs i) as [c|] eqn:E; try discriminate.
    + (* NS *)
      rewrite set_leaf_NS, !format_NS. cbn [fst].
      destruct (cat_map_upd ctrS (set_leaf p r) cs i c E) as (A & B & H1 & H2).
      rewrite H1, H2.
      destruct (is_V c) eqn:V.
      * destruct (leaf_at_V _ _ _ H V) as [-> ->].
        rewrite set_leaf_nil, set_value_NV.
        exists A, B, (if hv then fmt_leaf tok pad true ed vl else ""),
          (fmt_changed r (eff_vlen tok (sv_pad pad np hv) vl) (sv_pad pad np hv)).
        split; [destruct hv; reflexivity|]. split; [reflexivity|].
        split; [destruct hv; [right; left; reflexivity|left; split; reflexivity]|].
        exists (sv_pad pad np hv). split; [apply sv_pad_cases|reflexivity].
      * rewrite (ctrS_nonV c V).
        rewrite (ctrS_nonV (set_leaf p r c)) by (rewrite is_V_set_leaf; exact V).
        destruct (IH c r _ _ _ _ _ _ H) as (pre & post & old & new & F1 & F2 & F3 & F4).
        exists (A ++ pre), (post ++ B), old, new. rewrite F1, F2, !append_assoc.
        split; [reflexivity|]. split; [reflexivity|]. split; assumption.
    + (* NL *)
      rewrite set_leaf_NL, !format_NL. cbn [fst].
      destruct (txtL_upd (set_leaf p r) (is_P_set_leaf p r) cs i c E) as (A & B & H1 & H2).
      rewrite H1, H2.
      destruct (is_V c) eqn:V.
      * destruct (leaf_at_V _ _ _ H V) as [-> ->].
        rewrite set_leaf_nil, set_value_NV. cbn [ctrL fmt_leaf].
        set (nx := hd_error (skipn (Datatypes.S i) cs)).
        exists A, B, (fmt_leaf tok (padfix_pad pad np nx) hv ed vl),
          (fmt_changed r (eff_vlen tok (padfix_pad (sv_pad pad np hv) np nx) vl) (padfix_pad (sv_pad pad np hv) np nx)).
        split; [reflexivity|]. split; [reflexivity|]. split.
        -- destruct pad as [pd|]; [right; left; reflexivity|].
           destruct np; [right; left; reflexivity|].
           destruct nx as [x|]; [|right; left; reflexivity].
           simpl. destruct (is_P x); [right; left; reflexivity|].
           right; right. split; [reflexivity|]. split; reflexivity.
        -- eexists. split; [apply padfix_sv_cases|reflexivity].
      * assert (K : is_K c = false) by (eapply leaf_at_not_K; exact H).
        rewrite (ctrL_other c _ V K).
        rewrite (ctrL_other (set_leaf p r c)) by (rewrite ?is_V_set_leaf, ?is_K_set_leaf; assumption).
        destruct (IH c r _ _ _ _ _ _ H) as (pre & post & old & new & F1 & F2 & F3 & F4).
        exists (A ++ pre), (post ++ B), old, new. rewrite F1, F2, !append_assoc.
        split; [reflexivity|]. split; [reflexivity|]. split; assumption.
    + (* NC *)
      rewrite set_leaf_NC, !format_NC. cbn [fst].
      destruct (cat_map_upd (fun x => fst (format x)) (set_leaf p r) cs i c E) as (A & B & H1 & H2).
      rewrite H1, H2.
      destruct (IH c r _ _ _ _ _ _ H) as (pre & post & old & new & F1 & F2 & F3 & F4).
      exists (A ++ pre), (post ++ B), old, new. rewrite F1, F2, !append_assoc.
      split; [reflexivity|]. split; [reflexivity|]. split; assumption.
Qed.

(* the common case: a printed leaf with padding of its own: exactly its own text is replaced *)
Corollary edit_local_padded : forall path n r tok pd np ed vl,
  leaf_at path n = Some (NV tok (Some pd) np true ed vl) ->
  exists pre post,
    fst (format n) = pre ++ fmt_leaf tok (Some pd) true ed vl ++ post
    /\ fst (format (set_leaf path r n)) = pre ++ fmt_changed r (eff_vlen tok (Some pd) vl) (Some pd) ++ post.
Proof.
  intros path n r tok pd np ed vl H.
  destruct (edit_local path n r _ _ _ _ _ _ H) as (pre & post & old & new & F1 & F2 & F3 & F4).
  exists pre, post. split.
  - destruct F3 as [[_ F]|[F|(F & _)]]; [discriminate|rewrite <- F; exact F1|discriminate].
  - destruct F4 as (pad' & [->|(F & _)] & ->); [exact F2|discriminate].
Qed.

(* ------------------------------------------------------------------ *)
(* 6: the other leaves are untouched — by one edit, and by a whole program of edits *)

Lemma nth_error_upd_same : forall f cs i c,
  nth_error cs i = Some c -> nth_error (upd_nth f cs i) i = Some (f c).
Proof.
  intros f. induction cs as [|x r IH]; intros [|k] c H; simpl in *; try discriminate.
  - inversion H; reflexivity.
  - apply IH; assumption.
Qed.

Lemma nth_error_upd_none : forall f cs i,
  nth_error cs i = None -> upd_nth f cs i = cs.
Proof.
  intros f. induction cs as [|x r IH]; intros [|k] H; simpl in *; try reflexivity; try discriminate.
  rewrite (IH k H). reflexivity.
Qed.

Lemma nth_error_upd_other : forall f cs i j,
  i <> j -> nth_error (upd_nth f cs i) j = nth_error cs j.
Proof.
  intros f. induction cs as [|x r IH]; intros [|k] [|j] H; simpl in *; try reflexivity.
  - congruence.
  - apply IH. congruence.
Qed.

Lemma leaf_at_cons_V : forall i q tok pad np hv ed vl, leaf_at (i :: q) (NV tok pad np hv ed vl) = None.
Proof. reflexivity. Qed.

(* an edit at p does not change what is found at any other path q (whether or not p names a leaf) *)
Theorem edit_other_paths : forall p q n r, p <> q -> leaf_at q (set_leaf p r n) = leaf_at q n.
Proof.
  induction p as [|i p IH]; intros q n r Hne.
  - rewrite set_leaf_nil. destruct q as [|j q]; [congruence|].
    destruct n; reflexivity.
  - destruct n as [tok0 pad0 np0 hv0 ed0 vl0|t|t|t|up o ps|cs|cs|cs]; try reflexivity;
      [rewrite set_leaf_NS|rewrite set_leaf_NL|rewrite set_leaf_NC];
      (destruct q as [|j q]; [reflexivity|]);
      cbn [leaf_at];
      (destruct (Nat.eq_dec i j) as [->|N];
       [ destruct (nth_error cs j) as [c|] eqn:Ej;
         [ rewrite (nth_error_upd_same _ _ _ _ Ej); apply IH; intro; subst; apply Hne; reflexivity
         | rewrite (nth_error_upd_none _ _ _ Ej), Ej; reflexivity ]
       | rewrite (nth_error_upd_other _ _ _ _ N); reflexivity ]).
Qed.

Theorem edit_other_leaves : forall p q n r l,
  p <> q -> leaf_at q n = Some l -> leaf_at q (set_leaf p r n) = Some l.
Proof. intros p q n r l Hne Hq. rewrite (edit_other_paths p q n r Hne). exact Hq. Qed.

(* the edited leaf itself: its token, padding policy and formatter state are kept, it has a value and carries r *)
Theorem edit_same_leaf : forall p n r l,
  leaf_at p n = Some l -> leaf_at p (set_leaf p r n) = Some (set_value l r).
Proof.
  induction p as [|i p IH]; intros n r l H.
  - destruct n; simpl in H; try discriminate. inversion H; subst. reflexivity.
  - destruct n as [tok0 pad0 np0 hv0 ed0 vl0|t|t|t|up o ps|cs|cs|cs]; simpl in H; try discriminate;
      [rewrite set_leaf_NS|rewrite set_leaf_NL|rewrite set_leaf_NC]; cbn [leaf_at];
      (destruct (nth_error cs i) as [c|] eqn:E; [|discriminate]);
      rewrite (nth_error_upd_same _ _ _ _ E); apply IH; exact H.
Qed.

Definition leaf_edit (n : node) : option string := match n with NV _ _ _ _ ed _ => ed | _ => None end.

Lemma leaf_edit_set_value : forall l r, is_V l = true -> leaf_edit (set_value l r) = Some r.
Proof. destruct l; intros r H; try discriminate. reflexivity. Qed.

Lemma leaf_at_is_V : forall p n l, leaf_at p n = Some l -> is_V l = true.
Proof.
  induction p as [|i p IH]; intros n l H.
  - destruct n; simpl in H; try discriminate. inversion H. reflexivity.
  - destruct n; simpl in H; try discriminate; destruct (nth_error _ i); try discriminate; eapply IH; exact H.
Qed.

Lemma apply_edits_cons : forall e es n, apply_edits (e :: es) n = apply_edits es (set_leaf (fst e) (snd e) n).
Proof. reflexivity. Qed.
Lemma apply_edits_app : forall es1 es2 n, apply_edits (es1 ++ es2) n = apply_edits es2 (apply_edits es1 n).
Proof. intros. unfold apply_edits. apply fold_left_app. Qed.

(* a program of edits leaves every path that it does not name as it was (induction on the program) *)
Theorem edits_other_paths : forall es q n,
  (forall e, In e es -> fst e <> q) -> leaf_at q (apply_edits es n) = leaf_at q n.
Proof.
  induction es as [|e es IH]; intros q n H; [reflexivity|].
  rewrite apply_edits_cons, IH.
  - apply edit_other_paths. apply H. left. reflexivity.
  - intros e' He'. apply H. right. exact He'.
Qed.

(* an edited leaf stays a leaf under every later edit *)
Lemma edits_keep_leaves : forall es p n l,
  leaf_at p n = Some l -> exists l', leaf_at p (apply_edits es n) = Some l'.
Proof.
  induction es as [|e es IH]; intros p n l H; [exists l; exact H|].
  rewrite apply_edits_cons.
  destruct (list_eq_dec Nat.eq_dec (fst e) p) as [E|N].
  - subst p. eapply IH. apply edit_same_leaf. exact H.
  - eapply IH. rewrite (edit_other_paths _ _ _ _ N). exact H.
Qed.

(* ... and carries the rendering of the LAST edit that names it (repeated edits of the same quantity) *)
Theorem edits_last_wins : forall es1 es2 p r n l,
  leaf_at p n = Some l -> (forall e, In e es2 -> fst e <> p) ->
  exists l', leaf_at p (apply_edits (es1 ++ (p, r) :: es2) n) = Some l' /\ leaf_edit l' = Some r.
Proof.
  intros es1 es2 p r n l H Hn.
  rewrite apply_edits_app, apply_edits_cons. cbn [fst snd].
  destruct (edits_keep_leaves es1 p n l H) as (l1 & H1).
  rewrite (edits_other_paths es2 p _ Hn).
  exists (set_value l1 r). split; [apply edit_same_leaf; exact H1|].
  apply leaf_edit_set_value. eapply leaf_at_is_V. exact H1.
Qed.

(* ------------------------------------------------------------------ *)
(* 7: an observation (a format that mutates the tree) between edits does not matter *)

Lemma upd_nth_length : forall f cs i, List.length (upd_nth f cs i) = List.length cs.
Proof. intros f. induction cs as [|x r IH]; intros [|k]; simpl; try reflexivity. rewrite IH. reflexivity. Qed.

Lemma stL_is_V : forall x rest, is_V (stL x rest) = is_V x.
Proof. intros x rest. destruct x; try reflexivity; cbn [stL]; apply is_V_format. Qed.
Lemma stL_is_K : forall x rest, is_K (stL x rest) = is_K x.
Proof. intros x rest. destruct x; try reflexivity; cbn [stL]; apply is_K_format. Qed.

Lemma set_value_nonV : forall n r, is_V n = false -> set_value n r = n.
Proof. destruct n; intros r H; try discriminate; reflexivity. Qed.

Lemma set_leaf_K : forall p r x, is_K x = true -> set_leaf p r x = x.
Proof. intros p r x H. destruct x; try discriminate. destruct p; reflexivity. Qed.

Lemma set_leaf_V_cons : forall i p r x, is_V x = true -> set_leaf (i :: p) r x = x.
Proof. intros i p r x H. destruct x; try discriminate. reflexivity. Qed.

(* a leaf of a ListNode: observing it first (padding repair, field width fixed) and then editing it gives the
   same text and the same leaf as editing it directly *)
Lemma leafL_commute : forall tok pad np hv ed vl r rest,
  let x := NV tok pad np hv ed vl in
  ctrL (set_value (stL x rest) r) rest = ctrL (set_value x r) rest
  /\ stL (set_value (stL x rest) r) rest = stL (set_value x r) rest.
Proof.
  intros tok pad np hv ed vl r rest x. subst x. cbn [stL]. rewrite !set_value_NV. cbn [ctrL stL].
  set (nx := hd_error rest).
  assert (Ep : padfix_pad (sv_pad (padfix_pad pad np nx) np hv) np nx = padfix_pad (sv_pad pad np hv) np nx).
  { destruct pad as [pd|]; [destruct np, hv; reflexivity|].
    destruct np; [destruct hv; reflexivity|].
    destruct nx as [y|]; simpl; [destruct (is_P y) eqn:P; destruct hv; simpl; rewrite ?P; reflexivity
                                |destruct hv; reflexivity]. }
  rewrite Ep. set (pad2 := padfix_pad (sv_pad pad np hv) np nx).
  assert (Ev : eff_vlen tok pad2 (vlen_after tok (padfix_pad pad np nx) hv ed vl) = eff_vlen tok pad2 vl).
  { destruct ed as [e|]; [|reflexivity]. destruct hv; [|reflexivity]. cbn [vlen_after].
    destruct vl as [v|]; [reflexivity|]. cbn [eff_vlen].
    unfold pad2. rewrite sv_pad_true. reflexivity. }
  cbn [fmt_leaf vlen_after]. rewrite Ev. split; reflexivity.
Qed.

Lemma leafS_commute : forall tok pad np hv ed vl r,
  let x := NV tok pad np hv ed vl in
  ctrS (set_value (stS x) r) = ctrS (set_value x r) /\ stS (set_value (stS x) r) = stS (set_value x r).
Proof.
  intros tok pad np hv ed vl r x. subst x. destruct hv; [|split; reflexivity].
  cbn [stS]. rewrite format_NV. unfold fmt_V. cbn [snd]. rewrite !set_value_NV. cbn [ctrS stS].
  rewrite !format_NV. unfold fmt_V. cbn [fst snd].
  rewrite sv_pad_true. cbn [fmt_leaf vlen_after].
  assert (Ev : eff_vlen tok pad (vlen_after tok pad true ed vl) = eff_vlen tok pad vl).
  { destruct ed; [|reflexivity]. destruct vl; reflexivity. }
  rewrite Ev. split; reflexivity.
Qed.

Theorem observe_commutes_pair : forall n p r,
  format (set_leaf p r (snd (format n))) = format (set_leaf p r n).
Proof.
  induction n using node_ind'; intros p r.
  - (* NV *) destruct p as [|i p].
    + rewrite !set_leaf_nil, format_NV. unfold fmt_V. cbn [snd]. rewrite !set_value_NV, !format_NV. unfold fmt_V.
      cbn [fmt_leaf vlen_after].
      assert (Ev : eff_vlen tok (sv_pad pad np hv) (vlen_after tok pad hv ed vl) = eff_vlen tok (sv_pad pad np hv) vl).
      { destruct ed; [|reflexivity]. destruct hv; [|reflexivity]. rewrite sv_pad_true.
        destruct vl; reflexivity. }
      rewrite Ev. reflexivity.
    + rewrite format_NV. unfold fmt_V. cbn [snd]. cbn [set_leaf]. rewrite !format_NV. apply fmt_V_fmt_V.
  - (* NP *) destruct p; reflexivity.
  - destruct p; reflexivity.
  - destruct p; reflexivity.
  - (* NT *) rewrite format_NT. cbn [snd].
    assert (E : forall o, set_leaf p r (NT up o ps) = NT up o ps) by (intros; destruct p; reflexivity).
    rewrite !E, !format_NT, particles_sorted_idem. reflexivity.
  - (* NS *)
    destruct p as [|i p].
    + rewrite !set_leaf_nil.
      assert (V : is_V (snd (format (NS cs))) = false) by (rewrite is_V_format; reflexivity).
      rewrite (set_value_nonV _ r V), (set_value_nonV (NS cs) r eq_refl). apply format_format.
    + rewrite format_NS. cbn [snd]. rewrite !set_leaf_NS, !format_NS.
      assert (E : cat (map ctrS (upd_nth (set_leaf p r) (map stS cs) i)) = cat (map ctrS (upd_nth (set_leaf p r) cs i))
                  /\ map stS (upd_nth (set_leaf p r) (map stS cs) i) = map stS (upd_nth (set_leaf p r) cs i)).
      { revert i. induction H as [|x rest Hx Hr IHl]; intros i; [destruct i; split; reflexivity|].
        (* facts about one child *)
        assert (Eid : ctrS (stS x) = ctrS x /\ stS (stS x) = stS x).
        { destruct (is_V x) eqn:V.
          - destruct x as [tok pad np [|] ed vl|t|t|t|up o ps|cs0|cs0|cs0]; try discriminate;
              cbn [stS ctrS]; [|split; reflexivity].
            rewrite format_NV. unfold fmt_V. cbn [snd fst stS ctrS].
            rewrite format_NV. unfold fmt_V. cbn [snd fst].
            rewrite fmt_leaf_after, vlen_after_idem. split; reflexivity.
          - assert (V' : is_V (snd (format x)) = false) by (rewrite is_V_format; exact V).
            rewrite (stS_nonV x V). rewrite (ctrS_nonV _ V'), (stS_nonV _ V'), (ctrS_nonV x V).
            rewrite format_format. split; reflexivity. }
        destruct Eid as [Eid1 Eid2].
        destruct i as [|k].
        - cbn [map upd_nth cat].
          assert (Etail : cat (map ctrS (map stS rest)) = cat (map ctrS rest) /\ map stS (map stS rest) = map stS rest).
          { clear - Hr. induction Hr as [|y r2 Hy Hr2 IH2]; [split; reflexivity|].
            destruct IH2 as [I1 I2]. cbn [map cat]. rewrite I1, I2.
            destruct (is_V y) eqn:V.
            - destruct y as [tok pad np [|] ed vl|t|t|t|up o ps|cs0|cs0|cs0]; try discriminate;
                cbn [stS ctrS]; [|split; reflexivity].
              rewrite format_NV. unfold fmt_V. cbn [snd fst stS ctrS].
              rewrite format_NV. unfold fmt_V. cbn [snd fst].
              rewrite fmt_leaf_after, vlen_after_idem. split; reflexivity.
            - assert (V' : is_V (snd (format y)) = false) by (rewrite is_V_format; exact V).
              rewrite (stS_nonV y V). rewrite (ctrS_nonV _ V'), (stS_nonV _ V'), (ctrS_nonV y V).
              rewrite format_format. split; reflexivity. }
          destruct Etail as [T1 T2]. rewrite T1, T2.
          assert (Ex : ctrS (set_leaf p r (stS x)) = ctrS (set_leaf p r x)
                       /\ stS (set_leaf p r (stS x)) = stS (set_leaf p r x)).
          { destruct (is_V x) eqn:V.
            - destruct x as [tok pad np hv ed vl|t|t|t|up o ps|cs0|cs0|cs0]; try discriminate.
              destruct p as [|j p].
              + rewrite !set_leaf_nil. apply leafS_commute.
              + rewrite (set_leaf_V_cons j p r (NV tok pad np hv ed vl) eq_refl).
                rewrite (set_leaf_V_cons j p r (stS (NV tok pad np hv ed vl))).
                * split; [exact Eid1|exact Eid2].
                * destruct hv; reflexivity.
            - assert (V1 : is_V (set_leaf p r (snd (format x))) = false)
                by (rewrite is_V_set_leaf, is_V_format; exact V).
              assert (V2 : is_V (set_leaf p r x) = false) by (rewrite is_V_set_leaf; exact V).
              rewrite (stS_nonV x V), (ctrS_nonV _ V1), (stS_nonV _ V1), (ctrS_nonV _ V2), (stS_nonV _ V2).
              rewrite Hx. split; reflexivity. }
          destruct Ex as [Ex1 Ex2]. rewrite Ex1, Ex2. split; reflexivity.
        - cbn [map upd_nth cat]. destruct (IHl k) as [I1 I2]. rewrite I1, I2, Eid1, Eid2. split; reflexivity. }
      destruct E as [E1 E2]. rewrite E1, E2. reflexivity.
  - (* NL *)
    destruct p as [|i p].
    + rewrite !set_leaf_nil.
      assert (V : is_V (snd (format (NL cs))) = false) by (rewrite is_V_format; reflexivity).
      rewrite (set_value_nonV _ r V), (set_value_nonV (NL cs) r eq_refl). apply format_format.
    + rewrite format_NL. cbn [snd]. rewrite !set_leaf_NL, !format_NL.
      assert (E : txtL (upd_nth (set_leaf p r) (treL cs) i) = txtL (upd_nth (set_leaf p r) cs i)
                  /\ treL (upd_nth (set_leaf p r) (treL cs) i) = treL (upd_nth (set_leaf p r) cs i)).
      { revert i. induction H as [|x rest Hx Hr IHl]; intros i; [destruct i; split; reflexivity|].
        (* one child, observed: its contribution and state do not change when it is formatted again *)
        assert (Eid : forall rest', same_rest rest rest' ->
                      ctrL (stL x rest) rest' = ctrL x rest /\ stL (stL x rest) rest' = stL x rest).
        { intros rest' SR.
          rewrite <- (ctrL_same_rest (stL x rest) _ _ SR), <- (stL_same_rest (stL x rest) _ _ SR).
          destruct (is_V x) eqn:V; [|destruct (is_K x) eqn:K].
          - destruct x as [tok pad np hv ed vl|t|t|t|up o ps|cs0|cs0|cs0]; try discriminate.
            cbn [stL ctrL].
            rewrite (padfix_pad_idem pad np (hd_error rest) (hd_error rest)).
            + rewrite fmt_leaf_after, vlen_after_idem. split; reflexivity.
            + destruct (hd_error rest); simpl; [reflexivity|exact I].
          - destruct x; try discriminate. cbn [stL ctrL]. split; reflexivity.
          - assert (V' : is_V (snd (format x)) = false) by (rewrite is_V_format; exact V).
            assert (K' : is_K (snd (format x)) = false) by (rewrite is_K_format; exact K).
            rewrite (stL_other x rest V K), (ctrL_other _ rest V' K'), (stL_other _ rest V' K'),
              (ctrL_other x rest V K), format_format.
            split; reflexivity. }
        destruct i as [|k].
        - cbn [upd_nth txtL treL].
          assert (Etail : txtL (treL rest) = txtL rest /\ treL (treL rest) = treL rest).
          { pose proof (format_format (NL rest)) as FF. rewrite format_NL in FF. cbn [snd] in FF.
            rewrite format_NL in FF. split; [exact (f_equal fst FF)|].
            pose proof (f_equal snd FF) as G. cbn [snd] in G. injection G as G. exact G. }
          destruct Etail as [T1 T2]. rewrite T1, T2.
          pose proof (same_rest_treL rest) as SR.
          rewrite <- (ctrL_same_rest (set_leaf p r (stL x rest)) _ _ SR),
                  <- (stL_same_rest (set_leaf p r (stL x rest)) _ _ SR).
          assert (Ex : ctrL (set_leaf p r (stL x rest)) rest = ctrL (set_leaf p r x) rest
                       /\ stL (set_leaf p r (stL x rest)) rest = stL (set_leaf p r x) rest).
          { destruct (is_V x) eqn:V; [|destruct (is_K x) eqn:K].
            - destruct x as [tok pad np hv ed vl|t|t|t|up o ps|cs0|cs0|cs0]; try discriminate.
              destruct p as [|j p].
              + rewrite !set_leaf_nil. apply leafL_commute.
              + rewrite (set_leaf_V_cons j p r (NV tok pad np hv ed vl) eq_refl).
                rewrite (set_leaf_V_cons j p r (stL (NV tok pad np hv ed vl) rest)) by reflexivity.
                apply Eid. apply same_rest_refl.
            - rewrite (set_leaf_K p r x K).
              rewrite (set_leaf_K p r (stL x rest)) by (rewrite stL_is_K; exact K).
              apply Eid. apply same_rest_refl.
            - assert (V1 : is_V (set_leaf p r (snd (format x))) = false)
                by (rewrite is_V_set_leaf, is_V_format; exact V).
              assert (K1 : is_K (set_leaf p r (snd (format x))) = false)
                by (rewrite is_K_set_leaf, is_K_format; exact K).
              assert (V2 : is_V (set_leaf p r x) = false) by (rewrite is_V_set_leaf; exact V).
              assert (K2 : is_K (set_leaf p r x) = false) by (rewrite is_K_set_leaf; exact K).
              rewrite (stL_other x rest V K), (ctrL_other _ rest V1 K1), (stL_other _ rest V1 K1),
                (ctrL_other _ rest V2 K2), (stL_other _ rest V2 K2).
              rewrite Hx. split; reflexivity. }
          destruct Ex as [Ex1 Ex2]. rewrite Ex1, Ex2. split; reflexivity.
        - cbn [upd_nth txtL treL]. destruct (IHl k) as [I1 I2]. rewrite I1, I2.
          assert (SR1 : same_rest rest (upd_nth (set_leaf p r) (treL rest) k)).
          { destruct (same_rest_treL rest) as [A1 A2].
            destruct (same_rest_upd (set_leaf p r) (treL rest) k (is_P_set_leaf p r)) as [B1 B2].
            split; [|congruence].
            destruct (hd_error rest), (hd_error (treL rest)), (hd_error (upd_nth (set_leaf p r) (treL rest) k));
              simpl in *; try contradiction; try exact I; congruence. }
          destruct (Eid _ SR1) as [Eid1 Eid2]. rewrite Eid1, Eid2.
          pose proof (same_rest_upd (set_leaf p r) rest k (is_P_set_leaf p r)) as SR2.
          rewrite <- (ctrL_same_rest x _ _ SR2), <- (stL_same_rest x _ _ SR2). split; reflexivity. }
      destruct E as [E1 E2]. rewrite E1, E2. reflexivity.
  - (* NC *)
    destruct p as [|i p].
    + rewrite !set_leaf_nil.
      assert (V : is_V (snd (format (NC cs))) = false) by (rewrite is_V_format; reflexivity).
      rewrite (set_value_nonV _ r V), (set_value_nonV (NC cs) r eq_refl). apply format_format.
    + rewrite format_NC. cbn [snd]. rewrite !set_leaf_NC, !format_NC.
      assert (E : map format (upd_nth (set_leaf p r) (map (fun x => snd (format x)) cs) i)
                  = map format (upd_nth (set_leaf p r) cs i)).
      { revert i. induction H as [|x rest Hx Hr IHl]; intros i; [destruct i; reflexivity|].
        destruct i as [|k]; cbn [map upd_nth].
        - rewrite Hx. f_equal.
          clear. induction rest as [|y r2 IH]; [reflexivity|]. cbn [map]. rewrite format_format, IH. reflexivity.
        - rewrite format_format, IHl. reflexivity. }
      assert (E1 : forall l1 l2, map format l1 = map format l2 ->
                   cat (map (fun x => fst (format x)) l1) = cat (map (fun x => fst (format x)) l2)
                   /\ map (fun x => snd (format x)) l1 = map (fun x => snd (format x)) l2).
      { induction l1 as [|a l1 IH]; intros [|b l2] Hm; try discriminate; [split; reflexivity|].
        cbn [map] in Hm. inversion Hm as [[Ha Hl]]. destruct (IH l2 Hl) as [I1 I2].
        cbn [map cat]. rewrite Ha, I1, I2. split; reflexivity. }
      destruct (E1 _ _ E) as [F1 F2]. rewrite F1, F2. reflexivity.
Qed.

Theorem observe_commutes : forall n p r,
  fst (format (set_leaf p r (snd (format n)))) = fst (format (set_leaf p r n)).
Proof. intros. rewrite observe_commutes_pair. reflexivity. Qed.

(* a whole program of edits with an observation after every edit ends in the same text as without *)
Fixpoint apply_edits_observed (es : list (list nat * string)) (n : node) : node :=
  match es with
  | [] => n
  | e :: r => apply_edits_observed r (snd (format (set_leaf (fst e) (snd e) n)))
  end.

Lemma format_congr_set_leaf : forall a b, format a = format b ->
  forall p r, format (set_leaf p r (snd (format a))) = format (set_leaf p r (snd (format b))).
Proof. intros a b H p r. rewrite H. reflexivity. Qed.

Theorem observed_program_same_text : forall es n,
  format (apply_edits_observed es (snd (format n))) = format (snd (format (apply_edits es n))).
Proof.
  induction es as [|e es IH]; intros n.
  - reflexivity.
  - cbn [apply_edits_observed]. rewrite apply_edits_cons.
    rewrite <- (IH (set_leaf (fst e) (snd e) n)).
    (* both trees are observations of trees with the same format *)
    assert (G : forall es a b, format a = format b ->
                format (apply_edits_observed es (snd (format a))) = format (apply_edits_observed es (snd (format b)))).
    { clear. induction es as [|e es IH]; intros a b H; [cbn; rewrite !format_format; exact H|].
      cbn [apply_edits_observed]. apply IH. rewrite !observe_commutes_pair.
      (* format (set_leaf p r a) = format (set_leaf p r b) follows from observing both *)
      rewrite <- (observe_commutes_pair a), <- (observe_commutes_pair b), H. reflexivity. }
    apply G. apply observe_commutes_pair.
Qed.

Corollary observed_program_text : forall es n,
  fst (format (apply_edits_observed es (snd (format n)))) = fst (format (apply_edits es n)).
Proof. intros. rewrite observed_program_same_text, format_format. reflexivity. Qed.

(* ------------------------------------------------------------------ *)
(* 8: a problem as a list of cards: cards that no edit names are written verbatim, in the same order *)

Lemma edit_card_length : forall cards k p r, List.length (edit_card cards k p r) = List.length cards.
Proof. induction cards as [|c rest IH]; intros [|k] p r; simpl; try reflexivity. rewrite IH. reflexivity. Qed.

Lemma edit_card_other : forall cards k j p r, k <> j -> nth_error (edit_card cards k p r) j = nth_error cards j.
Proof.
  induction cards as [|c rest IH]; intros [|k] [|j] p r H; simpl; try reflexivity.
  - congruence.
  - apply IH. congruence.
Qed.

Lemma edit_card_same : forall cards k p r c,
  nth_error cards k = Some c -> nth_error (edit_card cards k p r) k = Some (set_leaf p r c).
Proof.
  induction cards as [|x rest IH]; intros [|k] p r c H; simpl in *; try discriminate.
  - inversion H. reflexivity.
  - apply IH. exact H.
Qed.

Lemma apply_card_edits_cons : forall e es cards,
  apply_card_edits (e :: es) cards = apply_card_edits es (edit_card cards (fst (fst e)) (snd (fst e)) (snd e)).
Proof. reflexivity. Qed.

Theorem cards_count_kept : forall es cards, List.length (apply_card_edits es cards) = List.length cards.
Proof.
  induction es as [|e es IH]; intros cards; [reflexivity|].
  rewrite apply_card_edits_cons, IH. apply edit_card_length.
Qed.

Theorem untouched_cards_kept : forall es cards j,
  (forall e, In e es -> fst (fst e) <> j) ->
  nth_error (apply_card_edits es cards) j = nth_error cards j.
Proof.
  induction es as [|e es IH]; intros cards j H; [reflexivity|].
  rewrite apply_card_edits_cons, IH.
  - apply edit_card_other. apply H. left. reflexivity.
  - intros e' He'. apply H. right. exact He'.
Qed.

Lemma nth_error_format_all : forall cards j,
  nth_error (format_all cards) j = option_map (fun c => fst (format c)) (nth_error cards j).
Proof. intros. unfold format_all. apply nth_error_map. Qed.

(* the text of a card that no edit of the program names is the text of the unedited write *)
Theorem untouched_cards_verbatim : forall es cards j,
  (forall e, In e es -> fst (fst e) <> j) ->
  nth_error (format_all (apply_card_edits es cards)) j = nth_error (format_all cards) j.
Proof. intros. rewrite !nth_error_format_all, untouched_cards_kept by assumption. reflexivity. Qed.

(* ... and if that card was not edited before either, it is the text that was read *)
Corollary untouched_cards_as_read : forall es cards j c,
  (forall e, In e es -> fst (fst e) <> j) ->
  nth_error cards j = Some c -> unedited c = true -> as_parsed c = true ->
  nth_error (format_all (apply_card_edits es cards)) j = Some (flatten c).
Proof.
  intros es cards j c H Hc Hu Ha.
  rewrite untouched_cards_verbatim by assumption.
  rewrite nth_error_format_all, Hc. cbn. rewrite format_unchanged by assumption. reflexivity.
Qed.

(* ------------------------------------------------------------------ *)
(* 9: generations.  The parser is not modelled: it is any function that is lossless on the text at hand *)

Definition Lossless_on (P : string -> node) (s : string) : Prop :=
  flatten (P s) = s /\ unedited (P s) = true /\ as_parsed (P s) = true.

Theorem reread_fixed_point : forall P s, Lossless_on P s -> fst (format (P s)) = s.
Proof. intros P s (H1 & H2 & H3). rewrite format_unchanged by assumption. exact H1. Qed.

(* whatever tree t was written (edited or not): if the parser reads that text losslessly, writing it again
   reproduces it, and so does every further generation *)
Theorem generation_fixed_point : forall P t,
  let g1 := fst (format t) in
  Lossless_on P g1 ->
  let g2 := fst (format (P g1)) in
  g2 = g1 /\ fst (format (P g2)) = g2.
Proof.
  intros P t g1 H g2.
  assert (E : g2 = g1) by (apply reread_fixed_point; exact H).
  split; [exact E|]. rewrite E. exact E.
Qed.

(* ------------------------------------------------------------------ *)
(* 10: the cell parameter loop: a parameter is never fused with what precedes it *)

Lemma last_char_app_char : forall s a, last_char (s ++ String a "") = Some a.
Proof.
  induction s as [|b s IH]; intros a; [reflexivity|].
  cbn [append last_char]. destruct (s ++ String a "") eqn:E.
  - destruct s; discriminate.
  - rewrite <- E. apply IH.
Qed.

Lemma last_char_app : forall s t, t <> "" -> last_char (s ++ t) = last_char t.
Proof.
  induction s as [|b s IH]; intros t Ht; [reflexivity|].
  cbn [append last_char]. destruct (s ++ t) eqn:E.
  - destruct s, t; try discriminate. congruence.
  - rewrite <- E. apply IH. exact Ht.
Qed.

Lemma ends_ws_app : forall s t, t <> "" -> ends_ws (s ++ t) = ends_ws t.
Proof. intros. unfold ends_ws. rewrite last_char_app by assumption. reflexivity. Qed.

Lemma ends_ws_cont5 : forall s, ends_ws (s ++ cont5) = true.
Proof. intros. rewrite ends_ws_app; [reflexivity|discriminate]. Qed.

(* the last line and the whole text end with the same character, unless the text ends with a line break *)
Lemma last_line_aux_last : forall s cur prev fresh,
  ends_nl s = false -> s <> "" -> last_char (last_line_aux s cur prev fresh) = last_char s.
Proof.
  induction s as [|a s IH]; intros cur prev fresh Hn Hs; [congruence|].
  cbn [last_line_aux]. destruct s as [|b s'].
  - (* the last character *)
    unfold ends_nl in Hn. cbn [last_char] in Hn. rewrite Hn. cbn [last_line_aux last_char].
    apply last_char_app_char.
  - assert (Hn' : ends_nl (String b s') = false) by exact Hn.
    destruct (Nat.eqb (nat_of_ascii a) 10); rewrite IH by (assumption || discriminate); reflexivity.
Qed.

Lemma ends_nl_ws : forall s, ends_nl s = true -> ends_ws s = true.
Proof.
  intros s H. unfold ends_nl, ends_ws in *. destruct (last_char s) as [a|]; [|discriminate].
  apply Nat.eqb_eq in H. unfold is_ws. rewrite H. reflexivity.
Qed.

Lemma ends_ws_last_line : forall s, ends_ws (last_line s) = true -> ends_ws s = true.
Proof.
  intros s H. destruct (ends_nl s) eqn:N; [apply ends_nl_ws; exact N|].
  destruct s as [|a s]; [discriminate H|].
  unfold ends_ws in *. unfold last_line in H. rewrite last_line_aux_last in H by (assumption || discriminate).
  exact H.
Qed.

(* cleanup_last_line always leaves white space at the end: the parameter that is appended next starts a new
   token (C01: nothing is fused with a neighbouring token) *)
Theorem cleanup_separates : forall ret, ends_ws (cleanup_last_line ret) = true.
Proof.
  intros ret. unfold cleanup_last_line.
  destruct (orb (is_comment_line (last_line ret)) (has_char "$"%char (last_line ret))).
  - destruct (ends_nl ret); rewrite <- ?append_assoc; apply ends_ws_cont5.
  - destruct (ends_amp (last_line ret)); [rewrite <- append_assoc; apply ends_ws_cont5|].
    destruct (ends_ws (last_line ret)) eqn:E; [apply ends_ws_last_line; exact E|].
    rewrite ends_ws_app; [reflexivity|discriminate].
Qed.

(* after a comment (a 'c' line or a '$' comment) or a '&' the parameter starts on a continuation line of its own:
   it can neither become part of the comment nor follow the continuation marker on its line *)
Theorem cleanup_new_line : forall ret,
  orb (orb (is_comment_line (last_line ret)) (has_char "$"%char (last_line ret))) (ends_amp (last_line ret)) = true ->
  exists x, cleanup_last_line ret = x ++ nl ++ cont5.
Proof.
  intros ret H. unfold cleanup_last_line.
  destruct (orb (is_comment_line (last_line ret)) (has_char "$"%char (last_line ret))) eqn:C.
  - destruct (ends_nl ret) eqn:N; [|exists ret; reflexivity].
    (* ret = x ++ nl *)
    assert (G : forall s, ends_nl s = true -> exists x, s = x ++ nl).
    { clear. induction s as [|a s IH]; intros H; [discriminate|].
      destruct s as [|b s'].
      - unfold ends_nl in H. cbn in H. apply Nat.eqb_eq in H. exists "". cbn.
        rewrite <- (ascii_nat_embedding a), H. reflexivity.
      - destruct (IH H) as (x & Hx). exists (String a x). cbn. rewrite <- Hx. reflexivity. }
    destruct (G ret N) as (x & ->). exists x. rewrite append_assoc. reflexivity.
  - simpl in H. rewrite H. exists ret. reflexivity.
Qed.

(* ------------------------------------------------------------------ *)
(* 11: per-particle importances *)

Lemma lookup_set_owner_other : forall o p q i new placed,
  q <> p -> lookup q (set_owner o p i new placed) = lookup q o.
Proof.
  induction o as [|[q0 j] o IH]; intros p q i new placed Hne; [reflexivity|].
  cbn [set_owner].
  assert (Eq : (q =? p)%string = false) by (apply String.eqb_neq; exact Hne).
  destruct (andb (Nat.eqb j i) (negb placed)); destruct (String.eqb p q0) eqn:E0; cbn [app lookup];
    rewrite ?Eq.
  - apply String.eqb_eq in E0. subst q0. rewrite Eq. apply IH. exact Hne.
  - destruct (String.eqb q q0); [reflexivity|apply IH; exact Hne].
  - apply String.eqb_eq in E0. subst q0. rewrite Eq. apply IH. exact Hne.
  - destruct (String.eqb q q0); [reflexivity|apply IH; exact Hne].
Qed.

Lemma lookup_in : forall o q j, lookup q o = Some j -> In (q, j) o.
Proof.
  induction o as [|[q0 j0] o IH]; intros q j H; [discriminate|].
  cbn [lookup] in H. destruct (String.eqb q q0) eqn:E.
  - apply String.eqb_eq in E. inversion H. subst. left. reflexivity.
  - right. apply IH. exact H.
Qed.

Lemma nth_error_set_nth_other : forall (A : Type) (l : list A) i j x, i <> j -> nth_error (set_nth l i x) j = nth_error l j.
Proof.
  induction l as [|y l IH]; intros [|i] [|j] x H; simpl; try reflexivity; try congruence.
  apply IH. congruence.
Qed.

Lemma nth_error_set_nth_same : forall (A : Type) (l : list A) i x y,
  nth_error l i = Some y -> nth_error (set_nth l i x) i = Some x.
Proof.
  induction l as [|z l IH]; intros [|i] x y H; simpl in *; try discriminate; [reflexivity|].
  eapply IH. exact H.
Qed.

Lemma set_nth_length : forall (A : Type) (l : list A) i x, List.length (set_nth l i x) = List.length l.
Proof. induction l as [|y l IH]; intros [|i] x; simpl; try reflexivity. rewrite IH. reflexivity. Qed.

(* C03: setting the importance of particle p leaves the importance of every other particle q as it was, also when
   p and q were read from one shared entry 'imp:p,q=x' *)
Definition owner_in_range (st : imp_state) : Prop :=
  forall q j, lookup q (owner st) = Some j -> j < List.length (trees st).

Lemma imp_wf_in_range : forall st, imp_wf st -> owner_in_range st.
Proof.
  intros st (W1 & _) q j H. destruct (W1 q j H) as (t & Ht & _). apply nth_error_Some. congruence.
Qed.

Theorem imp_independent : forall st p q v,
  owner_in_range st -> q <> p -> imp_get (imp_set st p v) q = imp_get st q.
Proof.
  intros st p q v Hr Hne. unfold imp_set.
  destruct (lookup p (owner st)) as [i|] eqn:Lp; [|reflexivity].
  destruct (nth_error (trees st) i) as [t|] eqn:Ti; [|reflexivity].
  destruct (shares st p i) eqn:Sh; unfold imp_get; cbn [owner trees].
  - rewrite (lookup_set_owner_other _ _ _ _ _ _ Hne).
    destruct (lookup q (owner st)) as [j|] eqn:Lq; [|reflexivity].
    destruct (nth_error (trees st) j) as [u|] eqn:Tj.
    + assert (Hlt : j < List.length (set_nth (trees st) i
                 {| it_parts := filter (fun q0 => negb (q0 =? p)%string) (it_parts t); it_value := it_value t |})).
      { rewrite set_nth_length. apply nth_error_Some. congruence. }
      rewrite nth_error_app1 by exact Hlt.
      destruct (Nat.eq_dec i j) as [->|N].
      * rewrite (nth_error_set_nth_same _ _ _ _ _ Ti). rewrite Ti in Tj. inversion Tj. reflexivity.
      * rewrite (nth_error_set_nth_other _ _ _ _ _ N), Tj. reflexivity.
    + exfalso. apply nth_error_None in Tj. pose proof (Hr q j Lq). lia.
  - destruct (lookup q (owner st)) as [j|] eqn:Lq; [|reflexivity].
    assert (N : i <> j).
    { intro; subst j. unfold shares in Sh.
      assert (X : existsb (fun qi => andb (negb (fst qi =? p)%string) (Nat.eqb (snd qi) i)) (owner st) = true).
      { apply existsb_exists. exists (q, i). split; [apply lookup_in; exact Lq|].
        cbn. rewrite Nat.eqb_refl, andb_true_r. apply negb_true_iff, String.eqb_neq. exact Hne. }
      congruence. }
    rewrite (nth_error_set_nth_other _ _ _ _ _ N). reflexivity.
Qed.

Lemma lookup_set_owner_placed : forall o p i new, lookup p (set_owner o p i new true) = None.
Proof.
  induction o as [|[q0 j] o IH]; intros p i new; [reflexivity|].
  cbn [set_owner]. rewrite andb_false_r. cbn [app orb].
  destruct (String.eqb p q0) eqn:E; cbn [app lookup]; [apply IH|].
  rewrite E. apply IH.
Qed.

Lemma lookup_set_owner_new : forall o p i new,
  (exists q, In (q, i) o) -> lookup p (set_owner o p i new false) = Some new.
Proof.
  induction o as [|[q0 j] o IH]; intros p i new (q & Hq); [destruct Hq|].
  cbn [set_owner]. cbn [negb]. rewrite andb_true_r.
  destruct (Nat.eqb j i) eqn:Ej.
  - cbn [app lookup]. rewrite String.eqb_refl. reflexivity.
  - cbn [app orb]. destruct Hq as [Hq|Hq].
    + inversion Hq. subst. rewrite Nat.eqb_refl in Ej. discriminate.
    + destruct (String.eqb p q0) eqn:E; cbn [app lookup]; rewrite ?E; apply IH; exists q; exact Hq.
Qed.

(* C03: ... and p itself carries the new value *)
Theorem imp_set_get : forall st p v i t,
  lookup p (owner st) = Some i -> nth_error (trees st) i = Some t ->
  imp_get (imp_set st p v) p = Some v.
Proof.
  intros st p v i t Lp Ti. unfold imp_set. rewrite Lp, Ti.
  destruct (shares st p i); unfold imp_get; cbn [owner trees].
  - rewrite lookup_set_owner_new by (exists p; apply lookup_in; exact Lp).
    rewrite nth_error_app2 by (rewrite set_nth_length; lia).
    rewrite set_nth_length, Nat.sub_diag. reflexivity.
  - rewrite Lp, (nth_error_set_nth_same _ _ _ _ _ Ti). reflexivity.
Qed.

(* the code before 11534b6 wrote into the shared tree: refuted on 'imp:n,p=1' *)
Definition ex_imp : imp_state :=
  {| trees := [ {| it_parts := ["n"; "p"]; it_value := "1" |}; {| it_parts := ["e"]; it_value := "0" |} ];
     owner := [("n", 0); ("p", 0); ("e", 1)] |}.

Lemma ex_imp_wf : imp_wf ex_imp.
Proof.
  unfold imp_wf, ex_imp; cbn [trees owner]. split; [|split].
  - intros p i H. cbn in H.
    destruct (String.eqb p "n") eqn:E1; [inversion H; subst; apply String.eqb_eq in E1; subst; eexists; split; reflexivity|].
    destruct (String.eqb p "p") eqn:E2; [inversion H; subst; apply String.eqb_eq in E2; subst; eexists; split; reflexivity|].
    destruct (String.eqb p "e") eqn:E3; [inversion H; subst; apply String.eqb_eq in E3; subst; eexists; split; reflexivity|].
    discriminate.
  - intros p i j t u Hi Hj Ht Hu.
    destruct i as [|[|i]]; destruct j as [|[|j]]; cbn in Hi, Hj; try reflexivity;
      try (destruct i; discriminate); try (destruct j; discriminate);
      inversion Hi; inversion Hj; subst; cbn in Ht, Hu;
      repeat match goal with
             | H : (if String.eqb ?a ?b then _ else _) = true |- _ => destruct (String.eqb a b) eqn:?E
             | H : orb _ _ = true |- _ => apply orb_true_iff in H; destruct H
             | H : String.eqb _ _ = true |- _ => apply String.eqb_eq in H; subst
             end; try discriminate.
  - intros p i t Hi Ht.
    destruct i as [|[|i]]; cbn in Hi; try (destruct i; discriminate); inversion Hi; subst; cbn in Ht;
      repeat match goal with
             | H : orb _ _ = true |- _ => apply orb_true_iff in H; destruct H
             | H : String.eqb _ _ = true |- _ => apply String.eqb_eq in H; subst
             end; try discriminate; reflexivity.
Qed.

Theorem imp_old_shared_refuted :
  exists st p q v, q <> p /\ imp_wf st /\ imp_get (imp_set_old st p v) q <> imp_get st q.
Proof.
  exists ex_imp, "n", "p", "2". split; [discriminate|]. split; [exact ex_imp_wf|].
  vm_compute. discriminate.
Qed.

Example ex_imp_set :
  imp_get (imp_set ex_imp "n" "2") "p" = Some "1" /\ imp_get (imp_set ex_imp "n" "2") "n" = Some "2"
  /\ map it_parts (imp_written (imp_set ex_imp "n" "2")) = [["n"]; ["p"]; ["e"]]
  /\ map it_value (imp_written (imp_set ex_imp "n" "2")) = ["2"; "1"; "0"].
Proof. repeat split; vm_compute; reflexivity. Qed.

(* ------------------------------------------------------------------ *)
(* 12: the writer's block structure *)

Definition nonblank_all (ls : list string) : Prop :=
  forallb (fun l => negb (blank_line l)) ls = true.

Lemma nonblank_all_app : forall a b, nonblank_all a -> nonblank_all b -> nonblank_all (a ++ b)%list.
Proof.
  unfold nonblank_all. intros a b Ha Hb. rewrite forallb_app, Ha, Hb. reflexivity.
Qed.

Lemma split_blocks_app : forall a b rest cur,
  nonblank_all a -> blank_line b = true ->
  split_blocks (a ++ b :: rest)%list cur = (rev cur ++ a)%list :: split_blocks rest [].
Proof.
  unfold nonblank_all.
  induction a as [|x a IH]; intros b rest cur Ha Hb.
  - cbn [app split_blocks]. rewrite Hb, app_nil_r. reflexivity.
  - cbn [forallb] in Ha. apply andb_true_iff in Ha. destruct Ha as [Hx Ha].
    apply negb_true_iff in Hx.
    cbn [app split_blocks]. rewrite Hx. rewrite (IH b rest (x :: cur) Ha Hb).
    cbn [rev]. rewrite <- app_assoc. reflexivity.
Qed.

Theorem writer_blocks : forall title cells surfaces data children,
  nonblank_all (List.concat cells) -> nonblank_all (List.concat surfaces) ->
  nonblank_all (List.concat data) -> nonblank_all (List.concat children) ->
  blank_line title = false ->
  split_blocks (write_lines [] title cells surfaces data children) []
  = [title :: List.concat cells; List.concat surfaces;
     (List.concat data ++ List.concat children)%list; []; []].
Proof.
  intros title cells surfaces data children Hc Hs Hd Hk Ht.
  change (write_lines [] title cells surfaces data children)
    with ((title :: List.concat cells) ++ "" ::
          (List.concat surfaces ++ "" ::
           (List.concat data ++ List.concat children ++ "" :: [""])))%list.
  rewrite split_blocks_app; [| |reflexivity].
  2:{ unfold nonblank_all in *. cbn [forallb]. rewrite Ht, Hc. reflexivity. }
  rewrite split_blocks_app; [|assumption|reflexivity].
  rewrite app_assoc.
  rewrite split_blocks_app; [|apply nonblank_all_app; assumption|reflexivity].
  reflexivity.
Qed.

(* the old order (child cards after the data block's terminating blank line) was wrong *)
Theorem writer_children_after_terminator_refuted :
  exists title cells surfaces data children,
    nonblank_all (List.concat cells) /\ nonblank_all (List.concat surfaces) /\
    nonblank_all (List.concat data) /\ nonblank_all (List.concat children) /\
    blank_line title = false /\ children <> [] /\
    let old := ([title] ++ List.concat cells ++ [""] ++ List.concat surfaces ++ [""]
                ++ List.concat data ++ [""] ++ List.concat children ++ [""])%list in
    nth 2 (split_blocks old []) [] <> (List.concat data ++ List.concat children)%list.
Proof.
  exists "t", [["c"]], [["s"]], [["d"]], [["k"]].
  repeat (split; [reflexivity || discriminate|]).
  vm_compute. discriminate.
Qed.

(* ------------------------------------------------------------------ *)
(* 13: non-vacuity *)

(* an as-parsed, unedited tree: a SyntaxNode with a skipped value (value None, empty text), a classifier with
   a ParticleNode, a ListNode whose first value needs no repair because a padding node follows, a shortcut
   followed by white space, a comment *)
Definition ex_tree : node :=
  NS [ NV "10" (Some [PS " "]) false true None None;
       NV "" None false false None None;
       NC [ NV "imp" None true true None None; NT false ["n"; "p"] ["n"; "p"]; NP [PS "="] ];
       NL [ NV "1" None false true None None; NP [PS " "]; NV "2.50" (Some [PS "  "]) false true None None;
            NK "3 2r "; NV "3" None false true None None ];
       NC [ NP [PS " "; PC "$ c"; PS nl] ] ].

Example ex_tree_hyps : unedited ex_tree = true /\ as_parsed ex_tree = true.
Proof. split; vm_compute; reflexivity. Qed.

Example ex_tree_format :
  format ex_tree = (flatten ex_tree, ex_tree) /\ flatten ex_tree = "10 imp:n,p=1 2.50  3 2r 3 $ c" ++ nl.
Proof. split; vm_compute; reflexivity. Qed.

(* a ListNode built by hand (values without padding): format repairs the padding, i.e. changes the
   tree and writes something else than [flatten]; formatting again gives the same text and tree *)
Definition ex_list : node :=
  NL [ NV "1" None false true None None; NV "2" None false true None None; NV "3" None true true None None;
       NV "4" None false true (Some "4.5") None; NK "5 2r"; NV "6" None false true None None;
       NT true ["p"; "n"] ["e"; "n"] ].

Example ex_list_not_as_parsed : as_parsed ex_list = false.
Proof. vm_compute. reflexivity. Qed.

Example ex_list_format :
  fst (format ex_list) = "1 2 34.5 5 2r 6 :N,E" /\ flatten ex_list = "12345 2r6:P,N" /\
  snd (format ex_list) <> ex_list /\
  fst (format (snd (format ex_list))) = "1 2 34.5 5 2r 6 :N,E" /\
  snd (format (snd (format ex_list))) = snd (format ex_list).
Proof.
  split; [vm_compute; reflexivity|]. split; [vm_compute; reflexivity|].
  split; [vm_compute; discriminate|]. split; vm_compute; reflexivity.
Qed.

(* edits: the skipped value gets a value (and a blank), a ListNode value keeps its column when the new text is
   not longer than the old field, and gets a blank when it is *)
Example ex_edit :
  fst (format (set_leaf [1] "7" ex_tree)) = "10 7 imp:n,p=1 2.50  3 2r 3 $ c" ++ nl /\
  fst (format (set_leaf [3; 2] "9" ex_tree)) = "10 imp:n,p=1 9     3 2r 3 $ c" ++ nl /\
  fst (format (set_leaf [3; 2] "2.123456" ex_tree)) = "10 imp:n,p=1 2.123456 3 2r 3 $ c" ++ nl.
Proof. repeat split; vm_compute; reflexivity. Qed.

(* an observation between two edits: same text *)
Example ex_observe :
  fst (format (set_leaf [3; 0] "1.5" (snd (format (set_leaf [3; 2] "9" ex_tree)))))
  = fst (format (set_leaf [3; 0] "1.5" (set_leaf [3; 2] "9" ex_tree))).
Proof. vm_compute. reflexivity. Qed.

(* a problem of three cards, the second one edited twice *)
Definition ex_cards : list node := [ex_tree; ex_tree; NS [NV "nps" (Some [PS " "]) false true None None; NO "10"]].
Example ex_cards_edit :
  nth_error (format_all (apply_card_edits [(1, [3; 2], "9"); (1, [3; 2], "8")] ex_cards)) 0 = Some (flatten ex_tree) /\
  nth_error (format_all (apply_card_edits [(1, [3; 2], "9"); (1, [3; 2], "8")] ex_cards)) 2 = Some "nps 10" /\
  nth_error (format_all (apply_card_edits [(1, [3; 2], "9"); (1, [3; 2], "8")] ex_cards)) 1
    = Some ("10 imp:n,p=1 8     3 2r 3 $ c" ++ nl).
Proof. repeat split; vm_compute; reflexivity. Qed.

(* a parser that is lossless on one text: the constant function *)
Example ex_lossless : Lossless_on (fun _ => ex_tree) (flatten ex_tree).
Proof. repeat split; vm_compute; reflexivity. Qed.

(* the cell parameter loop after a '$' comment, after a '&' and after a plain token *)
Example ex_cleanup :
  cleanup_last_line ("1 0 -1 $ c" ++ nl) = "1 0 -1 $ c" ++ nl ++ cont5 /\
  cleanup_last_line "1 0 -1 imp:n=1 &" = "1 0 -1 imp:n=1 &" ++ nl ++ cont5 /\
  cleanup_last_line "1 0 -1" = "1 0 -1 " /\
  cell_text [CNode (NO "1 0 -1 "); CMod "imp:n=1 &"; CParam (NO "tmp=1 &")] = "1 0 -1 imp:n=1 &" ++ nl ++ cont5 ++ "tmp=1 ".
Proof. repeat split; vm_compute; reflexivity. Qed.

(* every card of an unedited problem is written as it was read, in the same order *)
Theorem all_cards_as_read : forall cards,
  forallb (fun c => andb (unedited c) (as_parsed c)) cards = true -> format_all cards = map flatten cards.
Proof.
  induction cards as [|c rest IH]; intros H; [reflexivity|].
  cbn [forallb] in H. apply andb_true_iff in H. destruct H as [Hc Hr].
  apply andb_true_iff in Hc. destruct Hc as [Hu Ha].
  unfold format_all in *. cbn [map]. rewrite (IH Hr), format_unchanged by assumption. reflexivity.
Qed.

Example ex_all_cards : forallb (fun c => andb (unedited c) (as_parsed c)) ex_cards = true.
Proof. vm_compute. reflexivity. Qed.

(* ------------------------------------------------------------------ *)
(* 14: what is WRITTEN for the importances ('imp:<particles>=<value>' per tree) says what the object holds *)

Lemma imp_denote_some : forall ts p v,
  imp_denote ts p = Some v -> exists i t, nth_error ts i = Some t /\ mem_str p (it_parts t) = true /\ it_value t = v.
Proof.
  induction ts as [|t ts IH]; intros p v H; [discriminate|].
  cbn [imp_denote] in H. destruct (mem_str p (it_parts t)) eqn:E.
  - inversion H. exists 0, t. repeat split; assumption || reflexivity.
  - destruct (IH p v H) as (i & u & H1 & H2 & H3). exists (Datatypes.S i), u. repeat split; assumption.
Qed.

Lemma imp_denote_none : forall ts p,
  imp_denote ts p = None -> forall i t, nth_error ts i = Some t -> mem_str p (it_parts t) = false.
Proof.
  induction ts as [|t ts IH]; intros p H i u Hi; [destruct i; discriminate|].
  cbn [imp_denote] in H. destruct (mem_str p (it_parts t)) eqn:E; [discriminate|].
  destruct i as [|i]; cbn in Hi; [inversion Hi; subst; exact E|]. eapply IH; eassumption.
Qed.

(* if every tree of a list that lists p has the value v, and one does, the list says v *)
Lemma imp_denote_unique : forall l p v,
  (forall t, In t l -> mem_str p (it_parts t) = true -> it_value t = v) ->
  (exists t, In t l /\ mem_str p (it_parts t) = true) -> imp_denote l p = Some v.
Proof.
  induction l as [|t l IH]; intros p v Hall (u & Hu & Hm); [destruct Hu|].
  cbn [imp_denote]. destruct (mem_str p (it_parts t)) eqn:E.
  - f_equal. apply Hall; [left; reflexivity|exact E].
  - apply IH.
    + intros x Hx. apply Hall. right. exact Hx.
    + destruct Hu as [->|Hu]; [congruence|]. exists u. split; assumption.
Qed.

Lemma imp_denote_absent : forall l p,
  (forall t, In t l -> mem_str p (it_parts t) = false) -> imp_denote l p = None.
Proof.
  induction l as [|t l IH]; intros p H; [reflexivity|].
  cbn [imp_denote]. rewrite (H t (or_introl eq_refl)). apply IH. intros x Hx. apply H. right. exact Hx.
Qed.

Theorem imp_trees_denote_get : forall st p, imp_wf st -> imp_denote (trees st) p = imp_get st p.
Proof.
  intros st p (W1 & W2 & W3). unfold imp_get.
  destruct (imp_denote (trees st) p) as [v|] eqn:D.
  - destruct (imp_denote_some _ _ _ D) as (i & t & Hi & Hm & Hv).
    rewrite (W3 p i t Hi Hm), Hi. cbn. rewrite Hv. reflexivity.
  - destruct (lookup p (owner st)) as [i|] eqn:L; [|reflexivity].
    destruct (W1 p i L) as (t & Hi & Hm). rewrite (imp_denote_none _ _ D i t Hi) in Hm. discriminate.
Qed.

Lemma written_idx_in : forall o seen i,
  In i (written_idx o seen) <-> ((exists q, In (q, i) o) /\ ~ In i seen).
Proof.
  induction o as [|[q j] o IH]; intros seen i.
  - cbn. split; [intros []|intros ((q & []) & _)].
  - cbn [written_idx]. destruct (existsb (Nat.eqb j) seen) eqn:E.
    + rewrite IH. split.
      * intros ((q' & Hq) & Hn). split; [exists q'; right; exact Hq|exact Hn].
      * intros ((q' & [Hq|Hq]) & Hn).
        -- inversion Hq; subst. exfalso. apply Hn. apply existsb_exists in E. destruct E as (x & Hx & Ex).
           apply Nat.eqb_eq in Ex. subst. exact Hx.
        -- split; [exists q'; exact Hq|exact Hn].
    + cbn [In]. rewrite IH. split.
      * intros [->|((q' & Hq) & Hn)].
        -- split; [exists q; left; reflexivity|].
           intro Hs. assert (X : existsb (Nat.eqb i) seen = true)
             by (apply existsb_exists; exists i; split; [exact Hs|apply Nat.eqb_refl]). congruence.
        -- split; [exists q'; right; exact Hq|]. intro Hs. apply Hn. right. exact Hs.
      * intros ((q' & [Hq|Hq]) & Hn).
        -- inversion Hq; subst. left. reflexivity.
        -- destruct (Nat.eq_dec j i) as [->|N]; [left; reflexivity|].
           right. split; [exists q'; exact Hq|]. intros [Hs|Hs]; [congruence|exact (Hn Hs)].
Qed.

Lemma imp_written_in : forall st t,
  In t (imp_written st) <-> exists i, (exists q, In (q, i) (owner st)) /\ nth_error (trees st) i = Some t.
Proof.
  intros st t. unfold imp_written. rewrite in_flat_map. split.
  - intros (i & Hi & Ht). apply written_idx_in in Hi. destruct Hi as (Hq & _).
    destruct (nth_error (trees st) i) as [u|] eqn:E; [|destruct Ht].
    destruct Ht as [->|[]]. exists i. split; [exact Hq|exact E].
  - intros (i & Hq & Hi). exists i. split.
    + apply written_idx_in. split; [exact Hq|intros []].
    + rewrite Hi. left. reflexivity.
Qed.

(* the written parameters say, for every particle, exactly what the Importance object answers *)
Theorem imp_written_denotes : forall st p, imp_wf st -> imp_denote (imp_written st) p = imp_get st p.
Proof.
  intros st p W. rewrite <- (imp_trees_denote_get st p W). destruct W as (W1 & W2 & W3).
  destruct (imp_denote (trees st) p) as [v|] eqn:D.
  - destruct (imp_denote_some _ _ _ D) as (i & t & Hi & Hm & Hv).
    apply imp_denote_unique.
    + intros u Hu Hmu. apply imp_written_in in Hu. destruct Hu as (j & _ & Hj).
      assert (Eij : i = j) by apply (W2 p i j t u Hi Hj Hm Hmu). subst j.
      rewrite Hi in Hj. inversion Hj as [Etu]. rewrite <- Etu. exact Hv.
    + exists t. split; [|exact Hm]. apply imp_written_in. exists i. split; [|exact Hi].
      exists p. apply lookup_in. apply (W3 p i t Hi Hm).
  - apply imp_denote_absent. intros u Hu. apply imp_written_in in Hu. destruct Hu as (j & _ & Hj).
    apply (imp_denote_none _ _ D j u Hj).
Qed.

(* imp_set keeps the state well formed *)
Lemma nth_error_set_nth : forall (A : Type) (l : list A) i j x,
  nth_error (set_nth l i x) j = if Nat.eqb i j then (match nth_error l i with Some _ => Some x | None => None end)
                                else nth_error l j.
Proof.
  induction l as [|y l IH]; intros [|i] [|j] x; simpl; try reflexivity.
  - destruct (Nat.eqb i j); reflexivity.
  - apply IH.
Qed.

Lemma mem_filter_neq : forall q p l, q <> p ->
  mem_str q (filter (fun x => negb (String.eqb x p)) l) = mem_str q l.
Proof.
  intros q p l Hne. induction l as [|x l IH]; [reflexivity|].
  cbn [filter]. destruct (String.eqb x p) eqn:E; cbn [negb].
  - apply String.eqb_eq in E. subst x. unfold mem_str in *. cbn [existsb].
    assert (X : String.eqb q p = false) by (apply String.eqb_neq; exact Hne). rewrite X. exact IH.
  - unfold mem_str in *. cbn [existsb]. rewrite IH. reflexivity.
Qed.

Lemma mem_filter_self : forall p l, mem_str p (filter (fun x => negb (String.eqb x p)) l) = false.
Proof.
  intros p l. induction l as [|x l IH]; [reflexivity|].
  cbn [filter]. destruct (String.eqb x p) eqn:E; cbn [negb]; [exact IH|].
  unfold mem_str in *. cbn [existsb]. rewrite IH, String.eqb_sym, E. reflexivity.
Qed.

Theorem imp_set_wf : forall st p v, imp_wf st -> imp_wf (imp_set st p v).
Proof.
  intros st p v W. pose proof W as (W1 & W2 & W3). unfold imp_set.
  destruct (lookup p (owner st)) as [i|] eqn:Lp; [|exact W].
  destruct (nth_error (trees st) i) as [t|] eqn:Ti; [|exact W].
  assert (Hil : i < List.length (trees st)) by (apply nth_error_Some; congruence).
  assert (Hpt : mem_str p (it_parts t) = true).
  { destruct (W1 p i Lp) as (t' & Ht' & Hm). rewrite Ti in Ht'. inversion Ht'. subst. exact Hm. }
  destruct (shares st p i) eqn:Sh.
  - (* the particle gets a new tree at index n *)
    set (n := List.length (trees st)).
    set (t_old := {| it_parts := filter (fun q => negb (String.eqb q p)) (it_parts t); it_value := it_value t |}).
    set (t_new := {| it_parts := [p]; it_value := v |}).
    (* the trees afterwards *)
    assert (Nth : forall j, nth_error (set_nth (trees st) i t_old ++ [t_new]) j =
                  if Nat.eqb j n then Some t_new else if Nat.eqb i j then Some t_old else nth_error (trees st) j).
    { intros j. destruct (Nat.eqb j n) eqn:En.
      - apply Nat.eqb_eq in En. subst j. rewrite nth_error_app2 by (rewrite set_nth_length; unfold n; lia).
        rewrite set_nth_length. unfold n. rewrite Nat.sub_diag. reflexivity.
      - apply Nat.eqb_neq in En. destruct (Nat.lt_ge_cases j n) as [Hlt|Hge].
        + rewrite nth_error_app1 by (rewrite set_nth_length; exact Hlt).
          rewrite nth_error_set_nth, Ti. reflexivity.
        + rewrite nth_error_app2 by (rewrite set_nth_length; exact Hge). rewrite set_nth_length.
          destruct (j - List.length (trees st)) eqn:Dj; [unfold n in *; lia|].
          assert (Ni : Nat.eqb i j = false) by (apply Nat.eqb_neq; unfold n in *; lia). rewrite Ni.
          cbn. destruct n0; cbn; symmetry; apply nth_error_None; unfold n in *; lia. }
    assert (Lown : forall q, q <> p -> lookup q (set_owner (owner st) p i n false) = lookup q (owner st))
      by (intros; apply lookup_set_owner_other; assumption).
    assert (Lp' : lookup p (set_owner (owner st) p i n false) = Some n)
      by (apply lookup_set_owner_new; exists p; apply lookup_in; exact Lp).
    (* which trees list a particle afterwards *)
    assert (Lists : forall q j u, nth_error (set_nth (trees st) i t_old ++ [t_new]) j = Some u ->
                    mem_str q (it_parts u) = true ->
                    (q = p /\ j = n) \/ (q <> p /\ exists u0, nth_error (trees st) j = Some u0 /\ mem_str q (it_parts u0) = true)).
    { intros q j u Hj Hm. rewrite Nth in Hj. destruct (Nat.eqb j n) eqn:En.
      - inversion Hj. subst u. cbn in Hm. rewrite orb_false_r in Hm. apply String.eqb_eq in Hm. subst q.
        left. split; [reflexivity|apply Nat.eqb_eq; exact En].
      - destruct (Nat.eqb i j) eqn:Ei.
        + inversion Hj. subst u. apply Nat.eqb_eq in Ei. subst j. cbn [it_parts t_old] in Hm.
          destruct (String.eqb q p) eqn:Eq.
          * apply String.eqb_eq in Eq. subst q. rewrite mem_filter_self in Hm. discriminate.
          * apply String.eqb_neq in Eq. right. split; [exact Eq|]. exists t. split; [exact Ti|].
            rewrite mem_filter_neq in Hm by exact Eq. exact Hm.
        + destruct (String.eqb q p) eqn:Eq.
          * apply String.eqb_eq in Eq. subst q. exfalso.
            apply Nat.eqb_neq in Ei. apply Ei. apply (W2 p i j t u Ti Hj Hpt Hm).
          * apply String.eqb_neq in Eq. right. split; [exact Eq|]. exists u. split; assumption. }
    unfold imp_wf. cbn [trees owner]. split; [|split].
    + intros q j Hq. destruct (String.eqb q p) eqn:Eq.
      * apply String.eqb_eq in Eq. subst q. rewrite Lp' in Hq. inversion Hq. subst j.
        exists t_new. split; [rewrite Nth, Nat.eqb_refl; reflexivity|]. cbn. rewrite String.eqb_refl. reflexivity.
      * apply String.eqb_neq in Eq. rewrite (Lown q Eq) in Hq.
        destruct (W1 q j Hq) as (u & Hu & Hm).
        assert (Hjn : Nat.eqb j n = false) by (apply Nat.eqb_neq; assert (j < n) by (apply nth_error_Some; congruence); lia).
        rewrite Nth, Hjn. destruct (Nat.eqb i j) eqn:Ei.
        -- apply Nat.eqb_eq in Ei. subst j. rewrite Ti in Hu. inversion Hu. subst u.
           exists t_old. split; [reflexivity|]. cbn [it_parts t_old]. rewrite mem_filter_neq by exact Eq. exact Hm.
        -- exists u. split; assumption.
    + intros q j k u w Hj Hk Hmu Hmw.
      destruct (Lists q j u Hj Hmu) as [(-> & ->)|(Nq & u0 & Hu0 & Hm0)];
        destruct (Lists _ k w Hk Hmw) as [(E1 & ->)|(Nq' & w0 & Hw0 & Hmw0)]; try congruence.
      apply (W2 q j k u0 w0 Hu0 Hw0 Hm0 Hmw0).
    + intros q j u Hj Hm.
      destruct (Lists q j u Hj Hm) as [(-> & ->)|(Nq & u0 & Hu0 & Hm0)]; [exact Lp'|].
      rewrite (Lown q Nq). apply (W3 q j u0 Hu0 Hm0).
  - (* the particle owns its tree alone: only the value changes *)
    set (t' := {| it_parts := it_parts t; it_value := v |}).
    assert (Parts : forall j u, nth_error (set_nth (trees st) i t') j = Some u ->
                    exists u0, nth_error (trees st) j = Some u0 /\ it_parts u0 = it_parts u).
    { intros j u Hj. rewrite nth_error_set_nth, Ti in Hj. destruct (Nat.eqb i j) eqn:Ei.
      - apply Nat.eqb_eq in Ei. subst j. inversion Hj. subst u. exists t. split; [exact Ti|reflexivity].
      - exists u. split; [exact Hj|reflexivity]. }
    unfold imp_wf. cbn [trees owner]. split; [|split].
    + intros q j Hq. destruct (W1 q j Hq) as (u & Hu & Hm).
      rewrite nth_error_set_nth, Ti. destruct (Nat.eqb i j) eqn:Ei.
      * apply Nat.eqb_eq in Ei. subst j. rewrite Ti in Hu. inversion Hu. subst u. exists t'. split; [reflexivity|exact Hm].
      * exists u. split; assumption.
    + intros q j k u w Hj Hk Hmu Hmw.
      destruct (Parts j u Hj) as (u0 & Hu0 & Eu). destruct (Parts k w Hk) as (w0 & Hw0 & Ew).
      rewrite <- Eu in Hmu. rewrite <- Ew in Hmw. apply (W2 q j k u0 w0 Hu0 Hw0 Hmu Hmw).
    + intros q j u Hj Hm. destruct (Parts j u Hj) as (u0 & Hu0 & Eu). rewrite <- Eu in Hm.
      apply (W3 q j u0 Hu0 Hm).
Qed.

(* C03, at the level of what is written: after setting particle p, the written importances say v for p and what
   they said before for every other particle — also for the particles that shared p's entry *)
Theorem imp_written_after_set : forall st p v q i,
  imp_wf st -> lookup p (owner st) = Some i ->
  imp_denote (imp_written (imp_set st p v)) q =
    if String.eqb q p then Some v else imp_denote (imp_written st) q.
Proof.
  intros st p v q i W Lp.
  rewrite (imp_written_denotes _ q (imp_set_wf st p v W)), (imp_written_denotes st q W).
  destruct (String.eqb q p) eqn:E.
  - apply String.eqb_eq in E. subst q. destruct W as (W1 & _). destruct (W1 p i Lp) as (t & Ht & _).
    eapply imp_set_get; eassumption.
  - apply String.eqb_neq in E. apply imp_independent; [apply imp_wf_in_range; exact W|exact E].
Qed.
