(* TreeProofs.v — proofs about Model/Tree.v: an unedited as-parsed tree is written as read,
   format is idempotent (text and tree), an edit is local, other leaves are untouched, and the
   file writer's block structure.  Coq stdlib only, no axioms. *)
From Coq Require Import List String Ascii Arith Bool Lia.
From MPV Require Import Model.Wire Model.Tree.
Import ListNotations.
Open Scope string_scope.

(* ------------------------------------------------------------------ *)
(* strings *)

Lemma append_nil_r : forall s : string, s ++ "" = s.
Proof. induction s; simpl; congruence. Qed.

Lemma append_assoc : forall a b c : string, (a ++ b) ++ c = a ++ b ++ c.
Proof. induction a; simpl; intros; congruence. Qed.

Lemma concat_cons : forall x xs, String.concat "" (x :: xs) = x ++ String.concat "" xs.
Proof.
  intros x [|y ys].
  - simpl. symmetry. apply append_nil_r.
  - reflexivity.
Qed.

(* plain concatenation of a list of strings *)
Fixpoint cat (l : list string) : string :=
  match l with [] => "" | x :: r => x ++ cat r end.

Lemma concat_cat : forall l, String.concat "" l = cat l.
Proof. induction l as [|x r IH]; [reflexivity|]. rewrite concat_cons, IH. reflexivity. Qed.

(* ------------------------------------------------------------------ *)
(* a proper induction principle for the nested inductive [node] *)

Section NodeInd.
  Variable Pn : node -> Prop.
  Hypothesis HV : forall tok pad np hv ed, Pn (NV tok pad np hv ed).
  Hypothesis HP : forall t, Pn (NP t).
  Hypothesis HO : forall t, Pn (NO t).
  Hypothesis HS : forall cs, Forall Pn cs -> Pn (NS cs).
  Hypothesis HL : forall cs, Forall Pn cs -> Pn (NL cs).
  Hypothesis HC : forall cs, Forall Pn cs -> Pn (NC cs).

  Fixpoint node_ind' (n : node) : Pn n :=
    let all := fix all (l : list node) : Forall Pn l :=
                 match l with
                 | [] => Forall_nil Pn
                 | x :: r => Forall_cons x (node_ind' x) (all r)
                 end in
    match n with
    | NV tok pad np hv ed => HV tok pad np hv ed
    | NP t => HP t
    | NO t => HO t
    | NS cs => HS cs (all cs)
    | NL cs => HL cs (all cs)
    | NC cs => HC cs (all cs)
    end.
End NodeInd.

(* ------------------------------------------------------------------ *)
(* top-level versions of format's local loops *)

Fixpoint goS (l : list node) : string * list node :=
  match l with
  | [] => ("", [])
  | x :: r =>
      let (sr, r') := goS r in
      match x with
      | NV _ _ _ false _ => (sr, x :: r')
      | _ => let (sx, x') := format x in (sx ++ sr, x' :: r')
      end
  end.

Fixpoint goL (l : list node) : string * list node :=
  match l with
  | [] => ("", [])
  | x :: r =>
      let (sr, r') := goL r in
      match x with
      | NV tok pad np hv ed =>
          match padfix x (hd_error r) with
          | NV tok1 pad1 np1 hv1 ed1 as x1 => (fmt_leaf tok1 pad1 ed1 ++ sr, x1 :: r')
          | x1 => (sr, x1 :: r')
          end
      | _ => let (sx, x') := format x in (sx ++ sr, x' :: r')
      end
  end.

Fixpoint goC (l : list node) : string * list node :=
  match l with
  | [] => ("", [])
  | x :: r =>
      let (sx, x') := format x in
      let (sr, r') := goC r in
      (sx ++ sr, x' :: r')
  end.

Lemma format_NS_go : forall cs, format (NS cs) = let (s, cs') := goS cs in (s, NS cs').
Proof. reflexivity. Qed.
Lemma format_NL_go : forall cs, format (NL cs) = let (s, cs') := goL cs in (s, NL cs').
Proof. reflexivity. Qed.
Lemma format_NC_go : forall cs, format (NC cs) = let (s, cs') := goC cs in (s, NC cs').
Proof. reflexivity. Qed.
Lemma format_NV : forall tok pad np hv ed,
  format (NV tok pad np hv ed) = (fmt_leaf tok pad ed, NV tok pad np hv ed).
Proof. reflexivity. Qed.
Lemma format_NP : forall t, format (NP t) = (t, NP t).
Proof. reflexivity. Qed.
Lemma format_NO : forall t, format (NO t) = (t, NO t).
Proof. reflexivity. Qed.

Arguments format : simpl never.

(* ------------------------------------------------------------------ *)
(* per-child contributions: text and tree *)

Definition is_V (n : node) : bool := match n with NV _ _ _ _ _ => true | _ => false end.

(* SyntaxNode *)
Definition ctrS (x : node) : string :=
  match x with NV _ _ _ false _ => "" | _ => fst (format x) end.
Definition stS (x : node) : node :=
  match x with NV _ _ _ false _ => x | _ => snd (format x) end.

(* ListNode *)
Definition padfix_pad (pad : option string) (np : bool) (next : option node) : option string :=
  match pad, np, next with
  | None, false, Some nx => if is_P nx then None else Some " "
  | _, _, _ => pad
  end.

Lemma padfix_NV : forall tok pad np hv ed nx,
  padfix (NV tok pad np hv ed) nx = NV tok (padfix_pad pad np nx) np hv ed.
Proof.
  intros tok [p|] [|] hv ed [nx|]; simpl; try reflexivity.
  destruct (is_P nx); reflexivity.
Qed.

Definition ctrL (x : node) (next : option node) : string :=
  match x with
  | NV tok pad np _ ed => fmt_leaf tok (padfix_pad pad np next) ed
  | _ => fst (format x)
  end.
Definition stL (x : node) (next : option node) : node :=
  match x with
  | NV _ _ _ _ _ => padfix x next
  | _ => snd (format x)
  end.

Fixpoint txtL (l : list node) : string :=
  match l with [] => "" | x :: r => ctrL x (hd_error r) ++ txtL r end.
Fixpoint treL (l : list node) : list node :=
  match l with [] => [] | x :: r => stL x (hd_error r) :: treL r end.

Lemma goS_eq : forall l, goS l = (cat (map ctrS l), map stS l).
Proof.
  induction l as [|x r IH]; [reflexivity|].
  simpl. rewrite IH.
  destruct x as [tok pad np [|] ed|t|t|cs|cs|cs]; simpl;
    try (destruct (format _) as [sx x']; reflexivity); reflexivity.
Qed.

Lemma goL_eq : forall l, goL l = (txtL l, treL l).
Proof.
  induction l as [|x r IH]; [reflexivity|].
  cbn [goL]. rewrite IH.
  destruct x as [tok pad np hv ed|t|t|cs|cs|cs];
    try (cbn [txtL treL ctrL stL]; destruct (format _) as [sx x']; reflexivity).
  cbn [txtL treL ctrL stL]. rewrite padfix_NV. reflexivity.
Qed.

Lemma goC_eq : forall l, goC l = (cat (map (fun x => fst (format x)) l), map (fun x => snd (format x)) l).
Proof.
  induction l as [|x r IH]; [reflexivity|].
  simpl. rewrite IH. destruct (format x) as [sx x']. reflexivity.
Qed.

Lemma format_NS : forall cs, format (NS cs) = (cat (map ctrS cs), NS (map stS cs)).
Proof. intros. rewrite format_NS_go, goS_eq. reflexivity. Qed.
Lemma format_NL : forall cs, format (NL cs) = (txtL cs, NL (treL cs)).
Proof. intros. rewrite format_NL_go, goL_eq. reflexivity. Qed.
Lemma format_NC : forall cs,
  format (NC cs) = (cat (map (fun x => fst (format x)) cs), NC (map (fun x => snd (format x)) cs)).
Proof. intros. rewrite format_NC_go, goC_eq. reflexivity. Qed.

(* format keeps the constructor of a node *)
Lemma is_V_format : forall x, is_V (snd (format x)) = is_V x.
Proof.
  destruct x; [rewrite format_NV|rewrite format_NP|rewrite format_NO
              |rewrite format_NS|rewrite format_NL|rewrite format_NC]; reflexivity.
Qed.
Lemma is_P_format : forall x, is_P (snd (format x)) = is_P x.
Proof.
  destruct x; [rewrite format_NV|rewrite format_NP|rewrite format_NO
              |rewrite format_NS|rewrite format_NL|rewrite format_NC]; reflexivity.
Qed.
Lemma format_leaf_tree : forall x, is_V x = true -> snd (format x) = x.
Proof. destruct x; intros H; try discriminate H. reflexivity. Qed.

Lemma ctrS_nonV : forall x, is_V x = false -> ctrS x = fst (format x).
Proof. destruct x; simpl; try discriminate; reflexivity. Qed.
Lemma stS_nonV : forall x, is_V x = false -> stS x = snd (format x).
Proof. destruct x; simpl; try discriminate; reflexivity. Qed.
Lemma ctrL_nonV : forall x nx, is_V x = false -> ctrL x nx = fst (format x).
Proof. destruct x; simpl; try discriminate; reflexivity. Qed.
Lemma stL_nonV : forall x nx, is_V x = false -> stL x nx = snd (format x).
Proof. destruct x; simpl; try discriminate; reflexivity. Qed.

(* ------------------------------------------------------------------ *)
(* 1, 2: an unedited as-parsed tree is written exactly as read, and is not changed *)

Lemma format_unchanged_pair : forall n,
  unedited n = true -> as_parsed n = true -> format n = (flatten n, n).
Proof.
  induction n using node_ind'; intros Hu Ha.
  - (* NV *) rewrite format_NV. simpl in Hu. destruct ed; [discriminate|]. reflexivity.
  - reflexivity.
  - reflexivity.
  - (* NS *)
    rewrite format_NS. cbn [flatten]. rewrite concat_cat.
    cbn [unedited as_parsed] in Hu, Ha.
    assert (E : cat (map ctrS cs) = cat (map flatten cs) /\ map stS cs = cs).
    { induction H as [|x r Hx Hr IH]; [split; reflexivity|].
      cbn [forallb] in Hu, Ha.
      apply andb_true_iff in Hu. destruct Hu as [Hux Hur].
      apply andb_true_iff in Ha. destruct Ha as [Hax Har].
      destruct (IH Hur Har) as [IH1 IH2].
      cbn [map cat]. rewrite IH1, IH2.
      destruct x as [tok pad np [|] ed|t|t|cs0|cs0|cs0];
        try (cbn [ctrS stS]; rewrite (Hx Hux Hax); split; reflexivity).
      cbn [ctrS stS flatten]. apply String.eqb_eq in Hax. rewrite Hax. split; reflexivity. }
    destruct E as [E1 E2]. rewrite E1, E2. reflexivity.
  - (* NL *)
    rewrite format_NL. cbn [flatten]. rewrite concat_cat.
    cbn [unedited] in Hu.
    assert (E : txtL cs = cat (map flatten cs) /\ treL cs = cs).
    { induction H as [|x r Hx Hr IH]; [split; reflexivity|].
      cbn [forallb] in Hu.
      apply andb_true_iff in Hu. destruct Hu as [Hux Hur].
      simpl in Ha.
      apply andb_true_iff in Ha. destruct Ha as [Ha Har].
      apply andb_true_iff in Ha. destruct Ha as [Hax Hap].
      destruct (IH Hur Har) as [IH1 IH2].
      cbn [map cat txtL treL]. rewrite IH1, IH2.
      destruct x as [tok pad np hv ed|t|t|cs0|cs0|cs0];
        try (cbn [ctrL stL]; rewrite (Hx Hux Hax); split; reflexivity).
      cbn [ctrL stL]. rewrite padfix_NV.
      simpl in Hux. destruct ed; [discriminate|].
      assert (Ep : padfix_pad pad np (hd_error r) = pad).
      { destruct pad as [p|]; [reflexivity|]. destruct np; [reflexivity|].
        destruct r as [|nx r2]; [reflexivity|]. simpl. simpl in Hap. rewrite Hap. reflexivity. }
      rewrite Ep. split; reflexivity. }
    destruct E as [E1 E2]. rewrite E1, E2. reflexivity.
  - (* NC *)
    rewrite format_NC. cbn [flatten]. rewrite concat_cat.
    cbn [unedited as_parsed] in Hu, Ha.
    assert (E : cat (map (fun x => fst (format x)) cs) = cat (map flatten cs)
                /\ map (fun x => snd (format x)) cs = cs).
    { induction H as [|x r Hx Hr IH]; [split; reflexivity|].
      cbn [forallb] in Hu, Ha.
      apply andb_true_iff in Hu. destruct Hu as [Hux Hur].
      apply andb_true_iff in Ha. destruct Ha as [Hax Har].
      destruct (IH Hur Har) as [IH1 IH2].
      cbn [map cat]. rewrite IH1, IH2, (Hx Hux Hax). split; reflexivity. }
    destruct E as [E1 E2]. rewrite E1, E2. reflexivity.
Qed.

Theorem format_unchanged : forall n,
  unedited n = true -> as_parsed n = true -> fst (format n) = flatten n.
Proof. intros n Hu Ha. rewrite (format_unchanged_pair n Hu Ha). reflexivity. Qed.

Theorem format_unchanged_tree : forall n,
  unedited n = true -> as_parsed n = true -> snd (format n) = n.
Proof. intros n Hu Ha. rewrite (format_unchanged_pair n Hu Ha). reflexivity. Qed.

(* ------------------------------------------------------------------ *)
(* 3: format is idempotent, on the text and on the tree, for every tree *)

(* two "next sibling" views that padfix cannot tell apart *)
Definition same_next (a b : option node) : Prop :=
  match a, b with
  | None, None => True
  | Some x, Some y => is_P x = is_P y
  | _, _ => False
  end.

Lemma padfix_pad_same_next : forall pad np a b,
  same_next a b -> padfix_pad pad np a = padfix_pad pad np b.
Proof.
  intros [p|] [|] [a|] [b|] H; simpl in *; try reflexivity; try contradiction.
  rewrite H. reflexivity.
Qed.

Lemma padfix_same_next : forall x a b, same_next a b -> padfix x a = padfix x b.
Proof.
  intros x a b H. destruct x; try (destruct a, b; simpl in *; reflexivity || contradiction).
  rewrite !padfix_NV. rewrite (padfix_pad_same_next _ _ _ _ H). reflexivity.
Qed.

Lemma padfix_pad_idem : forall pad np a b,
  same_next a b -> padfix_pad (padfix_pad pad np a) np b = padfix_pad pad np a.
Proof.
  intros [p|] [|] [a|] [b|] H; simpl in *; try reflexivity; try contradiction.
  destruct (is_P a) eqn:Ea; simpl.
  - rewrite <- H. reflexivity.
  - reflexivity.
Qed.

(* Key lemma: the padding repair is idempotent as long as the next sibling keeps its shape *)
Lemma padfix_idem : forall x a b, same_next a b -> padfix (padfix x a) b = padfix x a.
Proof.
  intros x a b H. destruct x; try (destruct a, b; simpl in *; reflexivity || contradiction).
  rewrite !padfix_NV. rewrite (padfix_pad_idem _ _ _ _ H). reflexivity.
Qed.

Lemma is_P_stL : forall x nx, is_P (stL x nx) = is_P x.
Proof.
  intros x nx. destruct (is_V x) eqn:V.
  - destruct x; try discriminate. cbn [stL]. rewrite padfix_NV. reflexivity.
  - rewrite stL_nonV by assumption. apply is_P_format.
Qed.

Lemma is_V_stL : forall x nx, is_V (stL x nx) = is_V x.
Proof.
  intros x nx. destruct (is_V x) eqn:V.
  - destruct x; try discriminate. cbn [stL]. rewrite padfix_NV. reflexivity.
  - rewrite stL_nonV by assumption. rewrite is_V_format. assumption.
Qed.

Lemma same_next_treL : forall r, same_next (hd_error r) (hd_error (treL r)).
Proof.
  destruct r as [|y r2]; simpl; [exact I|]. symmetry. apply is_P_stL.
Qed.

Lemma format_format : forall n, format (snd (format n)) = format n.
Proof.
  induction n using node_ind'.
  - rewrite format_NV. reflexivity.
  - reflexivity.
  - reflexivity.
  - (* NS *)
    rewrite format_NS. cbn [snd]. rewrite format_NS.
    assert (E : cat (map ctrS (map stS cs)) = cat (map ctrS cs) /\ map stS (map stS cs) = map stS cs).
    { induction H as [|x r Hx Hr IH]; [split; reflexivity|].
      destruct IH as [IH1 IH2]. cbn [map cat]. rewrite IH1, IH2.
      assert (Ex : ctrS (stS x) = ctrS x /\ stS (stS x) = stS x).
      { destruct (is_V x) eqn:V.
        - destruct x as [tok pad np [|] ed|t|t|cs0|cs0|cs0]; try discriminate;
            cbn [stS ctrS]; rewrite ?format_NV; split; reflexivity.
        - assert (V' : is_V (snd (format x)) = false) by (rewrite is_V_format; exact V).
          rewrite (stS_nonV x V). rewrite (ctrS_nonV _ V'), (stS_nonV _ V'), (ctrS_nonV x V).
          rewrite Hx. split; reflexivity. }
      destruct Ex as [Ex1 Ex2]. rewrite Ex1, Ex2. split; reflexivity. }
    destruct E as [E1 E2]. rewrite E1, E2. reflexivity.
  - (* NL *)
    rewrite format_NL. cbn [snd]. rewrite format_NL.
    assert (E : txtL (treL cs) = txtL cs /\ treL (treL cs) = treL cs).
    { induction H as [|x r Hx Hr IH]; [split; reflexivity|].
      destruct IH as [IH1 IH2]. cbn [txtL treL]. rewrite IH1, IH2.
      pose proof (same_next_treL r) as SN.
      assert (Ex : ctrL (stL x (hd_error r)) (hd_error (treL r)) = ctrL x (hd_error r)
                   /\ stL (stL x (hd_error r)) (hd_error (treL r)) = stL x (hd_error r)).
      { destruct (is_V x) eqn:V.
        - destruct x as [tok pad np hv ed|t|t|cs0|cs0|cs0]; try discriminate.
          cbn [stL]. rewrite padfix_NV. cbn [stL ctrL]. rewrite padfix_NV.
          rewrite (padfix_pad_idem _ _ _ _ SN). split; reflexivity.
        - assert (V' : is_V (snd (format x)) = false) by (rewrite is_V_format; exact V).
          rewrite (stL_nonV x _ V). rewrite (ctrL_nonV _ _ V'), (stL_nonV _ _ V'), (ctrL_nonV x _ V).
          rewrite Hx. split; reflexivity. }
      destruct Ex as [Ex1 Ex2]. rewrite Ex1, Ex2. split; reflexivity. }
    destruct E as [E1 E2]. rewrite E1, E2. reflexivity.
  - (* NC *)
    rewrite format_NC. cbn [snd]. rewrite format_NC.
    assert (E : cat (map (fun x => fst (format x)) (map (fun x => snd (format x)) cs))
                = cat (map (fun x => fst (format x)) cs)
                /\ map (fun x => snd (format x)) (map (fun x => snd (format x)) cs)
                   = map (fun x => snd (format x)) cs).
    { induction H as [|x r Hx Hr IH]; [split; reflexivity|].
      destruct IH as [IH1 IH2]. cbn [map cat]. rewrite IH1, IH2, Hx. split; reflexivity. }
    destruct E as [E1 E2]. rewrite E1, E2. reflexivity.
Qed.

Theorem format_idempotent : forall n, fst (format (snd (format n))) = fst (format n).
Proof. intros. rewrite format_format. reflexivity. Qed.

Theorem format_idempotent_tree : forall n, snd (format (snd (format n))) = snd (format n).
Proof. intros. rewrite format_format. reflexivity. Qed.

(* ------------------------------------------------------------------ *)
(* 5: an edit is local *)

Definition upd_nth (f : node -> node) : list node -> nat -> list node :=
  fix upd (l : list node) (k : nat) : list node :=
    match l, k with
    | [], _ => []
    | x :: rest, 0 => f x :: rest
    | x :: rest, Datatypes.S k' => x :: upd rest k'
    end.

Lemma set_leaf_NS : forall i p r cs, set_leaf (i :: p) r (NS cs) = NS (upd_nth (set_leaf p r) cs i).
Proof. reflexivity. Qed.
Lemma set_leaf_NL : forall i p r cs, set_leaf (i :: p) r (NL cs) = NL (upd_nth (set_leaf p r) cs i).
Proof. reflexivity. Qed.
Lemma set_leaf_NC : forall i p r cs, set_leaf (i :: p) r (NC cs) = NC (upd_nth (set_leaf p r) cs i).
Proof. reflexivity. Qed.

Lemma is_V_set_leaf : forall p r x, is_V (set_leaf p r x) = is_V x.
Proof. destruct p, x; reflexivity. Qed.
Lemma is_P_set_leaf : forall p r x, is_P (set_leaf p r x) = is_P x.
Proof. destruct p, x; reflexivity. Qed.

Lemma leaf_at_V : forall p x l, leaf_at p x = Some l -> is_V x = true -> p = [] /\ x = l.
Proof.
  intros p x l H V. destruct x; try discriminate.
  destruct p; simpl in H; [|discriminate]. inversion H. split; reflexivity.
Qed.

Lemma cat_map_upd : forall (g : node -> string) f cs i c,
  nth_error cs i = Some c ->
  exists A B, cat (map g cs) = A ++ g c ++ B /\ cat (map g (upd_nth f cs i)) = A ++ g (f c) ++ B.
Proof.
  intros g f. induction cs as [|x r IH]; intros i c H.
  - destruct i; discriminate.
  - destruct i as [|k]; simpl in H.
    + inversion H; subst. exists "", (cat (map g r)). split; reflexivity.
    + destruct (IH k c H) as (A & B & H1 & H2).
      exists (g x ++ A), B. cbn [upd_nth map cat]. rewrite H1, H2, !append_assoc. split; reflexivity.
Qed.

Lemma same_next_upd : forall f r k,
  (forall x, is_P (f x) = is_P x) -> same_next (hd_error r) (hd_error (upd_nth f r k)).
Proof.
  intros f r k Hf. destruct r as [|y r2]; [destruct k; exact I|].
  destruct k; simpl; [symmetry; apply Hf | reflexivity].
Qed.

Lemma ctrL_same_next : forall x a b, same_next a b -> ctrL x a = ctrL x b.
Proof.
  intros x a b H. destruct x; try reflexivity.
  cbn [ctrL]. rewrite (padfix_pad_same_next _ _ _ _ H). reflexivity.
Qed.

Lemma txtL_upd : forall f, (forall x, is_P (f x) = is_P x) ->
  forall cs i c, nth_error cs i = Some c ->
  exists A B, txtL cs = A ++ ctrL c (hd_error (skipn (Datatypes.S i) cs)) ++ B
           /\ txtL (upd_nth f cs i) = A ++ ctrL (f c) (hd_error (skipn (Datatypes.S i) cs)) ++ B.
Proof.
  intros f Hf. induction cs as [|x r IH]; intros i c H.
  - destruct i; discriminate.
  - destruct i as [|k]; simpl in H.
    + inversion H; subst. exists "", (txtL r). split; reflexivity.
    + destruct (IH k c H) as (A & B & H1 & H2).
      exists (ctrL x (hd_error r) ++ A), B.
      change (skipn (Datatypes.S (Datatypes.S k)) (x :: r)) with (skipn (Datatypes.S k) r).
      cbn [upd_nth txtL].
      rewrite <- (ctrL_same_next x _ _ (same_next_upd f r k Hf)).
      rewrite H1, H2, !append_assoc. split; reflexivity.
Qed.

(* what the leaf contributed before the edit: nothing when it was a skipped SyntaxNode value,
   otherwise its rendering with its own padding or, inside a ListNode, with the repaired padding *)
Definition old_text (old tok : string) (pad : option string) (np hv : bool) (ed : option string) : Prop :=
  (old = "" /\ hv = false)
  \/ old = fmt_leaf tok pad ed
  \/ (pad = None /\ np = false /\ old = fmt_leaf tok (Some " ") ed).

Theorem edit_local : forall path n r tok pad np hv ed,
  leaf_at path n = Some (NV tok pad np hv ed) ->
  exists pre post old,
    fst (format n) = pre ++ old ++ post
    /\ fst (format (set_leaf path r n)) = pre ++ r ++ post
    /\ old_text old tok pad np hv ed.
Proof.
  induction path as [|i p IH]; intros n r tok pad np hv ed H.
  - destruct n; simpl in H; try discriminate. inversion H; subst.
    exists "", "", (fmt_leaf tok pad ed). cbn [set_leaf]. rewrite !format_NV. cbn [fst fmt_leaf].
    rewrite !append_nil_r. split; [reflexivity|]. split; [reflexivity|]. right; left; reflexivity.
  - destruct n as [tok0 pad0 np0 hv0 ed0|t|t|cs|cs|cs]; simpl in H; try discriminate;
      destruct (nth_error cs i) as [c|] eqn:E; try discriminate.
    + (* NS *)
      rewrite set_leaf_NS, !format_NS. cbn [fst].
      destruct (cat_map_upd ctrS (set_leaf p r) cs i c E) as (A & B & H1 & H2).
      rewrite H1, H2.
      destruct (is_V c) eqn:V.
      * destruct (leaf_at_V _ _ _ H V) as [-> ->].
        cbn [set_leaf ctrS].
        destruct hv.
        -- exists A, B, (fmt_leaf tok pad ed). rewrite !format_NV. cbn [fst fmt_leaf].
           split; [reflexivity|]. split; [reflexivity|]. right; left; reflexivity.
        -- exists A, B, "". rewrite !format_NV. cbn [fst fmt_leaf].
           split; [reflexivity|]. split; [reflexivity|]. left; split; reflexivity.
      * rewrite (ctrS_nonV c V).
        rewrite (ctrS_nonV (set_leaf p r c)) by (rewrite is_V_set_leaf; exact V).
        destruct (IH c r _ _ _ _ _ H) as (pre & post & old & F1 & F2 & F3).
        exists (A ++ pre), (post ++ B), old. rewrite F1, F2, !append_assoc.
        split; [reflexivity|]. split; [reflexivity|]. exact F3.
    + (* NL *)
      rewrite set_leaf_NL, !format_NL. cbn [fst].
      destruct (txtL_upd (set_leaf p r) (is_P_set_leaf p r) cs i c E) as (A & B & H1 & H2).
      rewrite H1, H2.
      destruct (is_V c) eqn:V.
      * destruct (leaf_at_V _ _ _ H V) as [-> ->].
        cbn [set_leaf ctrL fmt_leaf].
        exists A, B, (fmt_leaf tok (padfix_pad pad np (hd_error (skipn (Datatypes.S i) cs))) ed).
        split; [reflexivity|]. split; [reflexivity|].
        destruct pad as [pd|]; [right; left; reflexivity|].
        destruct np; [right; left; reflexivity|].
        destruct (hd_error (skipn (Datatypes.S i) cs)) as [nx|]; [|right; left; reflexivity].
        simpl. destruct (is_P nx); [right; left; reflexivity|].
        right; right. split; [reflexivity|]. split; reflexivity.
      * rewrite (ctrL_nonV c _ V).
        rewrite (ctrL_nonV (set_leaf p r c)) by (rewrite is_V_set_leaf; exact V).
        destruct (IH c r _ _ _ _ _ H) as (pre & post & old & F1 & F2 & F3).
        exists (A ++ pre), (post ++ B), old. rewrite F1, F2, !append_assoc.
        split; [reflexivity|]. split; [reflexivity|]. exact F3.
    + (* NC *)
      rewrite set_leaf_NC, !format_NC. cbn [fst].
      destruct (cat_map_upd (fun x => fst (format x)) (set_leaf p r) cs i c E) as (A & B & H1 & H2).
      rewrite H1, H2.
      destruct (IH c r _ _ _ _ _ H) as (pre & post & old & F1 & F2 & F3).
      exists (A ++ pre), (post ++ B), old. rewrite F1, F2, !append_assoc.
      split; [reflexivity|]. split; [reflexivity|]. exact F3.
Qed.

(* the common case: a printed leaf that needs no padding repair contributes exactly its own text *)
Corollary edit_local_padded : forall path n r tok pad np ed,
  leaf_at path n = Some (NV tok pad np true ed) ->
  (pad <> None \/ np = true) ->
  exists pre post,
    fst (format n) = pre ++ fmt_leaf tok pad ed ++ post
    /\ fst (format (set_leaf path r n)) = pre ++ r ++ post.
Proof.
  intros path n r tok pad np ed H Hp.
  destruct (edit_local path n r _ _ _ _ _ H) as (pre & post & old & F1 & F2 & F3).
  exists pre, post. split; [|exact F2].
  destruct F3 as [[_ F]|[F|(F & G & _)]].
  - discriminate.
  - rewrite <- F. exact F1.
  - destruct Hp as [Hp|Hp]; [contradiction|congruence].
Qed.

(* ------------------------------------------------------------------ *)
(* 6: the other leaves are untouched *)

Lemma nth_error_upd_same : forall f cs i c,
  nth_error cs i = Some c -> nth_error (upd_nth f cs i) i = Some (f c).
Proof.
  intros f. induction cs as [|x r IH]; intros [|k] c H; simpl in *; try discriminate.
  - inversion H; reflexivity.
  - apply IH; assumption.
Qed.

Lemma nth_error_upd_other : forall f cs i j,
  i <> j -> nth_error (upd_nth f cs i) j = nth_error cs j.
Proof.
  intros f. induction cs as [|x r IH]; intros [|k] [|j] H; simpl in *; try reflexivity.
  - congruence.
  - apply IH. congruence.
Qed.

Theorem edit_other_leaves : forall p q n r l,
  p <> q -> leaf_at q n = Some l -> leaf_at p n <> None ->
  leaf_at q (set_leaf p r n) = Some l.
Proof.
  induction p as [|i p IH]; intros q n r l Hne Hq Hp.
  - destruct n; simpl in Hp; try congruence.
    destruct q; [congruence|]. simpl in Hq. discriminate.
  - destruct q as [|j q].
    + destruct n; simpl in Hp; try congruence; simpl in Hq; discriminate.
    + assert (Hpq : i <> j \/ (i = j /\ p <> q)).
      { destruct (Nat.eq_dec i j) as [->|N]; [right|left; exact N].
        split; [reflexivity|]. intro; subst; apply Hne; reflexivity. }
      destruct n as [tok0 pad0 np0 hv0 ed0|t|t|cs|cs|cs]; simpl in Hp; try congruence;
        [rewrite set_leaf_NS|rewrite set_leaf_NL|rewrite set_leaf_NC];
        simpl in Hq |- *;
        destruct (nth_error cs i) as [c|] eqn:Ei; try congruence;
        (destruct Hpq as [N|[-> N]];
         [ rewrite (nth_error_upd_other _ _ _ _ N); exact Hq
         | rewrite (nth_error_upd_same _ _ _ _ Ei); rewrite Ei in Hq; apply IH; assumption ]).
Qed.

(* ------------------------------------------------------------------ *)
(* 7: the writer's block structure *)

Definition nonblank_all (ls : list string) : Prop :=
  forallb (fun l => negb (blank_line l)) ls = true.

Lemma nonblank_all_app : forall a b, nonblank_all a -> nonblank_all b -> nonblank_all (a ++ b)%list.
Proof.
  unfold nonblank_all. intros a b Ha Hb. rewrite forallb_app, Ha, Hb. reflexivity.
Qed.

Lemma split_blocks_app : forall a b rest cur,
  nonblank_all a -> blank_line b = true ->
  split_blocks (a ++ b :: rest)%list cur = (rev cur ++ a)%list :: split_blocks rest [].
Proof.
  unfold nonblank_all.
  induction a as [|x a IH]; intros b rest cur Ha Hb.
  - cbn [app split_blocks]. rewrite Hb, app_nil_r. reflexivity.
  - cbn [forallb] in Ha. apply andb_true_iff in Ha. destruct Ha as [Hx Ha].
    apply negb_true_iff in Hx.
    cbn [app split_blocks]. rewrite Hx. rewrite (IH b rest (x :: cur) Ha Hb).
    cbn [rev]. rewrite <- app_assoc. reflexivity.
Qed.

Theorem writer_blocks : forall title cells surfaces data children,
  nonblank_all (List.concat cells) -> nonblank_all (List.concat surfaces) ->
  nonblank_all (List.concat data) -> nonblank_all (List.concat children) ->
  blank_line title = false ->
  split_blocks (write_lines [] title cells surfaces data children) []
  = [title :: List.concat cells; List.concat surfaces;
     (List.concat data ++ List.concat children)%list; []; []].
Proof.
  intros title cells surfaces data children Hc Hs Hd Hk Ht.
  change (write_lines [] title cells surfaces data children)
    with ((title :: List.concat cells) ++ "" ::
          (List.concat surfaces ++ "" ::
           (List.concat data ++ List.concat children ++ "" :: [""])))%list.
  rewrite split_blocks_app; [| |reflexivity].
  2:{ unfold nonblank_all in *. cbn [forallb]. rewrite Ht, Hc. reflexivity. }
  rewrite split_blocks_app; [|assumption|reflexivity].
  rewrite app_assoc.
  rewrite split_blocks_app; [|apply nonblank_all_app; assumption|reflexivity].
  reflexivity.
Qed.

(* 8: the old order (child cards after the data block's terminating blank line) was wrong *)
Theorem writer_children_after_terminator_refuted :
  exists title cells surfaces data children,
    nonblank_all (List.concat cells) /\ nonblank_all (List.concat surfaces) /\
    nonblank_all (List.concat data) /\ nonblank_all (List.concat children) /\
    blank_line title = false /\ children <> [] /\
    let old := ([title] ++ List.concat cells ++ [""] ++ List.concat surfaces ++ [""]
                ++ List.concat data ++ [""] ++ List.concat children ++ [""])%list in
    nth 2 (split_blocks old []) [] <> (List.concat data ++ List.concat children)%list.
Proof.
  exists "t", [["c"]], [["s"]], [["d"]], [["k"]].
  repeat (split; [reflexivity || discriminate|]).
  vm_compute. discriminate.
Qed.

(* ------------------------------------------------------------------ *)
(* 9: non-vacuity *)

(* an as-parsed, unedited tree: a SyntaxNode with a skipped value (value None, empty text), a
   ListNode whose first value needs no repair because a padding node follows, and a last value *)
Definition ex_tree : node :=
  NS [ NV "10" (Some " ") false true None;
       NV "" None false false None;
       NL [ NV "1" None false true None; NP " "; NV "2" (Some " ") false true None;
            NV "3" None false true None ];
       NC [ NP " $ c"; NO "1 2r" ] ].

Example ex_tree_hyps : unedited ex_tree = true /\ as_parsed ex_tree = true.
Proof. split; vm_compute; reflexivity. Qed.

Example ex_tree_format : format ex_tree = (flatten ex_tree, ex_tree) /\ flatten ex_tree = "10 1 2 3 $ c1 2r".
Proof. split; vm_compute; reflexivity. Qed.

(* a ListNode built by hand (values without padding): format repairs the padding, i.e. changes the
   tree and writes something else than [flatten]; formatting again gives the same text and tree *)
Definition ex_list : node :=
  NL [ NV "1" None false true None; NV "2" None false true None; NV "3" None true true None;
       NV "4" None false true (Some "4.5"); NV "5" None false true None ].

Example ex_list_not_as_parsed : as_parsed ex_list = false.
Proof. vm_compute. reflexivity. Qed.

Example ex_list_format :
  fst (format ex_list) = "1 2 34.55" /\ flatten ex_list = "12345" /\
  snd (format ex_list) <> ex_list /\
  fst (format (snd (format ex_list))) = "1 2 34.55" /\
  snd (format (snd (format ex_list))) = snd (format ex_list).
Proof.
  split; [vm_compute; reflexivity|]. split; [vm_compute; reflexivity|].
  split; [vm_compute; discriminate|]. split; vm_compute; reflexivity.
Qed.

(* an edit inside a SyntaxNode: the skipped value gets a value; the rest is byte-identical *)
Example ex_edit :
  fst (format (set_leaf [1] "7 " ex_tree)) = "10 7 1 2 3 $ c1 2r" /\
  fst (format (set_leaf [2; 0] "1.5" ex_tree)) = "10 1.5 2 3 $ c1 2r".
Proof. split; vm_compute; reflexivity. Qed.
