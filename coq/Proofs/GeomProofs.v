(* GeomProofs.v — proofs about coq/Model/Geom.v (property C02). *)
From Coq Require Import List ZArith Bool String Ascii Lia Arith.
From MPV Require Import Model.Wire Model.Geom Gen.Grammar.
Import ListNotations.
Open Scope list_scope.

(* ------------------------------------------------------------------ Boolean equivalence *)
Lemma beq_refl : forall a, beq a a.
Proof. intros a env; reflexivity. Qed.
Lemma beq_sym : forall a b, beq a b -> beq b a.
Proof. intros a b H env; symmetry; apply H. Qed.
Lemma beq_trans : forall a b c, beq a b -> beq b c -> beq a c.
Proof. intros a b c H1 H2 env; rewrite H1; apply H2. Qed.
Lemma beq_not : forall a b, beq a b -> beq (BNot a) (BNot b).
Proof. intros a b H env; simpl; rewrite H; reflexivity. Qed.
Lemma beq_and : forall a a' b b', beq a a' -> beq b b' -> beq (BAnd a b) (BAnd a' b').
Proof. intros a a' b b' H1 H2 env; simpl; rewrite H1, H2; reflexivity. Qed.
Lemma beq_or : forall a a' b b', beq a a' -> beq b b' -> beq (BOr a b) (BOr a' b').
Proof. intros a a' b b' H1 H2 env; simpl; rewrite H1, H2; reflexivity. Qed.
Lemma beq_and_assoc : forall a b c, beq (BAnd (BAnd a b) c) (BAnd a (BAnd b c)).
Proof. intros a b c env; simpl; rewrite andb_assoc; reflexivity. Qed.
Lemma beq_or_assoc : forall a b c, beq (BOr (BOr a b) c) (BOr a (BOr b c)).
Proof. intros a b c env; simpl; rewrite orb_assoc; reflexivity. Qed.
Lemma beq_notnot : forall a, beq (BNot (BNot a)) a.
Proof. intros a env; simpl; apply negb_involutive. Qed.

Definition bop (op : gop) : bexp -> bexp -> bexp :=
  match op with OInter => BAnd | OUnion => BOr end.
Lemma beq_bop : forall op a a' b b', beq a a' -> beq b b' -> beq (bop op a b) (bop op a' b').
Proof. intros [] *; simpl; [apply beq_and | apply beq_or]. Qed.
Lemma beq_bop_assoc : forall op a b c, beq (bop op (bop op a b) c) (bop op a (bop op b c)).
Proof. intros [] *; simpl; [apply beq_and_assoc | apply beq_or_assoc]. Qed.

Lemma sem_hs_bin : forall op l r nd, sem_hs (HBin op l r nd) = bop op (sem_hs l) (sem_hs r).
Proof. intros [] *; reflexivity. Qed.

(* ------------------------------------------------------------------ the reference grammar *)
Definition lvl_le (a b : lvl) : bool :=
  match a, b with
  | LF, _ => true
  | LT, LF => false
  | LT, _ => true
  | LE, LE => true
  | LE, _ => false
  end.

Lemma GD_weaken : forall a b ts e, lvl_le a b = true -> GD a ts e -> GD b ts e.
Proof.
  intros a b ts e Hle H.
  destruct a, b; simpl in Hle; try discriminate; auto using GD_f2t, GD_t2e.
Qed.

Lemma GD_to_E : forall l ts e, GD l ts e -> GD LE ts e.
Proof. intros l ts e H; apply (GD_weaken l LE); [destruct l; reflexivity | exact H]. Qed.

Lemma wrapk_S : forall k ts, wrapk (S k) ts = TLParen :: wrapk k ts ++ [TRParen].
Proof. reflexivity. Qed.

Lemma GD_wrap_S : forall k l ts e, GD l ts e -> GD LF (wrapk (S k) ts) e.
Proof.
  induction k; intros l ts e H; rewrite wrapk_S.
  - apply GD_paren. eapply GD_to_E; eauto.
  - apply GD_paren. eapply GD_to_E. apply (IHk l). exact H.
Qed.

(* the level at which [wrapk k ts] is derivable when ts is derivable at level l *)
Definition wrap_lvl (k : nat) (l : lvl) : lvl := match k with O => l | S _ => LF end.
Lemma GD_wrapk : forall k l ts e, GD l ts e -> GD (wrap_lvl k l) (wrapk k ts) e.
Proof. intros [|k] l ts e H; [exact H | apply (GD_wrap_S k l); exact H]. Qed.

(* juxtaposition and ':' are associative up to Boolean equivalence: a right-nested chain may be
   written without parentheses *)
Lemma GD_and_chain_aux : forall l ts2 b, GD l ts2 b -> l = LT ->
  forall ts1 a, GD LT ts1 a -> exists e, GD LT (ts1 ++ ts2) e /\ beq e (BAnd a b).
Proof.
  induction 1; intros Hl; try discriminate; intros ts0 a0 Hx0.
  - (* factor *)
    exists (BAnd a0 e). split; [apply GD_and; assumption | apply beq_refl].
  - (* ts1 ++ ts2, a & b *)
    destruct (IHGD1 eq_refl ts0 a0 Hx0) as (e1 & Hd & He).
    exists (BAnd e1 b). split.
    + rewrite app_assoc. apply GD_and; assumption.
    + eapply beq_trans; [apply beq_and; [exact He | apply beq_refl] | apply beq_and_assoc].
Qed.
Lemma GD_and_chain : forall ts1 ts2 a b, GD LT ts1 a -> GD LT ts2 b ->
  exists e, GD LT (ts1 ++ ts2) e /\ beq e (BAnd a b).
Proof. intros; eapply GD_and_chain_aux; eauto. Qed.

Lemma GD_or_chain_aux : forall l ts2 b, GD l ts2 b -> l = LE ->
  forall ts1 a, GD LE ts1 a -> exists e, GD LE (ts1 ++ TColon :: ts2) e /\ beq e (BOr a b).
Proof.
  induction 1; intros Hl; try discriminate; intros ts0 a0 Hx0.
  - exists (BOr a0 e). split; [apply GD_or; assumption | apply beq_refl].
  - destruct (IHGD1 eq_refl ts0 a0 Hx0) as (e1 & Hd & He).
    exists (BOr e1 b). split.
    + replace (ts0 ++ TColon :: ts1 ++ TColon :: ts2) with ((ts0 ++ TColon :: ts1) ++ TColon :: ts2)
        by (rewrite <- app_assoc; reflexivity).
      apply GD_or; assumption.
    + eapply beq_trans; [apply beq_or; [exact He | apply beq_refl] | apply beq_or_assoc].
Qed.
Lemma GD_or_chain : forall ts1 ts2 a b, GD LE ts1 a -> GD LE ts2 b ->
  exists e, GD LE (ts1 ++ TColon :: ts2) e /\ beq e (BOr a b).
Proof. intros; eapply GD_or_chain_aux; eauto. Qed.

(* ------------------------------------------------------------------ reading: productions, actions, parser *)
Lemma sem_tree_expr_of_term : forall t, sem_tree (act_expr_of_term t) = sem_tree t.
Proof. destruct t; reflexivity. Qed.

Lemma derives_sound : forall l ts t, Derives l ts t -> GD l ts (sem_tree t).
Proof.
  induction 1; simpl.
  - apply GD_leaf.
  - apply GD_paren; assumption.
  - apply GD_cell.
  - apply GD_not; assumption.
  - apply GD_f2t; assumption.
  - apply GD_and; assumption.
  - rewrite sem_tree_expr_of_term. apply GD_t2e; assumption.
  - apply GD_or; assumption.
Qed.

Lemma format_tree_expr_of_term : forall t, format_tree (act_expr_of_term t) = format_tree t.
Proof. destruct t; reflexivity. Qed.

(* the syntax tree keeps every token (GeometryTree.format gives the text back) *)
Lemma derives_lossless : forall l ts t, Derives l ts t -> format_tree t = ts.
Proof.
  induction 1; simpl; try reflexivity.
  - rewrite IHDerives; reflexivity.
  - rewrite IHDerives; reflexivity.
  - assumption.
  - rewrite IHDerives1, IHDerives2; reflexivity.
  - rewrite format_tree_expr_of_term; assumption.
  - rewrite IHDerives1, IHDerives2; reflexivity.
Qed.

Definition tp_spec (m : pmode) (ts : list gtok) (t : gtree) (rest : list gtok) : Prop :=
  match m with
  | MFactor => exists pre, ts = pre ++ rest /\ Derives LF pre t
  | MTerm => exists pre, ts = pre ++ rest /\ Derives LT pre t
  | MTermLoop a => forall pre0, Derives LT pre0 a ->
      exists pre, ts = pre ++ rest /\ Derives LT (pre0 ++ pre) t
  | MExpr => exists pre, ts = pre ++ rest /\ Derives LE pre t
  | MExprLoop a => forall pre0, Derives LE pre0 a ->
      exists pre, ts = pre ++ rest /\ Derives LE (pre0 ++ pre) t
  end.

Lemma tp_sound : forall fuel m ts t rest, tp fuel m ts = Some (t, rest) -> tp_spec m ts t rest.
Proof.
  induction fuel; intros m ts t rest H; [discriminate|].
  destruct m; simpl in H.
  - (* MExpr *)
    destruct (tp fuel MTerm ts) as [[a r]|] eqn:E1; [|discriminate].
    apply IHfuel in E1. destruct E1 as (pre1 & -> & D1).
    apply IHfuel in H. simpl in H.
    destruct (H pre1 (D_t2e _ _ D1)) as (pre2 & -> & D2).
    exists (pre1 ++ pre2). split; [apply app_assoc | exact D2].
  - (* MExprLoop *)
    intros pre0 D0.
    destruct ts as [|[] r]; simpl in H;
      try (inversion H; subst; exists []; rewrite !app_nil_r; split; [reflexivity|exact D0]).
    destruct (tp fuel MTerm r) as [[b r']|] eqn:E1; [|discriminate].
    apply IHfuel in E1. destruct E1 as (pre1 & -> & D1).
    apply IHfuel in H. simpl in H.
    destruct (H (pre0 ++ TColon :: pre1) (D_union _ _ _ _ D0 D1)) as (pre2 & -> & D2).
    exists (TColon :: pre1 ++ pre2). split; [simpl; rewrite <- app_assoc; reflexivity|].
    replace (pre0 ++ TColon :: pre1 ++ pre2) with ((pre0 ++ TColon :: pre1) ++ pre2)
      by (rewrite <- app_assoc; reflexivity).
    exact D2.
  - (* MTerm *)
    destruct (tp fuel MFactor ts) as [[a r]|] eqn:E1; [|discriminate].
    apply IHfuel in E1. destruct E1 as (pre1 & -> & D1).
    apply IHfuel in H. simpl in H.
    destruct (H pre1 (D_f2t _ _ D1)) as (pre2 & -> & D2).
    exists (pre1 ++ pre2). split; [apply app_assoc | exact D2].
  - (* MTermLoop *)
    intros pre0 D0.
    assert (Hstep : forall ts, match tp fuel MFactor ts with
                           | Some (b, r) => tp fuel (MTermLoop (act_intersection a b)) r
                           | None => None end = Some (t, rest) ->
              exists pre, ts = pre ++ rest /\ Derives LT (pre0 ++ pre) t).
    { intros ts' H'.
      destruct (tp fuel MFactor ts') as [[b r]|] eqn:E1; [|discriminate].
      apply IHfuel in E1. destruct E1 as (pre1 & -> & D1).
      apply IHfuel in H'. simpl in H'.
      destruct (H' (pre0 ++ pre1) (D_inter _ _ _ _ D0 D1)) as (pre2 & -> & D2).
      exists (pre1 ++ pre2). split; [apply app_assoc|]. rewrite app_assoc. exact D2. }
    destruct ts as [|[] r]; simpl in H;
      try (inversion H; subst; exists []; rewrite !app_nil_r; split; [reflexivity|exact D0]);
      apply Hstep; exact H.
  - (* MFactor *)
    destruct ts as [|[] r]; try discriminate.
    + inversion H; subst. exists [TLeaf pos n]. split; [reflexivity | apply D_num].
    + inversion H; subst. exists [TCompl n]. split; [reflexivity | apply D_compl_num].
    + destruct r as [|[] r]; try discriminate.
      destruct (tp fuel MExpr r) as [[e r']|] eqn:E1; [|discriminate].
      destruct r' as [|[] r']; try discriminate.
      inversion H; subst.
      apply IHfuel in E1. destruct E1 as (pre1 & -> & D1).
      exists (THash :: TLParen :: pre1 ++ [TRParen]). split.
      * simpl. rewrite <- app_assoc. reflexivity.
      * apply D_compl_paren; exact D1.
    + destruct (tp fuel MExpr r) as [[e r']|] eqn:E1; [|discriminate].
      destruct r' as [|[] r']; try discriminate.
      inversion H; subst.
      apply IHfuel in E1. destruct E1 as (pre1 & -> & D1).
      exists (TLParen :: pre1 ++ [TRParen]). split.
      * simpl. rewrite <- app_assoc. reflexivity.
      * apply D_paren; exact D1.
Qed.

Lemma tparse_sound : forall ts t, tparse ts = Some t -> Derives LE ts t.
Proof.
  unfold tparse. intros ts t H.
  destruct (tp _ MExpr ts) as [[t' [|x r]]|] eqn:E; try discriminate.
  inversion H; subst.
  apply tp_sound in E. destruct E as (pre & -> & D). rewrite app_nil_r. exact D.
Qed.

Lemma gparse_sound : forall ts e, gparse ts = Some e -> GDenotes ts e.
Proof.
  unfold gparse, GDenotes. intros ts e H.
  destruct (tparse ts) as [t|] eqn:E; [|discriminate].
  inversion H; subst. apply derives_sound. apply tparse_sound. exact E.
Qed.

(* ------------------------------------------------------------------ parse_input_node *)
Lemma tree_to_halfspace : forall t, beq (sem_hs (parse_input_node t)) (sem_tree t).
Proof.
  induction t; simpl.
  - apply beq_refl.
  - destruct op; simpl; [apply beq_and | apply beq_or]; assumption.
  - destruct t; simpl in *; try (apply beq_not; assumption).
    apply beq_notnot.
  - assumption.
  - assumption.
Qed.

Lemma pin_not_cell_unit : forall t, is_cell_unit (parse_input_node t) = false.
Proof.
  induction t; simpl; try reflexivity; try assumption.
  destruct t; reflexivity.
Qed.

(* ------------------------------------------------------------------ the operators *)
(* what &= / |= do: the new operand is grafted at the end of the right spine of binary nodes *)
Fixpoint graft (op : gop) (e o : bexp) : bexp :=
  match e with
  | BAnd a b => BAnd a (graft op b o)
  | BOr a b => BOr a (graft op b o)
  | _ => bop op e o
  end.

Lemma sem_unit_not_binary : forall c p n op o,
  graft op (sem_hs (HUnit c p n)) o = bop op (sem_hs (HUnit c p n)) o.
Proof. intros [] p n op o; reflexivity. Qed.

Lemma iop_bin_unit : forall op o' l c p n nd o,
  hs_iop op (HBin o' l (HUnit c p n) nd) o =
  (HBin o' l (HBin op (HUnit c p n) o None) (stale_right nd), true).
Proof. reflexivity. Qed.

Lemma iop_bin_nonunit : forall op o' l r nd o, is_unit r = false ->
  hs_iop op (HBin o' l r nd) o =
  (HBin o' l (fst (hs_iop op r o)) (if snd (hs_iop op r o) then nd else stale_right nd), true).
Proof.
  intros op o' l r nd o Hr. destruct r; try discriminate.
  - cbn [hs_iop]. reflexivity.
  - change (hs_iop op (HBin o' l (HBin op0 r1 r2 nd0) nd) o) with
      (let (r', same) := hs_iop op (HBin op0 r1 r2 nd0) o in
       (HBin o' l r' (if same then nd else stale_right nd), true)).
    destruct (hs_iop op (HBin op0 r1 r2 nd0) o); reflexivity.
Qed.

Lemma iop_sem : forall op h o,
  sem_hs (fst (hs_iop op h o)) = graft op (sem_hs h) (sem_hs o).
Proof.
  intros op h o. induction h.
  - cbn [hs_iop fst]. rewrite sem_hs_bin. symmetry. apply sem_unit_not_binary.
  - cbn [hs_iop fst]. rewrite sem_hs_bin. reflexivity.
  - destruct (is_unit h2) eqn:Hu.
    + destruct h2; try discriminate. rewrite iop_bin_unit. cbn [fst]. rewrite !sem_hs_bin.
      rewrite <- sem_unit_not_binary. destruct op0; reflexivity.
    + rewrite iop_bin_nonunit by exact Hu. cbn [fst]. rewrite !sem_hs_bin. rewrite IHh2.
      destruct op0; reflexivity.
Qed.

(* when the right spine consists of the same operator only, &= is & *)
Fixpoint right_spine (op : gop) (e : bexp) : Prop :=
  match e with
  | BAnd _ b => op = OInter /\ right_spine op b
  | BOr _ b => op = OUnion /\ right_spine op b
  | _ => True
  end.

Lemma graft_spine : forall op e o, right_spine op e -> beq (graft op e o) (bop op e o).
Proof.
  intros op e o. induction e; simpl; intros H; try apply beq_refl.
  - destruct H as [-> H]. simpl.
    eapply beq_trans; [apply beq_and; [apply beq_refl | apply IHe2; exact H]|].
    simpl. apply beq_sym. apply beq_and_assoc.
  - destruct H as [-> H]. simpl.
    eapply beq_trans; [apply beq_or; [apply beq_refl | apply IHe2; exact H]|].
    simpl. apply beq_sym. apply beq_or_assoc.
Qed.

Lemma iop_same_shape : forall op h o,
  snd (hs_iop op h o) = true -> is_union (fst (hs_iop op h o)) = is_union h.
Proof.
  intros op h o. destruct h; simpl; try discriminate.
  intros _. destruct (is_unit h2) eqn:Hu.
  - destruct h2; try discriminate. reflexivity.
  - change (is_union (fst (hs_iop op (HBin op0 h1 h2 nd) o)) = is_union (HBin op0 h1 h2 nd)).
    rewrite iop_bin_nonunit by exact Hu. reflexivity.
Qed.

(* ------------------------------------------------------------------ writing *)
Definition side_ok (op : gop) (child : hs) (k : nat) : bool :=
  match op with
  | OInter => orb (negb (is_union child)) (Nat.leb 1 k)
  | OUnion => true
  end.

Definition lk_ok (op : gop) (child : hs) (lk : link) : bool :=
  match lk with LStale => true | LKeep k => side_ok op child k end.

(* what _ensure_has_nodes establishes: a cell is only used directly under a complement (written #n); a kept link
   has the parentheses that the precedence of its parent needs *)
Fixpoint linked_ok (h : hs) : bool :=
  match h with
  | HUnit cell _ _ => negb cell
  | HCompl l nd =>
      match l with
      | HUnit true _ _ =>
          match nd with
          | None => true
          | Some (lp, lk) => andb (negb lp) (match lk with LStale => true | LKeep k => Nat.eqb k 0 end)
          end
      | _ =>
          andb (linked_ok l)
               (match nd with
                | None => true
                | Some (lp, lk) => match lk with LStale => true | LKeep k => orb lp (Nat.leb 1 k) end
                end)
      end
  | HBin op l r nd =>
      andb (andb (linked_ok l) (linked_ok r))
           (match nd with
            | None => true
            | Some (ll, rl) => andb (lk_ok op l ll) (lk_ok op r rl)
            end)
  end.

(* the invariant of every HalfSpace the operators can produce: a cell is only used directly under a complement,
   and the syntax node of such a complement is the bare "#n".  Nothing is required of the other links:
   _child_node re-establishes the parentheses whenever a side has none of its own *)
Fixpoint inv (h : hs) : bool :=
  match h with
  | HUnit cell _ _ => negb cell
  | HCompl l nd =>
      match l with
      | HUnit true _ _ =>
          match nd with
          | None => true
          | Some (lp, lk) => andb (negb lp) (match lk with LKeep (S _) => false | _ => true end)
          end
      | _ => inv l
      end
  | HBin _ l r _ => andb (inv l) (inv r)
  end.

(* every node attached, every link kept: the state after _ensure_has_nodes *)
Fixpoint attached (h : hs) : bool :=
  match h with
  | HUnit _ _ _ => true
  | HCompl l (Some (_, LKeep _)) => attached l
  | HBin _ l r (Some (LKeep _, LKeep _)) => andb (attached l) (attached r)
  | _ => false
  end.

Lemma ensure_is_unit : forall h, is_unit (ensure_has_nodes h) = is_unit h.
Proof. destruct h; simpl; try reflexivity.
  - destruct nd as [[lp lk]|]; reflexivity.
  - destruct nd as [[ll rl]|]; reflexivity.
Qed.
Lemma ensure_is_cell_unit : forall h, is_cell_unit (ensure_has_nodes h) = is_cell_unit h.
Proof. destruct h; simpl; try reflexivity.
  - destruct nd as [[lp lk]|]; reflexivity.
  - destruct nd as [[ll rl]|]; reflexivity.
Qed.
Lemma ensure_is_union : forall h, is_union (ensure_has_nodes h) = is_union h.
Proof. destruct h; simpl; try reflexivity.
  - destruct nd as [[lp lk]|]; reflexivity.
  - destruct nd as [[ll rl]|]; reflexivity.
Qed.

Lemma ensure_sem : forall h, sem_hs (ensure_has_nodes h) = sem_hs h.
Proof.
  induction h; cbn [ensure_has_nodes].
  - reflexivity.
  - destruct nd as [[lp lk]|]; simpl; rewrite IHh; reflexivity.
  - destruct nd as [[ll rl]|]; rewrite !sem_hs_bin; rewrite IHh1, IHh2; reflexivity.
Qed.

Lemma ensure_attached : forall h, attached (ensure_has_nodes h) = true.
Proof.
  induction h; simpl.
  - reflexivity.
  - destruct nd as [[lp lk]|]; simpl; assumption.
  - destruct nd as [[ll rl]|]; simpl; rewrite IHh1, IHh2; reflexivity.
Qed.

(* whatever the side's link was, _child_node gives it the parentheses its parent needs *)
Lemma child_node_side_ok : forall op c lk, side_ok op c (child_node (PBin op) c lk) = true.
Proof.
  intros op c lk.
  assert (Hc : side_ok op c (child_node (PBin op) c LStale) = true).
  { destruct op; simpl; [|reflexivity]. destruct c as [cl p n|l nd|[] l r nd]; reflexivity. }
  destruct lk as [|[|k]]; try exact Hc.
  destruct op; simpl; [apply orb_true_r | reflexivity].
Qed.

Lemma linked_unit_false : forall p n, linked_ok (HUnit true p n) = false.
Proof. reflexivity. Qed.

Definition compl_nd_ok (nd : option (bool * link)) : bool :=
  match nd with
  | None => true
  | Some (lp, lk) => match lk with LStale => true | LKeep k => orb lp (Nat.leb 1 k) end
  end.

Lemma linked_compl_nonunit : forall l nd, is_cell_unit l = false ->
  linked_ok (HCompl l nd) = andb (linked_ok l) (compl_nd_ok nd).
Proof. intros l nd H; destruct l as [[] p n| |]; try discriminate; reflexivity. Qed.

Lemma inv_compl_nonunit : forall l nd, is_cell_unit l = false -> inv (HCompl l nd) = inv l.
Proof. intros l nd H; destruct l as [[] p n| |]; try discriminate; reflexivity. Qed.

(* _ensure_has_nodes turns the invariant into the linked state that format needs *)
Lemma ensure_linked : forall h, inv h = true -> linked_ok (ensure_has_nodes h) = true.
Proof.
  induction h; intros H.
  - exact H.
  - destruct (is_cell_unit h) eqn:Hcu.
    + (* a cell directly under the complement *)
      destruct h as [[] p n| |]; try discriminate.
      cbn [ensure_has_nodes]. destruct nd as [[lp lk]|]; [|reflexivity].
      simpl in H. apply andb_true_iff in H. destruct H as [Hlp Hk].
      destruct lp; [discriminate|]. destruct lk as [|[|k]]; try discriminate; reflexivity.
    + rewrite inv_compl_nonunit in H by exact Hcu. specialize (IHh H).
      cbn [ensure_has_nodes].
      destruct nd as [[lp lk]|].
      * rewrite linked_compl_nonunit by (rewrite ensure_is_cell_unit; exact Hcu).
        rewrite IHh. cbn [andb compl_nd_ok].
        destruct lk as [|[|k]]; cbn [child_node];
          rewrite ?ensure_is_cell_unit, ?Hcu, ?andb_false_r; destruct lp; reflexivity.
      * rewrite linked_compl_nonunit by (rewrite ensure_is_cell_unit; exact Hcu).
        rewrite IHh. rewrite ensure_is_cell_unit, Hcu. reflexivity.
  - cbn [ensure_has_nodes inv] in *.
    apply andb_true_iff in H. destruct H as [H1 H2].
    specialize (IHh1 H1). specialize (IHh2 H2).
    destruct nd as [[ll rl]|]; cbn [linked_ok]; rewrite IHh1, IHh2; cbn [andb lk_ok];
      rewrite !child_node_side_ok; reflexivity.
Qed.

Definition hlvl (h : hs) : lvl :=
  match h with
  | HBin OUnion _ _ _ => LE
  | HBin OInter _ _ _ => LT
  | _ => LF
  end.

Lemma hlvl_not_union : forall h, is_union h = false -> lvl_le (hlvl h) LT = true.
Proof. destruct h as [| |[]]; simpl; intros; try reflexivity; discriminate. Qed.

(* a side of an intersection is derivable as a term *)
Lemma side_term : forall c k e,
  side_ok OInter c k = true -> GD (hlvl c) (format_hs c) e -> GD LT (wrapk k (format_hs c)) e.
Proof.
  intros c [|k] e Hs H.
  - simpl in *. rewrite orb_false_r in Hs. apply negb_true_iff in Hs.
    eapply GD_weaken; [apply hlvl_not_union; exact Hs | exact H].
  - apply GD_f2t. eapply GD_wrap_S; exact H.
Qed.

Lemma side_expr : forall c k e,
  GD (hlvl c) (format_hs c) e -> GD LE (wrapk k (format_hs c)) e.
Proof.
  intros c k e H. eapply GD_to_E. apply GD_wrapk. exact H.
Qed.

(* the key lemma: what format prints for a linked tree parses, at the level of its top operator, to an
   expression equivalent to the tree's meaning *)
Lemma format_correct : forall h, attached h = true -> linked_ok h = true ->
  exists e, GD (hlvl h) (format_hs h) e /\ beq e (sem_hs h).
Proof.
  induction h; intros Ha Hi.
  - destruct cell; [discriminate|]. simpl. exists (BSurf pos n). split; [apply GD_leaf | apply beq_refl].
  - destruct nd as [[lp [|k]]|]; try discriminate.
    cbn [attached] in Ha.
    destruct (is_cell_unit h) eqn:Hcu.
    + (* #n *)
      destruct h as [[] p n| |]; try discriminate.
      simpl in Hi. apply andb_true_iff in Hi. destruct Hi as [Hlp Hk].
      destruct lp; simpl in Hlp; [discriminate|]. apply Nat.eqb_eq in Hk. subst k.
      simpl. exists (BCompl n). split; [apply GD_cell | apply beq_sym, beq_notnot].
    + rewrite linked_compl_nonunit in Hi by exact Hcu.
      apply andb_true_iff in Hi. destruct Hi as [Hc Hk]. cbn [compl_nd_ok] in Hk.
      destruct (IHh Ha Hc) as (e & He & Hq).
      exists (BNot e). split; [|simpl; apply beq_not; exact Hq].
      assert (Hf : format_hs (HCompl h (Some (lp, LKeep k))) =
                   THash :: (if lp then [TLParen] else []) ++ wrapk k (format_hs h) ++ (if lp then [TRParen] else [])
                   \/ (lp = false /\ k = 0%nat)).
      { destruct lp; [left|].
        - destruct h; reflexivity.
        - destruct k; [right; split; reflexivity|left]. destruct h; reflexivity. }
      destruct Hf as [Hf|[-> ->]]; [|discriminate].
      cbn [hlvl]. rewrite Hf.
      destruct lp.
      * simpl. apply GD_not. apply side_expr. exact He.
      * destruct k; [discriminate|]. rewrite wrapk_S. simpl. rewrite app_nil_r.
        apply GD_not. apply side_expr. exact He.
  - destruct nd as [[[|kl] [|kr]]|]; try discriminate.
    cbn [attached] in Ha. apply andb_true_iff in Ha. destruct Ha as [Ha1 Ha2].
    cbn [linked_ok] in Hi. apply andb_true_iff in Hi. destruct Hi as [Hi Hnd].
    apply andb_true_iff in Hi. destruct Hi as [Hi1 Hi2].
    apply andb_true_iff in Hnd. destruct Hnd as [Hl Hr]. cbn [lk_ok] in Hl, Hr.
    destruct (IHh1 Ha1 Hi1) as (e1 & He1 & Hq1).
    destruct (IHh2 Ha2 Hi2) as (e2 & He2 & Hq2).
    destruct op; cbn [format_hs hlvl link_k sem_hs].
    + destruct (GD_and_chain _ _ _ _ (side_term _ _ _ Hl He1) (side_term _ _ _ Hr He2)) as (e & He & Hq).
      exists e. split; [exact He|].
      eapply beq_trans; [exact Hq | apply beq_and; assumption].
    + destruct (GD_or_chain _ _ _ _ (side_expr _ kl _ He1) (side_expr _ kr _ He2)) as (e & He & Hq).
      exists e. split; [exact He|].
      eapply beq_trans; [exact Hq | apply beq_or; assumption].
Qed.

Theorem write_correct : forall h, inv h = true ->
  exists e, GDenotes (written_tokens h) e /\ beq e (sem_hs h).
Proof.
  intros h Hi. unfold written_tokens, update_values, GDenotes.
  destruct (format_correct (ensure_has_nodes h) (ensure_attached h) (ensure_linked h Hi)) as (e & He & Hq).
  exists e. split; [eapply GD_to_E; exact He | rewrite <- ensure_sem; exact Hq].
Qed.

(* the same through the cell, which may keep parentheses around the whole geometry *)
Theorem cell_write_correct : forall c, inv (geom c) = true ->
  exists e, GDenotes (cell_tokens c) e /\ beq e (sem_hs (geom c)).
Proof.
  intros c Hi. unfold cell_tokens, cell_update, update_values, GDenotes. cbn [geom outer link_k].
  destruct (format_correct (ensure_has_nodes (geom c)) (ensure_attached _) (ensure_linked _ Hi)) as (e & He & Hq).
  exists e. split; [apply side_expr; exact He | rewrite <- ensure_sem; exact Hq].
Qed.

(* ------------------------------------------------------------------ the invariant is kept by every operation *)
Lemma inv_surf : forall pos n, inv (HUnit false pos n) = true.
Proof. reflexivity. Qed.
Lemma inv_cell_compl : forall n, inv (cell_compl n) = true.
Proof. reflexivity. Qed.
Lemma inv_and : forall a b, inv a = true -> inv b = true -> inv (hs_and a b) = true.
Proof. intros a b Ha Hb; simpl; rewrite Ha, Hb; reflexivity. Qed.
Lemma inv_or : forall a b, inv a = true -> inv b = true -> inv (hs_or a b) = true.
Proof. intros a b Ha Hb; simpl; rewrite Ha, Hb; reflexivity. Qed.
Lemma inv_not_cell_unit : forall h, inv h = true -> is_cell_unit h = false.
Proof. intros [[] p n| |] H; try reflexivity; discriminate. Qed.
Lemma inv_not : forall a, inv a = true -> inv (hs_not a) = true.
Proof.
  intros a Ha. unfold hs_not. rewrite inv_compl_nonunit by (apply inv_not_cell_unit; exact Ha). exact Ha.
Qed.

Lemma inv_compl_drop_node : forall l nd, inv (HCompl l nd) = true -> inv (HCompl l None) = true.
Proof.
  intros l nd H. destruct (is_cell_unit l) eqn:Hcu.
  - destruct l as [[] p n| |]; try discriminate; reflexivity.
  - rewrite inv_compl_nonunit in * by exact Hcu. exact H.
Qed.

Lemma inv_bin : forall op a b nd, inv (HBin op a b nd) = andb (inv a) (inv b).
Proof. reflexivity. Qed.

Lemma inv_iop : forall op h o, inv h = true -> inv o = true -> inv (fst (hs_iop op h o)) = true.
Proof.
  intros op h o. induction h; intros Hh Ho.
  - cbn [hs_iop fst]. rewrite inv_bin, Hh, Ho. reflexivity.
  - cbn [hs_iop fst]. rewrite inv_bin.
    rewrite (inv_compl_drop_node _ _ Hh), Ho. reflexivity.
  - rewrite inv_bin in Hh. apply andb_true_iff in Hh. destruct Hh as [H1 H2].
    destruct (is_unit h2) eqn:Hu.
    + destruct h2 as [c p n| |]; try discriminate. rewrite iop_bin_unit. cbn [fst].
      rewrite !inv_bin. rewrite H1, H2, Ho. reflexivity.
    + rewrite iop_bin_nonunit by exact Hu. cbn [fst]. rewrite inv_bin.
      rewrite H1, (IHh2 H2 Ho). reflexivity.
Qed.

Lemma inv_set_left : forall a b h, inv a = true -> inv b = true -> hs_set_left a b = Some h -> inv h = true.
Proof.
  intros a b h Ha Hb H. destruct a as [c p n|l nd|op l r nd]; simpl in H; inversion H; subst; clear H.
  - rewrite inv_compl_nonunit by (apply inv_not_cell_unit; exact Hb). exact Hb.
  - rewrite inv_bin in *. apply andb_true_iff in Ha. destruct Ha as [_ H2]. rewrite Hb, H2. reflexivity.
Qed.

Lemma inv_set_right : forall a b h, inv a = true -> inv b = true -> hs_set_right a b = Some h -> inv h = true.
Proof.
  intros a b h Ha Hb H. destruct a as [c p n|l nd|op l r nd]; simpl in H; inversion H; subst; clear H.
  rewrite inv_bin in *. apply andb_true_iff in Ha. destruct Ha as [H1 _]. rewrite Hb, H1. reflexivity.
Qed.

(* the operator setter (INTERSECTION <-> UNION) keeps it as well: a child that needs parentheses under the new
   operator gets them from _child_node at the next write *)
Lemma inv_set_op : forall a op h, inv a = true -> hs_set_op a op = Some h -> inv h = true.
Proof.
  intros a op h Ha H. destruct a as [c p n|l nd|op' l r nd]; simpl in H; inversion H; subst; clear H.
  rewrite inv_bin in *. exact Ha.
Qed.

(* parsed trees: an intersection never has an unparenthesised union below it *)
Lemma derives_not_union : forall l ts t, Derives l ts t -> l <> LE ->
  is_union (parse_input_node t) = false \/ (1 <= paren_layers t)%nat.
Proof.
  induction 1; intros Hl; simpl; auto; try (right; lia); try (exfalso; apply Hl; reflexivity).
  apply IHDerives. discriminate.
Qed.

Lemma pin_expr_of_term : forall t, parse_input_node (act_expr_of_term t) = parse_input_node t.
Proof. destruct t; reflexivity. Qed.
Lemma layers_expr_of_term : forall t, paren_layers (act_expr_of_term t) = paren_layers t.
Proof. destruct t; reflexivity. Qed.

Lemma derives_side_ok : forall l ts t, Derives l ts t -> l <> LE ->
  side_ok OInter (parse_input_node t) (paren_layers t) = true.
Proof.
  intros l ts t D Hl. unfold side_ok.
  destruct (derives_not_union _ _ _ D Hl) as [H|H].
  - rewrite H. reflexivity.
  - apply orb_true_iff. right. apply Nat.leb_le. exact H.
Qed.

(* whatever tree is handed to parse_input_node *)
Lemma inv_pin : forall t, inv (parse_input_node t) = true.
Proof.
  induction t; simpl; try reflexivity; try assumption.
  - rewrite IHt1, IHt2. reflexivity.
  - destruct t; try reflexivity;
      (rewrite inv_compl_nonunit by apply pin_not_cell_unit; exact IHt).
Qed.

Lemma inv_parsed : forall l ts t, Derives l ts t -> inv (parse_input_node t) = true.
Proof. intros. apply inv_pin. Qed.

(* in-place edits of a sub-object keep it too *)
Lemma inv_hs_at : forall path f h h',
  (forall c, is_cell_unit c = true -> f c = None) ->
  (forall c c' s, inv c = true -> f c = Some (c', s) -> inv c' = true) ->
  inv h = true -> hs_at path f h = Some h' -> inv h' = true.
Proof.
  induction path as [|d rest IH]; intros f h h' Hcu Hf Hi H; [discriminate H|].
  destruct h as [c p n|l nd|op l r nd]; cbn [hs_at] in H; [discriminate H| |].
  - destruct d; [discriminate H|].
    destruct (is_cell_unit l) eqn:El.
    + (* the cell under its complement cannot be edited *)
      destruct rest as [|d' rest'].
      * rewrite (Hcu l El) in H. discriminate H.
      * destruct l as [[] ? ?| |]; try discriminate El. cbn [hs_at] in H. discriminate H.
    + rewrite inv_compl_nonunit in Hi by exact El.
      destruct rest as [|d' rest'].
      * destruct (f l) as [[l' same]|] eqn:E; [|discriminate H]. inversion H; subst; clear H.
        pose proof (Hf _ _ _ Hi E) as Hl'.
        rewrite inv_compl_nonunit by (apply inv_not_cell_unit; exact Hl'). exact Hl'.
      * destruct (hs_at (d' :: rest') f l) as [l'|] eqn:E; [|discriminate H]. inversion H; subst; clear H.
        pose proof (IH f l l' Hcu Hf Hi E) as Hl'.
        rewrite inv_compl_nonunit by (apply inv_not_cell_unit; exact Hl'). exact Hl'.
  - rewrite inv_bin in Hi. apply andb_true_iff in Hi. destruct Hi as [H1 H2].
    destruct d; destruct rest as [|d' rest'].
    + destruct (f r) as [[r' same]|] eqn:E; [|discriminate H]. inversion H; subst; clear H.
      rewrite inv_bin, H1, (Hf _ _ _ H2 E). reflexivity.
    + destruct (hs_at (d' :: rest') f r) as [r'|] eqn:E; [|discriminate H]. inversion H; subst; clear H.
      rewrite inv_bin, H1, (IH f r r' Hcu Hf H2 E). reflexivity.
    + destruct (f l) as [[l' same]|] eqn:E; [|discriminate H]. inversion H; subst; clear H.
      rewrite inv_bin, H2, (Hf _ _ _ H1 E). reflexivity.
    + destruct (hs_at (d' :: rest') f l) as [l'|] eqn:E; [|discriminate H]. inversion H; subst; clear H.
      rewrite inv_bin, H2, (IH f l l' Hcu Hf H1 E). reflexivity.
Qed.

Lemma at_apply_cell : forall k b c, is_cell_unit c = true -> at_apply k b c = None.
Proof. intros k b [[] p n| |] H; try discriminate H. destruct k; reflexivity. Qed.

Lemma at_apply_inv : forall k b c c' s, inv b = true -> inv c = true -> at_apply k b c = Some (c', s) -> inv c' = true.
Proof.
  intros k b c c' s Hb Hc H. destruct k; cbn [at_apply] in H.
  - destruct (hs_set_op c op) as [h|] eqn:E; inversion H; subst. eapply inv_set_op; eauto.
  - destruct (hs_set_left c b) as [h|] eqn:E; inversion H; subst. eapply (inv_set_left c b); eauto.
  - destruct (hs_set_right c b) as [h|] eqn:E; inversion H; subst. eapply (inv_set_right c b); eauto.
  - destruct (is_cell_unit0 c); [discriminate H|]. inversion H as [E].
    change c' with (fst (c', s)). rewrite <- E. apply inv_iop; assumption.
Qed.

Lemma inv_at : forall path k a b h, inv a = true -> inv b = true ->
  hs_at path (at_apply k b) a = Some h -> inv h = true.
Proof.
  intros path k a b h Ha Hb H.
  apply (inv_hs_at path (at_apply k b) a h).
  - apply at_apply_cell.
  - intros c c' s Hc E. exact (at_apply_inv k b c c' s Hb Hc E).
  - exact Ha.
  - exact H.
Qed.

(* the state after a write satisfies the invariant again *)
Lemma linked_attached_inv : forall h, linked_ok h = true -> attached h = true -> inv h = true.
Proof.
  induction h as [c p n|l IHl nd|op l IHl r IHr nd]; intros Hk Ha.
  - exact Hk.
  - destruct nd as [[lp [|k]]|]; try discriminate. cbn [attached] in Ha.
    destruct (is_cell_unit l) eqn:Hcu.
    + destruct l as [[] p n| |]; try discriminate.
      simpl in Hk. apply andb_true_iff in Hk. destruct Hk as [Hlp Hk0]. apply Nat.eqb_eq in Hk0. subst k.
      simpl. rewrite Hlp. reflexivity.
    + rewrite linked_compl_nonunit in Hk by exact Hcu. apply andb_true_iff in Hk. destruct Hk as [Hk _].
      rewrite inv_compl_nonunit by exact Hcu. apply IHl; assumption.
  - destruct nd as [[[|kl] [|kr]]|]; try discriminate. cbn [attached] in Ha.
    apply andb_true_iff in Ha. destruct Ha as [Ha1 Ha2].
    cbn [linked_ok] in Hk. apply andb_true_iff in Hk. destruct Hk as [Hk _].
    apply andb_true_iff in Hk. destruct Hk as [Hk1 Hk2].
    rewrite inv_bin, (IHl Hk1 Ha1), (IHr Hk2 Ha2). reflexivity.
Qed.

Lemma ensure_inv : forall h, inv h = true -> inv (ensure_has_nodes h) = true.
Proof. intros h H. apply linked_attached_inv; [apply ensure_linked; exact H | apply ensure_attached]. Qed.

(* everything the API can build *)
Inductive reachable : hs -> Prop :=
| R_surf : forall pos n, reachable (HUnit false pos n)                 (* +s, -s *)
| R_cell : forall n, reachable (cell_compl n)                         (* ~c *)
| R_parsed : forall ts t, Derives LE ts t -> reachable (parse_input_node t)   (* Cell(...).geometry *)
| R_and : forall a b, reachable a -> reachable b -> reachable (hs_and a b)
| R_or : forall a b, reachable a -> reachable b -> reachable (hs_or a b)
| R_not : forall a, reachable a -> reachable (hs_not a)
| R_iand : forall a b, reachable a -> reachable b -> reachable (fst (hs_iop OInter a b))
| R_ior : forall a b, reachable a -> reachable b -> reachable (fst (hs_iop OUnion a b))
| R_set_left : forall a b h, reachable a -> reachable b -> hs_set_left a b = Some h -> reachable h
| R_set_right : forall a b h, reachable a -> reachable b -> hs_set_right a b = Some h -> reachable h
| R_set_op : forall a op h, reachable a -> hs_set_op a op = Some h -> reachable h   (* .operator = INTERSECTION / UNION *)
| R_written : forall a, reachable a -> reachable (update_values a)    (* written once, then used again *)
| R_at : forall path k a b h, reachable a -> reachable b ->           (* a.left.operator = ..., a.right.left = b, a.left &= b *)
    hs_at path (at_apply k b) a = Some h -> reachable h.

Lemma reachable_inv : forall h, reachable h -> inv h = true.
Proof.
  induction 1.
  - apply inv_surf.
  - apply inv_cell_compl.
  - apply inv_pin.
  - apply inv_and; assumption.
  - apply inv_or; assumption.
  - apply inv_not; assumption.
  - apply inv_iop; assumption.
  - apply inv_iop; assumption.
  - eapply (inv_set_left a b); eauto.
  - eapply (inv_set_right a b); eauto.
  - eapply inv_set_op; eauto.
  - apply ensure_inv; assumption.
  - eapply (inv_at path k a b); eauto.
Qed.

Theorem write_reachable : forall h, reachable h ->
  exists e, GDenotes (written_tokens h) e /\ beq e (sem_hs h).
Proof. intros h H. apply write_correct. apply reachable_inv. exact H. Qed.

Theorem cell_write_reachable : forall h lk, reachable h ->
  exists e, GDenotes (cell_tokens (mkcell h lk)) e /\ beq e (sem_hs h).
Proof. intros h lk H. apply (cell_write_correct (mkcell h lk)). apply reachable_inv. exact H. Qed.

(* built from scratch: no syntax node anywhere *)
Fixpoint scratch (h : hs) : bool :=
  match h with
  | HUnit cell _ _ => negb cell
  | HCompl (HUnit true _ _) None => true
  | HCompl l None => scratch l
  | HBin _ l r None => andb (scratch l) (scratch r)
  | _ => false
  end.

Lemma scratch_inv : forall h, scratch h = true -> inv h = true.
Proof.
  induction h; intros H.
  - exact H.
  - destruct nd as [[lp lk]|].
    + destruct h as [[] ? ?| |]; discriminate.
    + destruct (is_cell_unit h) eqn:Hcu.
      * destruct h as [[] p n| |]; try discriminate; reflexivity.
      * rewrite inv_compl_nonunit by exact Hcu.
        assert (Hs : scratch h = true) by (destruct h as [[] ? ?| |]; try discriminate; exact H).
        exact (IHh Hs).
  - destruct nd; [discriminate|]. simpl in H. apply andb_true_iff in H. destruct H as [H1 H2].
    rewrite inv_bin, (IHh1 H1), (IHh2 H2). reflexivity.
Qed.

Theorem write_scratch : forall h, scratch h = true ->
  exists e, GDenotes (written_tokens h) e /\ beq e (sem_hs h).
Proof. intros h H. apply write_correct. apply scratch_inv. exact H. Qed.

(* ------------------------------------------------------------------ parsed and not edited: the same tokens come back *)
Lemma pin_attached : forall t, attached (parse_input_node t) = true.
Proof.
  induction t; simpl; try reflexivity; try assumption.
  - rewrite IHt1, IHt2. reflexivity.
  - destruct t; simpl in *; try reflexivity; assumption.
Qed.

(* a kept side that already satisfies the precedence of its parent is left alone *)
Lemma child_node_keep : forall op c k, side_ok op c k = true -> child_node (PBin op) c (LKeep k) = k.
Proof.
  intros op c [|k] H; [|reflexivity]. cbn [child_node].
  destruct (is_unit c) eqn:Hu; [reflexivity|]. cbn [andb].
  destruct op; [|reflexivity]. unfold side_ok in H. rewrite orb_false_r in H.
  apply negb_true_iff in H. rewrite H. reflexivity.
Qed.

(* _ensure_has_nodes does not touch the links of an as-parsed geometry *)
Lemma ensure_parsed_id : forall l ts t, Derives l ts t ->
  ensure_has_nodes (parse_input_node t) = parse_input_node t.
Proof.
  induction 1.
  - reflexivity.
  - exact IHDerives.
  - reflexivity.
  - change (parse_input_node (act_complement (act_parens t)))
      with (HCompl (parse_input_node t) (Some (false, LKeep (S (paren_layers t))))).
    cbn [ensure_has_nodes child_node]. rewrite IHDerives. reflexivity.
  - exact IHDerives.
  - cbn [act_intersection parse_input_node ensure_has_nodes]. rewrite IHDerives1, IHDerives2.
    rewrite !child_node_keep; [reflexivity | |];
      eapply derives_side_ok; eauto; discriminate.
  - rewrite pin_expr_of_term. exact IHDerives.
  - cbn [act_union parse_input_node ensure_has_nodes]. rewrite IHDerives1, IHDerives2.
    rewrite !child_node_keep by reflexivity. reflexivity.
Qed.

Lemma format_compl_layers : forall h k,
  format_hs (HCompl h (Some (false, LKeep (S k)))) = THash :: wrapk (S k) (format_hs h).
Proof. intros h k. destruct h; simpl; rewrite app_nil_r; reflexivity. Qed.

Lemma derives_format_back : forall l ts t, Derives l ts t ->
  wrapk (paren_layers t) (format_hs (parse_input_node t)) = ts.
Proof.
  induction 1.
  - reflexivity.
  - cbn [act_parens paren_layers parse_input_node]. rewrite wrapk_S, IHDerives. reflexivity.
  - reflexivity.
  - change (parse_input_node (act_complement (act_parens t)))
      with (HCompl (parse_input_node t) (Some (false, LKeep (S (paren_layers t))))).
    cbn [act_complement paren_layers wrapk]. rewrite format_compl_layers, wrapk_S, IHDerives. reflexivity.
  - exact IHDerives.
  - cbn [act_intersection paren_layers parse_input_node wrapk format_hs link_k].
    rewrite IHDerives1, IHDerives2. reflexivity.
  - rewrite pin_expr_of_term, layers_expr_of_term. exact IHDerives.
  - cbn [act_union paren_layers parse_input_node wrapk format_hs link_k].
    rewrite IHDerives1, IHDerives2. reflexivity.
Qed.

Theorem unedited_exact : forall ts t, Derives LE ts t -> cell_tokens (parse_cell t) = ts.
Proof.
  intros ts t D. unfold cell_tokens, cell_update, parse_cell, update_values. cbn [geom outer link_k].
  rewrite (ensure_parsed_id _ _ _ D).
  eapply derives_format_back; eauto.
Qed.

Corollary unedited_denotes : forall ts t, Derives LE ts t ->
  GDenotes (cell_tokens (parse_cell t)) (sem_tree t).
Proof. intros ts t D. rewrite (unedited_exact _ _ D). apply derives_sound. exact D. Qed.

(* ------------------------------------------------------------------ the reference grammar is unambiguous
   (through completeness of the recursive-descent parser, with enough fuel) *)
Open Scope nat_scope.
Lemma tp_mono : forall f f' m ts r, f <= f' -> tp f m ts = Some r -> tp f' m ts = Some r.
Proof.
  induction f; intros f' m ts r Hle H; [discriminate|].
  destruct f' as [|f']; [lia|]. assert (Hle' : f <= f') by lia.
  destruct m; cbn [tp] in *.
  - destruct (tp f MTerm ts) as [[a r0]|] eqn:E; [|discriminate].
    rewrite (IHf f' _ _ _ Hle' E). apply (IHf f'); assumption.
  - destruct ts as [|[] r0]; try exact H.
    destruct (tp f MTerm r0) as [[b r']|] eqn:E; [|discriminate].
    rewrite (IHf f' _ _ _ Hle' E). apply (IHf f'); assumption.
  - destruct (tp f MFactor ts) as [[a r0]|] eqn:E; [|discriminate].
    rewrite (IHf f' _ _ _ Hle' E). apply (IHf f'); assumption.
  - destruct ts as [|[] r0]; try exact H;
      (destruct (tp f MFactor _) as [[b r']|] eqn:E; [|discriminate];
       rewrite (IHf f' _ _ _ Hle' E); apply (IHf f'); assumption).
  - destruct ts as [|[] r0]; try exact H.
    + destruct r0 as [|[] r0]; try exact H.
      destruct (tp f MExpr r0) as [[e r']|] eqn:E; [|discriminate].
      rewrite (IHf f' _ _ _ Hle' E). exact H.
    + destruct (tp f MExpr r0) as [[e r']|] eqn:E; [|discriminate].
      rewrite (IHf f' _ _ _ Hle' E). exact H.
Qed.

Definition fstart (x : gtok) : bool :=
  match x with TLeaf _ _ | TCompl _ | THash | TLParen => true | _ => false end.

Definition term_stop (rest : list gtok) : Prop :=
  match rest with [] => True | TColon :: _ => True | TRParen :: _ => True | _ => False end.

Lemma derives_F_start : forall ts t, Derives LF ts t -> exists x tl, ts = x :: tl /\ fstart x = true.
Proof. intros ts t H. inversion H; subst; eauto. Qed.

Lemma term_loop_stops : forall a rest, term_stop rest -> tp 1 (MTermLoop a) rest = Some (a, rest).
Proof. intros a [|[] r] H; simpl in *; try reflexivity; contradiction. Qed.

Definition complete_spec (l : lvl) (pre : list gtok) (t : gtree) : Prop :=
  match l with
  | LF => forall rest, exists f, tp f MFactor (pre ++ rest) = Some (t, rest)
  | LT => forall rest res f1, tp f1 (MTermLoop t) rest = Some res ->
            exists f, tp f MTerm (pre ++ rest) = Some res
  | LE => forall rest res f1, term_stop rest -> tp f1 (MExprLoop t) rest = Some res ->
            exists f, tp f MExpr (pre ++ rest) = Some res
  end.

Lemma tp_complete : forall l pre t, Derives l pre t -> complete_spec l pre t.
Proof.
  induction 1; cbn [complete_spec] in *.
  - intros rest. exists 1. reflexivity.
  - intros rest.
    destruct (IHDerives (TRParen :: rest) (t, TRParen :: rest) 1 I eq_refl) as [f Hf].
    exists (S f). cbn [app]. rewrite <- app_assoc. cbn [app tp]. rewrite Hf. reflexivity.
  - intros rest. exists 1. reflexivity.
  - intros rest.
    destruct (IHDerives (TRParen :: rest) (t, TRParen :: rest) 1 I eq_refl) as [f Hf].
    exists (S f). cbn [app]. rewrite <- app_assoc. cbn [app tp]. rewrite Hf. reflexivity.
  - intros rest res f1 Hq1. destruct (IHDerives rest) as [f0 Hq0].
    exists (S (Nat.max f0 f1)). cbn [tp].
    rewrite (tp_mono f0 (Nat.max f0 f1) _ _ _ (Nat.le_max_l _ _) Hq0).
    apply (tp_mono f1); [apply Nat.le_max_r | exact Hq1].
  - intros rest res f1 Hq1. destruct (IHDerives2 rest) as [f0 Hq0].
    rewrite <- app_assoc.
    apply (IHDerives1 (ts2 ++ rest) res (S (Nat.max f0 f1))).
    destruct (derives_F_start _ _ H0) as (x & tl & -> & Hx).
    cbn [app] in *. cbn [tp].
    destruct x; try discriminate Hx;
      (rewrite (tp_mono f0 (Nat.max f0 f1) _ _ _ (Nat.le_max_l _ _) Hq0);
       apply (tp_mono f1); [apply Nat.le_max_r | exact Hq1]).
  - intros rest res f1 Hstop Hq1.
    destruct (IHDerives rest (t, rest) 1 (term_loop_stops _ _ Hstop)) as [f0 Hq0].
    exists (S (Nat.max f0 f1)). cbn [tp].
    rewrite (tp_mono f0 (Nat.max f0 f1) _ _ _ (Nat.le_max_l _ _) Hq0).
    apply (tp_mono f1); [apply Nat.le_max_r | exact Hq1].
  - intros rest res f1 Hstop Hq1.
    destruct (IHDerives2 rest (r, rest) 1 (term_loop_stops _ _ Hstop)) as [f0 Hq0].
    rewrite <- app_assoc. cbn [app].
    apply (IHDerives1 (TColon :: ts2 ++ rest) res (S (Nat.max f0 f1)) I).
    cbn [tp].
    rewrite (tp_mono f0 (Nat.max f0 f1) _ _ _ (Nat.le_max_l _ _) Hq0).
    apply (tp_mono f1); [apply Nat.le_max_r | exact Hq1].
Qed.

Lemma derives_unique : forall ts t1 t2, Derives LE ts t1 -> Derives LE ts t2 -> t1 = t2.
Proof.
  intros ts t1 t2 D1 D2.
  destruct (tp_complete _ _ _ D1 [] (t1, []) 1 I eq_refl) as [f1 H1].
  destruct (tp_complete _ _ _ D2 [] (t2, []) 1 I eq_refl) as [f2 H2].
  apply (tp_mono f1 (Nat.max f1 f2)) in H1; [|apply Nat.le_max_l].
  apply (tp_mono f2 (Nat.max f1 f2)) in H2; [|apply Nat.le_max_r].
  rewrite H1 in H2. inversion H2. reflexivity.
Qed.

Lemma GD_to_derives : forall l ts e, GD l ts e -> exists t, Derives l ts t /\ sem_tree t = e.
Proof.
  induction 1.
  - eexists; split; [apply D_num | reflexivity].
  - eexists; split; [apply D_compl_num | reflexivity].
  - destruct IHGD as (t & D & <-). eexists; split; [apply D_compl_paren; exact D | reflexivity].
  - destruct IHGD as (t & D & <-). eexists; split; [apply D_paren; exact D | reflexivity].
  - destruct IHGD as (t & D & <-). eexists; split; [apply D_f2t; exact D | reflexivity].
  - destruct IHGD1 as (t1 & D1 & <-). destruct IHGD2 as (t2 & D2 & <-).
    eexists; split; [apply D_inter; eassumption | reflexivity].
  - destruct IHGD as (t & D & <-). eexists; split; [apply D_t2e; exact D | apply sem_tree_expr_of_term].
  - destruct IHGD1 as (t1 & D1 & <-). destruct IHGD2 as (t2 & D2 & <-).
    eexists; split; [apply D_union; eassumption | reflexivity].
Qed.

Theorem GD_unique : forall ts e1 e2, GDenotes ts e1 -> GDenotes ts e2 -> e1 = e2.
Proof.
  unfold GDenotes. intros ts e1 e2 H1 H2.
  destruct (GD_to_derives _ _ _ H1) as (t1 & D1 & <-).
  destruct (GD_to_derives _ _ _ H2) as (t2 & D2 & <-).
  rewrite (derives_unique _ _ _ D1 D2). reflexivity.
Qed.

(* ------------------------------------------------------------------ the operator setter *)
Definition w123 : list gtok := [TLeaf true 1; TColon; TLeaf true 2; TColon; TLeaf true 3]%Z.
Definition env1 (a : atom) : bool := match a with ASurf 1%Z => true | _ => false end.

(* "1:2:3" is read, the operator of the top node is set to INTERSECTION, the cell is written: the object is
   (1 : 2) 3 and the text is "(1 : 2) 3" (before the repair of _child_node it was "1 : 2 3") *)
Lemma ex_setop :
  exists t h, Derives LE w123 t /\ hs_set_op (parse_input_node t) OInter = Some h /\
    sem_hs h = BAnd (BOr (BSurf true 1) (BSurf true 2)) (BSurf true 3) /\
    written_tokens h = [TLParen; TLeaf true 1; TColon; TLeaf true 2; TRParen; TLeaf true 3]%Z.
Proof.
  destruct (tparse w123) as [t|] eqn:E; [|discriminate E].
  pose proof (tparse_sound _ _ E) as D.
  vm_compute in E. inversion E; subst t; clear E.
  eexists _, _. split; [exact D|]. repeat split.
Qed.

(* ------------------------------------------------------------------ operator programs (the wire entry) *)
Definition stack_inv (st : stack) : Prop := Forall (fun x => inv (fst x) = true) st.

Lemma step_inv : forall base i st st',
  (forall b, base = Some b -> inv b = true) ->
  stack_inv st -> step base i st = inr st' -> stack_inv st'.
Proof.
  unfold stack_inv. intros base i st st' Hb Hst H.
  destruct i.
  - simpl in H. inversion H; subst. constructor; [reflexivity | exact Hst].
  - simpl in H. inversion H; subst. constructor; [reflexivity | exact Hst].
  - simpl in H. destruct base as [b|]; inversion H; subst.
    constructor; [apply Hb; reflexivity | exact Hst].
  - destruct st as [|[b fb] [|[a fa] r]]; simpl in H; try discriminate. inversion H; subst.
    inversion Hst as [|? ? Hb' Hr]; subst. inversion Hr as [|? ? Ha' Hr']; subst.
    constructor; [apply inv_and; assumption | exact Hr'].
  - destruct st as [|[b fb] [|[a fa] r]]; simpl in H; try discriminate. inversion H; subst.
    inversion Hst as [|? ? Hb' Hr]; subst. inversion Hr as [|? ? Ha' Hr']; subst.
    constructor; [apply inv_or; assumption | exact Hr'].
  - destruct st as [|[a fa] r]; simpl in H; try discriminate. inversion H; subst.
    inversion Hst as [|? ? Ha' Hr]; subst.
    constructor; [apply inv_not; assumption | exact Hr].
  - destruct st as [|[b fb] [|[a fa] r]]; simpl in H; try discriminate.
    destruct (hs_iop OInter a b) as [h same] eqn:E. inversion H; subst.
    inversion Hst as [|? ? Hb' Hr]; subst. inversion Hr as [|? ? Ha' Hr']; subst.
    constructor; [|exact Hr']. cbn [fst] in *.
    change h with (fst (h, same)). rewrite <- E. apply inv_iop; assumption.
  - destruct st as [|[b fb] [|[a fa] r]]; simpl in H; try discriminate.
    destruct (hs_iop OUnion a b) as [h same] eqn:E. inversion H; subst.
    inversion Hst as [|? ? Hb' Hr]; subst. inversion Hr as [|? ? Ha' Hr']; subst.
    constructor; [|exact Hr']. cbn [fst] in *.
    change h with (fst (h, same)). rewrite <- E. apply inv_iop; assumption.
  - destruct st as [|[b fb] [|[a fa] r]]; simpl in H; try discriminate.
    destruct (hs_set_left a b) as [h|] eqn:E; inversion H; subst.
    inversion Hst as [|? ? Hb' Hr]; subst. inversion Hr as [|? ? Ha' Hr']; subst.
    constructor; [|exact Hr']. eapply (inv_set_left a b); eauto.
  - destruct st as [|[b fb] [|[a fa] r]]; simpl in H; try discriminate.
    destruct (hs_set_right a b) as [h|] eqn:E; inversion H; subst.
    inversion Hst as [|? ? Hb' Hr]; subst. inversion Hr as [|? ? Ha' Hr']; subst.
    constructor; [|exact Hr']. eapply (inv_set_right a b); eauto.
  - destruct st as [|[a fa] r]; simpl in H; try discriminate.
    destruct (hs_set_op a op) as [h|] eqn:E; inversion H; subst.
    inversion Hst as [|? ? Ha' Hr]; subst.
    constructor; [|exact Hr]. eapply inv_set_op; eauto.
  - destruct st as [|[a fa] r]; simpl in H; try discriminate. inversion H; subst.
    inversion Hst as [|? ? Ha' Hr]; subst.
    constructor; [apply ensure_inv; assumption | exact Hr].
  - (* in-place edit of a sub-object *)
    destruct k.
    + destruct st as [|[a fa] r]; simpl in H; try discriminate.
      destruct (hs_at path (at_apply (AtSetOp op) a) a) as [h|] eqn:E; inversion H; subst.
      inversion Hst as [|? ? Ha' Hr]; subst.
      constructor; [|exact Hr]. eapply (inv_at path (AtSetOp op) a a); eauto.
    + destruct st as [|[b fb] [|[a fa] r]]; simpl in H; try discriminate.
      destruct (hs_at path (at_apply AtSetL b) a) as [h|] eqn:E; inversion H; subst.
      inversion Hst as [|? ? Hb' Hr]; subst. inversion Hr as [|? ? Ha' Hr']; subst.
      constructor; [|exact Hr']. eapply (inv_at path AtSetL a b); eauto.
    + destruct st as [|[b fb] [|[a fa] r]]; simpl in H; try discriminate.
      destruct (hs_at path (at_apply AtSetR b) a) as [h|] eqn:E; inversion H; subst.
      inversion Hst as [|? ? Hb' Hr]; subst. inversion Hr as [|? ? Ha' Hr']; subst.
      constructor; [|exact Hr']. eapply (inv_at path AtSetR a b); eauto.
    + destruct st as [|[b fb] [|[a fa] r]]; simpl in H; try discriminate.
      destruct (hs_at path (at_apply (AtIop op) b) a) as [h|] eqn:E; inversion H; subst.
      inversion Hst as [|? ? Hb' Hr]; subst. inversion Hr as [|? ? Ha' Hr']; subst.
      constructor; [|exact Hr']. eapply (inv_at path (AtIop op) a b); eauto.
Qed.

Lemma exec_inv : forall base p st st',
  (forall b, base = Some b -> inv b = true) ->
  stack_inv st -> exec base p st = inr st' -> stack_inv st'.
Proof.
  intros base p. induction p as [|i p IH]; intros st st' Hb Hst H; simpl in *.
  - inversion H; subst. exact Hst.
  - destruct (step base i st) as [e|st1] eqn:E; [discriminate|].
    apply (IH st1 st' Hb); [|exact H]. eapply step_inv; eauto.
Qed.

(* every operator program, on any parsed cell or from scratch, writes a text that means what the resulting
   object means *)
Theorem run_case_correct : forall base p h toks,
  run_case base p = inr (h, toks) ->
  exists e, GDenotes toks e /\ beq e (sem_hs h).
Proof.
  intros base p h toks H. unfold run_case in H.
  destruct (exec (option_map parse_input_node base) p []) as [e|st] eqn:E; [discriminate|].
  assert (Hst : stack_inv st).
  { eapply exec_inv; [| constructor | exact E].
    intros b Hb. destruct base as [t|]; simpl in Hb; inversion Hb; subst. apply inv_pin. }
  destruct st as [|[h0 same] [|x r]]; try discriminate. inversion H; subst.
  inversion Hst as [|? ? Hh _]; subst. cbn [fst] in Hh.
  apply (cell_write_correct (set_geometry _ h same)). exact Hh.
Qed.

(* ------------------------------------------------------------------ examples *)
Open Scope Z_scope.

(* "(1:-2) 3 #(4 5) #2" *)
Definition ex_tokens : list gtok :=
  [TLParen; TLeaf true 1; TColon; TLeaf false 2; TRParen; TLeaf true 3;
   THash; TLParen; TLeaf true 4; TLeaf true 5; TRParen; TCompl 2].
Definition ex_tree : gtree :=
  GBin OInter
    (GBin OInter
       (GBin OInter (GParen (GBin OUnion (GShift (GVal true 1)) (GVal false 2))) (GVal true 3))
       (GCompl (GParen (GBin OInter (GVal true 4) (GVal true 5)))))
    (GCompl (GVal true 2)).

Lemma ex_tparse : tparse ex_tokens = Some ex_tree.
Proof. vm_compute. reflexivity. Qed.
Lemma ex_derives : Derives LE ex_tokens ex_tree.
Proof. apply tparse_sound. exact ex_tparse. Qed.

Lemma ex_tree_to_halfspace :
  sem_tree ex_tree =
    BAnd (BAnd (BAnd (BOr (BSurf true 1) (BSurf false 2)) (BSurf true 3))
               (BNot (BAnd (BSurf true 4) (BSurf true 5)))) (BCompl 2) /\
  sem_hs (parse_input_node ex_tree) =
    BAnd (BAnd (BAnd (BOr (BSurf true 1) (BSurf false 2)) (BSurf true 3))
               (BNot (BAnd (BSurf true 4) (BSurf true 5)))) (BNot (BNot (BCompl 2))).
Proof. split; reflexivity. Qed.

Lemma ex_gparse :
  gparse [TLeaf true 1; TColon; TLeaf true 2; TLeaf false 3; THash; TLParen; TLeaf true 4; TColon; TCompl 7; TRParen]
  = Some (BOr (BSurf true 1)
              (BAnd (BAnd (BSurf true 2) (BSurf false 3)) (BNot (BOr (BSurf true 4) (BCompl 7))))).
Proof. vm_compute. reflexivity. Qed.

(* (-s1 | +s2) & -s3 from scratch: the parentheses are generated *)
Definition ex_scratch : hs := hs_and (hs_or (surf_neg 1) (surf_pos 2)) (surf_neg 3).
Lemma ex_write_scratch :
  scratch ex_scratch = true /\
  written_tokens ex_scratch = [TLParen; TLeaf false 1; TColon; TLeaf true 2; TRParen; TLeaf false 3].
Proof. split; reflexivity. Qed.

(* ~(-s1) & ~c2 & ~(s4 & (s5 | s6)) *)
Definition ex_scratch2 : hs :=
  hs_and (hs_and (hs_not (surf_neg 1)) (cell_compl 2))
         (hs_not (hs_and (surf_pos 4) (hs_or (surf_pos 5) (surf_pos 6)))).
Lemma ex_write_scratch2 :
  scratch ex_scratch2 = true /\
  written_tokens ex_scratch2 =
    [THash; TLParen; TLeaf false 1; TRParen; TCompl 2;
     THash; TLParen; TLeaf true 4; TLParen; TLeaf true 5; TColon; TLeaf true 6; TRParen; TRParen].
Proof. split; reflexivity. Qed.

(* (a | b) &= c  is  a | (b & c): the new operand is grafted on the right spine *)
Lemma ex_iand :
  sem_hs (fst (hs_iop OInter (hs_or (surf_pos 1) (surf_pos 2)) (surf_pos 3)))
  = BOr (BSurf true 1) (BAnd (BSurf true 2) (BSurf true 3)) /\
  right_spine OInter (sem_hs (hs_and (surf_pos 1) (surf_pos 2))).
Proof. split; [reflexivity | simpl; auto]. Qed.

(* a reachable object that uses every constructor: the parsed example, &= a union, right side replaced,
   written once, complemented *)
Definition ex_edited : hs :=
  match hs_set_right (fst (hs_iop OInter (parse_input_node ex_tree) (hs_or (surf_neg 7) (cell_compl 3))))
                     (hs_or (surf_pos 8) (surf_pos 9)) with
  | Some h => hs_not (update_values h)
  | None => surf_pos 0
  end.
Lemma ex_reachable : reachable ex_edited.
Proof.
  unfold ex_edited.
  destruct (hs_set_right _ _) as [h|] eqn:E; [|discriminate E].
  apply R_not. apply R_written.
  eapply R_set_right; [| | exact E].
  - apply R_iand; [eapply R_parsed; exact ex_derives | apply R_or; [apply R_surf | apply R_cell]].
  - apply R_or; apply R_surf.
Qed.
Lemma ex_edited_tokens :
  written_tokens ex_edited =
    [THash; TLParen;
       TLParen; TLeaf true 1; TColon; TLeaf false 2; TRParen; TLeaf true 3;
       THash; TLParen; TLeaf true 4; TLeaf true 5; TRParen;
       TLParen; TLeaf true 8; TColon; TLeaf true 9; TRParen;
     TRParen].
Proof. vm_compute. reflexivity. Qed.

Lemma ex_unedited : cell_tokens (parse_cell ex_tree) = ex_tokens.
Proof. reflexivity. Qed.

(* a program through the wire entry: base "(1:-2) 3", program  b p4 n5 O IA  (geometry &= (+s4 | -s5)) *)
Lemma ex_run_case :
  exists h, run_case (Some (GBin OInter (GParen (GBin OUnion (GShift (GVal true 1)) (GVal false 2))) (GVal true 3)))
           [IBase; ISurf true 4; ISurf false 5; IOr; IIand]
  = inr (h, [TLParen; TLeaf true 1; TColon; TLeaf false 2; TRParen; TLeaf true 3;
             TLParen; TLeaf true 4; TColon; TLeaf false 5; TRParen]).
Proof. eexists. vm_compute. reflexivity. Qed.

Close Scope Z_scope.
(* ------------------------------------------------------------------ the source grammar (generated table) *)
Lemma strs_eqb_eq : forall a b, strs_eqb a b = true -> a = b.
Proof.
  induction a; destruct b; simpl; intros H; try discriminate; [reflexivity|].
  apply andb_true_iff in H. destruct H as [H1 H2].
  apply String.eqb_eq in H1. subst. f_equal. apply IHa; exact H2.
Qed.

Lemma strs_eqb_refl : forall a, strs_eqb a a = true.
Proof. induction a; simpl; [reflexivity | rewrite String.eqb_refl; exact IHa]. Qed.

Lemma gprod_eqb_eq : forall p q, gprod_eqb p q = true -> p = q.
Proof.
  intros [l r] [l' r']. unfold gprod_eqb. simpl. intros H.
  apply andb_true_iff in H. destruct H as [H1 H2].
  apply String.eqb_eq in H1. apply strs_eqb_eq in H2. subst. reflexivity.
Qed.

(* the translator obligation: the geometry productions the model accounts for are exactly the geometry
   productions of the generated table, in any order (a change of CellParser's grammar breaks this equation) *)
Lemma grammar_skeleton : same_prods (geom_table cell_productions) (map fst geom_rules) = true.
Proof. vm_compute. reflexivity. Qed.

Lemma gprod_mem_In : forall p l, gprod_mem p l = true -> In p l.
Proof.
  intros p l H. apply existsb_exists in H. destruct H as (q & Hq & E). apply gprod_eqb_eq in E. subst q. exact Hq.
Qed.

Lemma same_prods_incl : forall a b, same_prods a b = true -> incl a b.
Proof.
  intros a b H p Hp. apply andb_true_iff in H. destruct H as [H _].
  apply gprod_mem_In. exact (proj1 (forallb_forall _ _) H p Hp).
Qed.

Lemma rule_lookup_in : forall p tbl, In p (map fst tbl) -> exists r, rule_lookup p tbl = Some r /\ In r (map snd tbl).
Proof.
  intros p tbl. induction tbl as [|[q r] tbl IH]; simpl; intros H; [contradiction|].
  destruct (gprod_eqb p q) eqn:E.
  - exists r. split; [reflexivity | left; reflexivity].
  - destruct H as [H|H].
    + subst q. exfalso. clear -E. destruct p as [l rr]. unfold gprod_eqb in E. simpl in E.
      rewrite String.eqb_refl, strs_eqb_refl in E. discriminate E.
    + destruct (IH H) as (r' & H1 & H2). exists r'. split; [exact H1 | right; exact H2].
Qed.

(* a well-formed inner node with a geometry left-hand side is an instance of one of the listed productions *)
Lemma node_rule : forall l r ks, pwf cell_productions (PNode l r ks) = true -> geom_lhs l = true ->
  In (l, r) (map fst geom_rules).
Proof.
  intros l r ks H Hl. cbn [pwf] in H.
  apply andb_true_iff in H. destruct H as [H _]. apply andb_true_iff in H. destruct H as [H _].
  apply existsb_exists in H. destruct H as (q & Hin & Hq). apply gprod_eqb_eq in Hq. subst q.
  apply (same_prods_incl _ _ grammar_skeleton). unfold geom_table. apply filter_In. split; [exact Hin | exact Hl].
Qed.

Lemma node_kids : forall G l r ks, pwf G (PNode l r ks) = true -> map proot ks = r /\ Forall (fun k => pwf G k = true) ks.
Proof.
  intros G l r ks H. cbn [pwf] in H.
  apply andb_true_iff in H. destruct H as [H H3]. apply andb_true_iff in H. destruct H as [_ H2].
  split; [apply strs_eqb_eq; exact H2 | apply Forall_forall; apply forallb_forall; exact H3].
Qed.

(* no production has a terminal on its left: a subtree whose root is a terminal is that token *)
Definition is_lhs (s : string) : bool := existsb (fun p => String.eqb s (fst p)) cell_productions.

Lemma wf_terminal : forall t, pwf cell_productions t = true -> is_lhs (proot t) = false ->
  exists k, t = PTok k.
Proof.
  intros [k|l r ks] H Hn; [exists k; reflexivity|]. exfalso.
  cbn [pwf] in H. apply andb_true_iff in H. destruct H as [H _]. apply andb_true_iff in H. destruct H as [H _].
  apply existsb_exists in H. destruct H as (q & Hin & Hq). apply gprod_eqb_eq in Hq. subst q.
  unfold is_lhs in Hn. simpl proot in Hn.
  assert (existsb (fun p => String.eqb l (fst p)) cell_productions = true).
  { apply existsb_exists. exists (l, r). split; [exact Hin | apply String.eqb_refl]. }
  congruence.
Qed.

Fixpoint ptree_ind' (P : ptree -> Prop)
  (Htok : forall k, P (PTok k))
  (Hnode : forall l r ks, Forall P ks -> P (PNode l r ks))
  (t : ptree) : P t :=
  match t with
  | PTok k => Htok k
  | PNode l r ks =>
      Hnode l r ks ((fix go (ks : list ptree) : Forall P ks :=
                       match ks with
                       | [] => Forall_nil P
                       | k :: ks' => Forall_cons k (ptree_ind' P Htok Hnode k) (go ks')
                       end) ks)
  end.

Definition is_pad (t : stok) : bool := match t with SPad _ => true | _ => false end.

Lemma strip_pads : forall a b, forallb is_pad a = true -> strip (a ++ b) = strip b.
Proof.
  induction a as [|x a IH]; intros b H; [reflexivity|].
  simpl in H. apply andb_true_iff in H. destruct H as [Hx Ha].
  destruct x; try discriminate. simpl. apply IH. exact Ha.
Qed.

Lemma strip_pads_nil : forall a, forallb is_pad a = true -> strip a = [].
Proof. intros a H. rewrite <- (app_nil_r a). rewrite strip_pads by exact H. reflexivity. Qed.

(* the list does not end with "#" *)
Fixpoint ends_hash (ts : list stok) : bool :=
  match ts with
  | [] => false
  | [SHash] => true
  | _ :: r => ends_hash r
  end.

Lemma ends_hash_cons : forall x r, r <> [] -> ends_hash (x :: r) = ends_hash r.
Proof. intros x [|y r] H; [congruence|]. destruct x; reflexivity. Qed.

Lemma ends_hash_app : forall a b, b <> [] -> ends_hash (a ++ b) = ends_hash b.
Proof.
  induction a as [|x a IH]; intros b Hb; [reflexivity|].
  simpl app. rewrite ends_hash_cons; [apply IH; exact Hb|].
  destruct a; simpl; [exact Hb | discriminate].
Qed.

Definition not_cell_start (r : list stok) : bool :=
  match r with SNum true _ :: _ => false | _ => true end.

Lemma strip_hash_other : forall r, not_cell_start r = true -> strip (SHash :: r) = THash :: strip r.
Proof. intros [|[[] m| | | | |] r] H; try discriminate; reflexivity. Qed.

Lemma strip_app : forall a b, ends_hash a = false -> strip (a ++ b) = strip a ++ strip b.
Proof.
  intros a. remember (List.length a) as n eqn:Hn. revert a Hn.
  induction n as [n IH] using lt_wf_ind. intros a Hn b He.
  destruct a as [|x a]; [reflexivity|].
  assert (Hrec : forall a', (List.length a' < n)%nat -> ends_hash a' = false ->
                            strip (a' ++ b) = strip a' ++ strip b).
  { intros a' Hl He'. apply (IH (List.length a') Hl a' eq_refl b He'). }
  assert (Htail : ends_hash a = false).
  { destruct a as [|y a']; [reflexivity|]. rewrite <- (ends_hash_cons x (y :: a')) by discriminate. exact He. }
  assert (Hlen : (List.length a < n)%nat) by (subst n; simpl; lia).
  pose proof (Hrec a Hlen Htail) as Ha.
  destruct x.
  - simpl. rewrite Ha. reflexivity.
  - (* SHash *)
    destruct a as [|y a']; [discriminate He|].
    destruct (not_cell_start (y :: a')) eqn:Hy.
    + rewrite <- app_comm_cons. rewrite !strip_hash_other; [| exact Hy | destruct y as [[] m| | | | |]; try discriminate; reflexivity].
      rewrite Ha. reflexivity.
    + destruct y as [[] m| | | | |]; try discriminate.
      simpl. f_equal. apply Hrec; [subst n; simpl; lia|].
      destruct a' as [|z a'']; [reflexivity|].
      rewrite <- (ends_hash_cons (SNum true m) (z :: a'')) by discriminate. exact Htail.
  - simpl. rewrite Ha. reflexivity.
  - simpl. rewrite Ha. reflexivity.
  - simpl. rewrite Ha. reflexivity.
  - simpl. exact Ha.
Qed.

Lemma hash_neg_app : forall a b, hash_neg (a ++ b) = false -> hash_neg a = false /\ hash_neg b = false.
Proof.
  induction a as [|x a IH]; intros b H; [split; [reflexivity | exact H]|].
  simpl app in H. cbn [hash_neg] in H. apply orb_false_iff in H. destruct H as [H1 H2].
  destruct (IH b H2) as [Ha Hb]. split; [|exact Hb].
  cbn [hash_neg]. rewrite Ha, orb_false_r.
  destruct x; try reflexivity. destruct a as [|y a']; [reflexivity|]. exact H1.
Qed.

(* the padding productions of the generated table *)
Lemma padding_skeleton : same_prods (padding_table cell_productions) padding_prods = true.
Proof. vm_compute. reflexivity. Qed.

Lemma node_in : forall l r ks, pwf cell_productions (PNode l r ks) = true -> In (l, r) cell_productions.
Proof.
  intros l r ks H. cbn [pwf] in H.
  apply andb_true_iff in H. destruct H as [H _]. apply andb_true_iff in H. destruct H as [H _].
  apply existsb_exists in H. destruct H as (q & Hin & Hq). apply gprod_eqb_eq in Hq. subst q. exact Hin.
Qed.

Ltac kids ks H :=
  destruct ks as [|?k [|?k [|?k [|?k [|?k ?ks]]]]]; try discriminate H; cbn [map] in H; injection H; clear H; intros.

Ltac terminal k Hwf :=
  let Hk := fresh "Hk" in
  let tk := fresh "tk" in
  match goal with
  | Hr : proot k = ?c |- _ =>
      destruct (wf_terminal k Hwf) as [tk Hk];
      [rewrite Hr; vm_compute; reflexivity |
       subst k; cbn [proot] in Hr;
       destruct tk as [? ?| | | | |[]]; try discriminate Hr; clear Hr]
  end.

Lemma pad_tree : forall t, pwf cell_productions t = true -> proot t = "padding"%string ->
  forallb is_pad (pyield t) = true.
Proof.
  induction t as [k|l r ks IH] using ptree_ind'; intros Hwf Hroot.
  - destruct k as [? ?| | | | |[]]; discriminate Hroot.
  - cbn [proot] in Hroot. subst l.
    pose proof (node_in _ _ _ Hwf) as Hin.
    assert (Hp : In ("padding"%string, r) padding_prods).
    { apply (same_prods_incl _ _ padding_skeleton). unfold padding_table.
      apply filter_In. split; [exact Hin | reflexivity]. }
    unfold padding_prods in Hp.
    destruct (node_kids _ _ _ _ Hwf) as [Hroots Hkids].
    cbn [In] in Hp.
    repeat (destruct Hp as [Hp|Hp]; [injection Hp as Hr; rewrite <- Hr in *; clear Hr|]); try contradiction;
      kids ks Hroots; cbn [pyield flat_map]; rewrite ?app_nil_r;
      repeat match goal with
             | H : Forall _ (_ :: _) |- _ => inversion H; subst; clear H
             end.
    all: rewrite ?forallb_app; repeat (apply andb_true_iff; split).
    all: match goal with
         | Hr : proot ?kk = "padding"%string,
           IHk : pwf _ ?kk = true -> _ -> forallb is_pad (pyield ?kk) = true
           |- forallb is_pad (pyield ?kk) = true => apply IHk; assumption
         | Hw : pwf cell_productions ?kk = true, Hr : proot ?kk = _
           |- forallb is_pad (pyield ?kk) = true => terminal kk Hw; reflexivity
         end.
Qed.

Lemma union_tree : forall t, pwf cell_productions t = true -> proot t = "union"%string ->
  exists pads, pyield t = SColon :: pads /\ forallb is_pad pads = true.
Proof.
  induction t as [k|l r ks IH] using ptree_ind'; intros Hwf Hroot.
  - destruct k as [? ?| | | | |[]]; discriminate Hroot.
  - cbn [proot] in Hroot. subst l.
    pose proof (node_rule _ _ _ Hwf eq_refl) as Hin.
    destruct (node_kids _ _ _ _ Hwf) as [Hroots Hkids].
    cbn [map fst geom_rules In] in Hin.
    repeat (destruct Hin as [Hin|Hin];
            [try discriminate Hin; injection Hin as Hr; rewrite <- Hr in *; clear Hr|]); try contradiction;
      kids ks Hroots; cbn [pyield flat_map]; rewrite ?app_nil_r;
      repeat match goal with
             | H : Forall _ (_ :: _) |- _ => inversion H; subst; clear H
             end.
    + (* union padding *)
      match goal with
      | IHk : pwf _ ?kk = true -> proot ?kk = "union"%string -> _ |- _ =>
          destruct IHk as (pads & Hy & Hp); [assumption | assumption |]
      end.
      rewrite Hy. eexists. split; [reflexivity|].
      rewrite forallb_app. rewrite Hp. apply pad_tree; assumption.
    + (* ":" *)
      match goal with
      | Hw : pwf cell_productions ?kk = true, Hr : proot ?kk = _ |- _ => terminal kk Hw
      end.
      exists []. split; reflexivity.
Qed.

Definition geom_nt (s : string) : bool :=
  existsb (String.eqb s) ["geometry_expr"; "geometry_term"; "geometry_factor"; "geometry_factory"]%string.
Definition lvl_of (s : string) : lvl :=
  if String.eqb s "geometry_expr" then LE else if String.eqb s "geometry_term" then LT else LF.

Definition factory_shape (t : ptree) (g : gtree) : Prop :=
  (exists pos n, pyield t = [SNum pos n] /\ g = GVal pos n) \/
  (exists ye ge, strip (pyield t) = TLParen :: ye ++ [TRParen] /\ g = GParen ge /\ Derives LE ye ge /\
                 not_cell_start (pyield t) = true).

Definition gsound (t : ptree) : Prop :=
  pwf cell_productions t = true -> geom_nt (proot t) = true -> uses_shortcut t = false ->
  hash_neg (pyield t) = false ->
  exists g, pact t = Some g /\ Derives (lvl_of (proot t)) (strip (pyield t)) g /\
            ends_hash (pyield t) = false /\ pyield t <> [] /\
            (proot t = "geometry_factory"%string -> factory_shape t g).

Lemma hash_neg_flat : forall ks, hash_neg (flat_map pyield ks) = false ->
  Forall (fun k => hash_neg (pyield k) = false) ks.
Proof.
  induction ks as [|k ks IH]; intros H; [constructor|].
  cbn [flat_map] in H. apply hash_neg_app in H. destruct H as [H1 H2].
  constructor; [exact H1 | apply IH; exact H2].
Qed.

Lemma node_facts : forall l r ks,
  pwf cell_productions (PNode l r ks) = true -> uses_shortcut (PNode l r ks) = false ->
  hash_neg (pyield (PNode l r ks)) = false ->
  map proot ks = r /\
  Forall (fun k => pwf cell_productions k = true) ks /\
  Forall (fun k => uses_shortcut k = false) ks /\
  Forall (fun k => hash_neg (pyield k) = false) ks.
Proof.
  intros l r ks Hwf Hs Hh.
  destruct (node_kids _ _ _ _ Hwf) as [H1 H2]. split; [exact H1|]. split; [exact H2|]. split.
  - cbn [uses_shortcut] in Hs. apply orb_false_iff in Hs. destruct Hs as [_ Hs].
    apply Forall_forall. intros k Hk.
    destruct (uses_shortcut k) eqn:E; [|reflexivity].
    assert (existsb uses_shortcut ks = true) by (apply existsb_exists; exists k; split; assumption).
    congruence.
  - apply hash_neg_flat. exact Hh.
Qed.

Lemma pact_node : forall l r ks, pact (PNode l r ks) =
  match rule_of l r, ks with
  | Some RNumber, [PTok (SNum pos n)] => Some (act_number pos n)
  | Some RParens, [_; e; _] => option_map act_parens (pact e)
  | Some RParensPad, [_; _; e; _] => option_map act_parens (pact e)
  | Some RFactorOfFactory, [f] => pact f
  | Some RComplement, [_; f] => option_map act_complement (pact f)
  | Some RTermOfFactor, [f] => pact f
  | Some RTermPad, [a; _] => pact a
  | Some RInterPad, [a; _; b] => opt2 act_intersection (pact a) (pact b)
  | Some RInterImplicit, [a; b] => opt2 act_intersection (pact a) (pact b)
  | Some RExprOfTerm, [a] => option_map act_expr_of_term (pact a)
  | Some RUnion, [a; _; b] => opt2 act_union (pact a) (pact b)
  | _, _ => None
  end.
Proof. reflexivity. Qed.

(* start of every production case: the children, their facts and their induction hypotheses *)
Ltac start_case :=
  let ks := fresh "ks" in let IH := fresh "IH" in
  let Hwf := fresh "Hwf" in let Hnt := fresh "Hnt" in let Hs := fresh "Hs" in let Hh := fresh "Hh" in
  let Hroots := fresh "Hroots" in let Hk1 := fresh "Hk" in let Hk2 := fresh "Hk" in let Hk3 := fresh "Hk" in
  intros ks IH Hwf Hnt Hs Hh;
  destruct (node_facts _ _ _ Hwf Hs Hh) as (Hroots & Hk1 & Hk2 & Hk3);
  kids ks Hroots;
  repeat match goal with
         | H : Forall _ (_ :: _) |- _ => inversion H; subst; clear H
         | H : Forall _ [] |- _ => clear H
         end;
  rewrite pact_node;
  match goal with
  | |- context [rule_of ?l ?r] =>
      let ru := fresh "ru" in let Hru := fresh "Hru" in
      remember (rule_of l r) as ru eqn:Hru; vm_compute in Hru; subst ru
  end;
  cbn [pyield flat_map proot] in *; rewrite ?app_nil_r in *.

Ltac use_ih k :=
  match goal with
  | IHk : gsound k, Hw : pwf cell_productions k = true, Hsk : uses_shortcut k = false,
    Hhk : hash_neg (pyield k) = false, Hr : proot k = _ |- _ =>
      let g := fresh "g" in let Ha := fresh "Hact" in let Hd := fresh "Hder" in
      let He := fresh "Hend" in let Hn := fresh "Hne" in let Hf := fresh "Hfac" in
      destruct (IHk Hw ltac:(rewrite Hr; reflexivity) Hsk Hhk) as (g & Ha & Hd & He & Hn & Hf);
      rewrite Hr in Hd, Hf; cbn [lvl_of String.eqb Ascii.eqb Bool.eqb] in Hd; clear IHk
  end.

Lemma case_number : forall ks, Forall gsound ks -> gsound (PNode "geometry_factory" ["NUMBER"] ks).
Proof.
  start_case.
  match goal with Hw : pwf cell_productions ?kk = true |- _ => terminal kk Hw end.
  eexists. split; [reflexivity|]. split; [apply D_num|]. split; [reflexivity|]. split; [discriminate|].
  intros _. left. eexists _, _. split; reflexivity.
Qed.

Lemma strip_paren : forall y, ends_hash y = false -> strip (SLP :: y ++ [SRP]) = TLParen :: strip y ++ [TRParen].
Proof. intros y H. cbn [strip]. rewrite strip_app by exact H. reflexivity. Qed.

Lemma ends_paren : forall y, ends_hash (SLP :: y ++ [SRP]) = false.
Proof. intros y. rewrite ends_hash_cons by (destruct y; discriminate). rewrite ends_hash_app by discriminate. reflexivity. Qed.

Ltac terminals :=
  repeat match goal with
         | Hw : pwf cell_productions ?kk = true, Hr : proot ?kk = String _ EmptyString |- _ => terminal kk Hw
         | Hw : pwf cell_productions ?kk = true, Hr : proot ?kk = "COMPLEMENT"%string |- _ => terminal kk Hw
         end;
  cbn [pyield app] in *.

Ltac ih_all := repeat match goal with IHk : gsound ?kk |- _ => first [use_ih kk | clear IHk] end.

Lemma case_parens : forall ks, Forall gsound ks -> gsound (PNode "geometry_factory" ["("; "geometry_expr"; ")"] ks).
Proof.
  start_case. terminals. ih_all.
  exists (GParen g). split; [rewrite Hact; reflexivity|].
  rewrite strip_paren by exact Hend.
  split; [apply D_paren; exact Hder|]. split; [apply ends_paren|]. split; [discriminate|].
  intros _. right. exists (strip (pyield k0)), g. cbn [pyield flat_map app]. rewrite ?app_nil_r.
  rewrite strip_paren by exact Hend. repeat split; exact Hder.
Qed.

Lemma case_parens_pad : forall ks, Forall gsound ks ->
  gsound (PNode "geometry_factory" ["("; "padding"; "geometry_expr"; ")"] ks).
Proof.
  start_case. terminals.
  match goal with Hp : proot ?kk = "padding"%string, Hw : pwf cell_productions ?kk = true |- _ =>
    pose proof (pad_tree kk Hw Hp) as Hpad end.
  ih_all.
  exists (GParen g). split; [rewrite Hact; reflexivity|].
  assert (Hst : strip (SLP :: pyield k0 ++ pyield k1 ++ [SRP]) = TLParen :: strip (pyield k1) ++ [TRParen]).
  { cbn [strip]. rewrite strip_pads by exact Hpad. rewrite strip_app by exact Hend. reflexivity. }
  rewrite Hst.
  split; [apply D_paren; exact Hder|].
  split; [rewrite app_assoc; apply ends_paren|]. split; [discriminate|].
  intros _. right. exists (strip (pyield k1)), g. cbn [pyield flat_map app]. rewrite ?app_nil_r.
  rewrite Hst. repeat split; exact Hder.
Qed.

Lemma case_factor_of_factory : forall ks, Forall gsound ks -> gsound (PNode "geometry_factor" ["geometry_factory"] ks).
Proof.
  start_case. ih_all.
  exists g. split; [exact Hact|]. split; [exact Hder|]. split; [exact Hend|]. split; [exact Hne|].
  intros H'; discriminate H'.
Qed.

Lemma case_term_of_factor : forall ks, Forall gsound ks -> gsound (PNode "geometry_term" ["geometry_factor"] ks).
Proof.
  start_case. ih_all.
  exists g. split; [exact Hact|]. split; [apply D_f2t; exact Hder|]. split; [exact Hend|]. split; [exact Hne|].
  intros H'; discriminate H'.
Qed.

Lemma case_expr_of_term : forall ks, Forall gsound ks -> gsound (PNode "geometry_expr" ["geometry_term"] ks).
Proof.
  start_case. ih_all.
  exists (act_expr_of_term g). split; [rewrite Hact; reflexivity|]. split; [apply D_t2e; exact Hder|].
  split; [exact Hend|]. split; [exact Hne|]. intros H'; discriminate H'.
Qed.

Lemma ends_hash_pads : forall a p, forallb is_pad p = true -> ends_hash a = false -> ends_hash (a ++ p) = false.
Proof.
  intros a p. revert a. induction p as [|x p IH]; intros a Hp Ha; [rewrite app_nil_r; exact Ha|].
  simpl in Hp. apply andb_true_iff in Hp. destruct Hp as [Hx Hp].
  replace (a ++ x :: p) with ((a ++ [x]) ++ p) by (rewrite <- app_assoc; reflexivity).
  apply IH; [exact Hp|]. rewrite ends_hash_app by discriminate. destruct x; try discriminate; reflexivity.
Qed.

Lemma case_term_pad : forall ks, Forall gsound ks -> gsound (PNode "geometry_term" ["geometry_term"; "padding"] ks).
Proof.
  start_case.
  match goal with Hp : proot ?kk = "padding"%string, Hw : pwf cell_productions ?kk = true |- _ =>
    pose proof (pad_tree kk Hw Hp) as Hpad end.
  ih_all.
  exists g. split; [exact Hact|].
  rewrite strip_app by exact Hend. rewrite (strip_pads_nil _ Hpad), app_nil_r.
  split; [exact Hder|]. split; [apply ends_hash_pads; assumption|].
  split; [destruct (pyield k); [congruence | discriminate]|]. intros H'; discriminate H'.
Qed.

Lemma app_nonempty_r : forall (A : Type) (a b : list A), b <> [] -> a ++ b <> [].
Proof. intros A a b Hb H. apply app_eq_nil in H. destruct H; contradiction. Qed.

Lemma case_inter_pad : forall ks, Forall gsound ks ->
  gsound (PNode "geometry_term" ["geometry_term"; "padding"; "geometry_factor"] ks).
Proof.
  start_case.
  match goal with Hp : proot ?kk = "padding"%string, Hw : pwf cell_productions ?kk = true |- _ =>
    pose proof (pad_tree kk Hw Hp) as Hpad end.
  ih_all.
  exists (act_intersection g0 g). split; [rewrite Hact, Hact0; reflexivity|].
  rewrite strip_app by assumption. rewrite strip_pads by exact Hpad.
  split; [apply D_inter; assumption|].
  split; [rewrite !ends_hash_app by (try apply app_nonempty_r; assumption); assumption|].
  split; [apply app_nonempty_r, app_nonempty_r; assumption|]. intros H'; discriminate H'.
Qed.

Lemma case_inter_implicit : forall ks, Forall gsound ks ->
  gsound (PNode "geometry_term" ["geometry_term"; "geometry_factor"] ks).
Proof.
  start_case. ih_all.
  exists (act_intersection g0 g). split; [rewrite Hact, Hact0; reflexivity|].
  rewrite strip_app by assumption.
  split; [apply D_inter; assumption|].
  split; [rewrite ends_hash_app by assumption; assumption|].
  split; [apply app_nonempty_r; assumption|]. intros H'; discriminate H'.
Qed.

Lemma case_union : forall ks, Forall gsound ks ->
  gsound (PNode "geometry_expr" ["geometry_expr"; "union"; "geometry_term"] ks).
Proof.
  start_case.
  match goal with Hp : proot ?kk = "union"%string, Hw : pwf cell_productions ?kk = true |- _ =>
    destruct (union_tree kk Hw Hp) as (pads & Hy & Hpad) end.
  ih_all. rewrite Hy in *.
  exists (act_union g0 g). split; [rewrite Hact, Hact0; reflexivity|].
  rewrite strip_app by assumption. cbn [app strip]. rewrite strip_pads by exact Hpad.
  split; [apply D_union; assumption|].
  split; [rewrite ends_hash_app by discriminate; rewrite ends_hash_cons by (apply app_nonempty_r; assumption);
          rewrite ends_hash_app by assumption; assumption|].
  split; [apply app_nonempty_r; discriminate|]. intros H'; discriminate H'.
Qed.

Lemma case_complement : forall ks, Forall gsound ks ->
  gsound (PNode "geometry_factor" ["COMPLEMENT"; "geometry_factory"] ks).
Proof.
  start_case. terminals. ih_all.
  exists (act_complement g). split; [rewrite Hact; reflexivity|].
  destruct (Hfac eq_refl) as [(pos & n & Hy & ->)|(ye & ge & Hst & -> & Hde & Hnc)].
  - rewrite Hy in *. destruct pos; [|discriminate Hh].
    split; [apply D_compl_num|]. split; [reflexivity|]. split; [discriminate|]. intros H'; discriminate H'.
  - rewrite strip_hash_other by exact Hnc. rewrite Hst.
    split; [apply D_compl_paren; exact Hde|].
    split; [rewrite ends_hash_cons by exact Hne; exact Hend|]. split; [discriminate|]. intros H'; discriminate H'.
Qed.

Lemma geom_nt_lhs : forall l, geom_nt l = true -> geom_lhs l = true.
Proof. intros l H. unfold geom_lhs, geom_nt in *. cbn [existsb] in *. rewrite H. apply orb_true_r. Qed.

(* every parse tree of a geometry nonterminal over the generated productions (no shortcut production, no "#-n"):
   the action is defined, and its tree is the one the model's derivation relation gives for the stripped tokens *)
Theorem grammar_derives : forall t, gsound t.
Proof.
  induction t as [k|l r ks IH] using ptree_ind'.
  - intros _ Hnt. destruct k as [? ?| | | | |[]]; discriminate Hnt.
  - intros Hwf Hnt.
    pose proof (node_rule _ _ _ Hwf (geom_nt_lhs _ Hnt)) as Hin.
    cbn [map fst geom_rules In] in Hin. cbn [proot] in Hnt.
    repeat (destruct Hin as [Hin|Hin];
            [injection Hin as Hl Hr; rewrite <- Hl, <- Hr in *; clear Hl Hr|]); try contradiction;
      try discriminate Hnt.
    all: first [ apply (case_number ks IH Hwf eq_refl) | apply (case_parens ks IH Hwf eq_refl)
               | apply (case_parens_pad ks IH Hwf eq_refl) | apply (case_factor_of_factory ks IH Hwf eq_refl)
               | apply (case_term_of_factor ks IH Hwf eq_refl) | apply (case_expr_of_term ks IH Hwf eq_refl)
               | apply (case_term_pad ks IH Hwf eq_refl) | apply (case_inter_pad ks IH Hwf eq_refl)
               | apply (case_inter_implicit ks IH Hwf eq_refl) | apply (case_union ks IH Hwf eq_refl)
               | apply (case_complement ks IH Hwf eq_refl)
               | intros Hs; exfalso; vm_compute in Hs; discriminate Hs ].
Qed.

Theorem grammar_sound : forall t,
  pwf cell_productions t = true -> proot t = "geometry_expr"%string ->
  uses_shortcut t = false -> hash_neg (pyield t) = false ->
  exists g, pact t = Some g /\ GDenotes (strip (pyield t)) (sem_tree g).
Proof.
  intros t Hwf Hr Hs Hh.
  destruct (grammar_derives t Hwf ltac:(rewrite Hr; reflexivity) Hs Hh) as (g & Ha & Hd & _).
  rewrite Hr in Hd. exists g. split; [exact Ha|]. apply derives_sound. exact Hd.
Qed.

(* a parse tree of "( 1 : -2 ) 3 #5 #(4)" with blanks, as CellParser's productions derive it *)
Definition pt_num (pos : bool) (n : Z) : ptree := PNode "geometry_factory" ["NUMBER"] [PTok (SNum pos n)].
Definition pt_sp : ptree := PNode "padding" ["SPACE"] [PTok (SPad PSpace)].
Definition pt_f2t (f : ptree) : ptree := PNode "geometry_term" ["geometry_factor"] [PNode "geometry_factor" ["geometry_factory"] [f]].
Definition ex_ptree : ptree :=
  PNode "geometry_expr" ["geometry_term"]
    [PNode "geometry_term" ["geometry_term"; "padding"; "geometry_factor"]
       [PNode "geometry_term" ["geometry_term"; "padding"; "geometry_factor"]
          [PNode "geometry_term" ["geometry_term"; "geometry_factor"]
             [PNode "geometry_term" ["geometry_term"; "padding"]
                [pt_f2t (PNode "geometry_factory" ["("; "padding"; "geometry_expr"; ")"]
                           [PTok SLP; pt_sp;
                            PNode "geometry_expr" ["geometry_expr"; "union"; "geometry_term"]
                              [PNode "geometry_expr" ["geometry_term"]
                                 [PNode "geometry_term" ["geometry_term"; "padding"] [pt_f2t (pt_num true 1); pt_sp]];
                               PNode "union" ["union"; "padding"] [PNode "union" [":"] [PTok SColon]; pt_sp];
                               PNode "geometry_term" ["geometry_term"; "padding"] [pt_f2t (pt_num false 2); pt_sp]];
                            PTok SRP]);
                 pt_sp];
              PNode "geometry_factor" ["geometry_factory"] [pt_num true 3]];
           pt_sp;
           PNode "geometry_factor" ["COMPLEMENT"; "geometry_factory"] [PTok SHash; pt_num true 5]];
        pt_sp;
        PNode "geometry_factor" ["COMPLEMENT"; "geometry_factory"]
          [PTok SHash; PNode "geometry_factory" ["("; "geometry_expr"; ")"]
                         [PTok SLP; PNode "geometry_expr" ["geometry_term"] [pt_f2t (pt_num true 4)]; PTok SRP]]]]%string.

(* "(1:2)#3": a complement directly after a closing parenthesis (implicit intersection with a factor) *)
Definition ex_ptree2 : ptree :=
  PNode "geometry_expr" ["geometry_term"]
    [PNode "geometry_term" ["geometry_term"; "geometry_factor"]
       [pt_f2t (PNode "geometry_factory" ["("; "geometry_expr"; ")"]
                  [PTok SLP;
                   PNode "geometry_expr" ["geometry_expr"; "union"; "geometry_term"]
                     [PNode "geometry_expr" ["geometry_term"] [pt_f2t (pt_num true 1)];
                      PNode "union" [":"] [PTok SColon];
                      pt_f2t (pt_num true 2)];
                   PTok SRP]);
        PNode "geometry_factor" ["COMPLEMENT"; "geometry_factory"] [PTok SHash; pt_num true 3]]]%string.

Lemma ex_ptree2_ok :
  pwf cell_productions ex_ptree2 = true /\ proot ex_ptree2 = "geometry_expr"%string /\
  uses_shortcut ex_ptree2 = false /\ hash_neg (pyield ex_ptree2) = false /\
  strip (pyield ex_ptree2) = [TLParen; TLeaf true 1; TColon; TLeaf true 2; TRParen; TCompl 3]%Z /\
  option_map sem_tree (pact ex_ptree2) = Some (BAnd (BOr (BSurf true 1) (BSurf true 2)) (BCompl 3))%Z.
Proof. vm_compute. repeat split; reflexivity. Qed.

Lemma ex_ptree_ok :
  pwf cell_productions ex_ptree = true /\ proot ex_ptree = "geometry_expr"%string /\
  uses_shortcut ex_ptree = false /\ hash_neg (pyield ex_ptree) = false /\
  strip (pyield ex_ptree) =
    [TLParen; TLeaf true 1; TColon; TLeaf false 2; TRParen; TLeaf true 3; TCompl 5;
     THash; TLParen; TLeaf true 4; TRParen]%Z /\
  pact ex_ptree =
    Some (GBin OInter
            (GBin OInter
               (GBin OInter (GParen (GBin OUnion (GShift (GVal true 1)) (GVal false 2))) (GVal true 3))
               (GCompl (GVal true 5)))
            (GCompl (GParen (GShift (GVal true 4)))))%Z.
Proof. vm_compute. repeat split; reflexivity. Qed.

(* ------------------------------------------------------------------ the operators, as stated in the property *)
Lemma ops_sem : forall a b,
  sem_hs (hs_and a b) = BAnd (sem_hs a) (sem_hs b) /\
  sem_hs (hs_or a b) = BOr (sem_hs a) (sem_hs b) /\
  sem_hs (hs_not a) = BNot (sem_hs a).
Proof. intros; repeat split; reflexivity. Qed.

Lemma units_sem : forall n,
  sem_hs (surf_pos n) = BSurf true n /\ sem_hs (surf_neg n) = BSurf false n /\
  beq (sem_hs (cell_compl n)) (BCompl n).
Proof. intros n; repeat split; try reflexivity. apply beq_notnot. Qed.

(* &= and |= are & and | when the right spine of the left operand only has that operator *)
Lemma aug_spine : forall op a b, right_spine op (sem_hs a) ->
  beq (sem_hs (fst (hs_iop op a b))) (bop op (sem_hs a) (sem_hs b)).
Proof. intros op a b H. rewrite iop_sem. apply graft_spine. exact H. Qed.

(* ... and not in general: (s1 | s2) &= s3 is s1 | (s2 & s3) *)
Lemma aug_differs :
  exists a b, reachable a /\ reachable b /\
    ~ beq (sem_hs (fst (hs_iop OInter a b))) (BAnd (sem_hs a) (sem_hs b)).
Proof.
  exists (hs_or (surf_pos 1) (surf_pos 2)), (surf_pos 3).
  split; [apply R_or; apply R_surf|]. split; [apply R_surf|].
  intros H. specialize (H env1). vm_compute in H. discriminate H.
Qed.


(* what &= and |= mean at least, whatever the shape of the left operand: a &= b only removes points of a and
   keeps those of a & b;  a |= b only adds points of b *)
Definition bimp (a b : bexp) : Prop := forall env, eval env a = true -> eval env b = true.

Lemma graft_bounds_inter : forall e o, bimp (BAnd e o) (graft OInter e o) /\ bimp (graft OInter e o) e.
Proof.
  induction e; intros o; simpl graft;
    try (split; intros env H; simpl in *; try exact H; apply andb_true_iff in H; tauto).
  - destruct (IHe2 o) as [L U]. split; intros env H; specialize (L env); specialize (U env); simpl in *;
      destruct (eval env e1), (eval env e2), (eval env o), (eval env (graft OInter e2 o));
      simpl in *; intuition congruence.
  - destruct (IHe2 o) as [L U]. split; intros env H; specialize (L env); specialize (U env); simpl in *;
      destruct (eval env e1), (eval env e2), (eval env o), (eval env (graft OInter e2 o));
      simpl in *; intuition congruence.
Qed.

Lemma graft_bounds_union : forall e o, bimp e (graft OUnion e o) /\ bimp (graft OUnion e o) (BOr e o).
Proof.
  induction e; intros o; simpl graft;
    try (split; intros env H; simpl in *; try exact H; rewrite H; reflexivity).
  - destruct (IHe2 o) as [L U]. split; intros env H; specialize (L env); specialize (U env); simpl in *;
      destruct (eval env e1), (eval env e2), (eval env o), (eval env (graft OUnion e2 o));
      simpl in *; intuition congruence.
  - destruct (IHe2 o) as [L U]. split; intros env H; specialize (L env); specialize (U env); simpl in *;
      destruct (eval env e1), (eval env e2), (eval env o), (eval env (graft OUnion e2 o));
      simpl in *; intuition congruence.
Qed.

Lemma aug_bounds : forall a b,
  (bimp (BAnd (sem_hs a) (sem_hs b)) (sem_hs (fst (hs_iop OInter a b))) /\
   bimp (sem_hs (fst (hs_iop OInter a b))) (sem_hs a)) /\
  (bimp (sem_hs a) (sem_hs (fst (hs_iop OUnion a b))) /\
   bimp (sem_hs (fst (hs_iop OUnion a b))) (BOr (sem_hs a) (sem_hs b))).
Proof. intros a b. rewrite !iop_sem. split; [apply graft_bounds_inter | apply graft_bounds_union]. Qed.

(* whichever derivation the LALR automaton picks: two parse trees of the same geometry text build the same
   GeometryTree (so SLY's conflict resolution cannot change what is read) *)
Theorem grammar_unambiguous : forall t1 t2,
  pwf cell_productions t1 = true -> proot t1 = "geometry_expr"%string ->
  uses_shortcut t1 = false -> hash_neg (pyield t1) = false ->
  pwf cell_productions t2 = true -> proot t2 = "geometry_expr"%string ->
  uses_shortcut t2 = false -> hash_neg (pyield t2) = false ->
  strip (pyield t1) = strip (pyield t2) -> pact t1 = pact t2.
Proof.
  intros t1 t2 W1 R1 S1 H1 W2 R2 S2 H2 E.
  destruct (grammar_derives t1 W1 ltac:(rewrite R1; reflexivity) S1 H1) as (g1 & A1 & D1 & _).
  destruct (grammar_derives t2 W2 ltac:(rewrite R2; reflexivity) S2 H2) as (g2 & A2 & D2 & _).
  rewrite R1 in D1. rewrite R2 in D2. rewrite E in D1. cbn [lvl_of String.eqb Ascii.eqb Bool.eqb] in D1, D2.
  rewrite A1, A2. f_equal. eapply derives_unique; eauto.
Qed.

(* histories: built from scratch, written (the syntax nodes now exist), edited in place below the root, written again.
   (-s1 & +s2) & -s3, written, geometry.left.operator = UNION:  the text is (-1 : 2) -3;
   -s1 & ~c5, written, geometry.right.left = +s2 | -s3:         the text is -1 #(2 : -3) *)
Lemma ex_history :
  (exists h, hs_at [false] (at_apply (AtSetOp OUnion) (surf_pos 0))
               (update_values (hs_and (hs_and (surf_neg 1) (surf_pos 2)) (surf_neg 3))) = Some h /\
             reachable h /\
             sem_hs h = BAnd (BOr (BSurf false 1) (BSurf true 2)) (BSurf false 3) /\
             written_tokens h = [TLParen; TLeaf false 1; TColon; TLeaf true 2; TRParen; TLeaf false 3]%Z) /\
  (exists h, hs_at [true] (at_apply AtSetL (hs_or (surf_pos 2) (surf_neg 3)))
               (update_values (hs_and (surf_neg 1) (cell_compl 5))) = Some h /\
             reachable h /\
             written_tokens h = [TLeaf false 1; THash; TLParen; TLeaf true 2; TColon; TLeaf false 3; TRParen]%Z).
Proof.
  split; eexists; (split; [vm_compute; reflexivity|]); (split; [|vm_compute; repeat split]).
  - apply (R_at [false] (AtSetOp OUnion)
             (update_values (hs_and (hs_and (surf_neg 1) (surf_pos 2)) (surf_neg 3))) (surf_pos 0));
      [| apply R_surf | vm_compute; reflexivity].
    apply R_written. apply R_and; [apply R_and|]; apply R_surf.
  - apply (R_at [true] AtSetL (update_values (hs_and (surf_neg 1) (cell_compl 5))) (hs_or (surf_pos 2) (surf_neg 3)));
      [| | vm_compute; reflexivity].
    + apply R_written. apply R_and; [apply R_surf | apply R_cell].
    + apply R_or; apply R_surf.
Qed.
