(* GeomProofs.v — proofs about coq/Model/Geom.v (property C02). *)
From Coq Require Import List ZArith Bool String Ascii Lia Arith.
From MPV Require Import Model.Wire Model.Geom.
Import ListNotations.
Open Scope list_scope.

(* ------------------------------------------------------------------ Boolean equivalence *)
Lemma beq_refl : forall a, beq a a.
Proof. intros a env; reflexivity. Qed.
Lemma beq_sym : forall a b, beq a b -> beq b a.
Proof. intros a b H env; symmetry; apply H. Qed.
Lemma beq_trans : forall a b c, beq a b -> beq b c -> beq a c.
Proof. intros a b c H1 H2 env; rewrite H1; apply H2. Qed.
Lemma beq_not : forall a b, beq a b -> beq (BNot a) (BNot b).
Proof. intros a b H env; simpl; rewrite H; reflexivity. Qed.
Lemma beq_and : forall a a' b b', beq a a' -> beq b b' -> beq (BAnd a b) (BAnd a' b').
Proof. intros a a' b b' H1 H2 env; simpl; rewrite H1, H2; reflexivity. Qed.
Lemma beq_or : forall a a' b b', beq a a' -> beq b b' -> beq (BOr a b) (BOr a' b').
Proof. intros a a' b b' H1 H2 env; simpl; rewrite H1, H2; reflexivity. Qed.
Lemma beq_and_assoc : forall a b c, beq (BAnd (BAnd a b) c) (BAnd a (BAnd b c)).
Proof. intros a b c env; simpl; rewrite andb_assoc; reflexivity. Qed.
Lemma beq_or_assoc : forall a b c, beq (BOr (BOr a b) c) (BOr a (BOr b c)).
Proof. intros a b c env; simpl; rewrite orb_assoc; reflexivity. Qed.
Lemma beq_notnot : forall a, beq (BNot (BNot a)) a.
Proof. intros a env; simpl; apply negb_involutive. Qed.

Definition bop (op : gop) : bexp -> bexp -> bexp :=
  match op with OInter => BAnd | OUnion => BOr end.
Lemma beq_bop : forall op a a' b b', beq a a' -> beq b b' -> beq (bop op a b) (bop op a' b').
Proof. intros [] *; simpl; [apply beq_and | apply beq_or]. Qed.
Lemma beq_bop_assoc : forall op a b c, beq (bop op (bop op a b) c) (bop op a (bop op b c)).
Proof. intros [] *; simpl; [apply beq_and_assoc | apply beq_or_assoc]. Qed.

Lemma sem_hs_bin : forall op l r nd, sem_hs (HBin op l r nd) = bop op (sem_hs l) (sem_hs r).
Proof. intros [] *; reflexivity. Qed.

(* ------------------------------------------------------------------ the reference grammar *)
Definition lvl_le (a b : lvl) : bool :=
  match a, b with
  | LF, _ => true
  | LT, LF => false
  | LT, _ => true
  | LE, LE => true
  | LE, _ => false
  end.

Lemma GD_weaken : forall a b ts e, lvl_le a b = true -> GD a ts e -> GD b ts e.
Proof.
  intros a b ts e Hle H.
  destruct a, b; simpl in Hle; try discriminate; auto using GD_f2t, GD_t2e.
Qed.

Lemma GD_to_E : forall l ts e, GD l ts e -> GD LE ts e.
Proof. intros l ts e H; apply (GD_weaken l LE); [destruct l; reflexivity | exact H]. Qed.

Lemma wrapk_S : forall k ts, wrapk (S k) ts = TLParen :: wrapk k ts ++ [TRParen].
Proof. reflexivity. Qed.

Lemma GD_wrap_S : forall k l ts e, GD l ts e -> GD LF (wrapk (S k) ts) e.
Proof.
  induction k; intros l ts e H; rewrite wrapk_S.
  - apply GD_paren. eapply GD_to_E; eauto.
  - apply GD_paren. eapply GD_to_E. apply (IHk l). exact H.
Qed.

(* the level at which [wrapk k ts] is derivable when ts is derivable at level l *)
Definition wrap_lvl (k : nat) (l : lvl) : lvl := match k with O => l | S _ => LF end.
Lemma GD_wrapk : forall k l ts e, GD l ts e -> GD (wrap_lvl k l) (wrapk k ts) e.
Proof. intros [|k] l ts e H; [exact H | apply (GD_wrap_S k l); exact H]. Qed.

(* juxtaposition and ':' are associative up to Boolean equivalence: a right-nested chain may be
   written without parentheses *)
Lemma GD_and_chain_aux : forall l ts2 b, GD l ts2 b -> l = LT ->
  forall ts1 a, GD LT ts1 a -> exists e, GD LT (ts1 ++ ts2) e /\ beq e (BAnd a b).
Proof.
  induction 1; intros Hl; try discriminate; intros ts0 a0 Hx0.
  - (* factor *)
    exists (BAnd a0 e). split; [apply GD_and; assumption | apply beq_refl].
  - (* ts1 ++ ts2, a & b *)
    destruct (IHGD1 eq_refl ts0 a0 Hx0) as (e1 & Hd & He).
    exists (BAnd e1 b). split.
    + rewrite app_assoc. apply GD_and; assumption.
    + eapply beq_trans; [apply beq_and; [exact He | apply beq_refl] | apply beq_and_assoc].
Qed.
Lemma GD_and_chain : forall ts1 ts2 a b, GD LT ts1 a -> GD LT ts2 b ->
  exists e, GD LT (ts1 ++ ts2) e /\ beq e (BAnd a b).
Proof. intros; eapply GD_and_chain_aux; eauto. Qed.

Lemma GD_or_chain_aux : forall l ts2 b, GD l ts2 b -> l = LE ->
  forall ts1 a, GD LE ts1 a -> exists e, GD LE (ts1 ++ TColon :: ts2) e /\ beq e (BOr a b).
Proof.
  induction 1; intros Hl; try discriminate; intros ts0 a0 Hx0.
  - exists (BOr a0 e). split; [apply GD_or; assumption | apply beq_refl].
  - destruct (IHGD1 eq_refl ts0 a0 Hx0) as (e1 & Hd & He).
    exists (BOr e1 b). split.
    + replace (ts0 ++ TColon :: ts1 ++ TColon :: ts2) with ((ts0 ++ TColon :: ts1) ++ TColon :: ts2)
        by (rewrite <- app_assoc; reflexivity).
      apply GD_or; assumption.
    + eapply beq_trans; [apply beq_or; [exact He | apply beq_refl] | apply beq_or_assoc].
Qed.
Lemma GD_or_chain : forall ts1 ts2 a b, GD LE ts1 a -> GD LE ts2 b ->
  exists e, GD LE (ts1 ++ TColon :: ts2) e /\ beq e (BOr a b).
Proof. intros; eapply GD_or_chain_aux; eauto. Qed.

(* ------------------------------------------------------------------ reading: productions, actions, parser *)
Lemma sem_tree_expr_of_term : forall t, sem_tree (act_expr_of_term t) = sem_tree t.
Proof. destruct t; reflexivity. Qed.

Lemma derives_sound : forall l ts t, Derives l ts t -> GD l ts (sem_tree t).
Proof.
  induction 1; simpl.
  - apply GD_leaf.
  - apply GD_paren; assumption.
  - apply GD_cell.
  - apply GD_not; assumption.
  - apply GD_f2t; assumption.
  - apply GD_and; assumption.
  - rewrite sem_tree_expr_of_term. apply GD_t2e; assumption.
  - apply GD_or; assumption.
Qed.

Lemma format_tree_expr_of_term : forall t, format_tree (act_expr_of_term t) = format_tree t.
Proof. destruct t; reflexivity. Qed.

(* the syntax tree keeps every token (GeometryTree.format gives the text back) *)
Lemma derives_lossless : forall l ts t, Derives l ts t -> format_tree t = ts.
Proof.
  induction 1; simpl; try reflexivity.
  - rewrite IHDerives; reflexivity.
  - rewrite IHDerives; reflexivity.
  - assumption.
  - rewrite IHDerives1, IHDerives2; reflexivity.
  - rewrite format_tree_expr_of_term; assumption.
  - rewrite IHDerives1, IHDerives2; reflexivity.
Qed.

Definition tp_spec (m : pmode) (ts : list gtok) (t : gtree) (rest : list gtok) : Prop :=
  match m with
  | MFactor => exists pre, ts = pre ++ rest /\ Derives LF pre t
  | MTerm => exists pre, ts = pre ++ rest /\ Derives LT pre t
  | MTermLoop a => forall pre0, Derives LT pre0 a ->
      exists pre, ts = pre ++ rest /\ Derives LT (pre0 ++ pre) t
  | MExpr => exists pre, ts = pre ++ rest /\ Derives LE pre t
  | MExprLoop a => forall pre0, Derives LE pre0 a ->
      exists pre, ts = pre ++ rest /\ Derives LE (pre0 ++ pre) t
  end.

Lemma tp_sound : forall fuel m ts t rest, tp fuel m ts = Some (t, rest) -> tp_spec m ts t rest.
Proof.
  induction fuel; intros m ts t rest H; [discriminate|].
  destruct m; simpl in H.
  - (* MExpr *)
    destruct (tp fuel MTerm ts) as [[a r]|] eqn:E1; [|discriminate].
    apply IHfuel in E1. destruct E1 as (pre1 & -> & D1).
    apply IHfuel in H. simpl in H.
    destruct (H pre1 (D_t2e _ _ D1)) as (pre2 & -> & D2).
    exists (pre1 ++ pre2). split; [apply app_assoc | exact D2].
  - (* MExprLoop *)
    intros pre0 D0.
    destruct ts as [|[] r]; simpl in H;
      try (inversion H; subst; exists []; rewrite !app_nil_r; split; [reflexivity|exact D0]).
    destruct (tp fuel MTerm r) as [[b r']|] eqn:E1; [|discriminate].
    apply IHfuel in E1. destruct E1 as (pre1 & -> & D1).
    apply IHfuel in H. simpl in H.
    destruct (H (pre0 ++ TColon :: pre1) (D_union _ _ _ _ D0 D1)) as (pre2 & -> & D2).
    exists (TColon :: pre1 ++ pre2). split; [simpl; rewrite <- app_assoc; reflexivity|].
    replace (pre0 ++ TColon :: pre1 ++ pre2) with ((pre0 ++ TColon :: pre1) ++ pre2)
      by (rewrite <- app_assoc; reflexivity).
    exact D2.
  - (* MTerm *)
    destruct (tp fuel MFactor ts) as [[a r]|] eqn:E1; [|discriminate].
    apply IHfuel in E1. destruct E1 as (pre1 & -> & D1).
    apply IHfuel in H. simpl in H.
    destruct (H pre1 (D_f2t _ _ D1)) as (pre2 & -> & D2).
    exists (pre1 ++ pre2). split; [apply app_assoc | exact D2].
  - (* MTermLoop *)
    intros pre0 D0.
    assert (Hstep : forall ts, match tp fuel MFactor ts with
                           | Some (b, r) => tp fuel (MTermLoop (act_intersection a b)) r
                           | None => None end = Some (t, rest) ->
              exists pre, ts = pre ++ rest /\ Derives LT (pre0 ++ pre) t).
    { intros ts' H'.
      destruct (tp fuel MFactor ts') as [[b r]|] eqn:E1; [|discriminate].
      apply IHfuel in E1. destruct E1 as (pre1 & -> & D1).
      apply IHfuel in H'. simpl in H'.
      destruct (H' (pre0 ++ pre1) (D_inter _ _ _ _ D0 D1)) as (pre2 & -> & D2).
      exists (pre1 ++ pre2). split; [apply app_assoc|]. rewrite app_assoc. exact D2. }
    destruct ts as [|[] r]; simpl in H;
      try (inversion H; subst; exists []; rewrite !app_nil_r; split; [reflexivity|exact D0]);
      apply Hstep; exact H.
  - (* MFactor *)
    destruct ts as [|[] r]; try discriminate.
    + inversion H; subst. exists [TLeaf pos n]. split; [reflexivity | apply D_num].
    + inversion H; subst. exists [TCompl n]. split; [reflexivity | apply D_compl_num].
    + destruct r as [|[] r]; try discriminate.
      destruct (tp fuel MExpr r) as [[e r']|] eqn:E1; [|discriminate].
      destruct r' as [|[] r']; try discriminate.
      inversion H; subst.
      apply IHfuel in E1. destruct E1 as (pre1 & -> & D1).
      exists (THash :: TLParen :: pre1 ++ [TRParen]). split.
      * simpl. rewrite <- app_assoc. reflexivity.
      * apply D_compl_paren; exact D1.
    + destruct (tp fuel MExpr r) as [[e r']|] eqn:E1; [|discriminate].
      destruct r' as [|[] r']; try discriminate.
      inversion H; subst.
      apply IHfuel in E1. destruct E1 as (pre1 & -> & D1).
      exists (TLParen :: pre1 ++ [TRParen]). split.
      * simpl. rewrite <- app_assoc. reflexivity.
      * apply D_paren; exact D1.
Qed.

Lemma tparse_sound : forall ts t, tparse ts = Some t -> Derives LE ts t.
Proof.
  unfold tparse. intros ts t H.
  destruct (tp _ MExpr ts) as [[t' [|x r]]|] eqn:E; try discriminate.
  inversion H; subst.
  apply tp_sound in E. destruct E as (pre & -> & D). rewrite app_nil_r. exact D.
Qed.

Lemma gparse_sound : forall ts e, gparse ts = Some e -> GDenotes ts e.
Proof.
  unfold gparse, GDenotes. intros ts e H.
  destruct (tparse ts) as [t|] eqn:E; [|discriminate].
  inversion H; subst. apply derives_sound. apply tparse_sound. exact E.
Qed.

(* ------------------------------------------------------------------ parse_input_node *)
Lemma tree_to_halfspace : forall t, beq (sem_hs (parse_input_node t)) (sem_tree t).
Proof.
  induction t; simpl.
  - apply beq_refl.
  - destruct op; simpl; [apply beq_and | apply beq_or]; assumption.
  - destruct t; simpl in *; try (apply beq_not; assumption).
    apply beq_notnot.
  - assumption.
  - assumption.
Qed.

Lemma pin_not_cell_unit : forall t, is_cell_unit (parse_input_node t) = false.
Proof.
  induction t; simpl; try reflexivity; try assumption.
  destruct t; reflexivity.
Qed.

(* ------------------------------------------------------------------ the operators *)
(* what &= / |= do: the new operand is grafted at the end of the right spine of binary nodes *)
Fixpoint graft (op : gop) (e o : bexp) : bexp :=
  match e with
  | BAnd a b => BAnd a (graft op b o)
  | BOr a b => BOr a (graft op b o)
  | _ => bop op e o
  end.

Lemma sem_unit_not_binary : forall c p n op o,
  graft op (sem_hs (HUnit c p n)) o = bop op (sem_hs (HUnit c p n)) o.
Proof. intros [] p n op o; reflexivity. Qed.

Lemma iop_bin_unit : forall op o' l c p n nd o,
  hs_iop op (HBin o' l (HUnit c p n) nd) o =
  (HBin o' l (HBin op (HUnit c p n) o None) (stale_right nd), true).
Proof. reflexivity. Qed.

Lemma iop_bin_nonunit : forall op o' l r nd o, is_unit r = false ->
  hs_iop op (HBin o' l r nd) o =
  (HBin o' l (fst (hs_iop op r o)) (if snd (hs_iop op r o) then nd else stale_right nd), true).
Proof.
  intros op o' l r nd o Hr. destruct r; try discriminate.
  - cbn [hs_iop]. reflexivity.
  - change (hs_iop op (HBin o' l (HBin op0 r1 r2 nd0) nd) o) with
      (let (r', same) := hs_iop op (HBin op0 r1 r2 nd0) o in
       (HBin o' l r' (if same then nd else stale_right nd), true)).
    destruct (hs_iop op (HBin op0 r1 r2 nd0) o); reflexivity.
Qed.

Lemma iop_sem : forall op h o,
  sem_hs (fst (hs_iop op h o)) = graft op (sem_hs h) (sem_hs o).
Proof.
  intros op h o. induction h.
  - cbn [hs_iop fst]. rewrite sem_hs_bin. symmetry. apply sem_unit_not_binary.
  - cbn [hs_iop fst]. rewrite sem_hs_bin. reflexivity.
  - destruct (is_unit h2) eqn:Hu.
    + destruct h2; try discriminate. rewrite iop_bin_unit. cbn [fst]. rewrite !sem_hs_bin.
      rewrite <- sem_unit_not_binary. destruct op0; reflexivity.
    + rewrite iop_bin_nonunit by exact Hu. cbn [fst]. rewrite !sem_hs_bin. rewrite IHh2.
      destruct op0; reflexivity.
Qed.

(* when the right spine consists of the same operator only, &= is & *)
Fixpoint right_spine (op : gop) (e : bexp) : Prop :=
  match e with
  | BAnd _ b => op = OInter /\ right_spine op b
  | BOr _ b => op = OUnion /\ right_spine op b
  | _ => True
  end.

Lemma graft_spine : forall op e o, right_spine op e -> beq (graft op e o) (bop op e o).
Proof.
  intros op e o. induction e; simpl; intros H; try apply beq_refl.
  - destruct H as [-> H]. simpl.
    eapply beq_trans; [apply beq_and; [apply beq_refl | apply IHe2; exact H]|].
    simpl. apply beq_sym. apply beq_and_assoc.
  - destruct H as [-> H]. simpl.
    eapply beq_trans; [apply beq_or; [apply beq_refl | apply IHe2; exact H]|].
    simpl. apply beq_sym. apply beq_or_assoc.
Qed.

Lemma iop_same_shape : forall op h o,
  snd (hs_iop op h o) = true -> is_union (fst (hs_iop op h o)) = is_union h.
Proof.
  intros op h o. destruct h; simpl; try discriminate.
  intros _. destruct (is_unit h2) eqn:Hu.
  - destruct h2; try discriminate. reflexivity.
  - change (is_union (fst (hs_iop op (HBin op0 h1 h2 nd) o)) = is_union (HBin op0 h1 h2 nd)).
    rewrite iop_bin_nonunit by exact Hu. reflexivity.
Qed.

(* ------------------------------------------------------------------ writing *)
Definition side_ok (op : gop) (child : hs) (k : nat) : bool :=
  match op with
  | OInter => orb (negb (is_union child)) (Nat.leb 1 k)
  | OUnion => true
  end.

Definition lk_ok (op : gop) (child : hs) (lk : link) : bool :=
  match lk with LStale => true | LKeep k => side_ok op child k end.

(* invariant of every HalfSpace the operators can produce: a cell is only used directly under a
   complement (written #n); a kept link has the parentheses that the precedence of its parent needs *)
Fixpoint inv (h : hs) : bool :=
  match h with
  | HUnit cell _ _ => negb cell
  | HCompl l nd =>
      match l with
      | HUnit true _ _ =>
          match nd with
          | None => true
          | Some (lp, lk) => andb (negb lp) (match lk with LStale => true | LKeep k => Nat.eqb k 0 end)
          end
      | _ =>
          andb (inv l)
               (match nd with
                | None => true
                | Some (lp, lk) => match lk with LStale => true | LKeep k => orb lp (Nat.leb 1 k) end
                end)
      end
  | HBin op l r nd =>
      andb (andb (inv l) (inv r))
           (match nd with
            | None => true
            | Some (ll, rl) => andb (lk_ok op l ll) (lk_ok op r rl)
            end)
  end.

(* every node attached, every link kept: the state after _ensure_has_nodes *)
Fixpoint attached (h : hs) : bool :=
  match h with
  | HUnit _ _ _ => true
  | HCompl l (Some (_, LKeep _)) => attached l
  | HBin _ l r (Some (LKeep _, LKeep _)) => andb (attached l) (attached r)
  | _ => false
  end.

Lemma ensure_is_unit : forall h, is_unit (ensure_has_nodes h) = is_unit h.
Proof. destruct h; simpl; try reflexivity.
  - destruct nd as [[lp lk]|]; reflexivity.
  - destruct nd as [[ll rl]|]; reflexivity.
Qed.
Lemma ensure_is_cell_unit : forall h, is_cell_unit (ensure_has_nodes h) = is_cell_unit h.
Proof. destruct h; simpl; try reflexivity.
  - destruct nd as [[lp lk]|]; reflexivity.
  - destruct nd as [[ll rl]|]; reflexivity.
Qed.
Lemma ensure_is_union : forall h, is_union (ensure_has_nodes h) = is_union h.
Proof. destruct h; simpl; try reflexivity.
  - destruct nd as [[lp lk]|]; reflexivity.
  - destruct nd as [[ll rl]|]; reflexivity.
Qed.

Lemma ensure_sem : forall h, sem_hs (ensure_has_nodes h) = sem_hs h.
Proof.
  induction h; cbn [ensure_has_nodes].
  - reflexivity.
  - destruct nd as [[lp lk]|]; simpl; rewrite IHh; reflexivity.
  - destruct nd as [[ll rl]|]; rewrite !sem_hs_bin; rewrite IHh1, IHh2; reflexivity.
Qed.

Lemma ensure_attached : forall h, attached (ensure_has_nodes h) = true.
Proof.
  induction h; simpl.
  - reflexivity.
  - destruct nd as [[lp lk]|]; simpl; assumption.
  - destruct nd as [[ll rl]|]; simpl; rewrite IHh1, IHh2; reflexivity.
Qed.

Lemma ensure_attached_id : forall h, attached h = true -> ensure_has_nodes h = h.
Proof.
  induction h; simpl; intros H.
  - reflexivity.
  - destruct nd as [[lp [|k]]|]; try discriminate. rewrite IHh by assumption. reflexivity.
  - destruct nd as [[[|kl] [|kr]]|]; try discriminate.
    apply andb_true_iff in H. destruct H as [H1 H2].
    rewrite IHh1, IHh2 by assumption. reflexivity.
Qed.

Lemma child_node_side_ok : forall op c lk,
  lk_ok op c lk = true -> side_ok op c (child_node (PBin op) c lk) = true.
Proof.
  intros op c [|k] H; simpl in *; [|exact H].
  destruct op; simpl; [|reflexivity].
  destruct c as [cl p n|l nd|[] l r nd]; simpl; reflexivity.
Qed.

Lemma inv_unit_false : forall p n, inv (HUnit true p n) = false.
Proof. reflexivity. Qed.

Definition compl_nd_ok (nd : option (bool * link)) : bool :=
  match nd with
  | None => true
  | Some (lp, lk) => match lk with LStale => true | LKeep k => orb lp (Nat.leb 1 k) end
  end.

Lemma inv_compl_nonunit : forall l nd, is_cell_unit l = false ->
  inv (HCompl l nd) = andb (inv l) (compl_nd_ok nd).
Proof. intros l nd H; destruct l as [[] p n| |]; try discriminate; reflexivity. Qed.

Lemma ensure_inv : forall h, inv h = true -> inv (ensure_has_nodes h) = true.
Proof.
  induction h; intros H.
  - exact H.
  - destruct (is_cell_unit h) eqn:Hcu.
    + (* a cell directly under the complement *)
      destruct h as [[] p n| |]; try discriminate.
      cbn [ensure_has_nodes]. destruct nd as [[lp lk]|]; [|reflexivity].
      simpl in H. apply andb_true_iff in H. destruct H as [Hlp Hk].
      destruct lp; [discriminate|]. destruct lk; simpl; [reflexivity|exact Hk].
    + rewrite inv_compl_nonunit in H by exact Hcu.
      apply andb_true_iff in H. destruct H as [Hc Hnd]. specialize (IHh Hc).
      cbn [ensure_has_nodes].
      destruct nd as [[lp lk]|].
      * rewrite inv_compl_nonunit by (rewrite ensure_is_cell_unit; exact Hcu).
        rewrite IHh. cbn [andb compl_nd_ok].
        destruct lk; [|exact Hnd]. cbn [child_node].
        rewrite ensure_is_cell_unit, Hcu, andb_false_r. destruct lp; reflexivity.
      * rewrite inv_compl_nonunit by (rewrite ensure_is_cell_unit; exact Hcu).
        rewrite IHh. rewrite ensure_is_cell_unit, Hcu. reflexivity.
  - cbn [ensure_has_nodes inv] in *.
    apply andb_true_iff in H. destruct H as [H Hnd].
    apply andb_true_iff in H. destruct H as [H1 H2].
    specialize (IHh1 H1). specialize (IHh2 H2).
    assert (Hside : forall c lk, lk_ok op c lk = true -> lk_ok op (ensure_has_nodes c) lk = true).
    { intros c [|k] Hk; [reflexivity|]. unfold lk_ok, side_ok in *. destruct op; [|reflexivity].
      rewrite ensure_is_union. exact Hk. }
    destruct nd as [[ll rl]|]; cbn [inv]; rewrite IHh1, IHh2; cbn [andb lk_ok].
    + apply andb_true_iff in Hnd. destruct Hnd as [Hl Hr].
      rewrite (child_node_side_ok op _ ll (Hside _ _ Hl)), (child_node_side_ok op _ rl (Hside _ _ Hr)).
      reflexivity.
    + rewrite !child_node_side_ok; reflexivity.
Qed.

Definition hlvl (h : hs) : lvl :=
  match h with
  | HBin OUnion _ _ _ => LE
  | HBin OInter _ _ _ => LT
  | _ => LF
  end.

Lemma hlvl_not_union : forall h, is_union h = false -> lvl_le (hlvl h) LT = true.
Proof. destruct h as [| |[]]; simpl; intros; try reflexivity; discriminate. Qed.

(* a side of an intersection is derivable as a term *)
Lemma side_term : forall c k e,
  side_ok OInter c k = true -> GD (hlvl c) (format_hs c) e -> GD LT (wrapk k (format_hs c)) e.
Proof.
  intros c [|k] e Hs H.
  - simpl in *. rewrite orb_false_r in Hs. apply negb_true_iff in Hs.
    eapply GD_weaken; [apply hlvl_not_union; exact Hs | exact H].
  - apply GD_f2t. eapply GD_wrap_S; exact H.
Qed.

Lemma side_expr : forall c k e,
  GD (hlvl c) (format_hs c) e -> GD LE (wrapk k (format_hs c)) e.
Proof.
  intros c k e H. eapply GD_to_E. apply GD_wrapk. exact H.
Qed.

(* the key lemma: what format prints for a linked tree that satisfies the invariant parses, at the level
   of its top operator, to an expression equivalent to the tree's meaning *)
Lemma format_correct : forall h, attached h = true -> inv h = true ->
  exists e, GD (hlvl h) (format_hs h) e /\ beq e (sem_hs h).
Proof.
  induction h; intros Ha Hi.
  - destruct cell; [discriminate|]. simpl. exists (BSurf pos n). split; [apply GD_leaf | apply beq_refl].
  - destruct nd as [[lp [|k]]|]; try discriminate.
    cbn [attached] in Ha.
    destruct (is_cell_unit h) eqn:Hcu.
    + (* #n *)
      destruct h as [[] p n| |]; try discriminate.
      simpl in Hi. apply andb_true_iff in Hi. destruct Hi as [Hlp Hk].
      destruct lp; simpl in Hlp; [discriminate|]. apply Nat.eqb_eq in Hk. subst k.
      simpl. exists (BCompl n). split; [apply GD_cell | apply beq_sym, beq_notnot].
    + rewrite inv_compl_nonunit in Hi by exact Hcu.
      apply andb_true_iff in Hi. destruct Hi as [Hc Hk]. cbn [compl_nd_ok] in Hk.
      destruct (IHh Ha Hc) as (e & He & Hq).
      exists (BNot e). split; [|simpl; apply beq_not; exact Hq].
      assert (Hf : format_hs (HCompl h (Some (lp, LKeep k))) =
                   THash :: (if lp then [TLParen] else []) ++ wrapk k (format_hs h) ++ (if lp then [TRParen] else [])
                   \/ (lp = false /\ k = 0%nat)).
      { destruct lp; [left|].
        - destruct h; reflexivity.
        - destruct k; [right; split; reflexivity|left]. destruct h; reflexivity. }
      destruct Hf as [Hf|[-> ->]]; [|discriminate].
      cbn [hlvl]. rewrite Hf.
      destruct lp.
      * simpl. apply GD_not. apply side_expr. exact He.
      * destruct k; [discriminate|]. rewrite wrapk_S. simpl. rewrite app_nil_r.
        apply GD_not. apply side_expr. exact He.
  - destruct nd as [[[|kl] [|kr]]|]; try discriminate.
    cbn [attached] in Ha. apply andb_true_iff in Ha. destruct Ha as [Ha1 Ha2].
    cbn [inv] in Hi. apply andb_true_iff in Hi. destruct Hi as [Hi Hnd].
    apply andb_true_iff in Hi. destruct Hi as [Hi1 Hi2].
    apply andb_true_iff in Hnd. destruct Hnd as [Hl Hr]. cbn [lk_ok] in Hl, Hr.
    destruct (IHh1 Ha1 Hi1) as (e1 & He1 & Hq1).
    destruct (IHh2 Ha2 Hi2) as (e2 & He2 & Hq2).
    destruct op; cbn [format_hs hlvl link_k sem_hs].
    + destruct (GD_and_chain _ _ _ _ (side_term _ _ _ Hl He1) (side_term _ _ _ Hr He2)) as (e & He & Hq).
      exists e. split; [exact He|].
      eapply beq_trans; [exact Hq | apply beq_and; assumption].
    + destruct (GD_or_chain _ _ _ _ (side_expr _ kl _ He1) (side_expr _ kr _ He2)) as (e & He & Hq).
      exists e. split; [exact He|].
      eapply beq_trans; [exact Hq | apply beq_or; assumption].
Qed.

Theorem write_correct : forall h, inv h = true ->
  exists e, GDenotes (written_tokens h) e /\ beq e (sem_hs h).
Proof.
  intros h Hi. unfold written_tokens, update_values, GDenotes.
  destruct (format_correct (ensure_has_nodes h) (ensure_attached h) (ensure_inv h Hi)) as (e & He & Hq).
  exists e. split; [eapply GD_to_E; exact He | rewrite <- ensure_sem; exact Hq].
Qed.

(* the same through the cell, which may keep parentheses around the whole geometry *)
Theorem cell_write_correct : forall c, inv (geom c) = true ->
  exists e, GDenotes (cell_tokens c) e /\ beq e (sem_hs (geom c)).
Proof.
  intros c Hi. unfold cell_tokens, cell_update, update_values, GDenotes. cbn [geom outer link_k].
  destruct (format_correct (ensure_has_nodes (geom c)) (ensure_attached _) (ensure_inv _ Hi)) as (e & He & Hq).
  exists e. split; [apply side_expr; exact He | rewrite <- ensure_sem; exact Hq].
Qed.

(* ------------------------------------------------------------------ the invariant is kept by everything but the operator setter *)
Lemma inv_surf : forall pos n, inv (HUnit false pos n) = true.
Proof. reflexivity. Qed.
Lemma inv_cell_compl : forall n, inv (cell_compl n) = true.
Proof. reflexivity. Qed.
Lemma inv_and : forall a b, inv a = true -> inv b = true -> inv (hs_and a b) = true.
Proof. intros a b Ha Hb; simpl; rewrite Ha, Hb; reflexivity. Qed.
Lemma inv_or : forall a b, inv a = true -> inv b = true -> inv (hs_or a b) = true.
Proof. intros a b Ha Hb; simpl; rewrite Ha, Hb; reflexivity. Qed.
Lemma inv_not_cell_unit : forall h, inv h = true -> is_cell_unit h = false.
Proof. intros [[] p n| |] H; try reflexivity; discriminate. Qed.
Lemma inv_not : forall a, inv a = true -> inv (hs_not a) = true.
Proof.
  intros a Ha. unfold hs_not. rewrite inv_compl_nonunit by (apply inv_not_cell_unit; exact Ha).
  rewrite Ha; reflexivity.
Qed.

Lemma inv_compl_drop_node : forall l nd, inv (HCompl l nd) = true -> inv (HCompl l None) = true.
Proof.
  intros l nd H. destruct (is_cell_unit l) eqn:Hcu.
  - destruct l as [[] p n| |]; try discriminate; reflexivity.
  - rewrite inv_compl_nonunit in * by exact Hcu.
    apply andb_true_iff in H. destruct H as [H _]. rewrite H; reflexivity.
Qed.

Lemma inv_bin : forall op a b nd,
  inv (HBin op a b nd) =
  andb (andb (inv a) (inv b))
       (match nd with None => true | Some (ll, rl) => andb (lk_ok op a ll) (lk_ok op b rl) end).
Proof. reflexivity. Qed.

Lemma inv_iop : forall op h o, inv h = true -> inv o = true -> inv (fst (hs_iop op h o)) = true.
Proof.
  intros op h o. induction h; intros Hh Ho.
  - cbn [hs_iop fst]. rewrite inv_bin, Hh, Ho. reflexivity.
  - cbn [hs_iop fst]. rewrite inv_bin.
    rewrite (inv_compl_drop_node _ _ Hh), Ho. reflexivity.
  - rewrite inv_bin in Hh. apply andb_true_iff in Hh. destruct Hh as [Hh Hnd].
    apply andb_true_iff in Hh. destruct Hh as [H1 H2].
    destruct (is_unit h2) eqn:Hu.
    + destruct h2 as [c p n| |]; try discriminate. rewrite iop_bin_unit. cbn [fst].
      rewrite !inv_bin. rewrite H1, H2, Ho. cbn [andb].
      destruct nd as [[ll rl]|]; [|reflexivity]. cbn [stale_right lk_ok].
      apply andb_true_iff in Hnd. destruct Hnd as [Hl _]. rewrite Hl. reflexivity.
    + rewrite iop_bin_nonunit by exact Hu. cbn [fst]. rewrite inv_bin.
      rewrite H1, (IHh2 H2 Ho). cbn [andb].
      destruct nd as [[ll rl]|]; [|destruct (snd (hs_iop op h2 o)); reflexivity].
      apply andb_true_iff in Hnd. destruct Hnd as [Hl Hr].
      destruct (snd (hs_iop op h2 o)) eqn:Hs; cbn [stale_right lk_ok]; rewrite Hl; [|reflexivity].
      destruct rl; [reflexivity|]. cbn [lk_ok andb] in *. unfold side_ok in *.
      destruct op0; [|reflexivity]. rewrite iop_same_shape by exact Hs. exact Hr.
Qed.

Lemma inv_set_left : forall a b h, inv a = true -> inv b = true -> hs_set_left a b = Some h -> inv h = true.
Proof.
  intros a b h Ha Hb H. destruct a as [c p n|l nd|op l r nd]; simpl in H; inversion H; subst; clear H.
  - rewrite inv_compl_nonunit by (apply inv_not_cell_unit; exact Hb).
    rewrite Hb. destruct nd as [[lp lk]|]; reflexivity.
  - cbn [inv] in *. apply andb_true_iff in Ha. destruct Ha as [Ha Hnd].
    apply andb_true_iff in Ha. destruct Ha as [_ H2]. rewrite Hb, H2. cbn [andb].
    destruct nd as [[ll rl]|]; [|reflexivity]. cbn [stale_left lk_ok].
    apply andb_true_iff in Hnd. destruct Hnd as [_ Hr]. exact Hr.
Qed.

Lemma inv_set_right : forall a b h, inv a = true -> inv b = true -> hs_set_right a b = Some h -> inv h = true.
Proof.
  intros a b h Ha Hb H. destruct a as [c p n|l nd|op l r nd]; simpl in H; inversion H; subst; clear H.
  cbn [inv] in *. apply andb_true_iff in Ha. destruct Ha as [Ha Hnd].
  apply andb_true_iff in Ha. destruct Ha as [H1 _]. rewrite Hb, H1. cbn [andb].
  destruct nd as [[ll rl]|]; [|reflexivity]. cbn [stale_right lk_ok].
  apply andb_true_iff in Hnd. destruct Hnd as [Hl _]. rewrite Hl. reflexivity.
Qed.

(* parsed trees: an intersection never has an unparenthesised union below it *)
Lemma derives_not_union : forall l ts t, Derives l ts t -> l <> LE ->
  is_union (parse_input_node t) = false \/ (1 <= paren_layers t)%nat.
Proof.
  induction 1; intros Hl; simpl; auto; try (right; lia); try (exfalso; apply Hl; reflexivity).
  apply IHDerives. discriminate.
Qed.

Lemma pin_expr_of_term : forall t, parse_input_node (act_expr_of_term t) = parse_input_node t.
Proof. destruct t; reflexivity. Qed.
Lemma layers_expr_of_term : forall t, paren_layers (act_expr_of_term t) = paren_layers t.
Proof. destruct t; reflexivity. Qed.

Lemma derives_side_ok : forall l ts t, Derives l ts t -> l <> LE ->
  side_ok OInter (parse_input_node t) (paren_layers t) = true.
Proof.
  intros l ts t D Hl. unfold side_ok.
  destruct (derives_not_union _ _ _ D Hl) as [H|H].
  - rewrite H. reflexivity.
  - apply orb_true_iff. right. apply Nat.leb_le. exact H.
Qed.

Lemma inv_parsed : forall l ts t, Derives l ts t -> inv (parse_input_node t) = true.
Proof.
  induction 1.
  - reflexivity.
  - exact IHDerives.
  - reflexivity.
  - change (parse_input_node (act_complement (act_parens t)))
      with (HCompl (parse_input_node t) (Some (false, LKeep (S (paren_layers t))))).
    rewrite inv_compl_nonunit by apply pin_not_cell_unit.
    rewrite IHDerives. reflexivity.
  - exact IHDerives.
  - cbn [act_intersection parse_input_node inv]. rewrite IHDerives1, IHDerives2. cbn [andb lk_ok].
    rewrite (derives_side_ok _ _ _ H) by discriminate.
    rewrite (derives_side_ok _ _ _ H0) by discriminate. reflexivity.
  - rewrite pin_expr_of_term. exact IHDerives.
  - cbn [act_union parse_input_node inv]. rewrite IHDerives1, IHDerives2. reflexivity.
Qed.

(* everything the API can build without the operator setter *)
Inductive reachable : hs -> Prop :=
| R_surf : forall pos n, reachable (HUnit false pos n)                 (* +s, -s *)
| R_cell : forall n, reachable (cell_compl n)                         (* ~c *)
| R_parsed : forall ts t, Derives LE ts t -> reachable (parse_input_node t)   (* Cell(...).geometry *)
| R_and : forall a b, reachable a -> reachable b -> reachable (hs_and a b)
| R_or : forall a b, reachable a -> reachable b -> reachable (hs_or a b)
| R_not : forall a, reachable a -> reachable (hs_not a)
| R_iand : forall a b, reachable a -> reachable b -> reachable (fst (hs_iop OInter a b))
| R_ior : forall a b, reachable a -> reachable b -> reachable (fst (hs_iop OUnion a b))
| R_set_left : forall a b h, reachable a -> reachable b -> hs_set_left a b = Some h -> reachable h
| R_set_right : forall a b h, reachable a -> reachable b -> hs_set_right a b = Some h -> reachable h
| R_written : forall a, reachable a -> reachable (update_values a).   (* written once, then used again *)

Lemma reachable_inv : forall h, reachable h -> inv h = true.
Proof.
  induction 1.
  - apply inv_surf.
  - apply inv_cell_compl.
  - eapply inv_parsed; eauto.
  - apply inv_and; assumption.
  - apply inv_or; assumption.
  - apply inv_not; assumption.
  - apply inv_iop; assumption.
  - apply inv_iop; assumption.
  - eapply (inv_set_left a b); eauto.
  - eapply (inv_set_right a b); eauto.
  - apply ensure_inv; assumption.
Qed.

Theorem write_reachable : forall h, reachable h ->
  exists e, GDenotes (written_tokens h) e /\ beq e (sem_hs h).
Proof. intros h H. apply write_correct. apply reachable_inv. exact H. Qed.

Theorem cell_write_reachable : forall h lk, reachable h ->
  exists e, GDenotes (cell_tokens (mkcell h lk)) e /\ beq e (sem_hs h).
Proof. intros h lk H. apply (cell_write_correct (mkcell h lk)). apply reachable_inv. exact H. Qed.

(* built from scratch: no syntax node anywhere *)
Fixpoint scratch (h : hs) : bool :=
  match h with
  | HUnit cell _ _ => negb cell
  | HCompl (HUnit true _ _) None => true
  | HCompl l None => scratch l
  | HBin _ l r None => andb (scratch l) (scratch r)
  | _ => false
  end.

Lemma scratch_inv : forall h, scratch h = true -> inv h = true.
Proof.
  induction h; intros H.
  - exact H.
  - destruct nd as [[lp lk]|].
    + destruct h as [[] ? ?| |]; discriminate.
    + destruct (is_cell_unit h) eqn:Hcu.
      * destruct h as [[] p n| |]; try discriminate; reflexivity.
      * rewrite inv_compl_nonunit by exact Hcu.
        assert (Hs : scratch h = true) by (destruct h as [[] ? ?| |]; try discriminate; exact H).
        rewrite (IHh Hs). reflexivity.
  - destruct nd; [discriminate|]. simpl in H. apply andb_true_iff in H. destruct H as [H1 H2].
    cbn [inv]. rewrite (IHh1 H1), (IHh2 H2). reflexivity.
Qed.

Theorem write_scratch : forall h, scratch h = true ->
  exists e, GDenotes (written_tokens h) e /\ beq e (sem_hs h).
Proof. intros h H. apply write_correct. apply scratch_inv. exact H. Qed.

(* ------------------------------------------------------------------ parsed and not edited: the same tokens come back *)
Lemma pin_attached : forall t, attached (parse_input_node t) = true.
Proof.
  induction t; simpl; try reflexivity; try assumption.
  - rewrite IHt1, IHt2. reflexivity.
  - destruct t; simpl in *; try reflexivity; assumption.
Qed.

Lemma format_compl_layers : forall h k,
  format_hs (HCompl h (Some (false, LKeep (S k)))) = THash :: wrapk (S k) (format_hs h).
Proof. intros h k. destruct h; simpl; rewrite app_nil_r; reflexivity. Qed.

Lemma derives_format_back : forall l ts t, Derives l ts t ->
  wrapk (paren_layers t) (format_hs (parse_input_node t)) = ts.
Proof.
  induction 1.
  - reflexivity.
  - cbn [act_parens paren_layers parse_input_node]. rewrite wrapk_S, IHDerives. reflexivity.
  - reflexivity.
  - change (parse_input_node (act_complement (act_parens t)))
      with (HCompl (parse_input_node t) (Some (false, LKeep (S (paren_layers t))))).
    cbn [act_complement paren_layers wrapk]. rewrite format_compl_layers, wrapk_S, IHDerives. reflexivity.
  - exact IHDerives.
  - cbn [act_intersection paren_layers parse_input_node wrapk format_hs link_k].
    rewrite IHDerives1, IHDerives2. reflexivity.
  - rewrite pin_expr_of_term, layers_expr_of_term. exact IHDerives.
  - cbn [act_union paren_layers parse_input_node wrapk format_hs link_k].
    rewrite IHDerives1, IHDerives2. reflexivity.
Qed.

Theorem unedited_exact : forall ts t, Derives LE ts t -> cell_tokens (parse_cell t) = ts.
Proof.
  intros ts t D. unfold cell_tokens, cell_update, parse_cell, update_values. cbn [geom outer link_k].
  rewrite ensure_attached_id by apply pin_attached.
  eapply derives_format_back; eauto.
Qed.

Corollary unedited_denotes : forall ts t, Derives LE ts t ->
  GDenotes (cell_tokens (parse_cell t)) (sem_tree t).
Proof. intros ts t D. rewrite (unedited_exact _ _ D). apply derives_sound. exact D. Qed.

(* ------------------------------------------------------------------ the reference grammar is unambiguous
   (through completeness of the recursive-descent parser, with enough fuel) *)
Open Scope nat_scope.
Lemma tp_mono : forall f f' m ts r, f <= f' -> tp f m ts = Some r -> tp f' m ts = Some r.
Proof.
  induction f; intros f' m ts r Hle H; [discriminate|].
  destruct f' as [|f']; [lia|]. assert (Hle' : f <= f') by lia.
  destruct m; cbn [tp] in *.
  - destruct (tp f MTerm ts) as [[a r0]|] eqn:E; [|discriminate].
    rewrite (IHf f' _ _ _ Hle' E). apply (IHf f'); assumption.
  - destruct ts as [|[] r0]; try exact H.
    destruct (tp f MTerm r0) as [[b r']|] eqn:E; [|discriminate].
    rewrite (IHf f' _ _ _ Hle' E). apply (IHf f'); assumption.
  - destruct (tp f MFactor ts) as [[a r0]|] eqn:E; [|discriminate].
    rewrite (IHf f' _ _ _ Hle' E). apply (IHf f'); assumption.
  - destruct ts as [|[] r0]; try exact H;
      (destruct (tp f MFactor _) as [[b r']|] eqn:E; [|discriminate];
       rewrite (IHf f' _ _ _ Hle' E); apply (IHf f'); assumption).
  - destruct ts as [|[] r0]; try exact H.
    + destruct r0 as [|[] r0]; try exact H.
      destruct (tp f MExpr r0) as [[e r']|] eqn:E; [|discriminate].
      rewrite (IHf f' _ _ _ Hle' E). exact H.
    + destruct (tp f MExpr r0) as [[e r']|] eqn:E; [|discriminate].
      rewrite (IHf f' _ _ _ Hle' E). exact H.
Qed.

Definition fstart (x : gtok) : bool :=
  match x with TLeaf _ _ | TCompl _ | THash | TLParen => true | _ => false end.

Definition term_stop (rest : list gtok) : Prop :=
  match rest with [] => True | TColon :: _ => True | TRParen :: _ => True | _ => False end.

Lemma derives_F_start : forall ts t, Derives LF ts t -> exists x tl, ts = x :: tl /\ fstart x = true.
Proof. intros ts t H. inversion H; subst; eauto. Qed.

Lemma term_loop_stops : forall a rest, term_stop rest -> tp 1 (MTermLoop a) rest = Some (a, rest).
Proof. intros a [|[] r] H; simpl in *; try reflexivity; contradiction. Qed.

Definition complete_spec (l : lvl) (pre : list gtok) (t : gtree) : Prop :=
  match l with
  | LF => forall rest, exists f, tp f MFactor (pre ++ rest) = Some (t, rest)
  | LT => forall rest res f1, tp f1 (MTermLoop t) rest = Some res ->
            exists f, tp f MTerm (pre ++ rest) = Some res
  | LE => forall rest res f1, term_stop rest -> tp f1 (MExprLoop t) rest = Some res ->
            exists f, tp f MExpr (pre ++ rest) = Some res
  end.

Lemma tp_complete : forall l pre t, Derives l pre t -> complete_spec l pre t.
Proof.
  induction 1; cbn [complete_spec] in *.
  - intros rest. exists 1. reflexivity.
  - intros rest.
    destruct (IHDerives (TRParen :: rest) (t, TRParen :: rest) 1 I eq_refl) as [f Hf].
    exists (S f). cbn [app]. rewrite <- app_assoc. cbn [app tp]. rewrite Hf. reflexivity.
  - intros rest. exists 1. reflexivity.
  - intros rest.
    destruct (IHDerives (TRParen :: rest) (t, TRParen :: rest) 1 I eq_refl) as [f Hf].
    exists (S f). cbn [app]. rewrite <- app_assoc. cbn [app tp]. rewrite Hf. reflexivity.
  - intros rest res f1 Hq1. destruct (IHDerives rest) as [f0 Hq0].
    exists (S (Nat.max f0 f1)). cbn [tp].
    rewrite (tp_mono f0 (Nat.max f0 f1) _ _ _ (Nat.le_max_l _ _) Hq0).
    apply (tp_mono f1); [apply Nat.le_max_r | exact Hq1].
  - intros rest res f1 Hq1. destruct (IHDerives2 rest) as [f0 Hq0].
    rewrite <- app_assoc.
    apply (IHDerives1 (ts2 ++ rest) res (S (Nat.max f0 f1))).
    destruct (derives_F_start _ _ H0) as (x & tl & -> & Hx).
    cbn [app] in *. cbn [tp].
    destruct x; try discriminate Hx;
      (rewrite (tp_mono f0 (Nat.max f0 f1) _ _ _ (Nat.le_max_l _ _) Hq0);
       apply (tp_mono f1); [apply Nat.le_max_r | exact Hq1]).
  - intros rest res f1 Hstop Hq1.
    destruct (IHDerives rest (t, rest) 1 (term_loop_stops _ _ Hstop)) as [f0 Hq0].
    exists (S (Nat.max f0 f1)). cbn [tp].
    rewrite (tp_mono f0 (Nat.max f0 f1) _ _ _ (Nat.le_max_l _ _) Hq0).
    apply (tp_mono f1); [apply Nat.le_max_r | exact Hq1].
  - intros rest res f1 Hstop Hq1.
    destruct (IHDerives2 rest (r, rest) 1 (term_loop_stops _ _ Hstop)) as [f0 Hq0].
    rewrite <- app_assoc. cbn [app].
    apply (IHDerives1 (TColon :: ts2 ++ rest) res (S (Nat.max f0 f1)) I).
    cbn [tp].
    rewrite (tp_mono f0 (Nat.max f0 f1) _ _ _ (Nat.le_max_l _ _) Hq0).
    apply (tp_mono f1); [apply Nat.le_max_r | exact Hq1].
Qed.

Lemma derives_unique : forall ts t1 t2, Derives LE ts t1 -> Derives LE ts t2 -> t1 = t2.
Proof.
  intros ts t1 t2 D1 D2.
  destruct (tp_complete _ _ _ D1 [] (t1, []) 1 I eq_refl) as [f1 H1].
  destruct (tp_complete _ _ _ D2 [] (t2, []) 1 I eq_refl) as [f2 H2].
  apply (tp_mono f1 (Nat.max f1 f2)) in H1; [|apply Nat.le_max_l].
  apply (tp_mono f2 (Nat.max f1 f2)) in H2; [|apply Nat.le_max_r].
  rewrite H1 in H2. inversion H2. reflexivity.
Qed.

Lemma GD_to_derives : forall l ts e, GD l ts e -> exists t, Derives l ts t /\ sem_tree t = e.
Proof.
  induction 1.
  - eexists; split; [apply D_num | reflexivity].
  - eexists; split; [apply D_compl_num | reflexivity].
  - destruct IHGD as (t & D & <-). eexists; split; [apply D_compl_paren; exact D | reflexivity].
  - destruct IHGD as (t & D & <-). eexists; split; [apply D_paren; exact D | reflexivity].
  - destruct IHGD as (t & D & <-). eexists; split; [apply D_f2t; exact D | reflexivity].
  - destruct IHGD1 as (t1 & D1 & <-). destruct IHGD2 as (t2 & D2 & <-).
    eexists; split; [apply D_inter; eassumption | reflexivity].
  - destruct IHGD as (t & D & <-). eexists; split; [apply D_t2e; exact D | apply sem_tree_expr_of_term].
  - destruct IHGD1 as (t1 & D1 & <-). destruct IHGD2 as (t2 & D2 & <-).
    eexists; split; [apply D_union; eassumption | reflexivity].
Qed.

Theorem GD_unique : forall ts e1 e2, GDenotes ts e1 -> GDenotes ts e2 -> e1 = e2.
Proof.
  unfold GDenotes. intros ts e1 e2 H1 H2.
  destruct (GD_to_derives _ _ _ H1) as (t1 & D1 & <-).
  destruct (GD_to_derives _ _ _ H2) as (t2 & D2 & <-).
  rewrite (derives_unique _ _ _ D1 D2). reflexivity.
Qed.

(* ------------------------------------------------------------------ the operator setter *)
Lemma inv_set_op_union : forall a h, inv a = true -> hs_set_op a OUnion = Some h -> inv h = true.
Proof.
  intros a h Ha H. destruct a as [c p n|l nd|op l r nd]; simpl in H; inversion H; subst; clear H.
  rewrite inv_bin in *. apply andb_true_iff in Ha. destruct Ha as [Ha _]. rewrite Ha.
  destruct nd as [[[|kl] [|kr]]|]; reflexivity.
Qed.

(* setting INTERSECTION keeps the invariant exactly when no kept child is an unparenthesised union *)
Lemma inv_set_op_inter : forall a h, inv a = true -> hs_set_op a OInter = Some h ->
  inv h = match a with
          | HBin _ l r (Some (ll, rl)) => andb (lk_ok OInter l ll) (lk_ok OInter r rl)
          | _ => true
          end.
Proof.
  intros a h Ha H. destruct a as [c p n|l nd|op l r nd]; simpl in H; inversion H; subst; clear H.
  rewrite inv_bin in *. apply andb_true_iff in Ha. destruct Ha as [Ha _]. rewrite Ha.
  destruct nd as [[ll rl]|]; reflexivity.
Qed.

Definition w123 : list gtok := [TLeaf true 1; TColon; TLeaf true 2; TColon; TLeaf true 3]%Z.
Definition env1 (a : atom) : bool := match a with ASurf 1%Z => true | _ => false end.

(* "1:2:3" is read, the operator of the top node is set to INTERSECTION, the cell is written:
   the text is "1 : 2 3", which MCNP reads as 1 : (2 3), while the object is (1 : 2) 3 *)
Lemma write_setop_refuted :
  exists ts t h, Derives LE ts t /\ hs_set_op (parse_input_node t) OInter = Some h /\
    forall e, GDenotes (written_tokens h) e -> ~ beq e (sem_hs h).
Proof.
  destruct (tparse w123) as [t|] eqn:E; [|discriminate E].
  pose proof (tparse_sound _ _ E) as D.
  vm_compute in E. inversion E; subst t; clear E.
  eexists w123, _, _. split; [exact D|]. split; [reflexivity|].
  intros e He Hq.
  assert (Hg : GDenotes [TLeaf true 1; TColon; TLeaf true 2; TLeaf true 3]%Z
                 (BOr (BSurf true 1) (BAnd (BSurf true 2) (BSurf true 3)))%Z).
  { apply gparse_sound. vm_compute. reflexivity. }
  assert (e = BOr (BSurf true 1) (BAnd (BSurf true 2) (BSurf true 3)))%Z.
  { eapply GD_unique; [exact He | exact Hg]. }
  subst e. specialize (Hq env1). vm_compute in Hq. discriminate Hq.
Qed.

(* ------------------------------------------------------------------ operator programs (the wire entry) *)
Definition instr_ok (i : instr) : bool :=
  match i with ISetOp OInter => false | _ => true end.

Definition stack_inv (st : stack) : Prop := Forall (fun x => inv (fst x) = true) st.

Lemma step_inv : forall base i st st',
  (forall b, base = Some b -> inv b = true) -> instr_ok i = true ->
  stack_inv st -> step base i st = inr st' -> stack_inv st'.
Proof.
  unfold stack_inv. intros base i st st' Hb Hi Hst H.
  destruct i.
  - simpl in H. inversion H; subst. constructor; [reflexivity | exact Hst].
  - simpl in H. inversion H; subst. constructor; [reflexivity | exact Hst].
  - simpl in H. destruct base as [b|]; inversion H; subst.
    constructor; [apply Hb; reflexivity | exact Hst].
  - destruct st as [|[b fb] [|[a fa] r]]; simpl in H; try discriminate. inversion H; subst.
    inversion Hst as [|? ? Hb' Hr]; subst. inversion Hr as [|? ? Ha' Hr']; subst.
    constructor; [apply inv_and; assumption | exact Hr'].
  - destruct st as [|[b fb] [|[a fa] r]]; simpl in H; try discriminate. inversion H; subst.
    inversion Hst as [|? ? Hb' Hr]; subst. inversion Hr as [|? ? Ha' Hr']; subst.
    constructor; [apply inv_or; assumption | exact Hr'].
  - destruct st as [|[a fa] r]; simpl in H; try discriminate. inversion H; subst.
    inversion Hst as [|? ? Ha' Hr]; subst.
    constructor; [apply inv_not; assumption | exact Hr].
  - destruct st as [|[b fb] [|[a fa] r]]; simpl in H; try discriminate.
    destruct (hs_iop OInter a b) as [h same] eqn:E. inversion H; subst.
    inversion Hst as [|? ? Hb' Hr]; subst. inversion Hr as [|? ? Ha' Hr']; subst.
    constructor; [|exact Hr']. cbn [fst] in *.
    change h with (fst (h, same)). rewrite <- E. apply inv_iop; assumption.
  - destruct st as [|[b fb] [|[a fa] r]]; simpl in H; try discriminate.
    destruct (hs_iop OUnion a b) as [h same] eqn:E. inversion H; subst.
    inversion Hst as [|? ? Hb' Hr]; subst. inversion Hr as [|? ? Ha' Hr']; subst.
    constructor; [|exact Hr']. cbn [fst] in *.
    change h with (fst (h, same)). rewrite <- E. apply inv_iop; assumption.
  - destruct st as [|[b fb] [|[a fa] r]]; simpl in H; try discriminate.
    destruct (hs_set_left a b) as [h|] eqn:E; inversion H; subst.
    inversion Hst as [|? ? Hb' Hr]; subst. inversion Hr as [|? ? Ha' Hr']; subst.
    constructor; [|exact Hr']. eapply (inv_set_left a b); eauto.
  - destruct st as [|[b fb] [|[a fa] r]]; simpl in H; try discriminate.
    destruct (hs_set_right a b) as [h|] eqn:E; inversion H; subst.
    inversion Hst as [|? ? Hb' Hr]; subst. inversion Hr as [|? ? Ha' Hr']; subst.
    constructor; [|exact Hr']. eapply (inv_set_right a b); eauto.
  - destruct op; [discriminate Hi|].
    destruct st as [|[a fa] r]; simpl in H; try discriminate.
    destruct (hs_set_op a OUnion) as [h|] eqn:E; inversion H; subst.
    inversion Hst as [|? ? Ha' Hr]; subst.
    constructor; [|exact Hr]. eapply inv_set_op_union; eauto.
  - destruct st as [|[a fa] r]; simpl in H; try discriminate. inversion H; subst.
    inversion Hst as [|? ? Ha' Hr]; subst.
    constructor; [apply ensure_inv; assumption | exact Hr].
Qed.

Lemma exec_inv : forall base p st st',
  (forall b, base = Some b -> inv b = true) -> forallb instr_ok p = true ->
  stack_inv st -> exec base p st = inr st' -> stack_inv st'.
Proof.
  intros base p. induction p as [|i p IH]; intros st st' Hb Hp Hst H; simpl in *.
  - inversion H; subst. exact Hst.
  - apply andb_true_iff in Hp. destruct Hp as [Hi Hp].
    destruct (step base i st) as [e|st1] eqn:E; [discriminate|].
    apply (IH st1 st' Hb Hp); [|exact H]. eapply step_inv; eauto.
Qed.

(* every program without "operator = INTERSECTION", on any parsed cell or from scratch, writes a text that
   means what the resulting object means *)
Theorem run_case_correct : forall base p h toks,
  match base with Some t => exists ts, Derives LE ts t | None => True end ->
  forallb instr_ok p = true ->
  run_case base p = inr (h, toks) ->
  exists e, GDenotes toks e /\ beq e (sem_hs h).
Proof.
  intros base p h toks Hbase Hp H. unfold run_case in H.
  destruct (exec (option_map parse_input_node base) p []) as [e|st] eqn:E; [discriminate|].
  assert (Hst : stack_inv st).
  { eapply exec_inv; [| exact Hp | constructor | exact E].
    intros b Hb. destruct base as [t|]; simpl in Hb; inversion Hb; subst.
    destruct Hbase as [ts D]. eapply inv_parsed; eauto. }
  destruct st as [|[h0 same] [|x r]]; try discriminate. inversion H; subst.
  inversion Hst as [|? ? Hh _]; subst. cbn [fst] in Hh.
  apply (cell_write_correct (set_geometry _ h same)). exact Hh.
Qed.

(* ------------------------------------------------------------------ examples *)
Open Scope Z_scope.

(* "(1:-2) 3 #(4 5) #2" *)
Definition ex_tokens : list gtok :=
  [TLParen; TLeaf true 1; TColon; TLeaf false 2; TRParen; TLeaf true 3;
   THash; TLParen; TLeaf true 4; TLeaf true 5; TRParen; TCompl 2].
Definition ex_tree : gtree :=
  GBin OInter
    (GBin OInter
       (GBin OInter (GParen (GBin OUnion (GShift (GVal true 1)) (GVal false 2))) (GVal true 3))
       (GCompl (GParen (GBin OInter (GVal true 4) (GVal true 5)))))
    (GCompl (GVal true 2)).

Lemma ex_tparse : tparse ex_tokens = Some ex_tree.
Proof. vm_compute. reflexivity. Qed.
Lemma ex_derives : Derives LE ex_tokens ex_tree.
Proof. apply tparse_sound. exact ex_tparse. Qed.

Lemma ex_tree_to_halfspace :
  sem_tree ex_tree =
    BAnd (BAnd (BAnd (BOr (BSurf true 1) (BSurf false 2)) (BSurf true 3))
               (BNot (BAnd (BSurf true 4) (BSurf true 5)))) (BCompl 2) /\
  sem_hs (parse_input_node ex_tree) =
    BAnd (BAnd (BAnd (BOr (BSurf true 1) (BSurf false 2)) (BSurf true 3))
               (BNot (BAnd (BSurf true 4) (BSurf true 5)))) (BNot (BNot (BCompl 2))).
Proof. split; reflexivity. Qed.

Lemma ex_gparse :
  gparse [TLeaf true 1; TColon; TLeaf true 2; TLeaf false 3; THash; TLParen; TLeaf true 4; TColon; TCompl 7; TRParen]
  = Some (BOr (BSurf true 1)
              (BAnd (BAnd (BSurf true 2) (BSurf false 3)) (BNot (BOr (BSurf true 4) (BCompl 7))))).
Proof. vm_compute. reflexivity. Qed.

(* (-s1 | +s2) & -s3 from scratch: the parentheses are generated *)
Definition ex_scratch : hs := hs_and (hs_or (surf_neg 1) (surf_pos 2)) (surf_neg 3).
Lemma ex_write_scratch :
  scratch ex_scratch = true /\
  written_tokens ex_scratch = [TLParen; TLeaf false 1; TColon; TLeaf true 2; TRParen; TLeaf false 3].
Proof. split; reflexivity. Qed.

(* ~(-s1) & ~c2 & ~(s4 & (s5 | s6)) *)
Definition ex_scratch2 : hs :=
  hs_and (hs_and (hs_not (surf_neg 1)) (cell_compl 2))
         (hs_not (hs_and (surf_pos 4) (hs_or (surf_pos 5) (surf_pos 6)))).
Lemma ex_write_scratch2 :
  scratch ex_scratch2 = true /\
  written_tokens ex_scratch2 =
    [THash; TLParen; TLeaf false 1; TRParen; TCompl 2;
     THash; TLParen; TLeaf true 4; TLParen; TLeaf true 5; TColon; TLeaf true 6; TRParen; TRParen].
Proof. split; reflexivity. Qed.

(* (a | b) &= c  is  a | (b & c): the new operand is grafted on the right spine *)
Lemma ex_iand :
  sem_hs (fst (hs_iop OInter (hs_or (surf_pos 1) (surf_pos 2)) (surf_pos 3)))
  = BOr (BSurf true 1) (BAnd (BSurf true 2) (BSurf true 3)) /\
  right_spine OInter (sem_hs (hs_and (surf_pos 1) (surf_pos 2))).
Proof. split; [reflexivity | simpl; auto]. Qed.

(* a reachable object that uses every constructor: the parsed example, &= a union, right side replaced,
   written once, complemented *)
Definition ex_edited : hs :=
  match hs_set_right (fst (hs_iop OInter (parse_input_node ex_tree) (hs_or (surf_neg 7) (cell_compl 3))))
                     (hs_or (surf_pos 8) (surf_pos 9)) with
  | Some h => hs_not (update_values h)
  | None => surf_pos 0
  end.
Lemma ex_reachable : reachable ex_edited.
Proof.
  unfold ex_edited.
  destruct (hs_set_right _ _) as [h|] eqn:E; [|discriminate E].
  apply R_not. apply R_written.
  eapply R_set_right; [| | exact E].
  - apply R_iand; [eapply R_parsed; exact ex_derives | apply R_or; [apply R_surf | apply R_cell]].
  - apply R_or; apply R_surf.
Qed.
Lemma ex_edited_tokens :
  written_tokens ex_edited =
    [THash; TLParen;
       TLParen; TLeaf true 1; TColon; TLeaf false 2; TRParen; TLeaf true 3;
       THash; TLParen; TLeaf true 4; TLeaf true 5; TRParen;
       TLParen; TLeaf true 8; TColon; TLeaf true 9; TRParen;
     TRParen].
Proof. vm_compute. reflexivity. Qed.

Lemma ex_unedited : cell_tokens (parse_cell ex_tree) = ex_tokens.
Proof. reflexivity. Qed.

(* a program through the wire entry: base "(1:-2) 3", program  b p4 n5 O IA  (geometry &= (+s4 | -s5)) *)
Lemma ex_run_case :
  exists h, run_case (Some (GBin OInter (GParen (GBin OUnion (GShift (GVal true 1)) (GVal false 2))) (GVal true 3)))
           [IBase; ISurf true 4; ISurf false 5; IOr; IIand]
  = inr (h, [TLParen; TLeaf true 1; TColon; TLeaf false 2; TRParen; TLeaf true 3;
             TLParen; TLeaf true 4; TColon; TLeaf false 5; TRParen]).
Proof. eexists. vm_compute. reflexivity. Qed.
