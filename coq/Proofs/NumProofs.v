(* NumProofs.v — lemmas and proofs about the number-writing model Model/Num.v (property C05).
   Sections: 0 strings; 1 unchanged values; 2 no fusion; 3 the written number as an exact decimal;
   4 digit strings; 5 integers; 6 the first word; 7 digit generation error bounds; 8 reading %e / %f;
   9 the scientific and fixed branches of _format_float; 10 str.strip, the scanner's alphabet;
   11 float(): flog2, nearest double, 17 digits round-trip; 12 reading %g; 13 the float theorem;
   14 integer / converted nodes, int(round()), the precision loop; 15 reachable formatters;
   16 the digit generation never runs out of fuel on a double; 17 format() never raises on a double.
   No axioms, no admits. *)
From Coq Require Import List String Ascii ZArith QArith Qabs Qpower Bool Lia Lqa.
From MPV Require Import Model.Wire Model.Num.
Import ListNotations.
Open Scope string_scope.
Open Scope Z_scope.

(* ------------------------------------------------------------------------------------------ *)
(* 0. strings *)
Lemma sapp_nil_r : forall s : string, s ++ "" = s.
Proof. induction s as [|a s IH]; simpl; [reflexivity | now rewrite IH]. Qed.

Lemma sapp_assoc : forall a b c : string, (a ++ b) ++ c = a ++ (b ++ c).
Proof. induction a as [|x a IH]; intros b c; simpl; [reflexivity | now rewrite IH]. Qed.

Lemma slen_app : forall a b, slen (a ++ b) = slen a + slen b.
Proof.
  unfold slen. induction a as [|x a IH]; intros b.
  - reflexivity.
  - change (String.length (String x a ++ b)) with (S (String.length (a ++ b))).
    change (String.length (String x a)) with (S (String.length a)).
    rewrite !Nat2Z.inj_succ, IH. lia.
Qed.

Lemma slen_nonneg : forall s, 0 <= slen s.
Proof. intros; unfold slen; lia. Qed.

Lemma slen_cons : forall a s, slen (String a s) = 1 + slen s.
Proof. intros. unfold slen. change (String.length (String a s)) with (S (String.length s)). lia. Qed.

(* ------------------------------------------------------------------------------------------ *)
(* 1. an unchanged value keeps its spelling *)

Lemma d_eqb_refl : forall a, d_eqb a a = true.
Proof. intros a. unfold d_eqb. apply Z.eqb_refl. Qed.

Lemma isclose_refl : forall a, isclose a a = true.
Proof. intros a. unfold isclose. now rewrite d_eqb_refl. Qed.

(* whatever value is set: if _value_changed says "no", the token and its padding are written verbatim *)
Lemma unchanged_general : forall nd v,
  value_changed (set_value nd v) = Ok false ->
  format (set_value nd v) = Ok (tok_text (n_tok nd) ++ pad_text (pad_nodes (set_value nd v))).
Proof.
  intros nd v H. unfold format. rewrite H. reflexivity.
Qed.

Lemma set_value_pad_some : forall nd v w, n_value nd = Some w -> n_pad (set_value nd v) = n_pad nd.
Proof. intros nd v w H. unfold set_value. rewrite H. reflexivity. Qed.

(* float node: setting the value the token already has *)
Lemma unchanged_float : forall s pad np x,
  fortran_float s = Ok x ->
  render KFloat (TText s) pad np (VFlt x)
  = Ok (s ++ pad_text (match pad with Some l => l | None => [] end)).
Proof.
  intros s pad np x H. unfold render, make_node. rewrite H. cbn [bind].
  unfold format, value_changed, set_value. cbn -[isclose pad_text].
  rewrite isclose_refl. cbn -[pad_text]. reflexivity.
Qed.

(* any value that math.isclose accepts as equal to the token's value *)
Lemma unchanged_float_tolerance : forall s pad np x y,
  fortran_float s = Ok x -> isclose y x = true ->
  render KFloat (TText s) pad np (VFlt y)
  = Ok (s ++ pad_text (match pad with Some l => l | None => [] end)).
Proof.
  intros s pad np x y H C. unfold render, make_node. rewrite H. cbn [bind].
  unfold format, value_changed, set_value. cbn -[isclose pad_text].
  rewrite C. cbn -[pad_text]. reflexivity.
Qed.

(* integer node: ints are compared exactly *)
Lemma py_eq_refl : forall v, py_eq v v = true.
Proof. intros v. unfold py_eq. apply d_eqb_refl. Qed.

Lemma unchanged_int : forall s pad np n,
  py_int_of_string s = Ok n ->
  render KInt (TText s) pad np (VInt n)
  = Ok (s ++ pad_text (match pad with Some l => l | None => [] end)).
Proof.
  intros s pad np n H. unfold render, make_node. rewrite H. cbn [bind].
  unfold format, value_changed, set_value. cbn -[py_eq pad_text].
  rewrite py_eq_refl. cbn -[pad_text]. reflexivity.
Qed.

(* ------------------------------------------------------------------------------------------ *)
(* 2. no fusion: after the number comes a blank (or the newline / blanks that followed it) *)

Definition starts_ws (s : string) : bool :=
  match s with String a _ => is_ws a | EmptyString => false end.

Lemma blanks_pos_starts : forall n, 0 < n -> starts_ws (blanks n) = true.
Proof.
  intros n H. unfold blanks. destruct (Z.to_nat n) eqn:E; [lia|]. reflexivity.
Qed.

Lemma blanks_nonpos : forall n, n <= 0 -> blanks n = "".
Proof. intros n H. unfold blanks. replace (Z.to_nat n) with O by lia. reflexivity. Qed.

Lemma starts_ws_app : forall a b, starts_ws a = true -> starts_ws (a ++ b) = true.
Proof. intros [|x a] b H; [discriminate | exact H]. Qed.

Lemma starts_ws_app_nil : forall a b, a = "" -> starts_ws b = true -> starts_ws (a ++ b) = true.
Proof. intros a b -> H. exact H. Qed.

Lemma all_ws_starts : forall s, all_ws s = true -> s <> "" -> starts_ws s = true.
Proof.
  intros [|a s] H N; [congruence|]. cbn in H. apply andb_true_iff in H. apply H.
Qed.

Lemma pad_text_cons : forall p l, pad_text (p :: l) = pnode_text p ++ pad_text l.
Proof.
  intros p [|q l]; unfold pad_text; cbn.
  - now rewrite sapp_nil_r.
  - reflexivity.
Qed.

Lemma finish_no_fusion : forall nd f temp p rest,
  pad_nodes nd = p :: rest -> pnode_is_space p = true ->
  Forall (fun q => pnode_text q <> "") rest ->
  exists tail, finish nd f temp = temp ++ tail /\ starts_ws tail = true.
Proof.
  intros nd f temp p rest HP HS HN. unfold finish. rewrite HP, HS.
  unfold ljust. set (w := value_length f).
  destruct (Z_lt_le_dec (slen temp) w) as [Hlt|Hge].
  - (* the column is not full: blanks follow *)
    eexists. rewrite !sapp_assoc. split; [reflexivity|].
    apply starts_ws_app. apply blanks_pos_starts. lia.
  - rewrite (blanks_nonpos (w - slen temp)) by lia. rewrite sapp_nil_r.
    assert (Hle : (w <=? slen temp) = true) by (apply Z.leb_le; lia). rewrite Hle. cbn [andb].
    destruct rest as [|q rest'].
    + cbn [negb]. eexists. split; [reflexivity|]. reflexivity.
    + destruct (orb (pnode_is_space q)
                    (match q with PStr s => String.eqb s newline | PCom _ => false end)) eqn:Sv.
      * cbn [negb]. eexists. split; [reflexivity|]. cbn [append].
        rewrite pad_text_cons. apply starts_ws_app.
        inversion HN as [|? ? Hq _]; subst.
        apply orb_true_iff in Sv. destruct Sv as [Sv|Sv].
        -- destruct q as [s|s]; [|discriminate]. cbn in Sv. apply andb_true_iff in Sv.
           apply all_ws_starts; [apply Sv | exact Hq].
        -- destruct q as [s|s]; [|discriminate]. apply String.eqb_eq in Sv. subst s. reflexivity.
      * cbn [negb]. eexists. split; [reflexivity|]. reflexivity.
Qed.

(* ------------------------------------------------------------------------------------------ *)
(* 3. reading back what was written: the first blank-delimited word, as an exact decimal *)

(* a word ends at white space, at a '$' (comment) or at an '&' (continuation) *)
Definition is_stop (a : ascii) : bool :=
  orb (is_ws a) (orb (Ascii.eqb a "$"%char) (Ascii.eqb a "&"%char)).
Definition starts_stop (s : string) : bool :=
  match s with String a _ => is_stop a | EmptyString => false end.
Fixpoint take_word (s : string) : string :=
  match s with String a r => if is_stop a then "" else String a (take_word r) | EmptyString => "" end.
Definition first_word (s : string) : string := take_word (lstrip_ws s).
Definition written_number (s : string) : option (bool * Z * Z) := read_number (first_word s).

Definition sgnQ (neg : bool) : Q := if neg then (-1 # 1)%Q else 1%Q.
(* the exact value of a double and of a decimal (neg, M, k) = +-M * 10^k *)
Definition dval (x : dbl) : Q := (sgnQ (dneg x) * inject_Z (dman x) * (2 # 1) ^ (dexp x))%Q.
Definition decval (r : bool * Z * Z) : Q :=
  let '(neg, M, k) := r in (sgnQ neg * inject_Z M * (10 # 1) ^ k)%Q.

(* ------------------------------------------------------------------------------------------ *)
(* 4. decimal digit strings *)

Fixpoint all_digits (s : string) : bool :=
  match s with EmptyString => true | String a r => andb (is_digit a) (all_digits r) end.

Lemma digit_of_char : forall d, 0 <= d <= 9 -> digit_of (digit_char d) = Some d.
Proof.
  intros d H.
  assert (C : d = 0 \/ d = 1 \/ d = 2 \/ d = 3 \/ d = 4 \/ d = 5 \/ d = 6 \/ d = 7 \/ d = 8 \/ d = 9) by lia.
  repeat (destruct C as [C|C]; [subst d; reflexivity|]). subst d; reflexivity.
Qed.

Lemma is_digit_char : forall d, 0 <= d <= 9 -> is_digit (digit_char d) = true.
Proof. intros d H. unfold is_digit. now rewrite digit_of_char. Qed.

Lemma all_digits_app : forall a b, all_digits (a ++ b) = andb (all_digits a) (all_digits b).
Proof. induction a as [|x a IH]; intros b; cbn; [reflexivity | now rewrite IH, andb_assoc]. Qed.

Lemma digits_acc_app : forall k D acc, digits_acc k D acc = digits_fixed k D ++ acc.
Proof.
  unfold digits_fixed. induction k as [|k IH]; intros D acc.
  - reflexivity.
  - cbn [digits_acc]. rewrite IH. rewrite (IH (D / 10) (String _ "")).
    rewrite sapp_assoc. reflexivity.
Qed.

Lemma digits_fixed_S : forall k D,
  digits_fixed (S k) D = digits_fixed k (D / 10) ++ String (digit_char (D mod 10)) "".
Proof. intros. unfold digits_fixed at 1. cbn [digits_acc]. apply digits_acc_app. Qed.

Lemma mod10_range : forall D, 0 <= D mod 10 <= 9.
Proof. intros D. pose proof (Z.mod_pos_bound D 10). lia. Qed.

Lemma all_digits_fixed : forall k D, all_digits (digits_fixed k D) = true.
Proof.
  induction k as [|k IH]; intros D.
  - reflexivity.
  - rewrite digits_fixed_S, all_digits_app, IH. cbn. rewrite is_digit_char by apply mod10_range. reflexivity.
Qed.

Lemma length_app_s : forall a b : string, String.length (a ++ b) = (String.length a + String.length b)%nat.
Proof. induction a as [|x a IH]; intros b; cbn; [reflexivity | now rewrite IH]. Qed.

Lemma length_digits_fixed : forall k D, String.length (digits_fixed k D) = k.
Proof.
  induction k as [|k IH]; intros D.
  - reflexivity.
  - rewrite digits_fixed_S, length_app_s, IH. cbn. lia.
Qed.

Lemma digits_val_acc_app : forall a b acc,
  digits_val_acc (a ++ b) acc = digits_val_acc b (digits_val_acc a acc).
Proof. induction a as [|x a IH]; intros b acc; cbn; [reflexivity | now rewrite IH]. Qed.

Lemma digits_val_fixed : forall k D, 0 <= D -> digits_val (digits_fixed k D) = D mod 10 ^ Z.of_nat k.
Proof.
  unfold digits_val. induction k as [|k IH]; intros D HD.
  - cbn. now rewrite Z.mod_1_r.
  - rewrite digits_fixed_S, digits_val_acc_app, IH by (apply Z.div_pos; lia).
    cbn [digits_val_acc]. rewrite digit_of_char by apply mod10_range.
    rewrite Nat2Z.inj_succ, Z.pow_succ_r by lia.
    rewrite (Z.rem_mul_r D 10 (10 ^ Z.of_nat k)) by (try lia; apply Z.pow_pos_nonneg; lia).
    lia.
Qed.

(* number of digits *)
Lemma ndig_bound : forall f n, 0 <= n < 2 * 2 ^ Z.of_nat f -> n < 10 ^ Z.of_nat (ndig f n).
Proof.
  induction f as [|f IH]; intros n H.
  - cbn in *. lia.
  - cbn [ndig]. destruct (n <? 10) eqn:E.
    + apply Z.ltb_lt in E. cbn. lia.
    + apply Z.ltb_ge in E. rewrite Nat2Z.inj_succ, Z.pow_succ_r by lia.
      rewrite Nat2Z.inj_succ, Z.pow_succ_r in H by lia.
      assert (Hd : 0 <= n / 10 < 2 * 2 ^ Z.of_nat f).
      { split; [apply Z.div_pos; lia|]. apply Z.div_lt_upper_bound; lia. }
      specialize (IH _ Hd).
      pose proof (Z.div_mod n 10 ltac:(lia)). pose proof (Z.mod_pos_bound n 10 ltac:(lia)). lia.
Qed.

Lemma ndigits_bound : forall n, 0 <= n -> n < 10 ^ Z.of_nat (ndigits n).
Proof.
  intros n H. unfold ndigits. apply ndig_bound. split; [exact H|].
  destruct (Z.eq_dec n 0) as [->|N]; [cbn; lia|].
  rewrite Z2Nat.id by apply Z.log2_nonneg.
  pose proof (Z.log2_spec n ltac:(lia)). rewrite Z.pow_succ_r in H0 by apply Z.log2_nonneg. lia.
Qed.

Lemma ndig_pos : forall f n, (1 <= ndig f n)%nat.
Proof. destruct f; intros n; cbn; [lia | destruct (n <? 10); lia]. Qed.

Lemma digits_val_show : forall n, 0 <= n -> digits_val (show_nat_Z n) = n.
Proof.
  intros n H. unfold show_nat_Z. rewrite digits_val_fixed by exact H.
  apply Z.mod_small. split; [exact H | apply ndigits_bound; exact H].
Qed.

Lemma all_digits_show : forall n, all_digits (show_nat_Z n) = true.
Proof. intros. apply all_digits_fixed. Qed.

Lemma show_nonempty : forall n, show_nat_Z n <> "".
Proof.
  intros n E. apply (f_equal String.length) in E. unfold show_nat_Z in E.
  rewrite length_digits_fixed in E. unfold ndigits in E. pose proof (ndig_pos (Z.to_nat (Z.log2 n)) n).
  cbn in E. lia.
Qed.

Lemma all_digits_zeros : forall n, all_digits (zeros n) = true.
Proof. intros n. unfold zeros. induction (Z.to_nat n); cbn; [reflexivity | exact IHn0]. Qed.

Lemma digits_val_acc_zeros : forall n s, digits_val_acc (zeros n ++ s) 0 = digits_val_acc s 0.
Proof. intros n s. unfold zeros. induction (Z.to_nat n); cbn; [reflexivity | exact IHn0]. Qed.

Lemma span_digits_all : forall s, all_digits s = true -> span_digits s = (s, "").
Proof.
  induction s as [|a s IH]; intros H; cbn in *.
  - reflexivity.
  - apply andb_true_iff in H. destruct H as [Ha Hs]. rewrite Ha, (IH Hs). reflexivity.
Qed.

(* a non-digit stops the span *)
Definition stops (t : string) : Prop :=
  match t with EmptyString => True | String a _ => is_digit a = false end.
Lemma span_digits_app : forall s t, all_digits s = true -> stops t -> span_digits (s ++ t) = (s, t).
Proof.
  induction s as [|a s IH]; intros t H St; cbn in *.
  - destruct t as [|b t]; [reflexivity|]. cbn in St. cbn. now rewrite St.
  - apply andb_true_iff in H. destruct H as [Ha Hs]. rewrite Ha, (IH t Hs St). reflexivity.
Qed.

Lemma digit_not_sign : forall a, is_digit a = true -> is_sign a = false.
Proof.
  intros a H. unfold is_sign. destruct (Ascii.eqb a "+") eqn:E1.
  - apply Ascii.eqb_eq in E1. subst. discriminate.
  - destruct (Ascii.eqb a "-") eqn:E2; [|reflexivity]. apply Ascii.eqb_eq in E2. subst. discriminate.
Qed.

Lemma take_sign_digits : forall s, all_digits s = true -> take_sign s = (None, s).
Proof.
  intros [|a s] H; [reflexivity|]. cbn in H. apply andb_true_iff in H. destruct H as [Ha _].
  cbn. now rewrite (digit_not_sign a Ha).
Qed.

(* ------------------------------------------------------------------------------------------ *)
(* 5. integers are written exactly *)

(* the text of an integer: optional sign, digits *)
Lemma read_int_text : forall (sg : option ascii) ds,
  match sg with Some a => is_sign a = true | None => True end ->
  all_digits ds = true -> ds <> "" ->
  read_number ((match sg with Some a => String a "" | None => "" end) ++ ds)
  = Some (match sg with Some a => Ascii.eqb a "-" | None => false end, digits_val ds, 0).
Proof.
  intros sg ds Hs Hd Hn. unfold read_number, scan_number.
  assert (Ht : take_sign ((match sg with Some a => String a "" | None => "" end) ++ ds) = (sg, ds)).
  { destruct sg as [a|]; cbn.
    - now rewrite Hs.
    - apply take_sign_digits; exact Hd. }
  rewrite Ht, (span_digits_all ds Hd).
  destruct ds as [|c ds']; [congruence|]. cbn -[digits_val].
  unfold scan_neg, scan_mant, scan_k, scan_exp. cbn -[digits_val].
  rewrite sapp_nil_r. reflexivity.
Qed.

Lemma read_signed : forall a ds, is_sign a = true -> all_digits ds = true -> ds <> "" ->
  read_number (String a ds) = Some (Ascii.eqb a "-", digits_val ds, 0).
Proof. intros a ds Hs Hd Hn. exact (read_int_text (Some a) ds Hs Hd Hn). Qed.
Lemma read_unsigned : forall ds, all_digits ds = true -> ds <> "" ->
  read_number ds = Some (false, digits_val ds, 0).
Proof. intros ds Hd Hn. exact (read_int_text None ds I Hd Hn). Qed.

Definition drop_blank (s : string) : string :=
  match s with String " "%char r => r | _ => s end.

(* "{:0={sign}{width}d}".format(n), read back (after the possible leading blank of sign option " ") *)
Lemma fmt_d_exact : forall sopt width n,
  read_number (drop_blank (fmt_d sopt width n)) = Some (n <? 0, Z.abs n, 0).
Proof.
  intros sopt width n. unfold fmt_d, zfill.
  pose proof (show_nonempty (Z.abs n)) as Hne.
  pose proof (all_digits_show (Z.abs n)) as Hdb0.
  pose proof (digits_val_show (Z.abs n) ltac:(lia)) as Hvb.
  remember (show_nat_Z (Z.abs n)) as body eqn:Hb. clear Hb.
  assert (Hd : forall w, all_digits (zeros w ++ body) = true).
  { intros w. rewrite all_digits_app, all_digits_zeros. exact Hdb0. }
  assert (Hn : forall w, zeros w ++ body <> "").
  { intros w E. apply (f_equal String.length) in E. rewrite length_app_s in E.
    destruct body; [congruence | cbn in E; lia]. }
  assert (Hv : forall w, digits_val (zeros w ++ body) = Z.abs n).
  { intros w. unfold digits_val. rewrite digits_val_acc_zeros. exact Hvb. }
  unfold sign_text. destruct (n <? 0) eqn:En.
  - change ("-" ++ zeros (width - slen "-" - slen body) ++ body)
      with (String "-" (zeros (width - slen "-" - slen body) ++ body)).
    cbn [drop_blank]. rewrite read_signed; [|reflexivity|apply Hd|apply Hn]. rewrite Hv. reflexivity.
  - destruct (Ascii.eqb sopt "+") eqn:E1; [|destruct (Ascii.eqb sopt " ") eqn:E2].
    + change ("+" ++ zeros (width - slen "+" - slen body) ++ body)
        with (String "+" (zeros (width - slen "+" - slen body) ++ body)).
      cbn [drop_blank]. rewrite read_signed; [|reflexivity|apply Hd|apply Hn]. rewrite Hv. reflexivity.
    + change (" " ++ zeros (width - slen " " - slen body) ++ body)
        with (String " " (zeros (width - slen " " - slen body) ++ body)).
      cbn [drop_blank]. rewrite read_unsigned; [|apply Hd|apply Hn]. rewrite Hv. reflexivity.
    + change ("" ++ zeros (width - slen "" - slen body) ++ body)
        with (zeros (width - slen "" - slen body) ++ body).
      assert (Hdb : forall s, all_digits s = true -> drop_blank s = s).
      { intros [|a s] H; [reflexivity|]. cbn in H. apply andb_true_iff in H. destruct H as [Ha _].
        unfold drop_blank. destruct a as [[] [] [] [] [] [] [] []]; try reflexivity. discriminate. }
      rewrite Hdb by apply Hd.
      rewrite read_unsigned; [|apply Hd|apply Hn]. rewrite Hv. reflexivity.
Qed.

(* ------------------------------------------------------------------------------------------ *)
(* 6. the first word of what format() wrote *)

Fixpoint no_stop (s : string) : bool :=
  match s with EmptyString => true | String a r => andb (negb (is_stop a)) (no_stop r) end.

Lemma stop_not_ws : forall a, is_stop a = false -> is_ws a = false.
Proof. intros a H. unfold is_stop in H. apply orb_false_iff in H. apply H. Qed.

Lemma starts_ws_stop : forall t, starts_ws t = true -> starts_stop t = true.
Proof. intros [|a t] H; [discriminate|]. cbn in *. unfold is_stop. now rewrite H. Qed.

Lemma tail_ws_stop : forall t, (t = "" \/ starts_ws t = true) -> (t = "" \/ starts_stop t = true).
Proof. intros t [H|H]; [now left | right; now apply starts_ws_stop]. Qed.

Lemma take_word_app : forall s tail,
  no_stop s = true -> (tail = "" \/ starts_stop tail = true) -> take_word (s ++ tail) = s.
Proof.
  induction s as [|a s IH]; intros tail H T.
  - cbn [append]. destruct T as [->|T]; [reflexivity|]. destruct tail as [|b t]; [reflexivity|].
    cbn [starts_stop] in T. cbn [take_word]. now rewrite T.
  - cbn [no_stop] in H. apply andb_true_iff in H. destruct H as [Ha Hs]. apply negb_true_iff in Ha.
    cbn [append take_word]. rewrite Ha. now rewrite (IH tail Hs T).
Qed.

Lemma lstrip_no_stop : forall s, s <> "" -> no_stop s = true -> lstrip_ws s = s.
Proof.
  intros [|a s] N H; [congruence|]. cbn [no_stop] in H. apply andb_true_iff in H. destruct H as [Ha _].
  apply negb_true_iff in Ha. cbn [lstrip_ws]. now rewrite (stop_not_ws a Ha).
Qed.

Lemma digit_not_ws : forall a, is_digit a = true -> is_ws a = false.
Proof. intros a H. destruct a as [[] [] [] [] [] [] [] []]; try reflexivity; discriminate. Qed.

Lemma digit_not_stop : forall a, is_digit a = true -> is_stop a = false.
Proof. intros a H. destruct a as [[] [] [] [] [] [] [] []]; try reflexivity; discriminate. Qed.

Lemma all_digits_no_stop : forall s, all_digits s = true -> no_stop s = true.
Proof.
  induction s as [|a s IH]; intros H; [reflexivity|].
  cbn [all_digits] in H. apply andb_true_iff in H. destruct H as [Ha Hs].
  cbn [no_stop]. rewrite (digit_not_stop a Ha), (IH Hs). reflexivity.
Qed.

Lemma no_stop_app : forall a b, no_stop (a ++ b) = andb (no_stop a) (no_stop b).
Proof.
  induction a as [|x a IH]; intros b; [reflexivity|]. cbn [append no_stop]. now rewrite IH, andb_assoc.
Qed.

(* a text that is an optional single blank followed by a blank-free word *)
Lemma first_word_drop_blank : forall w tail,
  drop_blank w <> "" -> no_stop (drop_blank w) = true -> (tail = "" \/ starts_stop tail = true) ->
  first_word (w ++ tail) = drop_blank w.
Proof.
  intros w tail N H T. unfold first_word.
  assert (G : forall u, u <> "" -> no_stop u = true -> take_word (lstrip_ws (u ++ tail)) = u).
  { intros u Nu Hu. destruct u as [|a u]; [congruence|]. cbn [no_stop] in Hu. apply andb_true_iff in Hu.
    destruct Hu as [Ha Hu]. apply negb_true_iff in Ha. cbn [append lstrip_ws]. rewrite (stop_not_ws a Ha).
    change (String a (u ++ tail)) with (String a u ++ tail). apply take_word_app; [|exact T].
    cbn [no_stop]. now rewrite Ha, Hu. }
  destruct w as [|a w]; [cbn in N; congruence|].
  destruct (Ascii.eqb a " ") eqn:E.
  - apply Ascii.eqb_eq in E. subst a. cbn [drop_blank] in *. cbn [append lstrip_ws].
    change (is_ws " ") with true. cbn iota. apply G; assumption.
  - assert (D : drop_blank (String a w) = String a w).
    { unfold drop_blank. destruct a as [[] [] [] [] [] [] [] []]; try reflexivity. discriminate. }
    rewrite D in *. apply G; assumption.
Qed.

Lemma no_stop_fmt_d : forall sopt width n,
  drop_blank (fmt_d sopt width n) <> "" /\ no_stop (drop_blank (fmt_d sopt width n)) = true.
Proof.
  intros sopt width n. unfold fmt_d, zfill.
  pose proof (show_nonempty (Z.abs n)) as Hne.
  pose proof (all_digits_show (Z.abs n)) as Hdb0.
  remember (show_nat_Z (Z.abs n)) as body eqn:Hb. clear Hb.
  assert (Hd : forall w, no_stop (zeros w ++ body) = true).
  { intros w. apply all_digits_no_stop. rewrite all_digits_app, all_digits_zeros. exact Hdb0. }
  assert (Hn : forall w, zeros w ++ body <> "").
  { intros w E. apply (f_equal String.length) in E. rewrite length_app_s in E.
    destruct body; [congruence | cbn in E; lia]. }
  unfold sign_text. destruct (n <? 0).
  - cbn [append drop_blank]. split; [discriminate|]. cbn [no_stop]. change (is_stop "-") with false. apply Hd.
  - destruct (Ascii.eqb sopt "+"); [|destruct (Ascii.eqb sopt " ")].
    + cbn [append drop_blank]. split; [discriminate|]. cbn [no_stop]. change (is_stop "+") with false. apply Hd.
    + cbn [append drop_blank]. split; [apply Hn | apply Hd].
    + cbn [append].
      assert (Hdb : forall s, no_stop s = true -> drop_blank s = s).
      { intros [|a s] H; [reflexivity|]. cbn [no_stop] in H. apply andb_true_iff in H. destruct H as [Ha _].
        unfold drop_blank. destruct a as [[] [] [] [] [] [] [] []]; try reflexivity. discriminate. }
      rewrite Hdb by apply Hd. split; [apply Hn | apply Hd].
Qed.

(* what follows the node: nothing; or a blank string first (and no empty padding strings); or something
   that is not a blank string and starts with white space, '$' or '&' (a newline, a '$' comment) *)
Definition followed_ok (l : list pnode) : Prop :=
  l = [] \/
  (exists p rest, l = p :: rest /\ pnode_is_space p = true /\
                  Forall (fun q => pnode_text q <> "") (p :: rest)) \/
  (exists p rest, l = p :: rest /\ pnode_is_space p = false /\ starts_stop (pnode_text p) = true).

Lemma starts_stop_app : forall a b, starts_stop a = true -> starts_stop (a ++ b) = true.
Proof. intros [|x a] b H; [discriminate | exact H]. Qed.

(* what follows the number text in format()'s result *)
Lemma finish_tail : forall nd f temp, followed_ok (pad_nodes nd) ->
  exists tail, finish nd f temp = temp ++ tail /\ (tail = "" \/ starts_stop tail = true).
Proof.
  intros nd f temp [E|[(p & rest & E & S & N)|(p & rest & E & S & T)]].
  - unfold finish. rewrite E. unfold ljust. rewrite !sapp_nil_r.
    eexists. split; [reflexivity|].
    destruct (Z_lt_le_dec 0 (value_length f - slen temp)).
    + right. apply starts_ws_stop. now apply blanks_pos_starts.
    + left. now apply blanks_nonpos.
  - assert (N' : Forall (fun q => pnode_text q <> "") rest) by (inversion N; assumption).
    destruct (finish_no_fusion nd f temp p rest E S N') as (tail & H1 & H2).
    exists tail. split; [exact H1 | right; now apply starts_ws_stop].
  - unfold finish. rewrite E, S. unfold ljust. cbn [append]. rewrite sapp_assoc.
    eexists. split; [reflexivity|]. right.
    destruct (Z_lt_le_dec 0 (value_length f - slen temp)).
    + apply starts_stop_app. apply starts_ws_stop. now apply blanks_pos_starts.
    + rewrite blanks_nonpos by lia. cbn [append]. rewrite pad_text_cons. now apply starts_stop_app.
Qed.

Lemma followed_ok_pad_text : forall l, followed_ok l -> pad_text l = "" \/ starts_stop (pad_text l) = true.
Proof.
  intros l [->|[(p & rest & -> & S & N)|(p & rest & -> & S & T)]]; [now left|right|right].
  - rewrite pad_text_cons. apply starts_stop_app. apply starts_ws_stop. inversion N as [|? ? Hp _]; subst.
    destruct p as [s|s]; [|discriminate]. cbn in S. apply andb_true_iff in S. destruct S as [S _].
    apply all_ws_starts; [exact S | exact Hp].
  - rewrite pad_text_cons. now apply starts_stop_app.
Qed.

(* integer nodes: whenever format() does not take the "unchanged" short cut, the text is n *)
Lemma int_node_text : forall nd n s,
  n_isfloat nd = false ->
  value_changed (set_value nd (VInt n)) = Ok true ->
  format (set_value nd (VInt n)) = Ok s ->
  exists sopt width, s = finish (set_value nd (VInt n))
                           (match reverse_formatting (set_value nd (VInt n)) with
                            | Some f => f | None => default_fmt end)
                           (fmt_d sopt width n).
Proof.
  intros nd n s Hf Hc H. unfold format in H. rewrite Hc in H. cbn [bind negb] in H.
  assert (Hv : n_value (set_value nd (VInt n)) = Some (VInt n)) by reflexivity.
  rewrite Hv in H.
  assert (Hf' : n_isfloat (set_value nd (VInt n)) = false) by exact Hf.
  destruct (reverse_formatting (set_value nd (VInt n))) as [f|];
    unfold render_temp, can_float_to_int in H; rewrite Hf' in H; cbn in H;
    inversion H; subst s; eexists; eexists; reflexivity.
Qed.

Lemma int_node_exact : forall nd n s,
  n_isfloat nd = false ->
  value_changed (set_value nd (VInt n)) = Ok true ->
  format (set_value nd (VInt n)) = Ok s ->
  followed_ok (pad_nodes (set_value nd (VInt n))) ->
  written_number s = Some (n <? 0, Z.abs n, 0).
Proof.
  intros nd n s Hf Hc H P.
  destruct (int_node_text nd n s Hf Hc H) as (sopt & width & ->).
  destruct (finish_tail _ (match reverse_formatting (set_value nd (VInt n)) with
                            | Some f => f | None => default_fmt end) (fmt_d sopt width n) P)
    as (tail & -> & T).
  unfold written_number. destruct (no_stop_fmt_d sopt width n) as [N W].
  rewrite first_word_drop_blank by assumption. apply fmt_d_exact.
Qed.

(* the side condition is satisfiable, and the unchanged short cut is what it excludes *)
Lemma int_node_example :
  let nd := mkNode (TText "0005") false (Some (VInt 5)) (Some (VInt 5)) (Some [PStr " "]) false in
  value_changed (set_value nd (VInt 12)) = Ok true /\
  format (set_value nd (VInt 12)) = Ok "0012 ".
Proof. vm_compute. split; reflexivity. Qed.

(* ------------------------------------------------------------------------------------------ *)
(* 7. the digit generation: exact error bounds *)

Definition p10 (z : Z) : Q := ((10 # 1) ^ z)%Q.

Lemma p10_pos : forall z, (0 < p10 z)%Q.
Proof. intros. apply Qpower_0_lt. reflexivity. Qed.

Lemma p10_plus : forall a b, (p10 (a + b) == p10 a * p10 b)%Q.
Proof. intros. apply Qpower_plus. discriminate. Qed.

Lemma p10_inject : forall k, 0 <= k -> (p10 k == inject_Z (10 ^ k))%Q.
Proof. intros k H. unfold p10. rewrite (Zpower_Qpower 10 k H). reflexivity. Qed.

Lemma p10_0 : (p10 0 == 1)%Q.
Proof. reflexivity. Qed.

Lemma p10_1 : (p10 1 == 10 # 1)%Q.
Proof. reflexivity. Qed.

Lemma p10_inv : forall a, (p10 a * p10 (- a) == 1)%Q.
Proof. intros a. rewrite <- p10_plus. rewrite Z.add_opp_diag_r. reflexivity. Qed.

Lemma pow10_pos : forall k, 0 <= k -> 0 < 10 ^ k.
Proof. intros. apply Z.pow_pos_nonneg; lia. Qed.

(* round-half-even is within one half *)
Lemma rhe_bound : forall a b, 0 < b -> 2 * Z.abs (rhe a b * b - a) <= b.
Proof.
  intros a b Hb. unfold rhe.
  pose proof (Z.div_mod a b ltac:(lia)) as E. pose proof (Z.mod_pos_bound a b Hb) as R.
  set (q := a / b) in *. set (r := a mod b) in *.
  destruct (Z.compare_spec (2 * r) b) as [C|C|C]; [destruct (Z.even q)| |]; nia.
Qed.

Lemma Qhalf_le_int : forall a b : Z, (inject_Z a - (1 # 2) <= inject_Z b)%Q -> a <= b.
Proof. intros a b H. unfold Qle in H. cbn in H. lia. Qed.

Lemma Qhalf_lt_int : forall a b : Z, (inject_Z b < inject_Z a + (1 # 2))%Q -> b <= a.
Proof. intros a b H. unfold Qlt in H. cbn in H. lia. Qed.

Lemma rhe_bound_Q : forall a b, 0 < b ->
  (- inject_Z b <= (2 # 1) * (inject_Z (rhe a b) * inject_Z b - inject_Z a) <= inject_Z b)%Q.
Proof.
  intros a b Hb. pose proof (rhe_bound a b Hb) as H.
  unfold Qle, Qmult, Qminus, Qplus, Qopp, inject_Z. cbn [Qnum Qden]. split; lia.
Qed.

Lemma inj_pos : forall z, 0 < z -> (0 < inject_Z z)%Q.
Proof. intros z H. unfold Qlt. cbn. lia. Qed.

Section Digits.
  Variables n d : Z.
  Hypothesis Hn : 0 < n.
  Hypothesis Hd : 0 < d.
  (* x = n/d, given by its defining equation *)
  Variable x : Q.
  Hypothesis Hx : (x * inject_Z d == inject_Z n)%Q.

  Let Dq : (0 < inject_Z d)%Q.
  Proof. apply inj_pos. exact Hd. Qed.

  Lemma x_pos : (0 < x)%Q.
  Proof.
    assert (N : (0 < inject_Z n)%Q) by (apply inj_pos; exact Hn).
    rewrite <- Hx in N. apply (Qmult_lt_r 0 x (inject_Z d) Dq). now rewrite Qmult_0_l.
  Qed.

  (* x * 10^k compared with an integer, through the scaled integers of the model *)
  Lemma scaled_eq : forall k,
    (x * p10 k * inject_Z (if 0 <=? k then d else d * 10 ^ (- k))
     == inject_Z (if 0 <=? k then n * 10 ^ k else n))%Q.
  Proof.
    intros k. destruct (0 <=? k) eqn:E.
    - apply Z.leb_le in E. rewrite inject_Z_mult, <- (p10_inject k E), <- Hx. ring.
    - apply Z.leb_gt in E. rewrite inject_Z_mult, <- (p10_inject (- k)) by lia.
      rewrite <- Hx. transitivity (x * inject_Z d * (p10 k * p10 (- k)))%Q; [ring|].
      rewrite p10_inv. ring.
  Qed.

  Lemma scaled_den_pos : forall k, 0 < (if 0 <=? k then d else d * 10 ^ (- k)).
  Proof.
    intros k. destruct (0 <=? k) eqn:E; [exact Hd|]. apply Z.leb_gt in E.
    apply Z.mul_pos_pos; [exact Hd | apply pow10_pos; lia].
  Qed.

  Lemma q_lt_pow10_spec : forall E,
    if q_lt_pow10 n d E then (x < p10 E)%Q else (p10 E <= x)%Q.
  Proof.
    intros E. unfold q_lt_pow10.
    pose proof (scaled_eq (- E)) as S. pose proof (scaled_den_pos (- E)) as P.
    pose proof (p10_inv E) as I. pose proof (p10_pos E) as PE. pose proof (p10_pos (- E)) as PN.
    destruct (0 <=? E) eqn:E0.
    - apply Z.leb_le in E0.
      destruct (Z.eq_dec E 0) as [->|NZ].
      + cbn in S. cbn [Z.pow]. rewrite Z.mul_1_r.
        assert (S' : (x * inject_Z d == inject_Z n)%Q) by exact Hx.
        destruct (n <? d) eqn:C.
        * apply Z.ltb_lt in C. rewrite Zlt_Qlt in C. rewrite p10_0. nra.
        * apply Z.ltb_ge in C. rewrite Zle_Qle in C. rewrite p10_0. nra.
      + assert (G : (0 <=? - E) = false) by (apply Z.leb_gt; lia). rewrite G in S, P.
        rewrite Z.opp_involutive in S, P.
        assert (Pq : (0 < inject_Z (d * 10 ^ E))%Q) by (apply inj_pos; exact P).
        destruct (n <? d * 10 ^ E) eqn:C.
        * apply Z.ltb_lt in C. rewrite Zlt_Qlt in C.
          set (A := inject_Z (d * 10 ^ E)) in *. set (B := inject_Z n) in *.
          set (u := p10 E) in *. set (v := p10 (- E)) in *.
          assert (x * v < 1)%Q by nra. nra.
        * apply Z.ltb_ge in C. rewrite Zle_Qle in C.
          set (A := inject_Z (d * 10 ^ E)) in *. set (B := inject_Z n) in *.
          set (u := p10 E) in *. set (v := p10 (- E)) in *.
          assert (1 <= x * v)%Q by nra. nra.
    - apply Z.leb_gt in E0.
      assert (G : (0 <=? - E) = true) by (apply Z.leb_le; lia). rewrite G in S, P.
      assert (Pq : (0 < inject_Z d)%Q) by exact Dq.
      destruct (n * 10 ^ (- E) <? d) eqn:C.
      * apply Z.ltb_lt in C. rewrite Zlt_Qlt in C.
        set (A := inject_Z d) in *. set (B := inject_Z (n * 10 ^ (- E))) in *.
        set (u := p10 E) in *. set (v := p10 (- E)) in *.
        assert (x * v < 1)%Q by nra. nra.
      * apply Z.ltb_ge in C. rewrite Zle_Qle in C.
        set (A := inject_Z d) in *. set (B := inject_Z (n * 10 ^ (- E))) in *.
        set (u := p10 E) in *. set (v := p10 (- E)) in *.
        assert (1 <= x * v)%Q by nra. nra.
  Qed.

  Lemma find_e10_spec : forall fuel E0 E,
    find_e10 fuel n d E0 = Some E -> (p10 E <= x /\ x < p10 (E + 1))%Q.
  Proof.
    induction fuel as [|f IH]; intros E0 E H; [discriminate|].
    cbn [find_e10] in H.
    pose proof (q_lt_pow10_spec E0) as A. pose proof (q_lt_pow10_spec (E0 + 1)) as B.
    destruct (q_lt_pow10 n d E0); [apply (IH _ _ H)|].
    destruct (q_lt_pow10 n d (E0 + 1)); [|apply (IH _ _ H)].
    inversion H; subst. split; assumption.
  Qed.

  (* |R - x * 10^k| <= 1/2 *)
  Lemma scale_round_spec : forall k,
    (- (1 # 2) <= inject_Z (scale_round n d k) - x * p10 k <= 1 # 2)%Q.
  Proof.
    intros k. unfold scale_round.
    pose proof (scaled_eq k) as S. pose proof (scaled_den_pos k) as P.
    set (b := if 0 <=? k then d else d * 10 ^ (- k)) in *.
    set (a := if 0 <=? k then n * 10 ^ k else n) in *.
    assert (R : scale_round n d k = rhe a b).
    { unfold scale_round, a, b. destruct (0 <=? k); reflexivity. }
    fold (scale_round n d k). rewrite R.
    pose proof (rhe_bound_Q a b P) as [H2 H1].
    assert (Pq : (0 < inject_Z b)%Q) by (apply inj_pos; exact P).
    set (r := inject_Z (rhe a b)) in *. set (B := inject_Z b) in *. set (A := inject_Z a) in *.
    set (y := (x * p10 k)%Q) in *.
    clearbody r B A y. clear R.
    split; nra.
  Qed.

  (* the p+1 significant digits *)
  Lemma sci_digits_spec : forall p D E,
    0 <= p -> sci_digits p n d = Some (D, E) ->
    10 ^ p <= D < 10 ^ (p + 1) /\
    (- ((1 # 2) * p10 (- p) * x) <= inject_Z D * p10 (E - p) - x <= (1 # 2) * p10 (- p) * x)%Q.
  Proof.
    intros p D E Hp H. unfold sci_digits in H.
    destruct (find_e10 8 n d (est_e10 n d)) as [E1|] eqn:F; [|discriminate].
    destruct (find_e10_spec _ _ _ F) as [L U].
    pose proof (scale_round_spec (p - E1)) as [R1 R2].
    set (R := scale_round n d (p - E1)) in *.
    pose proof (p10_pos (p - E1)) as Pk. pose proof (p10_pos E1) as PE. pose proof (p10_pos (- p)) as Pp.
    pose proof (p10_pos (E1 - p)) as Pe.
    assert (K1 : (p10 E1 * p10 (p - E1) == inject_Z (10 ^ p))%Q).
    { rewrite <- p10_plus, <- p10_inject by lia. replace (E1 + (p - E1)) with p by lia. reflexivity. }
    assert (K2 : (p10 (E1 + 1) * p10 (p - E1) == inject_Z (10 ^ (p + 1)))%Q).
    { rewrite <- p10_plus, <- p10_inject by lia. replace (E1 + 1 + (p - E1)) with (p + 1) by lia. reflexivity. }
    assert (K3 : (p10 (p - E1) * p10 (E1 - p) == 1)%Q).
    { rewrite <- p10_plus. replace (p - E1 + (E1 - p)) with 0 by lia. reflexivity. }
    assert (K4 : (p10 (E1 - p) == p10 E1 * p10 (- p))%Q).
    { rewrite <- p10_plus. reflexivity. }
    assert (K5 : (p10 (E1 + 1 - p) == (10 # 1) * p10 (E1 - p))%Q).
    { replace (E1 + 1 - p) with (1 + (E1 - p)) by lia. rewrite p10_plus. reflexivity. }
    assert (K6 : (inject_Z (10 ^ (p + 1)) == (10 # 1) * inject_Z (10 ^ p))%Q).
    { rewrite Z.pow_add_r, Z.mul_comm, inject_Z_mult by lia. reflexivity. }
    (* 10^p <= R <= 10^(p+1) *)
    assert (Lo : 10 ^ p <= R).
    { apply Qhalf_le_int. set (y := (x * p10 (p - E1))%Q) in *.
      assert (inject_Z (10 ^ p) <= y)%Q by (unfold y; rewrite <- K1; nra). lra. }
    assert (Hi : R <= 10 ^ (p + 1)).
    { apply Qhalf_lt_int. set (y := (x * p10 (p - E1))%Q) in *.
      assert (y < inject_Z (10 ^ (p + 1)))%Q by (unfold y; rewrite <- K2; nra). lra. }
    (* the error, for the value R * 10^(E1-p) *)
    assert (Err : (- ((1 # 2) * p10 (- p) * x) <= inject_Z R * p10 (E1 - p) - x
                   <= (1 # 2) * p10 (- p) * x)%Q).
    { set (y := (x * p10 (p - E1))%Q) in *.
      set (s := p10 (E1 - p)) in *. set (t := p10 (p - E1)) in *.
      assert (Ey : (x == y * s)%Q).
      { unfold y. transitivity (x * (t * s))%Q; [rewrite K3; ring | ring]. }
      assert (Sx : (s <= p10 (- p) * x)%Q).
      { rewrite K4. nra. }
      set (r := inject_Z R) in *.
      assert (G : (r * s - x == (r - y) * s)%Q) by (rewrite Ey at 1; ring).
      rewrite G. split; nra. }
    destruct (R =? 10 ^ (p + 1)) eqn:C; inversion H; subst D E; clear H.
    - apply Z.eqb_eq in C. split.
      + split; [lia|]. rewrite Z.pow_add_r by lia. pose proof (pow10_pos p Hp). lia.
      + assert (V : (inject_Z (10 ^ p) * p10 (E1 + 1 - p) == inject_Z R * p10 (E1 - p))%Q).
        { rewrite C, K5, K6. ring. }
        rewrite V. exact Err.
    - apply Z.eqb_neq in C. split; [lia | exact Err].
  Qed.

  (* %.pf: the p decimals *)
  Lemma fixed_digits_spec : forall p,
    (- ((1 # 2) * p10 (- p)) <= inject_Z (scale_round n d p) * p10 (- p) - x <= (1 # 2) * p10 (- p))%Q.
  Proof.
    intros p. pose proof (scale_round_spec p) as [R1 R2]. pose proof (p10_inv p) as I.
    pose proof (p10_pos (- p)) as Pp.
    set (r := inject_Z (scale_round n d p)) in *. set (s := p10 (- p)) in *. set (t := p10 p) in *.
    assert (G : (r * s - x == (r - x * t) * s)%Q).
    { transitivity (r * s - x * (t * s))%Q; [rewrite I; ring | ring]. }
    rewrite G. split; nra.
  Qed.
End Digits.

(* ------------------------------------------------------------------------------------------ *)
(* 8. reading the text of %e and %f *)

Definition sign_str (sg : option ascii) : string := match sg with Some a => String a "" | None => "" end.
Definition dot_str (d2 : option string) : string := match d2 with Some s => "." ++ s | None => "" end.

Lemma take_sign_str : forall sg r,
  match sg with Some a => is_sign a = true | None => True end ->
  match r with String c _ => is_sign c = false | EmptyString => True end ->
  take_sign (sign_str sg ++ r) = (sg, r).
Proof.
  intros [a|] r Hs Hr; cbn.
  - now rewrite Hs.
  - destruct r as [|c r]; [reflexivity|]. cbn. now rewrite Hr.
Qed.

Lemma scan_sci_text : forall (sg : option ascii) d1 (d2 : option string) (letter : option ascii) es ed,
  match sg with Some a => is_sign a = true | None => True end ->
  all_digits d1 = true -> d1 <> "" ->
  match d2 with Some s => all_digits s = true | None => True end ->
  (letter = None \/ letter = Some "e"%char \/ letter = Some "E"%char) ->
  is_sign es = true -> all_digits ed = true -> ed <> "" ->
  scan_number letter_eEdD (sign_str sg ++ d1 ++ dot_str d2 ++ sign_str letter ++ String es ed)
  = Some (mkScan sg d1 (match d2 with Some _ => true | None => false end)
                 (match d2 with Some s => s | None => "" end) letter (Some es) ed).
Proof.
  intros sg d1 d2 letter es ed Hsg Hd1 Hn1 Hd2 Hl Hes Hed Hned.
  unfold scan_number.
  rewrite take_sign_str; [|exact Hsg|].
  2:{ destruct d1 as [|c d1']; [congruence|]. cbn in Hd1. apply andb_true_iff in Hd1.
      cbn. apply digit_not_sign. apply Hd1. }
  assert (Hes' : es = "+"%char \/ es = "-"%char).
  { unfold is_sign in Hes. apply orb_true_iff in Hes. destruct Hes as [H|H]; apply Ascii.eqb_eq in H; auto. }
  rewrite span_digits_app; [|exact Hd1|].
  2:{ destruct d2 as [s|]; cbn; [reflexivity|].
      destruct Hl as [->|[->| ->]]; cbn; try reflexivity. destruct Hes' as [-> | ->]; reflexivity. }
  assert (Hn1' : String.eqb d1 "" = false) by (apply String.eqb_neq; exact Hn1).
  assert (Hned' : String.eqb ed "" = false) by (apply String.eqb_neq; exact Hned).
  assert (Hex : forall t, span_digits (ed ++ t) = (ed, t) -> True) by auto.
  pose proof (span_digits_all ed Hed) as Sed.
  destruct d2 as [s|].
  - cbn [dot_str append]. rewrite span_digits_app; [|exact Hd2|].
    2:{ destruct Hl as [->|[->| ->]]; cbn; try reflexivity. destruct Hes' as [-> | ->]; reflexivity. }
    rewrite Hn1'. cbn [andb].
    destruct Hl as [->|[->| ->]]; cbn [sign_str append].
    + destruct Hes' as [-> | ->]; cbn; rewrite Sed, Hned'; reflexivity.
    + change (letter_eEdD "e") with true. cbn iota.
      destruct Hes' as [-> | ->]; cbn [take_sign is_sign Ascii.eqb orb]; cbn; rewrite Sed, Hned'; reflexivity.
    + change (letter_eEdD "E") with true. cbn iota.
      destruct Hes' as [-> | ->]; cbn; rewrite Sed, Hned'; reflexivity.
  - cbn [dot_str append].
    destruct Hl as [->|[->| ->]]; cbn [sign_str append].
    + destruct Hes' as [-> | ->]; cbn; rewrite Hn1', Sed, Hned'; reflexivity.
    + cbn. rewrite Hn1'. destruct Hes' as [-> | ->]; cbn; rewrite Sed, Hned'; reflexivity.
    + cbn. rewrite Hn1'. destruct Hes' as [-> | ->]; cbn; rewrite Sed, Hned'; reflexivity.
Qed.

Lemma scan_fixed_text : forall (sg : option ascii) d1 (d2 : option string),
  match sg with Some a => is_sign a = true | None => True end ->
  all_digits d1 = true -> d1 <> "" ->
  match d2 with Some s => all_digits s = true | None => True end ->
  scan_number letter_eEdD (sign_str sg ++ d1 ++ dot_str d2)
  = Some (mkScan sg d1 (match d2 with Some _ => true | None => false end)
                 (match d2 with Some s => s | None => "" end) None None "").
Proof.
  intros sg d1 d2 Hsg Hd1 Hn1 Hd2.
  unfold scan_number.
  rewrite take_sign_str; [|exact Hsg|].
  2:{ destruct d1 as [|c d1']; [congruence|]. cbn in Hd1. apply andb_true_iff in Hd1.
      cbn. apply digit_not_sign. apply Hd1. }
  rewrite span_digits_app; [|exact Hd1|].
  2:{ destruct d2 as [s|]; cbn; reflexivity. }
  assert (Hn1' : String.eqb d1 "" = false) by (apply String.eqb_neq; exact Hn1).
  destruct d2 as [s|].
  - cbn [dot_str append]. rewrite (span_digits_all s Hd2). rewrite Hn1'. reflexivity.
  - cbn [dot_str]. rewrite Hn1'. reflexivity.
Qed.

Lemma digits_val_acc_shift : forall b acc,
  digits_val_acc b acc = acc * 10 ^ slen b + digits_val_acc b 0.
Proof.
  induction b as [|c b IH]; intros acc.
  - cbn. lia.
  - cbn [digits_val_acc]. rewrite IH. rewrite (IH (0 * 10 + _)). rewrite slen_cons.
    rewrite Z.pow_add_r by (try lia; apply slen_nonneg). lia.
Qed.

Lemma digits_val_app : forall a b, digits_val (a ++ b) = digits_val a * 10 ^ slen b + digits_val b.
Proof. intros. unfold digits_val. rewrite digits_val_acc_app. apply digits_val_acc_shift. Qed.

Lemma digits_val_zeros_app : forall z s, digits_val (zeros z ++ s) = digits_val s.
Proof. intros. unfold digits_val. apply digits_val_acc_zeros. Qed.

Lemma slen_digits_fixed : forall k D, slen (digits_fixed k D) = Z.of_nat k.
Proof. intros. unfold slen. now rewrite length_digits_fixed. Qed.

Lemma slen_zeros : forall z, slen (zeros z) = Z.max z 0.
Proof.
  intros z. unfold slen, zeros.
  assert (H : forall k, String.length (repeat_char "0" k) = k) by (induction k; cbn; congruence).
  rewrite H. lia.
Qed.

(* the mantissa d0[.d1..dp] *)
Lemma mantissa_text_shape : forall p D, 0 <= p ->
  exists a r, digits_fixed (Z.to_nat (p + 1)) D = String a r /\ slen r = p /\
              mantissa_text p D = String a "" ++ dot_str (if p =? 0 then None else Some r).
Proof.
  intros p D Hp. unfold mantissa_text.
  pose proof (slen_digits_fixed (Z.to_nat (p + 1)) D) as L.
  destruct (digits_fixed (Z.to_nat (p + 1)) D) as [|a r] eqn:E.
  - cbn in L. lia.
  - exists a, r. split; [reflexivity|]. rewrite slen_cons in L. split; [lia|].
    destruct (p =? 0); reflexivity.
Qed.

Definition exp_text (ezp E : Z) : string := zeros (ezp - slen (show_nat_Z (Z.abs E))) ++ show_nat_Z (Z.abs E).

Lemma read_sci_text : forall (sg : option ascii) z p D E (letter : option ascii) ezp,
  match sg with Some a => is_sign a = true | None => True end ->
  0 <= p -> 0 <= D < 10 ^ (p + 1) ->
  (letter = None \/ letter = Some "e"%char \/ letter = Some "E"%char) ->
  read_number (sign_str sg ++ zeros z ++ mantissa_text p D ++ sign_str letter ++ exp_sign E ++ exp_text ezp E)
  = Some (match sg with Some a => Ascii.eqb a "-" | None => false end, D, E - p).
Proof.
  intros sg z p D E letter ezp Hsg Hp HD Hl.
  destruct (mantissa_text_shape p D Hp) as (a & r & Edf & Lr & ->).
  pose proof (all_digits_fixed (Z.to_nat (p + 1)) D) as AD. rewrite Edf in AD. cbn in AD.
  apply andb_true_iff in AD. destruct AD as [Aa Ar].
  assert (VD : digits_val (String a r) = D).
  { rewrite <- Edf, digits_val_fixed by lia. rewrite Z2Nat.id by lia. apply Z.mod_small. lia. }
  set (es := if E <? 0 then "-"%char else "+"%char).
  assert (Ees : exp_sign E = String es "") by (unfold exp_sign, es; destruct (E <? 0); reflexivity).
  assert (Hes : is_sign es = true) by (unfold es; destruct (E <? 0); reflexivity).
  set (ed := exp_text ezp E).
  assert (Hed : all_digits ed = true).
  { unfold ed, exp_text. rewrite all_digits_app, all_digits_zeros. apply all_digits_show. }
  assert (Hned : ed <> "").
  { unfold ed, exp_text. intros C. apply (f_equal String.length) in C. rewrite length_app_s in C.
    pose proof (show_nonempty (Z.abs E)). destruct (show_nat_Z (Z.abs E)); [congruence | cbn in C; lia]. }
  assert (Ved : digits_val ed = Z.abs E).
  { unfold ed, exp_text. rewrite digits_val_zeros_app. apply digits_val_show. lia. }
  unfold read_number.
  replace (sign_str sg ++ zeros z ++ (String a "" ++ dot_str (if p =? 0 then None else Some r)) ++
           sign_str letter ++ exp_sign E ++ ed)
    with (sign_str sg ++ (zeros z ++ String a "") ++ dot_str (if p =? 0 then None else Some r) ++
          sign_str letter ++ String es ed).
  2:{ rewrite Ees. rewrite !sapp_assoc. reflexivity. }
  rewrite scan_sci_text; try assumption.
  - unfold scan_neg, scan_mant, scan_k, scan_exp.
    cbn [s_sign s_d1 s_d2 s_edigits s_esign].
    f_equal. f_equal; [f_equal|].
    + rewrite sapp_assoc, digits_val_zeros_app.
      destruct (p =? 0) eqn:P0.
      * apply Z.eqb_eq in P0. assert (r = "") by (destruct r; [reflexivity | rewrite slen_cons in Lr; pose proof (slen_nonneg r); lia]).
        subst r. exact VD.
      * exact VD.
    + rewrite Ved. unfold es.
      destruct (p =? 0) eqn:P0.
      * apply Z.eqb_eq in P0. destruct (E <? 0) eqn:EE; [apply Z.ltb_lt in EE | apply Z.ltb_ge in EE]; cbn; lia.
      * rewrite Lr. destruct (E <? 0) eqn:EE; [apply Z.ltb_lt in EE | apply Z.ltb_ge in EE]; cbn; lia.
  - rewrite all_digits_app, all_digits_zeros. cbn. now rewrite Aa.
  - intros C. apply (f_equal String.length) in C. rewrite length_app_s in C. cbn in C. lia.
  - destruct (p =? 0); [exact I | exact Ar].
Qed.

(* "%.{p}f" *)
Lemma read_fixed_text : forall (sg : option ascii) z p D,
  match sg with Some a => is_sign a = true | None => True end ->
  0 <= p -> 0 <= D ->
  read_number (sign_str sg ++ zeros z ++
               (if p =? 0 then show_nat_Z (D / 10 ^ p)
                else show_nat_Z (D / 10 ^ p) ++ "." ++ digits_fixed (Z.to_nat p) (D mod 10 ^ p)))
  = Some (match sg with Some a => Ascii.eqb a "-" | None => false end, D, - p).
Proof.
  intros sg z p D Hsg Hp HD.
  pose proof (pow10_pos p Hp) as PP.
  set (ip := show_nat_Z (D / 10 ^ p)). set (fr := digits_fixed (Z.to_nat p) (D mod 10 ^ p)).
  assert (Hip : all_digits (zeros z ++ ip) = true).
  { rewrite all_digits_app, all_digits_zeros. apply all_digits_show. }
  assert (Nip : zeros z ++ ip <> "").
  { intros C. apply (f_equal String.length) in C. rewrite length_app_s in C.
    pose proof (show_nonempty (D / 10 ^ p)). fold ip in H. destruct ip; [congruence | cbn in C; lia]. }
  assert (Vip : digits_val (zeros z ++ ip) = D / 10 ^ p).
  { rewrite digits_val_zeros_app. apply digits_val_show. apply Z.div_pos; lia. }
  unfold read_number.
  replace (sign_str sg ++ zeros z ++ (if p =? 0 then ip else ip ++ "." ++ fr))
    with (sign_str sg ++ (zeros z ++ ip) ++ dot_str (if p =? 0 then None else Some fr)).
  2:{ destruct (p =? 0); cbn [dot_str]; rewrite ?sapp_assoc, ?sapp_nil_r; reflexivity. }
  rewrite scan_fixed_text; try assumption.
  - unfold scan_neg, scan_mant, scan_k, scan_exp. cbn [s_sign s_d1 s_d2 s_edigits s_esign].
    destruct (p =? 0) eqn:P0.
    + apply Z.eqb_eq in P0. subst p. rewrite sapp_nil_r, Vip. cbn. rewrite Z.div_1_r. reflexivity.
    + rewrite digits_val_app, Vip. unfold fr. rewrite slen_digits_fixed, Z2Nat.id by lia.
      rewrite digits_val_fixed by (apply Z.mod_pos_bound; lia). rewrite Z2Nat.id by lia.
      rewrite Z.mod_mod by lia.
      assert (A : D / 10 ^ p * 10 ^ p + D mod 10 ^ p = D)
        by (pose proof (Z.div_mod D (10 ^ p) ltac:(lia)); lia).
      rewrite A. change (digits_val "") with 0. rewrite Z.sub_0_l. reflexivity.
  - destruct (p =? 0); [exact I | apply all_digits_fixed].
Qed.

(* ------------------------------------------------------------------------------------------ *)
(* 9. float nodes: what the scientific and the fixed branch of format() write *)

Definition dabs (x : dbl) : Q := (inject_Z (dman x) * (2 # 1) ^ (dexp x))%Q.

Lemma dval_dabs : forall x, (dval x == sgnQ (dneg x) * dabs x)%Q.
Proof. intros. unfold dval, dabs. ring. Qed.

Lemma p2_inject : forall k, 0 <= k -> ((2 # 1) ^ k == inject_Z (2 ^ k))%Q.
Proof. intros k H. rewrite (Zpower_Qpower 2 k H). reflexivity. Qed.

Lemma d_frac : forall x, (dabs x * inject_Z (d_den x) == inject_Z (d_num x))%Q /\ 0 < d_den x.
Proof.
  intros x. unfold dabs, d_den, d_num. destruct (0 <=? dexp x) eqn:E.
  - apply Z.leb_le in E. split; [|lia]. rewrite inject_Z_mult, <- (p2_inject _ E). ring.
  - apply Z.leb_gt in E. split; [|apply Z.pow_pos_nonneg; lia].
    rewrite <- (p2_inject (- dexp x)) by lia.
    transitivity (inject_Z (dman x) * ((2 # 1) ^ dexp x * (2 # 1) ^ (- dexp x)))%Q; [ring|].
    rewrite <- Qpower_plus by discriminate. rewrite Z.add_opp_diag_r. cbn. ring.
Qed.

Lemma d_num_pos : forall x, 0 < dman x -> 0 < d_num x.
Proof.
  intros x H. unfold d_num. destruct (0 <=? dexp x) eqn:E; [|exact H].
  apply Z.leb_le in E. apply Z.mul_pos_pos; [exact H | apply Z.pow_pos_nonneg; lia].
Qed.

Lemma d_num_nonneg : forall x, 0 <= dman x -> 0 <= d_num x.
Proof.
  intros x H. unfold d_num. destruct (0 <=? dexp x) eqn:E; [|exact H].
  apply Z.leb_le in E. apply Z.mul_nonneg_nonneg; [exact H | apply Z.pow_nonneg; lia].
Qed.

Lemma rhe_nonneg : forall a b, 0 <= a -> 0 < b -> 0 <= rhe a b.
Proof.
  intros a b Ha Hb. unfold rhe. pose proof (Z.div_pos a b Ha Hb).
  destruct (2 * (a mod b) ?= b); [destruct (Z.even (a / b))| |]; lia.
Qed.

Lemma scale_round_nonneg : forall n d k, 0 <= n -> 0 < d -> 0 <= scale_round n d k.
Proof.
  intros n d k Hn Hd. unfold scale_round. destruct (0 <=? k) eqn:E.
  - apply Z.leb_le in E. apply rhe_nonneg; [|exact Hd].
    apply Z.mul_nonneg_nonneg; [exact Hn | apply Z.pow_nonneg; lia].
  - apply Z.leb_gt in E. apply rhe_nonneg; [exact Hn|].
    apply Z.mul_pos_pos; [exact Hd | apply Z.pow_pos_nonneg; lia].
Qed.

Lemma dabs_nonneg : forall x, 0 <= dman x -> (0 <= dabs x)%Q.
Proof.
  intros x H. unfold dabs. apply Qmult_le_0_compat.
  - unfold Qle. cbn. lia.
  - apply Qlt_le_weak. apply Qpower_0_lt. reflexivity.
Qed.

Lemma sgnQ_abs : forall b y, (Qabs (sgnQ b * y) == Qabs y)%Q.
Proof. intros b y. rewrite Qabs_Qmult. destruct b; cbn; ring. Qed.

Definition sign_opt (sopt : ascii) (neg : bool) : option ascii :=
  if neg then Some "-"%char
  else if Ascii.eqb sopt "+"%char then Some "+"%char
  else if Ascii.eqb sopt " "%char then Some " "%char
  else None.
Lemma sign_text_opt : forall sopt neg, sign_text sopt neg = sign_str (sign_opt sopt neg).
Proof.
  intros. unfold sign_text, sign_opt. destruct neg; [reflexivity|].
  destruct (Ascii.eqb sopt "+"); [reflexivity|]. destruct (Ascii.eqb sopt " "); reflexivity.
Qed.

Lemma zfill_exp_text : forall E ezp,
  ljust (zfill "" (show_nat_Z (Z.abs E)) ezp) ezp = exp_text ezp E.
Proof.
  intros E ezp. unfold ljust, zfill, exp_text. cbn [append].
  change (slen "") with 0. rewrite Z.sub_0_r.
  rewrite blanks_nonpos; [apply sapp_nil_r|].
  rewrite slen_app, slen_zeros. lia.
Qed.

(* drop_blank of the text  sign ++ rest  when rest starts with a digit *)
Lemma drop_blank_digit : forall c rest, is_digit c = true -> drop_blank (String c rest) = String c rest.
Proof.
  intros c rest H. unfold drop_blank. destruct c as [[] [] [] [] [] [] [] []]; try reflexivity. discriminate.
Qed.

(* the sign the reader sees after the possible blank of sign option " " *)
Definition read_sign (sopt : ascii) (neg : bool) : option ascii :=
  if neg then Some "-"%char else if Ascii.eqb sopt "+"%char then Some "+"%char else None.

Lemma drop_blank_signed : forall sopt neg body c rest,
  body = String c rest -> is_digit c = true ->
  drop_blank (sign_text sopt neg ++ body) = sign_str (read_sign sopt neg) ++ body /\
  match read_sign sopt neg with Some a => is_sign a = true | None => True end /\
  (match read_sign sopt neg with Some a => Ascii.eqb a "-" | None => false end) = neg.
Proof.
  intros sopt neg body c rest -> Hc. unfold sign_text, read_sign. destruct neg.
  - cbn. auto.
  - destruct (Ascii.eqb sopt "+").
    + cbn. auto.
    + destruct (Ascii.eqb sopt " ").
      * cbn [append drop_blank sign_str]. auto.
      * cbn [append sign_str]. rewrite drop_blank_digit by exact Hc. auto.
Qed.

Lemma zeros_digit_head : forall z body c rest,
  body = String c rest -> is_digit c = true ->
  exists c' rest', zeros z ++ body = String c' rest' /\ is_digit c' = true.
Proof.
  intros z body c rest -> Hc. unfold zeros. destruct (Z.to_nat z) as [|k]; cbn.
  - eauto.
  - eexists; eexists; split; [reflexivity | reflexivity].
Qed.

Lemma mantissa_head : forall p D, 0 <= p ->
  exists c rest, mantissa_text p D = String c rest /\ is_digit c = true.
Proof.
  intros p D Hp. destruct (mantissa_text_shape p D Hp) as (a & r & Edf & _ & ->).
  pose proof (all_digits_fixed (Z.to_nat (p + 1)) D) as AD. rewrite Edf in AD. cbn in AD.
  apply andb_true_iff in AD. destruct AD as [Aa _].
  cbn [append]. eauto.
Qed.

(* the scientific branch of _format_float: the text is  sign zeros d0.d1..dp divider sign exponent  and
   reads as (sign, D, E - p) for the digits (D, E) of the digit generation *)
Lemma sci_branch_read : forall f x p temp,
  is_scientific f = true -> 0 <= p ->
  exponent_length f = exponent_zero_pad f ->
  (divider f = "" \/ divider f = "e" \/ divider f = "E") ->
  0 <= dman x ->
  format_float true f x p = Ok temp ->
  exists D E, read_number (drop_blank temp) = Some (dneg x, D, E - p) /\
    (dman x = 0 /\ D = 0 \/
     0 < dman x /\ sci_digits p (d_num x) (d_den x) = Some (D, E)).
Proof.
  intros f x p temp Hs Hp Hel Hdiv Hm H.
  unfold format_float in H. cbn [negb] in H. rewrite Hs in H.
  assert (Hl : exists letter, divider f = sign_str letter /\
               (letter = None \/ letter = Some "e"%char \/ letter = Some "E"%char)).
  { destruct Hdiv as [->|[->| ->]]; [exists None | exists (Some "e"%char) | exists (Some "E"%char)]; auto. }
  destruct Hl as (letter & Dl & Hl). rewrite Dl in H.
  assert (G : forall D E, 0 <= D < 10 ^ (p + 1) ->
     Ok (sign_text (f_sign f) (dneg x) ++
               zeros (zero_padding f - slen (sign_text (f_sign f) (dneg x)) -
                      slen (mantissa_text p D ++ "e" ++ exp_sign E ++ exp_digits E)) ++
               mantissa_text p D ++ sign_str letter ++ exp_sign E ++
               ljust (zfill "" (show_nat_Z (Z.abs E)) (exponent_zero_pad f)) (exponent_length f))
     = Ok temp ->
     read_number (drop_blank temp) = Some (dneg x, D, E - p)).
  { intros D E HD HH. rewrite Hel, zfill_exp_text in HH. inversion HH; subst temp; clear HH.
    destruct (mantissa_head p D Hp) as (c & rest & Em & Hc).
    set (z := zero_padding f - _ - _).
    set (tail := sign_str letter ++ exp_sign E ++ exp_text (exponent_zero_pad f) E).
    assert (Eb : exists c' rest', zeros z ++ mantissa_text p D ++ tail = String c' rest' /\ is_digit c' = true).
    { rewrite Em. change (String c rest ++ tail) with (String c (rest ++ tail)).
      eapply zeros_digit_head; [reflexivity | exact Hc]. }
    destruct Eb as (c' & rest' & Eb & Hc').
    destruct (drop_blank_signed (f_sign f) (dneg x) _ c' rest' Eb Hc') as (Ed & Hsg & Hneg).
    rewrite Ed. unfold tail.
    rewrite (read_sci_text (read_sign (f_sign f) (dneg x)) z p D E letter (exponent_zero_pad f) Hsg Hp HD Hl).
    rewrite Hneg. reflexivity. }
  unfold e_parts in H. destruct (dman x =? 0) eqn:Z0.
  - apply Z.eqb_eq in Z0. cbn [bind] in H. exists 0, 0. split.
    + apply G; [|exact H]. split; [lia | apply pow10_pos; lia].
    + left. auto.
  - apply Z.eqb_neq in Z0.
    destruct (sci_digits p (d_num x) (d_den x)) as [[D E]|] eqn:SD; [|discriminate].
    cbn [bind] in H. exists D, E.
    destruct (d_frac x) as [Fx Dp].
    destruct (sci_digits_spec (d_num x) (d_den x) Dp (dabs x) Fx p D E Hp SD)
      as [[D1 D2] _].
    split.
    + apply G; [|exact H]. pose proof (pow10_pos p Hp). lia.
    + right. split; [lia | first [exact SD | reflexivity]].
Qed.

(* ... and its error: at most half a unit of the last digit, relative to the value *)
Lemma sci_branch_error : forall f x p temp,
  is_scientific f = true -> 0 <= p ->
  exponent_length f = exponent_zero_pad f ->
  (divider f = "" \/ divider f = "e" \/ divider f = "E") ->
  0 <= dman x ->
  format_float true f x p = Ok temp ->
  exists r, read_number (drop_blank temp) = Some r /\
    (Qabs (decval r - dval x) <= (1 # 2) * p10 (- p) * Qabs (dval x))%Q.
Proof.
  intros f x p temp Hs Hp Hel Hdiv Hm H.
  destruct (sci_branch_read f x p temp Hs Hp Hel Hdiv Hm H) as (D & E & R & C).
  exists (dneg x, D, E - p). split; [exact R|].
  unfold decval. rewrite dval_dabs.
  assert (Eq : (sgnQ (dneg x) * inject_Z D * (10 # 1) ^ (E - p) - sgnQ (dneg x) * dabs x
                == sgnQ (dneg x) * (inject_Z D * p10 (E - p) - dabs x))%Q)
    by (unfold p10; ring).
  rewrite Eq, !sgnQ_abs.
  pose proof (dabs_nonneg x Hm) as NN. rewrite (Qabs_pos (dabs x) NN).
  destruct C as [[Z0 ->]|[Pm SD]].
  - assert (A0 : (dabs x == 0)%Q) by (unfold dabs; rewrite Z0; ring).
    rewrite A0. rewrite Qmult_0_l, Qmult_0_r. cbn. unfold Qle; cbn; lia.
  - destruct (d_frac x) as [Fx Dp].
    destruct (sci_digits_spec (d_num x) (d_den x) Dp (dabs x) Fx _ D E Hp SD) as [_ B].
    apply Qabs_Qle_condition. exact B.
Qed.

(* the fixed branch *)
Lemma fixed_branch_error : forall f x p temp,
  is_scientific f = false -> as_int f = false -> 0 <= p ->
  0 <= dman x ->
  format_float true f x p = Ok temp ->
  exists r, read_number (drop_blank temp) = Some r /\
    (Qabs (decval r - dval x) <= (1 # 2) * p10 (- p))%Q.
Proof.
  intros f x p temp Hs Ha Hp Hm H.
  unfold format_float in H. cbn [negb] in H. rewrite Hs, Ha in H. inversion H; subst temp; clear H.
  unfold f_body.
  set (D := scale_round (d_num x) (d_den x) p).
  destruct (d_frac x) as [Fx Dp].
  assert (HD : 0 <= D).
  { unfold D. apply scale_round_nonneg; [apply d_num_nonneg; exact Hm | exact Dp]. }
  exists (dneg x, D, - p). split.
  - unfold zfill.
    set (body := if p =? 0 then _ else _).
    assert (Hbd : exists c rest, body = String c rest /\ is_digit c = true).
    { pose proof (show_nonempty (D / 10 ^ p)) as Ne. pose proof (all_digits_show (D / 10 ^ p)) as Ad.
      unfold body. destruct (show_nat_Z (D / 10 ^ p)) as [|c rest]; [congruence|].
      cbn in Ad. apply andb_true_iff in Ad.
      destruct (p =? 0); eexists; eexists; (split; [reflexivity | apply Ad]). }
    destruct Hbd as (c & rest & Eb & Hc).
    destruct (zeros_digit_head (zero_padding f - slen (sign_text (f_sign f) (dneg x)) - slen body) body c rest Eb Hc)
      as (c' & rest' & Ez & Hc').
    destruct (drop_blank_signed (f_sign f) (dneg x) _ c' rest' Ez Hc') as (Ed & Hsg & Hneg).
    rewrite Ed. unfold body.
    rewrite (read_fixed_text (read_sign (f_sign f) (dneg x)) _ p D Hsg Hp HD). rewrite Hneg. reflexivity.
  - unfold decval. rewrite dval_dabs.
    assert (Eq : (sgnQ (dneg x) * inject_Z D * (10 # 1) ^ (- p) - sgnQ (dneg x) * dabs x
                  == sgnQ (dneg x) * (inject_Z D * p10 (- p) - dabs x))%Q) by (unfold p10; ring).
    rewrite Eq, sgnQ_abs. apply Qabs_Qle_condition.
    exact (fixed_digits_spec (d_num x) (d_den x) Dp (dabs x) Fx p).
Qed.

(* ------------------------------------------------------------------------------------------ *)
(* 10. str.strip and the first word; what a successful scan says about the characters *)

Lemma lstrip_ws_spec : forall s, exists pre, s = pre ++ lstrip_ws s /\ all_ws pre = true /\
  match lstrip_ws s with String a _ => is_ws a = false | EmptyString => True end.
Proof.
  induction s as [|a s IH].
  - exists "". cbn. auto.
  - cbn [lstrip_ws]. destruct (is_ws a) eqn:E.
    + destruct IH as (pre & E1 & E2 & E3). exists (String a pre). cbn [append all_ws]. rewrite <- E1, E, E2. auto.
    + exists "". cbn. auto.
Qed.

Lemma rstrip_ws_spec : forall s, exists suf, s = rstrip_ws s ++ suf /\ all_ws suf = true.
Proof.
  induction s as [|a s IH].
  - exists "". auto.
  - destruct IH as (suf & E1 & E2). cbn [rstrip_ws].
    destruct (andb (is_ws a) (String.eqb (rstrip_ws s) "")) eqn:E.
    + apply andb_true_iff in E. destruct E as [Ea Er]. apply String.eqb_eq in Er.
      exists (String a suf). cbn [append all_ws]. rewrite Ea, E2. rewrite Er in E1. cbn in E1. subst s. auto.
    + exists suf. cbn [append]. rewrite <- E1. auto.
Qed.

Lemma lstrip_all_ws_app : forall pre r, all_ws pre = true -> lstrip_ws (pre ++ r) = lstrip_ws r.
Proof.
  induction pre as [|a pre IH]; intros r H; [reflexivity|].
  cbn in H. apply andb_true_iff in H. destruct H as [Ha Hp]. cbn [append lstrip_ws]. rewrite Ha. now apply IH.
Qed.

Lemma first_word_strip : forall t tail,
  strip t <> "" -> no_stop (strip t) = true -> (tail = "" \/ starts_stop tail = true) ->
  first_word (t ++ tail) = strip t.
Proof.
  intros t tail N W T. unfold first_word, strip in *.
  destruct (lstrip_ws_spec t) as (pre & E1 & E2 & _).
  destruct (rstrip_ws_spec (lstrip_ws t)) as (suf & E3 & E4).
  set (core := rstrip_ws (lstrip_ws t)) in *.
  rewrite E1 at 1. rewrite sapp_assoc, lstrip_all_ws_app by exact E2.
  rewrite E3, sapp_assoc.
  destruct core as [|c core'] eqn:EC; [congruence|].
  cbn [no_stop] in W. apply andb_true_iff in W. destruct W as [Wc W']. apply negb_true_iff in Wc.
  cbn [append lstrip_ws]. rewrite (stop_not_ws c Wc).
  change (String c (core' ++ suf ++ tail)) with (String c core' ++ (suf ++ tail)).
  apply take_word_app.
  - cbn [no_stop]. now rewrite Wc, W'.
  - destruct suf as [|b suf']; [exact T|]. right. cbn [all_ws] in E4. apply andb_true_iff in E4.
    apply starts_ws_stop. cbn. apply E4.
Qed.

Lemma span_digits_spec : forall s d t, span_digits s = (d, t) -> s = d ++ t /\ all_digits d = true.
Proof.
  induction s as [|a s IH]; intros d t H; cbn in H.
  - inversion H. auto.
  - destruct (is_digit a) eqn:E.
    + destruct (span_digits s) as [d' t'] eqn:S. inversion H; subst. destruct (IH _ _ eq_refl) as [E1 E2].
      cbn. rewrite E, E2, <- E1. auto.
    + inversion H; subst. auto.
Qed.

Lemma sign_not_ws : forall a, is_sign a = true -> is_stop a = false.
Proof.
  intros a H. unfold is_sign in H. apply orb_true_iff in H.
  destruct H as [H|H]; apply Ascii.eqb_eq in H; subst; reflexivity.
Qed.

Lemma take_sign_spec : forall s sg r, take_sign s = (sg, r) ->
  s = sign_str sg ++ r /\ match sg with Some a => is_sign a = true | None => True end.
Proof.
  intros [|a s] sg r H; cbn in H.
  - inversion H; subst. auto.
  - destruct (is_sign a) eqn:E; inversion H; subst; cbn; auto.
Qed.

Lemma no_stop_sign_str : forall sg, match sg with Some a => is_sign a = true | None => True end ->
  no_stop (sign_str sg) = true.
Proof. intros [a|] H; cbn [sign_str no_stop]; [|reflexivity]. now rewrite (sign_not_ws a H). Qed.

(* a text the scanner accepts has no white space in it and is not empty *)
Lemma scan_no_stop : forall letters s sc,
  (forall a, letters a = true -> is_stop a = false) ->
  scan_number letters s = Some sc -> no_stop s = true /\ s <> "".
Proof.
  intros letters s sc HL H. unfold scan_number in H.
  destruct (take_sign s) as [sg r0] eqn:TS. destruct (take_sign_spec _ _ _ TS) as [Es Hsg].
  destruct (span_digits r0) as [d1 r1] eqn:S1. destruct (span_digits_spec _ _ _ S1) as [E1 A1].
  assert (X : exists dot d2 r2, r1 = dot ++ d2 ++ r2 /\ no_stop dot = true /\ all_digits d2 = true /\
     (let '(dt, d2', r2') :=
        match r1 with
        | String "."%char t => let (d2, r2) := span_digits t in (true, d2, r2)
        | _ => (false, "", r1)
        end in (d2', r2') = (d2, r2))).
  { destruct r1 as [|c t].
    - exists "", "", "". cbn. auto.
    - destruct (Ascii.eqb c ".") eqn:Ec.
      + apply Ascii.eqb_eq in Ec. subst c. destruct (span_digits t) as [d2 r2] eqn:S2.
        destruct (span_digits_spec _ _ _ S2) as [E2 A2]. exists ".", d2, r2. cbn. rewrite <- E2. auto.
      + exists "", "", (String c t). split; [reflexivity|]. split; [reflexivity|]. split; [reflexivity|].
        destruct c as [[] [] [] [] [] [] [] []]; try reflexivity. discriminate. }
  destruct X as (dot & d2 & r2 & Er1 & Wdot & A2 & X).
  destruct (match r1 with
            | String "."%char t => let (d2, r2) := span_digits t in (true, d2, r2)
            | _ => (false, "", r1)
            end) as [[dt d2'] r2'] eqn:M.
  inversion X; subst d2' r2'. clear X.
  destruct (andb (String.eqb d1 "") (String.eqb d2 "")) eqn:Emp; [discriminate|].
  assert (Pre : no_stop (sign_str sg ++ d1 ++ dot ++ d2) = true).
  { rewrite !no_stop_app, no_stop_sign_str, Wdot, !all_digits_no_stop by assumption. reflexivity. }
  assert (Ne : sign_str sg ++ d1 ++ dot ++ d2 <> "").
  { intros C. apply (f_equal String.length) in C. rewrite !length_app_s in C. cbn in C.
    destruct d1; [|cbn in C; lia]. destruct d2; [|cbn in C; lia]. cbn in Emp. discriminate. }
  assert (Full : s = (sign_str sg ++ d1 ++ dot ++ d2) ++ r2).
  { rewrite Es, E1, Er1. rewrite !sapp_assoc. reflexivity. }
  assert (Done : no_stop r2 = true -> no_stop s = true /\ s <> "").
  { intros W. split.
    - rewrite Full, no_stop_app, Pre, W. reflexivity.
    - rewrite Full. intros C. apply Ne. destruct (sign_str sg ++ d1 ++ dot ++ d2); [reflexivity | discriminate]. }
  apply Done. clear Done.
  destruct r2 as [|a t]; [reflexivity|].
  destruct (letters a) eqn:La.
  - destruct (take_sign t) as [es t1] eqn:TS2. destruct (take_sign_spec _ _ _ TS2) as [Et Hes].
    destruct (span_digits t1) as [ed t2] eqn:S3. destruct (span_digits_spec _ _ _ S3) as [E3 A3].
    destruct (andb (negb (String.eqb ed "")) (String.eqb t2 "")) eqn:C; [|discriminate].
    apply andb_true_iff in C. destruct C as [_ C]. apply String.eqb_eq in C. subst t2.
    cbn [no_stop]. rewrite (HL a La). cbn [negb andb].
    rewrite Et, E3, !no_stop_app, no_stop_sign_str, all_digits_no_stop by assumption. reflexivity.
  - destruct (is_sign a) eqn:Sa; [|discriminate].
    destruct (span_digits t) as [ed t2] eqn:S3. destruct (span_digits_spec _ _ _ S3) as [E3 A3].
    destruct (andb (negb (String.eqb ed "")) (String.eqb t2 "")) eqn:C; [|discriminate].
    apply andb_true_iff in C. destruct C as [_ C]. apply String.eqb_eq in C. subst t2.
    cbn [no_stop]. rewrite (sign_not_ws a Sa). cbn [negb andb].
    rewrite E3, no_stop_app, all_digits_no_stop by assumption. reflexivity.
Qed.

Lemma letter_eE_not_ws : forall a, letter_eE a = true -> is_stop a = false.
Proof.
  intros a H. unfold letter_eE in H. apply orb_true_iff in H.
  destruct H as [H|H]; apply Ascii.eqb_eq in H; subst; reflexivity.
Qed.

Lemma letter_eE_eEdD : forall a, letter_eE a = true -> letter_eEdD a = true.
Proof. intros a H. unfold letter_eEdD. now rewrite H. Qed.

Lemma sign_not_dD : forall a, is_sign a = true -> letter_eEdD a = false.
Proof.
  intros a H. unfold is_sign in H. apply orb_true_iff in H.
  destruct H as [H|H]; apply Ascii.eqb_eq in H; subst; reflexivity.
Qed.

(* the Fortran reader reads what Python's float() reads, in the same way *)
Lemma scan_eE_eEdD : forall s sc, scan_number letter_eE s = Some sc -> scan_number letter_eEdD s = Some sc.
Proof.
  intros s sc H. unfold scan_number in *.
  destruct (take_sign s) as [sg r0]. destruct (span_digits r0) as [d1 r1].
  destruct (match r1 with
            | String "."%char t => let (d2, r2) := span_digits t in (true, d2, r2)
            | _ => (false, "", r1)
            end) as [[dt d2] r2].
  destruct (andb (String.eqb d1 "") (String.eqb d2 "")); [discriminate|].
  destruct r2 as [|a t]; [exact H|].
  destruct (letter_eE a) eqn:La.
  - rewrite (letter_eE_eEdD a La). exact H.
  - destruct (is_sign a) eqn:Sa; [|discriminate]. rewrite (sign_not_dD a Sa). exact H.
Qed.

Lemma fortran_scan_read : forall s sc, fortran_scan s = Some sc ->
  read_number s = Some (scan_neg sc, scan_mant sc, scan_k sc) /\ no_stop s = true /\ s <> "".
Proof.
  intros s sc S. unfold fortran_scan in S. split.
  - unfold read_number. now rewrite (scan_eE_eEdD s sc S).
  - exact (scan_no_stop letter_eE s sc letter_eE_not_ws S).
Qed.

(* ------------------------------------------------------------------------------------------ *)
(* 11. float(text): the nearest double; a 17 digit decimal of a double is read back as that double *)

Definition p2 (z : Z) : Q := ((2 # 1) ^ z)%Q.

Lemma p2_pos : forall z, (0 < p2 z)%Q.
Proof. intros. apply Qpower_0_lt. reflexivity. Qed.
Lemma p2_plus : forall a b, (p2 (a + b) == p2 a * p2 b)%Q.
Proof. intros. apply Qpower_plus. discriminate. Qed.
Lemma p2_inj : forall k, 0 <= k -> (p2 k == inject_Z (2 ^ k))%Q.
Proof. intros k H. unfold p2. apply p2_inject. exact H. Qed.
Lemma p2_inv : forall a, (p2 a * p2 (- a) == 1)%Q.
Proof. intros a. rewrite <- p2_plus. rewrite Z.add_opp_diag_r. reflexivity. Qed.
Lemma p2_succ : forall a, (p2 (a + 1) == (2 # 1) * p2 a)%Q.
Proof. intros a. rewrite p2_plus. change (p2 1) with (2 # 1)%Q. ring. Qed.
Lemma p2_ge1 : forall k, 0 <= k -> (1 <= p2 k)%Q.
Proof.
  intros k H. rewrite (p2_inj k H). pose proof (Z.pow_pos_nonneg 2 k ltac:(lia) H).
  unfold Qle. cbn. lia.
Qed.
Lemma p2_mono : forall a b, a <= b -> (p2 a <= p2 b)%Q.
Proof.
  intros a b H. replace b with (a + (b - a)) by lia. rewrite p2_plus.
  pose proof (p2_ge1 (b - a) ltac:(lia)). pose proof (p2_pos a). nra.
Qed.

Lemma log2_bounds_Q : forall n, 0 < n ->
  (p2 (Z.log2 n) <= inject_Z n /\ inject_Z n < (2 # 1) * p2 (Z.log2 n))%Q.
Proof.
  intros n H. pose proof (Z.log2_spec n H) as [L U]. pose proof (Z.log2_nonneg n) as NN.
  rewrite (p2_inj _ NN). rewrite Z.pow_succ_r in U by exact NN.
  split; [rewrite <- Zle_Qle; exact L|].
  setoid_replace ((2 # 1) * inject_Z (2 ^ Z.log2 n))%Q with (inject_Z (2 * 2 ^ Z.log2 n))
    by (rewrite inject_Z_mult; reflexivity).
  rewrite <- Zlt_Qlt. exact U.
Qed.

Section Rounding.
  Variables n d : Z.
  Hypothesis Hn : 0 < n.
  Hypothesis Hd : 0 < d.
  Variable t : Q.
  Hypothesis Ht : (t * inject_Z d == inject_Z n)%Q.

  Let Dq : (0 < inject_Z d)%Q.
  Proof. apply inj_pos. exact Hd. Qed.

  Lemma t_pos : (0 < t)%Q.
  Proof. exact (x_pos n d Hn Hd t Ht). Qed.

  (* floor(log2 t) *)
  Lemma flog2_q_spec : (p2 (flog2_q n d) <= t /\ t < p2 (flog2_q n d + 1))%Q.
  Proof.
    unfold flog2_q. set (L := Z.log2 n - Z.log2 d).
    destruct (log2_bounds_Q n Hn) as [N1 N2]. destruct (log2_bounds_Q d Hd) as [D1 D2].
    assert (PL : (p2 (Z.log2 n) == p2 L * p2 (Z.log2 d))%Q).
    { rewrite <- p2_plus. unfold L. replace (Z.log2 n - Z.log2 d + Z.log2 d) with (Z.log2 n) by lia. reflexivity. }
    pose proof (p2_pos L) as PLp. pose proof (p2_pos (Z.log2 d)) as PDp. pose proof t_pos as Tp.
    rewrite <- Ht in N1, N2.
    set (A := p2 L) in *. set (B := p2 (Z.log2 d)) in *. set (Dd := inject_Z d) in *.
    assert (Up : (t < (2 # 1) * A)%Q).
    { rewrite PL in N2. assert (t * Dd < (2 # 1) * A * Dd)%Q by nra. nra. }
    assert (Lo : (A < (2 # 1) * t)%Q).
    { rewrite PL in N1. assert (A * Dd < (2 # 1) * t * Dd)%Q by nra. nra. }
    (* the test decides  2^L <= t *)
    assert (Tst : if (if 0 <=? L then d * 2 ^ L <=? n else d <=? n * 2 ^ (- L)) then (A <= t)%Q else (t < A)%Q).
    { destruct (0 <=? L) eqn:EL.
      - apply Z.leb_le in EL. pose proof (p2_inj L EL) as PI. fold A in PI.
        destruct (d * 2 ^ L <=? n) eqn:C.
        + apply Z.leb_le in C. rewrite Zle_Qle, inject_Z_mult, <- PI, <- Ht in C. fold Dd in C. nra.
        + apply Z.leb_gt in C. rewrite Zlt_Qlt, inject_Z_mult, <- PI, <- Ht in C. fold Dd in C. nra.
      - apply Z.leb_gt in EL. pose proof (p2_inj (- L) ltac:(lia)) as PI. pose proof (p2_inv L) as IV. fold A in IV.
        pose proof (p2_pos (- L)) as PN.
        destruct (d <=? n * 2 ^ (- L)) eqn:C.
        + apply Z.leb_le in C. rewrite Zle_Qle, inject_Z_mult, <- PI, <- Ht in C. fold Dd in C.
          set (V := p2 (- L)) in *. assert (Dd * A <= t * Dd * (A * V))%Q by nra. rewrite IV in H. nra.
        + apply Z.leb_gt in C. rewrite Zlt_Qlt, inject_Z_mult, <- PI, <- Ht in C. fold Dd in C.
          set (V := p2 (- L)) in *. assert (t * Dd * (A * V) < Dd * A)%Q by nra. rewrite IV in H. nra. }
    destruct (if 0 <=? L then d * 2 ^ L <=? n else d <=? n * 2 ^ (- L)).
    - rewrite p2_succ. fold A. split; [exact Tst | exact Up].
    - replace (L - 1 + 1) with L by lia. fold A. split; [|exact Tst].
      assert (E : (A == (2 # 1) * p2 (L - 1))%Q).
      { unfold A. rewrite <- p2_succ. replace (L - 1 + 1) with L by lia. reflexivity. }
      pose proof (p2_pos (L - 1)). nra.
  Qed.
End Rounding.

(* round-half-even gives a nearest integer *)
Lemma rhe_nearest : forall a b j, 0 < b -> Z.abs (rhe a b * b - a) <= Z.abs (j * b - a).
Proof.
  intros a b j Hb. pose proof (rhe_bound a b Hb) as H. set (q := rhe a b) in *.
  destruct (Z_lt_le_dec j q) as [C|C]; [|destruct (Z.eq_dec j q) as [->|N]; [lia|]]; nia.
Qed.

Lemma Qabs_inject : forall z, (Qabs (inject_Z z) == inject_Z (Z.abs z))%Q.
Proof. intros z. unfold Qabs, inject_Z. cbn. reflexivity. Qed.

(* the scaled fraction a/b = t / 2^e of round_core *)
Section Nearest.
  Variables n d : Z.
  Hypothesis Hn : 0 < n.
  Hypothesis Hd : 0 < d.
  Variable t : Q.
  Hypothesis Ht : (t * inject_Z d == inject_Z n)%Q.

  Lemma round_core_scaled : forall e,
    let a := if 0 <=? e then n else n * 2 ^ (- e) in
    let b := if 0 <=? e then d * 2 ^ e else d in
    0 < b /\ (t * inject_Z b == inject_Z a * p2 e)%Q.
  Proof.
    intros e. destruct (0 <=? e) eqn:E; cbn zeta.
    - apply Z.leb_le in E. split; [apply Z.mul_pos_pos; [exact Hd | apply Z.pow_pos_nonneg; lia]|].
      rewrite inject_Z_mult, <- (p2_inj e E), <- Ht. ring.
    - apply Z.leb_gt in E. split; [exact Hd|].
      rewrite inject_Z_mult, <- (p2_inj (- e)) by lia. rewrite <- Ht.
      transitivity (t * inject_Z d * (p2 (- e) * p2 e))%Q; [|ring].
      rewrite Qmult_comm with (x := p2 (- e)). rewrite p2_inv. ring.
  Qed.

  (* among the multiples of 2^e, m * 2^e is a nearest one to t *)
  Lemma round_core_multiple : forall m e j,
    round_core n d = (m, e) ->
    (Qabs (inject_Z m * p2 e - t) <= Qabs (inject_Z j * p2 e - t))%Q.
  Proof.
    intros m e j H. unfold round_core in H.
    set (lg := flog2_q n d) in *. inversion H as [[Hm He]]. clear H.
    set (e0 := Z.max (lg - 52) (-1074)) in *.
    destruct (round_core_scaled e0) as [Pb Eq].
    set (a := if 0 <=? e0 then n else n * 2 ^ (- e0)) in *.
    set (b := if 0 <=? e0 then d * 2 ^ e0 else d) in *.
    assert (Rm : (if 0 <=? e0 then rhe n (d * 2 ^ e0) else rhe (n * 2 ^ (- e0)) d) = rhe a b).
    { unfold a, b. destruct (0 <=? e0); reflexivity. }
    rewrite Rm.
    pose proof (rhe_nearest a b j Pb) as NZ.
    (* |k * 2^e - t| = |k b - a| * 2^e / b *)
    assert (G : forall k, (Qabs (inject_Z k * p2 e0 - t) * inject_Z b == inject_Z (Z.abs (k * b - a)) * p2 e0)%Q).
    { intros k. rewrite <- Qabs_inject.
      assert (Pq : (0 < inject_Z b)%Q) by (apply inj_pos; exact Pb).
      rewrite <- (Qabs_pos (inject_Z b)) at 1 by (apply Qlt_le_weak; exact Pq).
      rewrite <- (Qabs_pos (p2 e0)) at 2 by (apply Qlt_le_weak; apply p2_pos).
      rewrite <- !Qabs_Qmult. apply Qabs_wd.
      unfold Zminus. rewrite inject_Z_plus, inject_Z_opp, inject_Z_mult.
      transitivity (inject_Z k * p2 e0 * inject_Z b - t * inject_Z b)%Q; [ring|]. rewrite Eq. ring. }
    pose proof (G (rhe a b)) as G1. pose proof (G j) as G2.
    assert (Pq : (0 < inject_Z b)%Q) by (apply inj_pos; exact Pb).
    pose proof (p2_pos e0) as P0.
    rewrite Zle_Qle in NZ.
    set (u := Qabs (inject_Z (rhe a b) * p2 e0 - t)) in *. set (v := Qabs (inject_Z j * p2 e0 - t)) in *.
    set (B := inject_Z b) in *. set (s := p2 e0) in *.
    set (zu := inject_Z (Z.abs (rhe a b * b - a))) in *. set (zv := inject_Z (Z.abs (j * b - a))) in *.
    assert (u * B <= v * B)%Q by (rewrite G1, G2; nra). nra.
  Qed.

  Lemma round_core_exp : forall m e, round_core n d = (m, e) ->
    e = Z.max (flog2_q n d - 52) (-1074).
  Proof. intros m e H. unfold round_core in H. inversion H. reflexivity. Qed.
End Nearest.

Definition delta17 : Q := ((1 # 2) * p10 (- 16))%Q.

Lemma Z_of_Q_small : forall a b : Z, (Qabs (inject_Z a - inject_Z b) < 1)%Q -> a = b.
Proof.
  intros a b H. apply Qabs_Qlt_condition in H. destruct H as [H1 H2].
  unfold Qlt, Qminus, Qplus, Qopp, inject_Z in *. cbn in *. lia.
Qed.

Section NearDouble.
  Variables n d : Z.
  Hypothesis Hn : 0 < n.
  Hypothesis Hd : 0 < d.
  Variable t : Q.
  Hypothesis Ht : (t * inject_Z d == inject_Z n)%Q.

  (* t within half a unit of the 17th significant digit of a double x: float(t) = x *)
  Lemma round_near_double : forall m e mx ex,
    round_core n d = (m, e) ->
    0 <= mx < 2 ^ 53 -> -1074 <= ex ->
    (Qabs (t - inject_Z mx * p2 ex) <= delta17 * (inject_Z mx * p2 ex))%Q ->
    (inject_Z m * p2 e == inject_Z mx * p2 ex)%Q.
  Proof.
    intros m e mx ex H Hmx Hex Hc.
    pose proof (t_pos n d Hn Hd t Ht) as Tp.
    destruct (flog2_q_spec n d Hn Hd t Ht) as [L1 L2].
    pose proof (round_core_exp n d m e H) as He.
    set (lg := flog2_q n d) in *. clearbody lg.
    apply Qabs_Qle_condition in Hc. destruct Hc as [C1 C2].
    unfold delta17 in C1, C2. change (p10 (- 16)) with (1 # 10000000000000000)%Q in C1, C2.
    pose proof (p2_pos ex) as Pex. pose proof (p2_pos e) as Pe.
    change (2 ^ 53) with 9007199254740992 in Hmx.
    assert (MX : (0 <= inject_Z mx <= inject_Z 9007199254740991)%Q).
    { unfold Qle, inject_Z; cbn; lia. }
    change (inject_Z 9007199254740991) with (9007199254740991 # 1)%Q in MX.
    destruct (Z_le_gt_dec e ex) as [Le|Gt].
    - (* x is a multiple of 2^e *)
      set (j := mx * 2 ^ (ex - e)).
      assert (Ej : (inject_Z j * p2 e == inject_Z mx * p2 ex)%Q).
      { unfold j. rewrite inject_Z_mult, <- (p2_inj (ex - e)) by lia.
        rewrite <- Qmult_assoc, <- p2_plus. replace (ex - e + e) with ex by lia. reflexivity. }
      pose proof (round_core_multiple n d Hd t Ht m e j H) as Near.
      rewrite Ej in Near. rewrite <- Ej in *. clearbody j.
      assert (Up : (t < (9007199254740992 # 1) * p2 e)%Q).
      { assert (p2 (lg + 1) <= p2 (e + 53))%Q by (apply p2_mono; clear - He; lia).
        rewrite (p2_plus e 53) in H0. change (p2 53) with (9007199254740992 # 1)%Q in H0. lra. }
      set (s := p2 e) in *. set (J := inject_Z j) in *. set (M := inject_Z m) in *.
      assert (N2 : (Qabs (M * s - t) <= (1 # 20000000000000000) * (J * s))%Q).
      { eapply Qle_trans; [exact Near|]. apply Qabs_Qle_condition. split; nra. }
      apply Qabs_Qle_condition in N2. destruct N2 as [N1 N2].
      assert (Jb : (J * (19999999999999999 # 20000000000000000) < 9007199254740992 # 1)%Q).
      { assert (J * s * (19999999999999999 # 20000000000000000) < (9007199254740992 # 1) * s)%Q by nra. nra. }
      assert (Jn : (0 <= J)%Q).
      { assert (0 <= J * s)%Q by nra. nra. }
      assert (Sm : (Qabs (M - J) < 1)%Q).
      { apply Qabs_Qlt_condition. split.
        - assert (- (J * s * (1 # 10000000000000000)) <= (M - J) * s)%Q by nra.
          assert (- (1) < M - J)%Q; [|lra]. nra.
        - assert ((M - J) * s <= J * s * (1 # 10000000000000000))%Q by nra.
          assert (M - J < 1)%Q; [|lra]. nra. }
      apply Z_of_Q_small in Sm. unfold M, J. rewrite Sm. reflexivity.
    - (* x is below the binade of t: impossible *)
      exfalso.
      assert (E1 : e = lg - 52) by (clear - He Gt Hex; lia).
      assert (T1 : (p2 (e + 52) <= t)%Q) by (replace (e + 52) with lg by (clear - E1; lia); exact L1).
      assert (T2 : ((9007199254740992 # 1) * p2 ex <= p2 (e + 52))%Q).
      { replace (e + 52) with (ex + (e + 52 - ex)) by (clear; lia). rewrite p2_plus.
        assert (p2 53 <= p2 (e + 52 - ex))%Q by (apply p2_mono; clear - Gt; lia).
        change (p2 53) with (9007199254740992 # 1)%Q in H0. nra. }
      set (X := (inject_Z mx * p2 ex)%Q) in *.
      assert (X1 : (X <= (9007199254740991 # 1) * p2 ex)%Q) by (unfold X; nra).
      assert (X2 : (X * (9007199254740992 # 1) <= (9007199254740991 # 1) * t)%Q) by nra.
      assert (X3 : (t <= X * (20000000000000001 # 20000000000000000))%Q) by lra.
      nra.
  Qed.
End NearDouble.

(* a finite IEEE double: 53 bit significand, exponent not below the subnormal one, below 2^1024 *)
Definition is_double (x : dbl) : Prop :=
  0 <= dman x < 2 ^ 53 /\ -1074 <= dexp x /\ (dabs x < p2 1024)%Q.

Lemma dec_frac : forall M k,
  0 < dec_den k /\ (inject_Z M * p10 k * inject_Z (dec_den k) == inject_Z (dec_num M k))%Q.
Proof.
  intros M k. unfold dec_den, dec_num. destruct (0 <=? k) eqn:E.
  - apply Z.leb_le in E. split; [lia|]. rewrite inject_Z_mult, <- (p10_inject k E). ring.
  - apply Z.leb_gt in E. split; [apply pow10_pos; lia|].
    rewrite <- (p10_inject (- k)) by lia. rewrite <- Qmult_assoc, p10_inv. ring.
Qed.

Lemma mk_round_near_double : forall neg M k x,
  is_double x -> 0 < dman x ->
  (Qabs (inject_Z M * p10 k - dabs x) <= delta17 * dabs x)%Q ->
  exists y, mk_round neg (dec_num M k) (dec_den k) = Some y /\ dneg y = neg /\ 0 <= dman y /\
            (dabs y == dabs x)%Q.
Proof.
  intros neg M k x (Hm & He & Hf) Pm Hc.
  destruct (dec_frac M k) as [Dp Fr].
  set (t := (inject_Z M * p10 k)%Q) in *.
  assert (Xp : (0 < dabs x)%Q).
  { unfold dabs. apply Qmult_lt_0_compat; [apply inj_pos; exact Pm | apply Qpower_0_lt; reflexivity]. }
  assert (Tp : (0 < t)%Q).
  { pose proof Hc as Hc'. apply Qabs_Qle_condition in Hc'. destruct Hc' as [C1 _].
    unfold delta17 in C1. change (p10 (- 16)) with (1 # 10000000000000000)%Q in C1. nra. }
  assert (Np : 0 < dec_num M k).
  { assert (0 < inject_Z (dec_num M k))%Q; [|unfold Qlt in H; cbn in H; lia].
    rewrite <- Fr. apply Qmult_lt_0_compat; [exact Tp | apply inj_pos; exact Dp]. }
  destruct (round_core (dec_num M k) (dec_den k)) as [m e] eqn:RC.
  assert (Eq : (inject_Z m * p2 e == dabs x)%Q).
  { unfold dabs. fold (p2 (dexp x)).
    apply (round_near_double (dec_num M k) (dec_den k) Np Dp t Fr m e (dman x) (dexp x) RC); try assumption; try lia. }
  assert (Mn : 0 <= m).
  { assert (0 < inject_Z m)%Q; [|unfold Qlt in H; cbn in H; lia].
    pose proof (p2_pos e). rewrite <- Eq in Xp.
    destruct (Qlt_le_dec 0 (inject_Z m)) as [G|G]; [exact G|]. exfalso. nra. }
  exists (mkD neg m e). unfold mk_round, round_dbl.
  assert (Nz : (dec_num M k =? 0) = false) by (apply Z.eqb_neq; lia). rewrite Nz, RC.
  assert (NoOv : andb (0 <=? e) (2 ^ 1024 <=? m * 2 ^ e) = false).
  { destruct (0 <=? e) eqn:E0; [|reflexivity]. apply Z.leb_le in E0. cbn [andb]. apply Z.leb_gt.
    rewrite <- Eq in Hf. rewrite (p2_inj e E0), (p2_inj 1024) in Hf by lia.
    rewrite <- inject_Z_mult, <- Zlt_Qlt in Hf. exact Hf. }
  rewrite NoOv. cbn. repeat split; try assumption; try reflexivity.
Qed.

Lemma d_eqb_of_Q : forall a b,
  dneg a = dneg b -> (dabs a == dabs b)%Q -> d_eqb a b = true.
Proof.
  intros a b Hs Hq. unfold d_eqb, d_scaled. rewrite Hs.
  set (mn := Z.min (dexp a) (dexp b)).
  assert (E : dman a * 2 ^ (dexp a - mn) = dman b * 2 ^ (dexp b - mn)).
  { apply inject_Z_injective. rewrite !inject_Z_mult, <- !p2_inj by lia.
    unfold dabs in Hq. fold (p2 (dexp a)) (p2 (dexp b)) in Hq.
    unfold Zminus. rewrite !p2_plus, !Qmult_assoc, Hq. reflexivity. }
  rewrite E. apply Z.eqb_refl.
Qed.

Lemma isclose_of_Q : forall a b,
  dneg a = dneg b -> (dabs a == dabs b)%Q -> isclose a b = true.
Proof. intros a b Hs Hq. unfold isclose. now rewrite (d_eqb_of_Q a b Hs Hq). Qed.

(* ------------------------------------------------------------------------------------------ *)
(* 12. reading the text of %g *)

Lemma rstrip_zeros_spec : forall s, all_digits s = true ->
  exists j, 0 <= j /\ s = rstrip_zeros s ++ zeros j /\ all_digits (rstrip_zeros s) = true.
Proof.
  induction s as [|a s IH]; intros H.
  - exists 0. split; [lia|]. split; reflexivity.
  - cbn in H. apply andb_true_iff in H. destruct H as [Ha Hs].
    destruct (IH Hs) as (j & J0 & E & A). cbn [rstrip_zeros].
    destruct (andb (Ascii.eqb a "0") (String.eqb (rstrip_zeros s) "")) eqn:C.
    + apply andb_true_iff in C. destruct C as [C1 C2]. apply Ascii.eqb_eq in C1. apply String.eqb_eq in C2.
      subst a. rewrite C2 in E. cbn in E. exists (j + 1). split; [lia|]. split; [|reflexivity].
      cbn [append]. rewrite E at 1. unfold zeros. replace (Z.to_nat (j + 1)) with (S (Z.to_nat j)) by lia.
      reflexivity.
    + exists j. split; [exact J0|]. split.
      * cbn [append]. now rewrite <- E.
      * cbn. now rewrite Ha, A.
Qed.

Lemma digits_val_zeros : forall j, digits_val (zeros j) = 0.
Proof. intros j. rewrite <- (sapp_nil_r (zeros j)). rewrite digits_val_zeros_app. reflexivity. Qed.

Lemma digits_val_app_zeros : forall f j, 0 <= j -> digits_val (f ++ zeros j) = digits_val f * 10 ^ j.
Proof.
  intros f j H. rewrite digits_val_app, digits_val_zeros, slen_zeros. replace (Z.max j 0) with j by lia. lia.
Qed.

Definition neg_flag (sg : option ascii) : bool := match sg with Some a => Ascii.eqb a "-" | None => false end.

Lemma p10_cancel : forall j, (inject_Z (10 ^ j) * p10 (- j) == 1)%Q \/ j < 0.
Proof.
  intros j. destruct (Z_lt_le_dec j 0); [now right|left].
  rewrite <- (p10_inject j) by lia. apply p10_inv.
Qed.

(* ip[.frac] with the trailing zeros of frac removed, no exponent *)
Lemma read_with_frac : forall (sg : option ascii) z ip frac,
  match sg with Some a => is_sign a = true | None => True end ->
  all_digits ip = true -> ip <> "" -> all_digits frac = true ->
  exists M k, read_number (sign_str sg ++ zeros z ++ with_frac ip frac) = Some (neg_flag sg, M, k) /\
     (inject_Z M * p10 k == inject_Z (digits_val (ip ++ frac)) * p10 (- slen frac))%Q.
Proof.
  intros sg z ip frac Hsg Hip Nip Hfr.
  destruct (rstrip_zeros_spec frac Hfr) as (j & J0 & Ef & Af).
  set (f := rstrip_zeros frac) in *.
  set (d2 := if String.eqb f "" then None else Some f).
  assert (Tx : sign_str sg ++ zeros z ++ with_frac ip frac = sign_str sg ++ (zeros z ++ ip) ++ dot_str d2).
  { unfold with_frac, d2. fold f. destruct (String.eqb f ""); cbn [dot_str]; rewrite ?sapp_assoc, ?sapp_nil_r; reflexivity. }
  assert (D2 : match d2 with Some s => s | None => "" end = f).
  { unfold d2. destruct (String.eqb f "") eqn:E; [apply String.eqb_eq in E; now rewrite E | reflexivity]. }
  exists (digits_val (ip ++ f)), (- slen f). split.
  - unfold read_number. rewrite Tx, scan_fixed_text.
    + unfold scan_neg, scan_mant, scan_k, scan_exp, neg_flag. cbn [s_sign s_d1 s_d2 s_edigits s_esign].
      rewrite D2, sapp_assoc, digits_val_zeros_app. reflexivity.
    + exact Hsg.
    + rewrite all_digits_app, all_digits_zeros. exact Hip.
    + intros C. apply (f_equal String.length) in C. rewrite length_app_s in C. destruct ip; [congruence | cbn in C; lia].
    + unfold d2. destruct (String.eqb f ""); [exact I | exact Af].
  - rewrite Ef. rewrite <- sapp_assoc, digits_val_app_zeros by exact J0.
    rewrite slen_app, slen_zeros. replace (Z.max j 0) with j by lia.
    rewrite inject_Z_mult. replace (- (slen f + j)) with (- slen f + - j) by lia. rewrite p10_plus.
    destruct (p10_cancel j) as [C|C]; [|lia].
    transitivity (inject_Z (digits_val (ip ++ f)) * p10 (- slen f) * (inject_Z (10 ^ j) * p10 (- j)))%Q; [|ring].
    rewrite C. ring.
Qed.

Lemma exp_digits_props : forall E,
  all_digits (exp_digits E) = true /\ exp_digits E <> "" /\ digits_val (exp_digits E) = Z.abs E.
Proof.
  intros E. unfold exp_digits. pose proof (all_digits_show (Z.abs E)) as A.
  pose proof (show_nonempty (Z.abs E)) as N. pose proof (digits_val_show (Z.abs E) ltac:(lia)) as V.
  destruct (Z.abs E <? 10).
  - split; [|split].
    + cbn. exact A.
    + discriminate.
    + change ("0" ++ show_nat_Z (Z.abs E)) with (zeros 1 ++ show_nat_Z (Z.abs E)).
      rewrite digits_val_zeros_app. exact V.
  - auto.
Qed.

(* a[.frac]e+XX with the trailing zeros of frac removed *)
Lemma read_with_frac_sci : forall (sg : option ascii) z a frac E,
  match sg with Some c => is_sign c = true | None => True end ->
  is_digit a = true -> all_digits frac = true ->
  exists M k, read_number (sign_str sg ++ zeros z ++ with_frac (String a "") frac ++ "e" ++ exp_sign E ++ exp_digits E)
              = Some (neg_flag sg, M, k) /\
     (inject_Z M * p10 k == inject_Z (digits_val (String a frac)) * p10 (E - slen frac))%Q.
Proof.
  intros sg z a frac E Hsg Ha Hfr.
  destruct (rstrip_zeros_spec frac Hfr) as (j & J0 & Ef & Af).
  set (f := rstrip_zeros frac) in *.
  set (d2 := if String.eqb f "" then None else Some f).
  destruct (exp_digits_props E) as (Aed & Ned & Ved).
  set (es := if E <? 0 then "-"%char else "+"%char).
  assert (Ees : exp_sign E = String es "") by (unfold exp_sign, es; destruct (E <? 0); reflexivity).
  assert (Hes : is_sign es = true) by (unfold es; destruct (E <? 0); reflexivity).
  assert (Tx : sign_str sg ++ zeros z ++ with_frac (String a "") frac ++ "e" ++ exp_sign E ++ exp_digits E
               = sign_str sg ++ (zeros z ++ String a "") ++ dot_str d2 ++ sign_str (Some "e"%char) ++ String es (exp_digits E)).
  { unfold with_frac, d2. fold f. rewrite Ees.
    destruct (String.eqb f ""); cbn [dot_str sign_str]; rewrite ?sapp_assoc; reflexivity. }
  assert (D2 : match d2 with Some s => s | None => "" end = f).
  { unfold d2. destruct (String.eqb f "") eqn:E0; [apply String.eqb_eq in E0; now rewrite E0 | reflexivity]. }
  exists (digits_val (String a f)), (E - slen f). split.
  - unfold read_number. rewrite Tx, scan_sci_text; try assumption.
    + unfold scan_neg, scan_mant, scan_k, scan_exp, neg_flag. cbn [s_sign s_d1 s_d2 s_edigits s_esign].
      rewrite D2, Ved, sapp_assoc, digits_val_zeros_app. cbn [append].
      f_equal. f_equal. unfold es. destruct (E <? 0) eqn:EE; [apply Z.ltb_lt in EE | apply Z.ltb_ge in EE]; cbn; lia.
    + rewrite all_digits_app, all_digits_zeros. cbn. now rewrite Ha.
    + intros C. apply (f_equal String.length) in C. rewrite length_app_s in C. cbn in C. lia.
    + unfold d2. destruct (String.eqb f ""); [exact I | exact Af].
    + right. left. reflexivity.
  - change (String a frac) with (String a "" ++ frac). change (String a f) with (String a "" ++ f).
    rewrite Ef. rewrite <- sapp_assoc, digits_val_app_zeros by exact J0.
    rewrite slen_app, slen_zeros. replace (Z.max j 0) with j by lia.
    rewrite inject_Z_mult. replace (E - (slen f + j)) with (E - slen f + - j) by lia. rewrite p10_plus.
    destruct (p10_cancel j) as [C|C]; [|lia].
    transitivity (inject_Z (digits_val (String a "" ++ f)) * p10 (E - slen f) * (inject_Z (10 ^ j) * p10 (- j)))%Q; [|ring].
    rewrite C. ring.
Qed.

Lemma neg_flag_read_sign : forall sopt neg, neg_flag (read_sign sopt neg) = neg.
Proof.
  intros sopt neg. unfold read_sign, neg_flag. destruct neg; [reflexivity|].
  destruct (Ascii.eqb sopt "+"); reflexivity.
Qed.

Lemma show_head_digit : forall v, exists c rest, show_nat_Z v = String c rest /\ is_digit c = true.
Proof.
  intros v. pose proof (show_nonempty v) as Ne. pose proof (all_digits_show v) as Ad.
  destruct (show_nat_Z v) as [|c rest]; [congruence|]. cbn in Ad. apply andb_true_iff in Ad.
  exists c, rest. split; [reflexivity | apply Ad].
Qed.

Lemma with_frac_head : forall ip frac c rest, ip = String c rest ->
  exists rest', with_frac ip frac = String c rest'.
Proof.
  intros ip frac c rest ->. unfold with_frac. destruct (String.eqb (rstrip_zeros frac) ""); cbn; eauto.
Qed.

(* "%.{P}g": the text, with the sign and the zero fill of format(), reads as  D * 10^(E-(P-1))  for
   the P significant digits (D, E) of the digit generation *)
Lemma g_body_read : forall P0 x b sopt z,
  0 <= P0 -> 0 < dman x -> g_body P0 x = Ok b ->
  exists D E M k,
    sci_digits ((if P0 =? 0 then 1 else P0) - 1) (d_num x) (d_den x) = Some (D, E) /\
    read_number (drop_blank (sign_text sopt (dneg x) ++ zeros z ++ b)) = Some (dneg x, M, k) /\
    (inject_Z M * p10 k == inject_Z D * p10 (E - ((if P0 =? 0 then 1 else P0) - 1)))%Q.
Proof.
  intros P0 x b sopt z HP Pm H. unfold g_body in H.
  set (P := if P0 =? 0 then 1 else P0) in *.
  assert (P1 : 1 <= P) by (unfold P; destruct (P0 =? 0) eqn:E; [lia | apply Z.eqb_neq in E; lia]).
  assert (Z0 : (dman x =? 0) = false) by (apply Z.eqb_neq; lia). rewrite Z0 in H.
  destruct (sci_digits (P - 1) (d_num x) (d_den x)) as [[D E]|] eqn:SD; [|discriminate].
  destruct (d_frac x) as [Fx Dp].
  destruct (sci_digits_spec (d_num x) (d_den x) Dp (dabs x) Fx (P - 1) D E ltac:(lia) SD) as [[D1 D2] _].
  replace (P - 1 + 1) with P in D2 by lia.
  assert (Dpos : 0 <= D) by (pose proof (pow10_pos (P - 1) ltac:(lia)); lia).
  exists D, E.
  assert (Fin : forall body c rest M k,
            body = String c rest -> is_digit c = true ->
            read_number (sign_str (read_sign sopt (dneg x)) ++ zeros z ++ body)
              = Some (neg_flag (read_sign sopt (dneg x)), M, k) ->
            read_number (drop_blank (sign_text sopt (dneg x) ++ zeros z ++ body)) = Some (dneg x, M, k)).
  { intros body c rest M k Eb Hc R.
    destruct (zeros_digit_head z body c rest Eb Hc) as (c' & rest' & Ez & Hc').
    destruct (drop_blank_signed sopt (dneg x) _ c' rest' Ez Hc') as (Ed & _ & _).
    rewrite Ed, R, neg_flag_read_sign. reflexivity. }
  assert (Hsg : match read_sign sopt (dneg x) with Some a => is_sign a = true | None => True end).
  { unfold read_sign. destruct (dneg x); [reflexivity|]. destruct (Ascii.eqb sopt "+"); [reflexivity | exact I]. }
  destruct (andb (-4 <=? E) (E <? P)) eqn:Rng.
  - (* fixed notation *)
    apply andb_true_iff in Rng. destruct Rng as [_ R2]. apply Z.ltb_lt in R2.
    set (nd := P - 1 - E) in *. assert (Nd : 0 <= nd) by (unfold nd; lia).
    inversion H; subst b; clear H.
    set (ip := show_nat_Z (D / 10 ^ nd)). set (frac := digits_fixed (Z.to_nat nd) (D mod 10 ^ nd)).
    pose proof (pow10_pos nd Nd) as PP.
    destruct (read_with_frac (read_sign sopt (dneg x)) z ip frac Hsg (all_digits_show _) (show_nonempty _)
                (all_digits_fixed _ _)) as (M & k & R & V).
    exists M, k. split; [reflexivity|]. split.
    + destruct (show_head_digit (D / 10 ^ nd)) as (c & rest & Es & Hc). fold ip in Es.
      destruct (with_frac_head ip frac c rest Es) as (rest' & Ew).
      eapply Fin; [exact Ew | exact Hc | exact R].
    + rewrite V. unfold ip, frac.
      rewrite digits_val_app, digits_val_show by (apply Z.div_pos; lia).
      rewrite slen_digits_fixed, Z2Nat.id by lia.
      rewrite digits_val_fixed by (apply Z.mod_pos_bound; lia). rewrite Z2Nat.id by lia.
      rewrite Z.mod_mod by lia.
      assert (A : D / 10 ^ nd * 10 ^ nd + D mod 10 ^ nd = D)
        by (pose proof (Z.div_mod D (10 ^ nd) ltac:(lia)); lia).
      rewrite A. replace (E - (P - 1)) with (- nd) by (unfold nd; lia). reflexivity.
  - (* exponent notation *)
    destruct (digits_fixed (Z.to_nat P) D) as [|a r] eqn:DF; [discriminate|].
    inversion H; subst b; clear H.
    pose proof (all_digits_fixed (Z.to_nat P) D) as AD. rewrite DF in AD. cbn in AD.
    apply andb_true_iff in AD. destruct AD as [Aa Ar].
    pose proof (slen_digits_fixed (Z.to_nat P) D) as SL. rewrite DF, slen_cons in SL.
    rewrite Z2Nat.id in SL by lia.
    assert (VD : digits_val (String a r) = D).
    { rewrite <- DF, digits_val_fixed by lia. rewrite Z2Nat.id by lia. apply Z.mod_small. lia. }
    destruct (read_with_frac_sci (read_sign sopt (dneg x)) z a r E Hsg Aa Ar) as (M & k & R & V).
    exists M, k. split; [reflexivity|]. split.
    + destruct (with_frac_head (String a "") r a "" eq_refl) as (rest' & Ew).
      apply (Fin _ a (rest' ++ "e" ++ exp_sign E ++ exp_digits E) M k);
        [rewrite Ew; reflexivity | exact Aa | exact R].
    + rewrite V, VD. replace (E - slen r) with (E - (P - 1)) by lia. reflexivity.
Qed.

(* the relative error of %g with P significant digits: half a unit of the last digit *)
Lemma g_branch_error : forall P0 x b sopt z,
  0 <= P0 -> 0 < dman x -> g_body P0 x = Ok b ->
  exists M k, read_number (drop_blank (sign_text sopt (dneg x) ++ zeros z ++ b)) = Some (dneg x, M, k) /\
    (Qabs (inject_Z M * p10 k - dabs x)
       <= (1 # 2) * p10 (- ((if P0 =? 0 then 1 else P0) - 1)) * dabs x)%Q.
Proof.
  intros P0 x b sopt z HP Pm H.
  destruct (g_body_read P0 x b sopt z HP Pm H) as (D & E & M & k & SD & R & V).
  exists M, k. split; [exact R|]. rewrite V.
  destruct (d_frac x) as [Fx Dp].
  assert (P1 : 0 <= (if P0 =? 0 then 1 else P0) - 1)
    by (destruct (P0 =? 0) eqn:E0; [lia | apply Z.eqb_neq in E0; lia]).
  destruct (sci_digits_spec (d_num x) (d_den x) Dp (dabs x) Fx _ D E P1 SD) as [_ B].
  apply Qabs_Qle_condition. exact B.
Qed.

(* ------------------------------------------------------------------------------------------ *)
(* 13. float nodes: the text format() writes is read back within the tolerance *)

(* float(text) of an exact decimal: the nearest double; None beyond the largest double *)
Definition dec_to_dbl (r : bool * Z * Z) : option dbl :=
  let '(neg, M, k) := r in mk_round neg (dec_num M k) (dec_den k).
(* the first word of the written text is a number that is read as the double y *)
Definition reads_as (s : string) (y : dbl) : Prop :=
  exists r, written_number s = Some r /\ dec_to_dbl r = Some y.
(* math.isclose is symmetric *)
Lemma d_eqb_sym : forall a b, d_eqb a b = d_eqb b a.
Proof. intros a b. unfold d_eqb. rewrite (Z.min_comm (dexp a) (dexp b)). apply Z.eqb_sym. Qed.

Lemma d_abs_leb_sign : forall s1 s2 m e t, d_abs_leb (mkD s1 m e) t = d_abs_leb (mkD s2 m e) t.
Proof.
  intros s1 s2 m e t. unfold d_abs_leb, d_scaled. cbn [dneg dman dexp].
  destruct s1, s2; rewrite ?Z.abs_opp; reflexivity.
Qed.

Lemma isclose_sym : forall a b, isclose a b = isclose b a.
Proof.
  intros a b. unfold isclose. rewrite (d_eqb_sym a b). destruct (d_eqb b a); [reflexivity|].
  unfold d_sub. rewrite (Z.min_comm (dexp b) (dexp a)).
  set (mn := Z.min (dexp a) (dexp b)).
  set (v := d_scaled b mn - d_scaled a mn).
  replace (d_scaled a mn - d_scaled b mn) with (- v) by (unfold v; lia).
  rewrite Z.abs_opp.
  assert (G : forall s1 s2 N D,
     match mk_round s1 N D, d_mul rel_tol b, d_mul rel_tol a with
     | Some diff, Some tb, Some ta => orb (orb (d_abs_leb diff tb) (d_abs_leb diff ta)) (d_abs_leb diff abs_tol)
     | _, _, _ => false
     end =
     match mk_round s2 N D, d_mul rel_tol a, d_mul rel_tol b with
     | Some diff, Some tb, Some ta => orb (orb (d_abs_leb diff tb) (d_abs_leb diff ta)) (d_abs_leb diff abs_tol)
     | _, _, _ => false
     end).
  { intros s1 s2 N D. unfold mk_round. destruct (round_dbl N D) as [[m e]|]; [|reflexivity].
    destruct (d_mul rel_tol b) as [tb|], (d_mul rel_tol a) as [ta|]; try reflexivity.
    rewrite (d_abs_leb_sign s1 s2 m e tb), (d_abs_leb_sign s1 s2 m e ta), (d_abs_leb_sign s1 s2 m e abs_tol).
    rewrite (orb_comm (d_abs_leb _ tb) (d_abs_leb _ ta)). reflexivity. }
  destruct (0 <=? mn); apply G.
Qed.

Lemma reads_back_true : forall temp x, reads_back temp x = Ok true ->
  exists sc y, fortran_scan (strip temp) = Some sc /\
               dec_to_dbl (scan_neg sc, scan_mant sc, scan_k sc) = Some y /\ isclose y x = true.
Proof.
  intros temp x H. unfold reads_back, fortran_float in H.
  destruct (fortran_scan (strip temp)) as [sc|] eqn:FS; [|discriminate].
  destruct (mk_round (scan_neg sc) (dec_num (scan_mant sc) (scan_k sc)) (dec_den (scan_k sc))) as [y|] eqn:MR;
    [|discriminate].
  inversion H. exists sc, y. auto.
Qed.

(* the float branch of format(): the loop's last test passed, or the text is the ".17g" fall-back *)
Lemma float_text_cases : forall reversed f x s,
  float_text reversed f x = Ok s -> reads_back s x = Ok true \/ fallback_text f x = Ok s.
Proof.
  intros reversed f x s H. unfold float_text in H.
  destruct (format_float reversed f x (precision f)) as [t0|]; [|discriminate]. cbn [bind] in H.
  destruct (prec_loop reversed f x (Z.to_nat (17 - precision f)) (precision f) t0) as [temp|]; [|discriminate].
  cbn [bind] in H. destruct (reads_back temp x) as [[|]|] eqn:RB; cbn [bind] in H.
  - inversion H; subst. now left.
  - now right.
  - discriminate.
Qed.

(* the fall-back: 17 significant digits of a double are read back as that double *)
Lemma fallback_exact : forall f x temp,
  is_double x -> fallback_text f x = Ok temp ->
  exists r y, read_number (drop_blank temp) = Some r /\ dec_to_dbl r = Some y /\ isclose y x = true.
Proof.
  intros f x temp Hd H. unfold fallback_text in H.
  destruct (g_body 17 x) as [b|] eqn:G; [|discriminate]. cbn [bind] in H. inversion H; subst temp; clear H.
  unfold zfill. set (z := zero_padding f - _ - _).
  destruct Hd as (Hm & He & Hf).
  destruct (Z.eq_dec (dman x) 0) as [Z0|NZ].
  - (* zero *)
    unfold g_body in G. rewrite Z0 in G. cbn in G. inversion G; subst b.
    destruct (zeros_digit_head z "0" "0"%char "" eq_refl eq_refl) as (c' & rest' & Ez & Hc').
    destruct (drop_blank_signed (f_sign f) (dneg x) _ c' rest' Ez Hc') as (Ed & Hsg & Hneg).
    rewrite Ed.
    assert (Ad : all_digits (zeros z ++ "0") = true) by (rewrite all_digits_app, all_digits_zeros; reflexivity).
    assert (Nd : zeros z ++ "0" <> "") by (rewrite Ez; discriminate).
    unfold sign_str. rewrite (read_int_text (read_sign (f_sign f) (dneg x)) _ Hsg Ad Nd). rewrite Hneg.
    rewrite digits_val_zeros_app. change (digits_val "0") with 0.
    eexists. exists (mkD (dneg x) 0 0). split; [reflexivity|]. split; [reflexivity|].
    apply isclose_of_Q; [reflexivity|]. unfold dabs. cbn [dman dexp]. rewrite Z0. ring.
  - assert (Pm : 0 < dman x) by lia.
    destruct (g_branch_error 17 x b (f_sign f) z ltac:(lia) Pm G) as (M & k & R & B).
    change ((if 17 =? 0 then 1 else 17) - 1) with 16 in B.
    destruct (mk_round_near_double (dneg x) M k x (conj Hm (conj He Hf)) Pm B) as (y & MR & Sy & _ & Vy).
    exists (dneg x, M, k), y. split; [exact R|]. split; [exact MR|].
    apply isclose_of_Q; assumption.
Qed.

Lemma first_word_plain : forall s tail,
  s <> "" -> no_stop s = true -> (tail = "" \/ starts_stop tail = true) -> first_word (s ++ tail) = s.
Proof.
  intros s tail N W T. unfold first_word.
  destruct s as [|a u]; [congruence|]. cbn [no_stop] in W. apply andb_true_iff in W.
  destruct W as [Ha Hu]. apply negb_true_iff in Ha. cbn [append lstrip_ws]. rewrite (stop_not_ws a Ha).
  change (String a (u ++ tail)) with (String a u ++ tail). apply take_word_app; [|exact T].
  cbn [no_stop]. now rewrite Ha, Hu.
Qed.

Lemma make_node_float_inv : forall tok pad np nd,
  make_node KFloat tok pad np = Ok nd ->
  n_isfloat nd = true /\ n_tok nd = tok /\
  ((n_value nd = None /\ n_og nd = None) \/
   exists t xo, tok = TText t /\ fortran_float t = Ok xo /\ n_og nd = Some (VFlt xo)).
Proof.
  intros tok pad np nd H. unfold make_node in H. destruct tok as [| |t].
  - inversion H; subst; cbn. auto.
  - inversion H; subst; cbn. auto.
  - destruct (fortran_float t) as [xo|] eqn:F; [|discriminate]. cbn in H. inversion H; subst; cbn.
    split; [reflexivity|]. split; [reflexivity|]. right. exists t, xo. auto.
Qed.

Lemma fortran_float_inv : forall t xo, fortran_float t = Ok xo ->
  exists sc, fortran_scan t = Some sc /\ dec_to_dbl (scan_neg sc, scan_mant sc, scan_k sc) = Some xo.
Proof.
  intros t xo H. unfold fortran_float in H. destruct (fortran_scan t) as [sc|]; [|discriminate].
  exists sc. split; [reflexivity|]. unfold dec_to_dbl.
  destruct (mk_round _ _ _) as [y|]; [inversion H; reflexivity | discriminate].
Qed.

Lemma read_no_stop : forall w r, read_number w = Some r -> no_stop w = true /\ w <> "".
Proof.
  intros w r H. unfold read_number in H.
  destruct (scan_number letter_eEdD w) as [sc|] eqn:S; [|discriminate].
  apply (scan_no_stop letter_eEdD w sc); [|exact S].
  intros a Ha. unfold letter_eEdD, letter_eE in Ha.
  repeat (apply orb_true_iff in Ha; destruct Ha as [Ha|Ha]); apply Ascii.eqb_eq in Ha; subst; reflexivity.
Qed.

Lemma dec_to_dbl_int : forall n, dec_to_dbl (n <? 0, Z.abs n, 0) = to_dbl (VInt n).
Proof. intros n. unfold dec_to_dbl, to_dbl, dec_num, dec_den. cbn. now rewrite Z.mul_1_r. Qed.

(* THE FLOAT THEOREM: whatever token (or none, or a jump) the node was made from and whatever padding
   follows it, for every finite double x: what format() writes after node.value = x is a number that is
   read back as a double y that math.isclose(rel_tol=1e-9) accepts as x *)
Theorem float_node_close : forall tok pad np nd x s,
  make_node KFloat tok pad np = Ok nd ->
  is_double x ->
  followed_ok (pad_nodes (set_value nd (VFlt x))) ->
  format (set_value nd (VFlt x)) = Ok s ->
  exists y, reads_as s y /\ isclose y x = true.
Proof.
  intros tok pad np nd x s MK Hd FO H.
  destruct (make_node_float_inv tok pad np nd MK) as (Hf & Htok & Hog).
  set (nd' := set_value nd (VFlt x)) in *.
  assert (Hv : n_value nd' = Some (VFlt x)) by reflexivity.
  assert (Hf' : n_isfloat nd' = true) by exact Hf.
  assert (Hog' : n_og nd' = n_og nd) by reflexivity.
  assert (Htok' : n_tok nd' = tok) by exact Htok.
  unfold format in H.
  destruct (value_changed nd') as [ch|] eqn:VC; [|discriminate]. cbn [bind] in H.
  destruct ch; cbn [negb] in H.
  - (* the value changed *)
    rewrite Hv in H.
    destruct (match reverse_formatting nd' with Some f => (true, f) | None => (false, default_fmt) end)
      as [reversed f] eqn:RF.
    destruct (render_temp nd' reversed f (VFlt x)) as [temp|] eqn:RT; [|discriminate].
    cbn [bind] in H. inversion H; subst s; clear H.
    destruct (finish_tail nd' f temp FO) as (tail & -> & T).
    unfold render_temp in RT.
    destruct (can_float_to_int nd' f (VFlt x)) as [toint|] eqn:CF; [|discriminate]. cbn [bind] in RT.
    rewrite Hf' in RT. cbn [negb orb] in RT. destruct toint.
    + (* written as the nearest integer *)
      inversion RT; subst temp; clear RT.
      unfold can_float_to_int in CF. rewrite Hf' in CF. cbn [andb] in CF.
      destruct (as_int f); cbn [negb] in CF; [|discriminate].
      set (n := py_round (VFlt x)) in *.
      destruct (to_dbl (VInt n)) as [a|] eqn:TA; [|discriminate]. cbn [to_dbl] in CF.
      injection CF as CL. exists a. split; [|exact CL].
      exists (n <? 0, Z.abs n, 0). split; [|rewrite dec_to_dbl_int; exact TA].
      unfold written_number. destruct (no_stop_fmt_d (f_sign f) (zero_padding f) n) as [N W].
      rewrite first_word_drop_blank by assumption. apply fmt_d_exact.
    + (* the float branch *)
      cbn [to_dbl] in RT.
      destruct (float_text_cases reversed f x temp RT) as [RB|FB].
      * destruct (reads_back_true temp x RB) as (sc & y & FS & DD & CL).
        destruct (fortran_scan_read _ sc FS) as (RN & W & N).
        exists y. split; [|exact CL]. exists (scan_neg sc, scan_mant sc, scan_k sc). split; [|exact DD].
        unfold written_number. rewrite first_word_strip by assumption. exact RN.
      * destruct (fallback_exact f x temp Hd FB) as (r & y & RN & DD & CL).
        destruct (read_no_stop _ r RN) as [W N].
        exists y. split; [|exact CL]. exists r. split; [|exact DD].
        unfold written_number. rewrite first_word_drop_blank by assumption. exact RN.
  - (* unchanged: the old token is kept; the value is within the tolerance of the token's *)
    inversion H; subst s; clear H.
    unfold value_changed in VC. rewrite Hv, Hog', Hf' in VC.
    destruct Hog as [[_ Ho]|(t & xo & -> & FF & Ho)]; rewrite Ho in VC; [discriminate|].
    cbn [to_dbl] in VC. injection VC as CL. apply negb_false_iff in CL.
    rewrite Htok. cbn [tok_text].
    destruct (fortran_float_inv t xo FF) as (sc & FS & DD).
    destruct (fortran_scan_read t sc FS) as (RN & W & N).
    exists xo. split; [|rewrite isclose_sym; exact CL].
    exists (scan_neg sc, scan_mant sc, scan_k sc). split; [|exact DD].
    unfold written_number. rewrite first_word_plain; [exact RN | exact N | exact W |].
    destruct (followed_ok_pad_text _ FO) as [E|E]; [left | right]; exact E.
Qed.

(* ------------------------------------------------------------------------------------------ *)
(* 14. integer nodes, converted nodes, the int(round()) branch, the loop *)

Lemma exact_int_scaled : forall n mn, mn <= 0 -> d_scaled (exact_dbl (VInt n)) mn = n * 2 ^ (- mn).
Proof.
  intros n mn H. unfold d_scaled, exact_dbl. cbn [dneg dman dexp]. replace (0 - mn) with (- mn) by lia.
  destruct (n <? 0) eqn:E; [apply Z.ltb_lt in E | apply Z.ltb_ge in E]; nia.
Qed.

Lemma py_eq_int : forall n i, py_eq (VInt n) (VInt i) = true -> n = i.
Proof.
  intros n i H. unfold py_eq, d_eqb in H.
  change (dexp (exact_dbl (VInt n))) with 0 in H. change (dexp (exact_dbl (VInt i))) with 0 in H.
  change (Z.min 0 0) with 0 in H.
  rewrite !(exact_int_scaled _ 0) in H by lia. cbn in H. apply Z.eqb_eq in H. lia.
Qed.

(* two integers that both equal (exactly) the same float are the same integer *)
Lemma py_eq_int_float : forall n i xo,
  py_eq (VInt n) (VFlt xo) = true -> py_eq (VInt i) (VFlt xo) = true -> n = i.
Proof.
  intros n i xo H1 H2. unfold py_eq, d_eqb in *.
  change (dexp (exact_dbl (VInt n))) with 0 in H1. change (dexp (exact_dbl (VInt i))) with 0 in H2.
  change (exact_dbl (VFlt xo)) with xo in H1, H2.
  set (mn := Z.min 0 (dexp xo)) in *.
  rewrite exact_int_scaled in H1, H2 by (unfold mn; lia).
  apply Z.eqb_eq in H1. apply Z.eqb_eq in H2.
  pose proof (Z.pow_pos_nonneg 2 (- mn) ltac:(lia) ltac:(unfold mn; lia)). nia.
Qed.

Lemma py_int_of_string_read : forall t i, py_int_of_string t = Ok i ->
  exists neg M, read_number t = Some (neg, M, 0) /\ (if neg then - M else M) = i /\ no_stop t = true /\ t <> "".
Proof.
  intros t i H. unfold py_int_of_string in H.
  destruct (take_sign t) as [sg r] eqn:TS. destruct (take_sign_spec _ _ _ TS) as [Et Hsg].
  destruct (span_digits r) as [d u] eqn:SD. destruct (span_digits_spec _ _ _ SD) as [Er Ad].
  destruct (andb (negb (String.eqb d "")) (String.eqb u "")) eqn:C; [|discriminate].
  apply andb_true_iff in C. destruct C as [C1 C2]. apply negb_true_iff in C1.
  apply String.eqb_neq in C1. apply String.eqb_eq in C2. subst u. rewrite sapp_nil_r in Er. subst r.
  assert (R : read_number t = Some (neg_flag sg, digits_val d, 0)).
  { rewrite Et. unfold sign_str. apply (read_int_text sg d Hsg Ad C1). }
  exists (neg_flag sg), (digits_val d). split; [exact R|]. split.
  - inversion H. unfold neg_flag. destruct sg as [a|]; [destruct (Ascii.eqb a "-")|]; reflexivity.
  - exact (read_no_stop t _ R).
Qed.

Lemma make_node_int_inv : forall tok pad np nd,
  make_node KInt tok pad np = Ok nd ->
  n_isfloat nd = false /\ n_tok nd = tok /\
  ((n_value nd = None /\ n_og nd = None) \/
   exists t i, tok = TText t /\ py_int_of_string t = Ok i /\ n_og nd = Some (VInt i)).
Proof.
  intros tok pad np nd H. unfold make_node in H. destruct tok as [| |t].
  - inversion H; subst; cbn. auto.
  - inversion H; subst; cbn. auto.
  - destruct (py_int_of_string t) as [i|] eqn:F; [|discriminate]. cbn in H. inversion H; subst; cbn.
    split; [reflexivity|]. split; [reflexivity|]. right. exists t, i. auto.
Qed.

(* THE INTEGER THEOREM: an integer node writes the integer that was set, digit for digit, whatever token
   it was made from *)
Theorem int_node_exact_full : forall tok pad np nd n s,
  make_node KInt tok pad np = Ok nd ->
  followed_ok (pad_nodes (set_value nd (VInt n))) ->
  format (set_value nd (VInt n)) = Ok s ->
  exists neg M, written_number s = Some (neg, M, 0) /\ (if neg then - M else M) = n.
Proof.
  intros tok pad np nd n s MK FO H.
  destruct (make_node_int_inv tok pad np nd MK) as (Hf & Htok & Hog).
  destruct (value_changed (set_value nd (VInt n))) as [[|]|] eqn:VC.
  - exists (n <? 0), (Z.abs n). split.
    + apply (int_node_exact nd n s Hf VC H). exact FO.
    + destruct (n <? 0) eqn:E; [apply Z.ltb_lt in E | apply Z.ltb_ge in E]; lia.
  - unfold format in H. rewrite VC in H. cbn [bind negb] in H. inversion H; subst s; clear H.
    unfold value_changed in VC.
    assert (Hv : n_value (set_value nd (VInt n)) = Some (VInt n)) by reflexivity.
    assert (Ho : n_og (set_value nd (VInt n)) = n_og nd) by reflexivity.
    assert (Hf' : n_isfloat (set_value nd (VInt n)) = false) by exact Hf.
    rewrite Hv, Ho, Hf' in VC.
    destruct Hog as [[_ Hn]|(t & i & -> & PI & Hn)]; rewrite Hn in VC; [discriminate|].
    injection VC as CL. apply negb_false_iff in CL. apply py_eq_int in CL. subst i.
    rewrite Htok. cbn [tok_text].
    destruct (py_int_of_string_read t n PI) as (neg & M & R & V & W & N).
    exists neg, M. split; [|exact V].
    unfold written_number. rewrite first_word_plain; [exact R | exact N | exact W |].
    destruct (followed_ok_pad_text _ FO) as [E|E]; [left | right]; exact E.
  - unfold format in H. rewrite VC in H. discriminate.
Qed.

(* converted nodes (a float token turned into an integer node by _convert_to_int) *)
Lemma make_node_conv_inv : forall tok pad np nd,
  make_node KConv tok pad np = Ok nd ->
  n_isfloat nd = false /\ n_tok nd = tok /\
  ((n_value nd = None /\ n_og nd = None) \/
   exists t xo i, tok = TText t /\ fortran_float t = Ok xo /\ conv_int t = Ok i /\ n_og nd = Some (VInt i)).
Proof.
  intros tok pad np nd H. unfold make_node in H. destruct tok as [| |t].
  - inversion H; subst; cbn. auto.
  - inversion H; subst; cbn. auto.
  - destruct (fortran_float t) as [xo|] eqn:F; [|discriminate]. cbn [bind] in H.
    destruct (conv_int t) as [i|] eqn:CI; [|discriminate]. cbn [bind] in H. inversion H; subst; cbn.
    split; [reflexivity|]. split; [reflexivity|]. right. exists t, xo, i. auto.
Qed.

(* THE INTEGER THEOREM FOR CONVERTED NODES: the integer is written digit for digit, or it is the integer
   the token itself was converted to and the token is kept verbatim (an unchanged value keeps its spelling,
   e.g. '5.0') *)
Theorem conv_node_exact_full : forall tok pad np nd n s,
  make_node KConv tok pad np = Ok nd ->
  followed_ok (pad_nodes (set_value nd (VInt n))) ->
  format (set_value nd (VInt n)) = Ok s ->
  written_number s = Some (n <? 0, Z.abs n, 0) \/
  exists t, tok = TText t /\ conv_int t = Ok n /\
            s = t ++ pad_text (pad_nodes (set_value nd (VInt n))).
Proof.
  intros tok pad np nd n s MK FO H.
  destruct (make_node_conv_inv tok pad np nd MK) as (Hf & Htok & Hog).
  destruct (value_changed (set_value nd (VInt n))) as [[|]|] eqn:VC.
  - left. apply (int_node_exact nd n s Hf VC H). exact FO.
  - right. unfold format in H. rewrite VC in H. cbn [bind negb] in H. inversion H; subst s; clear H.
    unfold value_changed in VC.
    assert (Hv : n_value (set_value nd (VInt n)) = Some (VInt n)) by reflexivity.
    assert (Ho : n_og (set_value nd (VInt n)) = n_og nd) by reflexivity.
    assert (Hf' : n_isfloat (set_value nd (VInt n)) = false) by exact Hf.
    rewrite Hv, Ho, Hf' in VC.
    destruct Hog as [[_ Hn]|(t & xo & i & -> & FF & CI & Hn)]; rewrite Hn in VC; [discriminate|].
    injection VC as CL. apply negb_false_iff in CL. apply py_eq_int in CL. subst i.
    exists t. repeat split; try assumption.
    rewrite Htok. reflexivity.
  - unfold format in H. rewrite VC in H. discriminate.
Qed.

(* ... and when the token is spelled as an integer, the kept token reads as that integer too *)
Theorem conv_node_exact_plain : forall t pad np nd n s,
  make_node KConv (TText t) pad np = Ok nd ->
  (exists i, py_int_of_string t = Ok i) ->
  followed_ok (pad_nodes (set_value nd (VInt n))) ->
  format (set_value nd (VInt n)) = Ok s ->
  exists neg M, written_number s = Some (neg, M, 0) /\ (if neg then - M else M) = n.
Proof.
  intros t pad np nd n s MK [i PI] FO H.
  destruct (conv_node_exact_full _ pad np nd n s MK FO H) as [E|(t' & Et & CI & Es)].
  - exists (n <? 0), (Z.abs n). split; [exact E|].
    destruct (n <? 0) eqn:En; [apply Z.ltb_lt in En | apply Z.ltb_ge in En]; lia.
  - inversion Et; subst t'. unfold conv_int in CI. rewrite PI in CI. inversion CI; subst i.
    destruct (py_int_of_string_read t n PI) as (neg & M & R & V & W & N).
    exists neg, M. split; [|exact V]. subst s.
    unfold written_number. rewrite first_word_plain; [exact R | exact N | exact W |].
    destruct (followed_ok_pad_text _ FO) as [E|E]; [left | right]; exact E.
Qed.

(* the int(round(value)) branch: the nearest integer, not the truncated one, digit for digit *)
Lemma round_branch_exact : forall nd reversed f x temp,
  n_isfloat nd = true -> can_float_to_int nd f (VFlt x) = Ok true ->
  render_temp nd reversed f (VFlt x) = Ok temp ->
  read_number (drop_blank temp)
  = Some (py_round (VFlt x) <? 0, Z.abs (py_round (VFlt x)), 0).
Proof.
  intros nd reversed f x temp Hf CF H. unfold render_temp in H. rewrite CF in H. cbn [bind] in H.
  rewrite orb_true_r in H. inversion H. apply fmt_d_exact.
Qed.

Lemma py_round_nearest : forall x, 0 <= dman x ->
  (Qabs (inject_Z (py_round (VFlt x)) - dval x) <= 1 # 2)%Q.
Proof.
  intros x Hm. unfold py_round. rewrite dval_dabs.
  set (a := if 0 <=? dexp x then dman x * 2 ^ dexp x else rhe (dman x) (2 ^ (- dexp x))).
  assert (A : (Qabs (inject_Z a - dabs x) <= 1 # 2)%Q).
  { unfold a, dabs. destruct (0 <=? dexp x) eqn:E.
    - apply Z.leb_le in E. rewrite inject_Z_mult, <- (p2_inject _ E).
      setoid_replace (inject_Z (dman x) * (2 # 1) ^ dexp x - inject_Z (dman x) * (2 # 1) ^ dexp x)%Q with 0%Q by ring.
      cbn. unfold Qle; cbn; lia.
    - apply Z.leb_gt in E.
      assert (Pb : 0 < 2 ^ (- dexp x)) by (apply Z.pow_pos_nonneg; lia).
      pose proof (rhe_bound_Q (dman x) (2 ^ (- dexp x)) Pb) as [B1 B2].
      rewrite <- (p2_inject (- dexp x)) in B1, B2 by lia.
      assert (I : ((2 # 1) ^ dexp x * (2 # 1) ^ (- dexp x) == 1)%Q).
      { rewrite <- Qpower_plus by discriminate. rewrite Z.add_opp_diag_r. reflexivity. }
      assert (P1 : (0 < (2 # 1) ^ dexp x)%Q) by (apply Qpower_0_lt; reflexivity).
      assert (P2 : (0 < (2 # 1) ^ (- dexp x))%Q) by (apply Qpower_0_lt; reflexivity).
      set (r := inject_Z (rhe (dman x) (2 ^ (- dexp x)))) in *. set (m := inject_Z (dman x)) in *.
      set (u := ((2 # 1) ^ dexp x)%Q) in *. set (v := ((2 # 1) ^ (- dexp x))%Q) in *.
      apply Qabs_Qle_condition. split.
      + assert (- v <= (2 # 1) * (r - m * u) * v)%Q.
        { setoid_replace ((2 # 1) * (r - m * u) * v)%Q with ((2 # 1) * (r * v - m * (u * v)))%Q by ring.
          rewrite I. lra. }
        nra.
      + assert ((2 # 1) * (r - m * u) * v <= v)%Q.
        { setoid_replace ((2 # 1) * (r - m * u) * v)%Q with ((2 # 1) * (r * v - m * (u * v)))%Q by ring.
          rewrite I. lra. }
        nra. }
  destruct (dneg x); cbn [sgnQ].
  - rewrite inject_Z_opp.
    setoid_replace (- inject_Z a - (-1 # 1) * dabs x)%Q with (- (inject_Z a - dabs x))%Q by ring.
    rewrite Qabs_opp. exact A.
  - setoid_replace (inject_Z a - 1 * dabs x)%Q with (inject_Z a - dabs x)%Q by ring. exact A.
Qed.

(* no digits are added when the precision of the old token is enough *)
Lemma no_extra_digits : forall reversed f x t0,
  format_float reversed f x (precision f) = Ok t0 -> reads_back t0 x = Ok true ->
  float_text reversed f x = Ok t0.
Proof.
  intros reversed f x t0 F R. unfold float_text. rewrite F. cbn [bind].
  assert (L : prec_loop reversed f x (Z.to_nat (17 - precision f)) (precision f) t0 = Ok t0).
  { destruct (Z.to_nat (17 - precision f)); cbn [prec_loop]; [reflexivity|]. rewrite R. reflexivity. }
  rewrite L. cbn [bind]. rewrite R. reflexivity.
Qed.

(* the loop adds one digit at a time and stops at the first precision whose text reads back *)
Lemma prec_loop_spec : forall reversed f x fuel p t0 temp,
  format_float reversed f x p = Ok t0 ->
  prec_loop reversed f x fuel p t0 = Ok temp ->
  exists j, (j <= fuel)%nat /\ format_float reversed f x (p + Z.of_nat j) = Ok temp /\
    (forall i ti, (i < j)%nat -> format_float reversed f x (p + Z.of_nat i) = Ok ti -> reads_back ti x = Ok false) /\
    ((j < fuel)%nat -> reads_back temp x = Ok true).
Proof.
  intros reversed f x fuel. induction fuel as [|k IH]; intros p t0 temp F H.
  - cbn in H. inversion H; subst. exists O. rewrite Z.add_0_r. repeat split; [lia | exact F | lia | lia].
  - cbn [prec_loop] in H. destruct (reads_back t0 x) as [[|]|] eqn:R; cbn [bind] in H; [| |discriminate].
    + inversion H; subst. exists O. rewrite Z.add_0_r. repeat split; [lia | exact F | lia | intros; exact R].
    + destruct (format_float reversed f x (p + 1)) as [t1|] eqn:F1; [|discriminate]. cbn [bind] in H.
      destruct (IH (p + 1) t1 temp F1 H) as (j & J1 & J2 & J3 & J4).
      exists (S j). replace (p + Z.of_nat (S j)) with (p + 1 + Z.of_nat j) by lia.
      repeat split; [lia | exact J2 | | intros; apply J4; lia].
      intros i ti Hi Fi. destruct i as [|i'].
      * rewrite Z.add_0_r in Fi. rewrite F in Fi. inversion Fi; subst. exact R.
      * apply (J3 i' ti); [lia|]. replace (p + 1 + Z.of_nat i') with (p + Z.of_nat (S i')) by lia. exact Fi.
Qed.

(* ------------------------------------------------------------------------------------------ *)
(* 15. every formatter that _reverse_engineer_formatting can produce *)

Lemma scan_eletter : forall letters s sc, scan_number letters s = Some sc ->
  match s_eletter sc with Some a => letters a = true | None => True end.
Proof.
  intros letters s sc H. unfold scan_number in H.
  destruct (take_sign s) as [sg r0]. destruct (span_digits r0) as [d1 r1].
  destruct (match r1 with
            | String "."%char t => let (d2, r2) := span_digits t in (true, d2, r2)
            | _ => (false, "", r1)
            end) as [[dt d2] r2].
  destruct (andb (String.eqb d1 "") (String.eqb d2 "")); [discriminate|].
  destruct r2 as [|a t]; [inversion H; exact I|].
  destruct (letters a) eqn:La.
  - destruct (take_sign t) as [es t1]. destruct (span_digits t1) as [ed t2].
    destruct (andb (negb (String.eqb ed "")) (String.eqb t2 "")); [|discriminate].
    inversion H. cbn. exact La.
  - destruct (is_sign a); [|discriminate]. destruct (span_digits t) as [ed t2].
    destruct (andb (negb (String.eqb ed "")) (String.eqb t2 "")); [|discriminate].
    inversion H. exact I.
Qed.

Definition fmt_ok (f : fmt) : Prop :=
  exponent_length f = exponent_zero_pad f /\
  (divider f = "" \/ divider f = "e" \/ divider f = "E") /\ 0 <= precision f.

Lemma reverse_float_ok : forall token f, fmt_ok f -> fmt_ok (reverse_float token f).
Proof.
  intros token f (H1 & H2 & H3). unfold reverse_float.
  destruct (scan_number letter_eE token) as [c|] eqn:S.
  - destruct (andb (negb (String.eqb (s_d1 c) "")) (negb (String.eqb (s_edigits c) ""))).
    + unfold fmt_ok. cbn [exponent_length exponent_zero_pad divider precision]. split; [|split].
      * destruct (starts_with "0" (s_edigits c)); [reflexivity | exact H1].
      * pose proof (scan_eletter letter_eE token c S) as L. destruct (s_eletter c) as [a|]; [|now left].
        unfold letter_eE in L. apply orb_true_iff in L.
        destruct L as [L|L]; apply Ascii.eqb_eq in L; subst a; auto.
      * destruct (s_dot c); [apply slen_nonneg | lia].
    + destruct (split_dot token) as [[b after]|]; [destruct (Nat.eqb (count_dots after) 0)|];
        unfold fmt_ok; cbn [exponent_length exponent_zero_pad divider precision];
        (split; [exact H1 | split; [exact H2 | first [apply slen_nonneg | lia]]]).
  - destruct (split_dot token) as [[b after]|]; [destruct (Nat.eqb (count_dots after) 0)|];
      unfold fmt_ok; cbn [exponent_length exponent_zero_pad divider precision];
      (split; [exact H1 | split; [exact H2 | first [apply slen_nonneg | lia]]]).
Qed.

(* the hypotheses of the error bounds hold of every formatter format() can be working with *)
Lemma reverse_formatting_ok : forall nd f, reverse_formatting nd = Some f -> fmt_ok f.
Proof.
  intros nd f H. unfold reverse_formatting in H.
  assert (B : forall vl zp sg, fmt_ok (mkFmt vl 5 zp sg "e" 0 0 false true)).
  { intros. unfold fmt_ok. cbn. split; [reflexivity|]. split; [right; left; reflexivity | lia]. }
  destruct (n_tok nd); [discriminate| |];
    inversion H; destruct (n_isfloat nd); try apply reverse_float_ok; apply B.
Qed.

Lemma default_fmt_ok : fmt_ok default_fmt.
Proof. unfold fmt_ok. cbn. split; [reflexivity|]. split; [right; left; reflexivity | lia]. Qed.

(* ------------------------------------------------------------------------------------------ *)
(* 16. the digit generation never runs out of fuel on a double *)

(* a^x <= b^y for integer exponents of either sign, decided on integers *)
Definition pow_le (a x b y : Z) : bool :=
  a ^ Z.max x 0 * b ^ Z.max (- y) 0 <=? b ^ Z.max y 0 * a ^ Z.max (- x) 0.

(* the log10 estimate of the model, est = floor(lg * 0.30103), is within one of the truth *)
Definition e10_ok (lg : Z) : bool :=
  let e := (lg * 30103) / 100000 in
  andb (pow_le 10 (e - 1) 2 lg) (pow_le 2 (lg + 1) 10 (e + 2)).

Definition lg_range : list Z := map (fun i => Z.of_nat i - 1075) (seq 0 2100).

(* a genuinely finite sweep: the 2100 binary exponents a finite double can have *)
Lemma e10_sweep : forallb e10_ok lg_range = true.
Proof. vm_compute. reflexivity. Qed.

Lemma e10_ok_range : forall lg, -1075 <= lg <= 1024 -> e10_ok lg = true.
Proof.
  intros lg H. pose proof e10_sweep as S. rewrite forallb_forall in S. apply S.
  unfold lg_range. apply in_map_iff. exists (Z.to_nat (lg + 1075)). split; [lia|].
  apply in_seq. lia.
Qed.

Lemma qpow_split10 : forall x, (p10 x * inject_Z (10 ^ Z.max (- x) 0) == inject_Z (10 ^ Z.max x 0))%Q.
Proof.
  intros x. destruct (Z_le_gt_dec 0 x).
  - replace (Z.max (- x) 0) with 0 by lia. replace (Z.max x 0) with x by lia.
    rewrite <- (p10_inject x) by lia. cbn. ring.
  - replace (Z.max (- x) 0) with (- x) by lia. replace (Z.max x 0) with 0 by lia.
    rewrite <- (p10_inject (- x)) by lia. rewrite p10_inv. reflexivity.
Qed.

Lemma qpow_split2 : forall x, (p2 x * inject_Z (2 ^ Z.max (- x) 0) == inject_Z (2 ^ Z.max x 0))%Q.
Proof.
  intros x. destruct (Z_le_gt_dec 0 x).
  - replace (Z.max (- x) 0) with 0 by lia. replace (Z.max x 0) with x by lia.
    rewrite <- (p2_inj x) by lia. cbn. ring.
  - replace (Z.max (- x) 0) with (- x) by lia. replace (Z.max x 0) with 0 by lia.
    rewrite <- (p2_inj (- x)) by lia. rewrite p2_inv. reflexivity.
Qed.

Lemma pow_pos' : forall a k, 0 < a -> (0 < inject_Z (a ^ Z.max k 0))%Q.
Proof. intros a k H. apply inj_pos. apply Z.pow_pos_nonneg; lia. Qed.

Lemma pow_le_10_2 : forall x y, pow_le 10 x 2 y = true -> (p10 x <= p2 y)%Q.
Proof.
  intros x y H. unfold pow_le in H. apply Z.leb_le in H. rewrite Zle_Qle, !inject_Z_mult in H.
  pose proof (qpow_split10 x) as A. pose proof (qpow_split2 y) as B.
  pose proof (pow_pos' 10 (- x) ltac:(lia)) as P1. pose proof (pow_pos' 2 (- y) ltac:(lia)) as P2.
  pose proof (p10_pos x). pose proof (p2_pos y).
  rewrite <- A, <- B in H.
  set (u := inject_Z (10 ^ Z.max (- x) 0)) in *. set (v := inject_Z (2 ^ Z.max (- y) 0)) in *.
  set (a := p10 x) in *. set (b := p2 y) in *.
  assert (a * (u * v) <= b * (u * v))%Q by (rewrite !Qmult_assoc; nra).
  assert (0 < u * v)%Q by nra. nra.
Qed.

Lemma pow_le_2_10 : forall y x, pow_le 2 y 10 x = true -> (p2 y <= p10 x)%Q.
Proof.
  intros y x H. unfold pow_le in H. apply Z.leb_le in H. rewrite Zle_Qle, !inject_Z_mult in H.
  pose proof (qpow_split10 x) as A. pose proof (qpow_split2 y) as B.
  pose proof (pow_pos' 10 (- x) ltac:(lia)) as P1. pose proof (pow_pos' 2 (- y) ltac:(lia)) as P2.
  pose proof (p10_pos x). pose proof (p2_pos y).
  rewrite <- A, <- B in H.
  set (u := inject_Z (10 ^ Z.max (- x) 0)) in *. set (v := inject_Z (2 ^ Z.max (- y) 0)) in *.
  set (a := p10 x) in *. set (b := p2 y) in *.
  assert (b * (u * v) <= a * (u * v))%Q by (rewrite !Qmult_assoc; nra).
  assert (0 < u * v)%Q by nra. nra.
Qed.

Section Fuel.
  Variables n d : Z.
  Hypothesis Hn : 0 < n.
  Hypothesis Hd : 0 < d.
  Variable t : Q.
  Hypothesis Ht : (t * inject_Z d == inject_Z n)%Q.
  Hypothesis Hlg : -1075 <= flog2_q n d <= 1024.

  Lemma find_e10_total : exists E, find_e10 8 n d (est_e10 n d) = Some E.
  Proof.
    destruct (flog2_q_spec n d Hn Hd t Ht) as [L1 L2].
    pose proof (e10_ok_range _ Hlg) as OK. unfold e10_ok in OK.
    unfold est_e10. set (lg := flog2_q n d) in *. set (e := lg * 30103 / 100000) in *.
    apply andb_true_iff in OK. destruct OK as [O1 O2].
    apply pow_le_10_2 in O1. apply pow_le_2_10 in O2.
    assert (Lo : (p10 (e - 1) <= t)%Q) by lra.
    assert (Hi : (t < p10 (e + 2))%Q) by lra.
    pose proof (q_lt_pow10_spec n d Hd t Ht e) as Q0.
    pose proof (q_lt_pow10_spec n d Hd t Ht (e + 1)) as Q1.
    pose proof (q_lt_pow10_spec n d Hd t Ht (e - 1)) as Qm.
    pose proof (q_lt_pow10_spec n d Hd t Ht (e + 2)) as Q2.
    change 8%nat with (S (S 6)). cbn [find_e10].
    destruct (q_lt_pow10 n d e) eqn:E0.
    - (* t < 10^e: one step down *)
      destruct (q_lt_pow10 n d (e - 1)) eqn:Em; [exfalso; lra|].
      replace (e - 1 + 1) with e by lia. rewrite E0. eauto.
    - destruct (q_lt_pow10 n d (e + 1)) eqn:E1; [eauto|].
      replace (e + 1 + 1) with (e + 2) by lia.
      destruct (q_lt_pow10 n d (e + 2)) eqn:E2; [eauto | exfalso; lra].
  Qed.

  Lemma sci_digits_total : forall p, exists D E, sci_digits p n d = Some (D, E).
  Proof.
    intros p. unfold sci_digits. destruct find_e10_total as [E ->].
    destruct (scale_round n d (p - E) =? 10 ^ (p + 1)); eauto.
  Qed.
End Fuel.

Lemma p2_lt_exp : forall a b, (p2 a < p2 b)%Q -> a < b.
Proof.
  intros a b H. destruct (Z_lt_le_dec a b) as [L|L]; [exact L|].
  pose proof (p2_mono b a L). lra.
Qed.

(* the binary exponent of a non-zero double *)
Lemma double_lg_range : forall x, is_double x -> 0 < dman x ->
  -1075 <= flog2_q (d_num x) (d_den x) <= 1024.
Proof.
  intros x (Hm & He & Hf) Pm.
  destruct (d_frac x) as [Fx Dp]. pose proof (d_num_pos x Pm) as Np.
  destruct (flog2_q_spec (d_num x) (d_den x) Np Dp (dabs x) Fx) as [L1 L2].
  set (lg := flog2_q (d_num x) (d_den x)) in *.
  assert (Lo : (p2 (-1074) <= dabs x)%Q).
  { unfold dabs. fold (p2 (dexp x)). pose proof (p2_mono (-1074) (dexp x) He). pose proof (p2_pos (dexp x)).
    assert (1 <= inject_Z (dman x))%Q by (unfold Qle; cbn; lia). nra. }
  split.
  - assert (p2 (-1074) < p2 (lg + 1))%Q by lra. apply p2_lt_exp in H. lia.
  - assert (p2 lg < p2 1024)%Q by lra. apply p2_lt_exp in H. lia.
Qed.

Lemma sci_digits_double : forall x p, is_double x -> 0 < dman x ->
  exists D E, sci_digits p (d_num x) (d_den x) = Some (D, E).
Proof.
  intros x p Hd Pm. destruct (d_frac x) as [Fx Dp].
  exact (sci_digits_total (d_num x) (d_den x) (d_num_pos x Pm) Dp (dabs x) Fx (double_lg_range x Hd Pm) p).
Qed.

Lemma e_parts_total : forall x p, is_double x -> exists me, e_parts p x = Ok me.
Proof.
  intros x p Hd. unfold e_parts. destruct (dman x =? 0) eqn:Z0; [eauto|].
  apply Z.eqb_neq in Z0. assert (Pm : 0 < dman x) by (destruct Hd as ((H & _) & _); lia).
  destruct (sci_digits_double x p Hd Pm) as (D & E & ->). eauto.
Qed.

Lemma g_body_total : forall x P0, is_double x -> 0 <= P0 -> exists b, g_body P0 x = Ok b.
Proof.
  intros x P0 Hd HP. unfold g_body. destruct (dman x =? 0) eqn:Z0; [eauto|].
  apply Z.eqb_neq in Z0. assert (Pm : 0 < dman x) by (destruct Hd as ((H & _) & _); lia).
  set (P := if P0 =? 0 then 1 else P0).
  assert (P1 : 1 <= P) by (unfold P; destruct (P0 =? 0) eqn:E; [lia | apply Z.eqb_neq in E; lia]).
  destruct (sci_digits_double x (P - 1) Hd Pm) as (D & E & ->).
  destruct (andb (-4 <=? E) (E <? P)); [eauto|].
  pose proof (length_digits_fixed (Z.to_nat P) D) as L.
  destruct (digits_fixed (Z.to_nat P) D); [cbn in L; lia | eauto].
Qed.

(* _format_float never fails on a double *)
Lemma format_float_total : forall reversed f x p, is_double x -> 0 <= p ->
  exists t, format_float reversed f x p = Ok t.
Proof.
  intros reversed f x p Hd Hp. unfold format_float.
  destruct (negb reversed).
  - destruct (g_body_total x p Hd Hp) as [b ->]. cbn [bind]. eauto.
  - destruct (is_scientific f).
    + destruct (e_parts_total x p Hd) as [[mant E] ->]. cbn [bind]. eauto.
    + destruct (as_int f).
      * destruct (g_body_total x (Z.max p 6) Hd ltac:(lia)) as [b ->]. cbn [bind]. eauto.
      * eauto.
Qed.

(* the only thing that can go wrong in the test of the loop is float() refusing the text *)
Lemma reads_back_errors : forall temp x e, reads_back temp x = Err e -> e = EValue.
Proof.
  intros temp x e H. unfold reads_back, fortran_float in H.
  destruct (fortran_scan (strip temp)); [|inversion H; reflexivity].
  destruct (mk_round _ _ _); discriminate.
Qed.

Lemma prec_loop_errors : forall reversed f x, is_double x -> forall fuel p t0 e, 0 <= p ->
  prec_loop reversed f x fuel p t0 = Err e -> e = EValue.
Proof.
  intros reversed f x Hd. induction fuel as [|k IH]; intros p t0 e Hp H; [discriminate|].
  cbn [prec_loop] in H. destruct (reads_back t0 x) as [[|]|e'] eqn:R; cbn [bind] in H.
  - discriminate.
  - destruct (format_float_total reversed f x (p + 1) Hd ltac:(lia)) as [t1 F]. rewrite F in H. cbn [bind] in H.
    apply (IH (p + 1) t1 e); [lia | exact H].
  - inversion H; subst. apply (reads_back_errors _ _ _ R).
Qed.

(* the float branch of format() on a double: a text, or the ValueError of float(); never out of fuel *)
Lemma float_text_errors : forall reversed f x e, is_double x -> 0 <= precision f ->
  float_text reversed f x = Err e -> e = EValue.
Proof.
  intros reversed f x e Hd Hp H. unfold float_text in H.
  destruct (format_float_total reversed f x (precision f) Hd Hp) as [t0 F]. rewrite F in H. cbn [bind] in H.
  destruct (prec_loop reversed f x (Z.to_nat (17 - precision f)) (precision f) t0) as [temp|e'] eqn:L; cbn [bind] in H.
  - destruct (reads_back temp x) as [[|]|e''] eqn:R; cbn [bind] in H.
    + discriminate.
    + unfold fallback_text in H. destruct (g_body_total x 17 Hd ltac:(lia)) as [b G]. rewrite G in H. discriminate.
    + inversion H; subst. apply (reads_back_errors _ _ _ R).
  - inversion H; subst. apply (prec_loop_errors reversed f x Hd _ _ _ _ Hp L).
Qed.

(* ------------------------------------------------------------------------------------------ *)
(* 17. format() never raises on a double: float() accepts every text _format_float produces *)

Definition is_dD (a : ascii) : bool := orb (Ascii.eqb a "d"%char) (Ascii.eqb a "D"%char).
Fixpoint no_dD (s : string) : bool :=
  match s with EmptyString => true | String a r => andb (negb (is_dD a)) (no_dD r) end.

Lemma no_dD_app : forall a b, no_dD (a ++ b) = andb (no_dD a) (no_dD b).
Proof.
  induction a as [|x a IH]; intros b; [reflexivity|]. cbn [append no_dD]. now rewrite IH, andb_assoc.
Qed.

Lemma digit_not_dD : forall a, is_digit a = true -> is_dD a = false.
Proof. intros a H. destruct a as [[] [] [] [] [] [] [] []]; try reflexivity; discriminate. Qed.

Lemma all_digits_no_dD : forall s, all_digits s = true -> no_dD s = true.
Proof.
  induction s as [|a s IH]; intros H; [reflexivity|].
  cbn [all_digits] in H. apply andb_true_iff in H. destruct H as [Ha Hs].
  cbn [no_dD]. rewrite (digit_not_dD a Ha), (IH Hs). reflexivity.
Qed.

Lemma no_dD_zeros : forall z, no_dD (zeros z) = true.
Proof. intros. apply all_digits_no_dD, all_digits_zeros. Qed.

Lemma no_dD_blanks : forall z, no_dD (blanks z) = true.
Proof. intros z. unfold blanks. induction (Z.to_nat z); [reflexivity | exact IHn]. Qed.

Lemma no_dD_sign_text : forall sopt neg, no_dD (sign_text sopt neg) = true.
Proof.
  intros. unfold sign_text. destruct neg; [reflexivity|].
  destruct (Ascii.eqb sopt "+"); [reflexivity|]. destruct (Ascii.eqb sopt " "); reflexivity.
Qed.

Lemma no_dD_exp_sign : forall E, no_dD (exp_sign E) = true.
Proof. intros. unfold exp_sign. destruct (E <? 0); reflexivity. Qed.

Lemma no_dD_show : forall v, no_dD (show_nat_Z v) = true.
Proof. intros. apply all_digits_no_dD, all_digits_show. Qed.

Lemma no_dD_fixed : forall k D, no_dD (digits_fixed k D) = true.
Proof. intros. apply all_digits_no_dD, all_digits_fixed. Qed.

Lemma no_dD_exp_digits : forall E, no_dD (exp_digits E) = true.
Proof. intros. apply all_digits_no_dD. apply (exp_digits_props E). Qed.

Lemma no_dD_mantissa : forall p D, no_dD (mantissa_text p D) = true.
Proof.
  intros p D. unfold mantissa_text. pose proof (no_dD_fixed (Z.to_nat (p + 1)) D) as H.
  destruct (digits_fixed (Z.to_nat (p + 1)) D) as [|a r]; [reflexivity|].
  cbn [no_dD] in H. apply andb_true_iff in H. destruct H as [Ha Hr].
  destruct (p =? 0); cbn [no_dD append]; rewrite Ha; cbn; [reflexivity | exact Hr].
Qed.

Lemma no_dD_rstrip_zeros : forall s, no_dD s = true -> no_dD (rstrip_zeros s) = true.
Proof.
  induction s as [|a s IH]; intros H; [reflexivity|].
  cbn [no_dD] in H. apply andb_true_iff in H. destruct H as [Ha Hs]. cbn [rstrip_zeros].
  destruct (andb (Ascii.eqb a "0") (String.eqb (rstrip_zeros s) "")); [reflexivity|].
  cbn [no_dD]. now rewrite Ha, (IH Hs).
Qed.

Lemma no_dD_with_frac : forall ip frac, no_dD ip = true -> no_dD frac = true -> no_dD (with_frac ip frac) = true.
Proof.
  intros ip frac H1 H2. unfold with_frac. pose proof (no_dD_rstrip_zeros frac H2) as H3.
  destruct (String.eqb (rstrip_zeros frac) ""); [exact H1|].
  rewrite !no_dD_app, H1, H3. reflexivity.
Qed.

Lemma no_dD_f_body : forall p x, no_dD (f_body p x) = true.
Proof.
  intros. unfold f_body. destruct (p =? 0); [apply no_dD_show|].
  rewrite !no_dD_app, no_dD_show, no_dD_fixed. reflexivity.
Qed.

Lemma no_dD_g_body : forall P0 x b, g_body P0 x = Ok b -> no_dD b = true.
Proof.
  intros P0 x b H. unfold g_body in H. destruct (dman x =? 0); [inversion H; reflexivity|].
  destruct (sci_digits _ _ _) as [[D E]|]; [|discriminate].
  destruct (andb (-4 <=? E) (E <? _)).
  - inversion H. apply no_dD_with_frac; [apply no_dD_show | apply no_dD_fixed].
  - pose proof (no_dD_fixed (Z.to_nat (if P0 =? 0 then 1 else P0)) D) as F.
    destruct (digits_fixed _ D) as [|a r]; [discriminate|]. inversion H.
    cbn [no_dD] in F. apply andb_true_iff in F. destruct F as [Fa Fr].
    rewrite no_dD_app. apply andb_true_iff. split.
    + apply no_dD_with_frac; [cbn [no_dD]; now rewrite Fa | exact Fr].
    + change ("e" ++ exp_sign E ++ exp_digits E) with (String "e" (exp_sign E ++ exp_digits E)).
      cbn [no_dD]. change (is_dD "e") with false. cbn [negb andb].
      rewrite no_dD_app, no_dD_exp_sign, no_dD_exp_digits. reflexivity.
Qed.

Lemma no_dD_zfill : forall sg b w, no_dD sg = true -> no_dD b = true -> no_dD (zfill sg b w) = true.
Proof. intros. unfold zfill. rewrite !no_dD_app, H, H0, no_dD_zeros. reflexivity. Qed.

Lemma no_dD_format_float : forall reversed f x p t,
  (divider f = "" \/ divider f = "e" \/ divider f = "E") ->
  format_float reversed f x p = Ok t -> no_dD t = true.
Proof.
  intros reversed f x p t Hdiv H. unfold format_float in H.
  destruct (negb reversed).
  - destruct (g_body p x) as [b|] eqn:G; [|discriminate]. inversion H.
    apply no_dD_zfill; [apply no_dD_sign_text | exact (no_dD_g_body _ _ _ G)].
  - destruct (is_scientific f).
    + destruct (e_parts p x) as [[mant E]|] eqn:EP; [|discriminate]. inversion H.
      assert (Hm : no_dD mant = true).
      { unfold e_parts in EP. destruct (dman x =? 0); [inversion EP; apply no_dD_mantissa|].
        destruct (sci_digits _ _ _) as [[D E']|]; [|discriminate]. inversion EP. apply no_dD_mantissa. }
      assert (Hd : no_dD (divider f) = true) by (destruct Hdiv as [->|[->| ->]]; reflexivity).
      unfold ljust, zfill.
      rewrite !no_dD_app, no_dD_sign_text, !no_dD_zeros, Hm, Hd, no_dD_exp_sign, no_dD_show, no_dD_blanks.
      reflexivity.
    + destruct (as_int f).
      * destruct (g_body (Z.max p 6) x) as [b|] eqn:G; [|discriminate]. inversion H.
        apply no_dD_zfill; [apply no_dD_sign_text | exact (no_dD_g_body _ _ _ G)].
      * inversion H. apply no_dD_zfill; [apply no_dD_sign_text | apply no_dD_f_body].
Qed.

(* without a 'd' or 'D' in the text, the Fortran reader and Python's float() scan it alike *)
Lemma scan_eEdD_eE : forall s sc, no_dD s = true ->
  scan_number letter_eEdD s = Some sc -> scan_number letter_eE s = Some sc.
Proof.
  intros s sc ND H. unfold scan_number in *.
  destruct (take_sign s) as [sg r0] eqn:TS. destruct (take_sign_spec _ _ _ TS) as [Es _].
  destruct (span_digits r0) as [d1 r1] eqn:S1. destruct (span_digits_spec _ _ _ S1) as [E1 _].
  assert (X : exists pre, r1 = pre ++
     snd (match r1 with
          | String "."%char t => let (d2, r2) := span_digits t in (true, d2, r2)
          | _ => (false, "", r1)
          end)).
  { destruct r1 as [|c t]; [exists ""; reflexivity|].
    destruct (Ascii.eqb c ".") eqn:Ec.
    - apply Ascii.eqb_eq in Ec. subst c. destruct (span_digits t) as [d2 r2] eqn:S2.
      destruct (span_digits_spec _ _ _ S2) as [E2 _]. exists ("." ++ d2). cbn. now rewrite E2.
    - exists "". destruct c as [[] [] [] [] [] [] [] []]; try reflexivity. discriminate. }
  destruct (match r1 with
            | String "."%char t => let (d2, r2) := span_digits t in (true, d2, r2)
            | _ => (false, "", r1)
            end) as [[dt d2] r2].
  destruct X as (pre & Er1). cbn [snd] in Er1.
  destruct (andb (String.eqb d1 "") (String.eqb d2 "")); [discriminate|].
  destruct r2 as [|a t]; [exact H|].
  assert (Na : is_dD a = false).
  { rewrite Es, E1, Er1, !no_dD_app in ND.
    apply andb_true_iff in ND; destruct ND as [_ ND].
    apply andb_true_iff in ND; destruct ND as [_ ND].
    apply andb_true_iff in ND; destruct ND as [_ ND].
    cbn [no_dD] in ND. apply andb_true_iff in ND. destruct ND as [ND _]. now apply negb_true_iff in ND. }
  assert (Eq : letter_eEdD a = letter_eE a).
  { unfold letter_eEdD. fold (is_dD a). rewrite Na. apply orb_false_r. }
  rewrite <- Eq. exact H.
Qed.

Lemma rstrip_no_stop : forall s, no_stop s = true -> rstrip_ws s = s.
Proof.
  induction s as [|a s IH]; intros H; [reflexivity|].
  cbn [no_stop] in H. apply andb_true_iff in H. destruct H as [Ha Hs]. apply negb_true_iff in Ha.
  cbn [rstrip_ws]. rewrite (IH Hs), (stop_not_ws a Ha). reflexivity.
Qed.

Lemma strip_drop_blank : forall t, drop_blank t <> "" -> no_stop (drop_blank t) = true ->
  strip t = drop_blank t.
Proof.
  intros t N W. unfold strip.
  assert (L : lstrip_ws t = drop_blank t).
  { destruct t as [|a t']; [reflexivity|]. destruct (Ascii.eqb a " ") eqn:E.
    - apply Ascii.eqb_eq in E. subst a. cbn [drop_blank] in *. cbn [lstrip_ws].
      change (is_ws " ") with true. cbn iota. apply lstrip_no_stop; assumption.
    - assert (D : drop_blank (String a t') = String a t').
      { unfold drop_blank. destruct a as [[] [] [] [] [] [] [] []]; try reflexivity. discriminate. }
      rewrite D in *. apply lstrip_no_stop; assumption. }
  rewrite L. apply rstrip_no_stop. exact W.
Qed.

Lemma no_dD_drop_blank : forall t, no_dD t = true -> no_dD (drop_blank t) = true.
Proof.
  intros [|a t] H; [reflexivity|]. unfold drop_blank.
  destruct a as [[] [] [] [] [] [] [] []]; exact H.
Qed.

(* a text the Fortran reader reads and that has no d/D is a text the loop's test can judge *)
Lemma reads_back_total : forall temp x r,
  read_number (drop_blank temp) = Some r -> no_dD temp = true -> exists b, reads_back temp x = Ok b.
Proof.
  intros temp x r R ND. destruct (read_no_stop _ _ R) as [W N].
  unfold reads_back, fortran_float, fortran_scan. rewrite (strip_drop_blank temp N W).
  unfold read_number in R. destruct (scan_number letter_eEdD (drop_blank temp)) as [sc|] eqn:S; [|discriminate].
  rewrite (scan_eEdD_eE _ sc (no_dD_drop_blank _ ND) S).
  destruct (mk_round _ _ _); eauto.
Qed.

(* "%g" of zero *)
Lemma g_zero_read : forall sopt neg z,
  read_number (drop_blank (sign_text sopt neg ++ zeros z ++ "0")) = Some (neg, 0, 0).
Proof.
  intros sopt neg z.
  destruct (zeros_digit_head z "0" "0"%char "" eq_refl eq_refl) as (c' & rest' & Ez & Hc').
  destruct (drop_blank_signed sopt neg _ c' rest' Ez Hc') as (Ed & Hsg & Hneg).
  rewrite Ed.
  assert (Ad : all_digits (zeros z ++ "0") = true) by (rewrite all_digits_app, all_digits_zeros; reflexivity).
  assert (Nd : zeros z ++ "0" <> "") by (rewrite Ez; discriminate).
  unfold sign_str. rewrite (read_int_text (read_sign sopt neg) _ Hsg Ad Nd). rewrite Hneg.
  rewrite digits_val_zeros_app. reflexivity.
Qed.

Lemma g_text_read : forall P0 x b sopt z, 0 <= P0 -> 0 <= dman x -> g_body P0 x = Ok b ->
  exists r, read_number (drop_blank (sign_text sopt (dneg x) ++ zeros z ++ b)) = Some r.
Proof.
  intros P0 x b sopt z HP Hm G. destruct (Z.eq_dec (dman x) 0) as [Z0|NZ].
  - unfold g_body in G. rewrite Z0 in G. cbn in G. inversion G. eexists. apply g_zero_read.
  - destruct (g_body_read P0 x b sopt z HP ltac:(lia) G) as (D & E & M & k & _ & R & _). eauto.
Qed.

(* every text of _format_float is a number the Fortran reader reads, without d/D *)
Lemma format_float_readable : forall reversed f x p t,
  fmt_ok f -> 0 <= p -> 0 <= dman x ->
  format_float reversed f x p = Ok t ->
  (exists r, read_number (drop_blank t) = Some r) /\ no_dD t = true.
Proof.
  intros reversed f x p t (Hel & Hdiv & _) Hp Hm H. split; [|exact (no_dD_format_float _ _ _ _ _ Hdiv H)].
  destruct reversed.
  - destruct (is_scientific f) eqn:Sc.
    + destruct (sci_branch_read f x p t Sc Hp Hel Hdiv Hm H) as (D & E & R & _). eauto.
    + destruct (as_int f) eqn:Ai.
      * unfold format_float in H. cbn [negb] in H. rewrite Sc, Ai in H.
        destruct (g_body (Z.max p 6) x) as [b|] eqn:G; [|discriminate]. inversion H. unfold zfill.
        apply (g_text_read (Z.max p 6) x b); [lia | exact Hm | exact G].
      * destruct (fixed_branch_error f x p t Sc Ai Hp Hm H) as (r & R & _). eauto.
  - unfold format_float in H. cbn [negb] in H.
    destruct (g_body p x) as [b|] eqn:G; [|discriminate]. inversion H. unfold zfill.
    apply (g_text_read p x b); [exact Hp | exact Hm | exact G].
Qed.

Lemma prec_loop_total : forall reversed f x, is_double x -> fmt_ok f -> forall fuel p t0, 0 <= p ->
  format_float reversed f x p = Ok t0 ->
  exists temp q, prec_loop reversed f x fuel p t0 = Ok temp /\ p <= q /\ format_float reversed f x q = Ok temp.
Proof.
  intros reversed f x Hd Hf. assert (Hm : 0 <= dman x) by (destruct Hd as ((H & _) & _); exact H).
  induction fuel as [|k IH]; intros p t0 Hp F.
  - exists t0, p. cbn. repeat split; [lia | exact F].
  - cbn [prec_loop]. destruct (format_float_readable _ _ _ _ _ Hf Hp Hm F) as [[r R] ND].
    destruct (reads_back_total t0 x r R ND) as [[|] ->]; cbn [bind].
    + exists t0, p. repeat split; [lia | exact F].
    + destruct (format_float_total reversed f x (p + 1) Hd ltac:(lia)) as [t1 F1]. rewrite F1. cbn [bind].
      destruct (IH (p + 1) t1 ltac:(lia) F1) as (temp & q & L & Q1 & Q2).
      exists temp, q. repeat split; [exact L | lia | exact Q2].
Qed.

Lemma float_text_total : forall reversed f x, is_double x -> fmt_ok f ->
  exists s, float_text reversed f x = Ok s.
Proof.
  intros reversed f x Hd Hf. assert (Hm : 0 <= dman x) by (destruct Hd as ((H & _) & _); exact H).
  pose proof Hf as (_ & _ & Hp).
  unfold float_text.
  destruct (format_float_total reversed f x (precision f) Hd Hp) as [t0 F]. rewrite F. cbn [bind].
  destruct (prec_loop_total reversed f x Hd Hf (Z.to_nat (17 - precision f)) (precision f) t0 Hp F)
    as (temp & q & L & Q1 & Q2). rewrite L. cbn [bind].
  assert (Hq : 0 <= q) by lia.
  destruct (format_float_readable _ _ _ _ _ Hf Hq Hm Q2) as [[r R] ND].
  destruct (reads_back_total temp x r R ND) as [[|] ->]; cbn [bind]; [eauto|].
  unfold fallback_text. destruct (g_body_total x 17 Hd ltac:(lia)) as [b ->]. cbn [bind]. eauto.
Qed.

(* float(round(x)) does not overflow *)
Lemma round_to_dbl_total : forall x, is_double x -> exists a, to_dbl (VInt (py_round (VFlt x))) = Some a.
Proof.
  intros x (Hm & He & Hf). cbn [to_dbl].
  set (n := py_round (VFlt x)).
  destruct (Z.eq_dec n 0) as [N0|NZ].
  - rewrite N0. cbn. eauto.
  - (* |n| is itself a double below 2^1024 *)
    assert (A : exists mx ex, 0 <= mx < 2 ^ 53 /\ -1074 <= ex /\
                (inject_Z (Z.abs n) == inject_Z mx * p2 ex)%Q /\ (inject_Z mx * p2 ex < p2 1024)%Q).
    { unfold n, py_round. set (a := if 0 <=? dexp x then dman x * 2 ^ dexp x else rhe (dman x) (2 ^ (- dexp x))).
      assert (Ea : Z.abs (if dneg x then - a else a) = Z.abs a) by (destruct (dneg x); lia).
      rewrite Ea. unfold a. destruct (0 <=? dexp x) eqn:E.
      - apply Z.leb_le in E. exists (dman x), (dexp x). split; [exact Hm|]. split; [exact He|].
        assert (P : 0 <= dman x * 2 ^ dexp x) by (apply Z.mul_nonneg_nonneg; [lia | apply Z.pow_nonneg; lia]).
        rewrite Z.abs_eq by exact P. rewrite inject_Z_mult, <- (p2_inj _ E). split; [reflexivity | exact Hf].
      - apply Z.leb_gt in E.
        assert (Pb : 0 < 2 ^ (- dexp x)) by (apply Z.pow_pos_nonneg; lia).
        pose proof (rhe_nonneg (dman x) (2 ^ (- dexp x)) ltac:(lia) Pb) as R0.
        pose proof (rhe_bound (dman x) (2 ^ (- dexp x)) Pb) as RB.
        assert (R1 : rhe (dman x) (2 ^ (- dexp x)) <= 2 ^ 52).
        { assert (2 <= 2 ^ (- dexp x)) by (change 2 with (2 ^ 1) at 1; apply Z.pow_le_mono_r; lia).
          change (2 ^ 53) with 9007199254740992 in Hm. change (2 ^ 52) with 4503599627370496. nia. }
        rewrite Z.abs_eq by exact R0.
        exists (rhe (dman x) (2 ^ (- dexp x))), 0. change (2 ^ 52) with 4503599627370496 in R1.
        change (2 ^ 53) with 9007199254740992.
        split; [lia|]. split; [lia|]. change (p2 0) with 1%Q. split; [ring|].
        rewrite Qmult_1_r. apply Qle_lt_trans with (inject_Z 4503599627370496).
        + rewrite <- Zle_Qle. exact R1.
        + rewrite (p2_inj 1024) by lia. rewrite <- Zlt_Qlt. reflexivity. }
    destruct A as (mx & ex & Hmx & Hex & Eq & Lt).
    assert (Np : 0 < Z.abs n) by lia.
    unfold mk_round, round_dbl. assert (Nz : (Z.abs n =? 0) = false) by (apply Z.eqb_neq; lia). rewrite Nz.
    destruct (round_core (Z.abs n) 1) as [m e] eqn:RC.
    assert (Fr : (inject_Z (Z.abs n) * inject_Z 1 == inject_Z (Z.abs n))%Q) by ring.
    assert (Cl : (Qabs (inject_Z (Z.abs n) - inject_Z mx * p2 ex) <= delta17 * (inject_Z mx * p2 ex))%Q).
    { rewrite Eq. setoid_replace (inject_Z mx * p2 ex - inject_Z mx * p2 ex)%Q with 0%Q by ring.
      cbn [Qabs]. change (Qabs 0) with 0%Q. rewrite <- Eq.
      apply Qmult_le_0_compat; [unfold delta17; cbn; unfold Qle; cbn; lia | unfold Qle; cbn; lia]. }
    pose proof (round_near_double (Z.abs n) 1 Np ltac:(lia) (inject_Z (Z.abs n)) Fr m e mx ex RC Hmx Hex Cl) as V.
    assert (NoOv : andb (0 <=? e) (2 ^ 1024 <=? m * 2 ^ e) = false).
    { destruct (0 <=? e) eqn:E0; [|reflexivity]. apply Z.leb_le in E0. cbn [andb]. apply Z.leb_gt.
      rewrite <- V in Lt. rewrite (p2_inj e E0), (p2_inj 1024) in Lt by lia.
      rewrite <- inject_Z_mult, <- Zlt_Qlt in Lt. exact Lt. }
    rewrite NoOv. eauto.
Qed.

(* format() returns a text for every float node and every double *)
Theorem float_format_total : forall tok pad np nd x,
  make_node KFloat tok pad np = Ok nd -> is_double x ->
  exists s, format (set_value nd (VFlt x)) = Ok s.
Proof.
  intros tok pad np nd x MK Hd.
  destruct (make_node_float_inv tok pad np nd MK) as (Hf & Htok & Hog).
  set (nd' := set_value nd (VFlt x)).
  assert (Hv : n_value nd' = Some (VFlt x)) by reflexivity.
  assert (Hf' : n_isfloat nd' = true) by exact Hf.
  assert (Hog' : n_og nd' = n_og nd) by reflexivity.
  unfold format.
  assert (VC : exists ch, value_changed nd' = Ok ch).
  { unfold value_changed. rewrite Hv, Hog', Hf'.
    destruct Hog as [[_ Ho]|(t & xo & _ & _ & Ho)]; rewrite Ho; cbn [to_dbl]; eauto. }
  destruct VC as [ch ->]. cbn [bind]. destruct ch; cbn [negb]; [|eauto].
  rewrite Hv.
  assert (FO : exists reversed f, (match reverse_formatting nd' with Some f => (true, f) | None => (false, default_fmt) end)
                                  = (reversed, f) /\ fmt_ok f).
  { destruct (reverse_formatting nd') as [f|] eqn:RF.
    - exists true, f. split; [reflexivity | exact (reverse_formatting_ok nd' f RF)].
    - exists false, default_fmt. split; [reflexivity | exact default_fmt_ok]. }
  destruct FO as (reversed & f & -> & Fok).
  assert (RT : exists temp, render_temp nd' reversed f (VFlt x) = Ok temp).
  { unfold render_temp, can_float_to_int. rewrite Hf'. cbn [andb].
    destruct (as_int f); cbn [negb bind].
    - destruct (round_to_dbl_total x Hd) as [a ->]. cbn [to_dbl bind negb orb].
      destruct (isclose a x); [eauto | exact (float_text_total reversed f x Hd Fok)].
    - cbn [orb to_dbl]. exact (float_text_total reversed f x Hd Fok). }
  destruct RT as [temp ->]. cbn [bind]. eauto.
Qed.

(* the float theorem without "if format() returns a text" *)
Theorem float_node_close_total : forall tok pad np nd x,
  make_node KFloat tok pad np = Ok nd ->
  is_double x ->
  followed_ok (pad_nodes (set_value nd (VFlt x))) ->
  exists s y, format (set_value nd (VFlt x)) = Ok s /\ reads_as s y /\ isclose y x = true.
Proof.
  intros tok pad np nd x MK Hd FO.
  destruct (float_format_total tok pad np nd x MK Hd) as [s H].
  destruct (float_node_close tok pad np nd x s MK Hd FO H) as (y & R & C).
  exists s, y. auto.
Qed.
