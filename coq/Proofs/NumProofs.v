(* NumProofs.v — lemmas and proofs about the number-writing model Model/Num.v (property C05).
   No axioms, no admits. *)
From Coq Require Import List String Ascii ZArith QArith Qabs Qpower Bool Lia Lqa.
From MPV Require Import Model.Wire Model.Num.
Import ListNotations.
Open Scope string_scope.
Open Scope Z_scope.

(* ------------------------------------------------------------------------------------------ *)
(* 0. strings *)
Lemma sapp_nil_r : forall s : string, s ++ "" = s.
Proof. induction s as [|a s IH]; simpl; [reflexivity | now rewrite IH]. Qed.

Lemma sapp_assoc : forall a b c : string, (a ++ b) ++ c = a ++ (b ++ c).
Proof. induction a as [|x a IH]; intros b c; simpl; [reflexivity | now rewrite IH]. Qed.

Lemma slen_app : forall a b, slen (a ++ b) = slen a + slen b.
Proof.
  unfold slen. induction a as [|x a IH]; intros b.
  - reflexivity.
  - change (String.length (String x a ++ b)) with (S (String.length (a ++ b))).
    change (String.length (String x a)) with (S (String.length a)).
    rewrite !Nat2Z.inj_succ, IH. lia.
Qed.

Lemma slen_nonneg : forall s, 0 <= slen s.
Proof. intros; unfold slen; lia. Qed.

Lemma slen_cons : forall a s, slen (String a s) = 1 + slen s.
Proof. intros. unfold slen. change (String.length (String a s)) with (S (String.length s)). lia. Qed.

(* ------------------------------------------------------------------------------------------ *)
(* 1. an unchanged value keeps its spelling *)

Lemma d_eqb_refl : forall a, d_eqb a a = true.
Proof. intros a. unfold d_eqb. apply Z.eqb_refl. Qed.

Lemma isclose_refl : forall a, isclose a a = true.
Proof. intros a. unfold isclose. now rewrite d_eqb_refl. Qed.

(* whatever value is set: if _value_changed says "no", the token and its padding are written verbatim *)
Lemma unchanged_general : forall nd v,
  value_changed (set_value nd v) = Ok false ->
  format (set_value nd v) = Ok (tok_text (n_tok nd) ++ pad_text (pad_nodes (set_value nd v))).
Proof.
  intros nd v H. unfold format. rewrite H. reflexivity.
Qed.

Lemma set_value_pad_some : forall nd v w, n_value nd = Some w -> n_pad (set_value nd v) = n_pad nd.
Proof. intros nd v w H. unfold set_value. rewrite H. reflexivity. Qed.

(* float node: setting the value the token already has *)
Lemma unchanged_float : forall s pad np x,
  fortran_float s = Ok x ->
  render KFloat (TText s) pad np (VFlt x)
  = Ok (s ++ pad_text (match pad with Some l => l | None => [] end)).
Proof.
  intros s pad np x H. unfold render, make_node. rewrite H. cbn [bind].
  unfold format, value_changed, set_value. cbn -[isclose pad_text].
  rewrite isclose_refl. cbn -[pad_text]. reflexivity.
Qed.

(* any value that math.isclose accepts as equal to the token's value *)
Lemma unchanged_float_tolerance : forall s pad np x y,
  fortran_float s = Ok x -> isclose y x = true ->
  render KFloat (TText s) pad np (VFlt y)
  = Ok (s ++ pad_text (match pad with Some l => l | None => [] end)).
Proof.
  intros s pad np x y H C. unfold render, make_node. rewrite H. cbn [bind].
  unfold format, value_changed, set_value. cbn -[isclose pad_text].
  rewrite C. cbn -[pad_text]. reflexivity.
Qed.

(* integer node: ints are compared exactly *)
Lemma py_eq_refl : forall v, py_eq v v = true.
Proof. intros v. unfold py_eq. apply d_eqb_refl. Qed.

Lemma unchanged_int : forall s pad np n,
  py_int_of_string s = Ok n ->
  render KInt (TText s) pad np (VInt n)
  = Ok (s ++ pad_text (match pad with Some l => l | None => [] end)).
Proof.
  intros s pad np n H. unfold render, make_node. rewrite H. cbn [bind].
  unfold format, value_changed, set_value. cbn -[py_eq pad_text].
  rewrite py_eq_refl. cbn -[pad_text]. reflexivity.
Qed.

(* ------------------------------------------------------------------------------------------ *)
(* 2. no fusion: after the number comes a blank (or the newline / blanks that followed it) *)

Definition starts_ws (s : string) : bool :=
  match s with String a _ => is_ws a | EmptyString => false end.

Lemma blanks_pos_starts : forall n, 0 < n -> starts_ws (blanks n) = true.
Proof.
  intros n H. unfold blanks. destruct (Z.to_nat n) eqn:E; [lia|]. reflexivity.
Qed.

Lemma blanks_nonpos : forall n, n <= 0 -> blanks n = "".
Proof. intros n H. unfold blanks. replace (Z.to_nat n) with O by lia. reflexivity. Qed.

Lemma starts_ws_app : forall a b, starts_ws a = true -> starts_ws (a ++ b) = true.
Proof. intros [|x a] b H; [discriminate | exact H]. Qed.

Lemma starts_ws_app_nil : forall a b, a = "" -> starts_ws b = true -> starts_ws (a ++ b) = true.
Proof. intros a b -> H. exact H. Qed.

Lemma all_ws_starts : forall s, all_ws s = true -> s <> "" -> starts_ws s = true.
Proof.
  intros [|a s] H N; [congruence|]. cbn in H. apply andb_true_iff in H. apply H.
Qed.

Lemma pad_text_cons : forall p l, pad_text (p :: l) = pnode_text p ++ pad_text l.
Proof.
  intros p [|q l]; unfold pad_text; cbn.
  - now rewrite sapp_nil_r.
  - reflexivity.
Qed.

Lemma finish_no_fusion : forall nd f temp p rest,
  pad_nodes nd = p :: rest -> pnode_is_space p = true ->
  Forall (fun q => pnode_text q <> "") rest ->
  exists tail, finish nd f temp = temp ++ tail /\ starts_ws tail = true.
Proof.
  intros nd f temp p rest HP HS HN. unfold finish. rewrite HP, HS.
  unfold ljust. set (w := value_length f).
  destruct (Z_lt_le_dec (slen temp) w) as [Hlt|Hge].
  - (* the column is not full: blanks follow *)
    eexists. rewrite !sapp_assoc. split; [reflexivity|].
    apply starts_ws_app. apply blanks_pos_starts. lia.
  - rewrite (blanks_nonpos (w - slen temp)) by lia. rewrite sapp_nil_r.
    assert (Hle : (w <=? slen temp) = true) by (apply Z.leb_le; lia). rewrite Hle. cbn [andb].
    destruct rest as [|q rest'].
    + cbn [negb]. eexists. split; [reflexivity|]. reflexivity.
    + destruct (orb (pnode_is_space q)
                    (match q with PStr s => String.eqb s newline | PCom _ => false end)) eqn:Sv.
      * cbn [negb]. eexists. split; [reflexivity|]. cbn [append].
        rewrite pad_text_cons. apply starts_ws_app.
        inversion HN as [|? ? Hq _]; subst.
        apply orb_true_iff in Sv. destruct Sv as [Sv|Sv].
        -- destruct q as [s|s]; [|discriminate]. cbn in Sv. apply andb_true_iff in Sv.
           apply all_ws_starts; [apply Sv | exact Hq].
        -- destruct q as [s|s]; [|discriminate]. apply String.eqb_eq in Sv. subst s. reflexivity.
      * cbn [negb]. eexists. split; [reflexivity|]. reflexivity.
Qed.

(* ------------------------------------------------------------------------------------------ *)
(* 3. reading back what was written: the first blank-delimited word, as an exact decimal *)

Fixpoint take_word (s : string) : string :=
  match s with String a r => if is_ws a then "" else String a (take_word r) | EmptyString => "" end.
Definition first_word (s : string) : string := take_word (lstrip_ws s).
Definition written_number (s : string) : option (bool * Z * Z) := read_number (first_word s).

Definition sgnQ (neg : bool) : Q := if neg then (-1 # 1)%Q else 1%Q.
(* the exact value of a double and of a decimal (neg, M, k) = +-M * 10^k *)
Definition dval (x : dbl) : Q := (sgnQ (dneg x) * inject_Z (dman x) * (2 # 1) ^ (dexp x))%Q.
Definition decval (r : bool * Z * Z) : Q :=
  let '(neg, M, k) := r in (sgnQ neg * inject_Z M * (10 # 1) ^ k)%Q.
Definition tol : Q := (1 # 1000000000)%Q.
(* math.isclose(r, x, rel_tol=1e-9, abs_tol=0) on exact values *)
Definition Qclose (r x : Q) : Prop :=
  (Qabs (r - x) <= tol * Qabs r \/ Qabs (r - x) <= tol * Qabs x)%Q.
Definition Qclose_b (r x : Q) : bool :=
  orb (Qle_bool (Qabs (r - x)) (tol * Qabs r)) (Qle_bool (Qabs (r - x)) (tol * Qabs x)).
Lemma Qclose_b_false : forall r x, Qclose_b r x = false -> ~ Qclose r x.
Proof.
  intros r x H [C|C]; apply Qle_bool_iff in C; unfold Qclose_b in H; rewrite C in H;
    [discriminate | rewrite orb_true_r in H; discriminate].
Qed.

(* ------------------------------------------------------------------------------------------ *)
(* 4. decimal digit strings *)

Fixpoint all_digits (s : string) : bool :=
  match s with EmptyString => true | String a r => andb (is_digit a) (all_digits r) end.

Lemma digit_of_char : forall d, 0 <= d <= 9 -> digit_of (digit_char d) = Some d.
Proof.
  intros d H.
  assert (C : d = 0 \/ d = 1 \/ d = 2 \/ d = 3 \/ d = 4 \/ d = 5 \/ d = 6 \/ d = 7 \/ d = 8 \/ d = 9) by lia.
  repeat (destruct C as [C|C]; [subst d; reflexivity|]). subst d; reflexivity.
Qed.

Lemma is_digit_char : forall d, 0 <= d <= 9 -> is_digit (digit_char d) = true.
Proof. intros d H. unfold is_digit. now rewrite digit_of_char. Qed.

Lemma all_digits_app : forall a b, all_digits (a ++ b) = andb (all_digits a) (all_digits b).
Proof. induction a as [|x a IH]; intros b; cbn; [reflexivity | now rewrite IH, andb_assoc]. Qed.

Lemma digits_acc_app : forall k D acc, digits_acc k D acc = digits_fixed k D ++ acc.
Proof.
  unfold digits_fixed. induction k as [|k IH]; intros D acc.
  - reflexivity.
  - cbn [digits_acc]. rewrite IH. rewrite (IH (D / 10) (String _ "")).
    rewrite sapp_assoc. reflexivity.
Qed.

Lemma digits_fixed_S : forall k D,
  digits_fixed (S k) D = digits_fixed k (D / 10) ++ String (digit_char (D mod 10)) "".
Proof. intros. unfold digits_fixed at 1. cbn [digits_acc]. apply digits_acc_app. Qed.

Lemma mod10_range : forall D, 0 <= D mod 10 <= 9.
Proof. intros D. pose proof (Z.mod_pos_bound D 10). lia. Qed.

Lemma all_digits_fixed : forall k D, all_digits (digits_fixed k D) = true.
Proof.
  induction k as [|k IH]; intros D.
  - reflexivity.
  - rewrite digits_fixed_S, all_digits_app, IH. cbn. rewrite is_digit_char by apply mod10_range. reflexivity.
Qed.

Lemma length_app_s : forall a b : string, String.length (a ++ b) = (String.length a + String.length b)%nat.
Proof. induction a as [|x a IH]; intros b; cbn; [reflexivity | now rewrite IH]. Qed.

Lemma length_digits_fixed : forall k D, String.length (digits_fixed k D) = k.
Proof.
  induction k as [|k IH]; intros D.
  - reflexivity.
  - rewrite digits_fixed_S, length_app_s, IH. cbn. lia.
Qed.

Lemma digits_val_acc_app : forall a b acc,
  digits_val_acc (a ++ b) acc = digits_val_acc b (digits_val_acc a acc).
Proof. induction a as [|x a IH]; intros b acc; cbn; [reflexivity | now rewrite IH]. Qed.

Lemma digits_val_fixed : forall k D, 0 <= D -> digits_val (digits_fixed k D) = D mod 10 ^ Z.of_nat k.
Proof.
  unfold digits_val. induction k as [|k IH]; intros D HD.
  - cbn. now rewrite Z.mod_1_r.
  - rewrite digits_fixed_S, digits_val_acc_app, IH by (apply Z.div_pos; lia).
    cbn [digits_val_acc]. rewrite digit_of_char by apply mod10_range.
    rewrite Nat2Z.inj_succ, Z.pow_succ_r by lia.
    rewrite (Z.rem_mul_r D 10 (10 ^ Z.of_nat k)) by (try lia; apply Z.pow_pos_nonneg; lia).
    lia.
Qed.

(* number of digits *)
Lemma ndig_bound : forall f n, 0 <= n < 2 * 2 ^ Z.of_nat f -> n < 10 ^ Z.of_nat (ndig f n).
Proof.
  induction f as [|f IH]; intros n H.
  - cbn in *. lia.
  - cbn [ndig]. destruct (n <? 10) eqn:E.
    + apply Z.ltb_lt in E. cbn. lia.
    + apply Z.ltb_ge in E. rewrite Nat2Z.inj_succ, Z.pow_succ_r by lia.
      rewrite Nat2Z.inj_succ, Z.pow_succ_r in H by lia.
      assert (Hd : 0 <= n / 10 < 2 * 2 ^ Z.of_nat f).
      { split; [apply Z.div_pos; lia|]. apply Z.div_lt_upper_bound; lia. }
      specialize (IH _ Hd).
      pose proof (Z.div_mod n 10 ltac:(lia)). pose proof (Z.mod_pos_bound n 10 ltac:(lia)). lia.
Qed.

Lemma ndigits_bound : forall n, 0 <= n -> n < 10 ^ Z.of_nat (ndigits n).
Proof.
  intros n H. unfold ndigits. apply ndig_bound. split; [exact H|].
  destruct (Z.eq_dec n 0) as [->|N]; [cbn; lia|].
  rewrite Z2Nat.id by apply Z.log2_nonneg.
  pose proof (Z.log2_spec n ltac:(lia)). rewrite Z.pow_succ_r in H0 by apply Z.log2_nonneg. lia.
Qed.

Lemma ndig_pos : forall f n, (1 <= ndig f n)%nat.
Proof. destruct f; intros n; cbn; [lia | destruct (n <? 10); lia]. Qed.

Lemma digits_val_show : forall n, 0 <= n -> digits_val (show_nat_Z n) = n.
Proof.
  intros n H. unfold show_nat_Z. rewrite digits_val_fixed by exact H.
  apply Z.mod_small. split; [exact H | apply ndigits_bound; exact H].
Qed.

Lemma all_digits_show : forall n, all_digits (show_nat_Z n) = true.
Proof. intros. apply all_digits_fixed. Qed.

Lemma show_nonempty : forall n, show_nat_Z n <> "".
Proof.
  intros n E. apply (f_equal String.length) in E. unfold show_nat_Z in E.
  rewrite length_digits_fixed in E. unfold ndigits in E. pose proof (ndig_pos (Z.to_nat (Z.log2 n)) n).
  cbn in E. lia.
Qed.

Lemma all_digits_zeros : forall n, all_digits (zeros n) = true.
Proof. intros n. unfold zeros. induction (Z.to_nat n); cbn; [reflexivity | exact IHn0]. Qed.

Lemma digits_val_acc_zeros : forall n s, digits_val_acc (zeros n ++ s) 0 = digits_val_acc s 0.
Proof. intros n s. unfold zeros. induction (Z.to_nat n); cbn; [reflexivity | exact IHn0]. Qed.

Lemma span_digits_all : forall s, all_digits s = true -> span_digits s = (s, "").
Proof.
  induction s as [|a s IH]; intros H; cbn in *.
  - reflexivity.
  - apply andb_true_iff in H. destruct H as [Ha Hs]. rewrite Ha, (IH Hs). reflexivity.
Qed.

(* a non-digit stops the span *)
Definition stops (t : string) : Prop :=
  match t with EmptyString => True | String a _ => is_digit a = false end.
Lemma span_digits_app : forall s t, all_digits s = true -> stops t -> span_digits (s ++ t) = (s, t).
Proof.
  induction s as [|a s IH]; intros t H St; cbn in *.
  - destruct t as [|b t]; [reflexivity|]. cbn in St. cbn. now rewrite St.
  - apply andb_true_iff in H. destruct H as [Ha Hs]. rewrite Ha, (IH t Hs St). reflexivity.
Qed.

Lemma digit_not_sign : forall a, is_digit a = true -> is_sign a = false.
Proof.
  intros a H. unfold is_sign. destruct (Ascii.eqb a "+") eqn:E1.
  - apply Ascii.eqb_eq in E1. subst. discriminate.
  - destruct (Ascii.eqb a "-") eqn:E2; [|reflexivity]. apply Ascii.eqb_eq in E2. subst. discriminate.
Qed.

Lemma take_sign_digits : forall s, all_digits s = true -> take_sign s = (None, s).
Proof.
  intros [|a s] H; [reflexivity|]. cbn in H. apply andb_true_iff in H. destruct H as [Ha _].
  cbn. now rewrite (digit_not_sign a Ha).
Qed.

(* ------------------------------------------------------------------------------------------ *)
(* 5. integers are written exactly *)

(* the text of an integer: optional sign, digits *)
Lemma read_int_text : forall (sg : option ascii) ds,
  match sg with Some a => is_sign a = true | None => True end ->
  all_digits ds = true -> ds <> "" ->
  read_number ((match sg with Some a => String a "" | None => "" end) ++ ds)
  = Some (match sg with Some a => Ascii.eqb a "-" | None => false end, digits_val ds, 0).
Proof.
  intros sg ds Hs Hd Hn. unfold read_number, scan_number.
  assert (Ht : take_sign ((match sg with Some a => String a "" | None => "" end) ++ ds) = (sg, ds)).
  { destruct sg as [a|]; cbn.
    - now rewrite Hs.
    - apply take_sign_digits; exact Hd. }
  rewrite Ht, (span_digits_all ds Hd).
  destruct ds as [|c ds']; [congruence|]. cbn -[digits_val].
  unfold scan_neg, scan_mant, scan_k, scan_exp. cbn -[digits_val].
  rewrite sapp_nil_r. reflexivity.
Qed.

Lemma read_signed : forall a ds, is_sign a = true -> all_digits ds = true -> ds <> "" ->
  read_number (String a ds) = Some (Ascii.eqb a "-", digits_val ds, 0).
Proof. intros a ds Hs Hd Hn. exact (read_int_text (Some a) ds Hs Hd Hn). Qed.
Lemma read_unsigned : forall ds, all_digits ds = true -> ds <> "" ->
  read_number ds = Some (false, digits_val ds, 0).
Proof. intros ds Hd Hn. exact (read_int_text None ds I Hd Hn). Qed.

Definition drop_blank (s : string) : string :=
  match s with String " "%char r => r | _ => s end.

(* "{:0={sign}{width}d}".format(n), read back (after the possible leading blank of sign option " ") *)
Lemma fmt_d_exact : forall sopt width n,
  read_number (drop_blank (fmt_d sopt width n)) = Some (n <? 0, Z.abs n, 0).
Proof.
  intros sopt width n. unfold fmt_d, zfill.
  pose proof (show_nonempty (Z.abs n)) as Hne.
  pose proof (all_digits_show (Z.abs n)) as Hdb0.
  pose proof (digits_val_show (Z.abs n) ltac:(lia)) as Hvb.
  remember (show_nat_Z (Z.abs n)) as body eqn:Hb. clear Hb.
  assert (Hd : forall w, all_digits (zeros w ++ body) = true).
  { intros w. rewrite all_digits_app, all_digits_zeros. exact Hdb0. }
  assert (Hn : forall w, zeros w ++ body <> "").
  { intros w E. apply (f_equal String.length) in E. rewrite length_app_s in E.
    destruct body; [congruence | cbn in E; lia]. }
  assert (Hv : forall w, digits_val (zeros w ++ body) = Z.abs n).
  { intros w. unfold digits_val. rewrite digits_val_acc_zeros. exact Hvb. }
  unfold sign_text. destruct (n <? 0) eqn:En.
  - change ("-" ++ zeros (width - slen "-" - slen body) ++ body)
      with (String "-" (zeros (width - slen "-" - slen body) ++ body)).
    cbn [drop_blank]. rewrite read_signed; [|reflexivity|apply Hd|apply Hn]. rewrite Hv. reflexivity.
  - destruct (Ascii.eqb sopt "+") eqn:E1; [|destruct (Ascii.eqb sopt " ") eqn:E2].
    + change ("+" ++ zeros (width - slen "+" - slen body) ++ body)
        with (String "+" (zeros (width - slen "+" - slen body) ++ body)).
      cbn [drop_blank]. rewrite read_signed; [|reflexivity|apply Hd|apply Hn]. rewrite Hv. reflexivity.
    + change (" " ++ zeros (width - slen " " - slen body) ++ body)
        with (String " " (zeros (width - slen " " - slen body) ++ body)).
      cbn [drop_blank]. rewrite read_unsigned; [|apply Hd|apply Hn]. rewrite Hv. reflexivity.
    + change ("" ++ zeros (width - slen "" - slen body) ++ body)
        with (zeros (width - slen "" - slen body) ++ body).
      assert (Hdb : forall s, all_digits s = true -> drop_blank s = s).
      { intros [|a s] H; [reflexivity|]. cbn in H. apply andb_true_iff in H. destruct H as [Ha _].
        unfold drop_blank. destruct a as [[] [] [] [] [] [] [] []]; try reflexivity. discriminate. }
      rewrite Hdb by apply Hd.
      rewrite read_unsigned; [|apply Hd|apply Hn]. rewrite Hv. reflexivity.
Qed.

(* ------------------------------------------------------------------------------------------ *)
(* 6. the first word of what format() wrote *)

Fixpoint no_ws (s : string) : bool :=
  match s with EmptyString => true | String a r => andb (negb (is_ws a)) (no_ws r) end.

Lemma take_word_app : forall s tail,
  no_ws s = true -> (tail = "" \/ starts_ws tail = true) -> take_word (s ++ tail) = s.
Proof.
  induction s as [|a s IH]; intros tail H T; cbn in *.
  - destruct T as [->|T]; [reflexivity|]. destruct tail as [|b t]; [reflexivity|].
    cbn in T. cbn [take_word]. now rewrite T.
  - apply andb_true_iff in H. destruct H as [Ha Hs]. apply negb_true_iff in Ha. rewrite Ha.
    now rewrite (IH tail Hs T).
Qed.

Lemma lstrip_no_ws : forall s, s <> "" -> no_ws s = true -> lstrip_ws s = s.
Proof.
  intros [|a s] N H; [congruence|]. cbn in *. apply andb_true_iff in H. destruct H as [Ha _].
  apply negb_true_iff in Ha. now rewrite Ha.
Qed.

Lemma digit_not_ws : forall a, is_digit a = true -> is_ws a = false.
Proof. intros a H. destruct a as [[] [] [] [] [] [] [] []]; try reflexivity; discriminate. Qed.

Lemma all_digits_no_ws : forall s, all_digits s = true -> no_ws s = true.
Proof.
  induction s as [|a s IH]; intros H; cbn in *; [reflexivity|].
  apply andb_true_iff in H. destruct H as [Ha Hs]. rewrite (digit_not_ws a Ha), (IH Hs). reflexivity.
Qed.

Lemma no_ws_app : forall a b, no_ws (a ++ b) = andb (no_ws a) (no_ws b).
Proof. induction a as [|x a IH]; intros b; cbn; [reflexivity | now rewrite IH, andb_assoc]. Qed.

(* a text that is an optional single blank followed by a blank-free word *)
Lemma first_word_drop_blank : forall w tail,
  drop_blank w <> "" -> no_ws (drop_blank w) = true -> (tail = "" \/ starts_ws tail = true) ->
  first_word (w ++ tail) = drop_blank w.
Proof.
  intros w tail N H T. unfold first_word.
  assert (G : forall u, u <> "" -> no_ws u = true -> take_word (lstrip_ws (u ++ tail)) = u).
  { intros u Nu Hu. destruct u as [|a u]; [congruence|]. cbn in Hu. apply andb_true_iff in Hu.
    destruct Hu as [Ha Hu]. apply negb_true_iff in Ha. cbn [append lstrip_ws]. rewrite Ha.
    change (String a (u ++ tail)) with (String a u ++ tail). apply take_word_app; [|exact T].
    cbn. now rewrite Ha, Hu. }
  destruct w as [|a w]; [cbn in N; congruence|].
  destruct (Ascii.eqb a " ") eqn:E.
  - apply Ascii.eqb_eq in E. subst a. cbn [drop_blank] in *. cbn [append lstrip_ws].
    change (is_ws " ") with true. cbn iota. apply G; assumption.
  - assert (D : drop_blank (String a w) = String a w).
    { unfold drop_blank. destruct a as [[] [] [] [] [] [] [] []]; try reflexivity. discriminate. }
    rewrite D in *. apply G; assumption.
Qed.

Lemma no_ws_fmt_d : forall sopt width n,
  drop_blank (fmt_d sopt width n) <> "" /\ no_ws (drop_blank (fmt_d sopt width n)) = true.
Proof.
  intros sopt width n. unfold fmt_d, zfill.
  pose proof (show_nonempty (Z.abs n)) as Hne.
  pose proof (all_digits_show (Z.abs n)) as Hdb0.
  remember (show_nat_Z (Z.abs n)) as body eqn:Hb. clear Hb.
  assert (Hd : forall w, no_ws (zeros w ++ body) = true).
  { intros w. apply all_digits_no_ws. rewrite all_digits_app, all_digits_zeros. exact Hdb0. }
  assert (Hn : forall w, zeros w ++ body <> "").
  { intros w E. apply (f_equal String.length) in E. rewrite length_app_s in E.
    destruct body; [congruence | cbn in E; lia]. }
  unfold sign_text. destruct (n <? 0).
  - cbn [append drop_blank]. split; [discriminate|]. cbn. apply Hd.
  - destruct (Ascii.eqb sopt "+"); [|destruct (Ascii.eqb sopt " ")].
    + cbn [append drop_blank]. split; [discriminate|]. cbn. apply Hd.
    + cbn [append drop_blank]. split; [apply Hn | apply Hd].
    + cbn [append].
      assert (Hdb : forall s, no_ws s = true -> drop_blank s = s).
      { intros [|a s] H; [reflexivity|]. cbn in H. apply andb_true_iff in H. destruct H as [Ha _].
        unfold drop_blank. destruct a as [[] [] [] [] [] [] [] []]; try reflexivity. discriminate. }
      rewrite Hdb by apply Hd. split; [apply Hn | apply Hd].
Qed.

(* what follows the number text in format()'s result *)
Lemma finish_tail : forall nd f temp,
  (pad_nodes nd = [] \/
   exists p rest, pad_nodes nd = p :: rest /\ pnode_is_space p = true /\
                  Forall (fun q => pnode_text q <> "") rest) ->
  exists tail, finish nd f temp = temp ++ tail /\ (tail = "" \/ starts_ws tail = true).
Proof.
  intros nd f temp [E|(p & rest & E & S & N)].
  - unfold finish. rewrite E. unfold ljust. rewrite !sapp_nil_r.
    eexists. split; [reflexivity|].
    destruct (Z_lt_le_dec 0 (value_length f - slen temp)).
    + right. now apply blanks_pos_starts.
    + left. now apply blanks_nonpos.
  - destruct (finish_no_fusion nd f temp p rest E S N) as (tail & H1 & H2).
    exists tail. split; [exact H1 | now right].
Qed.

(* integer nodes: whenever format() does not take the "unchanged" short cut, the text is n *)
Lemma int_node_text : forall nd n s,
  n_isfloat nd = false ->
  value_changed (set_value nd (VInt n)) = Ok true ->
  format (set_value nd (VInt n)) = Ok s ->
  exists sopt width, s = finish (set_value nd (VInt n))
                           (match reverse_formatting (set_value nd (VInt n)) with
                            | Some f => f | None => default_fmt end)
                           (fmt_d sopt width n).
Proof.
  intros nd n s Hf Hc H. unfold format in H. rewrite Hc in H. cbn [bind negb] in H.
  assert (Hv : n_value (set_value nd (VInt n)) = Some (VInt n)) by reflexivity.
  rewrite Hv in H.
  assert (Hf' : n_isfloat (set_value nd (VInt n)) = false) by exact Hf.
  destruct (reverse_formatting (set_value nd (VInt n))) as [f|];
    unfold render_temp, can_float_to_int in H; rewrite Hf' in H; cbn in H;
    inversion H; subst s; eexists; eexists; reflexivity.
Qed.

Lemma int_node_exact : forall nd n s,
  n_isfloat nd = false ->
  value_changed (set_value nd (VInt n)) = Ok true ->
  format (set_value nd (VInt n)) = Ok s ->
  (pad_nodes (set_value nd (VInt n)) = [] \/
   exists p rest, pad_nodes (set_value nd (VInt n)) = p :: rest /\ pnode_is_space p = true /\
                  Forall (fun q => pnode_text q <> "") rest) ->
  written_number s = Some (n <? 0, Z.abs n, 0).
Proof.
  intros nd n s Hf Hc H P.
  destruct (int_node_text nd n s Hf Hc H) as (sopt & width & ->).
  destruct (finish_tail _ (match reverse_formatting (set_value nd (VInt n)) with
                            | Some f => f | None => default_fmt end) (fmt_d sopt width n) P)
    as (tail & -> & T).
  unfold written_number. destruct (no_ws_fmt_d sopt width n) as [N W].
  rewrite first_word_drop_blank by assumption. apply fmt_d_exact.
Qed.

(* the side condition is satisfiable, and the unchanged short cut is what it excludes *)
Lemma int_node_example :
  let nd := mkNode (TText "0005") false (Some (VInt 5)) (Some (VInt 5)) (Some [PStr " "]) false in
  value_changed (set_value nd (VInt 12)) = Ok true /\
  format (set_value nd (VInt 12)) = Ok "0012 ".
Proof. vm_compute. split; reflexivity. Qed.

(* ------------------------------------------------------------------------------------------ *)
(* 7. the digit generation: exact error bounds *)

Definition p10 (z : Z) : Q := ((10 # 1) ^ z)%Q.

Lemma p10_pos : forall z, (0 < p10 z)%Q.
Proof. intros. apply Qpower_0_lt. reflexivity. Qed.

Lemma p10_plus : forall a b, (p10 (a + b) == p10 a * p10 b)%Q.
Proof. intros. apply Qpower_plus. discriminate. Qed.

Lemma p10_inject : forall k, 0 <= k -> (p10 k == inject_Z (10 ^ k))%Q.
Proof. intros k H. unfold p10. rewrite (Zpower_Qpower 10 k H). reflexivity. Qed.

Lemma p10_0 : (p10 0 == 1)%Q.
Proof. reflexivity. Qed.

Lemma p10_1 : (p10 1 == 10 # 1)%Q.
Proof. reflexivity. Qed.

Lemma p10_inv : forall a, (p10 a * p10 (- a) == 1)%Q.
Proof. intros a. rewrite <- p10_plus. rewrite Z.add_opp_diag_r. reflexivity. Qed.

Lemma pow10_pos : forall k, 0 <= k -> 0 < 10 ^ k.
Proof. intros. apply Z.pow_pos_nonneg; lia. Qed.

(* round-half-even is within one half *)
Lemma rhe_bound : forall a b, 0 < b -> 2 * Z.abs (rhe a b * b - a) <= b.
Proof.
  intros a b Hb. unfold rhe.
  pose proof (Z.div_mod a b ltac:(lia)) as E. pose proof (Z.mod_pos_bound a b Hb) as R.
  set (q := a / b) in *. set (r := a mod b) in *.
  destruct (Z.compare_spec (2 * r) b) as [C|C|C]; [destruct (Z.even q)| |]; nia.
Qed.

Lemma Qhalf_le_int : forall a b : Z, (inject_Z a - (1 # 2) <= inject_Z b)%Q -> a <= b.
Proof. intros a b H. unfold Qle in H. cbn in H. lia. Qed.

Lemma Qhalf_lt_int : forall a b : Z, (inject_Z b < inject_Z a + (1 # 2))%Q -> b <= a.
Proof. intros a b H. unfold Qlt in H. cbn in H. lia. Qed.

Lemma rhe_bound_Q : forall a b, 0 < b ->
  (- inject_Z b <= (2 # 1) * (inject_Z (rhe a b) * inject_Z b - inject_Z a) <= inject_Z b)%Q.
Proof.
  intros a b Hb. pose proof (rhe_bound a b Hb) as H.
  unfold Qle, Qmult, Qminus, Qplus, Qopp, inject_Z. cbn [Qnum Qden]. split; lia.
Qed.

Lemma inj_pos : forall z, 0 < z -> (0 < inject_Z z)%Q.
Proof. intros z H. unfold Qlt. cbn. lia. Qed.

Section Digits.
  Variables n d : Z.
  Hypothesis Hn : 0 < n.
  Hypothesis Hd : 0 < d.
  (* x = n/d, given by its defining equation *)
  Variable x : Q.
  Hypothesis Hx : (x * inject_Z d == inject_Z n)%Q.

  Let Dq : (0 < inject_Z d)%Q.
  Proof. apply inj_pos. exact Hd. Qed.

  Lemma x_pos : (0 < x)%Q.
  Proof.
    assert (N : (0 < inject_Z n)%Q) by (apply inj_pos; exact Hn).
    rewrite <- Hx in N. apply (Qmult_lt_r 0 x (inject_Z d) Dq). now rewrite Qmult_0_l.
  Qed.

  (* x * 10^k compared with an integer, through the scaled integers of the model *)
  Lemma scaled_eq : forall k,
    (x * p10 k * inject_Z (if 0 <=? k then d else d * 10 ^ (- k))
     == inject_Z (if 0 <=? k then n * 10 ^ k else n))%Q.
  Proof.
    intros k. destruct (0 <=? k) eqn:E.
    - apply Z.leb_le in E. rewrite inject_Z_mult, <- (p10_inject k E), <- Hx. ring.
    - apply Z.leb_gt in E. rewrite inject_Z_mult, <- (p10_inject (- k)) by lia.
      rewrite <- Hx. transitivity (x * inject_Z d * (p10 k * p10 (- k)))%Q; [ring|].
      rewrite p10_inv. ring.
  Qed.

  Lemma scaled_den_pos : forall k, 0 < (if 0 <=? k then d else d * 10 ^ (- k)).
  Proof.
    intros k. destruct (0 <=? k) eqn:E; [exact Hd|]. apply Z.leb_gt in E.
    apply Z.mul_pos_pos; [exact Hd | apply pow10_pos; lia].
  Qed.

  Lemma q_lt_pow10_spec : forall E,
    if q_lt_pow10 n d E then (x < p10 E)%Q else (p10 E <= x)%Q.
  Proof.
    intros E. unfold q_lt_pow10.
    pose proof (scaled_eq (- E)) as S. pose proof (scaled_den_pos (- E)) as P.
    pose proof (p10_inv E) as I. pose proof (p10_pos E) as PE. pose proof (p10_pos (- E)) as PN.
    destruct (0 <=? E) eqn:E0.
    - apply Z.leb_le in E0.
      destruct (Z.eq_dec E 0) as [->|NZ].
      + cbn in S. cbn [Z.pow]. rewrite Z.mul_1_r.
        assert (S' : (x * inject_Z d == inject_Z n)%Q) by exact Hx.
        destruct (n <? d) eqn:C.
        * apply Z.ltb_lt in C. rewrite Zlt_Qlt in C. rewrite p10_0. nra.
        * apply Z.ltb_ge in C. rewrite Zle_Qle in C. rewrite p10_0. nra.
      + assert (G : (0 <=? - E) = false) by (apply Z.leb_gt; lia). rewrite G in S, P.
        rewrite Z.opp_involutive in S, P.
        assert (Pq : (0 < inject_Z (d * 10 ^ E))%Q) by (apply inj_pos; exact P).
        destruct (n <? d * 10 ^ E) eqn:C.
        * apply Z.ltb_lt in C. rewrite Zlt_Qlt in C.
          set (A := inject_Z (d * 10 ^ E)) in *. set (B := inject_Z n) in *.
          set (u := p10 E) in *. set (v := p10 (- E)) in *.
          assert (x * v < 1)%Q by nra. nra.
        * apply Z.ltb_ge in C. rewrite Zle_Qle in C.
          set (A := inject_Z (d * 10 ^ E)) in *. set (B := inject_Z n) in *.
          set (u := p10 E) in *. set (v := p10 (- E)) in *.
          assert (1 <= x * v)%Q by nra. nra.
    - apply Z.leb_gt in E0.
      assert (G : (0 <=? - E) = true) by (apply Z.leb_le; lia). rewrite G in S, P.
      assert (Pq : (0 < inject_Z d)%Q) by exact Dq.
      destruct (n * 10 ^ (- E) <? d) eqn:C.
      * apply Z.ltb_lt in C. rewrite Zlt_Qlt in C.
        set (A := inject_Z d) in *. set (B := inject_Z (n * 10 ^ (- E))) in *.
        set (u := p10 E) in *. set (v := p10 (- E)) in *.
        assert (x * v < 1)%Q by nra. nra.
      * apply Z.ltb_ge in C. rewrite Zle_Qle in C.
        set (A := inject_Z d) in *. set (B := inject_Z (n * 10 ^ (- E))) in *.
        set (u := p10 E) in *. set (v := p10 (- E)) in *.
        assert (1 <= x * v)%Q by nra. nra.
  Qed.

  Lemma find_e10_spec : forall fuel E0 E,
    find_e10 fuel n d E0 = Some E -> (p10 E <= x /\ x < p10 (E + 1))%Q.
  Proof.
    induction fuel as [|f IH]; intros E0 E H; [discriminate|].
    cbn [find_e10] in H.
    pose proof (q_lt_pow10_spec E0) as A. pose proof (q_lt_pow10_spec (E0 + 1)) as B.
    destruct (q_lt_pow10 n d E0); [apply (IH _ _ H)|].
    destruct (q_lt_pow10 n d (E0 + 1)); [|apply (IH _ _ H)].
    inversion H; subst. split; assumption.
  Qed.

  (* |R - x * 10^k| <= 1/2 *)
  Lemma scale_round_spec : forall k,
    (- (1 # 2) <= inject_Z (scale_round n d k) - x * p10 k <= 1 # 2)%Q.
  Proof.
    intros k. unfold scale_round.
    pose proof (scaled_eq k) as S. pose proof (scaled_den_pos k) as P.
    set (b := if 0 <=? k then d else d * 10 ^ (- k)) in *.
    set (a := if 0 <=? k then n * 10 ^ k else n) in *.
    assert (R : scale_round n d k = rhe a b).
    { unfold scale_round, a, b. destruct (0 <=? k); reflexivity. }
    fold (scale_round n d k). rewrite R.
    pose proof (rhe_bound_Q a b P) as [H2 H1].
    assert (Pq : (0 < inject_Z b)%Q) by (apply inj_pos; exact P).
    set (r := inject_Z (rhe a b)) in *. set (B := inject_Z b) in *. set (A := inject_Z a) in *.
    set (y := (x * p10 k)%Q) in *.
    clearbody r B A y. clear R.
    split; nra.
  Qed.

  (* the p+1 significant digits *)
  Lemma sci_digits_spec : forall p D E,
    0 <= p -> sci_digits p n d = Some (D, E) ->
    10 ^ p <= D < 10 ^ (p + 1) /\
    (- ((1 # 2) * p10 (- p) * x) <= inject_Z D * p10 (E - p) - x <= (1 # 2) * p10 (- p) * x)%Q.
  Proof.
    intros p D E Hp H. unfold sci_digits in H.
    destruct (find_e10 8 n d (est_e10 n d)) as [E1|] eqn:F; [|discriminate].
    destruct (find_e10_spec _ _ _ F) as [L U].
    pose proof (scale_round_spec (p - E1)) as [R1 R2].
    set (R := scale_round n d (p - E1)) in *.
    pose proof (p10_pos (p - E1)) as Pk. pose proof (p10_pos E1) as PE. pose proof (p10_pos (- p)) as Pp.
    pose proof (p10_pos (E1 - p)) as Pe.
    assert (K1 : (p10 E1 * p10 (p - E1) == inject_Z (10 ^ p))%Q).
    { rewrite <- p10_plus, <- p10_inject by lia. replace (E1 + (p - E1)) with p by lia. reflexivity. }
    assert (K2 : (p10 (E1 + 1) * p10 (p - E1) == inject_Z (10 ^ (p + 1)))%Q).
    { rewrite <- p10_plus, <- p10_inject by lia. replace (E1 + 1 + (p - E1)) with (p + 1) by lia. reflexivity. }
    assert (K3 : (p10 (p - E1) * p10 (E1 - p) == 1)%Q).
    { rewrite <- p10_plus. replace (p - E1 + (E1 - p)) with 0 by lia. reflexivity. }
    assert (K4 : (p10 (E1 - p) == p10 E1 * p10 (- p))%Q).
    { rewrite <- p10_plus. reflexivity. }
    assert (K5 : (p10 (E1 + 1 - p) == (10 # 1) * p10 (E1 - p))%Q).
    { replace (E1 + 1 - p) with (1 + (E1 - p)) by lia. rewrite p10_plus. reflexivity. }
    assert (K6 : (inject_Z (10 ^ (p + 1)) == (10 # 1) * inject_Z (10 ^ p))%Q).
    { rewrite Z.pow_add_r, Z.mul_comm, inject_Z_mult by lia. reflexivity. }
    (* 10^p <= R <= 10^(p+1) *)
    assert (Lo : 10 ^ p <= R).
    { apply Qhalf_le_int. set (y := (x * p10 (p - E1))%Q) in *.
      assert (inject_Z (10 ^ p) <= y)%Q by (unfold y; rewrite <- K1; nra). lra. }
    assert (Hi : R <= 10 ^ (p + 1)).
    { apply Qhalf_lt_int. set (y := (x * p10 (p - E1))%Q) in *.
      assert (y < inject_Z (10 ^ (p + 1)))%Q by (unfold y; rewrite <- K2; nra). lra. }
    (* the error, for the value R * 10^(E1-p) *)
    assert (Err : (- ((1 # 2) * p10 (- p) * x) <= inject_Z R * p10 (E1 - p) - x
                   <= (1 # 2) * p10 (- p) * x)%Q).
    { set (y := (x * p10 (p - E1))%Q) in *.
      set (s := p10 (E1 - p)) in *. set (t := p10 (p - E1)) in *.
      assert (Ey : (x == y * s)%Q).
      { unfold y. transitivity (x * (t * s))%Q; [rewrite K3; ring | ring]. }
      assert (Sx : (s <= p10 (- p) * x)%Q).
      { rewrite K4. nra. }
      set (r := inject_Z R) in *.
      assert (G : (r * s - x == (r - y) * s)%Q) by (rewrite Ey at 1; ring).
      rewrite G. split; nra. }
    destruct (R =? 10 ^ (p + 1)) eqn:C; inversion H; subst D E; clear H.
    - apply Z.eqb_eq in C. split.
      + split; [lia|]. rewrite Z.pow_add_r by lia. pose proof (pow10_pos p Hp). lia.
      + assert (V : (inject_Z (10 ^ p) * p10 (E1 + 1 - p) == inject_Z R * p10 (E1 - p))%Q).
        { rewrite C, K5, K6. ring. }
        rewrite V. exact Err.
    - apply Z.eqb_neq in C. split; [lia | exact Err].
  Qed.

  (* %.pf: the p decimals *)
  Lemma fixed_digits_spec : forall p,
    (- ((1 # 2) * p10 (- p)) <= inject_Z (scale_round n d p) * p10 (- p) - x <= (1 # 2) * p10 (- p))%Q.
  Proof.
    intros p. pose proof (scale_round_spec p) as [R1 R2]. pose proof (p10_inv p) as I.
    pose proof (p10_pos (- p)) as Pp.
    set (r := inject_Z (scale_round n d p)) in *. set (s := p10 (- p)) in *. set (t := p10 p) in *.
    assert (G : (r * s - x == (r - x * t) * s)%Q).
    { transitivity (r * s - x * (t * s))%Q; [rewrite I; ring | ring]. }
    rewrite G. split; nra.
  Qed.
End Digits.

(* ------------------------------------------------------------------------------------------ *)
(* 8. reading the text of %e and %f *)

Definition sign_str (sg : option ascii) : string := match sg with Some a => String a "" | None => "" end.
Definition dot_str (d2 : option string) : string := match d2 with Some s => "." ++ s | None => "" end.

Lemma take_sign_str : forall sg r,
  match sg with Some a => is_sign a = true | None => True end ->
  match r with String c _ => is_sign c = false | EmptyString => True end ->
  take_sign (sign_str sg ++ r) = (sg, r).
Proof.
  intros [a|] r Hs Hr; cbn.
  - now rewrite Hs.
  - destruct r as [|c r]; [reflexivity|]. cbn. now rewrite Hr.
Qed.

Lemma scan_sci_text : forall (sg : option ascii) d1 (d2 : option string) (letter : option ascii) es ed,
  match sg with Some a => is_sign a = true | None => True end ->
  all_digits d1 = true -> d1 <> "" ->
  match d2 with Some s => all_digits s = true | None => True end ->
  (letter = None \/ letter = Some "e"%char \/ letter = Some "E"%char) ->
  is_sign es = true -> all_digits ed = true -> ed <> "" ->
  scan_number letter_eEdD (sign_str sg ++ d1 ++ dot_str d2 ++ sign_str letter ++ String es ed)
  = Some (mkScan sg d1 (match d2 with Some _ => true | None => false end)
                 (match d2 with Some s => s | None => "" end) letter (Some es) ed).
Proof.
  intros sg d1 d2 letter es ed Hsg Hd1 Hn1 Hd2 Hl Hes Hed Hned.
  unfold scan_number.
  rewrite take_sign_str; [|exact Hsg|].
  2:{ destruct d1 as [|c d1']; [congruence|]. cbn in Hd1. apply andb_true_iff in Hd1.
      cbn. apply digit_not_sign. apply Hd1. }
  assert (Hes' : es = "+"%char \/ es = "-"%char).
  { unfold is_sign in Hes. apply orb_true_iff in Hes. destruct Hes as [H|H]; apply Ascii.eqb_eq in H; auto. }
  rewrite span_digits_app; [|exact Hd1|].
  2:{ destruct d2 as [s|]; cbn; [reflexivity|].
      destruct Hl as [->|[->| ->]]; cbn; try reflexivity. destruct Hes' as [-> | ->]; reflexivity. }
  assert (Hn1' : String.eqb d1 "" = false) by (apply String.eqb_neq; exact Hn1).
  assert (Hned' : String.eqb ed "" = false) by (apply String.eqb_neq; exact Hned).
  assert (Hex : forall t, span_digits (ed ++ t) = (ed, t) -> True) by auto.
  pose proof (span_digits_all ed Hed) as Sed.
  destruct d2 as [s|].
  - cbn [dot_str append]. rewrite span_digits_app; [|exact Hd2|].
    2:{ destruct Hl as [->|[->| ->]]; cbn; try reflexivity. destruct Hes' as [-> | ->]; reflexivity. }
    rewrite Hn1'. cbn [andb].
    destruct Hl as [->|[->| ->]]; cbn [sign_str append].
    + destruct Hes' as [-> | ->]; cbn; rewrite Sed, Hned'; reflexivity.
    + change (letter_eEdD "e") with true. cbn iota.
      destruct Hes' as [-> | ->]; cbn [take_sign is_sign Ascii.eqb orb]; cbn; rewrite Sed, Hned'; reflexivity.
    + change (letter_eEdD "E") with true. cbn iota.
      destruct Hes' as [-> | ->]; cbn; rewrite Sed, Hned'; reflexivity.
  - cbn [dot_str append].
    destruct Hl as [->|[->| ->]]; cbn [sign_str append].
    + destruct Hes' as [-> | ->]; cbn; rewrite Hn1', Sed, Hned'; reflexivity.
    + cbn. rewrite Hn1'. destruct Hes' as [-> | ->]; cbn; rewrite Sed, Hned'; reflexivity.
    + cbn. rewrite Hn1'. destruct Hes' as [-> | ->]; cbn; rewrite Sed, Hned'; reflexivity.
Qed.

Lemma scan_fixed_text : forall (sg : option ascii) d1 (d2 : option string),
  match sg with Some a => is_sign a = true | None => True end ->
  all_digits d1 = true -> d1 <> "" ->
  match d2 with Some s => all_digits s = true | None => True end ->
  scan_number letter_eEdD (sign_str sg ++ d1 ++ dot_str d2)
  = Some (mkScan sg d1 (match d2 with Some _ => true | None => false end)
                 (match d2 with Some s => s | None => "" end) None None "").
Proof.
  intros sg d1 d2 Hsg Hd1 Hn1 Hd2.
  unfold scan_number.
  rewrite take_sign_str; [|exact Hsg|].
  2:{ destruct d1 as [|c d1']; [congruence|]. cbn in Hd1. apply andb_true_iff in Hd1.
      cbn. apply digit_not_sign. apply Hd1. }
  rewrite span_digits_app; [|exact Hd1|].
  2:{ destruct d2 as [s|]; cbn; reflexivity. }
  assert (Hn1' : String.eqb d1 "" = false) by (apply String.eqb_neq; exact Hn1).
  destruct d2 as [s|].
  - cbn [dot_str append]. rewrite (span_digits_all s Hd2). rewrite Hn1'. reflexivity.
  - cbn [dot_str]. rewrite Hn1'. reflexivity.
Qed.

Lemma digits_val_acc_shift : forall b acc,
  digits_val_acc b acc = acc * 10 ^ slen b + digits_val_acc b 0.
Proof.
  induction b as [|c b IH]; intros acc.
  - cbn. lia.
  - cbn [digits_val_acc]. rewrite IH. rewrite (IH (0 * 10 + _)). rewrite slen_cons.
    rewrite Z.pow_add_r by (try lia; apply slen_nonneg). lia.
Qed.

Lemma digits_val_app : forall a b, digits_val (a ++ b) = digits_val a * 10 ^ slen b + digits_val b.
Proof. intros. unfold digits_val. rewrite digits_val_acc_app. apply digits_val_acc_shift. Qed.

Lemma digits_val_zeros_app : forall z s, digits_val (zeros z ++ s) = digits_val s.
Proof. intros. unfold digits_val. apply digits_val_acc_zeros. Qed.

Lemma slen_digits_fixed : forall k D, slen (digits_fixed k D) = Z.of_nat k.
Proof. intros. unfold slen. now rewrite length_digits_fixed. Qed.

Lemma slen_zeros : forall z, slen (zeros z) = Z.max z 0.
Proof.
  intros z. unfold slen, zeros.
  assert (H : forall k, String.length (repeat_char "0" k) = k) by (induction k; cbn; congruence).
  rewrite H. lia.
Qed.

(* the mantissa d0[.d1..dp] *)
Lemma mantissa_text_shape : forall p D, 0 <= p ->
  exists a r, digits_fixed (Z.to_nat (p + 1)) D = String a r /\ slen r = p /\
              mantissa_text p D = String a "" ++ dot_str (if p =? 0 then None else Some r).
Proof.
  intros p D Hp. unfold mantissa_text.
  pose proof (slen_digits_fixed (Z.to_nat (p + 1)) D) as L.
  destruct (digits_fixed (Z.to_nat (p + 1)) D) as [|a r] eqn:E.
  - cbn in L. lia.
  - exists a, r. split; [reflexivity|]. rewrite slen_cons in L. split; [lia|].
    destruct (p =? 0); reflexivity.
Qed.

Definition exp_text (ezp E : Z) : string := zeros (ezp - slen (show_nat_Z (Z.abs E))) ++ show_nat_Z (Z.abs E).

Lemma read_sci_text : forall (sg : option ascii) z p D E (letter : option ascii) ezp,
  match sg with Some a => is_sign a = true | None => True end ->
  0 <= p -> 0 <= D < 10 ^ (p + 1) ->
  (letter = None \/ letter = Some "e"%char \/ letter = Some "E"%char) ->
  read_number (sign_str sg ++ zeros z ++ mantissa_text p D ++ sign_str letter ++ exp_sign E ++ exp_text ezp E)
  = Some (match sg with Some a => Ascii.eqb a "-" | None => false end, D, E - p).
Proof.
  intros sg z p D E letter ezp Hsg Hp HD Hl.
  destruct (mantissa_text_shape p D Hp) as (a & r & Edf & Lr & ->).
  pose proof (all_digits_fixed (Z.to_nat (p + 1)) D) as AD. rewrite Edf in AD. cbn in AD.
  apply andb_true_iff in AD. destruct AD as [Aa Ar].
  assert (VD : digits_val (String a r) = D).
  { rewrite <- Edf, digits_val_fixed by lia. rewrite Z2Nat.id by lia. apply Z.mod_small. lia. }
  set (es := if E <? 0 then "-"%char else "+"%char).
  assert (Ees : exp_sign E = String es "") by (unfold exp_sign, es; destruct (E <? 0); reflexivity).
  assert (Hes : is_sign es = true) by (unfold es; destruct (E <? 0); reflexivity).
  set (ed := exp_text ezp E).
  assert (Hed : all_digits ed = true).
  { unfold ed, exp_text. rewrite all_digits_app, all_digits_zeros. apply all_digits_show. }
  assert (Hned : ed <> "").
  { unfold ed, exp_text. intros C. apply (f_equal String.length) in C. rewrite length_app_s in C.
    pose proof (show_nonempty (Z.abs E)). destruct (show_nat_Z (Z.abs E)); [congruence | cbn in C; lia]. }
  assert (Ved : digits_val ed = Z.abs E).
  { unfold ed, exp_text. rewrite digits_val_zeros_app. apply digits_val_show. lia. }
  unfold read_number.
  replace (sign_str sg ++ zeros z ++ (String a "" ++ dot_str (if p =? 0 then None else Some r)) ++
           sign_str letter ++ exp_sign E ++ ed)
    with (sign_str sg ++ (zeros z ++ String a "") ++ dot_str (if p =? 0 then None else Some r) ++
          sign_str letter ++ String es ed).
  2:{ rewrite Ees. rewrite !sapp_assoc. reflexivity. }
  rewrite scan_sci_text; try assumption.
  - unfold scan_neg, scan_mant, scan_k, scan_exp.
    cbn [s_sign s_d1 s_d2 s_edigits s_esign].
    f_equal. f_equal; [f_equal|].
    + rewrite sapp_assoc, digits_val_zeros_app.
      destruct (p =? 0) eqn:P0.
      * apply Z.eqb_eq in P0. assert (r = "") by (destruct r; [reflexivity | rewrite slen_cons in Lr; pose proof (slen_nonneg r); lia]).
        subst r. exact VD.
      * exact VD.
    + rewrite Ved. unfold es.
      destruct (p =? 0) eqn:P0.
      * apply Z.eqb_eq in P0. destruct (E <? 0) eqn:EE; [apply Z.ltb_lt in EE | apply Z.ltb_ge in EE]; cbn; lia.
      * rewrite Lr. destruct (E <? 0) eqn:EE; [apply Z.ltb_lt in EE | apply Z.ltb_ge in EE]; cbn; lia.
  - rewrite all_digits_app, all_digits_zeros. cbn. now rewrite Aa.
  - intros C. apply (f_equal String.length) in C. rewrite length_app_s in C. cbn in C. lia.
  - destruct (p =? 0); [exact I | exact Ar].
Qed.

(* "%.{p}f" *)
Lemma read_fixed_text : forall (sg : option ascii) z p D,
  match sg with Some a => is_sign a = true | None => True end ->
  0 <= p -> 0 <= D ->
  read_number (sign_str sg ++ zeros z ++
               (if p =? 0 then show_nat_Z (D / 10 ^ p)
                else show_nat_Z (D / 10 ^ p) ++ "." ++ digits_fixed (Z.to_nat p) (D mod 10 ^ p)))
  = Some (match sg with Some a => Ascii.eqb a "-" | None => false end, D, - p).
Proof.
  intros sg z p D Hsg Hp HD.
  pose proof (pow10_pos p Hp) as PP.
  set (ip := show_nat_Z (D / 10 ^ p)). set (fr := digits_fixed (Z.to_nat p) (D mod 10 ^ p)).
  assert (Hip : all_digits (zeros z ++ ip) = true).
  { rewrite all_digits_app, all_digits_zeros. apply all_digits_show. }
  assert (Nip : zeros z ++ ip <> "").
  { intros C. apply (f_equal String.length) in C. rewrite length_app_s in C.
    pose proof (show_nonempty (D / 10 ^ p)). fold ip in H. destruct ip; [congruence | cbn in C; lia]. }
  assert (Vip : digits_val (zeros z ++ ip) = D / 10 ^ p).
  { rewrite digits_val_zeros_app. apply digits_val_show. apply Z.div_pos; lia. }
  unfold read_number.
  replace (sign_str sg ++ zeros z ++ (if p =? 0 then ip else ip ++ "." ++ fr))
    with (sign_str sg ++ (zeros z ++ ip) ++ dot_str (if p =? 0 then None else Some fr)).
  2:{ destruct (p =? 0); cbn [dot_str]; rewrite ?sapp_assoc, ?sapp_nil_r; reflexivity. }
  rewrite scan_fixed_text; try assumption.
  - unfold scan_neg, scan_mant, scan_k, scan_exp. cbn [s_sign s_d1 s_d2 s_edigits s_esign].
    destruct (p =? 0) eqn:P0.
    + apply Z.eqb_eq in P0. subst p. rewrite sapp_nil_r, Vip. cbn. rewrite Z.div_1_r. reflexivity.
    + rewrite digits_val_app, Vip. unfold fr. rewrite slen_digits_fixed, Z2Nat.id by lia.
      rewrite digits_val_fixed by (apply Z.mod_pos_bound; lia). rewrite Z2Nat.id by lia.
      rewrite Z.mod_mod by lia.
      assert (A : D / 10 ^ p * 10 ^ p + D mod 10 ^ p = D)
        by (pose proof (Z.div_mod D (10 ^ p) ltac:(lia)); lia).
      rewrite A. change (digits_val "") with 0. rewrite Z.sub_0_l. reflexivity.
  - destruct (p =? 0); [exact I | apply all_digits_fixed].
Qed.

(* ------------------------------------------------------------------------------------------ *)
(* 9. float nodes: what the scientific and the fixed branch of format() write *)

Definition dabs (x : dbl) : Q := (inject_Z (dman x) * (2 # 1) ^ (dexp x))%Q.

Lemma dval_dabs : forall x, (dval x == sgnQ (dneg x) * dabs x)%Q.
Proof. intros. unfold dval, dabs. ring. Qed.

Lemma p2_inject : forall k, 0 <= k -> ((2 # 1) ^ k == inject_Z (2 ^ k))%Q.
Proof. intros k H. rewrite (Zpower_Qpower 2 k H). reflexivity. Qed.

Lemma d_frac : forall x, (dabs x * inject_Z (d_den x) == inject_Z (d_num x))%Q /\ 0 < d_den x.
Proof.
  intros x. unfold dabs, d_den, d_num. destruct (0 <=? dexp x) eqn:E.
  - apply Z.leb_le in E. split; [|lia]. rewrite inject_Z_mult, <- (p2_inject _ E). ring.
  - apply Z.leb_gt in E. split; [|apply Z.pow_pos_nonneg; lia].
    rewrite <- (p2_inject (- dexp x)) by lia.
    transitivity (inject_Z (dman x) * ((2 # 1) ^ dexp x * (2 # 1) ^ (- dexp x)))%Q; [ring|].
    rewrite <- Qpower_plus by discriminate. rewrite Z.add_opp_diag_r. cbn. ring.
Qed.

Lemma d_num_pos : forall x, 0 < dman x -> 0 < d_num x.
Proof.
  intros x H. unfold d_num. destruct (0 <=? dexp x) eqn:E; [|exact H].
  apply Z.leb_le in E. apply Z.mul_pos_pos; [exact H | apply Z.pow_pos_nonneg; lia].
Qed.

Lemma d_num_nonneg : forall x, 0 <= dman x -> 0 <= d_num x.
Proof.
  intros x H. unfold d_num. destruct (0 <=? dexp x) eqn:E; [|exact H].
  apply Z.leb_le in E. apply Z.mul_nonneg_nonneg; [exact H | apply Z.pow_nonneg; lia].
Qed.

Lemma rhe_nonneg : forall a b, 0 <= a -> 0 < b -> 0 <= rhe a b.
Proof.
  intros a b Ha Hb. unfold rhe. pose proof (Z.div_pos a b Ha Hb).
  destruct (2 * (a mod b) ?= b); [destruct (Z.even (a / b))| |]; lia.
Qed.

Lemma scale_round_nonneg : forall n d k, 0 <= n -> 0 < d -> 0 <= scale_round n d k.
Proof.
  intros n d k Hn Hd. unfold scale_round. destruct (0 <=? k) eqn:E.
  - apply Z.leb_le in E. apply rhe_nonneg; [|exact Hd].
    apply Z.mul_nonneg_nonneg; [exact Hn | apply Z.pow_nonneg; lia].
  - apply Z.leb_gt in E. apply rhe_nonneg; [exact Hn|].
    apply Z.mul_pos_pos; [exact Hd | apply Z.pow_pos_nonneg; lia].
Qed.

Lemma dabs_nonneg : forall x, 0 <= dman x -> (0 <= dabs x)%Q.
Proof.
  intros x H. unfold dabs. apply Qmult_le_0_compat.
  - unfold Qle. cbn. lia.
  - apply Qlt_le_weak. apply Qpower_0_lt. reflexivity.
Qed.

Lemma sgnQ_abs : forall b y, (Qabs (sgnQ b * y) == Qabs y)%Q.
Proof. intros b y. rewrite Qabs_Qmult. destruct b; cbn; ring. Qed.

Definition sign_opt (sopt : ascii) (neg : bool) : option ascii :=
  if neg then Some "-"%char
  else if Ascii.eqb sopt "+"%char then Some "+"%char
  else if Ascii.eqb sopt " "%char then Some " "%char
  else None.
Lemma sign_text_opt : forall sopt neg, sign_text sopt neg = sign_str (sign_opt sopt neg).
Proof.
  intros. unfold sign_text, sign_opt. destruct neg; [reflexivity|].
  destruct (Ascii.eqb sopt "+"); [reflexivity|]. destruct (Ascii.eqb sopt " "); reflexivity.
Qed.

Lemma zfill_exp_text : forall E ezp,
  ljust (zfill "" (show_nat_Z (Z.abs E)) ezp) ezp = exp_text ezp E.
Proof.
  intros E ezp. unfold ljust, zfill, exp_text. cbn [append].
  change (slen "") with 0. rewrite Z.sub_0_r.
  rewrite blanks_nonpos; [apply sapp_nil_r|].
  rewrite slen_app, slen_zeros. lia.
Qed.

(* drop_blank of the text  sign ++ rest  when rest starts with a digit *)
Lemma drop_blank_digit : forall c rest, is_digit c = true -> drop_blank (String c rest) = String c rest.
Proof.
  intros c rest H. unfold drop_blank. destruct c as [[] [] [] [] [] [] [] []]; try reflexivity. discriminate.
Qed.

(* the sign the reader sees after the possible blank of sign option " " *)
Definition read_sign (sopt : ascii) (neg : bool) : option ascii :=
  if neg then Some "-"%char else if Ascii.eqb sopt "+"%char then Some "+"%char else None.

Lemma drop_blank_signed : forall sopt neg body c rest,
  body = String c rest -> is_digit c = true ->
  drop_blank (sign_text sopt neg ++ body) = sign_str (read_sign sopt neg) ++ body /\
  match read_sign sopt neg with Some a => is_sign a = true | None => True end /\
  (match read_sign sopt neg with Some a => Ascii.eqb a "-" | None => false end) = neg.
Proof.
  intros sopt neg body c rest -> Hc. unfold sign_text, read_sign. destruct neg.
  - cbn. auto.
  - destruct (Ascii.eqb sopt "+").
    + cbn. auto.
    + destruct (Ascii.eqb sopt " ").
      * cbn [append drop_blank sign_str]. auto.
      * cbn [append sign_str]. rewrite drop_blank_digit by exact Hc. auto.
Qed.

Lemma zeros_digit_head : forall z body c rest,
  body = String c rest -> is_digit c = true ->
  exists c' rest', zeros z ++ body = String c' rest' /\ is_digit c' = true.
Proof.
  intros z body c rest -> Hc. unfold zeros. destruct (Z.to_nat z) as [|k]; cbn.
  - eauto.
  - eexists; eexists; split; [reflexivity | reflexivity].
Qed.

Lemma mantissa_head : forall p D, 0 <= p ->
  exists c rest, mantissa_text p D = String c rest /\ is_digit c = true.
Proof.
  intros p D Hp. destruct (mantissa_text_shape p D Hp) as (a & r & Edf & _ & ->).
  pose proof (all_digits_fixed (Z.to_nat (p + 1)) D) as AD. rewrite Edf in AD. cbn in AD.
  apply andb_true_iff in AD. destruct AD as [Aa _].
  cbn [append]. eauto.
Qed.

(* the scientific branch of _format_float: the text is  sign zeros d0.d1..dp divider sign exponent  and
   reads as (sign, D, E - p) for the digits (D, E) of the digit generation *)
Lemma sci_branch_read : forall f x p temp,
  is_scientific f = true -> 0 <= p ->
  exponent_length f = exponent_zero_pad f ->
  (divider f = "" \/ divider f = "e" \/ divider f = "E") ->
  0 <= dman x ->
  format_float true f x p = Ok temp ->
  exists D E, read_number (drop_blank temp) = Some (dneg x, D, E - p) /\
    (dman x = 0 /\ D = 0 \/
     0 < dman x /\ sci_digits p (d_num x) (d_den x) = Some (D, E)).
Proof.
  intros f x p temp Hs Hp Hel Hdiv Hm H.
  unfold format_float in H. cbn [negb] in H. rewrite Hs in H.
  assert (Hl : exists letter, divider f = sign_str letter /\
               (letter = None \/ letter = Some "e"%char \/ letter = Some "E"%char)).
  { destruct Hdiv as [->|[->| ->]]; [exists None | exists (Some "e"%char) | exists (Some "E"%char)]; auto. }
  destruct Hl as (letter & Dl & Hl). rewrite Dl in H.
  assert (G : forall D E, 0 <= D < 10 ^ (p + 1) ->
     Ok (sign_text (f_sign f) (dneg x) ++
               zeros (zero_padding f - slen (sign_text (f_sign f) (dneg x)) -
                      slen (mantissa_text p D ++ "e" ++ exp_sign E ++ exp_digits E)) ++
               mantissa_text p D ++ sign_str letter ++ exp_sign E ++
               ljust (zfill "" (show_nat_Z (Z.abs E)) (exponent_zero_pad f)) (exponent_length f))
     = Ok temp ->
     read_number (drop_blank temp) = Some (dneg x, D, E - p)).
  { intros D E HD HH. rewrite Hel, zfill_exp_text in HH. inversion HH; subst temp; clear HH.
    destruct (mantissa_head p D Hp) as (c & rest & Em & Hc).
    set (z := zero_padding f - _ - _).
    set (tail := sign_str letter ++ exp_sign E ++ exp_text (exponent_zero_pad f) E).
    assert (Eb : exists c' rest', zeros z ++ mantissa_text p D ++ tail = String c' rest' /\ is_digit c' = true).
    { rewrite Em. change (String c rest ++ tail) with (String c (rest ++ tail)).
      eapply zeros_digit_head; [reflexivity | exact Hc]. }
    destruct Eb as (c' & rest' & Eb & Hc').
    destruct (drop_blank_signed (f_sign f) (dneg x) _ c' rest' Eb Hc') as (Ed & Hsg & Hneg).
    rewrite Ed. unfold tail.
    rewrite (read_sci_text (read_sign (f_sign f) (dneg x)) z p D E letter (exponent_zero_pad f) Hsg Hp HD Hl).
    rewrite Hneg. reflexivity. }
  unfold e_parts in H. destruct (dman x =? 0) eqn:Z0.
  - apply Z.eqb_eq in Z0. cbn [bind] in H. exists 0, 0. split.
    + apply G; [|exact H]. split; [lia | apply pow10_pos; lia].
    + left. auto.
  - apply Z.eqb_neq in Z0.
    destruct (sci_digits p (d_num x) (d_den x)) as [[D E]|] eqn:SD; [|discriminate].
    cbn [bind] in H. exists D, E.
    destruct (d_frac x) as [Fx Dp].
    destruct (sci_digits_spec (d_num x) (d_den x) Dp (dabs x) Fx p D E Hp SD)
      as [[D1 D2] _].
    split.
    + apply G; [|exact H]. pose proof (pow10_pos p Hp). lia.
    + right. split; [lia | first [exact SD | reflexivity]].
Qed.

(* ... and its error: at most half a unit of the last digit, relative to the value *)
Lemma sci_branch_error : forall f x p temp,
  is_scientific f = true -> 0 <= p ->
  exponent_length f = exponent_zero_pad f ->
  (divider f = "" \/ divider f = "e" \/ divider f = "E") ->
  0 <= dman x ->
  format_float true f x p = Ok temp ->
  exists r, read_number (drop_blank temp) = Some r /\
    (Qabs (decval r - dval x) <= (1 # 2) * p10 (- p) * Qabs (dval x))%Q.
Proof.
  intros f x p temp Hs Hp Hel Hdiv Hm H.
  destruct (sci_branch_read f x p temp Hs Hp Hel Hdiv Hm H) as (D & E & R & C).
  exists (dneg x, D, E - p). split; [exact R|].
  unfold decval. rewrite dval_dabs.
  assert (Eq : (sgnQ (dneg x) * inject_Z D * (10 # 1) ^ (E - p) - sgnQ (dneg x) * dabs x
                == sgnQ (dneg x) * (inject_Z D * p10 (E - p) - dabs x))%Q)
    by (unfold p10; ring).
  rewrite Eq, !sgnQ_abs.
  pose proof (dabs_nonneg x Hm) as NN. rewrite (Qabs_pos (dabs x) NN).
  destruct C as [[Z0 ->]|[Pm SD]].
  - assert (A0 : (dabs x == 0)%Q) by (unfold dabs; rewrite Z0; ring).
    rewrite A0. rewrite Qmult_0_l, Qmult_0_r. cbn. unfold Qle; cbn; lia.
  - destruct (d_frac x) as [Fx Dp].
    destruct (sci_digits_spec (d_num x) (d_den x) Dp (dabs x) Fx _ D E Hp SD) as [_ B].
    apply Qabs_Qle_condition. exact B.
Qed.

(* the fixed branch *)
Lemma fixed_branch_error : forall f x p temp,
  is_scientific f = false -> as_int f = false -> 0 <= p ->
  0 <= dman x ->
  format_float true f x p = Ok temp ->
  exists r, read_number (drop_blank temp) = Some r /\
    (Qabs (decval r - dval x) <= (1 # 2) * p10 (- p))%Q.
Proof.
  intros f x p temp Hs Ha Hp Hm H.
  unfold format_float in H. cbn [negb] in H. rewrite Hs, Ha in H. inversion H; subst temp; clear H.
  unfold f_body.
  set (D := scale_round (d_num x) (d_den x) p).
  destruct (d_frac x) as [Fx Dp].
  assert (HD : 0 <= D).
  { unfold D. apply scale_round_nonneg; [apply d_num_nonneg; exact Hm | exact Dp]. }
  exists (dneg x, D, - p). split.
  - unfold zfill.
    set (body := if p =? 0 then _ else _).
    assert (Hbd : exists c rest, body = String c rest /\ is_digit c = true).
    { pose proof (show_nonempty (D / 10 ^ p)) as Ne. pose proof (all_digits_show (D / 10 ^ p)) as Ad.
      unfold body. destruct (show_nat_Z (D / 10 ^ p)) as [|c rest]; [congruence|].
      cbn in Ad. apply andb_true_iff in Ad.
      destruct (p =? 0); eexists; eexists; (split; [reflexivity | apply Ad]). }
    destruct Hbd as (c & rest & Eb & Hc).
    destruct (zeros_digit_head (zero_padding f - slen (sign_text (f_sign f) (dneg x)) - slen body) body c rest Eb Hc)
      as (c' & rest' & Ez & Hc').
    destruct (drop_blank_signed (f_sign f) (dneg x) _ c' rest' Ez Hc') as (Ed & Hsg & Hneg).
    rewrite Ed. unfold body.
    rewrite (read_fixed_text (read_sign (f_sign f) (dneg x)) _ p D Hsg Hp HD). rewrite Hneg. reflexivity.
  - unfold decval. rewrite dval_dabs.
    assert (Eq : (sgnQ (dneg x) * inject_Z D * (10 # 1) ^ (- p) - sgnQ (dneg x) * dabs x
                  == sgnQ (dneg x) * (inject_Z D * p10 (- p) - dabs x))%Q) by (unfold p10; ring).
    rewrite Eq, sgnQ_abs. apply Qabs_Qle_condition.
    exact (fixed_digits_spec (d_num x) (d_den x) Dp (dabs x) Fx p).
Qed.
