(* CoreGrammarProofs.v — derivability of the core shapes in any production table that contains the
   named [required_*] lists.  Every lemma is stated for an arbitrary table [G] with the hypothesis
   [incl required_k G]; Properties/C12.v instantiates [G] with the generated table of each SLY parser
   and discharges the inclusion reflectively ([missing required_k Gen.k_productions = []]). *)
From Coq Require Import List String Ascii ZArith Bool Lia.
From MPV Require Import Model.Wire Model.CoreGrammar.
Import ListNotations.
Open Scope string_scope.
Open Scope list_scope.

(* ------------------------------------------------------------------ reflection helpers *)
Lemma list_str_eqb_eq : forall a b, list_str_eqb a b = true -> a = b.
Proof.
  unfold list_str_eqb. induction a as [|x a IH]; destruct b as [|y b]; simpl; intros H; try discriminate; auto.
  apply andb_true_iff in H. destruct H as [H1 H2]. apply String.eqb_eq in H1. subst. f_equal. auto.
Qed.

Lemma prod_eqb_eq : forall p q, prod_eqb p q = true -> p = q.
Proof.
  intros [a b] [c d]. unfold prod_eqb. simpl. intros H. apply andb_true_iff in H. destruct H as [H1 H2].
  apply String.eqb_eq in H1. apply list_str_eqb_eq in H2. subst. reflexivity.
Qed.

Lemma mem_prod_In : forall p G, mem_prod p G = true -> In p G.
Proof.
  intros p G H. unfold mem_prod in H. apply existsb_exists in H. destruct H as [q [Hq He]].
  apply prod_eqb_eq in He. subst. assumption.
Qed.

Lemma missing_nil_incl : forall req G, missing req G = [] -> incl req G.
Proof.
  unfold missing. induction req as [|p r IH]; intros G H q Hq.
  - inversion Hq.
  - simpl in H. destruct (mem_prod p G) eqn:E; simpl in H; try discriminate.
    destruct Hq as [Hq|Hq]; [subst; apply mem_prod_In; assumption | apply IH; assumption].
Qed.

Lemma mem_str_In : forall s l, mem_str s l = true -> In s l.
Proof.
  intros s l H. unfold mem_str in H. apply existsb_exists in H. destruct H as [x [Hx He]].
  apply String.eqb_eq in He. subst. assumption.
Qed.

Lemma missing_str_nil_incl : forall req l, missing_str req l = [] -> incl req l.
Proof.
  unfold missing_str. induction req as [|p r IH]; intros l H q Hq.
  - inversion Hq.
  - simpl in H. destruct (mem_str p l) eqn:E; simpl in H; try discriminate.
    destruct Hq as [Hq|Hq]; [subst; apply mem_str_In; assumption | apply IH; assumption].
Qed.

Lemma classes_app : forall a b, classes (a ++ b) = classes a ++ classes b.
Proof. intros. unfold classes. apply map_app. Qed.

Lemma classes_cons : forall t a, classes (t :: a) = fst t :: classes a.
Proof. reflexivity. Qed.

Lemma classes_nil : classes [] = [].
Proof. reflexivity. Qed.
Lemma classes_nil' : classes (@nil (string * string)) = [].
Proof. reflexivity. Qed.

Ltac cls := repeat (rewrite classes_app || rewrite classes_cons || rewrite classes_nil); cbn [fst].

Lemma classes_flat_map : forall (A : Type) (f : A -> list token) l,
  classes (flat_map f l) = flat_map (fun x => classes (f x)) l.
Proof.
  induction l as [|x l IH]; simpl; auto. rewrite classes_app, IH. reflexivity.
Qed.

(* ------------------------------------------------------------------ generic CFG facts *)
Section Generic.
Variable G : list production.

Lemma DF_app : forall a x b y, DerivesF G a x -> DerivesF G b y -> DerivesF G (a ++ b) (x ++ y).
Proof.
  induction 1; simpl; intros Hb.
  - assumption.
  - constructor; auto.
  - rewrite <- app_assoc. econstructor; eauto.
Qed.

Lemma derive_rule : forall nt rhs ts, In (nt, rhs) G -> DerivesF G rhs ts -> Derives G nt ts.
Proof.
  intros nt rhs ts Hin H. unfold Derives. rewrite <- (app_nil_r ts). eapply DF_nt; eauto. constructor.
Qed.

Lemma DF_cons : forall s rest x y, Derives G s x -> DerivesF G rest y -> DerivesF G (s :: rest) (x ++ y).
Proof. intros. change (s :: rest) with ([s] ++ rest). apply DF_app; auto. Qed.

Lemma DF_last : forall s x, Derives G s x -> DerivesF G [s] x.
Proof. trivial. Qed.

Lemma DF_tok1 : forall t, is_token t = true -> DerivesF G [t] [t].
Proof. intros. constructor; auto. constructor. Qed.

Lemma derives_mono : forall G', incl G G' -> forall a x, DerivesF G a x -> DerivesF G' a x.
Proof.
  intros G' Hinc a x H. induction H.
  - constructor.
  - constructor; auto.
  - econstructor; eauto.
Qed.
End Generic.

Ltac use_prod :=
  match goal with
  | H : incl _ ?G |- In _ ?G => apply H; apply mem_prod_In; vm_compute; reflexivity
  end.
Ltac dtok := apply DF_tok; [reflexivity|].
Ltac dend := first [apply DF_nil | apply DF_tok1; reflexivity].
Ltac rule nt rhs := apply (derive_rule _ nt rhs); [use_prod|].

(* ------------------------------------------------------------------ productions shared by all parsers
   (MCNP_Parser in parser_base.py) *)
Definition required_base : list production := [
  ("padding", ["SPACE"]);
  ("padding", ["DOLLAR_COMMENT"]);
  ("padding", ["COMMENT"]);
  ("padding", ["padding"; "SPACE"]);
  ("padding", ["padding"; "DOLLAR_COMMENT"]);
  ("padding", ["padding"; "COMMENT"]);
  ("padding", ["padding"; "&"]);
  ("number_phrase", ["NUMBER"]);
  ("number_phrase", ["NUMBER"; "padding"]);
  ("null_phrase", ["NULL"]);
  ("null_phrase", ["NULL"; "padding"]);
  ("numerical_phrase", ["number_phrase"]);
  ("numerical_phrase", ["null_phrase"]);
  ("number_sequence", ["numerical_phrase"]);
  ("number_sequence", ["shortcut_phrase"]);
  ("number_sequence", ["number_sequence"; "numerical_phrase"]);
  ("number_sequence", ["number_sequence"; "shortcut_phrase"]);
  ("shortcut_start", ["numerical_phrase"]);
  ("shortcut_start", ["shortcut_phrase"]);
  ("shortcut_sequence", ["shortcut_start"; "NUM_REPEAT"]);
  ("shortcut_sequence", ["shortcut_start"; "REPEAT"]);
  ("shortcut_sequence", ["shortcut_start"; "NUM_MULTIPLY"]);
  ("shortcut_sequence", ["shortcut_start"; "NUM_INTERPOLATE"; "padding"; "number_phrase"]);
  ("shortcut_sequence", ["shortcut_start"; "INTERPOLATE"; "padding"; "number_phrase"]);
  ("shortcut_sequence", ["shortcut_start"; "NUM_INTERPOLATE"; "padding"; "null_phrase"]);
  ("shortcut_sequence", ["shortcut_start"; "INTERPOLATE"; "padding"; "null_phrase"]);
  ("shortcut_sequence", ["shortcut_start"; "NUM_LOG_INTERPOLATE"; "padding"; "number_phrase"]);
  ("shortcut_sequence", ["shortcut_start"; "LOG_INTERPOLATE"; "padding"; "number_phrase"]);
  ("shortcut_sequence", ["NUM_JUMP"]);
  ("shortcut_sequence", ["JUMP"]);
  ("shortcut_phrase", ["shortcut_sequence"]);
  ("shortcut_phrase", ["shortcut_sequence"; "padding"])
].

(* classifier, separators and parameters: used by cells, data cards and materials *)
Definition required_params : list production := [
  ("data_prefix", ["TEXT"]);
  ("data_prefix", ["KEYWORD"]);
  ("data_prefix", ["PARTICLE"]);
  ("modifier", ["*"]);
  ("modifier", ["PARTICLE_SPECIAL"]);
  ("classifier", ["data_prefix"]);
  ("classifier", ["modifier"; "data_prefix"]);
  ("classifier", ["classifier"; "NUMBER"]);
  ("classifier", ["classifier"; "particle_type"]);
  ("particle_type", [":"; "part"]);
  ("particle_type", ["particle_type"; ","; "part"]);
  ("part", ["PARTICLE"]);
  ("part", ["PARTICLE_SPECIAL"]);
  ("param_seperator", ["padding"]);
  ("param_seperator", ["equals_sign"]);
  ("param_seperator", ["padding"; "equals_sign"]);
  ("equals_sign", ["="]);
  ("equals_sign", ["="; "padding"]);
  ("parameter", ["classifier"; "param_seperator"; "number_sequence"]);
  ("parameters", ["parameter"]);
  ("parameters", ["parameters"; "parameter"])
].

Section Base.
Variable G : list production.
Hypothesis Hbase : incl required_base G.

(* ---- padding *)
Definition padc (c : string) : Prop := c = "SPACE" \/ c = "DOLLAR_COMMENT" \/ c = "COMMENT" \/ c = "&".

Lemma pad_ext : forall l c, Derives G "padding" l -> padc c -> Derives G "padding" (l ++ [c]).
Proof.
  intros l c Hl [Hc|[Hc|[Hc|Hc]]]; subst.
  - rule "padding" ["padding"; "SPACE"]. apply DF_cons; [assumption|dend].
  - rule "padding" ["padding"; "DOLLAR_COMMENT"]. apply DF_cons; [assumption|dend].
  - rule "padding" ["padding"; "COMMENT"]. apply DF_cons; [assumption|dend].
  - rule "padding" ["padding"; "&"]. apply DF_cons; [assumption|dend].
Qed.

Lemma pad_ext_list : forall rest pre, Derives G "padding" pre -> Forall padc rest ->
  Derives G "padding" (pre ++ rest).
Proof.
  induction rest as [|c rest IH]; intros pre Hpre Hall.
  - rewrite app_nil_r. assumption.
  - inversion Hall; subst. change (c :: rest) with ([c] ++ rest). rewrite app_assoc.
    apply IH; auto. apply pad_ext; auto.
Qed.

Definition padstart (c : string) : Prop := c = "SPACE" \/ c = "DOLLAR_COMMENT" \/ c = "COMMENT".
Lemma pad_start_list : forall c rest, padstart c -> Forall padc rest -> Derives G "padding" (c :: rest).
Proof.
  intros c rest Hc H. change (c :: rest) with ([c] ++ rest). apply pad_ext_list; auto.
  destruct Hc as [E|[E|E]]; subst.
  - rule "padding" ["SPACE"]. dend.
  - rule "padding" ["DOLLAR_COMMENT"]. dend.
  - rule "padding" ["COMMENT"]. dend.
Qed.
Lemma pad_space_list : forall rest, Forall padc rest -> Derives G "padding" ("SPACE" :: rest).
Proof. intros rest H. apply pad_start_list; [left; reflexivity|exact H]. Qed.

Lemma sp_tok_padc : forall s, Forall padc (classes (sp_tok s)).
Proof. destruct s; simpl; constructor; [unfold padc; auto|constructor]. Qed.

Lemma cline_tok_class : forall b, fst (cline_tok b) = "COMMENT".
Proof. destruct b; reflexivity. Qed.

Lemma comment_rest_padc : forall cs pre last, Forall padc (classes (comment_rest pre cs last)).
Proof.
  induction cs as [|[ind b] cs IH]; intros pre last; simpl.
  - apply sp_tok_padc.
  - rewrite classes_app, classes_cons, cline_tok_class. apply Forall_app. split; [apply sp_tok_padc|].
    constructor; [unfold padc; auto|]. apply IH.
Qed.

Lemma pad_derives : forall p, Derives G "padding" (classes (pad_toks p)).
Proof.
  destruct p; simpl.
  - apply pad_space_list. constructor.
  - apply pad_space_list. constructor.
  - apply pad_space_list. constructor.
  - apply pad_space_list. constructor; [unfold padc; auto|]. constructor; [unfold padc; auto|]. constructor.
  - apply pad_space_list. constructor; [unfold padc; auto|]. constructor.
  - destruct cs as [|[ind b] cs].
    + apply pad_space_list. constructor.
    + rewrite !classes_cons, cline_tok_class. cbn [fst]. apply pad_space_list.
      constructor; [unfold padc; auto|]. apply comment_rest_padc.
  - apply pad_space_list. constructor; [unfold padc; auto 6|]. constructor; [unfold padc; auto|]. constructor.
  - destruct c as [ind b]. destruct ind as [|k]; cbn [spaces sp_tok app].
    + rewrite classes_cons, cline_tok_class. apply pad_start_list; [right; right; reflexivity|].
      apply comment_rest_padc.
    + rewrite !classes_cons, cline_tok_class. cbn [fst]. apply pad_space_list.
      constructor; [unfold padc; auto|]. apply comment_rest_padc.
Qed.

(* ---- numbers *)
Lemma number_phrase_derives : forall r op, nonzero r = true ->
  Derives G "number_phrase" (classes (num_tok r :: opad_toks op)).
Proof.
  intros r op Hr. unfold nonzero in Hr. apply negb_true_iff in Hr.
  rewrite classes_cons. unfold num_tok, real_class. rewrite Hr. simpl fst.
  destruct op as [p|]; simpl opad_toks.
  - rule "number_phrase" ["NUMBER"; "padding"]. dtok. apply DF_last. apply pad_derives.
  - rule "number_phrase" ["NUMBER"]. dend.
Qed.

Lemma null_phrase_derives : forall r op, real_zero r = true ->
  Derives G "null_phrase" (classes (num_tok r :: opad_toks op)).
Proof.
  intros r op Hr. rewrite classes_cons. unfold num_tok, real_class. rewrite Hr. simpl fst.
  destruct op as [p|]; simpl opad_toks.
  - rule "null_phrase" ["NULL"; "padding"]. dtok. apply DF_last. apply pad_derives.
  - rule "null_phrase" ["NULL"]. dend.
Qed.

Lemma numerical_phrase_derives : forall r op,
  Derives G "numerical_phrase" (classes (num_tok r :: opad_toks op)).
Proof.
  intros r op. destruct (real_zero r) eqn:E.
  - rule "numerical_phrase" ["null_phrase"]. apply DF_last. apply null_phrase_derives; assumption.
  - rule "numerical_phrase" ["number_phrase"]. apply DF_last. apply number_phrase_derives.
    unfold nonzero. rewrite E. reflexivity.
Qed.

(* ---- numeric lists.  Invariant: the tokens split into a front that is a number_sequence (or is
   empty) and a last phrase that can start a shortcut. *)
Definition phrase (ts : list string) : Prop :=
  Derives G "numerical_phrase" ts \/ Derives G "shortcut_phrase" ts.
Definition nl_inv (ts : list string) : Prop :=
  exists front last, ts = front ++ last /\ (front = [] \/ Derives G "number_sequence" front) /\ phrase last.

Lemma phrase_start : forall ts, phrase ts -> Derives G "shortcut_start" ts.
Proof.
  intros ts [H|H].
  - rule "shortcut_start" ["numerical_phrase"]. apply DF_last; assumption.
  - rule "shortcut_start" ["shortcut_phrase"]. apply DF_last; assumption.
Qed.

Lemma nl_inv_seq : forall ts, nl_inv ts -> Derives G "number_sequence" ts.
Proof.
  intros ts [front [last [E [[Hf|Hf] [Hl|Hl]]]]]; subst.
  - simpl. rule "number_sequence" ["numerical_phrase"]. apply DF_last; assumption.
  - simpl. rule "number_sequence" ["shortcut_phrase"]. apply DF_last; assumption.
  - rule "number_sequence" ["number_sequence"; "numerical_phrase"]. apply DF_cons; [assumption|apply DF_last; assumption].
  - rule "number_sequence" ["number_sequence"; "shortcut_phrase"]. apply DF_cons; [assumption|apply DF_last; assumption].
Qed.

Lemma shortcut_phrase_of_seq : forall ts op, Derives G "shortcut_sequence" ts ->
  Derives G "shortcut_phrase" (ts ++ classes (opad_toks op)).
Proof.
  intros ts op H. destruct op as [p|]; simpl opad_toks.
  - rule "shortcut_phrase" ["shortcut_sequence"; "padding"]. apply DF_cons; [assumption|].
    apply DF_last. apply pad_derives.
  - simpl. rewrite app_nil_r. rule "shortcut_phrase" ["shortcut_sequence"]. apply DF_last; assumption.
Qed.

(* a start item (number or jump) with its padding is a phrase *)
Lemma start_item_phrase : forall i op, is_start i = true ->
  phrase (classes (nitem_toks i ++ opad_toks op)).
Proof.
  intros i op Hi. destruct i; simpl in Hi; try discriminate.
  - left. simpl nitem_toks. simpl app. apply numerical_phrase_derives.
  - right. rewrite classes_app. apply shortcut_phrase_of_seq. destruct n; simpl.
    + rule "shortcut_sequence" ["NUM_JUMP"]. dend.
    + rule "shortcut_sequence" ["JUMP"]. dend.
Qed.

(* appending an item to a list that satisfies the invariant *)
Lemma nl_inv_snoc : forall ts i op, nl_inv ts -> nitem_ok i = true ->
  nl_inv (ts ++ classes (nitem_toks i ++ opad_toks op)).
Proof.
  intros ts i op Hinv Hok.
  destruct (is_start i) eqn:Es.
  - (* a new phrase: the whole old list becomes the front *)
    exists ts, (classes (nitem_toks i ++ opad_toks op)). split; [reflexivity|]. split.
    + right. apply nl_inv_seq; assumption.
    + apply start_item_phrase; assumption.
  - destruct Hinv as [front [last [E [Hf Hl]]]]. subst ts.
    exists front, (last ++ classes (nitem_toks i ++ opad_toks op)).
    split; [rewrite app_assoc; reflexivity|]. split; [assumption|].
    right. rewrite classes_app, app_assoc. apply shortcut_phrase_of_seq.
    pose proof (phrase_start _ Hl) as Hs.
    destruct i; simpl in Es; try discriminate; simpl in Hok.
    + (* repeat *) destruct n; simpl.
      * rule "shortcut_sequence" ["shortcut_start"; "NUM_REPEAT"]. apply DF_cons; [assumption|dend].
      * rule "shortcut_sequence" ["shortcut_start"; "REPEAT"]. apply DF_cons; [assumption|dend].
    + (* multiply *) simpl.
      rule "shortcut_sequence" ["shortcut_start"; "NUM_MULTIPLY"]. apply DF_cons; [assumption|dend].
    + (* interpolate: the end point may be zero *)
      unfold nitem_toks. rewrite !classes_app. change (classes [num_tok w]) with [fst (num_tok w)].
      destruct (real_zero w) eqn:Ez.
      * assert (Hw : Derives G "null_phrase" [fst (num_tok w)]) by apply (null_phrase_derives w None Ez).
        destruct n; simpl app.
        -- rule "shortcut_sequence" ["shortcut_start"; "NUM_INTERPOLATE"; "padding"; "null_phrase"].
           apply DF_cons; [assumption|]. dtok. apply DF_cons; [apply pad_derives|]. apply DF_last. exact Hw.
        -- rule "shortcut_sequence" ["shortcut_start"; "INTERPOLATE"; "padding"; "null_phrase"].
           apply DF_cons; [assumption|]. dtok. apply DF_cons; [apply pad_derives|]. apply DF_last. exact Hw.
      * assert (Hw : Derives G "number_phrase" [fst (num_tok w)]).
        { apply (number_phrase_derives w None). unfold nonzero. rewrite Ez. reflexivity. }
        destruct n; simpl app.
        -- rule "shortcut_sequence" ["shortcut_start"; "NUM_INTERPOLATE"; "padding"; "number_phrase"].
           apply DF_cons; [assumption|]. dtok. apply DF_cons; [apply pad_derives|]. apply DF_last. exact Hw.
        -- rule "shortcut_sequence" ["shortcut_start"; "INTERPOLATE"; "padding"; "number_phrase"].
           apply DF_cons; [assumption|]. dtok. apply DF_cons; [apply pad_derives|]. apply DF_last. exact Hw.
    + (* log interpolate *)
      assert (Hw : Derives G "number_phrase" [fst (num_tok w)]).
      { apply (number_phrase_derives w None Hok). }
      unfold nitem_toks. rewrite !classes_app. change (classes [num_tok w]) with [fst (num_tok w)].
      destruct n; simpl app.
      * rule "shortcut_sequence" ["shortcut_start"; "NUM_LOG_INTERPOLATE"; "padding"; "number_phrase"].
        apply DF_cons; [assumption|]. dtok. apply DF_cons; [apply pad_derives|]. apply DF_last. exact Hw.
      * rule "shortcut_sequence" ["shortcut_start"; "LOG_INTERPOLATE"; "padding"; "number_phrase"].
        apply DF_cons; [assumption|]. dtok. apply DF_cons; [apply pad_derives|]. apply DF_last. exact Hw.
Qed.

Lemma nlist_inv : forall l, nlist_ok l = true -> nl_inv (classes (nlist_toks l)).
Proof.
  induction l as [i p|l IH i p]; simpl; intros H.
  - apply andb_true_iff in H. destruct H as [Hs Hok].
    exists [], (classes (nitem_toks i ++ opad_toks p)). split; [reflexivity|]. split; [left; reflexivity|].
    apply start_item_phrase; assumption.
  - apply andb_true_iff in H. destruct H as [Hl Hok].
    rewrite classes_app. apply nl_inv_snoc; auto.
Qed.

Theorem nlist_derives : forall l, nlist_ok l = true -> Derives G "number_sequence" (classes (nlist_toks l)).
Proof. intros. apply nl_inv_seq. apply nlist_inv. assumption. Qed.

End Base.

(* ------------------------------------------------------------------ classifier / parameters *)
Section Params.
Variable G : list production.
Hypothesis Hbase : incl required_base G.
Hypothesis Hpar : incl required_params G.

Definition partc (c : string) : Prop := c = "PARTICLE" \/ c = "PARTICLE_SPECIAL".

Lemma part_derives : forall c, partc c -> Derives G "part" [c].
Proof.
  intros c [H|H]; subst.
  - rule "part" ["PARTICLE"]. dend.
  - rule "part" ["PARTICLE_SPECIAL"]. dend.
Qed.

Lemma parts_more : forall ps pre, Derives G "particle_type" pre -> Forall (fun t => partc (fst t)) ps ->
  Derives G "particle_type" (pre ++ classes (parts_toks false ps)).
Proof.
  induction ps as [|p ps IH]; intros pre Hpre Hall; simpl.
  - rewrite app_nil_r. assumption.
 - inversion Hall; subst.
    change (pre ++ "," :: fst p :: classes (parts_toks false ps))
      with (pre ++ ["," ; fst p] ++ classes (parts_toks false ps)).
    rewrite app_assoc. apply IH; auto.
    rule "particle_type" ["particle_type"; ","; "part"]. apply DF_cons; [assumption|]. dtok.
    apply DF_last. apply part_derives. assumption.
Qed.

Lemma parts_derives : forall ps, ps <> [] -> Forall (fun t => partc (fst t)) ps ->
  Derives G "particle_type" (classes (parts_toks true ps)).
Proof.
  intros ps Hne Hall. destruct ps as [|p ps]; [congruence|]. inversion Hall; subst.
  simpl.
  change (":" :: fst p :: classes (parts_toks false ps)) with ([":"; fst p] ++ classes (parts_toks false ps)).
  apply parts_more; auto.
  rule "particle_type" [":"; "part"]. dtok. apply DF_last. apply part_derives. assumption.
Qed.

Definition prefc (c : string) : Prop := c = "TEXT" \/ c = "KEYWORD" \/ c = "PARTICLE".
Definition modc (c : string) : Prop := c = "*" \/ c = "PARTICLE_SPECIAL".

(* [modifier] prefix [NUMBER] [particles] *)
Lemma classifier_derives : forall (md : option string) pc (num : bool) (ps : list token),
  (match md with Some m => modc m | None => True end) -> prefc pc ->
  Forall (fun t => partc (fst t)) ps ->
  Derives G "classifier"
    ((match md with Some m => [m] | None => [] end) ++ [pc]
     ++ (if num then ["NUMBER"] else []) ++ classes (parts_toks true ps)).
Proof.
  intros md pc num ps Hmd Hpc Hps.
  assert (Hpre : Derives G "data_prefix" [pc]).
  { destruct Hpc as [H|[H|H]]; subst.
    - rule "data_prefix" ["TEXT"]. dend.
    - rule "data_prefix" ["KEYWORD"]. dend.
    - rule "data_prefix" ["PARTICLE"]. dend. }
  assert (H0 : Derives G "classifier" ((match md with Some m => [m] | None => [] end) ++ [pc])).
  { destruct md as [m|]; simpl.
    - rule "classifier" ["modifier"; "data_prefix"].
      change [m; pc] with ([m] ++ [pc]). apply DF_cons; [|apply DF_last; assumption].
      destruct Hmd as [H|H]; subst.
      + rule "modifier" ["*"]. dend.
      + rule "modifier" ["PARTICLE_SPECIAL"]. dend.
    - rule "classifier" ["data_prefix"]. apply DF_last; assumption. }
  assert (H1 : Derives G "classifier"
                 (((match md with Some m => [m] | None => [] end) ++ [pc]) ++ (if num then ["NUMBER"] else []))).
  { destruct num.
    - rule "classifier" ["classifier"; "NUMBER"]. apply DF_cons; [assumption|dend].
    - rewrite app_nil_r. assumption. }
  rewrite !app_assoc. rewrite <- app_assoc in H1.
  destruct ps as [|p ps].
  - simpl. rewrite app_nil_r. rewrite <- app_assoc. assumption.
  - rule "classifier" ["classifier"; "particle_type"].
    apply DF_cons; [rewrite <- app_assoc; assumption|]. apply DF_last. apply parts_derives; [discriminate|assumption].
Qed.

Lemma sep_derives : forall s, Derives G "param_seperator" (classes (sep_toks s)).
Proof.
  destruct s as [p|pl pr]; simpl sep_toks.
  - rule "param_seperator" ["padding"]. apply DF_last. apply pad_derives; assumption.
  - assert (He : Derives G "equals_sign" ("=" :: classes (opad_toks pr))).
    { destruct pr as [p|]; simpl opad_toks.
      - rule "equals_sign" ["="; "padding"]. dtok. apply DF_last. apply pad_derives; assumption.
      - rule "equals_sign" ["="]. dend. }
    rewrite classes_app. destruct pl as [p|]; simpl opad_toks.
    + rule "param_seperator" ["padding"; "equals_sign"].
      apply DF_cons; [apply pad_derives; assumption|]. apply DF_last. exact He.
    + simpl. rule "param_seperator" ["equals_sign"]. apply DF_last. exact He.
Qed.

(* a list of parameters, each already known to be a [parameter] *)
Lemma parameters_more : forall (A : Type) (f : A -> list string) l pre,
  Derives G "parameters" pre -> Forall (fun x => Derives G "parameter" (f x)) l ->
  Derives G "parameters" (pre ++ flat_map f l).
Proof.
  induction l as [|x l IH]; intros pre Hpre Hall; simpl.
  - rewrite app_nil_r. assumption.
  - inversion Hall; subst. rewrite app_assoc. apply IH; auto.
    rule "parameters" ["parameters"; "parameter"]. apply DF_cons; [assumption|apply DF_last; assumption].
Qed.

Lemma parameters_derives : forall (A : Type) (f : A -> list string) l, l <> [] ->
  Forall (fun x => Derives G "parameter" (f x)) l -> Derives G "parameters" (flat_map f l).
Proof.
  intros A f l Hne Hall. destruct l as [|x l]; [congruence|]. inversion Hall; subst. simpl.
  apply parameters_more; auto. rule "parameters" ["parameter"]. apply DF_last; assumption.
Qed.

End Params.

(* ------------------------------------------------------------------ cells *)
Definition required_cell_only : list production := [
  ("cell", ["identifier_phrase"; "material"; "geometry_expr"]);
  ("cell", ["identifier_phrase"; "material"; "geometry_expr"; "parameters"]);
  ("cell", ["padding"; "identifier_phrase"; "material"; "geometry_expr"]);
  ("cell", ["padding"; "identifier_phrase"; "material"; "geometry_expr"; "parameters"]);
  ("identifier_phrase", ["NUMBER"; "padding"]);
  ("null_ident_phrase", ["NULL"; "padding"]);
  ("material", ["null_ident_phrase"]);
  ("material", ["identifier_phrase"; "number_phrase"]);
  ("material", ["identifier_phrase"; "null_phrase"]);
  ("union", [":"]);
  ("union", ["union"; "padding"]);
  ("geometry_expr", ["geometry_term"]);
  ("geometry_expr", ["geometry_expr"; "union"; "geometry_term"]);
  ("geometry_term", ["geometry_factor"]);
  ("geometry_term", ["geometry_term"; "padding"; "geometry_factor"]);
  ("geometry_term", ["geometry_term"; "geometry_factor"]);
  ("geometry_term", ["geometry_term"; "padding"]);
  ("geometry_factor", ["geometry_factory"]);
  ("geometry_factor", ["COMPLEMENT"; "geometry_factory"]);
  ("geometry_factory", ["NUMBER"]);
  ("geometry_factory", ["("; "geometry_expr"; ")"]);
  ("geometry_factory", ["("; "padding"; "geometry_expr"; ")"]);
  ("number_sequence", ["number_sequence"; "("; "number_sequence"; ")"]);
  ("number_sequence", ["number_sequence"; "("; "number_sequence"; ")"; "padding"]);
  ("number_sequence", ["number_sequence"; ":"; "numerical_phrase"]);
  ("number_sequence", ["("; "number_sequence"; ")"]);
  ("number_sequence", ["("; "number_sequence"; ")"; "padding"]);
  ("number_sequence", ["number_sequence"; "("; "padding"; "number_sequence"; ")"]);
  ("number_sequence", ["number_sequence"; "("; "padding"; "number_sequence"; ")"; "padding"]);
  ("number_sequence", ["("; "padding"; "number_sequence"; ")"]);
  ("number_sequence", ["("; "padding"; "number_sequence"; ")"; "padding"])
].
Definition required_cell : list production := required_base ++ required_params ++ required_cell_only.

Section Cell.
Variable G : list production.
Hypothesis Hcell : incl required_cell G.

Lemma Hc_base : incl required_base G.
Proof. intros p Hp. apply Hcell. unfold required_cell. apply in_or_app. left. assumption. Qed.
Lemma Hc_par : incl required_params G.
Proof. intros p Hp. apply Hcell. unfold required_cell. apply in_or_app. right. apply in_or_app. left. assumption. Qed.
Lemma Hc_only : incl required_cell_only G.
Proof. intros p Hp. apply Hcell. unfold required_cell. apply in_or_app. right. apply in_or_app. right. assumption. Qed.

Let Hb := Hc_base.
Let Hp := Hc_par.
Let Ho := Hc_only.

Lemma nonzero_class : forall r, nonzero r = true -> fst (num_tok r) = "NUMBER".
Proof. intros r H. unfold nonzero in H. apply negb_true_iff in H. unfold num_tok, real_class. rewrite H. reflexivity. Qed.
Lemma zero_class : forall r, real_zero r = true -> fst (num_tok r) = "NULL".
Proof. intros r H. unfold num_tok, real_class. rewrite H. reflexivity. Qed.

Lemma nonzero_rc : forall r, nonzero r = true -> real_class r = "NUMBER".
Proof. intros r H. apply (nonzero_class r H). Qed.
Lemma zero_rc : forall r, real_zero r = true -> real_class r = "NULL".
Proof. intros r H. apply (zero_class r H). Qed.

Lemma factory_paren : forall pl ets, Derives G "geometry_expr" ets ->
  Derives G "geometry_factory" ("(" :: classes (opad_toks pl) ++ ets ++ [")"]).
Proof.
  intros pl ets He. destruct pl as [p|]; simpl opad_toks.
  - rule "geometry_factory" ["("; "padding"; "geometry_expr"; ")"]. dtok.
    apply DF_cons; [apply pad_derives; exact Hb|]. apply DF_cons; [assumption|dend].
  - simpl. rule "geometry_factory" ["("; "geometry_expr"; ")"]. dtok. apply DF_cons; [assumption|dend].
Qed.

Lemma term_trail : forall ts op, Derives G "geometry_term" ts ->
  Derives G "geometry_term" (ts ++ classes (opad_toks op)).
Proof.
  intros ts op H. destruct op as [p|]; simpl opad_toks.
  - rule "geometry_term" ["geometry_term"; "padding"]. apply DF_cons; [assumption|].
    apply DF_last. apply pad_derives; exact Hb.
  - simpl. rewrite app_nil_r. assumption.
Qed.

Lemma union_derives : forall op, Derives G "union" (":" :: classes (opad_toks op)).
Proof.
  intros op. destruct op as [p|]; simpl opad_toks.
  - rule "union" ["union"; "padding"]. change (":" :: classes (pad_toks p)) with ([":"] ++ classes (pad_toks p)).
    apply DF_cons; [|apply DF_last; apply pad_derives; exact Hb]. rule "union" [":"]. dend.
  - rule "union" [":"]. dend.
Qed.

Scheme fact_mind := Induction for fact Sort Prop
  with term_mind := Induction for term Sort Prop
  with expr_mind := Induction for expr Sort Prop.
Combined Scheme geom_mind from fact_mind, term_mind, expr_mind.

Lemma geom_derives :
  (forall f, fact_ok f = true ->
     Derives G "geometry_factor" (classes (fact_toks f)) /\
     (is_factory f = true -> Derives G "geometry_factory" (classes (fact_toks f)))) /\
  (forall t, term_ok t = true -> Derives G "geometry_term" (classes (term_toks t))) /\
  (forall e, expr_ok e = true -> Derives G "geometry_expr" (classes (expr_toks e))).
Proof.
  apply geom_mind.
  - (* FLeaf *) intros r H. simpl in H. simpl fact_toks. rewrite classes_cons, (nonzero_class _ H). simpl.
    assert (Hf : Derives G "geometry_factory" ["NUMBER"]). { rule "geometry_factory" ["NUMBER"]. dend. }
    split; [|intros _; exact Hf]. rule "geometry_factor" ["geometry_factory"]. apply DF_last. exact Hf.
  - (* FComplCell *) intros r H. simpl in H. simpl fact_toks. rewrite !classes_cons, (nonzero_class _ H). simpl.
    split; [|intros X; discriminate].
    rule "geometry_factor" ["COMPLEMENT"; "geometry_factory"]. dtok. apply DF_last.
    rule "geometry_factory" ["NUMBER"]. dend.
  - (* FComplPar *) intros pl e IH H. simpl in H. specialize (IH H). simpl fact_toks.
    split; [|intros X; discriminate].
    rewrite classes_cons. simpl fst.
    rule "geometry_factor" ["COMPLEMENT"; "geometry_factory"]. dtok. apply DF_last.
    rewrite classes_cons, !classes_app. simpl fst. apply factory_paren. assumption.
  - (* FPar *) intros pl e IH H. simpl in H. specialize (IH H). simpl fact_toks.
    assert (Hf : Derives G "geometry_factory" (classes ([("(", "(")] ++ opad_toks pl ++ expr_toks e ++ [(")", ")")]))).
    { simpl app. rewrite classes_cons, !classes_app. simpl fst. apply factory_paren. assumption. }
    split; [|intros _; exact Hf]. rule "geometry_factor" ["geometry_factory"]. apply DF_last. exact Hf.
  - (* TOne *) intros f IH H. simpl in H. destruct (IH H) as [Hf _]. simpl term_toks.
    rule "geometry_term" ["geometry_factor"]. apply DF_last. assumption.
  - (* TAnd *) intros t IHt sep f IHf H. simpl in H.
    apply andb_true_iff in H. destruct H as [Ht Hf].
    specialize (IHt Ht). destruct (IHf Hf) as [Hfac Hfy]. simpl term_toks. rewrite !classes_app.
    destruct sep as [p|]; simpl opad_toks.
    + rule "geometry_term" ["geometry_term"; "padding"; "geometry_factor"].
      apply DF_cons; [assumption|]. apply DF_cons; [apply pad_derives; exact Hb|]. apply DF_last. assumption.
    + simpl. rule "geometry_term" ["geometry_term"; "geometry_factor"].
      apply DF_cons; [assumption|]. apply DF_last. assumption.
  - (* EOne *) intros t IH tr H. simpl in H. specialize (IH H). simpl expr_toks. rewrite classes_app.
    rule "geometry_expr" ["geometry_term"]. apply DF_last. apply term_trail. assumption.
  - (* EOr *) intros e IHe pr t IHt tr H. simpl in H. apply andb_true_iff in H. destruct H as [He Ht].
    specialize (IHe He). specialize (IHt Ht). simpl expr_toks. rewrite !classes_app. simpl classes at 2.
    rewrite !classes_app.
    rule "geometry_expr" ["geometry_expr"; "union"; "geometry_term"].
    apply DF_cons; [assumption|].
    change (":" :: classes (opad_toks pr) ++ classes (term_toks t) ++ classes (opad_toks tr))
      with ((":" :: classes (opad_toks pr)) ++ classes (term_toks t) ++ classes (opad_toks tr)).
    apply DF_cons; [apply union_derives|]. apply DF_last. apply term_trail. assumption.
Qed.

(* ---- parameter values *)
Lemma cvseq_derives : forall s, cvseq_ok s = true -> Derives G "number_sequence" (classes (cvseq_toks s)).
Proof.
  induction s as [l|s IH b p|s IH i p|s IH pl inner p|pl inner p]; simpl; intros H.
  - apply nlist_derives; [exact Hb|assumption].
  - specialize (IH H). rewrite !classes_app. simpl classes at 2.
    rule "number_sequence" ["number_sequence"; ":"; "numerical_phrase"].
    apply DF_cons; [assumption|]. simpl app. dtok. apply DF_last.
    exact (numerical_phrase_derives G Hb b p).
  - apply andb_true_iff in H. destruct H as [Hs Hi]. specialize (IH Hs).
    rewrite classes_app.
    destruct (start_item_phrase G Hb i p Hi) as [Hph|Hph].
    + rule "number_sequence" ["number_sequence"; "numerical_phrase"].
      apply DF_cons; [assumption|apply DF_last; assumption].
    + rule "number_sequence" ["number_sequence"; "shortcut_phrase"].
      apply DF_cons; [assumption|apply DF_last; assumption].
  - apply andb_true_iff in H. destruct H as [Hs Hi]. specialize (IH Hs).
    pose proof (nlist_derives G Hb inner Hi) as Hin.
    destruct pl as [q0|]; destruct p as [q|]; simpl opad_toks; cls; rewrite ?app_nil_l.
    + rule "number_sequence" ["number_sequence"; "("; "padding"; "number_sequence"; ")"; "padding"].
      apply DF_cons; [assumption|]. dtok. apply DF_cons; [apply pad_derives; exact Hb|].
      apply DF_cons; [assumption|]. dtok. apply DF_last. apply pad_derives; exact Hb.
    + rule "number_sequence" ["number_sequence"; "("; "padding"; "number_sequence"; ")"].
      apply DF_cons; [assumption|]. dtok. apply DF_cons; [apply pad_derives; exact Hb|].
      apply DF_cons; [assumption|]. dend.
    + rule "number_sequence" ["number_sequence"; "("; "number_sequence"; ")"; "padding"].
      apply DF_cons; [assumption|]. dtok. apply DF_cons; [assumption|]. dtok.
      apply DF_last. apply pad_derives; exact Hb.
    + rule "number_sequence" ["number_sequence"; "("; "number_sequence"; ")"].
      apply DF_cons; [assumption|]. dtok. apply DF_cons; [assumption|]. dend.
  - pose proof (nlist_derives G Hb inner H) as Hin.
    destruct pl as [q0|]; destruct p as [q|]; simpl opad_toks; cls; rewrite ?app_nil_l.
    + rule "number_sequence" ["("; "padding"; "number_sequence"; ")"; "padding"]. dtok.
      apply DF_cons; [apply pad_derives; exact Hb|]. apply DF_cons; [assumption|]. dtok.
      apply DF_last. apply pad_derives; exact Hb.
    + rule "number_sequence" ["("; "padding"; "number_sequence"; ")"]. dtok.
      apply DF_cons; [apply pad_derives; exact Hb|]. apply DF_cons; [assumption|]. dend.
    + rule "number_sequence" ["("; "number_sequence"; ")"; "padding"]. dtok.
      apply DF_cons; [assumption|]. dtok. apply DF_last. apply pad_derives; exact Hb.
    + rule "number_sequence" ["("; "number_sequence"; ")"]. dtok.
      apply DF_cons; [assumption|]. dend.
Qed.

Lemma map_particle_partc : forall ps, Forall (fun t : token => partc (fst t)) (map (fun p => ("PARTICLE", p)) ps).
Proof. induction ps; simpl; constructor; auto. left. reflexivity. Qed.

Lemma cparam_derives : forall c, cparam_ok c = true -> Derives G "parameter" (classes (cparam_toks c)).
Proof.
  intros c H. unfold cparam_ok in H.
  apply andb_true_iff in H. destruct H as [H Hv]. apply andb_true_iff in H. destruct H as [H Hps].
  apply andb_true_iff in H. destruct H as [Hk Hn].
  unfold cparam_toks. rewrite !classes_app.
  rule "parameter" ["classifier"; "param_seperator"; "number_sequence"].
  pose proof (classifier_derives G Hp (if cp_star c then Some "*" else None) "KEYWORD"
                  (match cp_num c with Some _ => true | None => false end)
                  (map (fun p => ("PARTICLE", p)) (cp_parts c))) as HC.
  match goal with
  | |- DerivesF _ _ (?A ++ ?B ++ ?C ++ ?D ++ ?E ++ ?F) =>
      replace (A ++ B ++ C ++ D ++ E ++ F) with ((A ++ B ++ C ++ D) ++ E ++ F)
        by (rewrite <- !app_assoc; reflexivity)
  end.
  apply DF_cons.
  - match goal with
    | |- Derives _ _ ?L =>
        replace L with
          ((match (if cp_star c then Some "*" else None) with Some m => [m] | None => [] end) ++ ["KEYWORD"]
           ++ (if (match cp_num c with Some _ => true | None => false end) then ["NUMBER"] else [])
           ++ classes (parts_toks true (map (fun p => ("PARTICLE", p)) (cp_parts c))))
          by (destruct (cp_star c); destruct (cp_num c); reflexivity)
    end.
    apply HC.
    + destruct (cp_star c); [left; reflexivity|exact I].
    + right. left. reflexivity.
    + apply map_particle_partc.
  - apply DF_cons; [apply sep_derives; [exact Hb|exact Hp]|]. apply DF_last. apply cvseq_derives. assumption.
Qed.

Lemma mat_derives : forall m, mat_ok m = true -> Derives G "material" (classes (mat_toks m)).
Proof.
  destruct m as [z p|n p1 d p2]; simpl; intros H.
  - rewrite (zero_rc _ H).
    rule "material" ["null_ident_phrase"]. apply DF_last.
    rule "null_ident_phrase" ["NULL"; "padding"]. dtok. apply DF_last. apply pad_derives; exact Hb.
  - rewrite (nonzero_rc _ H), classes_app.
    change ("NUMBER" :: classes (pad_toks p1) ++ classes (num_tok d :: pad_toks p2))
      with (("NUMBER" :: classes (pad_toks p1)) ++ classes (num_tok d :: pad_toks p2)).
    assert (Hid : Derives G "identifier_phrase" ("NUMBER" :: classes (pad_toks p1))).
    { rule "identifier_phrase" ["NUMBER"; "padding"]. dtok. apply DF_last. apply pad_derives; exact Hb. }
    destruct (real_zero d) eqn:E.
    + rule "material" ["identifier_phrase"; "null_phrase"]. apply DF_cons; [assumption|]. apply DF_last.
      apply (null_phrase_derives G Hb d (Some p2) E).
    + rule "material" ["identifier_phrase"; "number_phrase"]. apply DF_cons; [assumption|]. apply DF_last.
      apply (number_phrase_derives G Hb d (Some p2)). unfold nonzero. rewrite E. reflexivity.
Qed.

Theorem cell_derivable : forall c, cell_shape c -> Derives G "cell" (classes (cell_toks c)).
Proof.
  intros c H. unfold cell_shape, cell_shape_b in H.
  apply andb_true_iff in H. destruct H as [H Hps]. apply andb_true_iff in H. destruct H as [H Hg].
  apply andb_true_iff in H. destruct H as [Hn Hm].
  destruct geom_derives as [_ [_ Hexpr]].
  pose proof (Hexpr _ Hg) as HG. pose proof (mat_derives _ Hm) as HM.
  assert (Hid : Derives G "identifier_phrase" (classes (num_tok (c_num c) :: pad_toks (c_pad c)))).
  { rewrite classes_cons, (nonzero_class _ Hn).
    rule "identifier_phrase" ["NUMBER"; "padding"]. dtok. apply DF_last. apply pad_derives; exact Hb. }
  assert (Hparams : c_params c <> [] ->
                    Derives G "parameters" (classes (flat_map cparam_toks (c_params c)))).
  { intros Hne. rewrite classes_flat_map. apply parameters_derives; [exact Hp|assumption|].
    apply Forall_forall. intros x Hx. apply cparam_derives. rewrite forallb_forall in Hps. apply Hps. assumption. }
  unfold cell_toks. rewrite classes_app.
  change (num_tok (c_num c) :: pad_toks (c_pad c) ++ mat_toks (c_mat c) ++ expr_toks (c_geom c) ++ flat_map cparam_toks (c_params c))
    with ((num_tok (c_num c) :: pad_toks (c_pad c)) ++ mat_toks (c_mat c) ++ expr_toks (c_geom c) ++ flat_map cparam_toks (c_params c)).
  rewrite !classes_app.
  destruct (c_lead c) as [lp|]; simpl opad_toks; destruct (c_params c) as [|cp0 cps] eqn:Ep.
  - simpl flat_map. rewrite classes_nil, app_nil_r.
    rule "cell" ["padding"; "identifier_phrase"; "material"; "geometry_expr"].
    apply DF_cons; [apply pad_derives; exact Hb|]. apply DF_cons; [assumption|].
    apply DF_cons; [assumption|]. apply DF_last. assumption.
  - rule "cell" ["padding"; "identifier_phrase"; "material"; "geometry_expr"; "parameters"].
    apply DF_cons; [apply pad_derives; exact Hb|]. apply DF_cons; [assumption|].
    apply DF_cons; [assumption|]. apply DF_cons; [assumption|]. apply DF_last. apply Hparams. discriminate.
  - simpl flat_map. rewrite !classes_nil, app_nil_r, app_nil_l.
    rule "cell" ["identifier_phrase"; "material"; "geometry_expr"].
    apply DF_cons; [assumption|]. apply DF_cons; [assumption|]. apply DF_last. assumption.
  - rewrite classes_nil, app_nil_l.
    rule "cell" ["identifier_phrase"; "material"; "geometry_expr"; "parameters"].
    apply DF_cons; [assumption|]. apply DF_cons; [assumption|]. apply DF_cons; [assumption|].
    apply DF_last. apply Hparams. discriminate.
Qed.

End Cell.

(* ------------------------------------------------------------------ left-recursive lists, generically *)
Section LeftRec.
Variable G : list production.
Variables L X : string.
Hypothesis H1 : In (L, [X]) G.
Hypothesis H2 : In (L, [L; X]) G.

Lemma leftrec_more : forall (A : Type) (f : A -> list string) l pre,
  Derives G L pre -> Forall (fun x => Derives G X (f x)) l -> Derives G L (pre ++ flat_map f l).
Proof.
  induction l as [|x l IH]; intros pre Hpre Hall; simpl.
  - rewrite app_nil_r. assumption.
  - inversion Hall; subst. rewrite app_assoc. apply IH; auto.
    apply (derive_rule _ L [L; X]); [assumption|]. apply DF_cons; [assumption|apply DF_last; assumption].
Qed.

Lemma leftrec_derives : forall (A : Type) (f : A -> list string) x l,
  Forall (fun y => Derives G X (f y)) (x :: l) -> Derives G L (f x ++ flat_map f l).
Proof.
  intros A f x l Hall. inversion Hall; subst. apply leftrec_more; auto.
  apply (derive_rule _ L [X]); [assumption|]. apply DF_last; assumption.
Qed.
End LeftRec.

(* ------------------------------------------------------------------ surfaces *)
Definition required_surface_only : list production := [
  ("surface", ["surface_id"; "SURFACE_TYPE"; "padding"; "number_sequence"]);
  ("surface", ["padding"; "surface_id"; "SURFACE_TYPE"; "padding"; "number_sequence"]);
  ("surface", ["surface_id"; "number_phrase"; "SURFACE_TYPE"; "padding"; "number_sequence"]);
  ("surface", ["padding"; "surface_id"; "number_phrase"; "SURFACE_TYPE"; "padding"; "number_sequence"]);
  ("surface_id", ["number_phrase"]);
  ("surface_id", ["*"; "number_phrase"])
].
Definition required_surface : list production := required_base ++ required_surface_only.

Section Surface.
Variable G : list production.
Hypothesis Hsurf : incl required_surface G.

Lemma Hs_base : incl required_base G.
Proof. intros p Hp. apply Hsurf. unfold required_surface. apply in_or_app. left. assumption. Qed.
Lemma Hs_only : incl required_surface_only G.
Proof. intros p Hp. apply Hsurf. unfold required_surface. apply in_or_app. right. assumption. Qed.
Let Hb := Hs_base.
Let Ho := Hs_only.

Lemma with_sign_nonzero : forall s r, nonzero (with_sign s r) = nonzero r.
Proof. reflexivity. Qed.

Theorem surface_derivable : forall s, surf_shape s -> Derives G "surface" (classes (surf_toks s)).
Proof.
  intros s H. unfold surf_shape, surf_shape_b in H.
  apply andb_true_iff in H. destruct H as [H Hd]. apply andb_true_iff in H. destruct H as [H Hmn].
  apply andb_true_iff in H. destruct H as [Hn Hptr].
  pose proof (nlist_derives G Hb _ Hd) as HD.
  assert (Hid : Derives G "surface_id"
                  (classes (match s_mod s with
                            | SMNone => [num_tok (s_num s)]
                            | SMStar => [("*", "*"); num_tok (s_num s)]
                            | SMPlus => [num_tok (with_sign SPlus (s_num s))]
                            end ++ pad_toks (s_p1 s)))).
  { destruct (s_mod s).
    - rule "surface_id" ["number_phrase"]. apply DF_last.
      apply (number_phrase_derives G Hb (s_num s) (Some (s_p1 s)) Hn).
    - simpl app. rewrite classes_cons. cbn [fst].
      rule "surface_id" ["*"; "number_phrase"]. dtok. apply DF_last.
      apply (number_phrase_derives G Hb (s_num s) (Some (s_p1 s)) Hn).
    - rule "surface_id" ["number_phrase"]. apply DF_last.
      apply (number_phrase_derives G Hb (with_sign SPlus (s_num s)) (Some (s_p1 s))).
      rewrite with_sign_nonzero. assumption. }
  unfold surf_toks.
  match goal with
  | |- Derives _ _ (classes (?L ++ ?M ++ ?P1 ++ ?PT ++ ?MN ++ ?P2 ++ ?D)) =>
      replace (L ++ M ++ P1 ++ PT ++ MN ++ P2 ++ D) with (L ++ (M ++ P1) ++ PT ++ MN ++ P2 ++ D)
        by (rewrite <- !app_assoc; reflexivity)
  end.
  rewrite !classes_app. change (classes [("SURFACE_TYPE", s_mn s)]) with ["SURFACE_TYPE"].
  rewrite <- (classes_app _ (pad_toks (s_p1 s))).
  destruct (s_lead s) as [lp|]; simpl opad_toks; destruct (s_ptr s) as [[pr pp]|].
  - rule "surface" ["padding"; "surface_id"; "number_phrase"; "SURFACE_TYPE"; "padding"; "number_sequence"].
    apply DF_cons; [apply pad_derives; exact Hb|]. apply DF_cons; [exact Hid|].
    apply DF_cons; [apply (number_phrase_derives G Hb pr (Some pp) Hptr)|]. simpl app. dtok.
    apply DF_cons; [apply pad_derives; exact Hb|]. apply DF_last. exact HD.
  - rewrite ?classes_nil, ?classes_nil', app_nil_l.
    rule "surface" ["padding"; "surface_id"; "SURFACE_TYPE"; "padding"; "number_sequence"].
    apply DF_cons; [apply pad_derives; exact Hb|]. apply DF_cons; [exact Hid|]. simpl app. dtok.
    apply DF_cons; [apply pad_derives; exact Hb|]. apply DF_last. exact HD.
  - rewrite ?classes_nil, ?classes_nil', app_nil_l.
    rule "surface" ["surface_id"; "number_phrase"; "SURFACE_TYPE"; "padding"; "number_sequence"].
    apply DF_cons; [exact Hid|].
    apply DF_cons; [apply (number_phrase_derives G Hb pr (Some pp) Hptr)|]. simpl app. dtok.
    apply DF_cons; [apply pad_derives; exact Hb|]. apply DF_last. exact HD.
  - rewrite ?classes_nil, ?classes_nil', !app_nil_l.
    rule "surface" ["surface_id"; "SURFACE_TYPE"; "padding"; "number_sequence"].
    apply DF_cons; [exact Hid|]. simpl app. dtok.
    apply DF_cons; [apply pad_derives; exact Hb|]. apply DF_last. exact HD.
Qed.
End Surface.

(* ------------------------------------------------------------------ data cards (DataParser and its subclasses) *)
Definition required_intro : list production := [
  ("introduction", ["classifier_phrase"]);
  ("introduction", ["classifier_phrase"; "KEYWORD"; "padding"]);
  ("introduction", ["padding"; "classifier_phrase"]);
  ("introduction", ["padding"; "classifier_phrase"; "KEYWORD"; "padding"]);
  ("classifier_phrase", ["classifier"]);
  ("classifier_phrase", ["classifier"; "padding"])
].

Lemma incl_app_l : forall (A : Type) (a b G : list A), incl (a ++ b) G -> incl a G.
Proof. intros A a b G H x Hx. apply H. apply in_or_app. left. assumption. Qed.
Lemma incl_app_r : forall (A : Type) (a b G : list A), incl (a ++ b) G -> incl b G.
Proof. intros A a b G H x Hx. apply H. apply in_or_app. right. assumption. Qed.

Lemma word_class_prefc : forall w, prefc (word_class w).
Proof.
  intros w. unfold word_class, prefc.
  destruct (mem_str w Gen.Tables.keywords); [auto|]. destruct (mem_str w Gen.Tables.particles); auto.
Qed.

Section Intro.
Variable G : list production.
Hypothesis Hb : incl required_base G.
Hypothesis Hp : incl required_params G.
Hypothesis Hi : incl required_intro G.

Lemma dparts_partc : forall ps, Forall (fun t : token => partc (fst t)) (map dpart_tok ps).
Proof.
  induction ps as [|[b x] ps IH]; simpl; constructor; auto.
  unfold dpart_tok. simpl. destruct b; [right|left]; reflexivity.
Qed.

Lemma dcls_derives : forall d, Derives G "classifier" (classes (dcls_toks d)).
Proof.
  intros d. unfold dcls_toks.
  pose proof (classifier_derives G Hp (match d_mod d with Some _ => Some "PARTICLE_SPECIAL" | None => None end)
                (word_class (d_prefix d)) (match d_num d with Some _ => true | None => false end)
                (map dpart_tok (d_parts d))) as HC.
  rewrite !classes_app.
  match goal with
  | |- Derives _ _ ?L =>
      replace L with
        ((match (match d_mod d with Some _ => Some "PARTICLE_SPECIAL" | None => None end) with
          | Some m => [m] | None => [] end)
         ++ [word_class (d_prefix d)]
         ++ (if (match d_num d with Some _ => true | None => false end) then ["NUMBER"] else [])
         ++ classes (parts_toks true (map dpart_tok (d_parts d))))
        by (destruct (d_mod d); destruct (d_num d); reflexivity)
  end.
  apply HC.
  - destruct (d_mod d); [right; reflexivity|exact I].
  - apply word_class_prefc.
  - apply dparts_partc.
Qed.

(* [lead] classifier [padding] [KEYWORD padding] *)
Lemma intro_derives : forall lead cl op (kw : option (string * pad)),
  Derives G "classifier" cl ->
  Derives G "introduction"
    (classes (opad_toks lead) ++ cl ++ classes (opad_toks op)
     ++ classes (match kw with Some (k, p) => ("KEYWORD", k) :: pad_toks p | None => [] end)).
Proof.
  intros lead cl op kw Hcl.
  assert (Hph : Derives G "classifier_phrase" (cl ++ classes (opad_toks op))).
  { destruct op as [p|]; simpl opad_toks.
    - rule "classifier_phrase" ["classifier"; "padding"]. apply DF_cons; [assumption|].
      apply DF_last. apply pad_derives; exact Hb.
    - rewrite ?classes_nil, ?classes_nil', app_nil_r. rule "classifier_phrase" ["classifier"]. apply DF_last; assumption. }
  rewrite (app_assoc cl).
  destruct lead as [lp|]; simpl opad_toks; destruct kw as [[k p]|].
  - rewrite classes_cons. cbn [fst].
    rule "introduction" ["padding"; "classifier_phrase"; "KEYWORD"; "padding"].
    apply DF_cons; [apply pad_derives; exact Hb|]. apply DF_cons; [exact Hph|]. dtok.
    apply DF_last. apply pad_derives; exact Hb.
  - rewrite ?classes_nil, ?classes_nil', app_nil_r.
    rule "introduction" ["padding"; "classifier_phrase"].
    apply DF_cons; [apply pad_derives; exact Hb|]. apply DF_last. exact Hph.
  - rewrite ?classes_nil, ?classes_nil', app_nil_l, classes_cons. cbn [fst].
    rule "introduction" ["classifier_phrase"; "KEYWORD"; "padding"].
    apply DF_cons; [exact Hph|]. dtok. apply DF_last. apply pad_derives; exact Hb.
  - rewrite ?classes_nil, ?classes_nil', app_nil_l, app_nil_r.
    rule "introduction" ["classifier_phrase"]. apply DF_last. exact Hph.
Qed.
End Intro.

(* particle lists (MODE n p e; the option letter of SI/SP; PAR=n) *)
Definition required_particles : list production := [
  ("particle_sequence", ["particle_phrase"]);
  ("particle_sequence", ["particle_sequence"; "particle_phrase"]);
  ("particle_phrase", ["particle_text"]);
  ("particle_phrase", ["particle_text"; "padding"]);
  ("particle_text", ["PARTICLE"]);
  ("particle_text", ["PARTICLE_SPECIAL"])
].

Section Particles.
Variable G : list production.
Hypothesis Hb : incl required_base G.
Hypothesis Hq : incl required_particles G.

Lemma particle_phrase_derives : forall c op, partc c ->
  Derives G "particle_phrase" (c :: classes (opad_toks op)).
Proof.
  intros c op Hc.
  assert (Ht : Derives G "particle_text" [c]).
  { destruct Hc as [H|H]; subst.
    - rule "particle_text" ["PARTICLE"]. dend.
    - rule "particle_text" ["PARTICLE_SPECIAL"]. dend. }
  destruct op as [p|]; simpl opad_toks.
  - rule "particle_phrase" ["particle_text"; "padding"].
    change (c :: classes (pad_toks p)) with ([c] ++ classes (pad_toks p)).
    apply DF_cons; [exact Ht|]. apply DF_last. apply pad_derives; exact Hb.
  - rule "particle_phrase" ["particle_text"]. apply DF_last. exact Ht.
Qed.

Lemma ptok_derives : forall p : ptok, Derives G "particle_phrase" (classes (ptok_toks p)).
Proof.
  intros [[b x] op]. unfold ptok_toks. simpl fst. simpl snd. rewrite classes_cons.
  apply particle_phrase_derives. unfold dpart_tok. simpl. destruct b; [right|left]; reflexivity.
Qed.

Lemma ptoks_derives : forall p ps,
  Derives G "particle_sequence" (classes (ptok_toks p) ++ flat_map (fun q => classes (ptok_toks q)) ps).
Proof.
  intros p ps.
  apply (leftrec_derives G "particle_sequence" "particle_phrase") with (f := fun q => classes (ptok_toks q)).
  - use_prod.
  - use_prod.
  - apply Forall_forall. intros q _. apply ptok_derives.
Qed.
End Particles.

Definition required_data_only : list production := [
  ("data_input", ["introduction"]);
  ("data_input", ["introduction"; "data"]);
  ("data_input", ["introduction"; "data"; "parameters"]);
  ("data_input", ["introduction"; "parameters"]);
  ("data", ["number_sequence"]);
  ("data", ["particle_sequence"]);
  ("data", ["kitchen_sink"]);
  ("kitchen_sink", ["kitchen_junk"]);
  ("kitchen_sink", ["kitchen_sink"; "kitchen_junk"]);
  ("kitchen_junk", ["particle_sequence"]);
  ("kitchen_junk", ["number_sequence"]);
  ("data_prefix", ["TALLY_COMMENT"]);
  ("data_prefix", ["SOURCE_COMMENT"]);
  ("parameter", ["classifier"; "param_seperator"; "text_phrase"]);
  ("text_phrase", ["TEXT"]);
  ("text_phrase", ["TEXT"; "padding"])
].
Definition required_data : list production :=
  required_base ++ required_params ++ required_intro ++ required_particles ++ required_data_only.

Section Data.
Variable G : list production.
Hypothesis Hdata : incl required_data G.

Lemma Hd_base : incl required_base G.
Proof. exact (incl_app_l _ _ _ _ Hdata). Qed.
Lemma Hd_par : incl required_params G.
Proof. exact (incl_app_l _ _ _ _ (incl_app_r _ _ _ _ Hdata)). Qed.
Lemma Hd_intro : incl required_intro G.
Proof. exact (incl_app_l _ _ _ _ (incl_app_r _ _ _ _ (incl_app_r _ _ _ _ Hdata))). Qed.
Lemma Hd_parts : incl required_particles G.
Proof. exact (incl_app_l _ _ _ _ (incl_app_r _ _ _ _ (incl_app_r _ _ _ _ (incl_app_r _ _ _ _ Hdata)))). Qed.
Lemma Hd_only : incl required_data_only G.
Proof. exact (incl_app_r _ _ _ _ (incl_app_r _ _ _ _ (incl_app_r _ _ _ _ (incl_app_r _ _ _ _ Hdata)))). Qed.
Let Ho := Hd_only.

Lemma ddata_derives : forall d, ddata_ok d = true -> d <> DNone ->
  Derives G "data" (classes (ddata_toks d)).
Proof.
  intros d Hok Hne. destruct d as [|l|p ps|o p l]; simpl in Hok; cbn [ddata_toks].
  - congruence.
  - rule "data" ["number_sequence"]. apply DF_last. apply (nlist_derives G Hd_base l Hok).
  - rewrite classes_app, classes_flat_map.
    rule "data" ["particle_sequence"]. apply DF_last. apply (ptoks_derives G Hd_base Hd_parts).
  - apply andb_true_iff in Hok. destruct Hok as [_ Hl].
    rewrite classes_cons, classes_app. cbn [fst].
    rule "data" ["kitchen_sink"]. apply DF_last.
    rule "kitchen_sink" ["kitchen_sink"; "kitchen_junk"].
    change ("PARTICLE" :: classes (pad_toks p) ++ classes (nlist_toks l))
      with (("PARTICLE" :: classes (pad_toks p)) ++ classes (nlist_toks l)).
    apply DF_cons.
    + rule "kitchen_sink" ["kitchen_junk"]. apply DF_last.
      rule "kitchen_junk" ["particle_sequence"]. apply DF_last.
      rule "particle_sequence" ["particle_phrase"]. apply DF_last.
      apply (particle_phrase_derives G Hd_base Hd_parts "PARTICLE" (Some p)). left. reflexivity.
    + apply DF_last. rule "kitchen_junk" ["number_sequence"]. apply DF_last.
      apply (nlist_derives G Hd_base l Hl).
Qed.

Lemma dparam_derives : forall p, dparam_ok p = true -> Derives G "parameter" (classes (dparam_toks p)).
Proof.
  intros p H. unfold dparam_ok in H. unfold dparam_toks. rewrite classes_cons, classes_app. cbn [fst].
  assert (Hk : Derives G "classifier" [word_class (dp_key p)]).
  { rule "classifier" ["data_prefix"]. apply DF_last.
    destruct (word_class_prefc (dp_key p)) as [E|[E|E]]; rewrite E.
    - rule "data_prefix" ["TEXT"]. dend.
    - rule "data_prefix" ["KEYWORD"]. dend.
    - rule "data_prefix" ["PARTICLE"]. dend. }
  change (word_class (dp_key p) :: classes (sep_toks (dp_sep p)) ++ classes (dpval_toks (dp_val p)))
    with ([word_class (dp_key p)] ++ classes (sep_toks (dp_sep p)) ++ classes (dpval_toks (dp_val p))).
  destruct (dp_val p) as [l|w q]; cbn [dpval_toks].
  - rule "parameter" ["classifier"; "param_seperator"; "number_sequence"].
    apply DF_cons; [exact Hk|]. apply DF_cons; [apply sep_derives; [exact Hd_base|exact Hd_par]|].
    apply DF_last. apply (nlist_derives G Hd_base _ H).
  - rule "parameter" ["classifier"; "param_seperator"; "text_phrase"].
    apply DF_cons; [exact Hk|]. apply DF_cons; [apply sep_derives; [exact Hd_base|exact Hd_par]|].
    apply DF_last. rewrite classes_cons. cbn [fst]. destruct q as [q|]; simpl opad_toks.
    + rule "text_phrase" ["TEXT"; "padding"]. dtok. apply DF_last. apply pad_derives; exact Hd_base.
    + rule "text_phrase" ["TEXT"]. dend.
Qed.

Theorem data_derivable : forall d, data_shape d -> Derives G "data_input" (classes (data_toks d)).
Proof.
  intros d H. unfold data_shape, data_shape_b in H.
  apply andb_true_iff in H. destruct H as [H Hps]. apply andb_true_iff in H. destruct H as [Hc Hd].
  pose proof (intro_derives G Hd_base Hd_intro (dc_lead d) _ (dc_pad d) (dc_kw d)
                (dcls_derives G Hd_par (dc_cls d))) as HI.
  assert (HP : dc_params d <> [] ->
               Derives G "parameters" (classes (flat_map dparam_toks (dc_params d)))).
  { intros Hne. rewrite classes_flat_map. apply parameters_derives; [exact Hd_par|assumption|].
    apply Forall_forall. intros x Hx. apply dparam_derives. rewrite forallb_forall in Hps. apply Hps. assumption. }
  unfold data_toks. rewrite !classes_app.
  match goal with
  | |- Derives _ _ (?A ++ ?B ++ ?C ++ ?D ++ ?E ++ ?F) =>
      replace (A ++ B ++ C ++ D ++ E ++ F) with ((A ++ B ++ C ++ D) ++ E ++ F)
        by (rewrite <- !app_assoc; reflexivity)
  end.
  destruct (dc_data d) as [|l|p ps|o p l] eqn:Ed; destruct (dc_params d) as [|q qs] eqn:Eq;
    try (assert (HD : Derives G "data" (classes (ddata_toks (dc_data d))))
           by (apply ddata_derives; [rewrite Ed; exact Hd | rewrite Ed; discriminate]); rewrite Ed in HD).
  - simpl. rewrite !app_nil_r. rule "data_input" ["introduction"]. apply DF_last. exact HI.
  - simpl ddata_toks. rewrite classes_nil, app_nil_l.
    rule "data_input" ["introduction"; "parameters"]. apply DF_cons; [exact HI|]. apply DF_last.
    apply HP. discriminate.
  - simpl flat_map. rewrite classes_nil, app_nil_r.
    rule "data_input" ["introduction"; "data"]. apply DF_cons; [exact HI|]. apply DF_last. exact HD.
  - rule "data_input" ["introduction"; "data"; "parameters"]. apply DF_cons; [exact HI|].
    apply DF_cons; [exact HD|]. apply DF_last. apply HP. discriminate.
  - simpl flat_map. rewrite classes_nil, app_nil_r.
    rule "data_input" ["introduction"; "data"]. apply DF_cons; [exact HI|]. apply DF_last. exact HD.
  - rule "data_input" ["introduction"; "data"; "parameters"]. apply DF_cons; [exact HI|].
    apply DF_cons; [exact HD|]. apply DF_last. apply HP. discriminate.
  - simpl flat_map. rewrite classes_nil, app_nil_r.
    rule "data_input" ["introduction"; "data"]. apply DF_cons; [exact HI|]. apply DF_last. exact HD.
  - rule "data_input" ["introduction"; "data"; "parameters"]. apply DF_cons; [exact HI|].
    apply DF_cons; [exact HD|]. apply DF_last. apply HP. discriminate.
Qed.

(* FCn / SCn: one token *)
Theorem text_derivable : forall x, Derives G "data_input" (classes (text_toks x)).
Proof.
  intros x. unfold text_toks. rewrite classes_app.
  set (c := if x_source x then "SOURCE_COMMENT" else "TALLY_COMMENT").
  change (classes [(c, x_text x)]) with [c].
  assert (Hcl : Derives G "classifier" [c]).
  { rule "classifier" ["data_prefix"]. apply DF_last. unfold c. destruct (x_source x).
    - rule "data_prefix" ["SOURCE_COMMENT"]. dend.
    - rule "data_prefix" ["TALLY_COMMENT"]. dend. }
  pose proof (intro_derives G Hd_base Hd_intro (x_lead x) _ None None Hcl) as HI.
  rewrite ?classes_nil, ?classes_nil', !app_nil_r in HI.
  rule "data_input" ["introduction"]. apply DF_last. exact HI.
Qed.
End Data.

(* ------------------------------------------------------------------ the classifier alone (ClassifierParser:
   what parse_data reads first to choose the class of a data input) *)
Definition required_classifier_only : list production := [
  ("data_classifier", ["classifier"]);
  ("data_classifier", ["padding"; "classifier"]);
  ("data_prefix", ["TALLY_COMMENT"]);
  ("data_prefix", ["SOURCE_COMMENT"])
].
Definition required_classifier : list production :=
  required_base ++ required_params ++ required_classifier_only.

Section Classifier.
Variable G : list production.
Hypothesis Hcls : incl required_classifier G.
Lemma Hk_base : incl required_base G.
Proof. exact (incl_app_l _ _ _ _ Hcls). Qed.
Lemma Hk_par : incl required_params G.
Proof. exact (incl_app_l _ _ _ _ (incl_app_r _ _ _ _ Hcls)). Qed.
Lemma Hk_only : incl required_classifier_only G.
Proof. exact (incl_app_r _ _ _ _ (incl_app_r _ _ _ _ Hcls)). Qed.
Let Ho := Hk_only.

Lemma lead_classifier : forall lead cl, Derives G "classifier" cl ->
  Derives G "data_classifier" (classes (opad_toks lead) ++ cl).
Proof.
  intros lead cl H. destruct lead as [p|]; simpl opad_toks.
  - rule "data_classifier" ["padding"; "classifier"]. apply DF_cons; [apply pad_derives; exact Hk_base|].
    apply DF_last. exact H.
  - rewrite ?classes_nil, ?classes_nil', app_nil_l. rule "data_classifier" ["classifier"]. apply DF_last. exact H.
Qed.

Lemma m_classifier : Derives G "classifier" ["TEXT"; "NUMBER"].
Proof.
  rule "classifier" ["classifier"; "NUMBER"]. change ["TEXT"; "NUMBER"] with (["TEXT"] ++ ["NUMBER"]).
  apply DF_cons; [|dend]. rule "classifier" ["data_prefix"]. apply DF_last. rule "data_prefix" ["TEXT"]. dend.
Qed.

(* every data shape: the tokens up to the end of the classifier are a sentence of ClassifierParser *)
Theorem classifier_derivable : forall sh, classifier_toks sh <> [] ->
  Derives G "data_classifier" (classes (classifier_toks sh)).
Proof.
  intros sh Hne. destruct sh; cbn [classifier_toks] in *; try congruence.
  - rewrite classes_app. apply lead_classifier. apply (dcls_derives G Hk_par).
  - rewrite classes_app. apply lead_classifier. exact m_classifier.
  - rewrite classes_app. apply lead_classifier. exact m_classifier.
  - rewrite classes_app. apply lead_classifier. apply (dcls_derives G Hk_par).
  - rewrite classes_app. apply lead_classifier. apply (dcls_derives G Hk_par).
  - rewrite classes_app. apply lead_classifier. apply (dcls_derives G Hk_par).
  - unfold text_toks. rewrite classes_app. apply lead_classifier.
    rule "classifier" ["data_prefix"]. apply DF_last. destruct (x_source x); simpl.
    + rule "data_prefix" ["SOURCE_COMMENT"]. dend.
    + rule "data_prefix" ["TALLY_COMMENT"]. dend.
  - rewrite classes_app. apply lead_classifier. apply (dcls_derives G Hk_par).
Qed.
End Classifier.

(* ------------------------------------------------------------------ tallies F, FM (TallyParser) *)
Definition required_tally_common : list production := [
  ("tally", ["introduction"; "tally_specification"]);
  ("tally_specification", ["tally_numbers"]);
  ("tally_specification", ["tally_numbers"; "end_phrase"]);
  ("end_phrase", ["PARTICLE"]);
  ("end_phrase", ["PARTICLE"; "padding"]);
  ("tally_numbers", ["number_sequence"]);
  ("tally_numbers", ["tally_numbers"; "tally_numbers"])
].
Definition required_tally_groups : list production := [
  ("tally_numbers", ["tally_group"]);
  ("tally_numbers", ["tally_numbers"; "padding"]);
  ("tally_group", ["("; "number_sequence"; ")"]);
  ("tally_group", ["("; "padding"; "number_sequence"; ")"])
].
Definition required_tally : list production :=
  required_base ++ required_params ++ required_intro ++ required_tally_common ++ required_tally_groups.
Definition required_tally_seg : list production :=
  required_base ++ required_params ++ required_intro ++ required_tally_common.

Section TallyCommon.
Variable G : list production.
Hypothesis Hb : incl required_base G.
Hypothesis Hp : incl required_params G.
Hypothesis Hi : incl required_intro G.
Hypothesis Hc : incl required_tally_common G.

(* items that are already [tally_numbers] concatenate to [tally_numbers] *)
Lemma tally_numbers_more : forall (f : titem -> list string) l pre,
  Derives G "tally_numbers" pre -> Forall (fun x => Derives G "tally_numbers" (f x)) l ->
  Derives G "tally_numbers" (pre ++ flat_map f l).
Proof.
  induction l as [|x l IH]; intros pre Hpre Hall; simpl.
  - rewrite app_nil_r. assumption.
  - inversion Hall; subst. rewrite app_assoc. apply IH; auto.
    rule "tally_numbers" ["tally_numbers"; "tally_numbers"].
    apply DF_cons; [assumption|apply DF_last; assumption].
Qed.

Lemma tally_assemble : forall t,
  Forall (fun x => Derives G "tally_numbers" (classes (titem_toks x))) (tc_first t :: tc_rest t) ->
  Derives G "tally" (classes (tally_toks t)).
Proof.
  intros t Hall. inversion Hall as [|x l H1 H2]; subst.
  pose proof (intro_derives G Hb Hi (tc_lead t) _ (tc_pad t) None (dcls_derives G Hp (tc_cls t))) as HI.
  rewrite ?classes_nil, ?classes_nil', app_nil_r in HI.
  pose proof (tally_numbers_more (fun x => classes (titem_toks x)) (tc_rest t) _ H1 H2) as HN.
  unfold tally_toks. rewrite !classes_app, classes_flat_map.
  match goal with
  | |- Derives _ _ (?A ++ ?B ++ ?C ++ ?D ++ ?E ++ ?F) =>
      replace (A ++ B ++ C ++ D ++ E ++ F) with ((A ++ B ++ C) ++ (D ++ E) ++ F)
        by (rewrite <- !app_assoc; reflexivity)
  end.
  rule "tally" ["introduction"; "tally_specification"]. apply DF_cons; [exact HI|]. apply DF_last.
  destruct (tc_end t) as [[e p]|]; simpl tend_toks.
  - rewrite classes_cons. cbn [fst].
    rule "tally_specification" ["tally_numbers"; "end_phrase"]. apply DF_cons; [exact HN|]. apply DF_last.
    destruct p as [q|]; simpl opad_toks.
    + rule "end_phrase" ["PARTICLE"; "padding"]. dtok. apply DF_last. apply pad_derives; exact Hb.
    + rule "end_phrase" ["PARTICLE"]. dend.
  - rewrite ?classes_nil, ?classes_nil', app_nil_r.
    rule "tally_specification" ["tally_numbers"]. apply DF_last. exact HN.
Qed.

Lemma tinums_derives : forall l, nlist_ok l = true ->
  Derives G "tally_numbers" (classes (titem_toks (TINums l))).
Proof.
  intros l H. simpl titem_toks. rule "tally_numbers" ["number_sequence"]. apply DF_last.
  apply (nlist_derives G Hb l H).
Qed.
End TallyCommon.

Section Tally.
Variable G : list production.
Hypothesis Htally : incl required_tally G.
Lemma Ht_base : incl required_base G.
Proof. exact (incl_app_l _ _ _ _ Htally). Qed.
Lemma Ht_par : incl required_params G.
Proof. exact (incl_app_l _ _ _ _ (incl_app_r _ _ _ _ Htally)). Qed.
Lemma Ht_intro : incl required_intro G.
Proof. exact (incl_app_l _ _ _ _ (incl_app_r _ _ _ _ (incl_app_r _ _ _ _ Htally))). Qed.
Lemma Ht_common : incl required_tally_common G.
Proof. exact (incl_app_l _ _ _ _ (incl_app_r _ _ _ _ (incl_app_r _ _ _ _ (incl_app_r _ _ _ _ Htally)))). Qed.
Lemma Ht_groups : incl required_tally_groups G.
Proof. exact (incl_app_r _ _ _ _ (incl_app_r _ _ _ _ (incl_app_r _ _ _ _ (incl_app_r _ _ _ _ Htally)))). Qed.
Let Ho := Ht_groups.

Lemma titem_derives : forall x, titem_ok x = true -> Derives G "tally_numbers" (classes (titem_toks x)).
Proof.
  intros [l|pl l pr] H; simpl in H.
  - apply (tinums_derives G Ht_base Ht_common l H).
  - pose proof (nlist_derives G Ht_base l H) as HL.
    assert (Hg : Derives G "tally_group" ("(" :: classes (opad_toks pl) ++ classes (nlist_toks l) ++ [")"])).
    { destruct pl as [p|]; simpl opad_toks.
      - rule "tally_group" ["("; "padding"; "number_sequence"; ")"]. dtok.
        apply DF_cons; [apply pad_derives; exact Ht_base|]. apply DF_cons; [exact HL|dend].
      - rewrite ?classes_nil, ?classes_nil', app_nil_l.
        rule "tally_group" ["("; "number_sequence"; ")"]. dtok. apply DF_cons; [exact HL|dend]. }
    assert (Hn : Derives G "tally_numbers" ("(" :: classes (opad_toks pl) ++ classes (nlist_toks l) ++ [")"])).
    { rule "tally_numbers" ["tally_group"]. apply DF_last. exact Hg. }
    cbn [titem_toks]. rewrite !classes_app. change (classes [("(", "(")]) with ["("].
    change (classes [(")", ")")]) with [")"].
    replace (["("] ++ classes (opad_toks pl) ++ classes (nlist_toks l) ++ [")"] ++ classes (opad_toks pr))
      with (("(" :: classes (opad_toks pl) ++ classes (nlist_toks l) ++ [")"]) ++ classes (opad_toks pr))
      by (simpl; rewrite <- !app_assoc; reflexivity).
    destruct pr as [q|]; simpl opad_toks.
    + rule "tally_numbers" ["tally_numbers"; "padding"].
      apply DF_cons; [exact Hn|]. apply DF_last. apply pad_derives; exact Ht_base.
    + rewrite ?classes_nil, ?classes_nil', app_nil_r. exact Hn.
Qed.

Theorem tally_derivable : forall t, tally_shape t -> Derives G "tally" (classes (tally_toks t)).
Proof.
  intros t H. unfold tally_shape, tally_shape_b in H. apply andb_true_iff in H. destruct H as [_ Hit].
  apply (tally_assemble G Ht_base Ht_par Ht_intro Ht_common).
  apply Forall_forall. intros x Hx. apply titem_derives. rewrite forallb_forall in Hit. apply Hit. assumption.
Qed.
End Tally.

Section TallySeg.
Variable G : list production.
Hypothesis Hseg : incl required_tally_seg G.
Lemma Hs2_base : incl required_base G.
Proof. exact (incl_app_l _ _ _ _ Hseg). Qed.
Lemma Hs2_par : incl required_params G.
Proof. exact (incl_app_l _ _ _ _ (incl_app_r _ _ _ _ Hseg)). Qed.
Lemma Hs2_intro : incl required_intro G.
Proof. exact (incl_app_l _ _ _ _ (incl_app_r _ _ _ _ (incl_app_r _ _ _ _ Hseg))). Qed.
Lemma Hs2_common : incl required_tally_common G.
Proof. exact (incl_app_r _ _ _ _ (incl_app_r _ _ _ _ (incl_app_r _ _ _ _ Hseg))). Qed.

Theorem tallyseg_derivable : forall t, tallyseg_shape t -> Derives G "tally" (classes (tally_toks t)).
Proof.
  intros t H. unfold tallyseg_shape, tallyseg_shape_b in H. apply andb_true_iff in H. destruct H as [H Hflat].
  unfold tally_shape_b in H. apply andb_true_iff in H. destruct H as [_ Hit].
  apply (tally_assemble G Hs2_base Hs2_par Hs2_intro Hs2_common).
  apply Forall_forall. intros x Hx.
  rewrite forallb_forall in Hit, Hflat. specialize (Hit x Hx). specialize (Hflat x Hx).
  destruct x as [l|pl l pr]; simpl in Hflat; [|discriminate].
  apply (tinums_derives G Hs2_base Hs2_common l Hit).
Qed.
End TallySeg.

(* ------------------------------------------------------------------ SDEF (ParamOnlyDataParser) *)
Definition required_param_only_only : list production := [
  ("param_data_input", ["param_introduction"; "spec_parameters"]);
  ("param_data_input", ["param_introduction"]);
  ("classifier_phrase", ["classifier"]);
  ("param_introduction", ["classifier_phrase"]);
  ("param_introduction", ["padding"; "classifier_phrase"]);
  ("classifier_phrase", ["classifier"; "padding"]);
  ("spec_parameters", ["spec_parameter"]);
  ("spec_parameters", ["spec_parameters"; "spec_parameter"]);
  ("spec_parameter", ["spec_classifier"; "param_seperator"; "data"]);
  ("spec_classifier", ["spec_data_prefix"]);
  ("spec_data_prefix", ["KEYWORD"]);
  ("data", ["number_sequence"]);
  ("data", ["particle_sequence"]);
  ("data", ["kitchen_sink"]);
  ("kitchen_sink", ["kitchen_junk"]);
  ("kitchen_sink", ["kitchen_sink"; "kitchen_junk"]);
  ("kitchen_junk", ["particle_sequence"]);
  ("kitchen_junk", ["number_sequence"])
].
Definition required_param_only : list production :=
  required_base ++ required_params ++ required_particles ++ required_param_only_only.

Section Sdef.
Variable G : list production.
Hypothesis Hsd : incl required_param_only G.
Lemma Hsd_base : incl required_base G.
Proof. exact (incl_app_l _ _ _ _ Hsd). Qed.
Lemma Hsd_par : incl required_params G.
Proof. exact (incl_app_l _ _ _ _ (incl_app_r _ _ _ _ Hsd)). Qed.
Lemma Hsd_parts : incl required_particles G.
Proof. exact (incl_app_l _ _ _ _ (incl_app_r _ _ _ _ (incl_app_r _ _ _ _ Hsd))). Qed.
Lemma Hsd_only : incl required_param_only_only G.
Proof. exact (incl_app_r _ _ _ _ (incl_app_r _ _ _ _ (incl_app_r _ _ _ _ Hsd))). Qed.
Let Ho := Hsd_only.

Lemma sval_derives : forall v, sval_ok v = true -> Derives G "data" (classes (sval_toks v)).
Proof.
  intros [l|p|n p] H; simpl in H; cbn [sval_toks].
  - rule "data" ["number_sequence"]. apply DF_last. apply (nlist_derives G Hsd_base l H).
  - rule "data" ["particle_sequence"]. apply DF_last.
    rule "particle_sequence" ["particle_phrase"]. apply DF_last. apply (ptok_derives G Hsd_base Hsd_parts).
  - rewrite classes_cons. cbn [fst].
    rule "data" ["kitchen_sink"]. apply DF_last.
    rule "kitchen_sink" ["kitchen_sink"; "kitchen_junk"].
    change ("PARTICLE" :: classes (num_tok n :: opad_toks p)) with (["PARTICLE"] ++ classes (num_tok n :: opad_toks p)).
    apply DF_cons.
    + rule "kitchen_sink" ["kitchen_junk"]. apply DF_last.
      rule "kitchen_junk" ["particle_sequence"]. apply DF_last.
      rule "particle_sequence" ["particle_phrase"]. apply DF_last.
      apply (particle_phrase_derives G Hsd_base Hsd_parts "PARTICLE" None). left. reflexivity.
    + apply DF_last. rule "kitchen_junk" ["number_sequence"]. apply DF_last.
      rule "number_sequence" ["numerical_phrase"]. apply DF_last.
      apply (numerical_phrase_derives G Hsd_base n p).
Qed.

Lemma sparam_derives : forall s, sparam_ok s = true -> Derives G "spec_parameter" (classes (sparam_toks s)).
Proof.
  intros s H. unfold sparam_ok in H. apply andb_true_iff in H. destruct H as [_ Hv].
  unfold sparam_toks. rewrite classes_cons, classes_app. cbn [fst].
  rule "spec_parameter" ["spec_classifier"; "param_seperator"; "data"].
  change ("KEYWORD" :: classes (sep_toks (sp_sep s)) ++ classes (sval_toks (sp_val s)))
    with (["KEYWORD"] ++ classes (sep_toks (sp_sep s)) ++ classes (sval_toks (sp_val s))).
  apply DF_cons.
  - rule "spec_classifier" ["spec_data_prefix"]. apply DF_last. rule "spec_data_prefix" ["KEYWORD"]. dend.
  - apply DF_cons; [apply sep_derives; [exact Hsd_base|exact Hsd_par]|]. apply DF_last. apply sval_derives. exact Hv.
Qed.

Theorem sdef_derivable : forall s, sdef_shape s -> Derives G "param_data_input" (classes (sdef_toks s)).
Proof.
  intros s H. unfold sdef_shape, sdef_shape_b in H. apply andb_true_iff in H. destruct H as [_ Hps].
  assert (Hph : Derives G "classifier_phrase" (classes (dcls_toks (sd_cls s)) ++ classes (pad_toks (sd_pad s)))).
  { rule "classifier_phrase" ["classifier"; "padding"]. apply DF_cons; [apply (dcls_derives G Hsd_par)|].
    apply DF_last. apply pad_derives; exact Hsd_base. }
  assert (HI : Derives G "param_introduction"
                 (classes (opad_toks (sd_lead s)) ++ classes (dcls_toks (sd_cls s)) ++ classes (pad_toks (sd_pad s)))).
  { destruct (sd_lead s) as [p|]; simpl opad_toks.
    - rule "param_introduction" ["padding"; "classifier_phrase"].
      apply DF_cons; [apply pad_derives; exact Hsd_base|]. apply DF_last. exact Hph.
    - rewrite ?classes_nil, ?classes_nil', app_nil_l.
      rule "param_introduction" ["classifier_phrase"]. apply DF_last. exact Hph. }
  unfold sdef_toks. rewrite !classes_app, classes_flat_map.
  match goal with
  | |- Derives _ _ (?A ++ ?B ++ ?C ++ ?D ++ ?E) =>
      replace (A ++ B ++ C ++ D ++ E) with ((A ++ B ++ C) ++ (D ++ E))
        by (rewrite <- !app_assoc; reflexivity)
  end.
  rule "param_data_input" ["param_introduction"; "spec_parameters"]. apply DF_cons; [exact HI|]. apply DF_last.
  apply (leftrec_derives G "spec_parameters" "spec_parameter") with (f := fun x => classes (sparam_toks x)).
  - use_prod.
  - use_prod.
  - apply Forall_forall. intros x Hx. apply sparam_derives. rewrite forallb_forall in Hps. apply Hps. assumption.
Qed.
Theorem sdef0_derivable : forall s, Derives G "param_data_input" (classes (sdef0_toks s)).
Proof.
  intros s. unfold sdef0_toks. rewrite !classes_app.
  assert (Hph : Derives G "classifier_phrase" (classes (dcls_toks (s0_cls s)) ++ classes (opad_toks (s0_pad s)))).
  { destruct (s0_pad s) as [p|]; simpl opad_toks.
    - rule "classifier_phrase" ["classifier"; "padding"]. apply DF_cons; [apply (dcls_derives G Hsd_par)|].
      apply DF_last. apply pad_derives; exact Hsd_base.
    - rewrite ?classes_nil, ?classes_nil', app_nil_r. rule "classifier_phrase" ["classifier"].
      apply DF_last. apply (dcls_derives G Hsd_par). }
  rule "param_data_input" ["param_introduction"]. apply DF_last.
  destruct (s0_lead s) as [p|]; simpl opad_toks.
  - rule "param_introduction" ["padding"; "classifier_phrase"].
    apply DF_cons; [apply pad_derives; exact Hsd_base|]. apply DF_last. exact Hph.
  - rewrite ?classes_nil, ?classes_nil', app_nil_l.
    rule "param_introduction" ["classifier_phrase"]. apply DF_last. exact Hph.
Qed.
End Sdef.

(* ------------------------------------------------------------------ materials *)
Definition required_material_only : list production := [
  ("material", ["introduction"; "isotopes"]);
  ("material", ["introduction"; "isotopes"; "parameters"]);
  ("isotopes", ["isotope_fractions"]);
  ("isotopes", ["number_sequence"]);
  ("isotopes", ["isotope_hybrid_fractions"]);
  ("isotope_hybrid_fractions", ["number_sequence"; "isotope_fraction"]);
  ("isotope_hybrid_fractions", ["isotope_hybrid_fractions"; "isotope_fraction"]);
  ("isotope_hybrid_fractions", ["isotope_hybrid_fractions"; "plain_fraction"]);
  ("isotopes", ["isotope_mixed_fractions"]);
  ("isotope_mixed_fractions", ["isotope_fractions"; "plain_fraction"]);
  ("isotope_mixed_fractions", ["isotope_mixed_fractions"; "plain_fraction"]);
  ("isotope_mixed_fractions", ["isotope_mixed_fractions"; "isotope_fraction"]);
  ("plain_fraction", ["number_phrase"; "number_phrase"]);
  ("isotope_fractions", ["isotope_fraction"]);
  ("isotope_fractions", ["isotope_fractions"; "isotope_fraction"]);
  ("isotope_fraction", ["zaid_phrase"; "number_phrase"]);
  ("zaid_phrase", ["ZAID"]);
  ("zaid_phrase", ["ZAID"; "padding"]);
  ("parameter", ["classifier"; "param_seperator"; "text_phrase"]);
  ("text_phrase", ["NUMBER_WORD"]);
  ("text_phrase", ["NUMBER_WORD"; "padding"]);
  ("text_phrase", ["NUM_MULTIPLY"]);
  ("text_phrase", ["NUM_MULTIPLY"; "padding"])
].
Definition required_material : list production :=
  required_base ++ required_params ++ required_intro ++ required_material_only.

Section Material.
Variable G : list production.
Hypothesis Hmat : incl required_material G.

Lemma Hm_base : incl required_base G.
Proof. exact (incl_app_l _ _ _ _ Hmat). Qed.
Lemma Hm_par : incl required_params G.
Proof. exact (incl_app_l _ _ _ _ (incl_app_r _ _ _ _ Hmat)). Qed.
Lemma Hm_intro : incl required_intro G.
Proof. exact (incl_app_l _ _ _ _ (incl_app_r _ _ _ _ (incl_app_r _ _ _ _ Hmat))). Qed.
Lemma Hm_only : incl required_material_only G.
Proof. exact (incl_app_r _ _ _ _ (incl_app_r _ _ _ _ (incl_app_r _ _ _ _ Hmat))). Qed.
Let Hb := Hm_base.
Let Hp := Hm_par.
Let Ho := Hm_only.

(* a ZAID with a library and its fraction *)
Lemma zfrac_derives : forall z, z_lib z = true -> nonzero (z_frac z) = true ->
  Derives G "isotope_fraction" (classes (zfrac_toks z)).
Proof.
  intros z Hl H. unfold zfrac_toks. rewrite Hl, classes_cons, classes_app. cbn [fst].
  change ("ZAID" :: classes (opad_toks (z_pad z)) ++ classes (num_tok (z_frac z) :: opad_toks (z_trail z)))
    with (("ZAID" :: classes (opad_toks (z_pad z))) ++ classes (num_tok (z_frac z) :: opad_toks (z_trail z))).
  rule "isotope_fraction" ["zaid_phrase"; "number_phrase"]. apply DF_cons.
  - destruct (z_pad z) as [p|]; simpl opad_toks.
    + rule "zaid_phrase" ["ZAID"; "padding"]. dtok. apply DF_last. apply pad_derives; exact Hb.
    + rule "zaid_phrase" ["ZAID"]. dend.
  - apply DF_last. apply (number_phrase_derives G Hb _ _ H).
Qed.

(* a ZAID without a library is a NUMBER: the pair is two number phrases *)
Lemma plain_split : forall z, z_lib z = false -> nonzero (z_frac z) = true ->
  exists a b, classes (zfrac_toks z) = a ++ b /\
              Derives G "number_phrase" a /\ Derives G "number_phrase" b.
Proof.
  intros z Hl H. exists ("NUMBER" :: classes (opad_toks (z_pad z))), (classes (num_tok (z_frac z) :: opad_toks (z_trail z))).
  split; [unfold zfrac_toks; rewrite Hl, classes_cons, classes_app; reflexivity|]. split.
  - destruct (z_pad z) as [p|]; simpl opad_toks.
    + rule "number_phrase" ["NUMBER"; "padding"]. dtok. apply DF_last. apply pad_derives; exact Hb.
    + rule "number_phrase" ["NUMBER"]. dend.
  - apply (number_phrase_derives G Hb _ _ H).
Qed.

Lemma num_of_phrase : forall a, Derives G "number_phrase" a -> Derives G "numerical_phrase" a.
Proof. intros a H. rule "numerical_phrase" ["number_phrase"]. apply DF_last. exact H. Qed.

(* what the pairs read so far are: only plain pairs (a number_sequence), plain pairs followed by pairs of either kind
   (isotope_hybrid_fractions), only ZAIDs with a library (isotope_fractions), or those followed by pairs of either
   kind (isotope_mixed_fractions) *)
Inductive iso_kind := IKplain | IKhybrid | IKlib | IKmixed.
Definition iso_nt (k : iso_kind) : string :=
  match k with
  | IKplain => "number_sequence" | IKhybrid => "isotope_hybrid_fractions"
  | IKlib => "isotope_fractions" | IKmixed => "isotope_mixed_fractions"
  end.

Lemma iso_more : forall l k pre,
  Derives G (iso_nt k) pre -> forallb (fun z => nonzero (z_frac z)) l = true ->
  exists k', Derives G (iso_nt k') (pre ++ flat_map (fun z => classes (zfrac_toks z)) l).
Proof.
  induction l as [|z l IH]; intros k pre Hst Hnz; cbn [flat_map].
  - exists k. rewrite app_nil_r. exact Hst.
  - simpl in Hnz. apply andb_true_iff in Hnz. destruct Hnz as [Hz Hnz]. rewrite app_assoc.
    destruct (z_lib z) eqn:El.
    + pose proof (zfrac_derives z El Hz) as HZ. destruct k; simpl iso_nt in Hst.
      * apply (IH IKhybrid); [|exact Hnz]. simpl.
        rule "isotope_hybrid_fractions" ["number_sequence"; "isotope_fraction"].
        apply DF_cons; [exact Hst|apply DF_last; exact HZ].
      * apply (IH IKhybrid); [|exact Hnz]. simpl.
        rule "isotope_hybrid_fractions" ["isotope_hybrid_fractions"; "isotope_fraction"].
        apply DF_cons; [exact Hst|apply DF_last; exact HZ].
      * apply (IH IKlib); [|exact Hnz]. simpl.
        rule "isotope_fractions" ["isotope_fractions"; "isotope_fraction"].
        apply DF_cons; [exact Hst|apply DF_last; exact HZ].
      * apply (IH IKmixed); [|exact Hnz]. simpl.
        rule "isotope_mixed_fractions" ["isotope_mixed_fractions"; "isotope_fraction"].
        apply DF_cons; [exact Hst|apply DF_last; exact HZ].
    + destruct (plain_split z El Hz) as [a [b [E [Ha Hbb]]]]. rewrite E.
      assert (HP : Derives G "plain_fraction" (a ++ b)).
      { rule "plain_fraction" ["number_phrase"; "number_phrase"]. apply DF_cons; [exact Ha|apply DF_last; exact Hbb]. }
      destruct k; simpl iso_nt in Hst.
      * apply (IH IKplain); [|exact Hnz]. simpl. rewrite app_assoc.
        rule "number_sequence" ["number_sequence"; "numerical_phrase"].
        apply DF_cons; [|apply DF_last; apply num_of_phrase; exact Hbb].
        rule "number_sequence" ["number_sequence"; "numerical_phrase"].
        apply DF_cons; [exact Hst|apply DF_last; apply num_of_phrase; exact Ha].
      * apply (IH IKhybrid); [|exact Hnz]. simpl.
        rule "isotope_hybrid_fractions" ["isotope_hybrid_fractions"; "plain_fraction"].
        apply DF_cons; [exact Hst|apply DF_last; exact HP].
      * apply (IH IKmixed); [|exact Hnz]. simpl.
        rule "isotope_mixed_fractions" ["isotope_fractions"; "plain_fraction"].
        apply DF_cons; [exact Hst|apply DF_last; exact HP].
      * apply (IH IKmixed); [|exact Hnz]. simpl.
        rule "isotope_mixed_fractions" ["isotope_mixed_fractions"; "plain_fraction"].
        apply DF_cons; [exact Hst|apply DF_last; exact HP].
Qed.

Lemma isotopes_derives : forall z l,
  forallb (fun z => nonzero (z_frac z)) (z :: l) = true ->
  Derives G "isotopes" (classes (zfrac_toks z) ++ flat_map (fun z => classes (zfrac_toks z)) l).
Proof.
  intros z l Hnz. simpl in Hnz. apply andb_true_iff in Hnz. destruct Hnz as [Hz Hnz].
  assert (Hex : exists k, Derives G (iso_nt k) (classes (zfrac_toks z))).
  { destruct (z_lib z) eqn:El.
    - exists IKlib. cbn [iso_nt]. rule "isotope_fractions" ["isotope_fraction"]. apply DF_last.
      apply zfrac_derives; assumption.
    - exists IKplain.
      destruct (plain_split z El Hz) as [a [b [E [Ha Hbb]]]]. cbn [iso_nt]. rewrite E.
      rule "number_sequence" ["number_sequence"; "numerical_phrase"].
      apply DF_cons; [|apply DF_last; apply num_of_phrase; exact Hbb].
      rule "number_sequence" ["numerical_phrase"]. apply DF_last. apply num_of_phrase. exact Ha. }
  destruct Hex as [k Hst].
  destruct (iso_more l k _ Hst Hnz) as [k' Hfin]. destruct k'; simpl iso_nt in Hfin.
  - rule "isotopes" ["number_sequence"]. apply DF_last. exact Hfin.
  - rule "isotopes" ["isotope_hybrid_fractions"]. apply DF_last. exact Hfin.
  - rule "isotopes" ["isotope_fractions"]. apply DF_last. exact Hfin.
  - rule "isotopes" ["isotope_mixed_fractions"]. apply DF_last. exact Hfin.
Qed.

Lemma mparam_derives : forall m, mparam_ok m = true -> Derives G "parameter" (classes (mparam_toks m)).
Proof.
  intros m H. unfold mparam_ok in H. apply andb_true_iff in H. destruct H as [_ H].
  assert (Hk : Derives G "classifier" ["KEYWORD"]).
  { rule "classifier" ["data_prefix"]. apply DF_last. rule "data_prefix" ["KEYWORD"]. dend. }
  destruct m as [k s v|k s lib p]; unfold mparam_toks; rewrite classes_cons, classes_app; cbn [fst].
  - rule "parameter" ["classifier"; "param_seperator"; "number_sequence"].
    change ("KEYWORD" :: classes (sep_toks s) ++ classes (nlist_toks v))
      with (["KEYWORD"] ++ classes (sep_toks s) ++ classes (nlist_toks v)).
    apply DF_cons; [exact Hk|]. apply DF_cons; [apply sep_derives; [exact Hb|exact Hp]|].
    apply DF_last. apply (nlist_derives G Hb v H).
  - rule "parameter" ["classifier"; "param_seperator"; "text_phrase"].
    change ("KEYWORD" :: classes (sep_toks s) ++ classes ((lib_class lib, lib) :: opad_toks p))
      with (["KEYWORD"] ++ classes (sep_toks s) ++ classes ((lib_class lib, lib) :: opad_toks p)).
    apply DF_cons; [exact Hk|]. apply DF_cons; [apply sep_derives; [exact Hb|exact Hp]|].
    apply DF_last. rewrite classes_cons. cbn [fst]. unfold lib_class.
    destruct (last_is lib "m"); destruct p as [q|]; simpl opad_toks.
    + rule "text_phrase" ["NUM_MULTIPLY"; "padding"]. dtok. apply DF_last. apply pad_derives; exact Hb.
    + rule "text_phrase" ["NUM_MULTIPLY"]. dend.
    + rule "text_phrase" ["NUMBER_WORD"; "padding"]. dtok. apply DF_last. apply pad_derives; exact Hb.
    + rule "text_phrase" ["NUMBER_WORD"]. dend.
Qed.

Theorem material_derivable : forall m, matcard_shape m -> Derives G "material" (classes (mat_card_toks m)).
Proof.
  intros m H. unfold matcard_shape, matcard_shape_b in H.
  apply andb_true_iff in H. destruct H as [H Hps].
  apply andb_true_iff in H. destruct H as [Hn Hz].
  assert (Hcl : Derives G "classifier" ["TEXT"; "NUMBER"]).
  { rule "classifier" ["classifier"; "NUMBER"]. change ["TEXT"; "NUMBER"] with (["TEXT"] ++ ["NUMBER"]).
    apply DF_cons; [|dend]. rule "classifier" ["data_prefix"]. apply DF_last. rule "data_prefix" ["TEXT"]. dend. }
  pose proof (intro_derives G Hb Hm_intro (m_lead m) _ (m_pad m) None Hcl) as HI.
  rewrite ?classes_nil, ?classes_nil', app_nil_r in HI.
  pose proof (isotopes_derives (m_first m) (m_rest m) Hz) as HZ.
  unfold mat_card_toks. rewrite !classes_app, !classes_flat_map.
  change (classes [("TEXT", "m"); ("NUMBER", show_Z (m_num m))]) with ["TEXT"; "NUMBER"].
  match goal with
  | |- Derives _ _ (?A ++ ?B ++ ?C ++ ?D ++ ?E ++ ?F) =>
      replace (A ++ B ++ C ++ D ++ E ++ F) with ((A ++ B ++ C) ++ (D ++ E) ++ F)
        by (rewrite <- !app_assoc; reflexivity)
  end.
  destruct (m_params m) as [|p0 ps] eqn:Ep.
  - simpl flat_map. rewrite app_nil_r.
    rule "material" ["introduction"; "isotopes"]. apply DF_cons; [exact HI|]. apply DF_last. exact HZ.
  - rule "material" ["introduction"; "isotopes"; "parameters"].
    apply DF_cons; [exact HI|]. apply DF_cons; [exact HZ|]. apply DF_last.
    apply (parameters_derives G Hp); [discriminate|].
    apply Forall_forall. intros x Hx. apply mparam_derives. rewrite forallb_forall in Hps. apply Hps. assumption.
Qed.
End Material.

(* ------------------------------------------------------------------ thermal scattering *)
Definition required_thermal_only : list production := [
  ("thermal_mat", ["introduction"; "thermal_law_sequence"]);
  ("thermal_law_sequence", ["thermal_law"]);
  ("thermal_law_sequence", ["thermal_law_sequence"; "thermal_law"]);
  ("thermal_law", ["THERMAL_LAW"]);
  ("thermal_law", ["THERMAL_LAW"; "padding"])
].
Definition required_thermal : list production :=
  required_base ++ required_params ++ required_intro ++ required_thermal_only.

Section Thermal.
Variable G : list production.
Hypothesis Hth : incl required_thermal G.

Lemma Hth_base : incl required_base G.
Proof. exact (incl_app_l _ _ _ _ Hth). Qed.
Lemma Hth_par : incl required_params G.
Proof. exact (incl_app_l _ _ _ _ (incl_app_r _ _ _ _ Hth)). Qed.
Lemma Hth_intro : incl required_intro G.
Proof. exact (incl_app_l _ _ _ _ (incl_app_r _ _ _ _ (incl_app_r _ _ _ _ Hth))). Qed.
Lemma Hth_only : incl required_thermal_only G.
Proof. exact (incl_app_r _ _ _ _ (incl_app_r _ _ _ _ (incl_app_r _ _ _ _ Hth))). Qed.
Let Hb := Hth_base.
Let Hp := Hth_par.
Let Ho := Hth_only.

Lemma law_derives : forall l, Derives G "thermal_law" (classes (law_toks l)).
Proof.
  intros [t p]. unfold law_toks. simpl fst. simpl snd. rewrite classes_cons. cbn [fst].
  destruct p as [q|]; simpl opad_toks.
  - rule "thermal_law" ["THERMAL_LAW"; "padding"]. dtok. apply DF_last. apply pad_derives; exact Hb.
  - rule "thermal_law" ["THERMAL_LAW"]. dend.
Qed.

Theorem thermal_derivable : forall m, mtcard_shape m -> Derives G "thermal_mat" (classes (mt_card_toks m)).
Proof.
  intros m _.
  assert (Hcl : Derives G "classifier" ["TEXT"; "NUMBER"]).
  { rule "classifier" ["classifier"; "NUMBER"]. change ["TEXT"; "NUMBER"] with (["TEXT"] ++ ["NUMBER"]).
    apply DF_cons; [|dend]. rule "classifier" ["data_prefix"]. apply DF_last. rule "data_prefix" ["TEXT"]. dend. }
  pose proof (intro_derives G Hb Hth_intro (t_lead m) _ (t_pad m) None Hcl) as HI.
  rewrite ?classes_nil, ?classes_nil', app_nil_r in HI.
  unfold mt_card_toks. rewrite !classes_app, !classes_flat_map.
  change (classes [("TEXT", "mt"); ("NUMBER", show_Z (t_num m))]) with ["TEXT"; "NUMBER"].
  match goal with
  | |- Derives _ _ (?A ++ ?B ++ ?C ++ ?D ++ ?E) =>
      replace (A ++ B ++ C ++ D ++ E) with ((A ++ B ++ C) ++ (D ++ E))
        by (rewrite <- !app_assoc; reflexivity)
  end.
  rule "thermal_mat" ["introduction"; "thermal_law_sequence"]. apply DF_cons; [exact HI|]. apply DF_last.
  apply (leftrec_derives G "thermal_law_sequence" "thermal_law") with (f := fun l => classes (law_toks l)).
  - use_prod.
  - use_prod.
  - apply Forall_forall. intros l _. apply law_derives.
Qed.
End Thermal.

(* ------------------------------------------------------------------ the LR driver is sound for the CFG:
   whatever [lr_run] accepts is derivable from the start symbol in the production table it was given *)
Section LRSound.
Variable T : lr_table.
Let G := lr_prods T.

Lemma DF_split : forall a b x, DerivesF G (a ++ b) x ->
  exists x1 x2, x = x1 ++ x2 /\ DerivesF G a x1 /\ DerivesF G b x2.
Proof.
  induction a as [|s a IH]; intros b x H; simpl in H.
  - exists [], x. split; [reflexivity|]. split; [constructor|assumption].
  - inversion H as [|t rest ts Htok Hrest|nt rhs rest ts1 ts2 Hin Hrhs Hrest]; subst.
    + destruct (IH _ _ Hrest) as [x1 [x2 [E [Ha Hbb]]]]. subst.
      exists (s :: x1), x2. split; [reflexivity|]. split; [constructor; assumption|assumption].
    + destruct (IH _ _ Hrest) as [x1 [x2 [E [Ha Hbb]]]]. subst.
      exists (ts1 ++ x1), x2. split; [rewrite app_assoc; reflexivity|]. split; [|assumption].
      econstructor; eauto.
Qed.

Lemma pop_check_spec : forall rr stack below, pop_check rr stack = Some below ->
  exists popped, stack = popped ++ below /\ map snd popped = rr.
Proof.
  induction rr as [|x rr IH]; intros stack below H; simpl in H.
  - inversion H; subst. exists []. split; reflexivity.
  - destruct stack as [|[st y] stack]; [discriminate|].
    destruct (String.eqb x y) eqn:E; [|discriminate]. apply String.eqb_eq in E. subst.
    destruct (IH _ _ H) as [popped [Hs Hm]]. exists ((st, y) :: popped). split; simpl; congruence.
Qed.

Definition syms (stack : list (Z * string)) : list string := rev (map snd stack).

Lemma lr_loop_sound : forall fuel stack input pos consumed,
  DerivesF G (syms stack) consumed -> lr_loop T fuel stack input pos = LRAccept ->
  Derives G (lr_start T) (consumed ++ input).
Proof.
  induction fuel as [|f IH]; intros stack input pos consumed Hinv Hrun; simpl in Hrun; [discriminate|].
  destruct (lr_lookup T (top_state stack) (match input with [] => "$end" | t :: _ => t end)) as [a|]; [|discriminate].
  destruct (0 <? a)%Z.
  - (* shift *)
    destruct input as [|t rest]; [discriminate|]. destruct (is_token t) eqn:Et; [|discriminate].
    replace (consumed ++ t :: rest) with ((consumed ++ [t]) ++ rest) by (rewrite <- app_assoc; reflexivity).
    refine (IH _ _ _ _ _ Hrun). unfold syms. simpl. apply DF_app; [exact Hinv|].
    apply DF_tok1. exact Et.
  - destruct (a <? 0)%Z.
    + (* reduce *)
      destruct (nth_error (lr_prods T) (Z.to_nat (- a) - 1)) as [[lhs rhs]|] eqn:En; [|discriminate].
      destruct (pop_check (rev rhs) stack) as [below|] eqn:Ep; [|discriminate].
      destruct (index_of lhs (lr_nonterms T) 0%Z) as [ni|]; [|discriminate].
      destruct (assocZ ni (nth (Z.to_nat (top_state below)) (lr_goto T) [])) as [g|]; [|discriminate].
      refine (IH _ _ _ _ _ Hrun).
      destruct (pop_check_spec _ _ _ Ep) as [popped [Hs Hm]]. subst stack.
      unfold syms in *. rewrite map_app, rev_app_distr, Hm, rev_involutive in Hinv.
      destruct (DF_split _ _ _ Hinv) as [x1 [x2 [E [H1 H2]]]]. subst consumed.
      simpl. apply DF_app; [exact H1|]. apply DF_last. apply (derive_rule G lhs rhs); [|exact H2].
      apply nth_error_In in En. exact En.
    + (* accept *)
      destruct stack as [|[st s] [|e stack]]; try discriminate.
      destruct input; [|discriminate].
      destruct (String.eqb s (lr_start T)) eqn:Es; [|discriminate]. apply String.eqb_eq in Es. subst.
      rewrite app_nil_r. exact Hinv.
Qed.

Theorem lr_sound : forall ts, lr_run T ts = LRAccept -> Derives G (lr_start T) ts.
Proof.
  intros ts H. unfold lr_run in H.
  apply (lr_loop_sound _ [] ts 0 []) in H; [exact H|]. constructor.
Qed.
End LRSound.

(* ------------------------------------------------------------------ either case *)
Lemma apply_mask_classes : forall mask ts cur, classes (apply_mask mask cur ts) = classes ts.
Proof.
  induction ts as [|t ts IH]; intros cur; simpl; [reflexivity|].
  destruct cur as [|b cur]; [destruct mask as [|b m']|]; simpl; try rewrite IH; reflexivity.
Qed.

Lemma gen_case_classes : forall mask sh, classes (gen_case mask sh) = classes (gen sh).
Proof. intros. unfold gen_case. apply apply_mask_classes. Qed.

(* ------------------------------------------------------------------ every shape, through the table of its parser *)
Definition productions_of (n : string) : list production :=
  if String.eqb n "cell" then Gen.Grammar.cell_productions
  else if String.eqb n "surface" then Gen.Grammar.surface_productions
  else if String.eqb n "data" then Gen.Grammar.data_productions
  else if String.eqb n "material" then Gen.Grammar.material_productions
  else if String.eqb n "thermal" then Gen.Grammar.thermal_productions
  else if String.eqb n "tally" then Gen.Grammar.tally_productions
  else if String.eqb n "tally_seg" then Gen.Grammar.tally_seg_productions
  else if String.eqb n "param_only" then Gen.Grammar.param_only_productions
  else if String.eqb n "classifier" then Gen.Grammar.classifier_productions
  else [].
Definition start_of (n : string) : string :=
  if String.eqb n "cell" then Gen.Grammar.cell_start
  else if String.eqb n "surface" then Gen.Grammar.surface_start
  else if String.eqb n "data" then Gen.Grammar.data_start
  else if String.eqb n "material" then Gen.Grammar.material_start
  else if String.eqb n "thermal" then Gen.Grammar.thermal_start
  else if String.eqb n "tally" then Gen.Grammar.tally_start
  else if String.eqb n "tally_seg" then Gen.Grammar.tally_seg_start
  else if String.eqb n "param_only" then Gen.Grammar.param_only_start
  else if String.eqb n "classifier" then Gen.Grammar.classifier_start
  else "".

(* the start symbols the proofs use are the generated ones *)
Definition expected_starts : list (string * string) :=
  [("cell", "cell"); ("surface", "surface"); ("data", "data_input"); ("material", "material");
   ("thermal", "thermal_mat"); ("tally", "tally"); ("tally_seg", "tally"); ("param_only", "param_data_input");
   ("classifier", "data_classifier")].
Definition wrong_starts : list (string * string) :=
  filter (fun p => negb (String.eqb (start_of (fst p)) (snd p))) expected_starts.

Section AllShapes.
Hypothesis Hcell : incl required_cell Gen.Grammar.cell_productions.
Hypothesis Hsurf : incl required_surface Gen.Grammar.surface_productions.
Hypothesis Hdata : incl required_data Gen.Grammar.data_productions.
Hypothesis Hmat : incl required_material Gen.Grammar.material_productions.
Hypothesis Hth : incl required_thermal Gen.Grammar.thermal_productions.
Hypothesis Htal : incl required_tally Gen.Grammar.tally_productions.
Hypothesis Hseg : incl required_tally_seg Gen.Grammar.tally_seg_productions.
Hypothesis Hsd : incl required_param_only Gen.Grammar.param_only_productions.
Hypothesis Hstart : wrong_starts = [].

Lemma start_ok : forall n s, In (n, s) expected_starts -> start_of n = s.
Proof.
  intros n s Hin. destruct (String.eqb (start_of n) s) eqn:E; [apply String.eqb_eq; exact E|].
  assert (Hf : In (n, s) wrong_starts).
  { unfold wrong_starts. apply filter_In. split; [exact Hin|]. simpl. rewrite E. reflexivity. }
  rewrite Hstart in Hf. inversion Hf.
Qed.

Theorem shape_derivable : forall mask sh, shape_ok_b sh = true ->
  Derives (productions_of (parser_of sh)) (start_of (parser_of sh)) (classes (gen_case mask sh)).
Proof.
  intros mask sh H. rewrite gen_case_classes. destruct sh; simpl parser_of; simpl in H.
  - rewrite (start_ok "cell" "cell") by (simpl; auto). apply (cell_derivable _ Hcell). exact H.
  - rewrite (start_ok "surface" "surface") by (simpl; auto). apply (surface_derivable _ Hsurf). exact H.
  - rewrite (start_ok "data" "data_input") by (simpl; auto). apply (data_derivable _ Hdata). exact H.
  - rewrite (start_ok "material" "material") by (simpl; auto 10). apply (material_derivable _ Hmat). exact H.
  - rewrite (start_ok "thermal" "thermal_mat") by (simpl; auto 10). apply (thermal_derivable _ Hth).
    unfold mtcard_shape. exact H.
  - rewrite (start_ok "tally" "tally") by (simpl; auto 10). apply (tally_derivable _ Htal). exact H.
  - rewrite (start_ok "tally_seg" "tally") by (simpl; auto 10). apply (tallyseg_derivable _ Hseg). exact H.
  - rewrite (start_ok "param_only" "param_data_input") by (simpl; auto 10). apply (sdef_derivable _ Hsd). exact H.
  - rewrite (start_ok "data" "data_input") by (simpl; auto). apply (text_derivable _ Hdata).
  - rewrite (start_ok "param_only" "param_data_input") by (simpl; auto 10). apply (sdef0_derivable _ Hsd).
Qed.
End AllShapes.
