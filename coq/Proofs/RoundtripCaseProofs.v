(* RoundtripCaseProofs.v — letter case of the data does not matter to what a file denotes (rule S8), line by line:
   upper-casing the data part of every line (not the comment lines, not the '$' comments) leaves the denotation of
   every block unchanged.  This is why a writer that re-spells a keyword or a surface mnemonic in another case
   (MontePy writes "PX" for "px") denotes the same problem although its text is not the text read. *)
From Coq Require Import List String Ascii Arith Bool Lia.
From MPV Require Import Model.Wire Model.Lines Gen.LexerFlags Proofs.LinesProofs Proofs.SpecProofs Proofs.RoundtripProofs.
From MPV Require Spec.Cards.
Import ListNotations.
Open Scope string_scope.

Definition upc := Cards.string_map Cards.upcase.

Fixpoint up_to_dollar (s : string) : string :=
  match s with
  | EmptyString => EmptyString
  | String a r => if Ascii.eqb a "$"%char then s else String (Cards.upcase a) (up_to_dollar r)
  end.

(* the line with its data in upper case *)
Definition norm (x : string) : string := if Cards.is_comment_line x then x else up_to_dollar x.

Definition up_line (l : Cards.line) : Cards.line :=
  match l with
  | Cards.Data st ws am dc => Cards.Data st (map upc ws) am dc
  | _ => l
  end.

Definition up_card (c : Cards.card) : Cards.card := Cards.mkCard (map upc (Cards.card_words c)) (Cards.card_comments c).

Lemma upcase_facts : forall a,
  Cards.is_blank (Cards.upcase a) = Cards.is_blank a /\ Cards.is_c (Cards.upcase a) = Cards.is_c a /\
  Ascii.eqb (Cards.upcase a) "$" = Ascii.eqb a "$" /\ Ascii.eqb (Cards.upcase a) "&" = Ascii.eqb a "&" /\
  Cards.upcase (Cards.eq_to_blank (Cards.upcase a)) = Cards.upcase (Cards.eq_to_blank a).
Proof. intros [[] [] [] [] [] [] [] []]; vm_compute; repeat split; reflexivity. Qed.

Lemma all_blank_utd : forall x, Cards.all_blank (up_to_dollar x) = Cards.all_blank x.
Proof.
  induction x; [reflexivity|]. cbn [up_to_dollar]. destruct (Ascii.eqb a "$"); [reflexivity|].
  cbn [Cards.all_blank]. destruct (upcase_facts a) as (E & _). rewrite E, IHx. reflexivity.
Qed.

Lemma all_blank_upc : forall x, Cards.all_blank (upc x) = Cards.all_blank x.
Proof.
  induction x; [reflexivity|]. cbn [upc Cards.string_map Cards.all_blank]. fold (upc x).
  destruct (upcase_facts a) as (E & _). rewrite E, IHx. reflexivity.
Qed.

Lemma blank_or_end_utd : forall r, Cards.blank_or_end (up_to_dollar r) = Cards.blank_or_end r.
Proof.
  destruct r; [reflexivity|]. cbn [up_to_dollar]. destruct (Ascii.eqb a "$"); [reflexivity|].
  cbn [Cards.blank_or_end]. destruct (upcase_facts a) as (E & _). exact E.
Qed.

Lemma c_within_utd : forall k x, Cards.c_within k (up_to_dollar x) = Cards.c_within k x.
Proof.
  induction k; intros x; [destruct x; [reflexivity|]; cbn [up_to_dollar]; destruct (Ascii.eqb a "$"); reflexivity|].
  destruct x as [|a r]; [reflexivity|]. cbn [up_to_dollar]. destruct (Ascii.eqb a "$"); [reflexivity|].
  cbn [Cards.c_within]. destruct (upcase_facts a) as (E1 & E2 & _). rewrite E1, E2, blank_or_end_utd, IHk. reflexivity.
Qed.

Lemma first_columns_utd : forall n x,
  Cards.all_blank (Cards.first_columns n (up_to_dollar x)) = Cards.all_blank (Cards.first_columns n x).
Proof.
  induction n; intros x; [reflexivity|]. destruct x as [|a r]; [reflexivity|].
  cbn [up_to_dollar]. destruct (Ascii.eqb a "$"); [reflexivity|].
  cbn [Cards.first_columns Cards.all_blank]. destruct (upcase_facts a) as (E & _). rewrite E, IHn. reflexivity.
Qed.

Lemma split_dollar_utd : forall x,
  Cards.split_dollar (up_to_dollar x) = (upc (fst (Cards.split_dollar x)), snd (Cards.split_dollar x)).
Proof.
  induction x; [reflexivity|]. cbn [up_to_dollar Cards.split_dollar]. destruct (Ascii.eqb a "$") eqn:E.
  - cbn [Cards.split_dollar]. rewrite E. reflexivity.
  - cbn [Cards.split_dollar]. destruct (upcase_facts a) as (_ & _ & E3 & _). rewrite E3, E, IHx.
    destruct (Cards.split_dollar x). reflexivity.
Qed.

Lemma strip_right_upc : forall d, Cards.strip_right (upc d) = upc (Cards.strip_right d).
Proof.
  induction d; [reflexivity|]. cbn [upc Cards.string_map Cards.strip_right]. fold (upc d).
  change (Cards.all_blank (String (Cards.upcase a) (upc d))) with (Cards.all_blank (upc (String a d))).
  rewrite all_blank_upc. destruct (Cards.all_blank (String a d)); [reflexivity|].
  rewrite IHd. reflexivity.
Qed.

Lemma eqb_amp_upc : forall r, String.eqb (upc r) "&" = String.eqb r "&".
Proof.
  destruct r as [|a [|b r]]; try reflexivity;
    cbn [upc Cards.string_map String.eqb]; destruct (upcase_facts a) as (_ & _ & _ & E & _); rewrite E;
    destruct (Ascii.eqb a "&"); reflexivity.
Qed.

Lemma continuation_mark_upc : forall d,
  Cards.continuation_mark (upc d) = option_map upc (Cards.continuation_mark d).
Proof.
  induction d; [reflexivity|]. cbn [upc Cards.string_map Cards.continuation_mark]. fold (upc d).
  destruct (upcase_facts a) as (E & _). rewrite E, eqb_amp_upc, IHd.
  destruct (andb (Cards.is_blank a) (String.eqb d "&")); [reflexivity|].
  destruct (Cards.continuation_mark d); reflexivity.
Qed.

Lemma upc_app : forall a b, upc (a ++ b) = upc a ++ upc b.
Proof. induction a; intros b; [reflexivity|]. cbn [append upc Cards.string_map]. fold (upc (a0 ++ b)) (upc a0). rewrite IHa. reflexivity. Qed.

Lemma words_from_upc : forall s cur, Cards.words_from (upc cur) (upc s) = map upc (Cards.words_from cur s).
Proof.
  induction s; intros cur.
  - cbn. destruct cur; reflexivity.
  - cbn [upc Cards.string_map Cards.words_from]. fold (upc s). destruct (upcase_facts a) as (E & _). rewrite E.
    destruct (Cards.is_blank a).
    + rewrite map_app. change EmptyString with (upc "") at 1. rewrite IHs. destruct cur; reflexivity.
    + rewrite <- IHs, upc_app. reflexivity.
Qed.

Lemma words_upc : forall d, Cards.words (upc d) = map upc (Cards.words d).
Proof. intros. apply (words_from_upc d ""). Qed.

Theorem classify_norm : forall x, Cards.classify (norm x) = up_line (Cards.classify x).
Proof.
  intros x. unfold norm. destruct (Cards.is_comment_line x) eqn:Ec.
  - unfold Cards.classify. rewrite Ec. destruct (Cards.all_blank x); reflexivity.
  - unfold Cards.classify. unfold Cards.is_comment_line in *. rewrite all_blank_utd, c_within_utd, Ec.
    destruct (Cards.all_blank x); [reflexivity|].
    rewrite split_dollar_utd, first_columns_utd. destruct (Cards.split_dollar x) as [d c]. cbn [fst snd].
    rewrite strip_right_upc, continuation_mark_upc.
    destruct (Cards.continuation_mark (Cards.strip_right d)); cbn [option_map up_line]; rewrite words_upc; reflexivity.
Qed.

Lemma group_up : forall ls cur pend amp,
  Cards.group (option_map up_card cur) pend amp (map up_line ls) = map up_card (Cards.group cur pend amp ls).
Proof.
  induction ls as [|l r IH]; intros cur pend amp.
  - destruct cur; reflexivity.
  - destruct l as [|t|st ws am dc]; cbn [map up_line Cards.group].
    + apply IH.
    + apply IH.
    + destruct cur as [c|]; cbn [option_map].
      * destruct (andb st (negb amp)).
        { cbn [map]. f_equal. apply (IH (Some (Cards.mkCard ws (pend ++ Cards.opt_list dc)%list))). }
        { rewrite <- IH. cbn [option_map]. unfold up_card. cbn [Cards.card_words Cards.card_comments]. rewrite map_app. reflexivity. }
      * apply (IH (Some (Cards.mkCard ws (pend ++ Cards.opt_list dc)%list))).
Qed.

Lemma upc_eq_to_blank : forall wd,
  upc (Cards.string_map Cards.eq_to_blank (upc wd)) = upc (Cards.string_map Cards.eq_to_blank wd).
Proof.
  induction wd; [reflexivity|]. cbn [upc Cards.string_map]. fold (upc wd).
  destruct (upcase_facts a) as (_ & _ & _ & _ & E). rewrite E. f_equal. exact IHwd.
Qed.

Lemma tokens_up_card : forall c, Cards.tokens (up_card c) = Cards.tokens c.
Proof.
  intros c. unfold Cards.tokens, up_card. cbn [Cards.card_words].
  induction (Cards.card_words c) as [|wd r IH]; [reflexivity|].
  cbn [map flat_map]. rewrite IH. f_equal. unfold Cards.word_tokens. fold upc. rewrite upc_eq_to_blank. reflexivity.
Qed.

(* upper-casing the data of the lines of a block does not change what the block denotes *)
Theorem lines_denotation_norm : forall nb ls, lines_denotation nb (map norm ls) = lines_denotation nb ls.
Proof.
  intros nb ls. unfold lines_denotation, Cards.block_cards. rewrite map_map.
  rewrite (map_ext (fun x => Cards.classify (norm x)) (fun x => up_line (Cards.classify x)) classify_norm).
  rewrite <- (map_map Cards.classify up_line). rewrite (group_up _ None [] false). rewrite map_map.
  apply map_ext. intros c. unfold card_denotation. rewrite tokens_up_card. reflexivity.
Qed.

Corollary lines_denotation_same_data : forall nb ls ls',
  map norm ls = map norm ls' -> lines_denotation nb ls = lines_denotation nb ls'.
Proof. intros nb ls ls' H. rewrite <- (lines_denotation_norm nb ls), H. apply lines_denotation_norm. Qed.
