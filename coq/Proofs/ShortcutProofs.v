(* ShortcutProofs.v — proofs about Model/Shortcut.v (property C08).
   Part 1  reading: the parse-time expansion of every shortcut kind is the MCNP manual's definition,
           and a whole list is expanded as the independent [spec_expand] expands it.
   Part 2  consumption: what a shortcut holds after consume_edge_node; accumulated tolerance.
   Part 3  update_with_new_values: the rebuilt node list covers the new values, one node per position.
   Part 4  formatting: when every node of a list is printed soundly (format_ok), the whole text reads back
           as the values of its nodes.
   Part 5  the re-compressor: partial soundness and the refuting witnesses. *)
From Coq Require Import List String Ascii ZArith QArith Qabs Qfield Bool Lia Arith.
From MPV Require Import Model.Wire Model.Shortcut.
Import ListNotations.
Open Scope string_scope.
Open Scope list_scope.
Local Notation "a +++ b" := (List.app a b) (at level 60, right associativity).

(* ================================================================== Part 1: reading *)
Definition veq (a b : val) : Prop := veqb a b = true.

Lemma veq_refl : forall v, veq v v.
Proof.
  intros [q| |a b n j]; unfold veq; cbn; auto.
  - apply Qeq_bool_iff; reflexivity.
  - rewrite !Nat.eqb_refl. rewrite !(proj2 (Qeq_bool_iff _ _)) by reflexivity. reflexivity.
Qed.

Lemma Forall2_veq_refl : forall l, Forall2 veq l l.
Proof. induction l; constructor; auto using veq_refl. Qed.

Lemma injZ_S_neq0 : forall n, ~ inject_Z (Z.of_nat (S n)) == 0.
Proof.
  intros n H. unfold Qeq in H. cbn in H. lia.
Qed.

(* the virtual values of nI are the equally spaced points between the two ends *)
Lemma interp_from_lin : forall b e n m i,
  Forall2 veq (interp_from b ((e - b) / inject_Z (Z.of_nat (S n))) i m) (lin_steps b e n (S i) m).
Proof.
  intros b e n m. induction m as [|m IH]; intros i; cbn [interp_from lin_steps]; constructor.
  - unfold veq; cbn [veqb]. apply Qeq_bool_iff.
    field. apply injZ_S_neq0.
  - apply IH.
Qed.

Lemma expand_interpolate_spec : forall b e n,
  Forall2 veq (expand_interpolate b e n) (lin_steps b e n 1 n).
Proof. intros. unfold expand_interpolate. apply interp_from_lin. Qed.

Lemma log_from_steps : forall b e n m i, log_from b e n i m = log_steps b e n (S i) m.
Proof. intros b e n m; induction m; intros; cbn; f_equal; auto. Qed.

Lemma expand_log_spec : forall b e n, expand_log b e n = log_steps b e n 1 n.
Proof. intros. unfold expand_log. apply log_from_steps. Qed.

(* closed forms: the j-th entry *)
Lemma lin_steps_length : forall a b k j m, List.length (lin_steps a b k j m) = m.
Proof. intros a b k j m; revert j; induction m; intros; cbn; auto. Qed.

Lemma lin_steps_nth : forall a b k m j t, (t < m)%nat ->
  nth_error (lin_steps a b k j m) t
  = Some (VQ (a + (b - a) * inject_Z (Z.of_nat (j + t)) / inject_Z (Z.of_nat (S k)))).
Proof.
  intros a b k m; induction m as [|m IH]; intros j t Ht; [lia|].
  destruct t; cbn [lin_steps nth_error].
  - rewrite Nat.add_0_r. reflexivity.
  - rewrite IH by lia. replace (S j + t)%nat with (j + S t)%nat by lia. reflexivity.
Qed.

Lemma Forall2_nth_error : forall {A B} (R : A -> B -> Prop) l1 l2 t y,
  Forall2 R l1 l2 -> nth_error l2 t = Some y -> exists x, nth_error l1 t = Some x /\ R x y.
Proof.
  intros A B R l1 l2 t y H; revert t; induction H; intros [|t] Ht; cbn in *; try discriminate.
  - inversion Ht; subst; eauto.
  - eauto.
Qed.

Lemma Forall2_length' : forall {A B} (R : A -> B -> Prop) l1 l2, Forall2 R l1 l2 -> List.length l1 = List.length l2.
Proof. intros A B R l1 l2 H; induction H; cbn; auto. Qed.

(* nI between a and b: n values, the t-th (t = 1..n) is a + (b - a) t / (n + 1) *)
Lemma expand_interpolate_nth : forall a b n t, (t < n)%nat ->
  exists x, nth_error (expand_interpolate a b n) t = Some (VQ x) /\
            x == a + (b - a) * inject_Z (Z.of_nat (S t)) / inject_Z (Z.of_nat (S n)).
Proof.
  intros a b n t Ht.
  destruct (Forall2_nth_error veq _ _ t _ (expand_interpolate_spec a b n) (lin_steps_nth a b n n 1 t Ht))
    as [x [Hx Hv]].
  destruct x as [x| |]; unfold veq in Hv; cbn in Hv; try discriminate.
  exists x; split; auto. apply Qeq_bool_iff in Hv. rewrite Hv. reflexivity.
Qed.

Lemma expand_interpolate_length : forall a b n, List.length (expand_interpolate a b n) = n.
Proof.
  intros. rewrite (Forall2_length' _ _ _ (expand_interpolate_spec a b n)). apply lin_steps_length.
Qed.

(* ------------------------------------------------------------------ whole lists *)
Definition lastv (l : list val) : option val := hd_error (rev l).

Lemma lastv_snoc : forall l x, lastv (l ++ [x]) = Some x.
Proof. intros. unfold lastv. rewrite rev_unit. reflexivity. Qed.

Lemma lastv_app : forall l l', l' <> [] -> lastv (l ++ l') = lastv l'.
Proof.
  intros l l' H. unfold lastv. rewrite rev_app_distr.
  destruct (rev l') eqn:E.
  - apply (f_equal (@rev val)) in E. rewrite rev_involutive in E. cbn in E. contradiction.
  - reflexivity.
Qed.

Lemma lastv_repeat : forall v n, (0 < n)%nat -> lastv (repeat v n) = Some v.
Proof.
  intros v n H. destruct n; [lia|]. change (repeat v (S n)) with (v :: repeat v n).
  rewrite repeat_cons. apply lastv_snoc.
Qed.

Lemma values_app : forall a b, values (a ++ b) = values a ++ values b.
Proof. intros. unfold values. apply flat_map_app. Qed.

Lemma rev_eq_cons : forall {A} (l : list A) x r, rev l = x :: r -> l = rev r ++ [x].
Proof.
  intros A l x r H. apply (f_equal (@rev A)) in H. rewrite rev_involutive in H. exact H.
Qed.

Lemma firstn_rev_suffix : forall {A} c (l : list A), exists pre, l = pre ++ rev (firstn c (rev l)).
Proof.
  intros A c l. exists (rev (skipn c (rev l))).
  rewrite <- rev_app_distr, firstn_skipn, rev_involutive. reflexivity.
Qed.

Lemma attach_ok : forall ns chain k mk ns' c',
  attach ns chain k mk = (POk ns', c') ->
  exists q vs, lastv (values ns) = Some (VQ q) /\ mk q = Some vs /\ values ns' = values ns ++ vs.
Proof.
  intros ns chain k mk ns' c' H. unfold attach, last_of in H.
  destruct (rev ns) as [|p l] eqn:E; [discriminate|].
  destruct p as [q|k0 vs0 sh].
  - apply rev_eq_cons in E. subst ns.
    destruct (mk q) as [vs|] eqn:M; [|discriminate]. inversion H; subst; clear H.
    exists q, vs. rewrite !values_app. cbn [values flat_map pnode_values app].
    unfold drop_last. rewrite removelast_last.
    split; [|split]; auto.
    + apply lastv_snoc.
    + rewrite app_nil_r, <- app_assoc. reflexivity.
  - destruct (rev (chain_vals ns chain)) as [|v vr] eqn:Ev; [discriminate|].
    destruct v as [q| |]; try discriminate.
    destruct (mk q) as [vs|] eqn:M; [|discriminate]. inversion H; subst; clear H.
    exists q, vs. split; [|split]; auto.
    + unfold chain_vals in Ev. destruct (firstn_rev_suffix chain ns) as [pre Hp].
      rewrite Hp at 1. rewrite values_app.
      assert (Hv : values (rev (firstn chain (rev ns))) = flat_map pnode_vals (rev (firstn chain (rev ns)))).
      { unfold values. apply flat_map_ext. intros [x|x y z]; reflexivity. }
      rewrite Hv. apply rev_eq_cons in Ev. rewrite Ev. rewrite app_assoc. apply lastv_snoc.
    + rewrite values_app. cbn [values flat_map pnode_values]. rewrite app_nil_r. reflexivity.
Qed.

Lemma Forall2_app_veq : forall a b c d, Forall2 veq a b -> Forall2 veq c d -> Forall2 veq (a ++ c) (b ++ d).
Proof. intros. apply Forall2_app; auto. Qed.

Lemma parse_aux_spec : forall n ts, (List.length ts <= n)%nat -> forall ns chain ns',
  parse_aux ts ns chain = POk ns' ->
  exists out vs', spec_expand_aux (lastv (values ns)) ts = Some out /\
                  values ns' = values ns ++ vs' /\ Forall2 veq vs' out.
Proof.
  induction n as [|n IH]; intros ts Hlen ns chain ns' H.
  - destruct ts; [|cbn in Hlen; lia]. cbn in H. inversion H; subst.
    exists [], []. cbn. rewrite app_nil_r. auto.
  - destruct ts as [|t r].
    { cbn in H. inversion H; subst. exists [], []. cbn. rewrite app_nil_r. auto. }
    cbn [List.length] in Hlen.
    destruct t as [q|c|c|c|c|x|].
    + (* number *)
      cbn [parse_aux] in H. apply IH in H; [|lia].
      destruct H as [out [vs' [Hs [Hv Hf]]]].
      rewrite values_app in Hs, Hv. cbn [values flat_map pnode_values app] in Hs, Hv.
      rewrite lastv_snoc in Hs.
      exists (VQ q :: out), (VQ q :: vs'). cbn [spec_expand_aux]. rewrite Hs. cbn.
      split; [reflexivity|]. split; [rewrite Hv, <- app_assoc; reflexivity|].
      constructor; auto using veq_refl.
    + (* jump *)
      cbn [parse_aux] in H. apply IH in H; [|lia].
      destruct H as [out [vs' [Hs [Hv Hf]]]].
      rewrite values_app in Hs, Hv. cbn [values flat_map pnode_values] in Hs, Hv.
      rewrite app_nil_r in Hs, Hv. unfold expand_jump in *.
      exists (repeat VJ (cnt c) ++ out), (repeat VJ (cnt c) ++ vs'). cbn [spec_expand_aux].
      assert (Hp : lastv (values ns ++ repeat VJ (cnt c))
                   = match cnt c with O => lastv (values ns) | _ => Some VJ end).
      { destruct (cnt c) eqn:Ec; cbn [repeat]; [rewrite app_nil_r; reflexivity|].
        rewrite lastv_app by discriminate. change (VJ :: repeat VJ n0) with (repeat VJ (S n0)).
        apply lastv_repeat; lia. }
      rewrite Hp in Hs. rewrite Hs. cbn.
      split; [reflexivity|]. split; [rewrite Hv, <- app_assoc; reflexivity|].
      apply Forall2_app_veq; auto using Forall2_veq_refl.
    + (* repeat *)
      cbn [parse_aux] in H.
      destruct (attach ns chain KR _) as [[ns1|e] c1] eqn:A; [|discriminate].
      apply attach_ok in A. destruct A as [q [vs [Hl [Hm Hv1]]]].
      inversion Hm; subst vs; clear Hm. unfold expand_repeat in *.
      apply IH in H; [|lia]. destruct H as [out [vs' [Hs [Hv Hf]]]].
      rewrite Hv1 in Hs, Hv.
      assert (Hp : lastv (values ns ++ repeat (VQ q) (cnt c)) = Some (VQ q)).
      { destruct (cnt c) eqn:Ec; cbn [repeat]; [rewrite app_nil_r; exact Hl|].
        rewrite lastv_app by discriminate. change (VQ q :: repeat (VQ q) n0) with (repeat (VQ q) (S n0)).
        apply lastv_repeat; lia. }
      rewrite Hp in Hs.
      exists (repeat (VQ q) (cnt c) ++ out), (repeat (VQ q) (cnt c) ++ vs'). cbn [spec_expand_aux].
      rewrite Hl, Hs. cbn.
      split; [reflexivity|]. split; [rewrite Hv, <- app_assoc; reflexivity|].
      apply Forall2_app_veq; auto using Forall2_veq_refl.
    + (* linear interpolate *)
      cbn [parse_aux] in H.
      destruct r as [|t2 r2]; [discriminate|].
      destruct t2 as [e| | | | | |]; try discriminate.
      destruct (attach ns chain KI _) as [[ns1|er] c1] eqn:A; [|discriminate].
      apply attach_ok in A. destruct A as [q [vs [Hl [Hm Hv1]]]].
      inversion Hm; subst vs; clear Hm.
      cbn [List.length] in Hlen.
      apply IH in H; [|lia]. destruct H as [out [vs' [Hs [Hv Hf]]]].
      rewrite Hv1 in Hs, Hv. rewrite app_assoc in Hs. rewrite lastv_snoc in Hs.
      exists ((lin_steps q e (cnt c) 1 (cnt c) ++ [VQ e]) ++ out), ((expand_interpolate q e (cnt c) ++ [VQ e]) ++ vs').
      cbn [spec_expand_aux]. rewrite Hl, Hs. cbn.
      split; [reflexivity|]. split; [rewrite Hv, <- !app_assoc; reflexivity|].
      apply Forall2_app_veq; auto.
      apply Forall2_app_veq; auto using Forall2_veq_refl, expand_interpolate_spec.
    + (* logarithmic interpolate *)
      cbn [parse_aux] in H.
      destruct r as [|t2 r2]; [discriminate|].
      destruct t2 as [e| | | | | |]; try discriminate.
      destruct (qzero e); [discriminate|].
      destruct (attach ns chain KL _) as [[ns1|er] c1] eqn:A; [|discriminate].
      apply attach_ok in A. destruct A as [q [vs [Hl [Hm Hv1]]]].
      destruct (qpos q && qpos e) eqn:Hpos; [|discriminate].
      inversion Hm; subst vs; clear Hm.
      cbn [List.length] in Hlen.
      apply IH in H; [|lia]. destruct H as [out [vs' [Hs [Hv Hf]]]].
      rewrite Hv1 in Hs, Hv. rewrite app_assoc in Hs. rewrite lastv_snoc in Hs.
      exists ((log_steps q e (cnt c) 1 (cnt c) ++ [VQ e]) ++ out), ((expand_log q e (cnt c) ++ [VQ e]) ++ vs').
      cbn [spec_expand_aux]. rewrite Hl, Hpos, Hs. cbn.
      split; [reflexivity|]. split; [rewrite Hv, <- !app_assoc; reflexivity|].
      apply Forall2_app_veq; auto.
      rewrite expand_log_spec. apply Forall2_veq_refl.
    + (* multiply *)
      cbn [parse_aux] in H.
      destruct (attach ns chain KM _) as [[ns1|e] c1] eqn:A; [|discriminate].
      apply attach_ok in A. destruct A as [q [vs [Hl [Hm Hv1]]]].
      inversion Hm; subst vs; clear Hm. unfold expand_multiply in *.
      apply IH in H; [|lia]. destruct H as [out [vs' [Hs [Hv Hf]]]].
      rewrite Hv1 in Hs, Hv. rewrite lastv_snoc in Hs.
      exists (VQ (q * x) :: out), (VQ (q * x) :: vs'). cbn [spec_expand_aux].
      rewrite Hl, Hs. cbn.
      split; [reflexivity|]. split; [rewrite Hv, <- app_assoc; reflexivity|].
      constructor; auto using veq_refl.
    + cbn in H. discriminate.
Qed.

(* every list the parser accepts is expanded as the MCNP manual defines (adjacent shortcuts, either end) *)
Theorem expand_list_spec : forall ts ns,
  parse_list ts = POk ns ->
  exists out, spec_expand ts = Some out /\ Forall2 veq (values ns) out.
Proof.
  intros ts ns H. unfold parse_list in H.
  destruct (parse_aux_spec (List.length ts) ts (le_n _) [] 0%nat ns H) as [out [vs' [Hs [Hv Hf]]]].
  exists out. cbn in Hv. subst vs'. split; auto.
Qed.


Lemma rev_repeat' : forall {A} (v : A) n, rev (repeat v n) = repeat v n.
Proof. induction n; [reflexivity|]. cbn [repeat rev]. rewrite IHn. symmetry. apply repeat_cons. Qed.

(* ------------------------------------------------------------------ ... and the parser accepts every list the manual
   gives a meaning to, except a '0J' (a jump over nothing) directly in front of a shortcut *)
Definition no_zero_jump (ts : list tok) : bool :=
  forallb (fun t => match t with TJmp (Some O) => false | _ => true end) ts.

Definition chain_inv (ns : list pnode) (chain : nat) : Prop :=
  match rev ns with
  | [] => chain = 0%nat
  | PVal _ :: _ => True
  | PSc _ _ _ :: _ => exists v, hd_error (rev (chain_vals ns chain)) = Some v /\ lastv (values ns) = Some v
  end.

Lemma values_pnode_vals : forall l, flat_map pnode_vals l = values l.
Proof. intros. unfold values. apply flat_map_ext. intros [x|x y z]; reflexivity. Qed.

Lemma chain_vals_snoc : forall ns p c, chain_vals (ns ++ [p]) (S c) = chain_vals ns c ++ pnode_vals p.
Proof.
  intros. unfold chain_vals. rewrite rev_unit. cbn [firstn rev]. rewrite flat_map_app. cbn [flat_map].
  rewrite app_nil_r. reflexivity.
Qed.

Lemma attach_total : forall ns chain k mk q vs,
  chain_inv ns chain -> lastv (values ns) = Some (VQ q) -> mk q = Some vs ->
  exists ns' c', attach ns chain k mk = (POk ns', c') /\ chain_inv ns' c' /\ values ns' = values ns ++ vs.
Proof.
  intros ns chain k mk q vs I Hl Hm. unfold attach, last_of. unfold chain_inv in I.
  destruct (rev ns) as [|p l] eqn:E.
  - apply (f_equal (@rev pnode)) in E. rewrite rev_involutive in E. subst ns. discriminate.
  - pose proof (rev_eq_cons _ _ _ E) as En.
    destruct p as [q0|k0 vs0 sh].
    + assert (q0 = q).
      { subst ns. rewrite values_app in Hl. cbn [values flat_map pnode_values] in Hl. rewrite app_nil_r in Hl.
        rewrite lastv_snoc in Hl. inversion Hl. reflexivity. }
      subst q0. rewrite Hm.
      exists (drop_last ns ++ [PSc k (VQ q :: vs) false]), 1%nat. split; [reflexivity|].
      subst ns. unfold drop_last. rewrite removelast_last. split.
      * unfold chain_inv. rewrite rev_unit. exists (match rev vs with [] => VQ q | v :: _ => v end).
        rewrite chain_vals_snoc. unfold chain_vals. cbn [firstn rev flat_map app pnode_vals].
        rewrite values_app. cbn [values flat_map pnode_values]. rewrite app_nil_r.
        rewrite lastv_app by discriminate. unfold lastv.
        cbn [rev]. destruct (rev vs); cbn; auto.
      * rewrite !values_app. cbn [values flat_map pnode_values app]. rewrite app_nil_r, <- app_assoc. reflexivity.
    + destruct I as [v [Hv Hlv]]. rewrite Hl in Hlv. inversion Hlv; subst v. unfold hd_error in Hv.
      destruct (rev (chain_vals ns chain)) as [|v0 vr] eqn:Ec; [discriminate|]. inversion Hv; subst v0.
      rewrite Hm. exists (ns ++ [PSc k vs true]), (S chain). split; [reflexivity|]. split.
      * unfold chain_inv. rewrite rev_unit.
        rewrite chain_vals_snoc. cbn [pnode_vals]. rewrite values_app. cbn [values flat_map pnode_values].
        rewrite app_nil_r. apply rev_eq_cons in Ec. rewrite Ec.
        destruct vs as [|x vs'].
        -- exists (VQ q). rewrite !app_nil_r. rewrite rev_unit. split; [reflexivity|exact Hl].
        -- exists (match rev (x :: vs') with [] => VQ q | v :: _ => v end).
           rewrite rev_app_distr. rewrite lastv_app by discriminate. unfold lastv.
           destruct (rev (x :: vs')) eqn:Er.
           ++ apply (f_equal (@rev val)) in Er. rewrite rev_involutive in Er. discriminate.
           ++ cbn. auto.
      * rewrite values_app. cbn [values flat_map pnode_values]. rewrite app_nil_r. reflexivity.
Qed.

Lemma read_total_aux : forall n ts, (List.length ts <= n)%nat -> forall ns chain out,
  no_zero_jump ts = true -> chain_inv ns chain ->
  spec_expand_aux (lastv (values ns)) ts = Some out ->
  exists ns', parse_aux ts ns chain = POk ns'.
Proof.
  induction n as [|n IH]; intros ts Hlen ns chain out Hz I H.
  - destruct ts; [|cbn in Hlen; lia]. eexists; reflexivity.
  - destruct ts as [|t r]; [eexists; reflexivity|].
    cbn [List.length] in Hlen. cbn [no_zero_jump forallb] in Hz. apply andb_true_iff in Hz. destruct Hz as [Ht Hz].
    destruct t as [q|c|c|c|c|x|].
    + cbn [parse_aux]. cbn [spec_expand_aux] in H.
      destruct (spec_expand_aux (Some (VQ q)) r) as [o|] eqn:Es; [|discriminate].
      eapply (IH r); [lia|exact Hz| |].
      * unfold chain_inv. rewrite rev_unit. trivial.
      * rewrite values_app. cbn [values flat_map pnode_values]. rewrite app_nil_r, lastv_snoc. exact Es.
    + cbn [parse_aux]. cbn [spec_expand_aux] in H. unfold expand_jump.
      assert (Hc : (0 < cnt c)%nat) by (destruct c as [[|k]|]; cbn; try lia; discriminate).
      destruct (cnt c) as [|k] eqn:Ec; [lia|].
      destruct (spec_expand_aux (Some VJ) r) as [o|] eqn:Es; [|discriminate].
      eapply (IH r); [lia|exact Hz| |].
      * unfold chain_inv. rewrite rev_unit. exists VJ.
        rewrite chain_vals_snoc. unfold chain_vals. cbn [firstn rev flat_map app pnode_vals].
        rewrite values_app. cbn [values flat_map pnode_values]. rewrite app_nil_r.
        rewrite lastv_app by discriminate. rewrite lastv_repeat by lia. split; [|reflexivity].
        change (VJ :: repeat VJ k) with (repeat VJ (S k)). rewrite rev_repeat'. reflexivity.
      * rewrite values_app. cbn [values flat_map pnode_values]. rewrite app_nil_r.
        rewrite lastv_app by discriminate. rewrite lastv_repeat by lia. exact Es.
    + cbn [parse_aux]. cbn [spec_expand_aux] in H.
      destruct (lastv (values ns)) as [[q| |]|] eqn:El; try discriminate.
      destruct (spec_expand_aux (Some (VQ q)) r) as [o|] eqn:Es; [|discriminate].
      destruct (attach_total ns chain KR (fun q0 => Some (expand_repeat (VQ q0) (cnt c))) q _ I El eq_refl)
        as [ns1 [c1 [Ha [I1 Hv]]]].
      rewrite Ha. eapply (IH r); [lia|exact Hz|exact I1|].
      rewrite Hv. unfold expand_repeat.
      assert (Hp : lastv (values ns ++ repeat (VQ q) (cnt c)) = Some (VQ q)).
      { destruct (cnt c) eqn:Ec; cbn [repeat]; [rewrite app_nil_r; exact El|].
        rewrite lastv_app by discriminate. change (VQ q :: repeat (VQ q) n0) with (repeat (VQ q) (S n0)).
        apply lastv_repeat; lia. }
      rewrite Hp. exact Es.
    + cbn [parse_aux]. cbn [spec_expand_aux] in H.
      destruct r as [|t2 r2]; [discriminate|].
      destruct t2 as [e| | | | | |]; try discriminate.
      destruct (lastv (values ns)) as [[q| |]|] eqn:El; try discriminate.
      destruct (spec_expand_aux (Some (VQ e)) r2) as [o|] eqn:Es; [|discriminate].
      destruct (attach_total ns chain KI (fun q0 => Some (expand_interpolate q0 e (cnt c) ++ [VQ e])) q _ I El eq_refl)
        as [ns1 [c1 [Ha [I1 Hv]]]].
      rewrite Ha. cbn [List.length] in Hlen. cbn [forallb] in Hz. apply andb_true_iff in Hz. destruct Hz as [_ Hz].
      eapply (IH r2); [lia|exact Hz|exact I1|].
      rewrite Hv, app_assoc, lastv_snoc. exact Es.
    + cbn [parse_aux]. cbn [spec_expand_aux] in H.
      destruct r as [|t2 r2]; [discriminate|].
      destruct t2 as [e| | | | | |]; try discriminate.
      destruct (lastv (values ns)) as [[q| |]|] eqn:El; try discriminate.
      destruct (qpos q && qpos e) eqn:Hp; [|discriminate].
      destruct (spec_expand_aux (Some (VQ e)) r2) as [o|] eqn:Es; [|discriminate].
      assert (Hze : qzero e = false).
      { apply andb_true_iff in Hp. destruct Hp as [_ Hp]. unfold qpos in Hp. apply negb_true_iff in Hp.
        unfold qzero. destruct (Qeq_bool e 0) eqn:Eq; [|reflexivity].
        apply Qeq_bool_iff in Eq. assert (Hle : Qle_bool e 0 = true) by (apply Qle_bool_iff; rewrite Eq; apply Qle_refl).
        congruence. }
      rewrite Hze.
      destruct (attach_total ns chain KL
                  (fun q0 => if qpos q0 && qpos e then Some (expand_log q0 e (cnt c) ++ [VQ e]) else None) q
                  (expand_log q e (cnt c) ++ [VQ e]) I El) as [ns1 [c1 [Ha [I1 Hv]]]].
      { rewrite Hp. reflexivity. }
      rewrite Ha. cbn [List.length] in Hlen. cbn [forallb] in Hz. apply andb_true_iff in Hz. destruct Hz as [_ Hz].
      eapply (IH r2); [lia|exact Hz|exact I1|].
      rewrite Hv, app_assoc, lastv_snoc. exact Es.
    + cbn [parse_aux]. cbn [spec_expand_aux] in H.
      destruct (lastv (values ns)) as [[q| |]|] eqn:El; try discriminate.
      destruct (spec_expand_aux (Some (VQ (q * x))) r) as [o|] eqn:Es; [|discriminate].
      destruct (attach_total ns chain KM (fun q0 => Some [expand_multiply q0 x]) q _ I El eq_refl)
        as [ns1 [c1 [Ha [I1 Hv]]]].
      rewrite Ha. eapply (IH r); [lia|exact Hz|exact I1|].
      rewrite Hv, lastv_snoc. exact Es.
    + cbn in H. discriminate.
Qed.

Theorem read_total : forall ts out,
  spec_expand ts = Some out -> no_zero_jump ts = true -> exists ns, parse_list ts = POk ns.
Proof.
  intros ts out H Hz. unfold parse_list, spec_expand in *.
  eapply (read_total_aux (List.length ts) ts (le_n _) [] 0%nat out Hz); [reflexivity|exact H].
Qed.

(* a jump over nothing in front of a shortcut crashes the parser (IndexError) *)
Lemma read_zero_jump_refuted :
  exists ts out, spec_expand ts = Some out /\ parse_list ts = PErr PCrash.
Proof. exists [TNum 1; TJmp (Some 0%nat); TRep None]. eexists. split; vm_compute; reflexivity. Qed.

(* ================================================================== Part 2: consumption *)
Require Import Lqa.

Lemma tol_inv_pos : 0 < tol_inv.
Proof. reflexivity. Qed.

(* math.isclose(a, b, rel_tol = 1e-9): |b - a| <= 1e-9 * max(|a|, |b|) *)
Lemma qclose_bound : forall a b M, qclose a b = true -> Qabs a <= M -> Qabs b <= M ->
  Qabs (b - a) * tol_inv <= M.
Proof.
  intros a b M H Ha Hb. unfold qclose in H.
  apply orb_true_iff in H. destruct H as [H|H]; [apply orb_true_iff in H; destruct H as [H|H]|].
  - apply Qeq_bool_iff in H. assert (E : b - a == 0) by (rewrite H; ring).
    rewrite E. cbn. assert (0 <= Qabs a) by apply Qabs_nonneg. lra.
  - apply Qle_bool_iff in H. lra.
  - apply Qle_bool_iff in H. lra.
Qed.

Lemma qclose_refl : forall a, qclose a a = true.
Proof. intros. unfold qclose. rewrite (proj2 (Qeq_bool_iff a a)) by reflexivity. reflexivity. Qed.

Lemma Qabs_minus_sym : forall a b, Qabs (a - b) == Qabs (b - a).
Proof. intros. rewrite <- Qabs_opp. apply Qabs_wd. ring. Qed.

(* neighbour-by-neighbour closeness (either orientation: forwards the edge is the first argument of
   isclose, backwards too, but the new node comes before the edge) *)
Inductive chain {A} (R : A -> A -> Prop) : list A -> Prop :=
| chain_nil : chain R []
| chain_one : forall x, chain R [x]
| chain_cons : forall x y l, R x y -> chain R (y :: l) -> chain R (x :: y :: l).

Lemma chain_snoc : forall {A} (R : A -> A -> Prop) l x,
  chain R l -> (forall y, hd_error (rev l) = Some y -> R y x) -> chain R (l ++ [x]).
Proof.
  intros A R l x H; induction H; intros Hl; cbn.
  - constructor.
  - constructor; [apply Hl; reflexivity|constructor].
  - constructor; auto. apply IHchain. intros z Hz. apply Hl.
    cbn [rev] in *. destruct (rev l ++ [y]) eqn:E.
    + destruct (rev l); discriminate.
    + cbn in *. exact Hz.
Qed.

Definition qadj (x y : Q) : Prop := qclose x y = true \/ qclose y x = true.

(* accumulated tolerance of a repeat group: the k-th member after the first is within (k+1) * 1e-9 * M of the
   first, M = the largest magnitude in the group - not within 1e-9 *)
Lemma qchain_drift : forall l x M,
  chain qadj (x :: l) -> Forall (fun z => Qabs z <= M) (x :: l) ->
  forall k y, nth_error l k = Some y -> Qabs (y - x) * tol_inv <= inject_Z (Z.of_nat (S k)) * M.
Proof.
  induction l as [|y0 l IH]; intros x M Hc Hf k y Hn.
  - destruct k; discriminate.
  - inversion Hc as [| |x' y' l' Hadj Hc']; subst.
    inversion Hf as [|x' l' Hx Hf']; subst. inversion Hf' as [|x' l' Hy0 Hf'']; subst.
    assert (H0 : Qabs (y0 - x) * tol_inv <= M).
    { destruct Hadj as [Hq|Hq].
      - apply qclose_bound; auto.
      - rewrite Qabs_minus_sym. apply qclose_bound; auto. }
    destruct k as [|k]; cbn in Hn.
    + inversion Hn; subst. change (inject_Z (Z.of_nat 1)) with 1. lra.
    + specialize (IH y0 M Hc' Hf' k y Hn).
      assert (T : Qabs (y - x) <= Qabs (y - y0) + Qabs (y0 - x)).
      { setoid_replace (y - x) with ((y - y0) + (y0 - x)) by ring. apply Qabs_triangle. }
      assert (E : inject_Z (Z.of_nat (S (S k))) == inject_Z (Z.of_nat (S k)) + 1).
      { rewrite (Nat2Z.inj_succ (S k)). unfold Z.succ. rewrite inject_Z_plus. reflexivity. }
      rewrite E. pose proof tol_inv_pos. nra.
Qed.

(* ... and the bound is not 1e-9: three values, each isclose to its neighbour, the third not isclose to the first *)
Lemma qchain_not_transitive :
  exists a b c, qclose a b = true /\ qclose b c = true /\ qclose a c = false.
Proof.
  exists 1, (1000000001 # 1000000000), (1000000002 # 1000000000). repeat split; vm_compute; reflexivity.
Qed.

(* ------------------------------------------------------------------ what a shortcut holds after consuming *)
Definition static_eq (s s' : sc) : Prop :=
  sid s' = sid s /\ skind s' = skind s /\ sshare s' = sshare s /\ sorig s' = sorig s /\ sotok s' = sotok s
  /\ snumtok s' = snumtok s /\ snumog s' = snumog s /\ sendpad s' = sendpad s /\ smidpad s' = smidpad s
  /\ sspacing s' = sspacing s.

Lemma static_eq_refl : forall s, static_eq s s.
Proof. intros; repeat split. Qed.

Lemma static_eq_trans : forall a b c, static_eq a b -> static_eq b c -> static_eq a c.
Proof.
  unfold static_eq; intros a b c H1 H2.
  destruct H1 as (?&?&?&?&?&?&?&?&?&?), H2 as (?&?&?&?&?&?&?&?&?&?).
  repeat split; congruence.
Qed.

Lemma can_consume_result : forall s pos node fwd le b s',
  can_consume s pos node fwd le = Ok (b, s') -> s' = s \/ exists f, s' = set_full s f.
Proof.
  intros s pos node fwd le b s' H. unfold can_consume in H.
  repeat match type of H with
         | context [match ?x with _ => _ end] => destruct x eqn:?; try discriminate
         end; inversion H; subst; eauto.
Qed.

Lemma can_consume_static : forall s pos node fwd le b s',
  can_consume s pos node fwd le = Ok (b, s') -> static_eq s s' /\ snodes s' = snodes s.
Proof.
  intros s pos node fwd le b s' H. apply can_consume_result in H.
  destruct H as [H|[f H]]; subst; split; auto using static_eq_refl. repeat split.
Qed.

Lemma consume_shape : forall s pos node fwd le b s',
  consume s pos node fwd le = Ok (b, s') ->
  static_eq s s' /\
  snodes s' = (if b then (if fwd then snodes s ++ [node] else node :: snodes s) else snodes s).
Proof.
  intros s pos node fwd le b s' H. unfold consume in H.
  destruct (can_consume s pos node fwd le) as [[b0 s0]|e] eqn:C; [|discriminate].
  apply can_consume_static in C. destruct C as [Hs Hn].
  destruct b0; inversion H; subst; clear H.
  - split.
    + destruct Hs as (?&?&?&?&?&?&?&?&?&?). repeat split; cbn; auto.
    + cbn. rewrite Hn. reflexivity.
  - auto.
Qed.

Definition rep_adj (a b : leaf) : Prop :=
  lty a = lty b /\ exists x y, lval a = Some x /\ lval b = Some y /\ qadj x y.
Definition int_adj (sp : Q) (a b : leaf) : Prop :=
  exists x y, lval a = Some x /\ lval b = Some y /\ (qclose (x + sp) y = true \/ qclose (y - sp) x = true).
Definition all_jumps (ns : list leaf) : Prop := Forall (fun l => lval l = None) ns.
Definition all_vals (ns : list leaf) : Prop := Forall (fun l => lval l <> None) ns.

(* the invariant of the nodes of a shortcut that was emptied and then fed by consume_edge_node *)
Definition sc_inv (s : sc) : Prop :=
  match skind s with
  | KJ => all_jumps (snodes s)
  | KR => chain rep_adj (snodes s) /\ all_vals (snodes s)
  | KI => chain (int_adj (sspacing s)) (snodes s) /\ all_vals (snodes s)
  | KL => all_vals (snodes s)
  | KM => (List.length (snodes s) <= 2)%nat /\ all_vals (snodes s)
  end.

Lemma chain_cons_hd : forall {A} (R : A -> A -> Prop) x l,
  chain R l -> (forall y, hd_error l = Some y -> R x y) -> chain R (x :: l).
Proof.
  intros A R x l H Hh. destruct l; constructor; auto.
Qed.

Lemma Forall_snoc : forall {A} (P : A -> Prop) l x, Forall P l -> P x -> Forall P (l ++ [x]).
Proof. intros. apply Forall_app; auto. Qed.

Lemma vty_eqb_true : forall a b, vty_eqb a b = true -> a = b.
Proof. destruct a, b; cbn; congruence. Qed.

Lemma consume_inv : forall s pos node fwd le s',
  sc_inv s -> consume s pos node fwd le = Ok (true, s') -> sc_inv s'.
Proof.
  intros s pos node fwd le s' I H.
  pose proof (consume_shape _ _ _ _ _ _ _ H) as [Hs Hn].
  destruct Hs as (_&Hk&_&_&_&_&_&_&_&Hsp).
  unfold sc_inv in *. rewrite Hk, Hn, ?Hsp.
  unfold consume in H.
  destruct (can_consume s pos node fwd le) as [[b0 s0]|e] eqn:C; [|discriminate].
  destruct b0; [|discriminate]. clear H.
  unfold can_consume, last_leaf, first_leaf in C.
  destruct (skind s) eqn:K.
  - (* repeat *)
    destruct I as [Ic Iv].
    assert (Hcase : (snodes s = [] /\ lval node <> None) \/
                    (exists edge, (if fwd then hd_error (rev (snodes s)) else hd_error (snodes s)) = Some edge
                                  /\ rep_adj edge node /\ lval node <> None)).
    { destruct (snodes s) as [|n0 nl] eqn:En.
      - destruct (lval node) eqn:Ev; [left; split; congruence|].
        destruct fwd; cbn in C; discriminate.
      - right.
        destruct (if fwd then hd_error (rev (n0 :: nl)) else hd_error (n0 :: nl)) as [edge|] eqn:Ee;
          [|destruct (lval node); discriminate].
        exists edge. split; auto.
        assert (C' : (if negb (vty_eqb (lty edge) (lty node)) then Ok (false, s)
                      else match lval edge, lval node with
                           | Some a, Some b =>
                               if negb (neg_eqb (lneg edge) (lneg node)) then Ok (false, s) else Ok (qclose a b, s)
                           | _, _ => Ok (false, s)
                           end) = Ok (true, s0)) by (destruct (lval node); exact C).
        clear C. destruct (vty_eqb (lty edge) (lty node)) eqn:Et; cbn in C'; [|discriminate].
        destruct (lval edge) as [a|] eqn:Ea; [|discriminate].
        destruct (lval node) as [b|] eqn:Eb; [|discriminate].
        destruct (neg_eqb (lneg edge) (lneg node)); cbn in C'; [|discriminate].
        inversion C'. split; [|congruence].
        split; [apply vty_eqb_true; auto|]. exists a, b. repeat split; auto. left; auto. }
    destruct Hcase as [[He Hv]|[edge [He [Hr Hv]]]].
    + rewrite He. destruct fwd; cbn; split; constructor; auto.
    + destruct fwd.
      * split; [|apply Forall_snoc; auto].
        apply chain_snoc; auto. intros y Hy. rewrite Hy in He. inversion He; subst; auto.
      * split; [|constructor; auto].
        apply chain_cons_hd; auto. intros y Hy. rewrite Hy in He. inversion He; subst.
        destruct Hr as [Ht [x [y0 [Hx [Hy0 Hq]]]]].
        split; [congruence|]. exists y0, x. repeat split; auto. destruct Hq; [right|left]; auto.
  - (* multiply *)
    destruct I as [Il Iv].
    destruct (lval node) eqn:Ev; [|discriminate].
    destruct (snodes s) as [|a [|b0 l]] eqn:En; try discriminate.
    + destruct fwd; cbn; split; auto; constructor; auto; congruence.
    + inversion Iv; subst. destruct fwd; cbn; split; auto; repeat (constructor; try congruence); auto.
  - (* jump *)
    destruct (lval node) eqn:Ev; [discriminate|].
    destruct fwd; [apply Forall_snoc; auto|constructor; auto].
  - (* interpolate *)
    destruct I as [Ic Iv].
    destruct (lval node) as [v|] eqn:Ev; [|discriminate].
    assert (Hnv : lval node <> None) by congruence.
    destruct fwd.
    + destruct (hd_error (rev (snodes s))) as [edge|] eqn:Ee.
      * destruct (lval edge) as [e|] eqn:Eed; [|discriminate]. inversion C as [[Hq Hs0]]. subst s0.
        split; [|apply Forall_snoc; auto].
        apply chain_snoc; auto. intros y Hy. rewrite Hy in Ee. inversion Ee; subst.
        exists e, v. repeat split; auto.
      * assert (Hnil : snodes s = []).
        { destruct (snodes s) as [|x l]; auto. cbn in Ee. destruct (rev l); discriminate. }
        rewrite Hnil. cbn. split; constructor; auto.
    + destruct (hd_error (snodes s)) as [edge|] eqn:Ee.
      * destruct (lval edge) as [e|] eqn:Eed; [|discriminate]. inversion C as [[Hq Hs0]]. subst s0.
        split; [|constructor; auto].
        apply chain_cons_hd; auto. intros y Hy. rewrite Hy in Ee. inversion Ee; subst.
        exists v, e. repeat split; auto.
      * destruct (snodes s); [|discriminate]. split; constructor; auto.
  - (* log interpolate *)
    destruct (lval node) eqn:Ev; [|discriminate].
    destruct fwd; [apply Forall_snoc; auto; congruence|constructor; auto; congruence].
Qed.

(* ================================================================== Part 4: formatting *)
Open Scope string_scope.
Open Scope list_scope.

Lemma sapp_nil : forall a b : string, (a ++ b)%string = "" -> a = "" /\ b = "".
Proof. intros [|c a] b H; cbn in H; [auto|discriminate]. Qed.

Lemma code_nil : forall b c, c <> "" -> code b c = "" -> b = false.
Proof. intros [|] c Hc H; cbn in H; [contradiction|reflexivity]. Qed.

Lemma span_body_app : forall t b rs, span_body t = (b, rs) -> t = (b ++ rs)%string.
Proof.
  induction t as [|a t IH]; intros b rs H; cbn in H.
  - inversion H; reflexivity.
  - destruct (is_ws a).
    + inversion H; reflexivity.
    + destruct (span_body t) as [b0 t0]. inversion H; subst. cbn. f_equal. apply IH; reflexivity.
Qed.

Definition ptxt (p : piece) : string :=
  match p with PcMul _ _ _ _ => "x" | _ => piece_text p end.

Lemma pta_cons : forall p r g acc,
  piece_tokens_aux (p :: r) g acc =
  (let (body, rest) := span_body (ptxt p) in
   let g1 := if String.eqb body "" then g else g ++ [piece_tag p] in
   if String.eqb rest "" then piece_tokens_aux r g1 acc
   else if all_ws rest then piece_tokens_aux r [] (flush g1 acc)
   else piece_tokens_aux r [] (flush (g1 ++ [GBad]) acc)).
Proof. intros [v t|n t|q s a b|k t|t] r g acc; reflexivity. Qed.

(* a word followed by blanks ends the token *)
Lemma pt_word : forall p r g acc,
  word_ok (ptxt p) = true -> ends_blank (ptxt p) = true ->
  piece_tokens_aux (p :: r) g acc = piece_tokens_aux r [] (flush (g ++ [piece_tag p]) acc).
Proof.
  intros p r g acc Hw He. rewrite pta_cons.
  unfold word_ok, ends_blank, body_of, rest_of in *.
  destruct (span_body (ptxt p)) as [b rs]. cbn [fst snd] in *.
  apply andb_true_iff in Hw. destruct Hw as [Hb Hr].
  apply negb_true_iff in Hb. apply negb_true_iff in He. rewrite Hb, He, Hr. reflexivity.
Qed.

(* a word without a blank after it: the token goes on *)
Lemma pt_word_glue : forall p r g acc,
  word_ok (ptxt p) = true -> ends_blank (ptxt p) = false ->
  piece_tokens_aux (p :: r) g acc = piece_tokens_aux r (g ++ [piece_tag p]) acc.
Proof.
  intros p r g acc Hw He. rewrite pta_cons.
  unfold word_ok, ends_blank, body_of, rest_of in *.
  destruct (span_body (ptxt p)) as [b rs]. cbn [fst snd] in *.
  apply andb_true_iff in Hw. destruct Hw as [Hb Hr].
  apply negb_true_iff in Hb. apply negb_false_iff in He. rewrite Hb, He. reflexivity.
Qed.

Lemma pt_glue : forall p r g acc,
  cnt_txt_ok (ptxt p) = true ->
  piece_tokens_aux (p :: r) g acc = piece_tokens_aux r (g ++ [piece_tag p]) acc.
Proof.
  intros p r g acc H. rewrite pta_cons.
  unfold cnt_txt_ok, rest_of in H.
  destruct (span_body (ptxt p)) as [b rs] eqn:E. cbn [fst snd] in *.
  apply andb_true_iff in H. destruct H as [Ht Hr].
  apply String.eqb_eq in Hr. subst rs.
  apply span_body_app in E.
  assert (Hb : String.eqb b "" = false).
  { destruct b; [|reflexivity]. cbn in E. rewrite E in Ht. discriminate. }
  rewrite Hb. reflexivity.
Qed.

Lemma pt_pad : forall t r g acc,
  all_ws t = true -> t <> "" ->
  piece_tokens_aux (PcPad t :: r) g acc = piece_tokens_aux r [] (flush g acc).
Proof.
  intros t r g acc Hw Hn. rewrite pta_cons. cbn [ptxt piece_text].
  destruct t as [|a t]; [contradiction|].
  cbn in Hw. apply andb_true_iff in Hw. destruct Hw as [Ha Ht].
  cbn [span_body]. rewrite Ha. cbn. rewrite Ha, Ht. reflexivity.
Qed.

Lemma flush_nil : forall acc, flush [] acc = acc.
Proof. reflexivity. Qed.

Lemma pad_pieces_nil : pad_pieces "" = [].
Proof. reflexivity. Qed.
Lemma pad_pieces_cons : forall t, t <> "" -> pad_pieces t = [PcPad t].
Proof. intros t H. unfold pad_pieces. destruct (String.eqb_spec t ""); [contradiction|reflexivity]. Qed.

(* the end padding of a node (may be missing only at the very end of the list) *)
Lemma pt_finish : forall pad (is_last : bool) r g acc,
  all_ws pad = true -> (is_last = true \/ pad <> "") -> (is_last = true -> r = []) ->
  piece_tokens_aux (pad_pieces pad ++ r) g acc = piece_tokens_aux r [] (flush g acc).
Proof.
  intros pad is_last r g acc Hw Hc Hr.
  destruct (String.eqb_spec pad "") as [E|E].
  - subst pad. destruct Hc as [Hc|Hc]; [|contradiction]. rewrite (Hr Hc). reflexivity.
  - rewrite pad_pieces_cons by auto. cbn [app]. apply pt_pad; auto.
Qed.

Lemma pt_leaf_finish : forall v t pad (is_last : bool) r g acc,
  word_ok t = true -> all_ws pad = true ->
  (ends_blank t = true \/ pad <> "" \/ is_last = true) -> (is_last = true -> r = []) ->
  piece_tokens_aux (PcLeaf v t :: pad_pieces pad ++ r) g acc
  = piece_tokens_aux r [] (flush (g ++ [GLeaf v]) acc).
Proof.
  intros v t pad is_last r g acc Hw Hp Hc Hr.
  destruct (ends_blank t) eqn:He.
  - rewrite pt_word by auto. cbn [piece_tag].
    destruct (String.eqb_spec pad "") as [E|E].
    + subst pad. reflexivity.
    + rewrite pad_pieces_cons by auto. cbn [app]. rewrite pt_pad by auto. reflexivity.
  - rewrite pt_word_glue by auto. cbn [piece_tag].
    apply pt_finish with (is_last := is_last); auto.
    destruct Hc as [Hc|[Hc|Hc]]; [discriminate|right; auto|left; auto].
Qed.

(* ------------------------------------------------------------------ texts *)
Lemma sappend_nil_r : forall s : string, (s ++ "")%string = s.
Proof. induction s; cbn; congruence. Qed.

Lemma ends_ws_app : forall a b, b <> "" -> ends_ws (a ++ b)%string = ends_ws b.
Proof.
  induction a as [|c a IH]; intros b Hb; [reflexivity|].
  cbn [append ends_ws]. rewrite IH by exact Hb.
  destruct (a ++ b)%string eqn:E; [|reflexivity].
  destruct a; cbn in E; [contradiction|discriminate].
Qed.

Lemma ends_ws_allws : forall t, all_ws t = true -> t <> "" -> ends_ws t = true.
Proof.
  induction t as [|a t IH]; intros H Hn; [contradiction|].
  cbn in H. apply andb_true_iff in H. destruct H as [Ha Ht].
  cbn [ends_ws]. destruct t; [exact Ha|]. apply IH; [exact Ht|discriminate].
Qed.

Lemma span_norest_ends : forall t b, span_body t = (b, "") -> ends_ws t = false.
Proof.
  induction t as [|a t IH]; intros b H; [reflexivity|].
  cbn in H. destruct (is_ws a) eqn:Ea; [discriminate|].
  destruct (span_body t) as [b1 r1] eqn:E. inversion H; subst.
  cbn [ends_ws]. destruct t; [exact Ea|]. eapply IH; reflexivity.
Qed.

Lemma ends_ws_noblank : forall t, cnt_txt_ok t = true -> ends_ws t = false.
Proof.
  intros t H. unfold cnt_txt_ok, rest_of in H. apply andb_true_iff in H. destruct H as [_ H].
  destruct (span_body t) as [b r] eqn:E. cbn in H. apply String.eqb_eq in H. subst. eapply span_norest_ends; eauto.
Qed.

Lemma ends_ws_word : forall t, word_ok t = true -> ends_ws t = ends_blank t.
Proof.
  intros t H. unfold word_ok, ends_blank, body_of, rest_of in *.
  destruct (span_body t) as [b r] eqn:E. cbn [fst snd] in *.
  apply andb_true_iff in H. destruct H as [Hb Hr].
  destruct (String.eqb_spec r "") as [Er|Er]; cbn.
  - subst. eapply span_norest_ends; eauto.
  - rewrite (span_body_app _ _ _ E). rewrite ends_ws_app by exact Er. apply ends_ws_allws; auto.
Qed.

Lemma word_ok_nonempty : forall t, word_ok t = true -> t <> "".
Proof. intros t H E. subst. discriminate. Qed.

Lemma span_body_snoc : forall t b, span_body t = (b, "") -> span_body (t ++ " ")%string = (b, " ").
Proof.
  induction t as [|a t IH]; intros b H; cbn in H.
  - inversion H; reflexivity.
  - cbn [append span_body]. destruct (is_ws a); [discriminate|].
    destruct (span_body t) as [b1 r1] eqn:E. inversion H; subst.
    rewrite (IH b1 eq_refl). reflexivity.
Qed.

Lemma ensure_blank_word : forall t, word_ok t = true ->
  word_ok (ensure_blank t) = true /\ ends_blank (ensure_blank t) = true /\ ensure_blank t <> "".
Proof.
  intros t H. pose proof (word_ok_nonempty _ H) as Hn. unfold ensure_blank.
  destruct (String.eqb_spec t ""); [contradiction|].
  rewrite (ends_ws_word _ H). destruct (ends_blank t) eqn:Eb; [auto|].
  unfold word_ok, ends_blank, body_of, rest_of in *.
  destruct (span_body t) as [b r] eqn:E. cbn [fst snd] in *.
  apply negb_false_iff in Eb. apply String.eqb_eq in Eb. subst r.
  rewrite (span_body_snoc _ _ E). cbn [fst snd]. apply andb_true_iff in H. destruct H as [Hb _].
  rewrite Hb. cbn. split; [reflexivity|]. split; [reflexivity|]. destruct t; [contradiction|discriminate].
Qed.

Lemma render_cons : forall p r, render (p :: r) = (piece_text p ++ render r)%string.
Proof.
  intros p r. unfold render. cbn [map String.concat].
  destruct (map piece_text r) eqn:E; cbn [String.concat].
  - symmetry. apply sappend_nil_r.
  - reflexivity.
Qed.

Lemma sappend_assoc : forall a b c : string, ((a ++ b) ++ c)%string = (a ++ b ++ c)%string.
Proof. induction a; intros; cbn; congruence. Qed.

Lemma render_app : forall a b, render (a ++ b) = (render a ++ render b)%string.
Proof.
  induction a as [|p a IH]; intros b; [reflexivity|].
  cbn [app]. rewrite !render_cons, IH. symmetry. apply sappend_assoc.
Qed.

Lemma sappend_nonempty_r : forall a b : string, b <> "" -> (a ++ b)%string <> "".
Proof. intros [|c a] b H; cbn; [exact H|discriminate]. Qed.

(* what follows the body of a shortcut: its end padding and, when ListNode.format needs it, one more blank *)
Lemma tail_reads : forall body pad (is_last : bool), all_ws pad = true -> render body <> "" ->
  exists suffix, blank_after is_last (body ++ pad_pieces pad) = body ++ suffix /\
    forall r g acc, (ends_ws (render body) = true -> g = []) -> (is_last = true -> r = []) ->
      piece_tokens_aux (suffix ++ r) g acc = piece_tokens_aux r [] (flush g acc).
Proof.
  intros body pad is_last Hw Hb. unfold blank_after.
  destruct (String.eqb_spec pad "") as [E|E].
  - subst pad. rewrite pad_pieces_nil, app_nil_r.
    destruct (String.eqb_spec (render body) ""); [contradiction|]. cbn [negb andb].
    destruct is_last; cbn [negb andb].
    + exists []. split; [rewrite app_nil_r; reflexivity|].
      intros r g acc _ Hr. rewrite (Hr eq_refl). reflexivity.
    + destruct (ends_ws (render body)) eqn:Ee; cbn [negb].
      * exists []. split; [rewrite app_nil_r; reflexivity|].
        intros r g acc Hg _. rewrite (Hg eq_refl). reflexivity.
      * exists [PcPad " "]. split; [reflexivity|].
        intros r g acc _ _. cbn [app]. apply pt_pad; [reflexivity|discriminate].
  - rewrite pad_pieces_cons by exact E.
    assert (Hr : render (body ++ [PcPad pad]) = (render body ++ pad)%string).
    { rewrite render_app, render_cons. cbn [piece_text render map String.concat]. rewrite sappend_nil_r. reflexivity. }
    rewrite Hr. rewrite ends_ws_app by exact E. rewrite (ends_ws_allws _ Hw E).
    rewrite andb_false_r.
    exists [PcPad pad]. split; [reflexivity|].
    intros r g acc _ _. cbn [app]. apply pt_pad; auto.
Qed.

(* ------------------------------------------------------------------ one node *)
Definition node_pieces (n : lnode) (is_last : bool) : res (list piece) := node_out n None is_last.
Definition node_diag (n : lnode) (is_last : bool) : string := node_diag_of n None is_last.

(* the pieces [ps] of a node read as the tokens [toks], and leave no open token behind *)
Definition reads_as (ps : list piece) (toks : list tok) (is_last : bool) : Prop :=
  forall r acc, (is_last = true -> r = []) ->
    piece_tokens_aux (ps ++ r) [] acc = piece_tokens_aux r [] (acc ++ toks).
(* the tokens [toks] mean [exp], whatever precedes and follows them *)
Definition means (toks : list tok) (exp : list val) : Prop :=
  forall prev rest, exists prev',
    spec_expand_aux prev (toks ++ rest) = option_map (app exp) (spec_expand_aux prev' rest).

Lemma endpad_ok : forall s, endpad_diag s = "" -> all_ws (sendpad s) = true.
Proof.
  intros s H. unfold endpad_diag in H. apply code_nil in H; [|discriminate]. apply negb_false_iff in H. exact H.
Qed.

Lemma inner_leaf_ok : forall l, inner_leaf_diag l = "" -> word_ok (ltxt l) = true.
Proof.
  intros l H. unfold inner_leaf_diag in H.
  destruct (String.eqb (ltxt l) ""); [discriminate|].
  apply code_nil in H; [|discriminate]. apply negb_false_iff in H. exact H.
Qed.

Lemma count_ok : forall s c omitted, count_diag s c omitted = "" ->
  omitted = true \/ cnt_txt_ok (strip_ws (fmt_count (snumtok s) (snumog s) c)) = true.
Proof.
  intros s c [|] H; [left; reflexivity|right]. unfold count_diag in H.
  apply code_nil in H; [|discriminate]. apply negb_false_iff in H. exact H.
Qed.

Lemma zlen_nat : forall {A} (l : list A), Z.to_nat (zlen l) = List.length l.
Proof. intros. unfold zlen. apply Nat2Z.id. Qed.

Definition count_tok (omitted : bool) (c : Z) : option nat := if omitted then None else Some (Z.to_nat c).

Lemma cnt_count_tok : forall omitted c, (omitted = true -> c = 1%Z) -> cnt (count_tok omitted c) = Z.to_nat c.
Proof. intros [|] c H; cbn; [rewrite (H eq_refl)|]; reflexivity. Qed.

Definition cl_pieces (s : sc) (c : Z) (omitted : bool) (k : kind) (lt : string) : list piece :=
  if omitted then [PcLet k lt] else [count_piece s c; PcLet k lt].
Definition cl_tags (c : Z) (omitted : bool) (k : kind) : list tag :=
  if omitted then [GLet k] else [GCnt c; GLet k].

(* [count] letter: an open token *)
Lemma pt_count_letter : forall s (c : Z) (omitted : bool) k lt rest acc,
  count_diag s c omitted = "" -> cnt_txt_ok lt = true ->
  piece_tokens_aux (cl_pieces s c omitted k lt ++ rest) [] acc = piece_tokens_aux rest (cl_tags c omitted k) acc.
Proof.
  intros s c omitted k lt rest acc Hd Hl. unfold cl_pieces, cl_tags. destruct omitted.
  - cbn [app]. rewrite pt_glue by exact Hl. reflexivity.
  - apply count_ok in Hd. destruct Hd as [Hd|Hd]; [discriminate|].
    cbn [app]. unfold count_piece. rewrite pt_glue by exact Hd. rewrite pt_glue by exact Hl. reflexivity.
Qed.

Lemma cl_flush : forall c omitted k acc, (0 <= c)%Z -> k <> KM ->
  flush (cl_tags c omitted k) acc = acc ++ [mk_tok k (count_tok omitted c)].
Proof.
  intros c omitted k acc Hc Hk. unfold cl_tags, count_tok, flush, group_tok. destruct omitted.
  - reflexivity.
  - destruct (Z.ltb_spec c 0); [lia|reflexivity].
Qed.

Lemma cl_render : forall pre s c omitted k lt, cnt_txt_ok lt = true ->
  render (pre ++ cl_pieces s c omitted k lt) <> "" /\ ends_ws (render (pre ++ cl_pieces s c omitted k lt)) = false.
Proof.
  intros pre s c omitted k lt Hl.
  assert (Hlt : lt <> "") by (intros E; subst; discriminate).
  assert (E : exists x, render (pre ++ cl_pieces s c omitted k lt) = (x ++ lt)%string).
  { unfold cl_pieces. destruct omitted; rewrite render_app, !render_cons; cbn [render map String.concat piece_text];
      rewrite sappend_nil_r.
    - eexists; reflexivity.
    - eexists. rewrite <- sappend_assoc. reflexivity. }
  destruct E as [x E]. rewrite E. split; [apply sappend_nonempty_r; exact Hlt|].
  rewrite ends_ws_app by exact Hlt. apply ends_ws_noblank. exact Hl.
Qed.

Lemma vlist_close_app : forall a b c d,
  vlist_close a b = true -> vlist_close c d = true -> vlist_close (a ++ c) (b ++ d) = true.
Proof.
  induction a as [|x a IH]; intros [|y b] c d H1 H2; cbn in *; try discriminate; auto.
  apply andb_true_iff in H1. destruct H1 as [H1 H3]. rewrite H1. cbn. auto.
Qed.

(* --- a free value leaf *)
Lemma free_leaf_sound : forall l is_last, node_diag (NVal l) is_last = "" ->
  exists ps toks exp, node_pieces (NVal l) is_last = Ok ps /\ reads_as ps toks is_last /\
    means toks exp /\ vlist_close exp [leaf_val l] = true.
Proof.
  intros l is_last H. cbn [node_diag node_diag_of] in H. unfold free_leaf_diag in H.
  cbn [node_pieces node_out]. set (t := if negb (lpad l) && negb is_last && negb (lnever l) then ltxtsp l else ltxt l) in *.
  destruct (String.eqb t ""); [discriminate|].
  destruct (word_ok t) eqn:Hw; [|discriminate]. cbn in H.
  apply code_nil in H; [|discriminate].
  exists [PcLeaf (lval l) t].
  assert (Hr : forall tk, flush [GLeaf (lval l)] [] = [tk] ->
               reads_as [PcLeaf (lval l) t] [tk] is_last).
  { intros tk Hf r acc Hl.
    change ([PcLeaf (lval l) t] ++ r) with (PcLeaf (lval l) t :: pad_pieces "" ++ r).
    rewrite (pt_leaf_finish _ _ "" is_last) ; auto.
    - cbn [app]. unfold flush in *. destruct (group_tok [GLeaf (lval l)]); inversion Hf; reflexivity.
    - destruct (ends_blank t); [left; reflexivity|]. destruct is_last; [right; right; reflexivity|discriminate]. }
  unfold leaf_val. destruct (lval l) as [q|] eqn:Ev.
  - exists [TNum q], [VQ q]. split; [reflexivity|]. split; [apply Hr; reflexivity|]. split.
    + intros prev rest. exists (Some (VQ q)). reflexivity.
    + cbn. rewrite qclose_refl. reflexivity.
  - exists [TJmp None], [VJ]. split; [reflexivity|]. split; [apply Hr; reflexivity|]. split.
    + intros prev rest. exists (Some VJ). reflexivity.
    + reflexivity.
Qed.

(* --- a shortcut written as a shortcut: [body] is what precedes its end padding *)
Definition suffix_ok (body suffix : list piece) (is_last : bool) : Prop :=
  forall r g acc, (ends_ws (render body) = true -> g = []) -> (is_last = true -> r = []) ->
    piece_tokens_aux (suffix ++ r) g acc = piece_tokens_aux r [] (flush g acc).
Definition body_sound (s : sc) : Prop :=
  exists body toks exp,
    format_sc s None = Ok (body ++ pad_pieces (sendpad s)) /\ render body <> "" /\
    (forall suffix is_last, suffix_ok body suffix is_last -> reads_as (body ++ suffix) toks is_last) /\
    means toks exp /\ vlist_close exp (map leaf_val (snodes s)) = true.

Lemma render_letter_end : forall pre k lt, cnt_txt_ok lt = true ->
  render (pre ++ [PcLet k lt]) <> "" /\ ends_ws (render (pre ++ [PcLet k lt])) = false.
Proof.
  intros pre k lt Hl. assert (Hlt : lt <> "") by (intros E; subst; discriminate).
  rewrite render_app, render_cons. cbn [render map String.concat piece_text]. rewrite sappend_nil_r.
  split; [apply sappend_nonempty_r; exact Hlt|]. rewrite ends_ws_app by exact Hlt. apply ends_ws_noblank; exact Hl.
Qed.

(* --- nJ *)
Lemma jump_sound : forall s, skind s = KJ -> describes s None = true -> sc_diag s false = "" -> body_sound s.
Proof.
  intros s K D H. unfold sc_diag in H. rewrite K in H.
  apply sapp_nil in H. destruct H as [Hn H].
  apply sapp_nil in H. destruct H as [Hc H].
  apply sapp_nil in H. destruct H as [Hk He].
  apply code_nil in Hn; [|discriminate]. apply code_nil in Hk; [|discriminate].
  apply negb_false_iff in Hk.
  unfold body_sound, format_sc. rewrite D, K. cbn [negb]. unfold format_jump. rewrite Hn.
  set (omitted := (zlen (snodes s) =? 1)%Z && (Nat.eqb (sorig s) 0 || negb (has_char "1" (sotok s)))) in *.
  set (j := if Nat.ltb 0 (sorig s) && has_char "j" (sotok s) then "j" else "J").
  assert (Hj : cnt_txt_ok j = true) by (subst j; destruct (Nat.ltb 0 (sorig s) && has_char "j" (sotok s)); reflexivity).
  assert (Ho : omitted = true -> zlen (snodes s) = 1%Z).
  { subst omitted. intros E. apply andb_true_iff in E. destruct E as [E _]. apply Z.eqb_eq in E. exact E. }
  assert (H0 : (0 <= zlen (snodes s))%Z) by (unfold zlen; lia).
  exists (cl_pieces s (zlen (snodes s)) omitted KJ j).
  exists [TJmp (count_tok omitted (zlen (snodes s)))], (repeat VJ (List.length (snodes s))).
  destruct (cl_render [] s (zlen (snodes s)) omitted KJ j Hj) as [Hr1 Hr2]. cbn [app] in Hr1, Hr2.
  split; [unfold cl_pieces; destruct omitted; reflexivity|]. split; [exact Hr1|]. split; [|split].
  - intros suffix is_last Hs r acc Hl. rewrite <- app_assoc.
    rewrite pt_count_letter by auto. rewrite Hs; auto.
    + rewrite cl_flush by (auto; discriminate). reflexivity.
    + rewrite Hr2. discriminate.
  - intros prev rest. cbn [app spec_expand_aux]. rewrite cnt_count_tok by exact Ho. rewrite zlen_nat.
    eexists. reflexivity.
  - exact Hk.
Qed.

(* --- v nR *)
Lemma repeat_sound : forall s, skind s = KR -> describes s None = true -> sc_diag s false = "" -> body_sound s.
Proof.
  intros s K D H. unfold sc_diag in H. rewrite K in H.
  apply sapp_nil in H. destruct H as [Hf H].
  apply sapp_nil in H. destruct H as [Hn H].
  apply sapp_nil in H. destruct H as [Hc H].
  apply sapp_nil in H. destruct H as [Hd He].
  apply code_nil in Hn; [|discriminate]. apply code_nil in Hd; [|discriminate].
  apply negb_false_iff in Hd.
  unfold first_leaf in Hf. destruct (snodes s) as [|f rs] eqn:En; [discriminate|]. cbn [hd_error] in Hf.
  apply inner_leaf_ok in Hf. destruct (ensure_blank_word _ Hf) as [Hfw [Hfe Hfn]].
  unfold sem_ok, expect_repeat in Hd. destruct (lval f) as [q|] eqn:Ef; [|discriminate].
  unfold body_sound, format_sc. rewrite D, K. cbn [negb]. unfold format_repeat, first_leaf. rewrite En. cbn [hd_error].
  set (c := (zlen (f :: rs) - 1)%Z) in *.
  assert (Hc0 : (0 <= c)%Z) by (apply Z.ltb_ge; exact Hn).
  assert (Hcn : Z.to_nat c = List.length rs).
  { subst c. unfold zlen. cbn [List.length]. lia. }
  set (omitted := (c =? 1)%Z && Nat.leb 2 (sorig s) && negb (has_char "1" (sotok s))) in *.
  set (rl := if Nat.leb 2 (sorig s) && has_char "r" (sotok s) then "r" else "R").
  assert (Hrl : cnt_txt_ok rl = true) by (subst rl; destruct (Nat.leb 2 (sorig s) && has_char "r" (sotok s)); reflexivity).
  assert (Ho : omitted = true -> c = 1%Z).
  { subst omitted. intros E. apply andb_true_iff in E. destruct E as [E _].
    apply andb_true_iff in E. destruct E as [E _]. apply Z.eqb_eq in E. exact E. }
  exists ([first_piece f] ++ cl_pieces s c omitted KR rl).
  exists [TNum q; TRep (count_tok omitted c)], (VQ q :: repeat (VQ q) (List.length rs)).
  destruct (cl_render [first_piece f] s c omitted KR rl Hrl) as [Hr1 Hr2].
  split; [unfold cl_pieces; destruct omitted; reflexivity|]. split; [exact Hr1|]. split; [|split].
  - intros suffix is_last Hs r acc Hl. rewrite <- !app_assoc. cbn [app]. unfold first_piece. rewrite Ef.
    rewrite pt_word by auto. cbn [app piece_tag].
    rewrite pt_count_letter by auto. rewrite Hs; auto.
    + rewrite cl_flush by (auto; discriminate). cbn [flush group_tok]. rewrite <- app_assoc. reflexivity.
    + rewrite Hr2. discriminate.
  - intros prev rest. cbn [app spec_expand_aux]. rewrite cnt_count_tok by exact Ho. rewrite Hcn.
    exists (Some (VQ q)). destruct (spec_expand_aux (Some (VQ q)) rest); reflexivity.
  - exact Hd.
Qed.

(* --- v xM *)
Lemma qzero_false : forall q, qzero q = false -> ~ q == 0.
Proof. intros q H E. unfold qzero in H. apply Qeq_bool_iff in E. congruence. Qed.
Lemma qzero_true : forall q, qzero q = true -> q == 0.
Proof. intros q H. unfold qzero in H. apply Qeq_bool_iff. exact H. Qed.

Lemma multiply_sound : forall s, skind s = KM -> describes s None = true -> smulok s = true ->
  sc_diag s false = "" -> body_sound s.
Proof.
  intros s K D Mo H. unfold sc_diag in H. rewrite K in H.
  apply sapp_nil in H. destruct H as [H He].
  apply sapp_nil in H. destruct H as [Hm H].
  apply sapp_nil in H. destruct H as [Hf H].
  apply sapp_nil in H. destruct H as [Hl Ho].
  apply code_nil in Hm; [|discriminate]. apply code_nil in Ho; [|discriminate].
  apply negb_false_iff in Hm. apply Z.eqb_eq in Hm.
  unfold first_leaf, last_leaf in *.
  destruct (snodes s) as [|f [|l [|x rs]]] eqn:En; unfold zlen in Hm; cbn [List.length] in Hm; try lia.
  cbn [hd_error rev app] in *.
  apply sapp_nil in Hf. destruct Hf as [Hf Hz].
  apply inner_leaf_ok in Hf. destruct (ensure_blank_word _ Hf) as [Hfw [Hfe Hfn]].
  apply code_nil in Hz; [|discriminate]. apply code_nil in Hl; [|discriminate].
  destruct (lval f) as [b|] eqn:Ef; [|discriminate].
  destruct (lval l) as [a|] eqn:El; [|discriminate].
  apply negb_false_iff in Hl.
  unfold body_sound, format_sc. rewrite D, K. cbn [negb option_map].
  unfold format_multiply, first_leaf, last_leaf.
  rewrite En. cbn [hd_error rev app]. rewrite Ho, Ef, El, Mo. cbn [negb].
  set (m := if has_char "M" (sotok s) then "M" else "m").
  assert (Hml : cnt_txt_ok m = true) by (subst m; destruct (has_char "M" (sotok s)); reflexivity).
  set (q := if qzero b then 1 else a / b).
  exists ([first_piece f] ++ [PcMul q (sid s) (lid f) (lid l); PcLet KM m]).
  exists [TNum b; TMul q], [VQ b; VQ (b * q)].
  destruct (render_letter_end [first_piece f; PcMul q (sid s) (lid f) (lid l)] KM m Hml) as [Hr1 Hr2].
  split; [reflexivity|]. split; [exact Hr1|]. split; [|split].
  - intros suffix is_last Hs r acc Hlast. rewrite <- !app_assoc. cbn [app]. unfold first_piece. rewrite Ef.
    rewrite pt_word by auto. cbn [app piece_tag].
    rewrite pt_glue by reflexivity. rewrite pt_glue by exact Hml. cbn [app piece_tag].
    rewrite Hs; auto.
    + cbn [flush group_tok]. rewrite <- app_assoc. reflexivity.
    + cbn [app] in Hr2. cbn [app]. rewrite Hr2. discriminate.
  - intros prev rest. cbn [app spec_expand_aux]. exists (Some (VQ (b * q))).
    destruct (spec_expand_aux (Some (VQ (b * q))) rest); reflexivity.
  - cbn [map vlist_close vclose]. unfold leaf_val. rewrite Ef, El. cbn [vclose].
    rewrite qclose_refl. cbn. unfold qclose.
    assert (E : b * q == a).
    { subst q. destruct (qzero b) eqn:Zb.
      - apply qzero_true in Zb. cbn in Hl. apply qzero_true in Hl. rewrite Zb, Hl. ring.
      - field. apply qzero_false; exact Zb. }
    rewrite (proj2 (Qeq_bool_iff _ _) E). reflexivity.
Qed.

(* --- v nI w  and  v nILOG w *)
Lemma interp_sound : forall s, (skind s = KI \/ skind s = KL) -> describes s None = true ->
  sc_diag s false = "" -> body_sound s.
Proof.
  intros s K D H.
  assert (H' : exists k, skind s = k /\ (k = KI \/ k = KL)) by (exists (skind s); auto).
  destruct H' as [k [Kk Kc]].
  unfold sc_diag in H. unfold body_sound, format_sc. rewrite D. cbn [negb]. unfold format_interpolate.
  set (c := (zlen (snodes s) - 2)%Z) in *.
  set (omitted := (c =? 1)%Z && Nat.leb 2 (sorig s) && negb (has_char "1" (sotok s))) in *.
  set (pad := if Nat.leb 3 (sorig s) then smidpad s else " ") in *.
  set (word := if Nat.ltb 0 (sorig s) && negb (String.eqb (strip_digits (sotok s)) "") then strip_digits (sotok s)
               else match skind s with KL => "ILOG" | _ => "I" end) in *.
  assert (H2 : (code (c <? 0)%Z "n" ++
       match first_leaf (snodes s) with Some l => inner_leaf_diag l | None => "" end ++
       count_diag s c omitted ++ code (negb (cnt_txt_ok word)) "x" ++
       code (negb (all_ws pad && negb (String.eqb pad ""))) "x" ++
       match last_leaf (snodes s) with
       | Some e => (if String.eqb (ltxt e) "" then "v" else code (negb (word_ok (ltxt e))) "x")
       | None => ""
       end ++ endpad_diag s ++
       code (negb (sem_ok (expect_interp (skind s) (snodes s)) (snodes s))) "l")%string = "").
  { destruct K as [K|K]; rewrite K in H; rewrite K; exact H. }
  clear H. rename H2 into H.
  apply sapp_nil in H. destruct H as [Hn H].
  apply sapp_nil in H. destruct H as [Hf H].
  apply sapp_nil in H. destruct H as [Hc H].
  apply sapp_nil in H. destruct H as [Hwd H].
  apply sapp_nil in H. destruct H as [Hpd H].
  apply sapp_nil in H. destruct H as [Hl H].
  apply sapp_nil in H. destruct H as [Hep Hs].
  apply code_nil in Hn; [|discriminate]. apply code_nil in Hwd; [|discriminate].
  apply code_nil in Hpd; [|discriminate]. apply code_nil in Hs; [|discriminate].
  apply negb_false_iff in Hwd. apply negb_false_iff in Hpd. apply negb_false_iff in Hs.
  apply andb_true_iff in Hpd. destruct Hpd as [Hpw Hpn]. apply negb_true_iff in Hpn.
  assert (Hpne : pad <> "") by (intros E; rewrite E in Hpn; discriminate).
  assert (Hc0 : (0 <= c)%Z) by (apply Z.ltb_ge; exact Hn).
  unfold sem_ok, expect_interp in Hs. unfold first_leaf in *.
  destruct (snodes s) as [|f [|x rs]] eqn:En; try discriminate.
  cbn [hd_error] in *.
  destruct (last_leaf (f :: x :: rs)) as [e|] eqn:El; [|discriminate].
  destruct (lval f) as [a|] eqn:Ef; [|discriminate].
  destruct (lval e) as [b|] eqn:Ee; [|discriminate].
  apply inner_leaf_ok in Hf. destruct (ensure_blank_word _ Hf) as [Hfw [Hfe Hfn]].
  assert (Hew : word_ok (ltxt e) = true).
  { destruct (String.eqb (ltxt e) ""); [discriminate|]. apply code_nil in Hl; [|discriminate].
    apply negb_false_iff in Hl. exact Hl. }
  assert (Ho : omitted = true -> c = 1%Z).
  { subst omitted. intros E. apply andb_true_iff in E. destruct E as [E _].
    apply andb_true_iff in E. destruct E as [E _]. apply Z.eqb_eq in E. exact E. }
  assert (Hcn : Z.to_nat c = (List.length (f :: x :: rs) - 2)%nat).
  { subst c. unfold zlen. cbn [List.length]. lia. }
  set (body := [first_piece f] ++ cl_pieces s c omitted (skind s) word ++ pad_pieces pad ++ [leaf_piece e]).
  assert (Hfmt : (match skind s with
                  | KJ => Ok (format_jump s)
                  | KR => format_repeat s false
                  | KM => match format_multiply s (option_map (fun p => last_leaf (snodes p)) None) with
                          | Err e0 => Err e0
                          | Ok (Some ps) => Ok ps
                          | Ok None => Ok (format_expanded s false)
                          end
                  | _ => Ok ([first_piece f] +++
                             (if omitted then [] else [count_piece s c]) +++
                             [PcLet (skind s) word] +++ pad_pieces pad +++ [leaf_piece e])
                  end) = Ok body).
  { subst body. unfold cl_pieces. destruct K as [K|K]; rewrite K; destruct omitted; reflexivity. }
  assert (Hrb : render body <> "" /\ ends_ws (render body) = ends_blank (ltxt e)).
  { subst body. rewrite !app_assoc. rewrite render_app, render_cons. cbn [render map String.concat piece_text leaf_piece].
    rewrite sappend_nil_r. pose proof (word_ok_nonempty _ Hew) as Hne.
    split; [apply sappend_nonempty_r; exact Hne|]. rewrite ends_ws_app by exact Hne. apply ends_ws_word; exact Hew. }
  destruct Hrb as [Hr1 Hr2].
  exists body, [TNum a; mk_tok k (count_tok omitted c); TNum b].
  assert (Hread : forall suffix is_last, suffix_ok body suffix is_last ->
                  reads_as (body ++ suffix) [TNum a; mk_tok k (count_tok omitted c); TNum b] is_last).
  { intros suffix is_last Hsx r acc Hlast. subst body. rewrite <- !app_assoc. cbn [app].
    unfold first_piece, leaf_piece. rewrite Ef, Ee.
    rewrite pt_word by auto. cbn [app piece_tag].
    rewrite pt_count_letter by auto.
    rewrite pad_pieces_cons by exact Hpne. cbn [app]. rewrite pt_pad by auto.
    assert (Hkm : skind s <> KM) by (destruct K as [K|K]; rewrite K; discriminate).
    rewrite cl_flush by auto.
    destruct (ends_blank (ltxt e)) eqn:Eb.
    - rewrite pt_word by auto. cbn [app piece_tag]. rewrite Hsx; auto.
      cbn [flush group_tok]. rewrite Kk. rewrite <- !app_assoc. reflexivity.
    - rewrite pt_word_glue by auto. cbn [app piece_tag]. rewrite Hsx; auto.
      + cbn [flush group_tok]. rewrite Kk. rewrite <- !app_assoc. reflexivity.
      + rewrite Hr2. discriminate. }
  destruct Kc as [Kc|Kc]; rewrite Kc in *; clear Kc; rewrite Kk in *.
  - exists (VQ a :: lin_steps a b (Z.to_nat c) 1 (Z.to_nat c) ++ [VQ b]).
    split; [|split; [exact Hr1|split; [exact Hread|split]]].
    + clear Hfmt Hread. subst body. unfold cl_pieces. subst omitted c. rewrite ?Kk.
      match goal with |- context [if ?bb then [] else _] => destruct bb end; reflexivity.
    + intros prev rest. cbn [app spec_expand_aux mk_tok]. rewrite cnt_count_tok by exact Ho.
      exists (Some (VQ b)). destruct (spec_expand_aux (Some (VQ b)) rest); cbn; rewrite <- ?app_assoc; reflexivity.
    + rewrite Hcn. exact Hs.
  - destruct (qpos a && qpos b) eqn:Hpos; [|discriminate].
    exists (VQ a :: log_steps a b (Z.to_nat c) 1 (Z.to_nat c) ++ [VQ b]).
    split; [|split; [exact Hr1|split; [exact Hread|split]]].
    + clear Hfmt Hread. subst body. unfold cl_pieces. subst omitted c. rewrite ?Kk.
      match goal with |- context [if ?bb then [] else _] => destruct bb end; reflexivity.
    + intros prev rest. cbn [app spec_expand_aux mk_tok]. rewrite cnt_count_tok by exact Ho. rewrite Hpos.
      exists (Some (VQ b)). destruct (spec_expand_aux (Some (VQ b)) rest); cbn; rewrite <- ?app_assoc; reflexivity.
    + rewrite Hcn. exact Hs.
Qed.

(* --- a shortcut written as plain values *)
Definition tokv (v : val) : tok := match v with VQ q => TNum q | _ => TJmp None end.

Lemma plain_reads : forall ps (pending is_last : bool) g,
  plain_ok ps pending is_last = true ->
  (pending = false -> g = []) -> (pending = true -> exists v, g = [GLeaf v]) ->
  forall r acc, (is_last = true -> r = []) ->
    piece_tokens_aux (ps ++ r) g acc = piece_tokens_aux r [] (flush g acc ++ map tokv (plain_vals ps)).
Proof.
  induction ps as [|p ps IH]; intros pending is_last g H Hg0 Hg1 r acc Hr.
  - cbn [plain_ok] in H. cbn [app plain_vals map]. rewrite app_nil_r.
    destruct pending.
    + cbn in H. subst is_last. rewrite (Hr eq_refl). reflexivity.
    + rewrite (Hg0 eq_refl). reflexivity.
  - destruct p as [v t|n t|q s a b|k t|t]; cbn [plain_ok] in H; try discriminate.
    + apply andb_true_iff in H. destruct H as [H H3]. apply andb_true_iff in H. destruct H as [H1 H2].
      apply negb_true_iff in H1. subst pending. rewrite (Hg0 eq_refl). cbn [app].
      assert (Hfl : forall acc0, flush [GLeaf v] acc0 = acc0 ++ [tokv (match v with Some q => VQ q | None => VJ end)]).
      { intros. destruct v; reflexivity. }
      destruct (ends_blank t) eqn:Eb.
      * rewrite pt_word by auto. cbn [app piece_tag].
        rewrite (IH false is_last []) by (auto; discriminate). cbn [flush group_tok].
        rewrite ?flush_nil, Hfl. destruct v; cbn [plain_vals map]; rewrite <- app_assoc; reflexivity.
      * rewrite pt_word_glue by auto. cbn [app piece_tag].
        rewrite (IH true is_last [GLeaf v]); auto; [|discriminate|eauto].
        rewrite ?flush_nil, Hfl. destruct v; cbn [plain_vals map]; rewrite <- app_assoc; reflexivity.
    + apply andb_true_iff in H. destruct H as [H H3]. apply andb_true_iff in H. destruct H as [H1 H2].
      apply negb_true_iff in H2. cbn [app]. rewrite pt_pad; auto.
      * rewrite (IH false is_last []) by (auto; discriminate). rewrite ?flush_nil. reflexivity.
      * intros E. rewrite E in H2. discriminate.
Qed.

Lemma plain_means : forall ps, means (map tokv (plain_vals ps)) (plain_vals ps).
Proof.
  assert (G : forall vs, Forall (fun v => v = VJ \/ exists q, v = VQ q) vs -> means (map tokv vs) vs).
  { induction vs as [|v vs IH]; intros H prev rest.
    - exists prev. cbn. destruct (spec_expand_aux prev rest); reflexivity.
    - inversion H as [|x l Hv Hvs]; subst. specialize (IH Hvs).
      destruct Hv as [E|[q E]]; subst v; cbn [map tokv app spec_expand_aux].
      + destruct (IH (Some VJ) rest) as [p' Hp]. exists p'. cbn [cnt repeat]. rewrite Hp.
        destruct (spec_expand_aux p' rest); reflexivity.
      + destruct (IH (Some (VQ q)) rest) as [p' Hp]. exists p'. rewrite Hp.
        destruct (spec_expand_aux p' rest); reflexivity. }
  intros ps. apply G. induction ps as [|p ps IH]; [constructor|].
  destruct p as [[q|] t| | | |]; cbn [plain_vals]; auto; constructor; eauto.
Qed.

Lemma sc_diag_endpad : forall s, sc_diag s false = "" -> all_ws (sendpad s) = true.
Proof.
  intros s H. unfold sc_diag in H. destruct (skind s).
  - do 4 (apply sapp_nil in H; destruct H as [_ H]). apply endpad_ok; exact H.
  - apply sapp_nil in H; destruct H as [_ H]. apply endpad_ok; exact H.
  - do 3 (apply sapp_nil in H; destruct H as [_ H]). apply endpad_ok; exact H.
  - do 6 (apply sapp_nil in H; destruct H as [_ H]). apply sapp_nil in H; destruct H as [H _]. apply endpad_ok; exact H.
  - do 6 (apply sapp_nil in H; destruct H as [_ H]). apply sapp_nil in H; destruct H as [H _]. apply endpad_ok; exact H.
Qed.

(* --- any node *)
Lemma node_sound : forall n is_last, node_diag n is_last = "" ->
  exists ps toks exp, node_pieces n is_last = Ok ps /\ reads_as ps toks is_last /\
    means toks exp /\ vlist_close exp (map leaf_val (lnode_leaves n)) = true.
Proof.
  intros [l|s] is_last H.
  - apply free_leaf_sound; auto.
  - cbn [lnode_leaves]. unfold node_diag, node_diag_of in H. unfold node_pieces.
    destruct (node_out (NSc s) None is_last) as [ps|e] eqn:No; [|discriminate].
    cbn [lead_of] in H.
    destruct (expanded_mode s None) eqn:Em.
    + apply sapp_nil in H. destruct H as [Hp Hq].
      apply code_nil in Hp; [|discriminate]. apply code_nil in Hq; [|discriminate].
      apply negb_false_iff in Hp. apply negb_false_iff in Hq.
      exists ps, (map tokv (plain_vals ps)), (plain_vals ps).
      split; [reflexivity|]. split; [|split; [apply plain_means|exact Hq]].
      intros r acc Hr. rewrite (plain_reads ps false is_last []) by (auto; discriminate). reflexivity.
    + unfold expanded_mode in Em. apply orb_false_iff in Em. destruct Em as [Ed Em].
      apply negb_false_iff in Ed.
      assert (B : body_sound s).
      { destruct (skind s) eqn:K.
        - apply repeat_sound; auto.
        - apply negb_false_iff in Em. apply multiply_sound; auto.
        - apply jump_sound; auto.
        - apply interp_sound; auto.
        - apply interp_sound; auto. }
      destruct B as [body [toks [exp [Hf [Hrn [Hrd [Hm Hv]]]]]]].
      cbn [node_out lead_of] in No. rewrite Hf in No. inversion No; subst ps; clear No.
      pose proof (sc_diag_endpad _ H) as Hw.
      destruct (tail_reads body (sendpad s) is_last Hw Hrn) as [suffix [Hb Hs]].
      rewrite Hb. exists (body ++ suffix), toks, exp. split; [reflexivity|]. split; [|split; auto].
      apply Hrd. exact Hs.
Qed.

(* ------------------------------------------------------------------ whole lists *)
Definition nosh (nodes : list lnode) : Prop :=
  Forall (fun n => match n with NSc s => sshare s = false | NVal _ => True end) nodes.
Definition is_nil {A} (l : list A) : bool := match l with [] => true | _ => false end.

Fixpoint fmt_all (nodes : list lnode) : res (list piece) :=
  match nodes with
  | [] => Ok []
  | n :: r => match node_pieces n (is_nil r), fmt_all r with
              | Ok a, Ok b => Ok (a ++ b)
              | Err e, _ => Err e
              | _, Err e => Err e
              end
  end.
Fixpoint diag_all (nodes : list lnode) : list string :=
  match nodes with
  | [] => []
  | n :: r => node_diag n (is_nil r) :: diag_all r
  end.

Lemma lead_of_nosh : forall n prev, match n with NSc s => sshare s = false | NVal _ => True end ->
  lead_of n prev = None.
Proof. intros [l|s] [[l0|p]|] H; cbn; auto. rewrite H. reflexivity. Qed.

Lemma node_out_nosh : forall n prev is_last, match n with NSc s => sshare s = false | NVal _ => True end ->
  node_out n prev is_last = node_out n None is_last.
Proof.
  intros [l|s] prev is_last H; [reflexivity|]. unfold node_out. rewrite (lead_of_nosh (NSc s) prev H). reflexivity.
Qed.

Lemma format_nodes_nosh : forall nodes prev, nosh nodes -> format_nodes nodes prev = fmt_all nodes.
Proof.
  induction nodes as [|n r IH]; intros prev H; [reflexivity|].
  inversion H as [|n' r' Hn Hr]; subst. cbn [format_nodes fmt_all].
  rewrite (IH (Some n) Hr). unfold node_pieces. rewrite (node_out_nosh n prev _ Hn).
  destruct r; reflexivity.
Qed.

Lemma nodes_diag_nosh : forall nodes prev, nosh nodes -> nodes_diag nodes prev = diag_all nodes.
Proof.
  induction nodes as [|n r IH]; intros prev H; [reflexivity|].
  inversion H as [|n' r' Hn Hr]; subst. cbn [nodes_diag diag_all].
  rewrite (IH (Some n) Hr). f_equal. unfold node_diag.
  assert (E : forall il, node_diag_of n prev il = node_diag_of n None il).
  { intros il. destruct n as [l|s]; [reflexivity|]. unfold node_diag_of.
    rewrite (node_out_nosh (NSc s) prev il Hn). rewrite (lead_of_nosh (NSc s) prev Hn). reflexivity. }
  rewrite E. destruct r; reflexivity.
Qed.

Lemma fmt_all_sound : forall nodes, Forall (fun d => d = "") (diag_all nodes) ->
  exists ps toks out, fmt_all nodes = Ok ps /\
    (forall acc, piece_tokens_aux ps [] acc = acc ++ toks) /\
    (forall prev, spec_expand_aux prev toks = Some out) /\
    vlist_close out (map leaf_val (flatten nodes)) = true.
Proof.
  induction nodes as [|n r IH]; intros H.
  - exists [], [], []. repeat split; auto. intros acc. cbn. rewrite app_nil_r. reflexivity.
  - cbn [diag_all] in H. inversion H as [|d ds Hd Hds]; subst.
    destruct (IH Hds) as [ps2 [toks2 [out2 [Hf2 [Hr2 [Hs2 Hv2]]]]]].
    destruct (node_sound n (is_nil r) Hd) as [ps1 [toks1 [exp1 [Hf1 [Hr1 [Hm1 Hv1]]]]]].
    exists (ps1 ++ ps2), (toks1 ++ toks2), (exp1 ++ out2).
    split; [cbn [fmt_all]; rewrite Hf1, Hf2; reflexivity|]. split; [|split].
    + intros acc. rewrite Hr1.
      * rewrite Hr2. rewrite app_assoc. reflexivity.
      * intros E. destruct r; [|discriminate]. cbn in Hf2. inversion Hf2. reflexivity.
    + intros prev. destruct (Hm1 prev toks2) as [prev' Hp]. rewrite Hp, Hs2. reflexivity.
    + cbn [flatten flat_map]. rewrite map_app. apply vlist_close_app; auto.
Qed.

(* when every node is printed soundly, the text of the list reads back as the values of its nodes *)
Theorem format_sound : forall l, nosh (lnodes l) -> format_ok l = true ->
  exists ps out, format_list l = Ok ps /\ reexpand ps = Some out /\
                 vlist_close out (map leaf_val (flatten (lnodes l))) = true.
Proof.
  intros l Hn Hok. unfold format_ok in Hok. rewrite nodes_diag_nosh in Hok by exact Hn.
  assert (Hd : Forall (fun d => d = "") (diag_all (lnodes l))).
  { apply Forall_forall. intros d Hin. rewrite forallb_forall in Hok. apply String.eqb_eq. apply Hok; auto. }
  destruct (fmt_all_sound _ Hd) as [ps [toks [out [Hf [Hr [Hs Hv]]]]]].
  exists ps, out. split; [|split]; auto.
  - unfold format_list. rewrite format_nodes_nosh by exact Hn. exact Hf.
  - unfold reexpand, piece_tokens, spec_expand. rewrite Hr. cbn [app]. apply Hs.
Qed.

(* ================================================================== Part 3: update_with_new_values *)
Lemma find_put_same : forall s st, find_sc (sid s) (put_sc s st) = Some s.
Proof.
  intros s st; induction st as [|a r IH]; cbn.
  - rewrite Z.eqb_refl. reflexivity.
  - destruct (Z.eqb_spec (sid a) (sid s)) as [E|E]; cbn.
    + rewrite Z.eqb_refl. reflexivity.
    + destruct (Z.eqb_spec (sid a) (sid s)); [contradiction|]. exact IH.
Qed.

Lemma find_put_other : forall id s st, id <> sid s -> find_sc id (put_sc s st) = find_sc id st.
Proof.
  intros id s st H; induction st as [|a r IH]; cbn.
  - destruct (Z.eqb_spec (sid s) id); [congruence|reflexivity].
  - destruct (Z.eqb_spec (sid a) (sid s)) as [E|E]; cbn.
    + destruct (Z.eqb_spec (sid s) id); [congruence|].
      destruct (Z.eqb_spec (sid a) id); [congruence|]. reflexivity.
    + destruct (Z.eqb_spec (sid a) id); [reflexivity|]. exact IH.
Qed.

Lemma sc_inv_static : forall s s', static_eq s s' -> snodes s' = snodes s -> sc_inv s -> sc_inv s'.
Proof.
  intros s s' (_&Hk&_&_&_&_&_&_&_&Hsp) Hn I. unfold sc_inv in *. rewrite Hk, Hn, Hsp. exact I.
Qed.

Lemma sc_inv_empty : forall s, snodes s = [] -> sc_inv s.
Proof.
  intros s H. unfold sc_inv, all_jumps, all_vals. rewrite H.
  destruct (skind s); cbn; repeat split; try constructor; auto.
Qed.

(* the entries before the current position, most recent first, grouped by owner *)
Inductive seg := SFree (v : leaf) | SSc (id : Z) (ns : list leaf).
Definition seg_entries (g : seg) : list (entry * leaf) :=
  match g with
  | SFree v => [(EVal, v)]
  | SSc id ns => map (fun v => (ESc id, v)) (rev ns)
  end.
Definition done_of (segs : list seg) : list (entry * leaf) := flat_map seg_entries segs.
Definition seg_ids (segs : list seg) : list Z :=
  flat_map (fun g => match g with SSc id _ => [id] | SFree _ => [] end) segs.
Definition todo_ids (todo : list (entry * leaf)) : list Z :=
  flat_map (fun ev => match fst ev with ESc id => [id] | EVal => [] end) todo.
Definition sc_good (store : list sc) (id : Z) (ns : list leaf) : Prop :=
  exists s, find_sc id store = Some s /\ sid s = id /\ snodes s = ns /\ sshare s = false /\ sc_inv s.
Fixpoint free_prefix (n : nat) (segs : list seg) : Prop :=
  match n with
  | O => True
  | S m => match segs with SFree _ :: r => free_prefix m r | _ => False end
  end.

Lemma free_prefix_le : forall n m segs, free_prefix n segs -> (m <= n)%nat -> free_prefix m segs.
Proof.
  induction n as [|n IH]; intros m segs H Hm.
  - assert (m = 0)%nat by lia. subst. exact I.
  - destruct m; [exact I|]. cbn in *. destruct segs as [|[v|id ns] r]; try contradiction.
    apply IH; auto. lia.
Qed.

Lemma done_of_free : forall fr segs,
  done_of (map SFree fr ++ segs) = map (fun v => (EVal, v)) fr ++ done_of segs.
Proof. induction fr; intros; cbn; [reflexivity|]. f_equal. apply IHfr. Qed.

Lemma seg_ids_free : forall fr segs, seg_ids (map SFree fr ++ segs) = seg_ids segs.
Proof. induction fr; intros; cbn; auto. Qed.

Record Inv (vals : list leaf) (st : zstate) (todo : list (entry * leaf)) (segs : list seg) : Prop := {
  inv_done : zdone st = done_of segs;
  inv_vals : rev (map snd (zdone st)) ++ map snd todo = vals;
  inv_segs : forall id ns, In (SSc id ns) segs -> ns <> [] /\ sc_good (zstore st) id ns;
  inv_todo : forall id, In id (todo_ids todo) -> sc_good (zstore st) id [];
  inv_nodup : NoDup (seg_ids segs ++ todo_ids todo);
  inv_cur : forall id, zcur st = Some id -> exists ns r, segs = SSc id ns :: r;
  inv_free : zcur st = None -> free_prefix (List.length (zdone st) - 1 - zlast st) segs;
  inv_fresh : forall id, In id (seg_ids segs ++ todo_ids todo) -> (id < zfresh st)%Z
}.

(* try_reverse_expansion only takes free values that lie between the previous shortcut and this one *)
Lemma zrev_ok : forall b k s segs s'' done',
  free_prefix b segs -> sc_inv s ->
  zrev_expand b k s (done_of segs) = Ok (s'', done') ->
  exists fr segs', segs = map SFree fr ++ segs' /\ (List.length fr <= b)%nat /\
    static_eq s s'' /\ snodes s'' = rev fr ++ snodes s /\ sc_inv s'' /\
    done' = map (fun v => (ESc (sid s), v)) fr ++ done_of segs' /\
    free_prefix (b - List.length fr) segs'.
Proof.
  induction b as [|b IH]; intros k s segs s'' done' Hf Hi H.
  - cbn in H. inversion H; subst. exists [], segs. cbn. repeat split; auto.
  - cbn [free_prefix] in Hf. destruct segs as [|[v|id ns] r]; try contradiction.
    cbn [zrev_expand done_of flat_map seg_entries app] in H.
    destruct (consume s k v false false) as [[[|] s1]|e] eqn:C; [| |discriminate].
    + pose proof (consume_inv _ _ _ _ _ _ Hi C) as Hi1.
      apply consume_shape in C. destruct C as [Hs1 Hn1].
      fold (done_of r) in H.
      destruct (zrev_expand b (Nat.pred k) s1 (done_of r)) as [[s2 d2]|e] eqn:R; [|discriminate].
      inversion H; subst s'' done'; clear H.
      destruct (IH _ _ _ _ _ Hf Hi1 R) as [fr [segs' [Hsegs [Hlen [Hst [Hn2 [Hi2 [Hd2 Hfp]]]]]]]].
      exists (v :: fr), segs'. subst r. cbn [map app List.length].
      split; [reflexivity|]. split; [lia|]. split; [eapply static_eq_trans; eauto|].
      split; [rewrite Hn2, Hn1; cbn [rev]; rewrite <- app_assoc; reflexivity|].
      split; [exact Hi2|]. split; [|exact Hfp].
      destruct Hs1 as (Hid&_). rewrite Hd2, Hid. reflexivity.
    + apply consume_shape in C. destruct C as [Hs1 Hn1].
      inversion H; subst s'' done'; clear H.
      exists [], (SFree v :: r). cbn [map app List.length rev].
      split; [reflexivity|]. split; [lia|]. split; [exact Hs1|]. split; [exact Hn1|].
      split; [eapply sc_inv_static; eauto|]. split; [reflexivity|].
      rewrite Nat.sub_0_r. cbn [free_prefix]. exact Hf.
Qed.

Lemma zrev_snd : forall b k s done s'' done',
  zrev_expand b k s done = Ok (s'', done') -> map snd done' = map snd done.
Proof.
  induction b as [|b IH]; intros k s done s'' done' H; cbn in H.
  - inversion H; reflexivity.
  - destruct done as [|[e v] d]; [inversion H; reflexivity|].
    destruct (consume s k v false false) as [[[|] s1]|er]; [| |discriminate].
    + destruct (zrev_expand b (Nat.pred k) s1 d) as [[s2 d2]|er] eqn:R; [|discriminate].
      inversion H; subst. cbn. f_equal. eapply IH; eauto.
    + inversion H; subst. reflexivity.
Qed.

Lemma NoDup_mid : forall {A} (l l' : list A) a, NoDup (l ++ a :: l') -> NoDup (a :: l ++ l').
Proof. intros A l l' a H. apply NoDup_remove in H. destruct H. constructor; auto. Qed.

Lemma map_snd_pair : forall {A B} (e : A) (l : list B), map snd (map (fun v => (e, v)) l) = l.
Proof. induction l; cbn; congruence. Qed.

Lemma sc_good_put_other : forall store s id ns,
  sc_good store id ns -> id <> sid s -> sc_good (put_sc s store) id ns.
Proof.
  intros store s id ns [s0 [Hf H]] Hne. exists s0. rewrite find_put_other by exact Hne. auto.
Qed.

Lemma sc_good_put_same : forall store s ns,
  snodes s = ns -> sshare s = false -> sc_inv s -> sc_good (put_sc s store) (sid s) ns.
Proof. intros store s ns Hn Hs Hi. exists s. rewrite find_put_same. auto. Qed.

Lemma fresh_jump_consume : forall f i v, lval v = None ->
  consume (fresh_jump f) i v true false = Ok (true, set_nodes (fresh_jump f) [v]).
Proof. intros f i v H. unfold consume, can_consume. cbn. rewrite H. reflexivity. Qed.

Lemma zorphan_step : forall vals st0 v todo segs e' st1,
  zcur st0 = None ->
  zdone st0 = done_of segs ->
  rev (map snd (zdone st0)) ++ v :: map snd todo = vals ->
  (forall id ns, In (SSc id ns) segs -> ns <> [] /\ sc_good (zstore st0) id ns) ->
  (forall id, In id (todo_ids todo) -> sc_good (zstore st0) id []) ->
  NoDup (seg_ids segs ++ todo_ids todo) ->
  free_prefix (S (List.length (zdone st0)) - 1 - zlast st0) (SFree v :: segs) ->
  (forall id, In id (seg_ids segs ++ todo_ids todo) -> (id < zfresh st0)%Z) ->
  zorphan (List.length (zdone st0)) v EVal st0 = Ok (e', st1) ->
  exists segs', Inv vals (zpush e' v st1) todo segs'.
Proof.
  intros vals st0 v todo segs e' st1 Hcur Hdone Hvals Hsegs Htodo Hnd Hfree Hfresh H.
  unfold zorphan in H. rewrite Hcur in H.
  assert (Hv : rev (map snd ((e', v) :: zdone st0)) ++ map snd todo = vals).
  { cbn [map snd rev]. rewrite <- app_assoc. exact Hvals. }
  destruct (lval v) as [q|] eqn:Ev.
  - inversion H; subst e' st1; clear H.
    exists (SFree v :: segs). constructor; cbn [zpush zdone zstore zcur zlast zfresh].
    + rewrite Hdone. reflexivity.
    + exact Hv.
    + intros id ns [E|Hin]; [discriminate|]. auto.
    + exact Htodo.
    + exact Hnd.
    + rewrite Hcur. discriminate.
    + intros _. cbn [List.length]. exact Hfree.
    + exact Hfresh.
  - rewrite fresh_jump_consume in H by exact Ev.
    inversion H; subst e' st1; clear H.
    set (sf := set_nodes (fresh_jump (zfresh st0)) [v]).
    assert (Hsf : sid sf = zfresh st0) by reflexivity.
    assert (Hnew : forall id, In id (seg_ids segs ++ todo_ids todo) -> id <> sid sf).
    { intros id Hin. apply Hfresh in Hin. rewrite Hsf. lia. }
    exists (SSc (zfresh st0) [v] :: segs).
    constructor; cbn [zpush zdone zstore zcur zlast zfresh].
    + rewrite Hdone. reflexivity.
    + exact Hv.
    + intros id ns [E|Hin].
      * inversion E; subst id ns. split; [discriminate|].
        rewrite <- Hsf. apply sc_good_put_same; auto.
        unfold sc_inv. cbn. constructor; auto.
      * destruct (Hsegs _ _ Hin) as [Hne Hg]. split; auto.
        apply sc_good_put_other; auto. apply Hnew. apply in_or_app. left.
        unfold seg_ids. apply in_flat_map. exists (SSc id ns). split; auto. left; reflexivity.
    + intros id Hin. apply sc_good_put_other; auto. apply Hnew. apply in_or_app. right. exact Hin.
    + cbn [seg_ids flat_map app]. constructor; auto.
      intros Hin. apply Hfresh in Hin. lia.
    + intros id E. inversion E; subst. eauto.
    + discriminate.
    + intros id Hin. cbn [seg_ids flat_map app] in Hin. destruct Hin as [E|Hin].
      * subst id. lia.
      * apply Hfresh in Hin. lia.
Qed.

Lemma in_seg_ids : forall id ns segs, In (SSc id ns) segs -> In id (seg_ids segs).
Proof.
  intros id ns segs H. unfold seg_ids. apply in_flat_map. exists (SSc id ns). split; auto. left; reflexivity.
Qed.

Lemma NoDup_app_disj : forall {A} (l l' : list A) a, NoDup (l ++ l') -> In a l -> In a l' -> False.
Proof.
  intros A l; induction l as [|x l IH]; intros l' a H Hl Hl'; [contradiction|].
  cbn in H. inversion H; subst. destruct Hl as [E|Hl].
  - subst. apply H2. apply in_or_app. right; auto.
  - eapply IH; eauto.
Qed.

Lemma zstep_inv : forall vals st ev todo segs st',
  Inv vals st (ev :: todo) segs -> zstep st ev = Ok st' -> exists segs', Inv vals st' todo segs'.
Proof.
  intros vals st [e v] todo segs st' I H.
  destruct I as [Hdone Hvals Hsegs Htodo Hnd Hcur Hfree Hfresh].
  unfold zstep in H. set (i := List.length (zdone st)) in *.
  destruct e as [|id].
  - (* a value *)
    cbn [todo_ids flat_map fst app] in *. fold (todo_ids todo) in *.
    destruct (zcur st) as [id|] eqn:Ecur.
    + destruct (Hcur id eq_refl) as [ns [r Es]]. subst segs.
      destruct (Hsegs id ns (or_introl eq_refl)) as [Hne [s [Hf [Hid [Hn [Hsh Hi]]]]]].
      rewrite Hf in H.
      destruct (consume s i v true _) as [[[|] s1]|er] eqn:C; [| |discriminate].
      * (* the active shortcut takes the value *)
        inversion H; subst st'; clear H.
        pose proof (consume_inv _ _ _ _ _ _ Hi C) as Hi1.
        apply consume_shape in C. destruct C as [Hs1 Hn1].
        assert (Hid1 : sid s1 = id) by (destruct Hs1 as (E&_); congruence).
        assert (Hsh1 : sshare s1 = false) by (destruct Hs1 as (_&_&E&_); congruence).
        exists (SSc id (ns ++ [v]) :: r).
        constructor; cbn [zdone zstore zcur zlast zfresh].
        -- rewrite Hdone. cbn [done_of flat_map seg_entries]. rewrite rev_unit. reflexivity.
        -- cbn [map snd rev]. rewrite <- app_assoc. exact Hvals.
        -- intros id' ns' [E|Hin].
           ++ inversion E; subst id' ns'. split; [destruct ns; discriminate|].
              rewrite <- Hid1. apply sc_good_put_same; auto. rewrite Hn1, Hn. reflexivity.
           ++ destruct (Hsegs id' ns' (or_intror Hin)) as [Hne' Hg]. split; auto.
              apply sc_good_put_other; auto. rewrite Hid1.
              intros E. subst id'. cbn [seg_ids flat_map app] in Hnd. inversion Hnd as [|x l Hx Hl]; subst.
              apply Hx. apply in_or_app. left. eapply in_seg_ids; eauto.
        -- intros id' Hin. apply sc_good_put_other; auto. rewrite Hid1.
           intros E. subst id'. cbn [seg_ids flat_map app] in Hnd. inversion Hnd as [|x l Hx Hl]; subst.
           apply Hx. apply in_or_app. right. exact Hin.
        -- exact Hnd.
        -- intros id' E. inversion E; subst. eauto.
        -- discriminate.
        -- exact Hfresh.
      * (* it does not: it ends here *)
        apply consume_shape in C. destruct C as [Hs1 Hn1].
        assert (Hid1 : sid s1 = id) by (destruct Hs1 as (E&_); congruence).
        assert (Hsh1 : sshare s1 = false) by (destruct Hs1 as (_&_&E&_); congruence).
        destruct (zorphan i v EVal _) as [[e' st1]|er] eqn:O; [|discriminate].
        inversion H; subst st'; clear H.
        refine (zorphan_step vals (mkZ (zdone st) (put_sc s1 (zstore st)) None (Nat.pred i) (zfresh st)) v todo
                  (SSc id ns :: r) e' st1 _ _ _ _ _ _ _ _ O);
          cbn [zdone zstore zcur zlast zfresh]; auto.
        -- intros id' ns' Hin. destruct (Hsegs id' ns' Hin) as [Hne' Hg]. split; auto.
           destruct Hin as [E|Hin].
           ++ inversion E; subst id' ns'. rewrite <- Hid1. apply sc_good_put_same; auto.
              ** congruence.
              ** eapply sc_inv_static; eauto.
           ++ apply sc_good_put_other; auto. rewrite Hid1.
              intros E. subst id'. cbn [seg_ids flat_map app] in Hnd. inversion Hnd as [|x l Hx Hl]; subst.
              apply Hx. apply in_or_app. left. eapply in_seg_ids; eauto.
        -- intros id' Hin. apply sc_good_put_other; auto. rewrite Hid1.
           intros E. subst id'. cbn [seg_ids flat_map app] in Hnd. inversion Hnd as [|x l Hx Hl]; subst.
           apply Hx. apply in_or_app. right. exact Hin.
        -- fold i. apply (free_prefix_le 1); [exact I|lia].
    + (* no active shortcut *)
      destruct (zorphan i v EVal st) as [[e' st1]|er] eqn:O; [|discriminate].
      inversion H; subst st'; clear H.
      refine (zorphan_step vals st v todo segs e' st1 _ _ _ _ _ _ _ _ O); auto.
      fold i. specialize (Hfree eq_refl).
      apply (free_prefix_le (S (i - 1 - zlast st))); [exact Hfree|lia].
  - (* a shortcut bound to this position *)
    cbn [todo_ids flat_map fst app] in *. fold (todo_ids todo) in *.
    assert (Hidt : In id (id :: todo_ids todo)) by (left; reflexivity).
    destruct (Htodo id Hidt) as [s [Hf [Hid [Hn [Hsh Hi]]]]].
    rewrite Hf in H.
    set (le := match zcur st with Some _ => Nat.pred i | None => zlast st end) in *.
    assert (Hnot : ~ In id (seg_ids segs ++ todo_ids todo)).
    { apply NoDup_remove in Hnd. tauto. }
    assert (Hnd' : NoDup (seg_ids segs ++ todo_ids todo)).
    { apply NoDup_remove in Hnd. tauto. }
    destruct (consume s i v true _) as [[[|] s1]|er] eqn:C; [| |discriminate].
    + pose proof (consume_inv _ _ _ _ _ _ Hi C) as Hi1.
      apply consume_shape in C. destruct C as [Hs1 Hn1].
      rewrite Hn in Hn1. cbn [app] in Hn1.
      destruct (zrev_expand _ (Nat.pred i) s1 (zdone st)) as [[s2 d2]|er] eqn:R; [|discriminate].
      inversion H; subst st'; clear H.
      pose proof (zrev_snd _ _ _ _ _ _ R) as Hsnd.
      rewrite Hdone in R.
      assert (Hfp : free_prefix (if Nat.ltb 1 i then Nat.pred i - le else 0) segs).
      { destruct (Nat.ltb 1 i); [|exact I]. subst le. destruct (zcur st) eqn:Ec.
        - rewrite Nat.sub_diag. exact I.
        - apply (free_prefix_le (i - 1 - zlast st)); [apply Hfree; reflexivity|lia]. }
      destruct (zrev_ok _ _ _ _ _ _ Hfp Hi1 R) as [fr [segs' [Es [Hlen [Hs2 [Hn2 [Hi2 [Hd2 _]]]]]]]].
      assert (Hid2 : sid s2 = id).
      { destruct Hs1 as (E1&_). destruct Hs2 as (E2&_). congruence. }
      assert (Hid1 : sid s1 = id) by (destruct Hs1 as (E1&_); congruence).
      assert (Hsh2 : sshare s2 = false).
      { destruct Hs1 as (_&_&E1&_). destruct Hs2 as (_&_&E2&_). congruence. }
      exists (SSc id (rev fr ++ [v]) :: segs').
      assert (Hids : seg_ids segs = seg_ids segs') by (rewrite Es; apply seg_ids_free).
      constructor; cbn [zdone zstore zcur zlast zfresh].
      * rewrite Hd2, Hid1. cbn [done_of flat_map seg_entries].
        rewrite rev_app_distr, rev_involutive. reflexivity.
      * cbn [map snd]. rewrite Hsnd. cbn [rev]. rewrite <- app_assoc. exact Hvals.
      * intros id' ns' [E|Hin].
        -- inversion E; subst id' ns'. split; [destruct (rev fr); discriminate|].
           rewrite <- Hid2. apply sc_good_put_same; auto. rewrite Hn2, Hn1. reflexivity.
        -- assert (Hin' : In (SSc id' ns') segs) by (rewrite Es; apply in_or_app; right; exact Hin).
           destruct (Hsegs id' ns' Hin') as [Hne' Hg]. split; auto.
           apply sc_good_put_other; auto. rewrite Hid2. intros E. subst id'.
           apply Hnot. apply in_or_app. left. eapply in_seg_ids; eauto.
      * intros id' Hin. apply sc_good_put_other; [apply Htodo; right; exact Hin|].
        rewrite Hid2. intros E. subst id'. apply Hnot. apply in_or_app. right. exact Hin.
      * cbn [seg_ids flat_map app]. fold (seg_ids segs'). rewrite <- Hids. apply NoDup_mid. exact Hnd.
      * intros id' E. inversion E; subst. eauto.
      * discriminate.
      * intros id' Hin. apply Hfresh. cbn [seg_ids flat_map app] in Hin. fold (seg_ids segs') in Hin.
        rewrite <- Hids in Hin. destruct Hin as [E|Hin].
        -- subst id'. apply in_or_app. right. left. reflexivity.
        -- apply in_app_or in Hin. apply in_or_app. destruct Hin; [left|right; right]; auto.
    + (* the shortcut cannot even take the value it was bound to: it dissolves (a jump there is collected) *)
      apply consume_shape in C. destruct C as [Hs1 Hn1].
      assert (Hid1 : sid s1 = id) by (destruct Hs1 as (E1&_); congruence).
      destruct (zorphan i v EVal _) as [[e' st1]|er] eqn:O; [|discriminate].
      inversion H; subst st'; clear H.
      refine (zorphan_step vals (mkZ (zdone st) (put_sc s1 (zstore st)) None le (zfresh st)) v todo
                segs e' st1 _ _ _ _ _ _ _ _ O);
        cbn [zdone zstore zcur zlast zfresh]; auto.
      * intros id' ns' Hin.
        destruct (Hsegs id' ns' Hin) as [Hne' Hg]. split; auto.
        apply sc_good_put_other; auto. rewrite Hid1. intros E. subst id'.
        apply Hnot. apply in_or_app. left. eapply in_seg_ids; eauto.
      * intros id' Hin. apply sc_good_put_other; [apply Htodo; right; exact Hin|].
        rewrite Hid1. intros E. subst id'. apply Hnot. apply in_or_app. right. exact Hin.
      * fold i. subst le. destruct (zcur st) eqn:Ec.
        -- apply (free_prefix_le 1); [exact I|lia].
        -- apply (free_prefix_le (S (i - 1 - zlast st))); [apply Hfree; reflexivity|lia].
      * intros id' Hin. apply Hfresh. apply in_app_or in Hin. apply in_or_app.
        destruct Hin; [left|right; right]; auto.
Qed.

Lemma zloop_inv : forall vals todo st segs st',
  Inv vals st todo segs -> zloop todo st = Ok st' -> exists segs', Inv vals st' [] segs'.
Proof.
  intros vals todo; induction todo as [|ev todo IH]; intros st segs st' I H; cbn in H.
  - inversion H; subst. eauto.
  - destruct (zstep st ev) as [st1|e] eqn:S; [|discriminate].
    destruct (zstep_inv _ _ _ _ _ _ I S) as [segs1 I1]. eapply IH; eauto.
Qed.

(* --- binding the shortcuts to their sites *)
Definition cache_ids (c : list entry) : list Z :=
  flat_map (fun e => match e with ESc id => [id] | EVal => [] end) c.

Lemma set_nth_length : forall {A} p (x : A) l, List.length (set_nth p x l) = List.length l.
Proof. induction p; intros x [|a l]; cbn; auto. Qed.

Lemma cache_ids_set_in : forall c p j id,
  In id (cache_ids (set_nth p (ESc j) c)) -> id = j \/ In id (cache_ids c).
Proof.
  induction c as [|a c IH]; intros p j id H; [destruct p; contradiction|].
  destruct p; cbn [set_nth cache_ids flat_map] in *.
  - cbn in H. destruct H as [E|H]; [left; auto|right]. apply in_or_app. right. exact H.
  - apply in_app_or in H. destruct H as [H|H].
    + right. apply in_or_app. left. exact H.
    + destruct (IH _ _ _ H) as [E|H']; [left; auto|right]. apply in_or_app. right. exact H'.
Qed.

Lemma NoDup_app_r : forall {A} (l l' : list A), NoDup (l ++ l') -> NoDup l'.
Proof. induction l; cbn; intros l' H; auto. inversion H; subst; auto. Qed.

Lemma cache_ids_set_nodup : forall c p j,
  NoDup (cache_ids c) -> ~ In j (cache_ids c) -> NoDup (cache_ids (set_nth p (ESc j) c)).
Proof.
  induction c as [|a c IH]; intros p j Hn Hj; [destruct p; constructor|].
  destruct p; cbn [set_nth cache_ids flat_map] in *.
  - cbn. constructor.
    + intros H. apply Hj. apply in_or_app. right. exact H.
    + eapply NoDup_app_r; eauto.
  - destruct a as [|i]; cbn [app] in *.
    + apply IH; auto.
    + inversion Hn as [|x l Hx Hl]; subst. constructor.
      * intros H. apply cache_ids_set_in in H. destruct H as [E|H]; [|contradiction].
        subst. apply Hj. left; reflexivity.
      * apply IH; auto. intros H. apply Hj. right. exact H.
Qed.

Lemma bind_ok : forall shorts vals cache store cache' store',
  bind shorts vals cache store = (cache', store') ->
  NoDup (map sid shorts) ->
  (forall id, In id (cache_ids cache) -> ~ In id (map sid shorts)) ->
  NoDup (cache_ids cache) ->
  (forall id, In id (cache_ids cache) -> sc_good store id []) ->
  List.length cache' = List.length cache /\ NoDup (cache_ids cache') /\
  (forall id, In id (cache_ids cache') ->
     sc_good store' id [] /\ (In id (cache_ids cache) \/ In id (map sid shorts))).
Proof.
  induction shorts as [|s r IH]; intros vals cache store cache' store' H Hnd Hdis Hc Hg; cbn [bind] in H.
  - inversion H; subst. split; [reflexivity|]. split; [exact Hc|]. intros id Hin. split; auto.
  - cbn [map] in Hnd. inversion Hnd as [|x l Hs Hr]; subst.
    destruct (first_bound (snodes s) vals) as [p|].
    + set (sc0 := set_share (set_nodes s []) false) in *.
      assert (Hsid : sid sc0 = sid s) by reflexivity.
      assert (Hnew : ~ In (sid s) (cache_ids cache)).
      { intros Hin. apply (Hdis _ Hin). left; reflexivity. }
      destruct (IH vals _ _ _ _ H Hr) as [Hlen [Hnd' Hg']].
      * intros id Hin Hin'. apply cache_ids_set_in in Hin. destruct Hin as [E|Hin].
        -- subst. contradiction.
        -- apply (Hdis _ Hin). right; exact Hin'.
      * apply cache_ids_set_nodup; auto.
      * intros id Hin. apply cache_ids_set_in in Hin. destruct Hin as [E|Hin].
        -- subst id. rewrite <- Hsid. apply sc_good_put_same; auto. apply sc_inv_empty. reflexivity.
        -- apply sc_good_put_other; auto. rewrite Hsid. intros E. subst. contradiction.
      * split; [rewrite Hlen; apply set_nth_length|]. split; [exact Hnd'|].
        intros id Hin. destruct (Hg' id Hin) as [G [Hi|Hi]]; split; auto.
        -- apply cache_ids_set_in in Hi. destruct Hi as [E|Hi]; [right; left; auto|left; auto].
        -- right; right; exact Hi.
    + destruct (IH vals _ _ _ _ H Hr) as [Hlen [Hnd' Hg']]; auto.
      * intros id Hin Hin'. apply (Hdis _ Hin). right; exact Hin'.
      * intros id Hin. apply sc_good_put_other; auto. intros E. subst. apply (Hdis _ Hin). left; reflexivity.
      * split; [exact Hlen|]. split; [exact Hnd'|].
        intros id Hin. destruct (Hg' id Hin) as [G [Hi|Hi]]; split; auto. right; right; exact Hi.
Qed.

Lemma todo_ids_combine : forall c (vals : list leaf), List.length c = List.length vals ->
  todo_ids (combine c vals) = cache_ids c.
Proof.
  induction c as [|e c IH]; intros [|v vals] H; cbn in *; try discriminate; auto.
  rewrite IH by lia. reflexivity.
Qed.

Lemma map_snd_combine : forall {A B} (a : list A) (b : list B), List.length a = List.length b ->
  map snd (combine a b) = b.
Proof. induction a; intros [|y b] H; cbn in *; try discriminate; auto. f_equal. apply IHa. lia. Qed.

(* --- rebuilding the node list *)
Definition fwd_entries (g : seg) : list (entry * leaf) :=
  match g with SFree v => [(EVal, v)] | SSc id ns => map (fun v => (ESc id, v)) ns end.
Definition seg_leaves (g : seg) : list leaf := match g with SFree v => [v] | SSc _ ns => ns end.

Lemma rev_done_of : forall segs, rev (done_of segs) = flat_map fwd_entries (rev segs).
Proof.
  induction segs as [|g r IH]; [reflexivity|].
  cbn [done_of flat_map rev]. fold (done_of r). rewrite rev_app_distr, IH, flat_map_app.
  cbn [flat_map]. rewrite app_nil_r. f_equal.
  destruct g as [v|id ns]; cbn; [reflexivity|]. rewrite <- map_rev, rev_involutive. reflexivity.
Qed.

Lemma seg_ids_rev_in : forall segs id, In id (seg_ids (rev segs)) <-> In id (seg_ids segs).
Proof.
  intros segs id. unfold seg_ids. rewrite !in_flat_map. split; intros [g [H1 H2]]; exists g; split; auto.
  - apply in_rev; auto.
  - apply -> in_rev; auto.
Qed.

Lemma NoDup_snoc : forall {A} (l : list A) a, NoDup l -> ~ In a l -> NoDup (l ++ [a]).
Proof.
  induction l as [|x l IH]; intros a Hn Ha; cbn.
  - constructor; auto.
  - inversion Hn; subst. constructor.
    + intros H. apply in_app_or in H. destruct H as [H|[H|[]]]; [contradiction|].
      subst. apply Ha. left; reflexivity.
    + apply IH; auto. intros H. apply Ha. right; exact H.
Qed.

Lemma seg_ids_rev_nodup : forall segs, NoDup (seg_ids segs) -> NoDup (seg_ids (rev segs)).
Proof.
  induction segs as [|g r IH]; intros H; [constructor|].
  cbn [rev]. unfold seg_ids in *. rewrite flat_map_app. cbn [flat_map] in *. rewrite app_nil_r.
  destruct g as [v|id ns]; cbn [app] in *.
  - rewrite app_nil_r. auto.
  - inversion H as [|x l Hx Hl]; subst. apply NoDup_snoc; auto.
    intros Hin. apply Hx. apply (proj1 (seg_ids_rev_in r id)). exact Hin.
Qed.

Lemma collect_skip : forall id l rest store,
  collect (map (fun v => (ESc id, v)) l ++ rest) store (Some id) = collect rest store (Some id).
Proof.
  induction l as [|v l IH]; intros; cbn [map app collect]; [reflexivity|].
  rewrite Z.eqb_refl. apply IH.
Qed.

Definition good_node (n : lnode) : Prop :=
  match n with NSc s => sshare s = false /\ sc_inv s /\ snodes s <> [] | NVal _ => True end.

(* what a leaf is, apart from its formatting flags *)
Definition bare (l : leaf) : Z * option Q := (lid l, lval l).
Lemma bare_unpin : forall l, bare (unpin l) = bare l.
Proof. intros l. unfold unpin, bare. destruct (lpad l); reflexivity. Qed.

Lemma collect_fsegs : forall fsegs store lastsc,
  NoDup (seg_ids fsegs) ->
  (forall id, lastsc = Some id -> ~ In id (seg_ids fsegs)) ->
  (forall id ns, In (SSc id ns) fsegs -> ns <> [] /\ sc_good store id ns) ->
  exists nodes scs, collect (flat_map fwd_entries fsegs) store lastsc = (nodes, scs) /\
    Forall2 (fun g n => map bare (lnode_leaves n) = map bare (seg_leaves g) /\ good_node n) fsegs nodes.
Proof.
  induction fsegs as [|g r IH]; intros store lastsc Hnd Hl Hg.
  - exists [], []. split; [reflexivity|constructor].
  - destruct g as [v|id ns].
    + cbn [seg_ids flat_map app] in *. fold (seg_ids r) in *.
      destruct (IH store lastsc Hnd Hl) as [nodes [scs [Hc Hf]]].
      { intros id ns Hin. apply Hg. right; exact Hin. }
      exists (NVal (unpin v) :: nodes), scs. cbn [flat_map fwd_entries app collect].
      fold (flat_map fwd_entries r). rewrite Hc. split; [reflexivity|].
      constructor; [split; [cbn; rewrite bare_unpin; reflexivity|exact I]|exact Hf].
    + cbn [seg_ids flat_map app] in *. fold (seg_ids r) in *.
      inversion Hnd as [|x l Hx Hnd']; subst.
      destruct (Hg id ns (or_introl eq_refl)) as [Hne [s [Hfind [Hid [Hn [Hsh Hi]]]]]].
      destruct (IH store (Some id) Hnd') as [nodes [scs [Hc Hf]]].
      { intros id' E. inversion E; subst. exact Hx. }
      { intros id' ns' Hin. apply Hg. right; exact Hin. }
      exists (NSc s :: nodes), (s :: scs).
      cbn [flat_map fwd_entries]. fold (flat_map fwd_entries r).
      destruct ns as [|n0 ns']; [contradiction|].
      cbn [map app collect].
      assert (Hsame : match lastsc with Some l => Z.eqb l id | None => false end = false).
      { destruct lastsc as [l|]; [|reflexivity]. apply Z.eqb_neq. intros E.
        apply (Hl l eq_refl). left. symmetry. exact E. }
      rewrite Hsame, Hfind, collect_skip, Hc. split; [reflexivity|].
      constructor; [|exact Hf]. split; [cbn [lnode_leaves seg_leaves]; rewrite Hn; reflexivity|]. cbn [good_node]. rewrite Hn.
      split; [exact Hsh|]. split; [exact Hi|discriminate].
Qed.

Lemma map_snd_fwd : forall fsegs, map snd (flat_map fwd_entries fsegs) = flat_map seg_leaves fsegs.
Proof.
  induction fsegs as [|g r IH]; [reflexivity|]. cbn [flat_map]. rewrite map_app, IH. f_equal.
  destruct g; cbn; [reflexivity|]. apply map_snd_pair.
Qed.

Lemma flatten_Forall2 : forall fsegs nodes,
  Forall2 (fun g n => map bare (lnode_leaves n) = map bare (seg_leaves g) /\ good_node n) fsegs nodes ->
  map bare (flatten nodes) = map bare (flat_map seg_leaves fsegs) /\ Forall good_node nodes.
Proof.
  intros fsegs nodes H; induction H as [|g n fs ns [H1 H2] Hf [IH1 IH2]]; [split; [reflexivity|constructor]|].
  split; [|constructor; auto]. cbn [flatten flat_map]. fold (flatten ns). rewrite !map_app, H1, IH1. reflexivity.
Qed.

Lemma good_nosh : forall nodes, Forall good_node nodes -> nosh nodes.
Proof.
  intros nodes H. unfold nosh. eapply Forall_impl; [|exact H].
  intros [l|s]; cbn; tauto.
Qed.

Lemma flatten_app : forall a b, flatten (a ++ b) = flatten a ++ flatten b.
Proof. intros. unfold flatten. apply flat_map_app. Qed.

Lemma cache_ids_blank : forall (vals : list leaf), cache_ids (map (fun _ : leaf => EVal) vals) = [].
Proof. induction vals; cbn; auto. Qed.

Lemma update_nonempty : forall shorts vals f0, vals <> [] ->
  update shorts vals f0 =
  (let (cache0, store0) := bind shorts vals (map (fun _ => EVal) vals) [] in
   match zloop (combine cache0 vals) (mkZ [] store0 None 0 f0) with
   | Err e => Err e
   | Ok st =>
       let (ns, ss) := collect (rev (zdone st)) (zstore st) None in
       match rev ns with
       | last :: _ =>
           if is_orphan_jump last then Ok (mkList (removelast ns) (removelast ss))
           else Ok (mkList ns ss)
       | [] => Ok (mkList ns ss)
       end
   end).
Proof. intros shorts [|v vals] f0 H; [contradiction|reflexivity]. Qed.

(* update_with_new_values covers the new values, one node per position; the only values it leaves out are
   jumps at the very end (a jump "the user left off") *)
Theorem update_partition : forall shorts vals f0 l,
  NoDup (map sid shorts) -> (forall s, In s shorts -> (sid s < f0)%Z) ->
  update shorts vals f0 = Ok l ->
  Forall good_node (lnodes l) /\
  exists tl, map bare vals = map bare (flatten (lnodes l) ++ tl) /\ Forall (fun x => lval x = None) tl.
Proof.
  intros shorts vals f0 l Hnd Hlt H.
  destruct (list_eq_dec (fun a b : unit => left (match a, b with tt, tt => eq_refl end)) (map (fun _ => tt) vals) [])
    as [Ev|Ev].
  { destruct vals; [|discriminate]. cbn in H. inversion H; subst. cbn. split; [constructor|].
    exists []. split; [reflexivity|constructor]. }
  rewrite update_nonempty in H by (intros E; subst; apply Ev; reflexivity). clear Ev.
  destruct (bind shorts vals (map (fun _ => EVal) vals) []) as [cache0 store0] eqn:B.
  pose proof (cache_ids_blank vals) as Hc0.
  destruct (bind_ok _ _ _ _ _ _ B Hnd) as [Hlen [Hndc Hgc]].
  { rewrite Hc0. intros id []. }
  { rewrite Hc0. constructor. }
  { rewrite Hc0. intros id []. }
  rewrite map_length in Hlen.
  destruct (zloop (combine cache0 vals) (mkZ [] store0 None 0 f0)) as [st|e] eqn:L; [|discriminate].
  assert (I0 : Inv vals (mkZ [] store0 None 0 f0) (combine cache0 vals) []).
  { constructor; cbn [zdone zstore zcur zlast zfresh seg_ids flat_map app].
    - reflexivity.
    - cbn. apply map_snd_combine. exact Hlen.
    - intros id ns [].
    - intros id Hin. rewrite todo_ids_combine in Hin by exact Hlen. apply Hgc. exact Hin.
    - rewrite todo_ids_combine by exact Hlen. exact Hndc.
    - discriminate.
    - intros _. exact I.
    - intros id Hin. rewrite todo_ids_combine in Hin by exact Hlen.
      destruct (Hgc id Hin) as [_ [Hi|Hi]]; [rewrite Hc0 in Hi; contradiction|].
      apply in_map_iff in Hi. destruct Hi as [s [E Hs]]. subst. auto. }
  destruct (zloop_inv _ _ _ _ _ I0 L) as [segs I1].
  destruct I1 as [Hdone Hvals Hsegs _ Hndup _ _ _].
  rewrite Hdone, rev_done_of in H.
  destruct (collect_fsegs (rev segs) (zstore st) None) as [nodes [scs [Hc Hf]]].
  { cbn [todo_ids flat_map] in Hndup. rewrite app_nil_r in Hndup. apply seg_ids_rev_nodup. exact Hndup. }
  { discriminate. }
  { intros id ns Hin. apply Hsegs. apply in_rev. exact Hin. }
  rewrite Hc in H.
  destruct (flatten_Forall2 _ _ Hf) as [Hfl Hgood].
  assert (Hall : map bare (flatten nodes) = map bare vals).
  { rewrite Hfl, <- map_snd_fwd, <- rev_done_of, <- Hdone, map_rev.
    cbn [map] in Hvals. rewrite app_nil_r in Hvals. rewrite Hvals. reflexivity. }
  destruct (rev nodes) as [|last rn] eqn:Er.
  - inversion H; subst l. cbn [lnodes]. split; [exact Hgood|].
    exists []. rewrite app_nil_r. split; [symmetry; exact Hall|constructor].
  - apply rev_eq_cons in Er.
    destruct (is_orphan_jump last) eqn:Eo; inversion H; subst l; clear H; cbn [lnodes].
    + rewrite Er. rewrite removelast_last. rewrite Er in Hgood, Hall.
      apply Forall_app in Hgood. destruct Hgood as [Hg1 Hg2]. split; [exact Hg1|].
      exists (lnode_leaves last). rewrite flatten_app in Hall. cbn [flatten flat_map] in Hall.
      rewrite app_nil_r in Hall. split; [symmetry; exact Hall|].
      destruct last as [x|s]; [discriminate|]. cbn [is_orphan_jump] in Eo.
      inversion Hg2 as [|n ns Hgs _]; subst. destruct Hgs as [_ [Hi _]].
      unfold sc_inv in Hi. destruct (skind s); try discriminate. exact Hi.
    + split; [exact Hgood|]. exists []. rewrite app_nil_r. split; [symmetry; exact Hall|constructor].
Qed.

(* ================================================================== Part 5: the re-compressor *)
Lemma vclose_jump_iff : forall x y, vclose x y = true -> (x = VJ <-> y = VJ).
Proof. intros [q| |a b n j] [q'| |a' b' n' j'] H; cbn in H; try discriminate; split; intros E; auto; discriminate. Qed.

Lemma strip_nil_iff : forall a b, vlist_close a b = true ->
  (strip_trailing_jumps a = [] <-> strip_trailing_jumps b = []) /\
  vlist_close (strip_trailing_jumps a) (strip_trailing_jumps b) = true.
Proof.
  induction a as [|x a IH]; intros [|y b] H; cbn [vlist_close] in H; try discriminate.
  - cbn. tauto.
  - apply andb_true_iff in H. destruct H as [Hx Hr].
    destruct (IH b Hr) as [Hn Hc]. pose proof (vclose_jump_iff x y Hx) as Hj.
    cbn [strip_trailing_jumps].
    destruct (strip_trailing_jumps a) as [|a0 ar] eqn:Ea; destruct (strip_trailing_jumps b) as [|b0 br] eqn:Eb.
    + destruct x, y; cbn in Hx; try discriminate; cbn; try rewrite Hx; try tauto;
        split; try tauto; split; intros; discriminate.
    + exfalso. destruct Hn as [Hn _]. specialize (Hn eq_refl). discriminate.
    + exfalso. destruct Hn as [_ Hn]. specialize (Hn eq_refl). discriminate.
    + assert (E1 : match x with VJ => x :: a0 :: ar | _ => x :: a0 :: ar end = x :: a0 :: ar) by (destruct x; reflexivity).
      assert (E2 : match y with VJ => y :: b0 :: br | _ => y :: b0 :: br end = y :: b0 :: br) by (destruct y; reflexivity).
      destruct x, y; cbn in Hx; try discriminate; cbn [vlist_close]; (split; [split; intros; discriminate|]);
        cbn [vclose]; try rewrite Hx; cbn; exact Hc.
Qed.

Lemma strip_app_jumps : forall a tl, Forall (fun v => v = VJ) tl ->
  strip_trailing_jumps (a ++ tl) = strip_trailing_jumps a.
Proof.
  induction a as [|x a IH]; intros tl H.
  - cbn [app]. induction H as [|v tl Hv Ht IHt]; [reflexivity|]. subst v. cbn. rewrite IHt. reflexivity.
  - cbn [app strip_trailing_jumps]. rewrite IH by exact H. reflexivity.
Qed.

(* the written list expands to exactly the new values, one per position, jumps staying jumps (jumps at the very end
   may be left off) - whenever every node of the rebuilt list is printed soundly *)
Lemma leaf_val_bare : forall a b, map bare a = map bare b -> map leaf_val a = map leaf_val b.
Proof.
  induction a as [|x a IH]; intros [|y b] H; cbn in H; try discriminate; [reflexivity|].
  inversion H as [[H1 H2 H3]]. cbn [map]. f_equal; [|apply IH; exact H3]. unfold leaf_val. rewrite H2. reflexivity.
Qed.

Theorem recompress_partial : forall shorts vals f0 l,
  NoDup (map sid shorts) -> (forall s, In s shorts -> (sid s < f0)%Z) ->
  update shorts vals f0 = Ok l -> format_ok l = true ->
  recompress_ok shorts vals f0 = true.
Proof.
  intros shorts vals f0 l Hnd Hlt Hu Hok.
  destruct (update_partition _ _ _ _ Hnd Hlt Hu) as [Hgood [tl [Hv Htl]]].
  destruct (format_sound l (good_nosh _ Hgood) Hok) as [ps [out [Hf [Hr Hc]]]].
  unfold recompress_ok. rewrite Hu, Hf, Hr.
  rewrite (leaf_val_bare _ _ Hv), map_app.
  rewrite strip_app_jumps.
  - apply strip_nil_iff. exact Hc.
  - apply Forall_map. eapply Forall_impl; [|exact Htl]. intros a Ha. unfold leaf_val. rewrite Ha. reflexivity.
Qed.

(* ------------------------------------------------------------------ per kind, as read by the parser *)
Lemma read_R : forall q n,
  parse_list [TNum q; TRep n] = POk [PSc KR (VQ q :: repeat (VQ q) (cnt n)) false].
Proof. reflexivity. Qed.
Lemma read_J : forall n, parse_list [TJmp n] = POk [PSc KJ (repeat VJ (cnt n)) false].
Proof. reflexivity. Qed.
Lemma read_M : forall q x, parse_list [TNum q; TMul x] = POk [PSc KM [VQ q; VQ (q * x)] false].
Proof. reflexivity. Qed.
Lemma read_I : forall a b n,
  parse_list [TNum a; TInt n; TNum b] = POk [PSc KI (VQ a :: expand_interpolate a b (cnt n) ++ [VQ b]) false].
Proof. reflexivity. Qed.
Lemma read_L : forall a b n, qzero b = false -> qpos a && qpos b = true ->
  parse_list [TNum a; TLog n; TNum b] = POk [PSc KL (VQ a :: log_steps a b (cnt n) 1 (cnt n) ++ [VQ b]) false].
Proof.
  intros a b n H Hp. unfold parse_list. cbn [parse_aux app]. rewrite H.
  unfold attach, last_of. cbn [rev app]. rewrite Hp. rewrite expand_log_spec. reflexivity.
Qed.
(* a shortcut chained onto another one starts from the other one's last value *)

Lemma read_chain : forall q n m,
  parse_list [TNum q; TRep n; TRep m]
  = POk [PSc KR (VQ q :: repeat (VQ q) (cnt n)) false; PSc KR (repeat (VQ q) (cnt m)) true].
Proof.
  intros q n m. unfold parse_list, attach, last_of, expand_repeat, drop_last. cbn [parse_aux app rev removelast].
  unfold attach, last_of, expand_repeat, drop_last. cbn [app rev removelast].
  unfold chain_vals. cbn [rev app firstn flat_map pnode_vals]. rewrite app_nil_r. cbn [rev].
  rewrite rev_repeat', <- repeat_cons. reflexivity.
Qed.
