(* SpecSemProofs.v — proofs about Spec/Geometry.v (S11) and Spec/Shortcuts.v (S10).

   A  Geometry: the parser is sound for the relational grammar; the grammar is unambiguous (every token list has at
      most one region: through completeness of the parser with enough fuel); [same_regionb] decides [same_region].
   B  Geometry against the reference grammar of the C02 model (Model/Geom.v: GD / GDenotes, itself a transcription
      of the MCNP manual and independent of MontePy's trees): every derivation there is a derivation here.
   C  Shortcuts against the reference expansion of the C08 model (Model/Shortcut.v: spec_expand): the same function
      on classified tokens.                                                                                  *)
From Coq Require Import List String Ascii ZArith QArith Bool Lia.
From MPV Require Import Spec.Geometry.
From MPV Require Spec.Shortcuts Model.Geom Proofs.GeomProofs Model.Shortcut.
Import ListNotations.
Close Scope Q_scope.
Open Scope list_scope.
Open Scope nat_scope.

(* ================================================================== A  the parser and the grammar *)
Definition parse_spec (m : mode) (ts : list token) (e : region) (rest : list token) : Prop :=
  match m with
  | MFactor => exists pre, ts = pre ++ rest /\ Denotes Factor pre e
  | MTerm => exists pre, ts = pre ++ rest /\ Denotes Term pre e
  | MTermMore a => forall pre0, Denotes Term pre0 a ->
      exists pre, ts = pre ++ rest /\ Denotes Term (pre0 ++ pre) e
  | MExpression => exists pre, ts = pre ++ rest /\ Denotes Expression pre e
  | MExpressionMore a => forall pre0, Denotes Expression pre0 a ->
      exists pre, ts = pre ++ rest /\ Denotes Expression (pre0 ++ pre) e
  end.

Lemma parse_with_sound : forall fuel m ts e rest,
  parse_with fuel m ts = Some (e, rest) -> parse_spec m ts e rest.
Proof.
  induction fuel; intros m ts e rest H; [discriminate|].
  destruct m; simpl in H.
  - (* MExpression *)
    destruct (parse_with fuel MTerm ts) as [[a r]|] eqn:E1; [|discriminate].
    apply IHfuel in E1. destruct E1 as (pre1 & -> & D1).
    apply IHfuel in H. simpl in H.
    destruct (H pre1 (D_term _ _ D1)) as (pre2 & -> & D2).
    exists (pre1 ++ pre2). split; [apply app_assoc | exact D2].
  - (* MExpressionMore *)
    intros pre0 D0.
    destruct ts as [|[] r]; simpl in H;
      try (inversion H; subst; exists []; rewrite !app_nil_r; split; [reflexivity|exact D0]).
    destruct (parse_with fuel MTerm r) as [[b r']|] eqn:E1; [|discriminate].
    apply IHfuel in E1. destruct E1 as (pre1 & -> & D1).
    apply IHfuel in H. simpl in H.
    destruct (H (pre0 ++ TColon :: pre1) (D_or _ _ _ _ D0 D1)) as (pre2 & -> & D2).
    exists (TColon :: pre1 ++ pre2). split; [simpl; rewrite <- app_assoc; reflexivity|].
    replace (pre0 ++ TColon :: pre1 ++ pre2) with ((pre0 ++ TColon :: pre1) ++ pre2)
      by (rewrite <- app_assoc; reflexivity).
    exact D2.
  - (* MTerm *)
    destruct (parse_with fuel MFactor ts) as [[a r]|] eqn:E1; [|discriminate].
    apply IHfuel in E1. destruct E1 as (pre1 & -> & D1).
    apply IHfuel in H. simpl in H.
    destruct (H pre1 (D_factor _ _ D1)) as (pre2 & -> & D2).
    exists (pre1 ++ pre2). split; [apply app_assoc | exact D2].
  - (* MTermMore *)
    intros pre0 D0.
    assert (Hstep : forall ts, match parse_with fuel MFactor ts with
                           | Some (b, r) => parse_with fuel (MTermMore (And a b)) r
                           | None => None end = Some (e, rest) ->
              exists pre, ts = pre ++ rest /\ Denotes Term (pre0 ++ pre) e).
    { intros ts' H'.
      destruct (parse_with fuel MFactor ts') as [[b r]|] eqn:E1; [|discriminate].
      apply IHfuel in E1. destruct E1 as (pre1 & -> & D1).
      apply IHfuel in H'. simpl in H'.
      destruct (H' (pre0 ++ pre1) (D_and _ _ _ _ D0 D1)) as (pre2 & -> & D2).
      exists (pre1 ++ pre2). split; [apply app_assoc|]. rewrite app_assoc. exact D2. }
    destruct ts as [|[] r]; simpl in H;
      try (inversion H; subst; exists []; rewrite !app_nil_r; split; [reflexivity|exact D0]);
      apply Hstep; exact H.
  - (* MFactor *)
    destruct ts as [|[] r]; try discriminate.
    + inversion H; subst. exists [TNumber s n]. split; [reflexivity | apply D_side].
    + destruct r as [|[] r]; try discriminate.
      * destruct s; try discriminate. inversion H; subst.
        exists [THash; TNumber NoSign n]. split; [reflexivity | apply D_not_cell].
      * destruct (parse_with fuel MExpression r) as [[e' r']|] eqn:E1; [|discriminate].
        destruct r' as [|[] r']; try discriminate.
        inversion H; subst.
        apply IHfuel in E1. destruct E1 as (pre1 & -> & D1).
        exists (THash :: TOpen :: pre1 ++ [TClose]). split.
        { simpl. rewrite <- app_assoc. reflexivity. }
        { apply D_not; exact D1. }
    + destruct (parse_with fuel MExpression r) as [[e' r']|] eqn:E1; [|discriminate].
      destruct r' as [|[] r']; try discriminate.
      inversion H; subst.
      apply IHfuel in E1. destruct E1 as (pre1 & -> & D1).
      exists (TOpen :: pre1 ++ [TClose]). split.
      * simpl. rewrite <- app_assoc. reflexivity.
      * apply D_parentheses; exact D1.
Qed.

Theorem parse_sound : forall ts e, parse ts = Some e -> Denotes Expression ts e.
Proof.
  unfold parse. intros ts e H.
  destruct (parse_with _ MExpression ts) as [[e' [|x r]]|] eqn:E; try discriminate.
  inversion H; subst.
  apply parse_with_sound in E. destruct E as (pre & -> & D). rewrite app_nil_r. exact D.
Qed.

(* ---- more fuel does not change an answer *)
Lemma parse_with_mono : forall f f' m ts r, f <= f' -> parse_with f m ts = Some r -> parse_with f' m ts = Some r.
Proof.
  induction f; intros f' m ts r Hle H; [discriminate|].
  destruct f' as [|f']; [lia|]. assert (Hle' : f <= f') by lia.
  destruct m; cbn [parse_with] in *.
  - destruct (parse_with f MTerm ts) as [[a r0]|] eqn:E; [|discriminate].
    rewrite (IHf f' _ _ _ Hle' E). apply (IHf f'); assumption.
  - destruct ts as [|[] r0]; try exact H.
    destruct (parse_with f MTerm r0) as [[b r']|] eqn:E; [|discriminate].
    rewrite (IHf f' _ _ _ Hle' E). apply (IHf f'); assumption.
  - destruct (parse_with f MFactor ts) as [[a r0]|] eqn:E; [|discriminate].
    rewrite (IHf f' _ _ _ Hle' E). apply (IHf f'); assumption.
  - destruct ts as [|[] r0]; try exact H;
      (destruct (parse_with f MFactor _) as [[b r']|] eqn:E; [|discriminate];
       rewrite (IHf f' _ _ _ Hle' E); apply (IHf f'); assumption).
  - destruct ts as [|[] r0]; try exact H.
    + destruct r0 as [|[] r0]; try exact H.
      destruct (parse_with f MExpression r0) as [[e r']|] eqn:E; [|discriminate].
      rewrite (IHf f' _ _ _ Hle' E). exact H.
    + destruct (parse_with f MExpression r0) as [[e r']|] eqn:E; [|discriminate].
      rewrite (IHf f' _ _ _ Hle' E). exact H.
Qed.

Definition starts_factor (x : token) : bool :=
  match x with TNumber _ _ | THash | TOpen => true | _ => false end.

Definition term_stop (rest : list token) : Prop :=
  match rest with [] => True | TColon :: _ => True | TClose :: _ => True | _ => False end.

Lemma factor_start : forall ts e, Denotes Factor ts e -> exists x tl, ts = x :: tl /\ starts_factor x = true.
Proof. intros ts e H. inversion H; subst; eauto. Qed.

Lemma term_more_stops : forall a rest, term_stop rest -> parse_with 1 (MTermMore a) rest = Some (a, rest).
Proof. intros a [|[] r] H; simpl in *; try reflexivity; contradiction. Qed.

Definition complete_spec (l : level) (pre : list token) (e : region) : Prop :=
  match l with
  | Factor => forall rest, exists f, parse_with f MFactor (pre ++ rest) = Some (e, rest)
  | Term => forall rest res f1, parse_with f1 (MTermMore e) rest = Some res ->
              exists f, parse_with f MTerm (pre ++ rest) = Some res
  | Expression => forall rest res f1, term_stop rest -> parse_with f1 (MExpressionMore e) rest = Some res ->
              exists f, parse_with f MExpression (pre ++ rest) = Some res
  end.

Lemma parse_with_complete : forall l pre e, Denotes l pre e -> complete_spec l pre e.
Proof.
  induction 1; cbn [complete_spec] in *.
  - intros rest. exists 1. reflexivity.
  - intros rest. exists 1. reflexivity.
  - intros rest.
    destruct (IHDenotes (TClose :: rest) (e, TClose :: rest) 1 I eq_refl) as [f Hf].
    exists (S f). cbn [app]. rewrite <- app_assoc. cbn [app parse_with]. rewrite Hf. reflexivity.
  - intros rest.
    destruct (IHDenotes (TClose :: rest) (e, TClose :: rest) 1 I eq_refl) as [f Hf].
    exists (S f). cbn [app]. rewrite <- app_assoc. cbn [app parse_with]. rewrite Hf. reflexivity.
  - intros rest res f1 Hq1. destruct (IHDenotes rest) as [f0 Hq0].
    exists (S (Nat.max f0 f1)). cbn [parse_with].
    rewrite (parse_with_mono f0 (Nat.max f0 f1) _ _ _ (Nat.le_max_l _ _) Hq0).
    apply (parse_with_mono f1); [apply Nat.le_max_r | exact Hq1].
  - intros rest res f1 Hq1. destruct (IHDenotes2 rest) as [f0 Hq0].
    rewrite <- app_assoc.
    apply (IHDenotes1 (ts2 ++ rest) res (S (Nat.max f0 f1))).
    destruct (factor_start _ _ H0) as (x & tl & -> & Hx).
    cbn [app] in *. cbn [parse_with].
    destruct x; try discriminate Hx;
      (rewrite (parse_with_mono f0 (Nat.max f0 f1) _ _ _ (Nat.le_max_l _ _) Hq0);
       apply (parse_with_mono f1); [apply Nat.le_max_r | exact Hq1]).
  - intros rest res f1 Hstop Hq1.
    destruct (IHDenotes rest (e, rest) 1 (term_more_stops _ _ Hstop)) as [f0 Hq0].
    exists (S (Nat.max f0 f1)). cbn [parse_with].
    rewrite (parse_with_mono f0 (Nat.max f0 f1) _ _ _ (Nat.le_max_l _ _) Hq0).
    apply (parse_with_mono f1); [apply Nat.le_max_r | exact Hq1].
  - intros rest res f1 Hstop Hq1.
    destruct (IHDenotes2 rest (b, rest) 1 (term_more_stops _ _ Hstop)) as [f0 Hq0].
    rewrite <- app_assoc. cbn [app].
    apply (IHDenotes1 (TColon :: ts2 ++ rest) res (S (Nat.max f0 f1)) I).
    cbn [parse_with].
    rewrite (parse_with_mono f0 (Nat.max f0 f1) _ _ _ (Nat.le_max_l _ _) Hq0).
    apply (parse_with_mono f1); [apply Nat.le_max_r | exact Hq1].
Qed.

Theorem denotes_unique : forall ts e1 e2,
  Denotes Expression ts e1 -> Denotes Expression ts e2 -> e1 = e2.
Proof.
  intros ts e1 e2 D1 D2.
  destruct (parse_with_complete _ _ _ D1 [] (e1, []) 1 I eq_refl) as [f1 H1].
  destruct (parse_with_complete _ _ _ D2 [] (e2, []) 1 I eq_refl) as [f2 H2].
  apply (parse_with_mono f1 (Nat.max f1 f2)) in H1; [|apply Nat.le_max_l].
  apply (parse_with_mono f2 (Nat.max f1 f2)) in H2; [|apply Nat.le_max_r].
  rewrite H1 in H2. inversion H2. reflexivity.
Qed.

(* what the parser returns is the meaning of the token list, and the only one *)
Theorem parse_is_the_meaning : forall ts e, parse ts = Some e ->
  Denotes Expression ts e /\ forall e', Denotes Expression ts e' -> e' = e.
Proof.
  intros ts e H. pose proof (parse_sound ts e H) as D. split; [exact D|].
  intros e' D'. exact (denotes_unique ts e' e D' D).
Qed.

(* ---- the truth table decides "same region" *)
Lemma atom_eqb_eq : forall x y, atom_eqb x y = true <-> x = y.
Proof.
  intros [a|a] [b|b]; simpl; split; intro H; try discriminate; try (inversion H; subst);
    try (apply Z.eqb_eq in H; subst; reflexivity); try apply Z.eqb_refl.
Qed.

Lemma mentions_in : forall l x, mentions l x = true <-> In x l.
Proof.
  induction l; intros x; simpl; [split; [discriminate|tauto]|].
  rewrite orb_true_iff, IHl, atom_eqb_eq. tauto.
Qed.

Lemma distinct_in : forall l x, In x (distinct l) <-> In x l.
Proof.
  induction l; intros x; simpl; [tauto|].
  destruct (mentions (distinct l) a) eqn:E.
  - rewrite IHl. split; [tauto|]. intros [->|H]; [|exact H]. apply IHl. apply mentions_in. exact E.
  - simpl. rewrite IHl. tauto.
Qed.

Lemma inside_ext : forall e env1 env2, (forall x, In x (atoms e) -> env1 x = env2 x) ->
  inside env1 e = inside env2 e.
Proof.
  induction e; intros env1 env2 H; simpl in *.
  - rewrite (H (Surface n)) by auto. reflexivity.
  - rewrite (H (InCell n)) by auto. reflexivity.
  - rewrite (IHe env1 env2 H). reflexivity.
  - rewrite (IHe1 env1 env2), (IHe2 env1 env2); auto; intros; apply H; apply in_or_app; auto.
  - rewrite (IHe1 env1 env2), (IHe2 env1 env2); auto; intros; apply H; apply in_or_app; auto.
Qed.

(* every assignment of the listed atoms is in the table *)
Lemma assignments_complete : forall l (env : atom -> bool),
  exists al, In al (assignments l) /\ forall x, In x l -> lookup al x = env x.
Proof.
  induction l; intros env.
  - exists []. split; [left; reflexivity|]. intros x [].
  - destruct (IHl env) as (al & Hin & Hl).
    exists ((a, env a) :: al). split.
    + simpl. apply in_or_app. destruct (env a); [right|left]; apply in_map; exact Hin.
    + intros x [<-|Hx].
      * simpl. assert (atom_eqb a a = true) as -> by (apply atom_eqb_eq; reflexivity). reflexivity.
      * simpl. destruct (atom_eqb a x) eqn:E; [apply atom_eqb_eq in E; subst; reflexivity | apply Hl; exact Hx].
Qed.

Theorem same_regionb_correct : forall a b, same_regionb a b = true <-> same_region a b.
Proof.
  intros a b. unfold same_regionb, same_region. split.
  - intros H env. rewrite forallb_forall in H.
    destruct (assignments_complete (distinct (atoms a ++ atoms b)) env) as (al & Hin & Hl).
    specialize (H al Hin). apply Bool.eqb_prop in H.
    rewrite (inside_ext a env (lookup al)), (inside_ext b env (lookup al)); [exact H| |].
    + intros x Hx. symmetry. apply Hl. apply distinct_in. apply in_or_app. auto.
    + intros x Hx. symmetry. apply Hl. apply distinct_in. apply in_or_app. auto.
  - intros H. apply forallb_forall. intros al _. rewrite H. apply Bool.eqb_reflx.
Qed.

(* ================================================================== B  against the reference grammar of Model/Geom.v *)
Definition of_gtok (x : Geom.gtok) : list token :=
  match x with
  | Geom.TLeaf pos n => [TNumber (if pos then NoSign else Minus) n]
  | Geom.TCompl n => [THash; TNumber NoSign n]
  | Geom.THash => [THash]
  | Geom.TLParen => [TOpen]
  | Geom.TRParen => [TClose]
  | Geom.TColon => [TColon]
  end.

Definition of_gtoks (ts : list Geom.gtok) : list token := flat_map of_gtok ts.

Fixpoint of_bexp (e : Geom.bexp) : region :=
  match e with
  | Geom.BSurf pos n => Side pos n
  | Geom.BCompl n => NotCell n
  | Geom.BNot a => Not (of_bexp a)
  | Geom.BAnd a b => And (of_bexp a) (of_bexp b)
  | Geom.BOr a b => Or (of_bexp a) (of_bexp b)
  end.

Definition of_lvl (l : Geom.lvl) : level :=
  match l with Geom.LE => Expression | Geom.LT => Term | Geom.LF => Factor end.

Lemma of_gtoks_app : forall a b, of_gtoks (a ++ b) = of_gtoks a ++ of_gtoks b.
Proof. intros. apply flat_map_app. Qed.

Theorem reference_grammar_agrees : forall l ts e,
  Geom.GD l ts e -> Denotes (of_lvl l) (of_gtoks ts) (of_bexp e).
Proof.
  induction 1; cbn [of_lvl of_bexp] in *.
  - destruct pos; [exact (D_side NoSign n) | exact (D_side Minus n)].
  - apply D_not_cell.
  - change (of_gtoks (Geom.THash :: Geom.TLParen :: ts ++ [Geom.TRParen]))
      with (THash :: TOpen :: of_gtoks (ts ++ [Geom.TRParen])).
    rewrite of_gtoks_app. apply D_not. exact IHGD.
  - change (of_gtoks (Geom.TLParen :: ts ++ [Geom.TRParen])) with (TOpen :: of_gtoks (ts ++ [Geom.TRParen])).
    rewrite of_gtoks_app. apply D_parentheses. exact IHGD.
  - apply D_factor. exact IHGD.
  - rewrite of_gtoks_app. apply D_and; assumption.
  - apply D_term. exact IHGD.
  - rewrite of_gtoks_app. change (of_gtoks (Geom.TColon :: ts2)) with (TColon :: of_gtoks ts2).
    apply D_or; assumption.
Qed.

(* the meaning is the same Boolean function *)
Definition of_env (env : atom -> bool) (x : Geom.atom) : bool :=
  match x with Geom.ASurf n => env (Surface n) | Geom.ACell n => env (InCell n) end.

Lemma eval_agrees : forall env e, inside env (of_bexp e) = Geom.eval (of_env env) e.
Proof. induction e; simpl; congruence. Qed.

(* what the reference parser of the C02 model returns is what Spec.Geometry gives for the same tokens *)
Theorem reference_parser_agrees : forall ts e e',
  Geom.gparse ts = Some e -> parse (of_gtoks ts) = Some e' -> e' = of_bexp e.
Proof.
  intros ts e e' H1 H2.
  apply GeomProofs.gparse_sound in H1. apply (reference_grammar_agrees Geom.LE) in H1.
  apply parse_sound in H2. exact (denotes_unique _ _ _ H2 H1).
Qed.

(* ================================================================== C  shortcuts against Model/Shortcut.v *)
Definition of_tok (t : Shortcut.tok) : Shortcuts.item :=
  match t with
  | Shortcut.TNum q => Shortcuts.INumber q
  | Shortcut.TJmp n => Shortcuts.IJump (Shortcut.cnt n)
  | Shortcut.TRep n => Shortcuts.IRepeat (Shortcut.cnt n)
  | Shortcut.TInt n => Shortcuts.IInterpolate (Shortcut.cnt n)
  | Shortcut.TLog n => Shortcuts.ILogInterpolate (Shortcut.cnt n)
  | Shortcut.TMul x => Shortcuts.IMultiply x
  | Shortcut.TBad => Shortcuts.IWord ""
  end.

Definition of_val (v : Shortcut.val) : Shortcuts.entry :=
  match v with
  | Shortcut.VQ q => Shortcuts.Number q
  | Shortcut.VJ => Shortcuts.Jump
  | Shortcut.VLog a b n j => Shortcuts.LogStep a b n j
  end.

Definition of_prev (p : option Shortcut.val) : option Q :=
  match p with Some (Shortcut.VQ q) => Some q | _ => None end.

Definition no_bad (t : Shortcut.tok) : bool := match t with Shortcut.TBad => false | _ => true end.

Lemma qpos_positive : forall q, Shortcut.qpos q = Shortcuts.positive q.
Proof.
  intros [n d]. unfold Shortcut.qpos, Shortcuts.positive, Qle_bool. cbn [Qnum Qden].
  rewrite Z.mul_1_r, Z.mul_0_l. rewrite Z.ltb_antisym. reflexivity.
Qed.

Lemma of_lin_steps : forall a b k j m,
  map of_val (Shortcut.lin_steps a b k j m) = Shortcuts.linear_steps a b k j m.
Proof. intros a b k j m; revert j; induction m; intros j; simpl; [reflexivity|]. rewrite IHm. reflexivity. Qed.

Lemma of_log_steps : forall a b k j m,
  map of_val (Shortcut.log_steps a b k j m) = Shortcuts.log_steps a b k j m.
Proof. intros a b k j m; revert j; induction m; intros j; simpl; [reflexivity|]. rewrite IHm. reflexivity. Qed.

Lemma of_repeat : forall v n, map of_val (repeat v n) = repeat (of_val v) n.
Proof. induction n; simpl; congruence. Qed.

Lemma omap_map : forall (A B : Type) (f : list A -> list A) (g : list B -> list B) (h : A -> B) o,
  (forall l, map h (f l) = g (map h l)) ->
  option_map (map h) (option_map f o) = option_map g (option_map (map h) o).
Proof. intros. destruct o; simpl; [rewrite H|]; reflexivity. Qed.

Ltac use_ih x := let P := fresh in pose proof x as P; cbn [of_prev] in P; rewrite <- P; clear P.

Lemma reference_expansion_fuel : forall n ts prev, List.length ts <= n -> forallb no_bad ts = true ->
  option_map (map of_val) (Shortcut.spec_expand_aux prev ts)
  = Shortcuts.expand_from (of_prev prev) (map of_tok ts).
Proof.
  induction n; intros ts prev Hn Hb.
  - destruct ts; [reflexivity|simpl in Hn; lia].
  - destruct ts as [|t r]; [reflexivity|].
    cbn [forallb] in Hb. apply andb_true_iff in Hb. destruct Hb as [Ht Hr].
    assert (List.length r <= n) as Hn' by (simpl in Hn; lia).
    destruct t; try discriminate Ht; cbn [map of_tok Shortcut.spec_expand_aux Shortcuts.expand_from].
    + (* number *)
      use_ih (IHn r (Some (Shortcut.VQ q)) Hn' Hr).
      destruct (Shortcut.spec_expand_aux (Some (Shortcut.VQ q)) r); reflexivity.
    + (* jump *)
      assert (of_prev (match Shortcut.cnt n0 with O => prev | S _ => Some Shortcut.VJ end)
              = match Shortcut.cnt n0 with O => of_prev prev | S _ => None end) as E
        by (destruct (Shortcut.cnt n0); reflexivity).
      rewrite <- E, <- (IHn r _ Hn' Hr).
      destruct (Shortcut.spec_expand_aux _ r); [|reflexivity].
      cbn [option_map]. rewrite map_app, of_repeat. reflexivity.
    + (* repeat *)
      destruct prev as [[q| |]|]; try reflexivity. cbn [of_prev].
      use_ih (IHn r (Some (Shortcut.VQ q)) Hn' Hr).
      destruct (Shortcut.spec_expand_aux _ r); [|reflexivity].
      cbn [option_map]. rewrite map_app, of_repeat. reflexivity.
    + (* interpolate *)
      destruct r as [|t2 r2]; [reflexivity|].
      cbn [forallb] in Hr. apply andb_true_iff in Hr. destruct Hr as [Ht2 Hr2].
      assert (List.length r2 <= n) as Hn2 by (simpl in Hn'; lia).
      destruct t2; try discriminate Ht2; cbn [map of_tok]; try reflexivity.
      destruct prev as [[q0| |]|]; try reflexivity. cbn [of_prev].
      use_ih (IHn r2 (Some (Shortcut.VQ q)) Hn2 Hr2).
      destruct (Shortcut.spec_expand_aux _ r2); [|reflexivity].
      cbn [option_map]. rewrite !map_app, of_lin_steps. reflexivity.
    + (* logarithmic interpolate *)
      destruct r as [|t2 r2]; [reflexivity|].
      cbn [forallb] in Hr. apply andb_true_iff in Hr. destruct Hr as [Ht2 Hr2].
      assert (List.length r2 <= n) as Hn2 by (simpl in Hn'; lia).
      destruct t2; try discriminate Ht2; cbn [map of_tok]; try reflexivity.
      destruct prev as [[q0| |]|]; try reflexivity. cbn [of_prev].
      rewrite !qpos_positive. destruct (Shortcuts.positive q0 && Shortcuts.positive q); [|reflexivity].
      use_ih (IHn r2 (Some (Shortcut.VQ q)) Hn2 Hr2).
      destruct (Shortcut.spec_expand_aux _ r2); [|reflexivity].
      cbn [option_map]. rewrite !map_app, of_log_steps. reflexivity.
    + (* multiply *)
      destruct prev as [[q| |]|]; try reflexivity. cbn [of_prev].
      use_ih (IHn r (Some (Shortcut.VQ (q * x)%Q)) Hn' Hr).
      destruct (Shortcut.spec_expand_aux _ r); reflexivity.
Qed.

(* the reference expansion of the C08 model is this specification on classified tokens *)
Theorem reference_expansion_agrees : forall ts, forallb no_bad ts = true ->
  option_map (map of_val) (Shortcut.spec_expand ts) = Shortcuts.expand_items (map of_tok ts).
Proof.
  intros ts H. apply (reference_expansion_fuel (List.length ts) ts None (Nat.le_refl _) H).
Qed.

(* ---- examples *)
Open Scope string_scope.
Lemma geometry_examples :
  read_geometry ["1"; "-2"; ":"; "#"; "("; "3"; "#"; "4"; ")"; "+5"]
  = Some (Or (And (Side true 1) (Side false 2)) (And (Not (And (Side true 3) (NotCell 4))) (Side true 5))) /\
  read_geometry ["1"; ":"] = None /\ read_geometry ["#"; "-4"] = None /\ read_geometry ["("; "1"] = None /\
  read_geometry ["1.5"] = None /\ read_geometry [] = None /\
  same_regionb (And (Side true 1) (Or (Side true 2) (Side true 3)))
               (Or (And (Side true 1) (Side true 2)) (And (Side true 3) (Side true 1))) = true /\
  same_regionb (Not (And (Side true 1) (Side false 2))) (Or (Side false 1) (Side true 2)) = true /\
  same_regionb (And (Side true 1) (Side true 2)) (Or (Side true 1) (Side true 2)) = false.
Proof. repeat split; vm_compute; reflexivity. Qed.

Definition show_entries (o : option (list Shortcuts.entry)) : option (list (option Q)) :=
  option_map (map (fun e => match e with Shortcuts.Number q => Some (Qred q) | _ => None end)) o.

Lemma shortcut_examples :
  show_entries (Shortcuts.expand ["1"; "2R"; "3I"; "9"; "2M"; "J"; "4"])
  = Some [Some (1#1); Some (1#1); Some (1#1); Some (3#1); Some (5#1); Some (7#1); Some (9#1); Some (18#1); None;
          Some (4#1)]%Q /\
  Shortcuts.expand ["J"; "2R"] = None /\ Shortcuts.expand ["1"; "2I"] = None /\
  Shortcuts.expand ["2"; "ILOG"; "-3"] = None /\
  Shortcuts.expand ["1"; "ILOG"; "100"] = Some [Shortcuts.Number (1#1); Shortcuts.LogStep (1#1) (100#1) 1 1;
                                               Shortcuts.Number (100#1)]%Q /\
  Shortcuts.expand ["IMP:N"; "1"; "R"] = Some [Shortcuts.Word "IMP:N"; Shortcuts.Number (1#1); Shortcuts.Number (1#1)]%Q.
Proof. repeat split; vm_compute; reflexivity. Qed.
