(* Setter.v — executable model of MontePy's property setters and mutators (C14, C17).

   Source modelled:
   * montepy/utilities.py  make_prop_val_node / make_prop_pointer: the setter closure as a list of
     template statements [tstmt] (closure-cell latch `nonlocal types` | local default, isinstance
     check, base_type conversion, validator call, assignment) and its instantiation for one
     declaration [prop_decl] into the statement IR below;
   * every hand-written public setter / deleter / mutator, through the statement IR [stmt] that
     harness/translate_setters.py generates from the source (coq/Gen/Setters.v): checks, conversions,
     mutations, calls into other code (flags may_raise / may_mutate / atomic), inlined callees, loops,
     branches, returns — with an interpreter [exec] over an abstract object state and an oracle for
     everything the IR abstracts (truth of conditions, iteration counts, values written);
   * the closure cell `types` of generated properties as a process-global [latch] and a world of
     several problems ([wstep], [wrun]);
   * the module-global read queue of input_syntax_reader and the shared error log of the parser
     singletons ([read_model], [parse_model]).

   Python mutation = functions returning the new state; exceptions = [result] / [outcome].
   No proofs in this file (Proofs/SetterProofs.v). *)
From Coq Require Import List String Ascii ZArith Bool Lia.
From MPV Require Import Model.Wire.
Import ListNotations.
Open Scope string_scope.

(* ------------------------------------------------------------------------------------------- *)
(* values: what isinstance / iter / conversions can see of an argument                          *)
(* ------------------------------------------------------------------------------------------- *)
Inductive vkind :=
| KInt | KBool | KFloat | KNone | KStr | KComplex
| KReal                 (* Fraction, Decimal: numbers.Number but neither int nor float *)
| KList | KTuple | KSet | KDict
| KArray                (* numpy.ndarray *)
| KObj (c : string)     (* instance of the MontePy (or other) class named c *)
| KOther.

Record env := mk_env {
  e_classes : list (string * list string);   (* class -> names of all its ancestors *)
  e_iter : list string                       (* classes that define or inherit __iter__ *)
}.

Definition mem_s (x : string) (l : list string) : bool := existsb (String.eqb x) l.

Fixpoint assoc {A} (k : string) (l : list (string * A)) : option A :=
  match l with
  | [] => None
  | (k', v) :: r => if String.eqb k k' then Some v else assoc k r
  end.

Definition ancestors (E : env) (c : string) : list string :=
  match assoc c (e_classes E) with Some l => l | None => [] end.

(* every type name t with isinstance(v, t) for a value of this kind *)
Definition types_of (E : env) (k : vkind) : list string :=
  match k with
  | KInt => ["int"; "numbers.Number"]
  | KBool => ["bool"; "int"; "numbers.Number"]
  | KFloat => ["float"; "numbers.Number"]
  | KNone => ["NoneType"]
  | KStr => ["str"]
  | KComplex => ["complex"; "numbers.Number"]
  | KReal => ["numbers.Number"]
  | KList => ["list"]
  | KTuple => ["tuple"]
  | KSet => ["set"]
  | KDict => ["dict"]
  | KArray => ["np.ndarray"]
  | KObj c => c :: ancestors E c
  | KOther => []
  end.

Definition isinst (E : env) (k : vkind) (t : string) : bool := mem_s t (types_of E k).
Definition isinst_any (E : env) (k : vkind) (ts : list string) : bool := existsb (isinst E k) ts.

Definition iter_builtin : list string := ["list"; "tuple"; "set"; "str"; "dict"; "np.ndarray"].
Definition iter_name (E : env) (t : string) : bool := mem_s t iter_builtin || mem_s t (e_iter E).
Definition iterable (E : env) (k : vkind) : bool := existsb (iter_name E) (types_of E k).

(* the kind of t(x) / of a literal of type t *)
Definition kind_of_ty (t : string) : vkind :=
  if t =? "int" then KInt else if t =? "bool" then KBool else if t =? "float" then KFloat
  else if t =? "NoneType" then KNone else if t =? "str" then KStr else if t =? "complex" then KComplex
  else if t =? "list" then KList else if t =? "tuple" then KTuple else if t =? "set" then KSet
  else if t =? "dict" then KDict else if t =? "np.ndarray" then KArray else KObj t.

(* ------------------------------------------------------------------------------------------- *)
(* statement IR                                                                                 *)
(* ------------------------------------------------------------------------------------------- *)
Inductive argsrc :=
| ASame                 (* the caller's (primary) argument is passed on *)
| ASelf (c : string)    (* `self`, an instance of the class the method is defined in *)
| AConst (t : string)   (* a literal of type t *)
| AConv (t : string)    (* t(<expression>) *)
| AUnknown.

Inductive stmt :=
| SCheckInst (id : nat) (ts : list string) (exc : string)  (* if not isinstance(arg, ts): raise exc *)
| SCheck (id : nat) (exc : string)                         (* if <condition>: raise exc — the condition is opaque
                                                              and its evaluation may itself raise *)
| SRaise (id : nat) (exc : string)
| SConvert (id : nat) (t : string) (guarded none_guard : bool)
      (* arg = t(arg), skipped when [guarded] and isinstance(arg, t), or [none_guard] and arg is None *)
| SIter (id : nat)                                         (* iteration over arg: TypeError unless iterable *)
| SForget (id : nat)                                       (* arg is rebound to something the IR does not track *)
| SMutate (id : nat) (target : string)                     (* assignment to object state; cannot raise *)
| SCall (id : nat) (f : string) (may_raise may_mutate atomic : bool)
      (* opaque call; [atomic]: when it raises it has not mutated *)
| SInline (id : nat) (f : string) (a : argsrc) (body : list stmt)
| SLoop (id : nat) (body : list stmt)
| SBranch (id : nat) (b1 b2 : list stmt)
| SReturn (id : nat).

(* ------------------------------------------------------------------------------------------- *)
(* interpreter                                                                                  *)
(* ------------------------------------------------------------------------------------------- *)
Definition state := list (string * Z).       (* writes, newest first; [] = untouched *)

Record oracle := mk_oracle {
  o_kind : vkind;                            (* kind of the argument at the call *)
  o_raise : nat -> nat -> option string;     (* statement id, occurrence: raises this exception ("" = the declared one) *)
  o_branch : nat -> nat -> bool;             (* SBranch: take the first branch *)
  o_iters : nat -> nat -> nat;               (* SLoop: number of iterations *)
  o_val : nat -> nat -> Z;                   (* value written by SMutate / mutating SCall *)
  o_unk : nat -> nat -> vkind                (* kind of an argument the IR does not track *)
}.

Record cfg := mk_cfg { c_st : state; c_kind : vkind; c_cnt : list (nat * nat) }.

Inductive outcome := ONormal | OReturn | ORaise (id : nat) (e : string).
Inductive result := Ok | Err (id : nat) (e : string).

Fixpoint cnt_get (l : list (nat * nat)) (id : nat) : nat :=
  match l with
  | [] => 0
  | (k, v) :: r => if Nat.eqb k id then v else cnt_get r id
  end.
Definition occ (c : cfg) (id : nat) : nat := cnt_get (c_cnt c) id.
Definition tick (c : cfg) (id : nat) : cfg :=
  mk_cfg (c_st c) (c_kind c) ((id, S (occ c id)) :: c_cnt c).
Definition set_kind (c : cfg) (k : vkind) : cfg := mk_cfg (c_st c) k (c_cnt c).
Definition write (c : cfg) (t : string) (v : Z) : cfg := mk_cfg ((t, v) :: c_st c) (c_kind c) (c_cnt c).

Definition exec_seq (f : stmt -> cfg -> cfg * outcome) : list stmt -> cfg -> cfg * outcome :=
  fix go (l : list stmt) (c : cfg) : cfg * outcome :=
    match l with
    | [] => (c, ONormal)
    | x :: r => match f x c with
                | (c', ONormal) => go r c'
                | res => res
                end
    end.

(* n iterations of g; the argument's kind is restored after every iteration (the translator refuses
   loops that rebind the primary argument, so this is the identity on translated code) *)
Fixpoint iter_n (g : cfg -> cfg * outcome) (n : nat) (c : cfg) : cfg * outcome :=
  match n with
  | O => (c, ONormal)
  | S m => match g c with
           | (c', ONormal) => iter_n g m (set_kind c' (c_kind c))
           | res => res
           end
  end.

Definition raise_name (declared e : string) : string := if e =? "" then declared else e.

Fixpoint exec_stmt (E : env) (a : oracle) (st : stmt) (c : cfg) {struct st} : cfg * outcome :=
  match st with
  | SCheckInst id ts exc =>
      let c1 := tick c id in
      if isinst_any E (c_kind c) ts then (c1, ONormal) else (c1, ORaise id exc)
  | SCheck id exc =>
      let c1 := tick c id in
      match o_raise a id (occ c id) with
      | Some e => (c1, ORaise id (raise_name exc e))
      | None => (c1, ONormal)
      end
  | SRaise id exc => (tick c id, ORaise id exc)
  | SConvert id t g ng =>
      let c1 := tick c id in
      if orb (andb g (isinst E (c_kind c) t)) (andb ng (isinst E (c_kind c) "NoneType")) then (c1, ONormal)
      else match o_raise a id (occ c id) with
           | Some e => (c1, ORaise id (raise_name "ValueError" e))
           | None => (set_kind c1 (kind_of_ty t), ONormal)
           end
  | SIter id =>
      let c1 := tick c id in
      if iterable E (c_kind c) then (c1, ONormal) else (c1, ORaise id "TypeError")
  | SForget id => (set_kind (tick c id) (o_unk a id (occ c id)), ONormal)
  | SMutate id t => (write (tick c id) t (o_val a id (occ c id)), ONormal)
  | SCall id f r m at_ =>
      let c1 := tick c id in
      let c2 := write c1 ("call:" ++ f) (o_val a id (occ c id)) in
      match (if r then o_raise a id (occ c id) else None) with
      | Some e => ((if andb m (negb at_) then c2 else c1), ORaise id (raise_name "Exception" e))
      | None => ((if m then c2 else c1), ONormal)
      end
  | SInline id f src body =>
      let c1 := tick c id in
      let kin := match src with
                 | ASame => c_kind c
                 | ASelf cl => KObj cl
                 | AConst t => kind_of_ty t
                 | AConv t => kind_of_ty t
                 | AUnknown => o_unk a id (occ c id)
                 end in
      match exec_seq (exec_stmt E a) body (set_kind c1 kin) with
      | (c', ORaise i e) => (set_kind c' (c_kind c), ORaise i e)
      | (c', _) => (set_kind c' (c_kind c), ONormal)
      end
  | SLoop id body =>
      iter_n (exec_seq (exec_stmt E a) body) (o_iters a id (occ c id)) (tick c id)
  | SBranch id b1 b2 =>
      let c1 := tick c id in
      if o_branch a id (occ c id) then exec_seq (exec_stmt E a) b1 c1 else exec_seq (exec_stmt E a) b2 c1
  | SReturn id => (tick c id, OReturn)
  end.

Definition exec_list (E : env) (a : oracle) : list stmt -> cfg -> cfg * outcome := exec_seq (exec_stmt E a).

Definition result_of (o : outcome) : result :=
  match o with ORaise id e => Err id e | _ => Ok end.

(* one call of a setter whose body is [prog], on an object state [s], with argument / environment [a] *)
Definition exec (E : env) (prog : list stmt) (s : state) (a : oracle) : state * result :=
  let (c, o) := exec_list E a prog (mk_cfg s (o_kind a) []) in (c_st c, result_of o).

Definition is_err (r : result) : bool := match r with Err _ _ => true | Ok => false end.

(* ------------------------------------------------------------------------------------------- *)
(* static analysis: no mutation precedes a statement that may raise                             *)
(* ------------------------------------------------------------------------------------------- *)
Inductive phase := Clean | Dirty.
Definition know := option (list string).    (* Some ts: isinstance(arg, ts) is known to hold *)

Definition phase_eqb (p q : phase) : bool :=
  match p, q with Clean, Clean => true | Dirty, Dirty => true | _, _ => false end.
Definition pjoin (p q : phase) : phase := match p, q with Clean, Clean => Clean | _, _ => Dirty end.

Fixpoint list_eqb (l1 l2 : list string) : bool :=
  match l1, l2 with
  | [], [] => true
  | x :: r, y :: s => andb (String.eqb x y) (list_eqb r s)
  | _, _ => false
  end.
Definition know_eqb (k1 k2 : know) : bool :=
  match k1, k2 with
  | None, None => true
  | Some a, Some b => list_eqb a b
  | _, _ => false
  end.

Definition sub_know (k : know) (ts : list string) : bool :=
  match k with Some ks => forallb (fun x => mem_s x ts) ks | None => false end.
Definition conv_skip_static (k : know) (t : string) (g ng : bool) : bool :=
  match k with
  | Some ks => forallb (fun x => orb (andb g (String.eqb x t)) (andb ng (String.eqb x "NoneType"))) ks
  | None => false
  end.
Definition iter_static (E : env) (k : know) : bool :=
  match k with Some ks => forallb (iter_name E) ks | None => false end.

Definition clean_only (p : phase) (k : know) : option (phase * know) :=
  match p with Clean => Some (Clean, k) | Dirty => None end.

Definition an_seq (f : stmt -> phase -> know -> option (phase * know))
  : list stmt -> phase -> know -> option (phase * know) :=
  fix go (l : list stmt) (p : phase) (k : know) : option (phase * know) :=
    match l with
    | [] => Some (p, k)
    | SReturn _ :: _ => Some (p, k)
    | x :: r => match f x p k with
                | Some (p', k') => go r p' k'
                | None => None
                end
    end.

Fixpoint an_stmt (E : env) (st : stmt) (p : phase) (k : know) {struct st} : option (phase * know) :=
  match st with
  | SCheckInst _ ts _ => if sub_know k ts then Some (p, k) else clean_only p (Some ts)
  | SCheck _ _ => clean_only p k
  | SRaise _ _ => clean_only p k
  | SConvert _ t g ng =>
      if conv_skip_static k t g ng then Some (p, k)
      else clean_only p (if andb (negb g) (negb ng) then Some [t] else None)
  | SIter _ => if iter_static E k then Some (p, k) else clean_only p k
  | SForget _ => Some (p, None)
  | SMutate _ _ => Some (Dirty, k)
  | SCall _ _ r m at_ =>
      if andb r (andb m (negb at_)) then None
      else if r then match p with Clean => Some ((if m then Dirty else Clean), k) | Dirty => None end
      else Some ((if m then Dirty else p), k)
  | SInline _ _ src body =>
      let kin := match src with
                 | ASame => k
                 | ASelf c => Some [c]
                 | AConst t => Some [t]
                 | AConv t => Some [t]
                 | AUnknown => None
                 end in
      match an_seq (an_stmt E) body p kin with
      | Some (p', _) => Some (p', k)
      | None => None
      end
  | SLoop _ body =>
      match an_seq (an_stmt E) body p k with
      | None => None
      | Some (p1, _) =>
          match p, p1 with
          | Clean, Dirty => match an_seq (an_stmt E) body Dirty k with
                            | Some _ => Some (Dirty, k)
                            | None => None
                            end
          | _, _ => Some (p1, k)
          end
      end
  | SBranch _ b1 b2 =>
      match an_seq (an_stmt E) b1 p k, an_seq (an_stmt E) b2 p k with
      | Some (p1, k1), Some (p2, k2) => Some (pjoin p1 p2, if know_eqb k1 k2 then k1 else None)
      | _, _ => None
      end
  | SReturn _ => Some (p, k)
  end.

Definition an_list (E : env) : list stmt -> phase -> know -> option (phase * know) := an_seq (an_stmt E).

Definition checks_first (E : env) (prog : list stmt) : bool :=
  match an_list E prog Clean None with Some _ => true | None => false end.

(* no statement of the body changes object state (a check-only validator) *)
Definition all_seq (f : stmt -> bool) : list stmt -> bool :=
  fix go (l : list stmt) : bool := match l with [] => true | x :: r => andb (f x) (go r) end.
Fixpoint no_mutation (st : stmt) : bool :=
  match st with
  | SMutate _ _ => false
  | SCall _ _ _ m _ => negb m
  | SInline _ _ _ body => all_seq no_mutation body
  | SLoop _ body => all_seq no_mutation body
  | SBranch _ b1 b2 => andb (all_seq no_mutation b1) (all_seq no_mutation b2)
  | _ => true
  end.
Definition check_only (l : list stmt) : bool := all_seq no_mutation l.

(* ------------------------------------------------------------------------------------------- *)
(* the generated-property template                                                              *)
(* ------------------------------------------------------------------------------------------- *)
Inductive tstmt :=
| TLatch            (* nonlocal types; if types == (): types = type(self)   — rewrites the closure cell *)
| TLocalDefault     (* accepted = types; if accepted == (): accepted = type(self)   — repaired form *)
| TCheckType (exc : string)
| TConvert (none_guard : bool)
| TValidator
| TAssignNodeValue  (* node = getattr(self, hidden_param); node.value = value *)
| TSetattr.         (* setattr(self, hidden_param, value) *)

Inductive tydecl := TyNone | TyLatch | TyList (ts : list string).
Inductive pkind := PVal | PPtr.

Record prop_decl := mk_prop {
  p_cls : string; p_name : string; p_hidden : string; p_kind : pkind; p_types : tydecl;
  p_base : option string; p_validator : option string; p_deletable : bool; p_public : bool;
  p_node_opt : bool    (* some code path of the class leaves the hidden attribute None instead of a ValueNode: then
                          `node = getattr(self, hidden); node.value = value` raises AttributeError, before any change *)
}.

Definition pkey (d : prop_decl) : string := p_cls d ++ "." ++ p_name d.
Definition is_tylatch (t : tydecl) : bool := match t with TyLatch => true | _ => false end.
Definition settable (d : prop_decl) : bool := match p_types d with TyNone => false | _ => true end.
Definition has_latch (tm : list tstmt) : bool :=
  existsb (fun t => match t with TLatch => true | _ => false end) tm.
Definition latching (tm : list tstmt) (d : prop_decl) : bool := andb (has_latch tm) (is_tylatch (p_types d)).

(* statements are numbered in pre-order, as the translator numbers them *)
Definition renum_seq (f : nat -> stmt -> stmt * nat) : nat -> list stmt -> list stmt * nat :=
  fix go (n : nat) (l : list stmt) : list stmt * nat :=
    match l with
    | [] => ([], n)
    | x :: r => let (x', n1) := f n x in let (r', n2) := go n1 r in (x' :: r', n2)
    end.
Fixpoint renum (n : nat) (st : stmt) {struct st} : stmt * nat :=
  match st with
  | SCheckInst _ ts e => (SCheckInst n ts e, S n)
  | SCheck _ e => (SCheck n e, S n)
  | SRaise _ e => (SRaise n e, S n)
  | SConvert _ t g ng => (SConvert n t g ng, S n)
  | SIter _ => (SIter n, S n)
  | SForget _ => (SForget n, S n)
  | SMutate _ t => (SMutate n t, S n)
  | SCall _ f r m a => (SCall n f r m a, S n)
  | SInline _ f src body => let (b, n1) := renum_seq renum (S n) body in (SInline n f src b, n1)
  | SLoop _ body => let (b, n1) := renum_seq renum (S n) body in (SLoop n b, n1)
  | SBranch _ b1 b2 =>
      let (x, n1) := renum_seq renum (S n) b1 in
      let (y, n2) := renum_seq renum n1 b2 in (SBranch n x y, n2)
  | SReturn _ => (SReturn n, S n)
  end.
Definition renumber (n : nat) (l : list stmt) : list stmt * nat := renum_seq renum n l.

Fixpoint inst_aux (tm : list tstmt) (d : prop_decl) (ts : list string) (vb : list stmt) (next : nat)
  : list stmt :=
  match tm with
  | [] => []
  | TLatch :: r => inst_aux r d ts vb next
  | TLocalDefault :: r => inst_aux r d ts vb next
  | TCheckType exc :: r => SCheckInst next ts exc :: inst_aux r d ts vb (S next)
  | TConvert ng :: r =>
      match p_base d with
      | Some b => SConvert next b true ng :: inst_aux r d ts vb (S next)
      | None => inst_aux r d ts vb next
      end
  | TValidator :: r =>
      match p_validator d with
      | Some v => let (vb', nx) := renumber (S next) vb in
                  SInline next ("validator:" ++ v) ASame vb' :: inst_aux r d ts vb nx
      | None => inst_aux r d ts vb next
      end
  | TAssignNodeValue :: r =>
      (if p_node_opt d
       then SCall next ("setattr:self." ++ p_hidden d ++ ".value") true true true   (* raises before it writes *)
       else SMutate next ("self." ++ p_hidden d ++ ".value")) :: inst_aux r d ts vb (S next)
  | TSetattr :: r => SMutate next ("self." ++ p_hidden d) :: inst_aux r d ts vb (S next)
  end.

(* declared types as the C14 IR sees them; "@self" stands for the class of the instance *)
Definition decl_types (d : prop_decl) : list string :=
  match p_types d with TyList ts => ts | TyLatch => ["@self"] | TyNone => [] end.

Definition validator_body (vt : list (string * list stmt)) (d : prop_decl) : list stmt :=
  match p_validator d with
  | Some v => match assoc v vt with Some b => b | None => [SCall 0 ("missing validator " ++ v) true true false] end
  | None => []
  end.

Definition template_of (tmv tmp : list tstmt) (d : prop_decl) : list tstmt :=
  match p_kind d with PVal => tmv | PPtr => tmp end.

Definition instantiate (tmv tmp : list tstmt) (vt : list (string * list stmt)) (d : prop_decl) : list stmt :=
  inst_aux (template_of tmv tmp d) d (decl_types d) (validator_body vt d) 0.

(* a template is well formed when it ends with its single assignment *)
Definition is_assign (t : tstmt) : bool :=
  match t with TAssignNodeValue => true | TSetattr => true | _ => false end.
Fixpoint template_wf (tm : list tstmt) : bool :=
  match tm with
  | [] => false
  | [t] => is_assign t
  | t :: r => andb (negb (is_assign t)) (template_wf r)
  end.

(* ------------------------------------------------------------------------------------------- *)
(* the closure cell and several problems                                                        *)
(* ------------------------------------------------------------------------------------------- *)
Definition latch := list (string * string).   (* "Class.property" -> class latched by the first use *)

Definition types_now (tm : list tstmt) (l : latch) (d : prop_decl) (self : string) : list string :=
  match p_types d with
  | TyList ts => ts
  | TyNone => []
  | TyLatch => if has_latch tm
               then match assoc (pkey d) l with Some c => [c] | None => [self] end
               else [self]
  end.

Definition latch_step (tm : list tstmt) (l : latch) (d : prop_decl) (self : string) : latch :=
  if latching tm d
  then match assoc (pkey d) l with Some _ => l | None => (pkey d, self) :: l end
  else l.

(* would the type check of property d accept a value of kind k on an instance of class self? *)
Definition accepts (E : env) (tm : list tstmt) (l : latch) (d : prop_decl) (self : string) (k : vkind) : bool :=
  isinst_any E k (types_now tm l d self).

Definition after (tm : list tstmt) (h : list (prop_decl * string)) : latch :=
  fold_left (fun l ds => latch_step tm l (fst ds) (snd ds)) h [].

Inductive wcall :=
| WGen (pid : nat) (d : prop_decl) (self : string) (a : oracle)   (* obj.<generated property> = value *)
| WSet (pid : nat) (ir : list stmt) (a : oracle).                 (* a hand-written setter / mutator *)

Definition wpid (c : wcall) : nat := match c with WGen p _ _ _ => p | WSet p _ _ => p end.

Record world := mk_world { w_latch : latch; w_probs : list (nat * state) }.

Fixpoint assoc_nat {A} (k : nat) (l : list (nat * A)) : option A :=
  match l with
  | [] => None
  | (k', v) :: r => if Nat.eqb k k' then Some v else assoc_nat k r
  end.
Definition w_get (w : world) (pid : nat) : state :=
  match assoc_nat pid (w_probs w) with Some s => s | None => [] end.

Record tables := mk_tables {
  t_env : env; t_val : list tstmt; t_ptr : list tstmt; t_validators : list (string * list stmt)
}.

Definition wcall_latching (T : tables) (c : wcall) : bool :=
  match c with
  | WGen _ d _ _ => latching (template_of (t_val T) (t_ptr T) d) d
  | WSet _ _ _ => false
  end.

Definition wstep (T : tables) (w : world) (c : wcall) : world * result :=
  match c with
  | WSet pid ir a =>
      let (s', r) := exec (t_env T) ir (w_get w pid) a in
      (mk_world (w_latch w) ((pid, s') :: w_probs w), r)
  | WGen pid d self a =>
      let tm := template_of (t_val T) (t_ptr T) d in
      let ir := inst_aux tm d (types_now tm (w_latch w) d self) (validator_body (t_validators T) d) 0 in
      let (s', r) := exec (t_env T) ir (w_get w pid) a in
      (mk_world (latch_step tm (w_latch w) d self) ((pid, s') :: w_probs w), r)
  end.

Fixpoint wrun (T : tables) (cs : list wcall) (w : world) : world * list (nat * result) :=
  match cs with
  | [] => (w, [])
  | c :: r => let (w1, res) := wstep T w c in
              let (w2, rs) := wrun T r w1 in (w2, (wpid c, res) :: rs)
  end.

Definition on_pid (A : nat) (c : wcall) : bool := Nat.eqb (wpid c) A.
Definition res_on (A : nat) (rs : list (nat * result)) : list (nat * result) :=
  filter (fun pr => Nat.eqb (fst pr) A) rs.

(* ------------------------------------------------------------------------------------------- *)
(* process globals of reading and parsing                                                       *)
(* ------------------------------------------------------------------------------------------- *)
(* parser singletons share one error log; sly's parse() calls self.restart() first, and
   MCNP_Parser.restart clears the log; a non-empty log makes parse() return None *)
Definition parse_model (restart_clears : bool) (log errs : list string) (tree : nat)
  : list string * option nat :=
  let log0 := if restart_clears then [] else log in
  let log1 := (log0 ++ errs)%list in
  (log1, match log1 with [] => Some tree | _ => None end).

(* the read-card queue: a module global, reset when a read starts; drained after the main file *)
Inductive item := Card (c : string) | ReadCard (f : string).
Definition cards (l : list item) : list string :=
  flat_map (fun i => match i with Card c => [c] | ReadCard _ => [] end) l.
Definition reads (l : list item) : list string :=
  flat_map (fun i => match i with Card _ => [] | ReadCard f => [f] end) l.
Definition file_of (fs : list (string * list item)) (f : string) : list item :=
  match assoc f fs with Some l => l | None => [] end.

Fixpoint drain (fuel : nat) (fs : list (string * list item)) (q acc : list string)
  : list string * list string :=
  match fuel with
  | O => (acc, q)
  | S n => match q with
           | [] => (acc, [])
           | f :: r => drain n fs (r ++ reads (file_of fs f))%list (acc ++ cards (file_of fs f))%list
           end
  end.

(* returns (cards yielded in order, queue left behind) *)
Definition read_model (resets : bool) (fuel : nat) (fs : list (string * list item))
           (queue : list string) (main : list item) : list string * list string :=
  let q := if resets then [] else queue in
  drain fuel fs (q ++ reads main)%list (cards main).

(* ------------------------------------------------------------------------------------------- *)
(* wire entry                                                                                   *)
(* ------------------------------------------------------------------------------------------- *)
Definition tokens := list string.

Definition p_nat (ts : tokens) : option (nat * tokens) :=
  match ts with t :: r => match parse_nat t with Some n => Some (n, r) | None => None end | [] => None end.
Definition p_hex (ts : tokens) : option (string * tokens) :=
  match ts with t :: r => Some ((if t =? "-" then "" else hex_decode t), r) | [] => None end.
Definition p_bool (ts : tokens) : option (bool * tokens) :=
  match ts with t :: r => Some (t =? "1", r) | [] => None end.

Fixpoint p_many {A} (p : tokens -> option (A * tokens)) (n : nat) (ts : tokens) : option (list A * tokens) :=
  match n with
  | O => Some ([], ts)
  | S m => match p ts with
           | Some (x, r) => match p_many p m r with Some (xs, r') => Some (x :: xs, r') | None => None end
           | None => None
           end
  end.
Definition p_counted {A} (p : tokens -> option (A * tokens)) (ts : tokens) : option (list A * tokens) :=
  match p_nat ts with Some (n, r) => p_many p n r | None => None end.

Definition rd_kind_tok (t : string) : vkind :=
  match t with
  | String "o" r => KObj (hex_decode r)
  | _ => if t =? "i" then KInt else if t =? "b" then KBool else if t =? "f" then KFloat
         else if t =? "n" then KNone else if t =? "s" then KStr else if t =? "c" then KComplex
         else if t =? "r" then KReal else if t =? "l" then KList else if t =? "t" then KTuple
         else if t =? "e" then KSet else if t =? "d" then KDict else if t =? "a" then KArray else KOther
  end.
Definition rd_kind (ts : tokens) : option (vkind * tokens) :=
  match ts with t :: r => Some (rd_kind_tok t, r) | [] => None end.

Definition p_class (ts : tokens) : option ((string * list string) * tokens) :=
  match p_hex ts with
  | Some (c, r) => match p_counted p_hex r with Some (a, r') => Some ((c, a), r') | None => None end
  | None => None
  end.
Definition p_env (ts : tokens) : option (env * tokens) :=
  match p_counted p_class ts with
  | Some (cl, r) => match p_counted p_hex r with Some (it, r') => Some (mk_env cl it, r') | None => None end
  | None => None
  end.

(* IR in prefix form; blocks end with E *)
Fixpoint p_block (fuel : nat) (ts : tokens) : option (list stmt * tokens) :=
  match fuel with
  | O => None
  | S n =>
      match ts with
      | [] => Some ([], [])
      | op :: r0 =>
          if op =? "E" then Some ([], r0) else
          match p_nat r0 with
          | None => None
          | Some (id, r) =>
              let cont (s : stmt) (rest : tokens) :=
                match p_block n rest with Some (l, r') => Some (s :: l, r') | None => None end in
              if op =? "K" then
                match p_counted p_hex r with
                | Some (tl, r1) => match p_hex r1 with Some (e, r2) => cont (SCheckInst id tl e) r2 | None => None end
                | None => None
                end
              else if op =? "O" then match p_hex r with Some (e, r1) => cont (SCheck id e) r1 | None => None end
              else if op =? "X" then match p_hex r with Some (e, r1) => cont (SRaise id e) r1 | None => None end
              else if op =? "V" then
                match p_hex r with
                | Some (t, r1) => match p_bool r1 with
                                  | Some (g, r2) => match p_bool r2 with
                                                    | Some (ng, r3) => cont (SConvert id t g ng) r3
                                                    | None => None end
                                  | None => None end
                | None => None
                end
              else if op =? "T" then cont (SIter id) r
              else if op =? "F" then cont (SForget id) r
              else if op =? "R" then cont (SReturn id) r
              else if op =? "M" then match p_hex r with Some (t, r1) => cont (SMutate id t) r1 | None => None end
              else if op =? "C" then
                match p_hex r with
                | Some (f, r1) =>
                    match p_bool r1 with
                    | Some (b1, r2) => match p_bool r2 with
                                       | Some (b2, r3) => match p_bool r3 with
                                                          | Some (b3, r4) => cont (SCall id f b1 b2 b3) r4
                                                          | None => None end
                                       | None => None end
                    | None => None end
                | None => None
                end
              else if op =? "I" then
                match p_hex r with
                | Some (f, r1) =>
                    match r1 with
                    | k :: r2 =>
                        let src := if k =? "s" then Some (ASame, r2) else if k =? "u" then Some (AUnknown, r2)
                                   else match p_hex r2 with
                                        | Some (v, r3) => Some ((if k =? "f" then ASelf v else if k =? "c" then AConst v
                                                                 else AConv v), r3)
                                        | None => None end in
                        match src with
                        | Some (sa, r4) =>
                            match p_block n r4 with
                            | Some (body, r5) => cont (SInline id f sa body) r5
                            | None => None end
                        | None => None end
                    | [] => None end
                | None => None
                end
              else if op =? "L" then
                match p_block n r with Some (body, r1) => cont (SLoop id body) r1 | None => None end
              else if op =? "B" then
                match p_block n r with
                | Some (b1, r1) => match p_block n r1 with
                                   | Some (b2, r2) => cont (SBranch id b1 b2) r2
                                   | None => None end
                | None => None end
              else None
          end
      end
  end.
Definition p_ir (ts : tokens) : option (list stmt * tokens) := p_block (S (List.length ts)) ts.

(* oracle: kind, then four counted tables keyed by (id, occurrence) *)
Definition p_key {A} (p : tokens -> option (A * tokens)) (ts : tokens) : option ((nat * nat * A) * tokens) :=
  match p_nat ts with
  | Some (i, r) => match p_nat r with
                   | Some (o, r1) => match p r1 with Some (v, r2) => Some ((i, o, v), r2) | None => None end
                   | None => None end
  | None => None
  end.
Fixpoint key_get {A} (l : list (nat * nat * A)) (i o : nat) : option A :=
  match l with
  | [] => None
  | (i', o', v) :: r => if andb (Nat.eqb i i') (Nat.eqb o o') then Some v else key_get r i o
  end.
Definition p_oracle (ts : tokens) : option (oracle * tokens) :=
  match rd_kind ts with
  | Some (k, r) =>
      match p_counted (p_key p_hex) r with
      | Some (ra, r1) =>
          match p_counted (p_key p_bool) r1 with
          | Some (br, r2) =>
              match p_counted (p_key p_nat) r2 with
              | Some (it, r3) =>
                  match p_counted (p_key rd_kind) r3 with
                  | Some (un, r4) =>
                      Some (mk_oracle k (key_get ra)
                                      (fun i o => match key_get br i o with Some b => b | None => false end)
                                      (fun i o => match key_get it i o with Some n => n | None => 0 end)
                                      (fun i o => Z.of_nat (i * 1000 + o))
                                      (fun i o => match key_get un i o with Some x => x | None => KOther end), r4)
                  | None => None end
              | None => None end
          | None => None end
      | None => None end
  | None => None
  end.

Definition show_result (r : result) : string :=
  match r with Ok => "ok" | Err id e => "err " ++ show_nat id ++ " " ++ hex_encode e end.
Definition show_state (s : state) : string := show_list (fun p => hex_encode (fst p)) (rev s).

Definition p_tstmt (ts : tokens) : option (tstmt * tokens) :=
  match ts with
  | t :: r =>
      if t =? "latch" then Some (TLatch, r) else if t =? "local" then Some (TLocalDefault, r)
      else if t =? "check" then match p_hex r with Some (e, r1) => Some (TCheckType e, r1) | None => None end
      else if t =? "conv" then match p_bool r with Some (b, r1) => Some (TConvert b, r1) | None => None end
      else if t =? "valid" then Some (TValidator, r) else if t =? "nodeval" then Some (TAssignNodeValue, r)
      else if t =? "setattr" then Some (TSetattr, r) else None
  | [] => None
  end.

Definition p_opt_hex (ts : tokens) : option (option string * tokens) :=
  match ts with t :: r => Some ((if t =? "-" then None else Some (hex_decode t)), r) | [] => None end.

Definition rd_decl (ts : tokens) : option (prop_decl * tokens) :=
  match p_hex ts with
  | Some (cl, r) =>
    match p_hex r with
    | Some (nm, r1) =>
      match p_hex r1 with
      | Some (hid, r2) =>
        match r2 with
        | kd :: ty :: r3 =>
            let tys := if ty =? "N" then Some (TyNone, r3) else if ty =? "L" then Some (TyLatch, r3)
                       else match p_counted p_hex r3 with Some (l, r') => Some (TyList l, r') | None => None end in
            match tys with
            | Some (tyd, r4) =>
                match p_opt_hex r4 with
                | Some (b, r5) =>
                    match p_opt_hex r5 with
                    | Some (v, r6) =>
                        match p_bool r6 with
                        | Some (dl, r7) =>
                            Some (mk_prop cl nm hid (if kd =? "v" then PVal else PPtr) tyd b v dl true false, r7)
                        | None => None end
                    | None => None end
                | None => None end
            | None => None end
        | _ => None end
      | None => None end
    | None => None end
  | None => None
  end.

Definition rd_validator (ts : tokens) : option ((string * list stmt) * tokens) :=
  match p_hex ts with
  | Some (k, r) => match p_block (S (List.length r)) r with
                   | Some (b, r1) => Some ((k, b), r1)
                   | None => None end
  | None => None
  end.

Definition p_wcall (ts : tokens) : option (wcall * tokens) :=
  match ts with
  | k :: r =>
      if k =? "G" then
        match p_nat r with
        | Some (pid, r1) =>
            match rd_decl r1 with
            | Some (d, r2) =>
                match p_hex r2 with
                | Some (self, r3) =>
                    match p_oracle r3 with Some (a, r4) => Some (WGen pid d self a, r4) | None => None end
                | None => None end
            | None => None end
        | None => None end
      else if k =? "S" then
        match p_nat r with
        | Some (pid, r1) =>
            match p_oracle r1 with
            | Some (a, r2) =>
                match p_block (S (List.length r2)) r2 with
                | Some (ir, r3) => Some (WSet pid ir a, r3)
                | None => None end
            | None => None end
        | None => None end
      else None
  | [] => None
  end.

Definition show_latch (l : latch) : string :=
  show_list (fun p => hex_encode (fst p) ++ ">" ++ hex_encode (snd p)) (rev l).

(* requests
     exec  ENV ORACLE IR            -> "<result> | <targets written, in order>"
     an    ENV IR                   -> "1" | "0"        (checks_first)
     inst  TMPL DECL VBODY          -> checks_first of the instantiation, "1" | "0"
     world ENV TMV TMP VT n CALL*   -> "<result>;...;<result> | <latch>"                       *)
Definition run_exec (r : tokens) : string :=
  match p_env r with
  | Some (E, r1) =>
      match p_oracle r1 with
      | Some (a, r2) =>
          match p_ir r2 with
          | Some (ir, _) => let (s, res) := exec E ir [] a in show_result res ++ " | " ++ show_state s
          | None => "bad-ir" end
      | None => "bad-oracle" end
  | None => "bad-env" end.

Definition run_an (r : tokens) : string :=
  match p_env r with
  | Some (E, r1) =>
      match p_ir r1 with
      | Some (ir, _) => if checks_first E ir then "1" else "0"
      | None => "bad-ir" end
  | None => "bad-env" end.

Definition run_world (r : tokens) : string :=
  match p_env r with
  | Some (E, r1) =>
      match p_counted p_tstmt r1 with
      | Some (tmv, r2) =>
          match p_counted p_tstmt r2 with
          | Some (tmp, r3) =>
              match p_counted rd_validator r3 with
              | Some (vt, r4) =>
                  match p_counted p_wcall r4 with
                  | Some (cs, _) =>
                      let (w, rs) := wrun (mk_tables E tmv tmp vt) cs (mk_world [] []) in
                      Wire.join ";" (map (fun pr => show_result (snd pr)) rs) ++ " | " ++ show_latch (w_latch w)
                  | None => "bad-calls" end
              | None => "bad-validators" end
          | None => "bad-template" end
      | None => "bad-template" end
  | None => "bad-env" end.

Definition run_Setter (req : string) : string :=
  match words req with
  | cmd :: r =>
      if cmd =? "exec" then run_exec r
      else if cmd =? "an" then run_an r
      else if cmd =? "world" then run_world r
      else "bad-request"
  | [] => "bad-request"
  end.
