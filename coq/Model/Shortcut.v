(* Shortcut.v — executable model of MCNP shortcut handling in MontePy
   (montepy/input_parser/syntax_node.py: ShortcutNode, ListNode; the grammar rules
   number_sequence / shortcut_start / shortcut_sequence / shortcut_phrase of parser_base.py).

   Part 1  reading:   token list -> parsed nodes (values + shortcuts with their virtual values),
                      as ShortcutNode.__init__ / _expand_repeat / _expand_multiply / _expand_jump /
                      _expand_interpolate build them; [spec_expand] is the independent MCNP-manual
                      expansion of the same token list.
   Part 2  re-compression: ListNode.update_with_new_values / _expand_shortcuts with
                      ShortcutNode.consume_edge_node / _can_consume_node / _is_valid_interpolate_edge.
   Part 3  formatting: ShortcutNode.format / _format_jump / _format_repeat / _format_multiply /
                      _format_interpolate and ListNode.format (incl. the _shares_edge rule), producing
                      a list of printed pieces; [render] is the text; [piece_tokens] reads the pieces back
                      as MCNP would tokenise the text (blank separated; pieces printed without a blank
                      between them fuse into one invalid token).

   Values are exact rationals (Coq Q).  math.isclose(rel_tol=1e-9, abs_tol=0) is [qclose].
   NOT modelled: ValueNode.format (number formatting, property C05): the text of every value leaf is an
   input ([ltxt]; [ltxtsp] = its text once ListNode.format has given it a one-blank padding); the multiplier
   text of xM is a placeholder the harness fills in with the real formatter; log/pow of nILOG: the
   numeric decisions of _is_valid_interpolate_edge for a LOG_INTERPOLATE are an input table, its parse
   time expansion is kept symbolic ([VLog]).  New value nodes are assumed to be pairwise distinct objects
   (the id()-keyed dict of update_with_new_values is modelled as a positional list).
   No proofs in this file. *)
From Coq Require Import List String Ascii ZArith QArith Qabs Bool Lia.
From MPV Require Import Model.Wire.
Import ListNotations.
Open Scope string_scope.
Local Notation "a +++ b" := (List.app a b) (at level 60, right associativity).

(* ------------------------------------------------------------------ numbers *)
Definition tol_inv : Q := 1000000000 # 1.          (* 1 / rel_tol *)

(* math.isclose(a, b, rel_tol=1e-9, abs_tol=0.0) *)
Definition qclose (a b : Q) : bool :=
  Qeq_bool a b
  || Qle_bool (Qabs (b - a) * tol_inv) (Qabs b)
  || Qle_bool (Qabs (b - a) * tol_inv) (Qabs a).

Definition zclose (a b : Z) : bool := qclose (inject_Z a) (inject_Z b).

(* ------------------------------------------------------------------ Part 1: reading *)
Inductive kind := KR | KM | KJ | KI | KL.

Inductive tok :=
| TNum (q : Q)
| TJmp (n : option nat)
| TRep (n : option nat)
| TInt (n : option nat)
| TLog (n : option nat)
| TMul (x : Q)
| TBad.

(* an expanded entry *)
Inductive val :=
| VQ (q : Q)
| VJ
| VLog (a b : Q) (n j : nat).        (* j-th of n logarithmic interpolates between a and b *)

Inductive pnode :=
| PVal (q : Q)
| PSc (k : kind) (vs : list val) (shares : bool).

Inductive perr := PReject | PValue | PCrash.
Inductive pres := POk (ns : list pnode) | PErr (e : perr).

Definition cnt (n : option nat) : nat := match n with Some k => k | None => 1%nat end.

Definition expand_repeat (v : val) (n : nat) : list val := repeat v n.
Definition expand_multiply (v x : Q) : val := VQ (v * x).
Definition expand_jump (n : nat) : list val := repeat VJ n.

(* begin + spacing * (i + 1), spacing = (end - begin) / (number + 1), for i in range(number) *)
Fixpoint interp_from (b spacing : Q) (i n : nat) : list val :=
  match n with
  | O => []
  | S m => VQ (b + spacing * inject_Z (Z.of_nat (S i))) :: interp_from b spacing (S i) m
  end.
Definition expand_interpolate (b e : Q) (n : nat) : list val :=
  interp_from b ((e - b) / inject_Z (Z.of_nat (S n))) 0 n.

Fixpoint log_from (b e : Q) (n i m : nat) : list val :=
  match m with
  | O => []
  | S m' => VLog b e n (S i) :: log_from b e n (S i) m'
  end.
Definition expand_log (b e : Q) (n : nat) : list val := log_from b e n 0 n.

Definition qpos (q : Q) : bool := negb (Qle_bool q 0).
Definition qzero (q : Q) : bool := Qeq_bool q 0.

(* the value a following shortcut starts from; [chain] = how many shortcuts are chained at the end *)
Inductive lastinfo := LNone | LVal (q : Q) | LSc (chain : nat) (last : option val).

(* a shortcut chained onto others starts from the last value of the whole chain in front: list(p[0])[-1] *)
Definition pnode_vals (n : pnode) : list val := match n with PVal q => [VQ q] | PSc _ vs _ => vs end.
Definition chain_vals (ns : list pnode) (chain : nat) : list val :=
  flat_map pnode_vals (rev (firstn chain (rev ns))).
Definition last_of (ns : list pnode) (chain : nat) : lastinfo :=
  match rev ns with
  | [] => LNone
  | PVal q :: _ => LVal q
  | PSc _ _ _ :: _ => LSc chain (match rev (chain_vals ns chain) with [] => None | v :: _ => Some v end)
  end.

Definition drop_last {A} (l : list A) : list A := removelast l.

(* one R / M / I / ILOG token applied to what precedes it.
   [mk first] builds the virtual values given the value the shortcut starts from. *)
Definition attach (ns : list pnode) (chain : nat) (k : kind) (mk : Q -> option (list val))
  : pres * nat :=
  match last_of ns chain with
  | LNone => (PErr PReject, 0%nat)
  | LVal q =>
      match mk q with
      | Some vs => (POk (drop_last ns +++ [PSc k (VQ q :: vs) false]), 1%nat)
      | None => (PErr PValue, 0%nat)
      end
  | LSc c last =>
      (* any number of shortcuts can be chained: the start value is the last value in front *)
      match last with
      | None => (PErr PCrash, 0%nat)               (* 0J followed by a shortcut: IndexError *)
      | Some VJ => (PErr PValue, 0%nat)            (* "... cannot follow a jump" *)
      | Some (VLog _ _ _ _) => (PErr PCrash, 0%nat)  (* unreachable: a shortcut never ends in an interpolate *)
      | Some (VQ q) =>
          match mk q with
          | Some vs => (POk (ns +++ [PSc k vs true]), S c)
          | None => (PErr PValue, 0%nat)
          end
      end
  end.

Fixpoint parse_aux (ts : list tok) (ns : list pnode) (chain : nat) : pres :=
  match ts with
  | [] => POk ns
  | TNum q :: r => parse_aux r (ns +++ [PVal q]) 0
  | TJmp n :: r => parse_aux r (ns +++ [PSc KJ (expand_jump (cnt n)) false]) 1
  | TRep n :: r =>
      match attach ns chain KR (fun q => Some (expand_repeat (VQ q) (cnt n))) with
      | (POk ns', c) => parse_aux r ns' c
      | (PErr e, _) => PErr e
      end
  | TMul x :: r =>
      match attach ns chain KM (fun q => Some [expand_multiply q x]) with
      | (POk ns', c) => parse_aux r ns' c
      | (PErr e, _) => PErr e
      end
  | TInt n :: TNum e :: r =>                            (* the end may be zero (a null_phrase) *)
      match attach ns chain KI (fun q => Some (expand_interpolate q e (cnt n) +++ [VQ e])) with
      | (POk ns', c) => parse_aux r ns' c
      | (PErr e, _) => PErr e
      end
  | TLog n :: TNum e :: r =>
      if qzero e then PErr PReject                      (* the end must be a NUMBER token, not NULL *)
      else
      match attach ns chain KL (fun q => if qpos q && qpos e
                                         then Some (expand_log q e (cnt n) +++ [VQ e])
                                         else None) with   (* math.log: ValueError *)
      | (POk ns', c) => parse_aux r ns' c
      | (PErr e, _) => PErr e
      end
  | TInt _ :: _ => PErr PReject
  | TLog _ :: _ => PErr PReject
  | TBad :: _ => PErr PReject
  end.

Definition parse_list (ts : list tok) : pres := parse_aux ts [] 0.

Definition pnode_values (n : pnode) : list val :=
  match n with PVal q => [VQ q] | PSc _ vs _ => vs end.
Definition values (ns : list pnode) : list val := flat_map pnode_values ns.

(* --- the independent expansion: MCNP manual, "nR repeat the preceding entry n times; nI insert n linear
   interpolates between the preceding and the following entry; xM the product of the preceding entry and x;
   nJ jump over n entries; nILOG as nI but logarithmic" --- *)
Fixpoint lin_steps (a b : Q) (k j m : nat) : list val :=
  match m with
  | O => []
  | S m' => VQ (a + (b - a) * inject_Z (Z.of_nat j) / inject_Z (Z.of_nat (S k))) :: lin_steps a b k (S j) m'
  end.
Fixpoint log_steps (a b : Q) (k j m : nat) : list val :=
  match m with
  | O => []
  | S m' => VLog a b k j :: log_steps a b k (S j) m'
  end.

Fixpoint spec_expand_aux (prev : option val) (ts : list tok) : option (list val) :=
  match ts with
  | [] => Some []
  | TNum q :: r => option_map (cons (VQ q)) (spec_expand_aux (Some (VQ q)) r)
  | TJmp n :: r =>
      option_map (app (repeat VJ (cnt n)))
                 (spec_expand_aux (match cnt n with O => prev | _ => Some VJ end) r)
  | TRep n :: r =>
      match prev with
      | Some (VQ q) => option_map (app (repeat (VQ q) (cnt n))) (spec_expand_aux prev r)
      | _ => None
      end
  | TMul x :: r =>
      match prev with
      | Some (VQ q) => option_map (cons (VQ (q * x))) (spec_expand_aux (Some (VQ (q * x))) r)
      | _ => None
      end
  | TInt n :: TNum e :: r =>
      match prev with
      | Some (VQ q) =>
          option_map (app (lin_steps q e (cnt n) 1 (cnt n) +++ [VQ e])) (spec_expand_aux (Some (VQ e)) r)
      | _ => None
      end
  | TLog n :: TNum e :: r =>
      match prev with
      | Some (VQ q) =>
          if qpos q && qpos e then
            option_map (app (log_steps q e (cnt n) 1 (cnt n) +++ [VQ e])) (spec_expand_aux (Some (VQ e)) r)
          else None
      | _ => None
      end
  | TInt _ :: _ => None
  | TLog _ :: _ => None
  | TBad :: _ => None
  end.
Definition spec_expand (ts : list tok) : option (list val) := spec_expand_aux None ts.

(* equality of expanded entries: rationals up to Qeq *)
Definition veqb (a b : val) : bool :=
  match a, b with
  | VQ x, VQ y => Qeq_bool x y
  | VJ, VJ => true
  | VLog a1 b1 n1 j1, VLog a2 b2 n2 j2 => Qeq_bool a1 a2 && Qeq_bool b1 b2 && Nat.eqb n1 n2 && Nat.eqb j1 j2
  | _, _ => false
  end.

(* ------------------------------------------------------------------ Part 2: re-compression *)
Inductive vty := TyInt | TyFloat.
Definition vty_eqb (a b : vty) : bool :=
  match a, b with TyInt, TyInt => true | TyFloat, TyFloat => true | _, _ => false end.

(* a ValueNode *)
Record leaf := mkLeaf {
  lid : Z;                 (* object identity *)
  lval : option Q;         (* None: a jump *)
  lty : vty;
  lpad : bool;             (* padding is not None *)
  lnever : bool;           (* never_pad *)
  ltxt : string;           (* ValueNode.format() as it is *)
  ltxtsp : string;         (* ValueNode.format() after padding := PaddingNode(" ") *)
  lneg : option bool       (* is_negative: the separately stored minus sign of a negatable node (None: not negatable) *)
}.

Definition neg_eqb (a b : option bool) : bool :=
  match a, b with
  | None, None => true
  | Some x, Some y => Bool.eqb x y
  | _, _ => false
  end.

(* a ShortcutNode *)
Record sc := mkSc {
  sid : Z;
  skind : kind;
  snodes : list leaf;      (* the deque of consumed nodes *)
  sshare : bool;           (* _shares_edge *)
  sorig : nat;             (* len(_original) *)
  sotok : string;          (* the shortcut token of _original ("2r", "J", "10ILOG"); "" when there is none *)
  snumtok : option string; (* _num_node._token as text *)
  snumog : option Z;       (* _num_node._og_value *)
  sendpad : string;        (* end_padding.format() or "" *)
  smidpad : string;        (* interpolate: _original[2].format() *)
  sbegin : Q; send : Q; sspacing : Q;
  sfull : bool;            (* multiply: _full *)
  slogfirst : string;      (* LOG_INTERPOLATE decision tables, one char '0' '1' 'E' per position of new_vals *)
  slogfwd : string;
  slogrev : string;
  slogdesc : bool;         (* LOG_INTERPOLATE: the numeric part of _describes_its_values for the nodes it ends up with *)
  smulok : bool            (* MULTIPLY: the multiplier text that is printed reproduces the second value (rel_tol / 2) *)
}.

Definition set_nodes (s : sc) (ns : list leaf) : sc :=
  mkSc (sid s) (skind s) ns (sshare s) (sorig s) (sotok s) (snumtok s) (snumog s) (sendpad s) (smidpad s)
       (sbegin s) (send s) (sspacing s) (sfull s) (slogfirst s) (slogfwd s) (slogrev s) (slogdesc s) (smulok s).
Definition set_share (s : sc) (b : bool) : sc :=
  mkSc (sid s) (skind s) (snodes s) b (sorig s) (sotok s) (snumtok s) (snumog s) (sendpad s) (smidpad s)
       (sbegin s) (send s) (sspacing s) (sfull s) (slogfirst s) (slogfwd s) (slogrev s) (slogdesc s) (smulok s).
Definition set_full (s : sc) (b : bool) : sc :=
  mkSc (sid s) (skind s) (snodes s) (sshare s) (sorig s) (sotok s) (snumtok s) (snumog s) (sendpad s) (smidpad s)
       (sbegin s) (send s) (sspacing s) b (slogfirst s) (slogfwd s) (slogrev s) (slogdesc s) (smulok s).

(* ShortcutNode(p=None, short_type=Shortcuts.JUMP) *)
Definition fresh_jump (id : Z) : sc :=
  mkSc id KJ [] false 0 "" None None " " " " 0 0 0 false "" "" "" true true.

Inductive err := EIndex | EZeroDiv | EType | EMath | EBadReq.
Inductive res (A : Type) := Ok (a : A) | Err (e : err).
Arguments Ok {A} a.
Arguments Err {A} e.

Definition first_leaf (l : list leaf) : option leaf := hd_error l.
Definition last_leaf (l : list leaf) : option leaf := hd_error (rev l).

Definition table_at (t : string) (pos : nat) : res bool :=
  match String.get pos t with
  | Some "1"%char => Ok true
  | Some "0"%char => Ok false
  | Some "E"%char => Err EMath
  | _ => Err EBadReq
  end.

(* ShortcutNode._can_consume_node; returns the decision and the (possibly updated: _full) shortcut *)
Definition can_consume (s : sc) (pos : nat) (node : leaf) (fwd : bool) (last_edge : bool) : res (bool * sc) :=
  match skind s with
  | KJ => Ok (match lval node with None => true | Some _ => false end, s)
  | KR =>
      match snodes s, lval node with
      | [], Some _ => Ok (true, s)
      | [], None => Ok (false, s)
      | _, _ =>
          match (if fwd then last_leaf (snodes s) else first_leaf (snodes s)) with
          | None => Err EIndex                          (* self.nodes[-1] on an empty deque *)
          | Some edge =>
              if negb (vty_eqb (lty edge) (lty node)) then Ok (false, s)
              else match lval edge, lval node with
                   | Some a, Some b =>
                       (* a neighbour that differs only in its separately stored minus sign is not a repeat *)
                       if negb (neg_eqb (lneg edge) (lneg node)) then Ok (false, s) else Ok (qclose a b, s)
                   | _, _ => Ok (false, s)
                   end
          end
      end
  | KI =>
      match lval node with
      | None => Ok (false, s)
      | Some v =>
          match (if fwd then last_leaf (snodes s) else first_leaf (snodes s)) with
          | None => Ok (qclose (if fwd then sbegin s else send s) v, s)
          | Some edge =>
              match lval edge with
              | None => Err EType
              | Some e => Ok (qclose (if fwd then e + sspacing s else e - sspacing s) v, s)
              end
          end
      end
  | KL =>
      match lval node with
      | None => Ok (false, s)
      | Some _ =>
          match snodes s with
          | [] => match table_at (slogfirst s) pos with Ok b => Ok (b, s) | Err e => Err e end
          | _ => match table_at (if fwd then slogfwd s else slogrev s) pos with
                 | Ok b => Ok (b, s) | Err e => Err e end
          end
      end
  | KM =>
      match lval node with
      | None => Ok (false, s)
      | Some _ =>
          match snodes s with
          | [] => Ok (true, set_full s last_edge)
          | [f] => Ok (negb (sfull s) && negb (match lval f with Some q => qzero q | None => false end), s)
          | _ => Ok (false, s)
          end
      end
  end.

(* ShortcutNode.consume_edge_node *)
Definition consume (s : sc) (pos : nat) (node : leaf) (fwd : bool) (last_edge : bool) : res (bool * sc) :=
  match can_consume s pos node fwd last_edge with
  | Err e => Err e
  | Ok (false, s') => Ok (false, s')
  | Ok (true, s') =>
      Ok (true, set_nodes s' (if fwd then snodes s' +++ [node] else node :: snodes s'))
  end.

(* the values of new_vals_cache, position by position *)
Inductive entry := EVal | ESc (id : Z).

Fixpoint set_nth {A} (n : nat) (x : A) (l : list A) : list A :=
  match n, l with
  | _, [] => []
  | O, _ :: r => x :: r
  | S k, a :: r => a :: set_nth k x r
  end.

Fixpoint find_sc (id : Z) (st : list sc) : option sc :=
  match st with
  | [] => None
  | s :: r => if Z.eqb (sid s) id then Some s else find_sc id r
  end.
Fixpoint put_sc (s : sc) (st : list sc) : list sc :=
  match st with
  | [] => [s]
  | a :: r => if Z.eqb (sid a) (sid s) then s :: r else a :: put_sc s r
  end.

Fixpoint pos_of (id : Z) (vals : list leaf) (i : nat) : option nat :=
  match vals with
  | [] => None
  | l :: r => if Z.eqb (lid l) id then Some i else pos_of id r (S i)
  end.

(* "for node in shortcut.nodes: if id(node) in new_vals_cache: ...; break" *)
Fixpoint first_bound (nodes : list leaf) (vals : list leaf) : option nat :=
  match nodes with
  | [] => None
  | n :: r => match pos_of (lid n) vals 0 with
              | Some p => Some p
              | None => first_bound r vals
              end
  end.

Fixpoint bind (shorts : list sc) (vals : list leaf) (cache : list entry) (store : list sc)
  : list entry * list sc :=
  match shorts with
  | [] => (cache, store)
  | s :: r =>
      match first_bound (snodes s) vals with
      | Some p => bind r vals (set_nth p (ESc (sid s)) cache)
                       (put_sc (set_share (set_nodes s []) false) store)
      | None => bind r vals cache (put_sc s store)
      end
  end.

(* The loop of _expand_shortcuts walks new_vals_cache.values() (same order as new_vals) and rewrites the
   entry of the position it is at, or - in try_reverse_expansion - of positions just before it.  The model keeps
   the dict as a zipper: [zdone] = the entries before position i, most recent first (so that the backwards walk
   of try_reverse_expansion is a walk from the head), the remaining entries are the argument of [zloop]. *)
Record zstate := mkZ {
  zdone : list (entry * leaf);
  zstore : list sc;
  zcur : option Z;          (* "shortcut" *)
  zlast : nat;              (* "last_end" *)
  zfresh : Z
}.

(* try_reverse_expansion: for value in new_vals[i-1 : last_end : -1]  ([budget] = number of positions in the slice,
   [k] = the position of the head of [done]) *)
Fixpoint zrev_expand (budget : nat) (k : nat) (s : sc) (done : list (entry * leaf))
  : res (sc * list (entry * leaf)) :=
  match budget, done with
  | S b, (_, v) :: d' =>
      match consume s k v false false with
      | Err e => Err e
      | Ok (true, s') =>
          match zrev_expand b (Nat.pred k) s' d' with
          | Err e => Err e
          | Ok (s'', d'') => Ok (s'', (ESc (sid s), v) :: d'')
          end
      | Ok (false, s') => Ok (s', (EVal, v) :: d')
      end
  | _, _ => Ok (s, done)
  end.

(* check_for_orphan_jump; -> the entry of position i and the new state *)
Definition zorphan (i : nat) (v : leaf) (e : entry) (st : zstate) : res (entry * zstate) :=
  match lval v, zcur st with
  | None, None =>
      let s := fresh_jump (zfresh st) in
      match consume s i v true false with
      | Err er => Err er
      | Ok (true, s') => Ok (ESc (sid s), mkZ (zdone st) (put_sc s' (zstore st)) (Some (sid s)) (zlast st) (zfresh st + 1))
      | Ok (false, s') => Ok (e, mkZ (zdone st) (put_sc s' (zstore st)) (Some (sid s)) (zlast st) (zfresh st + 1))
      end
  | _, _ => Ok (e, st)
  end.

Definition zpush (e : entry) (v : leaf) (st : zstate) : zstate :=
  mkZ ((e, v) :: zdone st) (zstore st) (zcur st) (zlast st) (zfresh st).

(* one iteration of the loop of _expand_shortcuts, at position i = length (zdone st) *)
Definition zstep (st : zstate) (ev : entry * leaf) : res zstate :=
  let i := List.length (zdone st) in
  let (e, v) := ev in
  match e with
  | ESc id =>
      match find_sc id (zstore st) with
      | None => Err EBadReq
      | Some s =>
          (* shortcuts bumped up against each other *)
          let le := match zcur st with Some _ => Nat.pred i | None => zlast st end in
          let flag := Nat.eqb i (S le) && negb (Nat.eqb le 0) in
          match consume s i v true flag with
          | Err er => Err er
          | Ok (true, s') =>
              match zrev_expand (if Nat.ltb 1 i then Nat.pred i - le else 0) (Nat.pred i) s' (zdone st) with
              | Err er => Err er
              | Ok (s'', done') => Ok (mkZ ((ESc id, v) :: done') (put_sc s'' (zstore st)) (Some id) le (zfresh st))
              end
          | Ok (false, s') =>
              match zorphan i v EVal (mkZ (zdone st) (put_sc s' (zstore st)) None le (zfresh st)) with
              | Err er => Err er
              | Ok (e', st') => Ok (zpush e' v st')
              end
          end
      end
  | EVal =>
      match zcur st with
      | Some id =>
          match find_sc id (zstore st) with
          | None => Err EBadReq
          | Some s =>
              let flag := Nat.eqb i (S (zlast st)) && negb (Nat.eqb (zlast st) 0) in
              match consume s i v true flag with
              | Err er => Err er
              | Ok (true, s') =>
                  Ok (mkZ ((ESc id, v) :: zdone st) (put_sc s' (zstore st)) (zcur st) (zlast st) (zfresh st))
              | Ok (false, s') =>
                  match zorphan i v EVal (mkZ (zdone st) (put_sc s' (zstore st)) None (Nat.pred i) (zfresh st)) with
                  | Err er => Err er
                  | Ok (e', st') => Ok (zpush e' v st')
                  end
              end
          end
      | None =>
          match zorphan i v EVal st with
          | Err er => Err er
          | Ok (e', st') => Ok (zpush e' v st')
          end
      end
  end.

Fixpoint zloop (todo : list (entry * leaf)) (st : zstate) : res zstate :=
  match todo with
  | [] => Ok st
  | ev :: r => match zstep st ev with
               | Err e => Err e
               | Ok st' => zloop r st'
               end
  end.

Inductive lnode := NVal (l : leaf) | NSc (s : sc).
Record listnode := mkList { lnodes : list lnode; lshorts : list sc }.

(* a value that ends up as a plain entry of the list can be padded again: never_pad is cleared when it has no padding *)
Definition unpin (l : leaf) : leaf :=
  if lpad l then l else mkLeaf (lid l) (lval l) (lty l) (lpad l) false (ltxt l) (ltxtsp l) (lneg l).

(* the loop that rebuilds _nodes / _shortcuts from the cache; [lastsc] = id of _shortcuts[-1] *)
Fixpoint collect (cache : list (entry * leaf)) (store : list sc) (lastsc : option Z)
  : list lnode * list sc :=
  match cache with
  | (EVal, v) :: cr =>
      let (ns, ss) := collect cr store lastsc in (NVal (unpin v) :: ns, ss)
  | (ESc id, _) :: cr =>
      let same := match lastsc with Some l => Z.eqb l id | None => false end in
      if same then collect cr store lastsc
      else match find_sc id store with
           | Some s => let (ns, ss) := collect cr store (Some id) in (NSc s :: ns, s :: ss)
           | None => collect cr store lastsc
           end
  | [] => ([], [])
  end.

Definition is_orphan_jump (n : lnode) : bool :=
  match n with
  | NSc s => match skind s with KJ => Nat.eqb (sorig s) 0 | _ => false end
  | NVal _ => false
  end.

(* ListNode.update_with_new_values *)
Definition update (shorts : list sc) (vals : list leaf) (fresh0 : Z) : res listnode :=
  match vals with
  | [] => Ok (mkList [] shorts)
  | _ =>
      let (cache0, store0) := bind shorts vals (map (fun _ => EVal) vals) [] in
      match zloop (combine cache0 vals) (mkZ [] store0 None 0 fresh0) with
      | Err e => Err e
      | Ok st =>
          let (ns, ss) := collect (rev (zdone st)) (zstore st) None in
          match rev ns with
          | last :: _ =>
              if is_orphan_jump last then Ok (mkList (removelast ns) (removelast ss))
              else Ok (mkList ns ss)
          | [] => Ok (mkList ns ss)
          end
      end
  end.

Definition lnode_leaves (n : lnode) : list leaf :=
  match n with NVal l => [l] | NSc s => snodes s end.
(* ListNode.__iter__ *)
Definition flatten (ns : list lnode) : list leaf := flat_map lnode_leaves ns.

(* ------------------------------------------------------------------ what a list means: closeness of expansions *)
Definition leaf_val (l : leaf) : val := match lval l with Some q => VQ q | None => VJ end.

(* pointwise closeness of a re-read list to the intended values *)
Definition vclose (a b : val) : bool :=
  match a, b with
  | VQ x, VQ y => qclose x y
  | VJ, VJ => true
  | VLog _ _ _ _, VQ _ => true      (* a logarithmic interpolant stays symbolic: its position is checked, its
                                       number (log / pow in binary64) only by the harness on the real text *)
  | _, _ => false
  end.
Fixpoint vlist_close (a b : list val) : bool :=
  match a, b with
  | [], [] => true
  | x :: r, y :: s => vclose x y && vlist_close r s
  | _, _ => false
  end.
(* trailing jumps may be left off *)
Fixpoint strip_trailing_jumps (l : list val) : list val :=
  match l with
  | [] => []
  | x :: r => match x, strip_trailing_jumps r with
              | VJ, [] => []
              | _, r' => x :: r'
              end
  end.

(* what "v nR", "v nI w", "v nILOG w", "nJ" over these nodes mean (the manual's definition) *)
Definition expect_jump (ns : list leaf) : option (list val) := Some (repeat VJ (List.length ns)).
Definition expect_repeat (ns : list leaf) : option (list val) :=
  match ns with
  | f :: r => match lval f with
              | Some q => Some (VQ q :: repeat (VQ q) (List.length r))
              | None => None
              end
  | [] => None
  end.
Definition expect_interp (k : kind) (ns : list leaf) : option (list val) :=
  match ns, last_leaf ns with
  | f :: _ :: _, Some e =>
      match lval f, lval e with
      | Some a, Some b =>
          let c := (List.length ns - 2)%nat in
          match k with
          | KL => if qpos a && qpos b then Some ([VQ a] +++ log_steps a b c 1 c +++ [VQ b]) else None
          | _ => Some ([VQ a] +++ lin_steps a b c 1 c +++ [VQ b])
          end
      | _, _ => None
      end
  | _, _ => None
  end.
(* does the printed shortcut mean the values of its nodes? *)
Definition sem_ok (e : option (list val)) (ns : list leaf) : bool :=
  match e with
  | Some l => vlist_close l (map leaf_val ns)
  | None => false
  end.

(* ------------------------------------------------------------------ Part 3: formatting *)
Inductive piece :=
| PcLeaf (v : option Q) (txt : string)        (* a value leaf with the text ValueNode.format gave *)
| PcCnt (n : Z) (txt : string)                (* the count node *)
| PcMul (q : Q) (s a b : Z)                   (* the multiplier of shortcut s: value of leaf b / value of leaf a *)
| PcLet (k : kind) (txt : string)             (* the shortcut letter(s) *)
| PcPad (txt : string).

Fixpoint has_char (c : ascii) (s : string) : bool :=
  match s with
  | EmptyString => false
  | String a r => Ascii.eqb a c || has_char c r
  end.
Definition is_digit (a : ascii) : bool :=
  let n := nat_of_ascii a in Nat.leb 48 n && Nat.leb n 57.
Fixpoint strip_digits (s : string) : string :=
  match s with
  | String a r => if is_digit a then strip_digits r else s
  | EmptyString => EmptyString
  end.
Fixpoint lstrip0 (s : string) : string :=
  match s with
  | String a r => if Ascii.eqb a "0" || Ascii.eqb a "+" || Ascii.eqb a "-" then lstrip0 r else s
  | EmptyString => EmptyString
  end.
Fixpoint nchars (c : ascii) (n : nat) : string :=
  match n with O => EmptyString | S k => String c (nchars c k) end.

Definition is_ws (a : ascii) : bool :=
  let n := nat_of_ascii a in Nat.eqb n 32 || Nat.eqb n 10 || Nat.eqb n 9 || Nat.eqb n 13.
(* text[-1].isspace() *)
Fixpoint ends_ws (s : string) : bool :=
  match s with
  | EmptyString => false
  | String a EmptyString => is_ws a
  | String _ r => ends_ws r
  end.
(* str.strip() *)
Fixpoint lstrip_ws (s : string) : string :=
  match s with
  | String a r => if is_ws a then lstrip_ws r else s
  | EmptyString => EmptyString
  end.
Fixpoint rstrip_by (f : ascii -> bool) (s : string) : string :=
  match s with
  | EmptyString => EmptyString
  | String a r => match rstrip_by f r with
                  | EmptyString => if f a then EmptyString else String a EmptyString
                  | r' => String a r'
                  end
  end.
Definition strip_ws (s : string) : string := rstrip_by is_ws (lstrip_ws s).
Definition is_space (a : ascii) : bool := Nat.eqb (nat_of_ascii a) 32.
(* ShortcutNode._format_first_value: the text followed by at least one blank *)
Definition ensure_blank (t : string) : string :=
  if String.eqb t "" then "" else if ends_ws t then t else t ++ " ".

(* "{v:0=-{zp}d}" *)
Definition fmt_int (zp : nat) (v : Z) : string :=
  let d := show_Z (Z.abs v) in
  let sg := if (v <? 0)%Z then "-" else "" in
  sg ++ nchars "0" (zp - String.length sg - String.length d) ++ d.
Definition ljust (s : string) (w : nat) : string := s ++ nchars " " (w - String.length s).

(* ValueNode.format of the int count node _num_node (never_pad, no padding) after its value was set to v *)
Definition fmt_count (numtok : option string) (og : option Z) (v : Z) : string :=
  let changed := match og with None => true | Some o => negb (zclose v o) end in
  match numtok with
  | Some t =>
      if changed then
        let len := String.length t in
        let delta0 := (len - String.length (lstrip0 t))%nat in
        let signed := match t with
                      | String a _ => Ascii.eqb a "+" || Ascii.eqb a "-"
                      | EmptyString => false
                      end in
        let delta := if signed then Nat.pred delta0 else delta0 in
        let zp := if Nat.ltb 0 delta then len else 0%nat in
        ljust (fmt_int zp v) len
      else t
  | None => show_Z v
  end.

(* "{count.format().strip()}" *)
Definition count_piece (s : sc) (n : Z) : piece := PcCnt n (strip_ws (fmt_count (snumtok s) (snumog s) n)).
Definition leaf_piece (l : leaf) : piece := PcLeaf (lval l) (ltxt l).
Definition first_piece (l : leaf) : piece := PcLeaf (lval l) (ensure_blank (ltxt l)).
Definition pad_pieces (t : string) : list piece :=
  if String.eqb t "" then [] else [PcPad t].

Definition zlen {A} (l : list A) : Z := Z.of_nat (List.length l).

Definition mul_placeholder (s a b : Z) : string :=
  "{M:" ++ show_Z s ++ ":" ++ show_Z a ++ ":" ++ show_Z b ++ "}".
Definition piece_text (p : piece) : string :=
  match p with
  | PcLeaf _ t => t
  | PcCnt _ t => t
  | PcMul _ s a b => mul_placeholder s a b
  | PcLet _ t => t
  | PcPad t => t
  end.
Definition render (ps : list piece) : string := String.concat "" (map piece_text ps).

(* ShortcutNode._describes_its_values *)
Definition with_leading (s : sc) (leading : option sc) : list leaf :=
  match leading with
  | Some p => match last_leaf (snodes p) with Some x => x :: snodes s | None => snodes s end
  | None => snodes s
  end.
Definition describes (s : sc) (leading : option sc) : bool :=
  let nodes := with_leading s leading in
  let n := List.length nodes in
  match skind s with
  | KJ => true
  | KM =>
      if negb (Nat.eqb n 2) then false
      else if negb (forallb (fun l => match lval l with Some _ => true | None => false end) nodes) then true
      else match first_leaf nodes, last_leaf nodes with
           | Some f, Some l =>
               match lval f, lval l with
               | Some a, Some b => negb (qzero a) || qzero b
               | _, _ => true
               end
           | _, _ => true
           end
  | KR =>
      if Nat.ltb n 2 then false
      else if negb (forallb (fun l => match lval l with Some _ => true | None => false end) nodes) then true
      else sem_ok (expect_repeat nodes) nodes
  | KI =>
      if Nat.ltb n 3 then false
      else if negb (forallb (fun l => match lval l with Some _ => true | None => false end) nodes) then true
      else sem_ok (expect_interp KI nodes) nodes
  | KL =>
      if Nat.ltb n 3 then false
      else if negb (forallb (fun l => match lval l with Some _ => true | None => false end) nodes) then true
      else match first_leaf nodes, last_leaf nodes with
           | Some f, Some l =>
               match lval f, lval l with
               | Some a, Some b => if qpos a && qpos b then slogdesc s else false
               | _, _ => true
               end
           | _, _ => true
           end
  end.

(* ShortcutNode._format_expanded: every value on its own; a blank is put between two texts that would fuse.
   [acc] = the text written so far *)
Fixpoint expand_pieces (ns : list (leaf * bool)) (acc : string) : list piece :=
  match ns with
  | [] => []
  | (l, virtual) :: r =>
      let t := if virtual then ltxtsp l else ltxt l in
      let sep := if negb (String.eqb acc "") && negb (ends_ws acc) then [PcPad " "] else [] in
      let acc' := (acc ++ (if negb (String.eqb acc "") && negb (ends_ws acc) then " " else "") ++ t)%string in
      sep +++ PcLeaf (lval l) t :: expand_pieces r acc'
  end.
(* ret.rstrip(" ") over the pieces *)
Fixpoint rstrip_pieces_rev (ps : list piece) : list piece :=     (* [ps] last piece first *)
  match ps with
  | [] => []
  | p :: r =>
      match rstrip_by is_space (piece_text p) with
      | EmptyString => rstrip_pieces_rev r
      | t => (match p with
              | PcLeaf v _ => PcLeaf v t
              | PcCnt n _ => PcCnt n t
              | PcLet k _ => PcLet k t
              | PcPad _ => PcPad t
              | PcMul _ _ _ _ => p
              end) :: r
      end
  end.
Definition rstrip_pieces (ps : list piece) : list piece := rev (rstrip_pieces_rev (rev ps)).

Fixpoint mark_virtual (ns : list leaf) (i first : nat) (keep_last : bool) : list (leaf * bool) :=
  match ns with
  | [] => []
  | l :: r =>
      let is_last := match r with [] => true | _ => false end in
      (l, Nat.leb first i && negb (keep_last && is_last)) :: mark_virtual r (S i) first keep_last
  end.
Definition format_expanded (s : sc) (has_leading : bool) : list piece :=
  let first := if has_leading then 0%nat else 1%nat in
  let keep_last := match skind s with KR => false | _ => true end in      (* nodes[first:] / nodes[first:-1] *)
  let ps := expand_pieces (mark_virtual (snodes s) 0 first keep_last) "" in
  if String.eqb (sendpad s) "" then ps else rstrip_pieces ps.

(* ShortcutNode._format_jump *)
Definition format_jump (s : sc) : list piece :=
  let n := zlen (snodes s) in
  if (n =? 0)%Z then []
  else
    let j := if Nat.ltb 0 (sorig s) && has_char "j" (sotok s) then "j" else "J" in
    if (n =? 1)%Z && (Nat.eqb (sorig s) 0 || negb (has_char "1" (sotok s)))
    then [PcLet KJ j]
    else [count_piece s n; PcLet KJ j].

(* ShortcutNode._format_repeat *)
Definition format_repeat (s : sc) (leading : bool) : res (list piece) :=
  match (if leading then Ok ([], 0%Z) else
           match first_leaf (snodes s) with
           | Some l => Ok ([first_piece l], 1%Z)
           | None => Err EIndex
           end) with
  | Err e => Err e
  | Ok (first, extra) =>
      let n := (zlen (snodes s) - extra)%Z in
      let r := if Nat.leb 2 (sorig s) && has_char "r" (sotok s) then "r" else "R" in
      if (n =? 1)%Z && Nat.leb 2 (sorig s) && negb (has_char "1" (sotok s))
      then Ok (first +++ [PcLet KR r])
      else Ok (first +++ [count_piece s n; PcLet KR r])
  end.

(* ShortcutNode._format_multiply; [lead] = last node of the leading shortcut.
   -> None: the multiplier cannot be printed precisely enough ([smulok]): written expanded *)
Definition format_multiply (s : sc) (lead : option (option leaf)) : res (option (list piece)) :=
  match (match lead with
         | Some (Some l) => Ok ([], l)
         | Some None => Err EIndex
         | None => match first_leaf (snodes s) with
                   | Some l => Ok ([first_piece l], l)
                   | None => Err EIndex
                   end
         end) with
  | Err e => Err e
  | Ok (first, fv) =>
      if Nat.eqb (sorig s) 0 then Err EIndex
      else
      let m := if has_char "M" (sotok s) then "M" else "m" in
      match last_leaf (snodes s) with
      | None => Err EIndex
      | Some lv =>
          match lval lv, lval fv with
          | Some a, Some b =>
              if negb (smulok s) then Ok None
              else Ok (Some (first +++ [PcMul (if qzero b then 1 else a / b) (sid s) (lid fv) (lid lv); PcLet KM m]))
          | _, _ => Err EType
          end
      end
  end.

(* ShortcutNode._format_interpolate *)
Definition format_interpolate (s : sc) (leading : bool) : res (list piece) :=
  match (if leading then Ok ([], 1%Z) else
           match first_leaf (snodes s) with
           | Some l => Ok ([first_piece l], 2%Z)
           | None => Err EIndex
           end) with
  | Err e => Err e
  | Ok (start, extra) =>
      match last_leaf (snodes s) with
      | None => Err EIndex
      | Some e =>
          let n := (zlen (snodes s) - extra)%Z in
          let rest := strip_digits (sotok s) in
          let word := if Nat.ltb 0 (sorig s) && negb (String.eqb rest "") then rest
                      else match skind s with KL => "ILOG" | _ => "I" end in
          let cntp := if (n =? 1)%Z && Nat.leb 2 (sorig s) && negb (has_char "1" (sotok s))
                      then [] else [count_piece s n] in
          let pad := if Nat.leb 3 (sorig s) then smidpad s else " " in
          Ok (start +++ cntp +++ [PcLet (skind s) word] +++ pad_pieces pad +++ [leaf_piece e])
      end
  end.

(* ShortcutNode.format *)
Definition format_sc (s : sc) (leading : option sc) : res (list piece) :=
  let has_leading := match leading with Some _ => true | None => false end in
  let body :=
    if negb (describes s leading) then Ok (format_expanded s has_leading)
    else
    match skind s with
    | KJ => Ok (format_jump s)
    | KR => format_repeat s has_leading
    | KM => match format_multiply s (option_map (fun p => last_leaf (snodes p)) leading) with
            | Err e => Err e
            | Ok (Some ps) => Ok ps
            | Ok None => Ok (format_expanded s has_leading)
            end
    | KI | KL => format_interpolate s has_leading
    end in
  match body with
  | Err e => Err e
  | Ok ps => Ok (ps +++ pad_pieces (sendpad s))
  end.

(* ListNode.format: what one node contributes *)
Definition lead_of (n : lnode) (prev : option lnode) : option sc :=
  match n, prev with
  | NSc s, Some (NSc p) => if sshare s then Some p else None
  | _, _ => None
  end.
(* a blank after a shortcut that is followed by another node *)
Definition blank_after (is_last : bool) (ps : list piece) : list piece :=
  let t := render ps in
  if negb is_last && negb (String.eqb t "") && negb (ends_ws t) then ps +++ [PcPad " "] else ps.
Definition node_out (n : lnode) (prev : option lnode) (is_last : bool) : res (list piece) :=
  match n with
  | NVal l =>
      let autopad := negb (lpad l) && negb is_last && negb (lnever l) in
      Ok [PcLeaf (lval l) (if autopad then ltxtsp l else ltxt l)]
  | NSc s =>
      match format_sc s (lead_of n prev) with
      | Err e => Err e
      | Ok ps => Ok (blank_after is_last ps)
      end
  end.
Fixpoint format_nodes (nodes : list lnode) (prev : option lnode) : res (list piece) :=
  match nodes with
  | [] => Ok []
  | n :: r =>
      match node_out n prev (match r with [] => true | _ => false end), format_nodes r (Some n) with
      | Ok a, Ok b => Ok (a +++ b)
      | Err e, _ => Err e
      | _, Err e => Err e
      end
  end.
Definition format_list (l : listnode) : res (list piece) := format_nodes (lnodes l) None.

(* --- reading the pieces back as MCNP tokenises the text --- *)
Fixpoint all_ws (s : string) : bool :=
  match s with EmptyString => true | String a r => is_ws a && all_ws r end.
(* the text up to the first blank, and what follows *)
Fixpoint span_body (s : string) : string * string :=
  match s with
  | EmptyString => (EmptyString, EmptyString)
  | String a r => if is_ws a then (EmptyString, s)
                  else let (b, t) := span_body r in (String a b, t)
  end.

Inductive tag := GLeaf (v : option Q) | GCnt (n : Z) | GMul (q : Q) | GLet (k : kind) | GBad.

Definition piece_tag (p : piece) : tag :=
  match p with
  | PcLeaf v _ => GLeaf v
  | PcCnt n _ => GCnt n
  | PcMul q _ _ _ => GMul q
  | PcLet k _ => GLet k
  | PcPad _ => GBad
  end.

Definition mk_tok (k : kind) (n : option nat) : tok :=
  match k with
  | KR => TRep n | KJ => TJmp n | KI => TInt n | KL => TLog n
  | KM => TBad
  end.

Definition group_tok (g : list tag) : option tok :=
  match g with
  | [] => None
  | [GLeaf (Some q)] => Some (TNum q)
  | [GLeaf None] => Some (TJmp None)
  | [GCnt n; GLet k] => Some (if (n <? 0)%Z then TBad else mk_tok k (Some (Z.to_nat n)))
  | [GLet k] => Some (mk_tok k None)
  | [GMul q; GLet KM] => Some (TMul q)
  | _ => Some TBad
  end.

Definition flush (g : list tag) (acc : list tok) : list tok :=
  match group_tok g with Some t => acc +++ [t] | None => acc end.

(* [g]: the pieces of the token being read (printed so far without a blank after them) *)
Fixpoint piece_tokens_aux (ps : list piece) (g : list tag) (acc : list tok) : list tok :=
  match ps with
  | [] => flush g acc
  | p :: r =>
      let t := match p with PcMul _ _ _ _ => "x" | _ => piece_text p end in
      let (body, rest) := span_body t in
      let g1 := if String.eqb body "" then g else g +++ [piece_tag p] in
      if String.eqb rest "" then piece_tokens_aux r g1 acc
      else if all_ws rest then piece_tokens_aux r [] (flush g1 acc)
      else piece_tokens_aux r [] (flush (g1 +++ [GBad]) acc)
  end.
Definition piece_tokens (ps : list piece) : list tok := piece_tokens_aux ps [] [].

(* what the written list means *)
Definition reexpand (ps : list piece) : option (list val) := spec_expand (piece_tokens ps).

(* the C08 sentence for one update: the written list re-reads as the current values *)
Definition recompress_ok (shorts : list sc) (vals : list leaf) (fresh0 : Z) : bool :=
  match update shorts vals fresh0 with
  | Err _ => false
  | Ok l =>
      match format_list l with
      | Err _ => false
      | Ok ps =>
          match reexpand ps with
          | None => false
          | Some out => vlist_close (strip_trailing_jumps out) (strip_trailing_jumps (map leaf_val vals))
          end
      end
  end.

(* ------------------------------------------------------------------ when is the formatted text sound?
   [format_ok] is the side condition of C08_recompress_partial; [node_diag] names which part fails
   (the harness attributes failures of the real code to known findings through these codes):
     E  formatting the node raises
     v  a leaf prints nothing (a value node whose value became None)
     x  text that is not a single blank-terminated word (comments, inner blanks); padding that is not blank
     f  a free leaf is printed without a blank after it and is not the last node (never_pad)
     w  the count text is not a bare number
     n  the count is negative      m  a multiply does not stand for exactly two values
     z  a multiply starts from a jump
     d  a repeat holds a value that is not isclose to its first value, or starts with a jump
     l  an interpolate holds a value that is not isclose to the interpolant between its first and last value,
        an end that is a jump, or - nILOG - an end that is not positive
     k  a jump shortcut holds a value
     p  a shortcut written as plain values: the values are not printed as blank-separated words
     q  ... or are not the values of its nodes
   The codes d l k q compare what the printed text means (the manual's definition) with the values of the nodes it
   stands for; the other codes are about how the text is cut into tokens. *)
Definition body_of (t : string) : string := fst (span_body t).
Definition rest_of (t : string) : string := snd (span_body t).
Definition word_ok (t : string) : bool := negb (String.eqb (body_of t) "") && all_ws (rest_of t).
Definition ends_blank (t : string) : bool := negb (String.eqb (rest_of t) "").
Definition cnt_txt_ok (t : string) : bool := negb (String.eqb t "") && String.eqb (rest_of t) "".

Definition code (b : bool) (c : string) : string := if b then c else "".

Definition free_leaf_diag (l : leaf) (is_last : bool) : string :=
  let autopad := negb (lpad l) && negb is_last && negb (lnever l) in
  let t := if autopad then ltxtsp l else ltxt l in
  if String.eqb t "" then "v"
  else if negb (word_ok t) then "x"
  else code (negb (ends_blank t) && negb is_last) "f".

Definition inner_leaf_diag (l : leaf) : string :=
  let t := ltxt l in
  if String.eqb t "" then "v"
  else code (negb (word_ok t)) "x".

Definition count_diag (s : sc) (n : Z) (omitted : bool) : string :=
  if omitted then "" else code (negb (cnt_txt_ok (strip_ws (fmt_count (snumtok s) (snumog s) n)))) "w".

Definition endpad_diag (s : sc) : string := code (negb (all_ws (sendpad s))) "x".

(* a shortcut written as plain values *)
Fixpoint plain_vals (ps : list piece) : list val :=
  match ps with
  | [] => []
  | PcLeaf (Some q) _ :: r => VQ q :: plain_vals r
  | PcLeaf None _ :: r => VJ :: plain_vals r
  | _ :: r => plain_vals r
  end.
(* [pending]: the leaf printed last has no blank after it yet *)
Fixpoint plain_ok (ps : list piece) (pending : bool) (is_last : bool) : bool :=
  match ps with
  | [] => negb pending || is_last
  | PcLeaf _ t :: r => negb pending && word_ok t && plain_ok r (negb (ends_blank t)) is_last
  | PcPad t :: r => all_ws t && negb (String.eqb t "") && plain_ok r false is_last
  | _ :: _ => false
  end.

(* is the node written as plain values? *)
Definition expanded_mode (s : sc) (lead : option sc) : bool :=
  negb (describes s lead) || match skind s with KM => negb (smulok s) | _ => false end.

(* a shortcut written as a shortcut *)
Definition sc_diag (s : sc) (leading : bool) : string :=
  let n := zlen (snodes s) in
  match skind s with
  | KJ =>
      let omitted := (n =? 1)%Z && (Nat.eqb (sorig s) 0 || negb (has_char "1" (sotok s))) in
      code (n =? 0)%Z "n" ++ count_diag s n omitted ++
      code (negb (sem_ok (expect_jump (snodes s)) (snodes s))) "k" ++ endpad_diag s
  | KR =>
      let extra := if leading then 0%Z else 1%Z in
      let c := (n - extra)%Z in
      let omitted := (c =? 1)%Z && Nat.leb 2 (sorig s) && negb (has_char "1" (sotok s)) in
      (if leading then "" else match first_leaf (snodes s) with
                               | Some l => inner_leaf_diag l
                               | None => "n" end) ++
      code (c <? 0)%Z "n" ++ count_diag s c omitted ++
      (if leading then "" else code (negb (sem_ok (expect_repeat (snodes s)) (snodes s))) "d") ++
      endpad_diag s
  | KM =>
      (if leading then code (negb (n =? 1)%Z) "m"
       else code (negb (n =? 2)%Z) "m" ++
            match first_leaf (snodes s) with
            | Some l => inner_leaf_diag l ++
                        code (match lval l with Some _ => false | None => true end) "z"
            | None => "" end ++
            match first_leaf (snodes s), last_leaf (snodes s) with
            | Some f, Some l =>
                code (match lval f, lval l with
                      | Some a, Some b => negb (negb (qzero a) || qzero b)
                      | _, _ => true
                      end) "v"
            | _, _ => "" end ++
            code (Nat.eqb (sorig s) 0) "x") ++
      endpad_diag s
  | KI | KL =>
      let extra := if leading then 1%Z else 2%Z in
      let c := (n - extra)%Z in
      let omitted := (c =? 1)%Z && Nat.leb 2 (sorig s) && negb (has_char "1" (sotok s)) in
      let pad := if Nat.leb 3 (sorig s) then smidpad s else " " in
      let rest := strip_digits (sotok s) in
      let word := if Nat.ltb 0 (sorig s) && negb (String.eqb rest "") then rest
                  else match skind s with KL => "ILOG" | _ => "I" end in
      code (c <? 0)%Z "n" ++
      (if leading then "" else match first_leaf (snodes s) with
                               | Some l => inner_leaf_diag l
                               | None => "" end) ++
      count_diag s c omitted ++
      code (negb (cnt_txt_ok word)) "x" ++
      code (negb (all_ws pad && negb (String.eqb pad ""))) "x" ++
      match last_leaf (snodes s) with
      | Some e => (if String.eqb (ltxt e) "" then "v" else code (negb (word_ok (ltxt e))) "x")
      | None => ""
      end ++ endpad_diag s ++
      (if leading then "" else code (negb (sem_ok (expect_interp (skind s) (snodes s)) (snodes s))) "l")
  end.

Definition node_diag_of (n : lnode) (prev : option lnode) (is_last : bool) : string :=
  match n with
  | NVal l => free_leaf_diag l is_last
  | NSc s =>
      match node_out n prev is_last with
      | Err _ => "E"
      | Ok ps =>
          if expanded_mode s (lead_of n prev) then
            code (negb (plain_ok ps false is_last)) "p" ++
            code (negb (vlist_close (plain_vals ps) (map leaf_val (snodes s)))) "q"
          else sc_diag s (match lead_of n prev with Some _ => true | None => false end)
      end
  end.

Fixpoint nodes_diag (nodes : list lnode) (prev : option lnode) : list string :=
  match nodes with
  | [] => []
  | n :: r => node_diag_of n prev (match r with [] => true | _ => false end) :: nodes_diag r (Some n)
  end.

Definition format_ok (l : listnode) : bool :=
  forallb (fun d => String.eqb d "") (nodes_diag (lnodes l) None).

(* ------------------------------------------------------------------ wire *)
Definition show_Q (q : Q) : string :=
  let r := Qred q in show_Z (Qnum r) ++ "/" ++ show_Z (Zpos (Qden r)).
Definition parse_Q (s : string) : option Q :=
  match split_on "/"%char s with
  | [a; b] => match parse_Z a, parse_Z b with
              | Some n, Some (Zpos d) => Some (n # d)
              | _, _ => None
              end
  | _ => None
  end.

Definition show_val (v : val) : string :=
  match v with
  | VQ q => show_Q q
  | VJ => "J"
  | VLog a b n j => "L(" ++ show_Q a ++ "~" ++ show_Q b ++ "~" ++ show_nat n ++ "~" ++ show_nat j ++ ")"
  end.
Definition show_kind (k : kind) : string :=
  match k with KR => "R" | KM => "M" | KJ => "J" | KI => "I" | KL => "L" end.
Definition parse_kind (s : string) : option kind :=
  if String.eqb s "R" then Some KR else if String.eqb s "M" then Some KM
  else if String.eqb s "J" then Some KJ else if String.eqb s "I" then Some KI
  else if String.eqb s "L" then Some KL else None.

Definition tail_str (s : string) : string := match s with String _ r => r | EmptyString => EmptyString end.
Definition parse_cnt (s : string) : option (option nat) :=
  if String.eqb s "-" then Some None else option_map Some (parse_nat s).

Definition parse_tok (s : string) : option tok :=
  match s with
  | String "n"%char r => option_map TNum (parse_Q r)
  | String "m"%char r => option_map TMul (parse_Q r)
  | String "j"%char r => option_map TJmp (parse_cnt r)
  | String "r"%char r => option_map TRep (parse_cnt r)
  | String "i"%char r => option_map TInt (parse_cnt r)
  | String "l"%char r => option_map TLog (parse_cnt r)
  | _ => None
  end.

Definition show_pnode (n : pnode) : string :=
  match n with
  | PVal q => "v:" ++ show_Q q
  | PSc k vs sh => "s:" ++ show_kind k ++ ":" ++ (if sh then "1" else "0") ++ ":" ++ show_list show_val vs
  end.

Definition show_vals (o : option (list val)) : string :=
  match o with Some l => show_list show_val l | None => "bad" end.

Definition run_exp (ts : string) : string :=
  match Wire.parse_list parse_tok ts with
  | None => "parse:err"
  | Some toks =>
      let sp := show_vals (spec_expand toks) in
      match parse_list toks with
      | POk ns => "ok " ++ (match ns with [] => "-" | _ => join ";" (map show_pnode ns) end) ++ " " ++ show_list show_val (values ns) ++ " " ++ sp
      | PErr PReject => "err:reject " ++ sp
      | PErr PValue => "err:value " ++ sp
      | PErr PCrash => "err:crash " ++ sp
      end
  end.

Definition parse_bool (s : string) : option bool :=
  if String.eqb s "1" then Some true else if String.eqb s "0" then Some false else None.
Definition parse_hex (s : string) : string := if String.eqb s "-" then "" else hex_decode s.

(* leaf: id:val:ty:pad:never:txt:txtsp:neg   (val = J | num/den ; ty = i | f ; texts in hex, "-" = empty;
   neg = - | 0 | 1) *)
Definition parse_leaf (s : string) : option leaf :=
  match split_on ":"%char s with
  | [i; v; ty; p; n; t; tsp; ng] =>
      match parse_Z i, (if String.eqb v "J" then Some None else option_map Some (parse_Q v)),
            (if String.eqb ty "i" then Some TyInt else if String.eqb ty "f" then Some TyFloat else None),
            parse_bool p, parse_bool n with
      | Some id, Some val, Some t', Some pb, Some nb =>
          Some (mkLeaf id val t' pb nb (parse_hex t) (parse_hex tsp)
                       (if String.eqb ng "-" then None else parse_bool ng))
      | _, _, _, _, _ => None
      end
  | _ => None
  end.

Definition dummy_leaf (id : Z) : leaf := mkLeaf id None TyFloat false false "" "" None.
Fixpoint find_leaf (id : Z) (pool : list leaf) : leaf :=
  match pool with
  | [] => dummy_leaf id
  | l :: r => if Z.eqb (lid l) id then l else find_leaf id r
  end.

Definition parse_ids (s : string) : option (list Z) :=
  if String.eqb s "-" then Some [] else map_opt parse_Z (split_on "."%char s).
Definition parse_optstr (s : string) : option string :=
  if String.eqb s "-" then None else Some (hex_decode (tail_str s)).      (* "x<hex>" *)
Definition parse_optZ (s : string) : option (option Z) :=
  if String.eqb s "-" then Some None else option_map Some (parse_Z s).

(* shortcut: sid:kind:ids:share:origlen:otok:numtok:numog:endpad:midpad:begin:end:spacing:full:t1:t2:t3:logdesc:mulok *)
Definition parse_sc (pool : list leaf) (s : string) : option sc :=
  match split_on ":"%char s with
  | [i; k; ids; sh; ol; ot; nt; no; ep; mp; b; e; sp; fu; t1; t2; t3; ld; mo] =>
      match parse_Z i, parse_kind k, parse_ids ids, parse_bool sh, parse_nat ol, parse_optZ no with
      | Some id, Some kd, Some nodeids, Some shb, Some oln, Some nog =>
          match parse_Q b, parse_Q e, parse_Q sp, parse_bool fu, parse_bool ld, parse_bool mo with
          | Some bq, Some eq, Some sq, Some fb, Some ldb, Some mob =>
              Some (mkSc id kd (map (fun x => find_leaf x pool) nodeids) shb oln (parse_hex ot)
                         (parse_optstr nt) nog (parse_hex ep) (parse_hex mp) bq eq sq fb
                         (if String.eqb t1 "-" then "" else t1)
                         (if String.eqb t2 "-" then "" else t2)
                         (if String.eqb t3 "-" then "" else t3) ldb mob)
          | _, _, _, _, _, _ => None
          end
      | _, _, _, _, _, _ => None
      end
  | _ => None
  end.

Definition parse_bar {A} (f : string -> option A) (s : string) : option (list A) :=
  if String.eqb s "-" then Some [] else map_opt f (split_on "|"%char s).

Definition show_ids (l : list leaf) : string :=
  match l with [] => "-" | _ => join "." (map (fun x => show_Z (lid x)) l) end.
Definition show_lnode (n : lnode) : string :=
  match n with
  | NVal l => "v" ++ show_Z (lid l)
  | NSc s => "s" ++ show_Z (sid s) ++ ":" ++ show_kind (skind s) ++ ":" ++ show_ids (snodes s)
  end.
Definition show_nodes (ns : list lnode) : string :=
  match ns with [] => "-" | _ => join ";" (map show_lnode ns) end.
Definition show_err (e : err) : string :=
  match e with
  | EIndex => "err:index" | EZeroDiv => "err:zerodiv" | EType => "err:type"
  | EMath => "err:math" | EBadReq => "err:badreq"
  end.
Definition hex_or_dash (s : string) : string := if String.eqb s "" then "-" else hex_encode s.

Definition show_diag (l : listnode) : string :=
  match lnodes l with
  | [] => "-"
  | ns => join ";" (map (fun d => if String.eqb d "" then "-" else d) (nodes_diag ns None))
  end.
Definition show_formatted (l : listnode) : string :=
  match format_list l with
  | Err e => show_nodes (lnodes l) ++ " " ++ show_err e ++ " bad " ++ show_diag l
  | Ok ps => show_nodes (lnodes l) ++ " " ++ hex_or_dash (render ps) ++ " " ++ show_vals (reexpand ps)
             ++ " " ++ show_diag l
  end.

(* node order of a parsed list: v<id> ; s<sid> *)
Definition parse_noderef (pool : list leaf) (scs : list sc) (s : string) : option lnode :=
  match s with
  | String "v"%char r => option_map (fun id => NVal (find_leaf id pool)) (parse_Z r)
  | String "s"%char r => match parse_Z r with
                         | Some id => option_map NSc (find_sc id scs)
                         | None => None
                         end
  | _ => None
  end.

Definition run_Shortcut (req : string) : string :=
  match words req with
  | ["exp"; ts] => run_exp ts
  | ["upd"; scs; vals; fr] =>
      match parse_bar parse_leaf vals, parse_Z fr with
      | Some pool, Some f0 =>
          match parse_bar (parse_sc pool) scs with
          | Some shorts =>
              match update shorts pool f0 with
              | Err e => show_err e
              | Ok l => "ok " ++ show_formatted l
              end
          | None => "parse:err"
          end
      | _, _ => "parse:err"
      end
  | ["fmt"; scs; leaves; order] =>
      match parse_bar parse_leaf leaves with
      | Some pool =>
          match parse_bar (parse_sc pool) scs with
          | Some shorts =>
              match (if String.eqb order "-" then Some []
                     else map_opt (parse_noderef pool shorts) (split_on ";"%char order)) with
              | Some ns => "ok " ++ show_formatted (mkList ns shorts)
              | None => "parse:err"
              end
          | None => "parse:err"
          end
      | None => "parse:err"
      end
  | _ => "parse:err"
  end.
