(* Exn.v — executable model of the EXCEPTION ROUTING of montepy.read_input:
     MCNP_Object.__init__           (montepy/mcnp_object.py)   ValueError -> MalformedInputError, None tree -> ParsingError
     MCNP_Problem.parse_input       (montepy/mcnp_problem.py)  per-input handler, UnsupportedFeature around the loop,
                                                               check mode: caught classes become warnings
     MCNP_Problem.__update_internal_pointers, Cells.update_pointers, Cells.__setup_blank_cell_modifiers
                                                               (handle_error: warn in check mode, else re-raise)
     read_data.flush_input          (input_syntax_reader.py)   a card that is not a read card is an ordinary input
   Nothing about WHICH handler catches WHAT is written here: the class hierarchy, every try/except of montepy with the
   possible exits of each clause, the chain of try statements around each routing site, the step order of
   MCNP_Object.__init__, the raise statements and the leak-prone primitive operations of the functions reachable from
   each site are the generated tables of coq/Gen/Errors.v (harness/translate_errors.py, regenerated on every run).
   This file gives them their meaning:

     exn      = class name + origin (Deliberate: a `raise` statement of MontePy; Primitive: the runtime or a library —
                a failed int(), a subscript, an attribute of None, sly's LexError)
     route    = Python's propagation of an exception through a chain of try statements, innermost first:
                the first clause whose classes contain the exception's class or one of its ancestors handles it;
                Swallow    the clause body completes (execution continues after the try statement)
                Convert C  the clause body raises C(...)            (a new, deliberate exception; continues outwards)
                Reraise    `raise e` / `raise`
                CheckWarn  `if check_input: warnings.warn(..) [continue] else: raise e`  (also through handle_error)
                a clause body with several possible exits yields every one of them (the result is a list)
     run      = parse_input as a sequence of events (site, exception raised there or none): the per-input loop, then
                the pointer update; a warning whose handler lies outside the loop ends the loop
   The property's constants (documented error types, explicit builtin types) are fixed here from the property text.
   NOT modelled: which exception the inner Python code raises on which input (that is explored by the search);
   `else`/`finally` parts (montepy's read path has none with an effect on routing); exception chaining (__cause__);
   warnings filters turning warnings into errors.  No proofs here. *)
From Coq Require Import List String Ascii Bool Arith.
From MPV Require Import Model.Wire.
Import ListNotations.
Open Scope string_scope.

(* ---------------------------------------------------------------- classes *)
Definition cls := string.
Definition hierarchy := list (cls * list cls).     (* class, proper ancestors (MRO order, without object) *)

Fixpoint ancestors (H : hierarchy) (c : cls) : list cls :=
  match H with
  | [] => []
  | (d, a) :: r => if String.eqb c d then a else ancestors r c
  end.

Definition mem (c : cls) (l : list cls) : bool := existsb (String.eqb c) l.

(* issubclass(c, d) *)
Definition subclass (H : hierarchy) (c d : cls) : bool := String.eqb c d || mem d (ancestors H c).
Definition known (H : hierarchy) (c : cls) : bool := existsb (fun p => String.eqb c (fst p)) H.

Inductive origin := Deliberate | Primitive.
Record exn := mkexn { e_cls : cls; e_org : origin }.

(* ---------------------------------------------------------------- handlers *)
Inductive action := Swallow | Convert (c : cls) | Reraise | CheckWarn.
Record clause := mkclause { c_catches : list cls; c_actions : list action }.
Record handler := mkhandler { h_id : string; h_clauses : list clause }.
(* a try statement around the site; f_ends_loop: a loop lies between the try and the site *)
Record frame := mkframe { f_id : string; f_ends_loop : bool }.

Fixpoint find_handler (hs : list handler) (id : string) : option handler :=
  match hs with
  | [] => None
  | h :: r => if String.eqb (h_id h) id then Some h else find_handler r id
  end.

Definition catches (H : hierarchy) (c : cls) (cl : clause) : bool :=
  existsb (subclass H c) (c_catches cl).

Fixpoint first_clause (H : hierarchy) (c : cls) (cls_ : list clause) : option clause :=
  match cls_ with
  | [] => None
  | cl :: r => if catches H c cl then Some cl else first_clause H c r
  end.

Inductive outcome :=
| Raised (e : exn)                    (* the exception leaves the chain *)
| Warned (c : cls) (ends_loop : bool) (* check mode: reported with warnings.warn, execution continues *)
| Recovered.                          (* a handler completed: execution continues after its try statement *)

(* clauses of the try statement a frame names ([] when the id is unknown: tables_ok excludes that) *)
Definition frame_clauses (hs : list handler) (f : frame) : list clause :=
  match find_handler hs (f_id f) with Some h => h_clauses h | None => [] end.

Fixpoint route (H : hierarchy) (hs : list handler) (check : bool) (chain : list frame) (e : exn) : list outcome :=
  match chain with
  | [] => [Raised e]
  | f :: rest =>
      match first_clause H (e_cls e) (frame_clauses hs f) with
      | None => route H hs check rest e
      | Some cl =>
          flat_map (fun a =>
            match a with
            | Swallow => [Recovered]
            | Convert d => route H hs check rest (mkexn d Deliberate)
            | Reraise => route H hs check rest e
            | CheckWarn => if check then [Warned (e_cls e) (f_ends_loop f)] else route H hs check rest e
            end) (c_actions cl)
      end
  end.

(* ---------------------------------------------------------------- the property's constants *)
Definition documented : list cls :=
  ["MalformedInputError"; "NumberConflictError"; "UnsupportedFeature"; "UnknownElement"].
Definition explicit_builtin : list cls := ["ValueError"; "TypeError"].
Definition file_not_found : cls := "FileNotFoundError".

Definition is_deliberate (o : origin) : bool := match o with Deliberate => true | Primitive => false end.

(* an exception read_input may raise: a documented type (or a subclass), a FileNotFoundError, or a ValueError/TypeError
   (or subclass) raised by a raise statement of MontePy *)
Definition controlled_exn (H : hierarchy) (e : exn) : bool :=
  existsb (subclass H (e_cls e)) documented
  || subclass H (e_cls e) file_not_found
  || (is_deliberate (e_org e) && existsb (subclass H (e_cls e)) explicit_builtin).

Definition controlled (H : hierarchy) (o : outcome) : bool :=
  match o with Raised e => controlled_exn H e | Warned _ _ => true | Recovered => true end.

(* every Convert target of the chain is a controlled class *)
Definition action_ok (H : hierarchy) (a : action) : bool :=
  match a with Convert d => controlled_exn H (mkexn d Deliberate) | _ => true end.
Definition clause_ok (H : hierarchy) (cl : clause) : bool := forallb (action_ok H) (c_actions cl).
Definition chain_ok (H : hierarchy) (hs : list handler) (chain : list frame) : bool :=
  forallb (fun f => forallb (clause_ok H) (frame_clauses hs f)) chain.

(* ---------------------------------------------------------------- sites, rows, tables *)
Inductive phase := PLoop | PPtr.       (* inside the per-input loop of parse_input / in the pointer update *)
Record site := mksite { s_name : string; s_chain : list frame; s_phase : phase }.

Inductive init_step :=
| Guard (c : cls)          (* if <test not about the tree>: raise c *)
| ParseTry (id : string)   (* try: ... self._tree = parser.parse(...) except ...  (the handler with this id) *)
| NoneCheck (c : cls)      (* if self._tree is None: raise c *)
| UseTree                  (* any other statement that mentions self._tree *)
| Other.

Inductive prim := IntConv | FloatConv | Subscript | NumLookup | Unpack | OptAttr | EnumConv | Assert | Next | Lex.

(* classes the primitive operation kinds raise (the runtime's, not MontePy's) *)
Definition prim_classes (p : prim) : list cls :=
  match p with
  | IntConv => ["ValueError"] | FloatConv => ["ValueError"] | Subscript => ["IndexError"; "KeyError"]
  | NumLookup => ["KeyError"] | Unpack => ["ValueError"] | OptAttr => ["AttributeError"]
  | EnumConv => ["ValueError"] | Assert => ["AssertionError"] | Next => ["StopIteration"] | Lex => ["LexError"]
  end.

Record raise_row := mkraise { r_site : string; r_fn : string; r_cls : cls; r_local : list frame }.
Record prim_row := mkprim { p_site : string; p_fn : string; p_kind : prim; p_local : list frame; p_count : nat }.

Record tables := mktables {
  t_hier : hierarchy;
  t_handlers : list handler;
  t_sites : list site;
  t_init : list init_step;
  t_raises : list raise_row;
  t_prims : list prim_row
}.

Fixpoint find_site (ss : list site) (n : string) : option site :=
  match ss with
  | [] => None
  | s :: r => if String.eqb (s_name s) n then Some s else find_site r n
  end.

Definition site_chain (T : tables) (n : string) : list frame :=
  match find_site (t_sites T) n with Some s => s_chain s | None => [] end.

(* routing of an exception raised at a site, below the local try statements [local] of the raising function *)
Definition route_at (T : tables) (check : bool) (sname : string) (local : list frame) (e : exn) : list outcome :=
  route (t_hier T) (t_handlers T) check (local ++ site_chain T sname) e.

(* ---------------------------------------------------------------- reflective conditions on the tables *)
Definition frame_known (T : tables) (f : frame) : bool :=
  match find_handler (t_handlers T) (f_id f) with Some _ => true | None => false end.

Definition clause_wf (H : hierarchy) (cl : clause) : bool :=
  negb (match c_actions cl with [] => true | _ => false end)
  && forallb (known H) (c_catches cl)
  && forallb (fun a => match a with Convert d => known H d | _ => true end) (c_actions cl).

(* well-formed: every frame names a handler, every class is known, no clause without an exit, the property's
   constants are classes of the hierarchy *)
Definition tables_wf (T : tables) : bool :=
  forallb (fun h => forallb (clause_wf (t_hier T)) (h_clauses h)) (t_handlers T)
  && forallb (fun s => forallb (frame_known T) (s_chain s)) (t_sites T)
  && forallb (fun r => forallb (frame_known T) (r_local r) && known (t_hier T) (r_cls r)) (t_raises T)
  && forallb (fun p => forallb (frame_known T) (p_local p)) (t_prims T)
  && forallb (known (t_hier T)) (documented ++ explicit_builtin ++ [file_not_found])
  && forallb (fun p => forallb (known (t_hier T)) (snd p)) (t_hier T).

(* C13_leak_free_handlers: no handler of ANY try statement of montepy converts into a class outside the documented /
   explicit sets, except into the classes listed as tolerated (conversions that never reach read_input's caller:
   StopIteration inside the iterator protocol) *)
Definition tolerated_convert : list cls := ["StopIteration"].
Definition handler_converts_ok (H : hierarchy) (h : handler) : bool :=
  forallb (fun cl => forallb (fun a =>
     match a with Convert d => controlled_exn H (mkexn d Deliberate) || mem d tolerated_convert | _ => true end)
     (c_actions cl)) (h_clauses h).
Definition bad_converts (T : tables) : list string :=
  map h_id (filter (fun h => negb (handler_converts_ok (t_hier T) h)) (t_handlers T)).
Definition leak_free_handlers (T : tables) : bool :=
  match bad_converts T with [] => true | _ => false end.

(* every site's chain only converts into controlled classes *)
Definition sites_chain_ok (T : tables) : bool :=
  forallb (fun s => chain_ok (t_hier T) (t_handlers T) (s_chain s)) (t_sites T).
Definition rows_chain_ok (T : tables) : bool :=
  forallb (fun r => chain_ok (t_hier T) (t_handlers T) (r_local r)) (t_raises T)
  && forallb (fun p => chain_ok (t_hier T) (t_handlers T) (p_local p)) (t_prims T).

(* MCNP_Object.__init__: the None-tree test comes after the guarded parse and before any other use of the tree,
   and raises a documented class *)
Fixpoint init_after_parse (H : hierarchy) (st : list init_step) : bool :=
  match st with
  | [] => false
  | NoneCheck c :: r => existsb (subclass H c) documented
                        && negb (existsb (fun s => match s with ParseTry _ => true | _ => false end) r)
  | UseTree :: _ => false
  | ParseTry _ :: _ => false
  | _ :: r => init_after_parse H r
  end.
Fixpoint init_ok (H : hierarchy) (st : list init_step) : bool :=
  match st with
  | [] => false
  | ParseTry _ :: r => init_after_parse H r
  | UseTree :: _ => false
  | NoneCheck _ :: _ => false
  | _ :: r => init_ok H r
  end.

(* the guarded parser call: whatever ValueError (or subclass) the parser actions raise — deliberately or through a
   failed conversion — leaves the site as a controlled exception, in normal mode *)
Definition all_controlled (H : hierarchy) (os : list outcome) : bool := forallb (controlled H) os.
Definition classes_of (H : hierarchy) : list cls := map fst H.
Definition parse_site_guards_value_errors (T : tables) : bool :=
  forallb (fun c =>
     negb (subclass (t_hier T) c "ValueError")
     || (all_controlled (t_hier T) (route_at T false "parse" [] (mkexn c Primitive))
         && all_controlled (t_hier T) (route_at T false "parse" [] (mkexn c Deliberate))))
    (classes_of (t_hier T)).

(* the same for any site and any list of root classes: every class of the hierarchy below one of the roots, raised at
   the site deliberately or by the runtime, leaves as a controlled exception (the conversion parse_input applies
   to whatever the builder of an input's object raises) *)
Definition site_guards (T : tables) (sname : string) (roots : list cls) : bool :=
  forallb (fun c =>
     negb (existsb (subclass (t_hier T) c) roots)
     || (all_controlled (t_hier T) (route_at T false sname [] (mkexn c Primitive))
         && all_controlled (t_hier T) (route_at T false sname [] (mkexn c Deliberate))))
    (classes_of (t_hier T)).

(* ---------------------------------------------------------------- "only allowed once" rules *)
(* `if T in seen: raise C(...)  ...  seen.add(Y)` of __load_data_inputs_to_object (MODE) and Cells.update_pointers
   (VOL, U, LAT, FILL): the rule rejects the second input only when what is recorded (Y) is what is tested (T) *)
Record once_rule := mkonce { o_fn : string; o_tested : string; o_added : string; o_cls : cls }.
Definition once_rule_ok (H : hierarchy) (r : once_rule) : bool :=
  String.eqb (o_tested r) (o_added r) && existsb (subclass H (o_cls r)) documented.
Definition once_rules_ok (H : hierarchy) (rules : list once_rule) (required : list string) : bool :=
  forallb (once_rule_ok H) rules
  && forallb (fun fn => existsb (fun r => String.eqb (o_fn r) fn) rules) required.
(* the n-th input of a kind under a rule: accepted when no input of the kind was recorded before *)
Definition once_second_input_rejected (r : once_rule) : bool := String.eqb (o_tested r) (o_added r).

(* ---------------------------------------------------------------- witnesses (computed) *)
(* deliberate raise statements whose routed outcome is not controlled: (site, function, class) *)
Definition raise_leaks (T : tables) : list raise_row :=
  filter (fun r => negb (all_controlled (t_hier T)
                          (route_at T false (r_site r) (r_local r) (mkexn (r_cls r) Deliberate)))) (t_raises T).

(* leak-prone primitive operations whose exception is not converted on the way out *)
Definition prim_leaks_row (T : tables) (p : prim_row) : bool :=
  negb (forallb (fun c => all_controlled (t_hier T)
                           (route_at T false (p_site p) (p_local p) (mkexn c Primitive))) (prim_classes (p_kind p))).
Definition prim_leaks (T : tables) : list prim_row := filter (prim_leaks_row T) (t_prims T).

(* check mode: is the exception reported as a warning (every possible outcome a warning or a recovery)? *)
Definition quiet (o : outcome) : bool := match o with Raised _ => false | _ => true end.
Definition check_quiet (T : tables) (sname : string) (local : list frame) (e : exn) : bool :=
  forallb quiet (route_at T true sname local e).
(* deliberate raises that still raise in check mode although they are controlled errors in normal mode *)
Definition check_mode_leaks (T : tables) : list raise_row :=
  filter (fun r => all_controlled (t_hier T) (route_at T false (r_site r) (r_local r) (mkexn (r_cls r) Deliberate))
                   && negb (check_quiet T (r_site r) (r_local r) (mkexn (r_cls r) Deliberate))) (t_raises T).

(* classes a chain reports as warnings in check mode: the first clause that handles the class (after any number of
   clauses that only re-raise it or convert it into another class) is a warn-or-reraise clause.
   -> the class the warning names and whether it ends the loop *)
Fixpoint warned_by (H : hierarchy) (hs : list handler) (chain : list frame) (c : cls) : option (cls * bool) :=
  match chain with
  | [] => None
  | f :: rest =>
      match first_clause H c (frame_clauses hs f) with
      | None => warned_by H hs rest c
      | Some cl => match c_actions cl with
                   | [CheckWarn] => Some (c, f_ends_loop f)
                   | [Reraise] => warned_by H hs rest c
                   | [Convert d] => warned_by H hs rest d
                   | _ => None
                   end
      end
  end.

(* ---------------------------------------------------------------- witness statements (used by Properties/C13.v) *)
(* a deliberate raise that is a controlled error in normal mode but still raises in check mode *)
Definition raises_in_check_mode (T : tables) (sname : string) (c : cls) : Prop :=
  exists r, In r (t_raises T) /\ r_site r = sname /\ r_cls r = c /\
    all_controlled (t_hier T) (route_at T false (r_site r) (r_local r) (mkexn (r_cls r) Deliberate)) = true /\
    check_quiet T (r_site r) (r_local r) (mkexn (r_cls r) Deliberate) = false.

Definition find_check_leak (T : tables) (sname : string) (c : cls) : option raise_row :=
  find (fun r => String.eqb (r_site r) sname && String.eqb (r_cls r) c) (check_mode_leaks T).

(* a primitive operation of a reachable function whose runtime exception leaves read_input unconverted *)
Definition leaks_primitive (T : tables) (sname fn : string) (k : prim) (c : cls) : Prop :=
  exists p, In p (t_prims T) /\ p_site p = sname /\ p_fn p = fn /\ p_kind p = k /\
    In c (prim_classes k) /\
    all_controlled (t_hier T) (route_at T false (p_site p) (p_local p) (mkexn c Primitive)) = false.

Definition prim_eqb (a b : prim) : bool :=
  match a, b with
  | IntConv, IntConv | FloatConv, FloatConv | Subscript, Subscript | NumLookup, NumLookup | Unpack, Unpack
  | OptAttr, OptAttr | EnumConv, EnumConv | Assert, Assert | Next, Next | Lex, Lex => true
  | _, _ => false
  end.

Definition find_prim_leak (T : tables) (sname fn : string) (k : prim) (c : cls) : option prim_row :=
  find (fun p => String.eqb (p_site p) sname && String.eqb (p_fn p) fn && prim_eqb (p_kind p) k
                 && mem c (prim_classes k)
                 && negb (all_controlled (t_hier T) (route_at T false (p_site p) (p_local p) (mkexn c Primitive))))
       (t_prims T).

(* rows NOT among the witnesses (for the satisfiability examples) *)
Definition find_quiet_raise (T : tables) (sname : string) (c : cls) : option raise_row :=
  find (fun r => String.eqb (r_site r) sname && String.eqb (r_cls r) c
                 && all_controlled (t_hier T) (route_at T false (r_site r) (r_local r) (mkexn (r_cls r) Deliberate))
                 && check_quiet T (r_site r) (r_local r) (mkexn (r_cls r) Deliberate)) (t_raises T).
Definition find_guarded_prim (T : tables) (sname : string) (k : prim) : option prim_row :=
  find (fun p => String.eqb (p_site p) sname && prim_eqb (p_kind p) k && negb (prim_leaks_row T p)) (t_prims T).

(* ---------------------------------------------------------------- parse_input as a sequence of events *)
(* an event: something runs at a site (below the local try statements) and raises, or not *)
Record event := mkevent { ev_chain : list frame; ev_exn : option exn }.

Inductive result :=
| Returned (warnings : list cls)       (* parse_input returned; the classes reported by warnings.warn, in order *)
| Failed (e : exn) (warnings : list cls).

(* one deterministic run: [pick] chooses among the possible exits of a clause (index into the outcome list) *)
Definition pick_outcome (os : list outcome) (k : nat) : outcome := nth k os (hd Recovered os).

Fixpoint run_ptr (H : hierarchy) (hs : list handler) (check : bool) (pick : nat) (evs : list event)
                 (ws : list cls) : result :=
  match evs with
  | [] => Returned (rev ws)
  | ev :: r =>
      match ev_exn ev with
      | None => run_ptr H hs check pick r ws
      | Some e =>
          match pick_outcome (route H hs check (ev_chain ev) e) pick with
          | Raised e' => Failed e' (rev ws)
          | Warned c _ => run_ptr H hs check pick r (c :: ws)
          | Recovered => run_ptr H hs check pick r ws
          end
      end
  end.

Fixpoint run_loop (H : hierarchy) (hs : list handler) (check : bool) (pick : nat) (loop ptr : list event)
                  (ws : list cls) : result :=
  match loop with
  | [] => run_ptr H hs check pick ptr ws
  | ev :: r =>
      match ev_exn ev with
      | None => run_loop H hs check pick r ptr ws
      | Some e =>
          match pick_outcome (route H hs check (ev_chain ev) e) pick with
          | Raised e' => Failed e' (rev ws)
          | Warned c true => run_ptr H hs check pick ptr (c :: ws)      (* the handler is outside the loop *)
          | Warned c false => run_loop H hs check pick r ptr (c :: ws)
          | Recovered => run_loop H hs check pick r ptr ws
          end
      end
  end.

Definition run_problem (H : hierarchy) (hs : list handler) (check : bool) (pick : nat)
                       (loop ptr : list event) : result := run_loop H hs check pick loop ptr [].

(* an event whose exception (if any) every possible routing reports as a warning that does not end the loop *)
Definition event_quiet (H : hierarchy) (hs : list handler) (ev : event) : bool :=
  match ev_exn ev with
  | None => true
  | Some e => match route H hs true (ev_chain ev) e with
              | [Warned _ false] => true
              | _ => false
              end
  end.
(* the class the warning of a quiet event names (the class the warning handler saw: after a conversion on the way
   that is the converted class) *)
Definition event_warning (H : hierarchy) (hs : list handler) (ev : event) : list cls :=
  match ev_exn ev with
  | None => []
  | Some e => match route H hs true (ev_chain ev) e with
              | [Warned c _] => [c]
              | _ => []
              end
  end.

(* ---------------------------------------------------------------- wire *)
(* hierarchy:  C>A1,A2;D>...           handler (clauses): caught,caught>act,act;...   act: S | R | W | C<class>
   chain:      <0|1>!<clauses>/<0|1>!<clauses>...   or  -                                                     *)
Definition nonempty (l : list string) : list string := filter (fun w => negb (String.eqb w "")) l.

Definition parse_hier (s : string) : hierarchy :=
  map (fun item => match split_on ">"%char item with
                   | [c; a] => (c, nonempty (split_on ","%char a))
                   | [c] => (c, [])
                   | _ => (item, [])
                   end) (nonempty (split_on ";"%char s)).

Definition parse_action (s : string) : action :=
  match s with
  | "S" => Swallow
  | "R" => Reraise
  | "W" => CheckWarn
  | String "C"%char d => Convert d
  | _ => Swallow
  end.

Definition parse_clauses (s : string) : list clause :=
  map (fun item => match split_on ">"%char item with
                   | [c; a] => mkclause (nonempty (split_on ","%char c)) (map parse_action (nonempty (split_on ","%char a)))
                   | _ => mkclause [] []
                   end) (nonempty (split_on ";"%char s)).

(* a wire chain carries its own handlers: frame k gets the id "k" *)
Fixpoint parse_chain_aux (items : list string) (k : nat) : list frame * list handler :=
  match items with
  | [] => ([], [])
  | it :: r =>
      let '(fs, hs) := parse_chain_aux r (S k) in
      let id := show_nat k in
      match split_on "!"%char it with
      | [b; c] => (mkframe id (String.eqb b "1") :: fs, mkhandler id (parse_clauses c) :: hs)
      | _ => (fs, hs)
      end
  end.
Definition parse_chain (s : string) : list frame * list handler :=
  if String.eqb s "-" then ([], []) else parse_chain_aux (nonempty (split_on "/"%char s)) 0.

Definition show_origin (o : origin) : string := match o with Deliberate => "D" | Primitive => "P" end.
Definition show_outcome (o : outcome) : string :=
  match o with
  | Raised e => "raise:" ++ e_cls e ++ ":" ++ show_origin (e_org e)
  | Warned c b => "warn:" ++ c ++ ":" ++ (if b then "1" else "0")
  | Recovered => "recovered"
  end.

(* request:  route <0|1 check> <class> <D|P> <hierarchy wire> <chain wire>
   answer :  outcomes separated by ',' *)
Definition run_Exn (req : string) : string :=
  match words req with
  | ["route"; chk; c; o; hw; cw] =>
      let H := parse_hier hw in
      let '(fs, hs) := parse_chain cw in
      let e := mkexn c (if String.eqb o "D" then Deliberate else Primitive) in
      join "," (map show_outcome (route H hs (String.eqb chk "1") fs e))
  | ["subclass"; c; d; hw] => if subclass (parse_hier hw) c d then "1" else "0"
  | ["controlled"; c; o; hw] =>
      if controlled_exn (parse_hier hw) (mkexn c (if String.eqb o "D" then Deliberate else Primitive)) then "1" else "0"
  | _ => "bad-request"
  end.

(* the generated wire strings denote the generated tables: same hierarchy, and for every site the wire chain routes
   every known class exactly like the table chain (checked on all classes, both origins, both modes) *)
Definition outcome_eqb (a b : outcome) : bool := String.eqb (show_outcome a) (show_outcome b).
Fixpoint list_eqb {A} (eq : A -> A -> bool) (a b : list A) : bool :=
  match a, b with
  | [], [] => true
  | x :: r, y :: s => eq x y && list_eqb eq r s
  | _, _ => false
  end.
Definition hier_eqb (a b : hierarchy) : bool :=
  list_eqb (fun p q => String.eqb (fst p) (fst q) && list_eqb String.eqb (snd p) (snd q)) a b.

Definition site_wire_ok (T : tables) (sw : string * string) : bool :=
  match find_site (t_sites T) (fst sw) with
  | None => false
  | Some s =>
      let '(fs, hs) := parse_chain (snd sw) in
      forallb (fun c => forallb (fun o => forallb (fun chk =>
         list_eqb outcome_eqb (route (t_hier T) hs chk fs (mkexn c o))
                              (route (t_hier T) (t_handlers T) chk (s_chain s) (mkexn c o)))
         [true; false]) [Deliberate; Primitive]) (classes_of (t_hier T))
  end.
Definition wire_ok (T : tables) (hw : string) (sws : list (string * string)) : bool :=
  hier_eqb (parse_hier hw) (t_hier T)
  && forallb (site_wire_ok T) sws
  && Nat.eqb (List.length sws) (List.length (t_sites T)).
