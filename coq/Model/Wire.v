(* Wire.v — tiny request/response text protocol shared by every executable model.
   A request is one line of printable ASCII; fields are separated by single blanks;
   integers are decimal with an optional leading '-'; arbitrary strings travel
   hex-encoded.  No proofs here. *)
From Coq Require Import List String Ascii ZArith Bool.
Import ListNotations.
Open Scope string_scope.

Fixpoint split_on_aux (c : ascii) (s : string) (cur : string) : list string :=
  match s with
  | EmptyString => [cur]
  | String a r =>
      if Ascii.eqb a c then cur :: split_on_aux c r EmptyString
      else split_on_aux c r (cur ++ String a EmptyString)
  end.
Definition split_on (c : ascii) (s : string) : list string := split_on_aux c s EmptyString.

Definition words (s : string) : list string :=
  filter (fun w => negb (String.eqb w "")) (split_on " "%char s).

Fixpoint join (sep : string) (l : list string) : string :=
  match l with
  | [] => ""
  | [x] => x
  | x :: r => x ++ sep ++ join sep r
  end.

Definition digit_of (a : ascii) : option Z :=
  let n := Z.of_nat (nat_of_ascii a) in
  if andb (48 <=? n)%Z (n <=? 57)%Z then Some (n - 48)%Z else None.

Fixpoint parse_nat_acc (s : string) (acc : Z) : option Z :=
  match s with
  | EmptyString => Some acc
  | String a r => match digit_of a with
                  | Some d => parse_nat_acc r (acc * 10 + d)%Z
                  | None => None
                  end
  end.

Definition parse_Z (s : string) : option Z :=
  match s with
  | EmptyString => None
  | String "-"%char r => match r with
                         | EmptyString => None
                         | _ => option_map Z.opp (parse_nat_acc r 0%Z)
                         end
  | _ => parse_nat_acc s 0%Z
  end.

Definition digit_char (d : Z) : ascii := ascii_of_nat (Z.to_nat (48 + d)).

Fixpoint show_pos_fuel (fuel : nat) (z : Z) (acc : string) : string :=
  match fuel with
  | O => acc
  | S f => let acc' := String (digit_char (z mod 10)) acc in
           if (z <? 10)%Z then acc' else show_pos_fuel f (z / 10)%Z acc'
  end.

Definition show_Z (z : Z) : string :=
  let a := Z.abs z in
  let fuel := S (Z.to_nat (Z.log2 a)) in
  let body := show_pos_fuel fuel a "" in
  if (z <? 0)%Z then String "-"%char body else body.

Definition show_nat (n : nat) : string := show_Z (Z.of_nat n).
Definition parse_nat (s : string) : option nat :=
  match parse_Z s with
  | Some z => if (z <? 0)%Z then None else Some (Z.to_nat z)
  | None => None
  end.

Definition hexval (a : ascii) : option nat :=
  let n := nat_of_ascii a in
  if andb (Nat.leb 48 n) (Nat.leb n 57) then Some (n - 48)
  else if andb (Nat.leb 97 n) (Nat.leb n 102) then Some (n - 87)
  else if andb (Nat.leb 65 n) (Nat.leb n 70) then Some (n - 55)
  else None.

Fixpoint hex_decode (s : string) : string :=
  match s with
  | String a (String b r) =>
      match hexval a, hexval b with
      | Some x, Some y => String (ascii_of_nat (16 * x + y)) (hex_decode r)
      | _, _ => EmptyString
      end
  | _ => EmptyString
  end.

Definition hexdigit (n : nat) : ascii :=
  if Nat.ltb n 10 then ascii_of_nat (48 + n) else ascii_of_nat (87 + n).

Fixpoint hex_encode (s : string) : string :=
  match s with
  | EmptyString => EmptyString
  | String a r => let n := nat_of_ascii a in
                  String (hexdigit (n / 16)) (String (hexdigit (n mod 16)) (hex_encode r))
  end.

Fixpoint map_opt {A B} (f : A -> option B) (l : list A) : option (list B) :=
  match l with
  | [] => Some []
  | x :: r => match f x, map_opt f r with
              | Some y, Some ys => Some (y :: ys)
              | _, _ => None
              end
  end.

(* comma separated lists; the empty list is written "-" *)
Definition parse_list {A} (f : string -> option A) (s : string) : option (list A) :=
  if String.eqb s "-" then Some [] else map_opt f (split_on ","%char s).
Definition show_list {A} (f : A -> string) (l : list A) : string :=
  match l with [] => "-" | _ => join "," (map f l) end.

(* cross-check helper: indices of the cases on which [run] disagrees with the expected text *)
Fixpoint mismatches_from (run : string -> string) (i : nat) (cs : list (string * string)) : list nat :=
  match cs with
  | [] => []
  | (q, a) :: r => if String.eqb (run q) a then mismatches_from run (S i) r
                   else i :: mismatches_from run (S i) r
  end.
Definition mismatches run cs := mismatches_from run 0 cs.
