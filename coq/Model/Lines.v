(* Lines.v — executable model of MontePy's line-level reader, and an independent statement of
   MCNP's own card-splitting rules.

   Modelled (source):
     montepy/input_parser/input_file.py   MCNP_InputFile.__iter__ (binary file iteration: lines end at LF)
                                          and _clean_line (bytes >= ASCII_CEILING -> blank, CRLF / CR -> LF)
     montepy/utilities.py                 is_comment
     montepy/input_parser/input_syntax_reader.py
                                          read_front_matters, read_data (flush_block, flush_input without the
                                          read-card test, which is ReadQ.v), str.expandtabs(TABSIZE),
                                          truncation to get_max_line_length(version) with the warning path,
                                          the "vertical format" check, block counter (the top-level file is
                                          read up to the end of its third block), has_non_comments,
                                          continue_input (which flush_input does NOT reset: its assignment is
                                          local to the nested function)
     Python str methods used there         strip / rstrip / lstrip / upper / startswith / endswith / split
   NOT modelled: the SLY lexers / parsers (token level); warnings are only counted.
   The second half (the spec_ functions) is written separately from the model and follows DESIGN.md 3.1 S1, S4-S7.
   No proofs in this file. *)
From Coq Require Import List String Ascii Arith Bool Lia.
From MPV Require Import Model.Wire.
Import ListNotations.
Open Scope string_scope.

(* ------------------------------------------------------------------ constants (montepy/constants.py) *)
Definition BLANK_SPACE_CONTINUE : nat := 5.
Definition TABSIZE : nat := 8.
Definition ASCII_CEILING : nat := 127.

Definition nl : ascii := "010"%char.
Definition cr : ascii := "013"%char.
Definition tab : ascii := "009"%char.
Definition sp : ascii := " "%char.

(* ------------------------------------------------------------------ Python str helpers *)
(* str.isspace() on an ASCII character: \t \n \v \f \r, \x1c-\x1f, blank *)
Definition py_space (a : ascii) : bool :=
  let n := nat_of_ascii a in
  orb (andb (Nat.leb 9 n) (Nat.leb n 13)) (andb (Nat.leb 28 n) (Nat.leb n 32)).

Fixpoint all_space (s : string) : bool :=
  match s with
  | EmptyString => true
  | String a r => andb (py_space a) (all_space r)
  end.

Fixpoint lstrip (s : string) : string :=
  match s with
  | EmptyString => EmptyString
  | String a r => if py_space a then lstrip r else s
  end.

Fixpoint rstrip (s : string) : string :=
  match s with
  | EmptyString => EmptyString
  | String a r => if all_space s then EmptyString else String a (rstrip r)
  end.

Definition strip (s : string) : string := lstrip (rstrip s).

Definition up (a : ascii) : ascii :=
  let n := nat_of_ascii a in
  if andb (Nat.leb 97 n) (Nat.leb n 122) then ascii_of_nat (n - 32) else a.
Definition low (a : ascii) : ascii :=
  let n := nat_of_ascii a in
  if andb (Nat.leb 65 n) (Nat.leb n 90) then ascii_of_nat (n + 32) else a.

Fixpoint smap (f : ascii -> ascii) (s : string) : string :=
  match s with
  | EmptyString => EmptyString
  | String a r => String (f a) (smap f r)
  end.
Definition upper := smap up.
Definition lower := smap low.

Fixpoint takeS (n : nat) (s : string) : string :=
  match n, s with
  | O, _ => ""
  | _, EmptyString => ""
  | S k, String a r => String a (takeS k r)
  end.
Fixpoint dropS (n : nat) (s : string) : string :=
  match n, s with
  | O, _ => s
  | _, EmptyString => ""
  | S k, String a r => dropS k r
  end.

Fixpoint contains (c : ascii) (s : string) : bool :=
  match s with
  | EmptyString => false
  | String a r => orb (Ascii.eqb a c) (contains c r)
  end.

Definition is_empty (s : string) : bool := match s with EmptyString => true | _ => false end.

(* s.endswith(suf) *)
Fixpoint ends_with (suf s : string) : bool :=
  match s with
  | EmptyString => is_empty suf
  | String _ r => orb (String.eqb s suf) (ends_with suf r)
  end.

(* ------------------------------------------------------------------ input_file.py *)
(* bytes of one line -> str : codes >= 127 become blanks, then "\r\n" -> "\n", then "\r" -> "\n" *)
Definition clean_byte (a : ascii) : ascii :=
  if Nat.ltb (nat_of_ascii a) ASCII_CEILING then a else sp.

Fixpoint replace_crlf (s : string) : string :=
  match s with
  | String a ((String b _) as r) =>
      if andb (Ascii.eqb a cr) (Ascii.eqb b nl) then replace_crlf r else String a (replace_crlf r)
  | String a EmptyString => String a EmptyString
  | EmptyString => EmptyString
  end.
Definition replace_cr (s : string) : string := smap (fun a => if Ascii.eqb a cr then nl else a) s.

Definition clean_line (bytes : string) : string := replace_cr (replace_crlf (smap clean_byte bytes)).

(* iteration over a file opened "rb": every line ends after an LF (kept), the last one may lack it *)
Fixpoint split_lines (s : string) : list string :=
  match s with
  | EmptyString => []
  | String a r =>
      if Ascii.eqb a nl then String a "" :: split_lines r
      else match split_lines r with
           | [] => [String a ""]
           | l :: ls => String a l :: ls
           end
  end.

Definition file_lines (bytes : string) : list string := map clean_line (split_lines bytes).

(* ------------------------------------------------------------------ str.expandtabs *)
Fixpoint blanks (n : nat) (rest : string) : string :=
  match n with O => rest | S k => String sp (blanks k rest) end.

Fixpoint expandtabs_from (tabsize col : nat) (s : string) : string :=
  match s with
  | EmptyString => EmptyString
  | String a r =>
      if Ascii.eqb a tab then
        match tabsize with
        | O => expandtabs_from tabsize col r
        | _ => let incr := tabsize - (col mod tabsize) in
               blanks incr (expandtabs_from tabsize (col + incr) r)
        end
      else if orb (Ascii.eqb a nl) (Ascii.eqb a cr) then String a (expandtabs_from tabsize 0 r)
      else String a (expandtabs_from tabsize (S col) r)
  end.
Definition expandtabs (tabsize : nat) (s : string) : string := expandtabs_from tabsize 0 s.

(* ------------------------------------------------------------------ utilities.is_comment *)
Definition is_comment (line : string) : bool :=
  let upper_start := upper (takeS (BLANK_SPACE_CONTINUE + 1) line) in
  let non_blank_comment := andb (negb (is_empty upper_start)) (String.prefix "C " (upper (lstrip line))) in
  if non_blank_comment then true
  else orb (andb (String.eqb (strip upper_start) "C") (contains nl line))
           (andb (String.eqb upper_start "C") (negb (contains nl line))).

(* ------------------------------------------------------------------ read_front_matters *)
Record front := mkFront {
  f_message : option (list string);   (* Message.lines *)
  f_title : option string;            (* Title.title *)
  f_rest : list string                (* what read_data will iterate over *)
}.

Fixpoint message_loop (ls : list string) (acc : list string) : front :=
  match ls with
  | [] => mkFront None None []                       (* unterminated message block: nothing is yielded *)
  | l :: r =>
      if all_space l then
        match r with
        | [] => mkFront (Some acc) None []
        | t :: r' => mkFront (Some acc) (Some (rstrip t)) r'
        end
      else message_loop r (List.app acc [rstrip l])
  end.

Definition read_front_matters (ls : list string) : front :=
  match ls with
  | [] => mkFront None None []
  | l0 :: r =>
      if String.prefix "MESSAGE:" (upper l0)
      then message_loop r [rstrip (dropS 9 l0)]
      else mkFront None (Some (rstrip l0)) r
  end.

(* ------------------------------------------------------------------ read_data *)
Record input := mkInput { i_bt : nat; i_lines : list string; i_start : nat }.

Inductive rd_err := UnsupportedFeature.

Definition nonempty {A} (l : list A) : bool := match l with [] => false | _ => true end.

Definition mk_input (bt : nat) (raw : list string) (lineno : nat) : input :=
  mkInput bt raw (lineno + 1 - List.length raw).

Definition flush (bt : nat) (raw : list string) (lineno : nat) : list input :=
  if nonempty raw then [mk_input bt raw lineno] else [].

(* continue_input (commit 2db4963):
       if not (line_is_comment and line[0:BLANK_SPACE_CONTINUE].strip()):
           continue_input = "$" not in line and line.rstrip().endswith(" &")   *)
Definition amp_data (line' : string) : bool :=
  andb (negb (contains "$"%char line'))
       (ends_with (String sp (String "&"%char "")) (rstrip line')).

(* one step is one physical line; [lineno] = number of lines already read by this call;
   [rec] = read_data's recursion argument (True for the files pulled in by read cards): the top-level file is
   only read up to the blank line that ends its third block *)
Fixpoint rd_loop (w : nat) (rec : bool) (ls : list string) (lineno bc bt : nat) (cont hnc : bool) (raw : list string)
  : list input * option rd_err :=
  match ls with
  | [] => (flush bt raw lineno, None)
  | l :: r =>
      let lineno' := S lineno in
      let line := expandtabs TABSIZE l in
      let c := is_comment line in
      if all_space line then
        let bc' := S bc in
        let bt' := if Nat.ltb bc' 3 then bc' else bt in
        if andb (Nat.leb 3 bc') (negb rec) then (flush bt raw lineno', None)
        else
          let (out, e) := rd_loop w rec r lineno' bc' bt' cont false [] in
          (List.app (flush bt raw lineno') out, e)
      else
        let newinp := andb (negb (all_space (takeS BLANK_SPACE_CONTINUE line)))
                     (andb (negb cont) (andb (negb c) (andb hnc (nonempty raw)))) in
        let pre := if newinp then flush bt raw lineno' else [] in
        let raw1 := if newinp then [] else raw in
        if andb (contains "#"%char (takeS BLANK_SPACE_CONTINUE line)) (negb c)
        then (pre, Some UnsupportedFeature)
        else
          let line' := takeS w line in
          let cont' := if andb c (negb (all_space (takeS BLANK_SPACE_CONTINUE line))) then cont
                       else amp_data line' in
          let (out, e) := rd_loop w rec r lineno' bc bt cont' (orb hnc (negb c)) (List.app raw1 [rstrip line']) in
          (List.app pre out, e)
  end.

(* read_data(fh, version, block_type) : recursion defaults to False *)
Definition read_data_from (w : nat) (bt : nat) (ls : list string) : list input * option rd_err :=
  rd_loop w false ls 0 0 bt false false [].

(* read_data(fh, version, block_type, True) : a file pulled in by a read card *)
Definition read_data_sub_from (w : nat) (bt : nat) (ls : list string) : list input * option rd_err :=
  rd_loop w true ls 0 0 bt false false [].

Definition read_data (w : nat) (ls : list string) : list input := fst (read_data_from w 0 ls).

(* LineOverRunWarning: one per processed line that is cut (blank lines, everything from the first
   vertical-format line on and, in the top-level file, everything after the third block are not processed) *)
Fixpoint overrun_from (w : nat) (rec : bool) (bc : nat) (ls : list string) : nat :=
  match ls with
  | [] => 0
  | l :: r =>
      let line := expandtabs TABSIZE l in
      if all_space line then
        (if andb (Nat.leb 3 (S bc)) (negb rec) then 0 else overrun_from w rec (S bc) r)
      else if andb (contains "#"%char (takeS BLANK_SPACE_CONTINUE line)) (negb (is_comment line)) then 0
      else (if Nat.ltb w (String.length line) then 1 else 0) + overrun_from w rec bc r
  end.
Definition overrun_count (w : nat) (ls : list string) : nat := overrun_from w false 0 ls.
Definition overrun_count_sub (w : nat) (ls : list string) : nat := overrun_from w true 0 ls.

(* whole top-level file, from its bytes *)
Record file_result := mkFile {
  fr_message : option (list string);
  fr_title : option string;
  fr_inputs : list input;
  fr_err : option rd_err;
  fr_warn : nat
}.

Definition read_file (w : nat) (bytes : string) : file_result :=
  let fm := read_front_matters (file_lines bytes) in
  let (ins, e) := read_data_from w 0 (f_rest fm) in
  mkFile (f_message fm) (f_title fm) ins e (overrun_count w (f_rest fm)).

Definition cards_of (ins : list input) : list (nat * list string) :=
  map (fun i => (i_bt i, i_lines i)) ins.

(* ================================================================== MCNP's rules, stated independently
   S1 physical line: no end-of-line character, each tab replaced by blanks up to the next multiple of 8
      columns, columns beyond the limit ignored.
   S4 blocks are separated by blank lines; only the first three blocks are the problem.
   S5 comment line: C or c in columns 1-5 preceded only by blanks, followed by a blank or the end of the line.
   S6 '$' ends the data of a line.
   S7 a card starts at a non-comment line with a non-blank in columns 1-5 that does not follow a line whose
      data ends in " &" (comment lines in between do not count); every other line continues the card.
      The first non-comment line of a block has no card to continue, so it starts one.
   Comment lines between two cards are listed with the card before them, those before the first card of a
   block with that first card (the same attribution MontePy uses, so that the comparison is line by line). *)
Definition is_blank (a : ascii) : bool := Ascii.eqb a sp.

Fixpoint all_blank (s : string) : bool :=
  match s with
  | EmptyString => true
  | String a r => andb (is_blank a) (all_blank r)
  end.

Fixpoint rstrip_blanks (s : string) : string :=
  match s with
  | EmptyString => EmptyString
  | String a r => if all_blank s then EmptyString else String a (rstrip_blanks r)
  end.

Fixpoint chomp (s : string) : string :=      (* text of the line without its line end *)
  match s with
  | EmptyString => EmptyString
  | String a r => if orb (Ascii.eqb a nl) (Ascii.eqb a cr) then EmptyString else String a (chomp r)
  end.

(* S1: the character at column [col] (0-based); a tab fills up to the next multiple of 8 *)
Fixpoint spec_expand_from (col : nat) (s : string) : string :=
  match s with
  | EmptyString => EmptyString
  | String a r =>
      if Ascii.eqb a tab then
        let next := 8 * S (col / 8) in
        blanks (next - col) (spec_expand_from next r)
      else String a (spec_expand_from (S col) r)
  end.

Definition spec_line (w : nat) (l : string) : string := takeS w (spec_expand_from 0 (chomp l)).

(* S5 *)
Fixpoint spec_comment_from (k : nat) (s : string) : bool :=
  match s with
  | EmptyString => false
  | String a r =>
      if orb (Ascii.eqb a "c"%char) (Ascii.eqb a "C"%char)
      then match r with EmptyString => true | String b _ => is_blank b end
      else match k with
           | O => false
           | S k' => andb (is_blank a) (spec_comment_from k' r)
           end
  end.
Definition spec_comment (l : string) : bool := spec_comment_from 4 l.

(* S6 *)
Fixpoint spec_data (l : string) : string :=
  match l with
  | EmptyString => EmptyString
  | String a r => if Ascii.eqb a "$"%char then EmptyString else String a (spec_data r)
  end.

(* S7 *)
Definition spec_amp (l : string) : bool :=
  ends_with (String sp (String "&"%char "")) (rstrip_blanks (spec_data l)).
Definition spec_cols15 (l : string) : bool := negb (all_blank (takeS 5 l)).

(* forward pass: which lines start a card *)
Fixpoint spec_mark (first amp : bool) (ls : list string) : list (string * bool) :=
  match ls with
  | [] => []
  | l :: r =>
      if spec_comment l then (l, false) :: spec_mark first amp r
      else (l, orb first (andb (spec_cols15 l) (negb amp))) :: spec_mark false (spec_amp l) r
  end.

(* backward pass: group the lines at the start marks; the first component is the run of lines before
   the first mark *)
Fixpoint spec_group (ms : list (string * bool)) : list string * list (list string) :=
  match ms with
  | [] => ([], [])
  | (l, st) :: r =>
      let (pre, gs) := spec_group r in
      if st then ([], (l :: pre) :: gs) else (l :: pre, gs)
  end.

Definition spec_block_cards (ls : list string) : list (list string) :=
  match spec_group (spec_mark true false ls) with
  | (pre, []) => []                         (* only comment lines: no card *)
  | (pre, g :: gs) => (List.app pre g) :: gs
  end.

(* S4: the lines up to the first blank line, and what follows that blank line (None: no blank line) *)
Fixpoint spec_cut (ls : list string) : list string * option (list string) :=
  match ls with
  | [] => ([], None)
  | l :: r =>
      if all_blank l then ([], Some r)
      else let (b, t) := spec_cut r in (l :: b, t)
  end.

(* the first n blocks, numbered from bi *)
Fixpoint spec_blocks (n bi : nat) (ls : list string) : list (nat * list string) :=
  match n with
  | O => []
  | S k =>
      let (b, t) := spec_cut ls in
      (bi, b) :: match t with None => [] | Some r => spec_blocks k (S bi) r end
  end.

Definition spec_cards (w : nat) (f : list string) : list (nat * list string) :=
  flat_map (fun nb => map (fun c => (fst nb, map rstrip_blanks c)) (spec_block_cards (snd nb)))
           (spec_blocks 3 0 (map (spec_line w) f)).

(* ------------------------------------------------------------------ the files on which MontePy's splitter is
   claimed to follow these rules (C11_split_agrees); every clause excludes one observed disagreement, each shown
   by a _refuted theorem in Properties/C11.v.  Executable, so that the harness can evaluate it on real files.
     per line: ends with LF, otherwise printable ASCII or tabs; fits the limit including the LF (MontePy cuts at
       w characters counting the LF); a 'c' that is the first non-blank of the line is not at or beyond column 6
       (MontePy's is_comment accepts it at any column if a blank follows, and at column 6 whatever follows);
     data lines: no '#' in columns 1-5 (MontePy raises UnsupportedFeature: vertical format); the line is continued
       by '&' exactly when it ends in " &" (no blanks after the '&', no '&' at the end of a '$' comment);
     comment lines: do not end in " &", and do not directly follow a line continued by '&';
     blocks: no block consists of comment lines only; nothing but blank lines after the third block. *)
Definition printable (a : ascii) : bool :=
  let n := nat_of_ascii a in
  orb (andb (Nat.leb 32 n) (Nat.leb n 126)) (Ascii.eqb a tab).

Fixpoint body_ok (l : string) : bool :=
  match l with
  | EmptyString => false
  | String a EmptyString => Ascii.eqb a nl
  | String a r => andb (printable a) (body_ok r)
  end.

(* the first non-blank character is a c at index >= 5 that MontePy's is_comment takes for a comment mark:
   exactly at index 5 (whatever follows), or beyond when a blank follows *)
Fixpoint late_c_from (k : nat) (s : string) : bool :=
  match s with
  | EmptyString => false
  | String a r =>
      if is_blank a then late_c_from (S k) r
      else andb (orb (Ascii.eqb a "c"%char) (Ascii.eqb a "C"%char))
                (andb (Nat.leb 5 k)
                      (orb (Nat.eqb k 5) (match r with EmptyString => false | String b _ => is_blank b end)))
  end.
Definition late_c (x : string) : bool := late_c_from 0 x.

Definition amp_suffix (x : string) : bool := ends_with (String sp (String "&"%char "")) x.

Fixpoint wf_from (w bi : nat) (first amp cm : bool) (f : list string) : bool :=
  match f with
  | [] => negb (andb first cm)
  | l :: r =>
      let x := spec_line w l in
      andb (body_ok l) (andb (Nat.leb (String.length (expandtabs TABSIZE l)) w)
      (if all_blank x then andb (negb (andb first cm)) (wf_from w (S bi) true false false r)
       else andb (Nat.ltb bi 3) (andb (negb (late_c x))
        (if spec_comment x then andb (negb amp) (andb (negb (amp_suffix x)) (wf_from w bi first false true r))
         else andb (negb (contains "#"%char (takeS 5 x)))
              (andb (Bool.eqb (spec_amp x) (amp_suffix x)) (wf_from w bi false (spec_amp x) cm r))))))
  end.

Definition wf_lines (w : nat) (f : list string) : bool := wf_from w 0 true false false f.

(* ================================================================== C11: logical content
   The logical content of an input: its block type and the words of its data, i.e. of every line that is not a
   comment line (rule S5 on the stored line) the maximal runs of non-blank characters before the first '$',
   without the words "&" (MontePy's grammar: padding ::= padding "&").  Start line numbers, comment texts, blank
   runs and the way the words are spread over lines are not part of it. *)
Definition not_amp (s : string) : bool := negb (String.eqb s "&").

Definition line_words (x : string) : list string :=
  if spec_comment x then [] else filter not_amp (words (spec_data x)).

Definition logical_input (i : input) : nat * list string := (i_bt i, flat_map line_words (i_lines i)).
Definition logical (ins : list input) : list (nat * list string) := map logical_input ins.

(* what a whole file (list of raw lines as iterated from the binary file) is read as *)
Definition obs := (option string * list (nat * list string) * option rd_err)%type.

Definition read_lines (w : nat) (f : list string) : obs :=
  let fm := read_front_matters (map clean_line f) in
  let (ins, e) := read_data_from w 0 (f_rest fm) in (f_title fm, logical ins, e).

(* every line has at most w columns (tabs expanded, the line end not counted) *)
Definition within_limit (w : nat) (f : list string) : bool :=
  forallb (fun l => Nat.leb (String.length (chomp (expandtabs TABSIZE (clean_line l)))) w) f.

(* ================================================================== wire
   lines travel hex-encoded, joined by ',' ; "-" is the empty list
     data <w> <bt> <hexbytes>     read_data(fh, version, bt) on the cleaned lines of the bytes
     sub <w> <bt> <hexbytes>      read_data(fh, version, bt, True): a file pulled in by a read card
     file <w> <hexbytes>          whole top-level file
     spec <w> <hexbytes>          spec_cards on the cleaned lines after the front matter
     wf <w> <hexbytes>            wf_lines on the cleaned lines after the front matter
     logical <w> <hexbytes>       read_lines (title, logical inputs, error), within_limit
     iscomment <hex>   clean <hex>   expand <hex>   lines <hexbytes> *)
Definition show_input (i : input) : string :=
  show_nat (i_bt i) ++ ":" ++ show_nat (i_start i) ++ ":" ++ show_list hex_encode (i_lines i).

Definition show_inputs (l : list input) : string :=
  match l with [] => "-" | _ => join ";" (map show_input l) end.

Definition show_err (e : option rd_err) : string :=
  match e with None => "ok" | Some UnsupportedFeature => "UnsupportedFeature" end.

Definition show_opt (o : option string) : string :=
  match o with None => "none" | Some s => "s" ++ hex_encode s end.

Definition show_card (c : nat * list string) : string :=
  show_nat (fst c) ++ ":" ++ show_list hex_encode (snd c).

Definition run_Lines (req : string) : string :=
  match words req with
  | ["data"; w; bt; h] =>
      match parse_nat w, parse_nat bt with
      | Some W, Some B =>
          let ls := file_lines (hex_decode h) in
          let (ins, e) := read_data_from W B ls in
          show_inputs ins ++ " " ++ show_err e ++ " " ++ show_nat (overrun_count W ls)
      | _, _ => "parse:err"
      end
  | ["sub"; w; bt; h] =>
      match parse_nat w, parse_nat bt with
      | Some W, Some B =>
          let ls := file_lines (hex_decode h) in
          let (ins, e) := read_data_sub_from W B ls in
          show_inputs ins ++ " " ++ show_err e ++ " " ++ show_nat (overrun_count_sub W ls)
      | _, _ => "parse:err"
      end
  | ["file"; w; h] =>
      match parse_nat w with
      | Some W =>
          let r := read_file W (hex_decode h) in
          (match fr_message r with None => "none" | Some m => "m" ++ show_list hex_encode m end) ++ " " ++
          show_opt (fr_title r) ++ " " ++ show_inputs (fr_inputs r) ++ " " ++ show_err (fr_err r) ++ " " ++
          show_nat (fr_warn r)
      | None => "parse:err"
      end
  | ["spec"; w; h] =>
      match parse_nat w with
      | Some W =>
          let fm := read_front_matters (file_lines (hex_decode h)) in
          match spec_cards W (f_rest fm) with
          | [] => "-"
          | cs => join ";" (map show_card cs)
          end
      | None => "parse:err"
      end
  | ["wf"; w; h] =>
      match parse_nat w with
      | Some W => if wf_lines W (f_rest (read_front_matters (file_lines (hex_decode h)))) then "1" else "0"
      | None => "parse:err"
      end
  | ["logical"; w; h] =>
      match parse_nat w with
      | Some W =>
          let f := split_lines (hex_decode h) in
          let show_o (o : obs) :=
            match o with (t, lg, e) =>
              show_opt t ++ " " ++
              (match lg with [] => "-" | _ => join ";" (map (fun c => show_nat (fst c) ++ ":" ++ show_list hex_encode (snd c)) lg) end)
              ++ " " ++ show_err e end in
          show_o (read_lines W f) ++ " " ++ (if within_limit W f then "1" else "0")
      | None => "parse:err"
      end
  | ["iscomment"; h] => if is_comment (hex_decode h) then "1" else "0"
  | ["clean"; h] => hex_encode (clean_line (hex_decode h))
  | ["expand"; h] => hex_encode (expandtabs TABSIZE (hex_decode h))
  | ["lines"; h] => show_list hex_encode (file_lines (hex_decode h))
  | _ => "parse:err"
  end.
